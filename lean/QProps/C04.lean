import QProofs.C04
import QProofs.C04Ineq
import QGen.C04
/-!
# C04 — equality / inequality projections are nearest-point projections: property theorems

Part 1 (this section): the four equality projections of `QModel.C04`, over an arbitrary linearly ordered
field `K` (so literally for the executed instance `Rat`), for all `d` (`n = d²` is arbitrary here), all
outcome counts `m`: membership, orthogonality of the residual to every feasible direction, nearest point,
uniqueness, idempotence, fixed points; object level = variable level: with content for flag True (all four types) and for the Gate
flat-index routine with flag False; for State / Povm / MProcess with flag False the statement is definitional in the model (the
separate `_with_var` code sites are tied by the correspondence and the oracle).  Purity (argument unchanged) is NOT a theorem:
snapshots in the correspondence / oracle only.
-/
open Finset
namespace QM.C04

variable {K : Type} [Field K] [LinearOrder K] [IsStrictOrderedRing K] {m n : Nat}

/-! ## State -/

/-- C04.1 (State) membership: the projected vector satisfies the constraint exactly. -/
theorem state_projEq_mem (s : K) (v : Vec K n) : State.Feas s (State.projEq s v) := by
  intro i hi; simp [State.projEq_get, hi]

/-- C04.1 (State) the residual is orthogonal to every feasible direction. -/
theorem state_projEq_orth (s : K) (v y : Vec K n) (hy : State.Feas s y) :
    ip1 (v.sub (State.projEq s v)) (y.sub (State.projEq s v)) = 0 := by
  unfold ip1
  apply Finset.sum_eq_zero; intro i _
  by_cases hi : i.val = 0
  · simp [Vec.sub, State.projEq_get, hi, hy i hi]
  · simp [Vec.sub, State.projEq_get, hi]

/-- C04.1 (State) nearest point: no feasible vector is closer to `v` than its projection. -/
theorem state_projEq_nearest (s : K) (v y : Vec K n) (hy : State.Feas s y) :
    sqd1 v (State.projEq s v) ≤ sqd1 v y :=
  nearest1 _ _ _ (le_of_eq (state_projEq_orth s v y hy))

/-- C04.2 (State) fixed points: feasible vectors are not moved. -/
theorem state_projEq_fix (s : K) (v : Vec K n) (hv : State.Feas s v) : State.projEq s v = v := by
  apply Vec.ext'; intro i
  by_cases hi : i.val = 0
  · simp [State.projEq_get, hi, hv i hi]
  · simp [State.projEq_get, hi]

/-- C04.2 (State) idempotence. -/
theorem state_projEq_idem (s : K) (v : Vec K n) :
    State.projEq s (State.projEq s v) = State.projEq s v :=
  state_projEq_fix s _ (state_projEq_mem s v)

/-- C04.3 (State), flag False — DEFINITIONAL in the model (`projEqVar s false` unfolds to the same `ofFn` as `projEq`); that the two
separate code sites agree is established by the correspondence (ops `s_eq_obj` / `s_eq_var`) and the oracle. -/
theorem state_var_eq_obj_F (s : K) (v : Vec K n) : State.projEqVar s false v = State.projEq s v := rfl

/-- C04.3 (State) with the parametrised constraint the variable-level routine returns the variable, and so does
the object-level closure `generate_from_var → calc_proj_eq_constraint → to_var`. -/
theorem state_var_eq_obj_T (s : K) (v : Vec K n) :
    State.funcProjEqT s v = State.projEqVar s true v := by
  apply Vec.ext'; intro i
  simp [State.funcProjEqT, State.toVarT, State.projEq_get, State.ofVarT, State.projEqVar]

/-! ## Povm -/

/-- C04.1 (Povm) membership (needs at least one element). -/
theorem povm_projEq_mem (t : K) (A : Mat K m n) (hm : 0 < m) : Povm.Feas t (Povm.projEq t A) := by
  intro i
  have hm' : (m : K) ≠ 0 := by exact_mod_cast hm.ne'
  simp only [Povm.projEq_get, Finset.sum_add_distrib, Finset.sum_sub_distrib, Finset.sum_const,
    Finset.card_univ, Fintype.card_fin, nsmul_eq_mul]
  split <;> field_simp <;> ring

/-- C04.1 (Povm) orthogonality of the residual to feasible directions. -/
theorem povm_projEq_orth (t : K) (A Y : Mat K m n) (hm : 0 < m) (hY : Povm.Feas t Y) :
    ip2 (A.sub (Povm.projEq t A)) (Y.sub (Povm.projEq t A)) = 0 := by
  have hP := povm_projEq_mem t A hm
  unfold ip2
  rw [Finset.sum_comm]
  apply Finset.sum_eq_zero; intro i _
  -- the residual does not depend on the element index
  have hr : ∀ x, (A.sub (Povm.projEq t A)).get x i
      = (∑ x', A.get x' i) / (m : K) - (if i.val = 0 then t / (m : K) else 0) := by
    intro x; simp only [Mat.sub, Mat.get_ofFn, Povm.projEq_get]; ring
  simp only [hr, ← Finset.mul_sum]
  have : ∑ x, (Y.sub (Povm.projEq t A)).get x i = 0 := by
    simp only [Mat.sub, Mat.get_ofFn, Finset.sum_sub_distrib, hY i, hP i, sub_self]
  rw [this, mul_zero]

/-- C04.1 (Povm) nearest point. -/
theorem povm_projEq_nearest (t : K) (A Y : Mat K m n) (hm : 0 < m) (hY : Povm.Feas t Y) :
    sqd2 A (Povm.projEq t A) ≤ sqd2 A Y :=
  nearest2 _ _ _ (le_of_eq (povm_projEq_orth t A Y hm hY))

/-- C04.2 (Povm) fixed points. -/
theorem povm_projEq_fix (t : K) (A : Mat K m n) (hm : 0 < m) (hA : Povm.Feas t A) :
    Povm.projEq t A = A := by
  have hm' : (m : K) ≠ 0 := by exact_mod_cast hm.ne'
  apply Mat.ext'; intro x i
  rw [Povm.projEq_get, hA i]
  split <;> simp

/-- C04.2 (Povm) idempotence. -/
theorem povm_projEq_idem (t : K) (A : Mat K m n) (hm : 0 < m) :
    Povm.projEq t (Povm.projEq t A) = Povm.projEq t A :=
  povm_projEq_fix t _ hm (povm_projEq_mem t A hm)

/-- C04.3 (Povm) under the parametrised constraint the completed POVM `ofVarT` is feasible, hence the
variable-level projection returns the variable. -/
theorem povm_var_T_id (t : K) (pre : Mat K m n) : Povm.projEqVarT t pre = pre := by
  have hfeas : Povm.Feas t (Povm.ofVarT t pre) := by
    intro i
    rw [Fin.sum_univ_castSucc]
    simp [Povm.ofVarT, fsum_eq_sum]
  unfold Povm.projEqVarT
  rw [povm_projEq_fix t _ (Nat.succ_pos m) hfeas]
  apply Mat.ext'; intro x i
  simp [Povm.toVarT, Povm.ofVarT]

/-- C04.3 (Povm), flag False — DEFINITIONAL in the model (`projEqVarF := projEq`; the `_with_var` site repeats the arithmetic after
`convert_var_to_vecs`, which is a reshape done by the driver's parser); agreement of the two SOURCE sites: `gen_povm_eq` / `gen_mprocess_eq` (both sites are regenerated from the source and proved equal to this
definition), plus correspondence and oracle. -/
theorem povm_var_eq_obj_F (t : K) (A : Mat K m n) : Povm.projEqVarF t A = Povm.projEq t A := rfl

/-! ## Gate -/

/-- C04.1 (Gate) membership. -/
theorem gate_projEq_mem (H : Mat K n n) : Gate.Feas (Gate.projEq H) := by
  intro a b ha; simp [Gate.projEq_get, ha]

/-- C04.1 (Gate) orthogonality. -/
theorem gate_projEq_orth (H Y : Mat K n n) (hY : Gate.Feas Y) :
    ip2 (H.sub (Gate.projEq H)) (Y.sub (Gate.projEq H)) = 0 := by
  unfold ip2
  apply Finset.sum_eq_zero; intro a _
  apply Finset.sum_eq_zero; intro b _
  by_cases ha : a.val = 0
  · simp [Mat.sub, Gate.projEq_get, ha, hY a b ha]
  · simp [Mat.sub, Gate.projEq_get, ha]

/-- C04.1 (Gate) nearest point. -/
theorem gate_projEq_nearest (H Y : Mat K n n) (hY : Gate.Feas Y) :
    sqd2 H (Gate.projEq H) ≤ sqd2 H Y :=
  nearest2 _ _ _ (le_of_eq (gate_projEq_orth H Y hY))

/-- C04.2 (Gate) fixed points. -/
theorem gate_projEq_fix (H : Mat K n n) (hH : Gate.Feas H) : Gate.projEq H = H := by
  apply Mat.ext'; intro a b
  by_cases ha : a.val = 0
  · simp [Gate.projEq_get, ha, hH a b ha]
  · simp [Gate.projEq_get, ha]

/-- C04.2 (Gate) idempotence. -/
theorem gate_projEq_idem (H : Mat K n n) : Gate.projEq (Gate.projEq H) = Gate.projEq H :=
  gate_projEq_fix _ (gate_projEq_mem H)

/-- C04.3 (Gate) the flat index arithmetic of `calc_proj_eq_constraint_with_var(…, False)`
(`new_var[0] = 1; new_var[1:n] = 0`) is the object-level projection on the row-major flattening. -/
theorem gate_var_eq_obj_F (H : Mat K n n) :
    Gate.projEqVar n false (flatten H) = flatten (Gate.projEq H) := by
  apply Vec.ext'; intro k
  have hn : 0 < n := pos_of_lt_mul k.isLt
  simp only [Gate.projEqVar, Bool.false_eq_true, if_false, flatten, Vec.get_ofFn, Gate.projEq_get, e0]
  have hdiv : k.val / n = 0 ↔ k.val < n := Nat.div_eq_zero_iff_lt hn
  by_cases h0 : k.val = 0
  · simp [h0, hn]
  · by_cases hlt : k.val < n
    · have : k.val % n = k.val := Nat.mod_eq_of_lt hlt
      simp [h0, hlt, hdiv.2 hlt, this]
    · have : ¬ k.val / n = 0 := fun h => hlt (hdiv.1 h)
      simp [h0, hlt, this]

/-- C04.3 (Gate) flag True: the closure `generate_from_var → calc_proj_eq_constraint → to_var` returns the variable. -/
theorem gate_var_eq_obj_T (V : Mat K n (n + 1)) : Gate.funcProjEqT V = V := by
  apply Mat.ext'; intro a b
  simp [Gate.funcProjEqT, Gate.toVarT, Gate.projEq_get, Gate.ofVarT]

/-! ## MProcess -/

/-- C04.1 (MProcess) membership. -/
theorem mprocess_projEq_mem (T : Ten K m n n) (hm : 0 < m) : MProcess.Feas (MProcess.projEq T) := by
  intro a b ha
  have hm' : (m : K) ≠ 0 := by exact_mod_cast hm.ne'
  simp only [MProcess.projEq_get, ha, if_true, Finset.sum_sub_distrib, Finset.sum_const,
    Finset.card_univ, Fintype.card_fin, nsmul_eq_mul]
  field_simp
  ring

/-- C04.1 (MProcess) orthogonality. -/
theorem mprocess_projEq_orth (T Y : Ten K m n n) (hm : 0 < m) (hY : MProcess.Feas Y) :
    ip3 (Ten.sub T (MProcess.projEq T)) (Ten.sub Y (MProcess.projEq T)) = 0 := by
  have hP := mprocess_projEq_mem T hm
  unfold ip3
  rw [Finset.sum_comm]
  apply Finset.sum_eq_zero; intro a _
  rw [Finset.sum_comm]
  apply Finset.sum_eq_zero; intro b _
  by_cases ha : a.val = 0
  · have hr : ∀ x, (Ten.sub T (MProcess.projEq T)).get x a b
        = ((∑ x', T.get x' a b) - e0 b) / (m : K) := by
      intro x; simp only [Ten.sub, Ten.get_ofFn, MProcess.projEq_get, ha, if_true]; ring
    simp only [hr, ← Finset.mul_sum]
    have : ∑ x, (Ten.sub Y (MProcess.projEq T)).get x a b = 0 := by
      simp only [Ten.sub, Ten.get_ofFn, Finset.sum_sub_distrib, hY a b ha, hP a b ha, sub_self]
    rw [this, mul_zero]
  · apply Finset.sum_eq_zero; intro x _
    simp [Ten.sub, MProcess.projEq_get, ha]

/-- C04.1 (MProcess) nearest point. -/
theorem mprocess_projEq_nearest (T Y : Ten K m n n) (hm : 0 < m) (hY : MProcess.Feas Y) :
    sqd3 T (MProcess.projEq T) ≤ sqd3 T Y :=
  nearest3 _ _ _ (le_of_eq (mprocess_projEq_orth T Y hm hY))

/-- C04.2 (MProcess) fixed points. -/
theorem mprocess_projEq_fix (T : Ten K m n n) (hm : 0 < m) (hT : MProcess.Feas T) :
    MProcess.projEq T = T := by
  apply Ten.ext'; intro x a b
  rw [MProcess.projEq_get]
  split
  · rename_i ha; rw [hT a b ha]; simp
  · rfl

/-- C04.2 (MProcess) idempotence. -/
theorem mprocess_projEq_idem (T : Ten K m n n) (hm : 0 < m) :
    MProcess.projEq (MProcess.projEq T) = MProcess.projEq T :=
  mprocess_projEq_fix _ hm (mprocess_projEq_mem T hm)

/-- C04.3 (MProcess), flag False — DEFINITIONAL in the model (`projEqVarF := projEq`); agreement of the two SOURCE sites:
`gen_mprocess_eq`, plus correspondence and oracle. -/
theorem mprocess_var_eq_obj_F (T : Ten K m n n) : MProcess.projEqVarF T = MProcess.projEq T := rfl

/-- C04.3 (MProcess) under the parametrised constraint the completed m-process `ofVarT` is feasible (the first row of the last
outcome is `e0 − Σ first rows`), hence the variable-level projection returns the variables. -/
theorem mprocess_var_T_id (pre : Ten K m (n + 1) (n + 1)) (rest : Mat K n (n + 1)) :
    MProcess.projEqVarT pre rest = (pre, rest) := by
  have hfeas : MProcess.Feas (MProcess.ofVarT pre rest) := by
    intro a b ha
    have ha0 : a = (⟨0, Nat.succ_pos n⟩ : Fin (n + 1)) := Fin.ext ha
    rw [ha0, Fin.sum_univ_castSucc]
    simp [MProcess.ofVarT, fsum_eq_sum]
  unfold MProcess.projEqVarT
  rw [mprocess_projEq_fix _ (Nat.succ_pos m) hfeas]
  simp only [MProcess.toVarT, Prod.mk.injEq]
  constructor
  · apply Ten.ext'; intro x a b; simp [MProcess.ofVarT]
  · apply Mat.ext'; intro a b; simp [MProcess.ofVarT]

/-! ## uniqueness of the nearest feasible point (all four types) -/

/-- C04.1 uniqueness: a feasible point at least as close as the projection IS the projection. -/
theorem state_projEq_unique (s : K) (v y : Vec K n) (hy : State.Feas s y) (h : sqd1 v y ≤ sqd1 v (State.projEq s v)) :
    y = State.projEq s v := by
  rw [sqd1_eq, sqd1_eq] at h
  have := eq_of_vi_of_le (fun i => v.get i) (fun i => (State.projEq s v).get i) (fun i => y.get i)
    (le_of_eq (by simpa [ip1, Vec.sub] using state_projEq_orth s v y hy)) h
  apply Vec.ext'; intro i; exact congrFun this i

/-- C04.1 uniqueness (Povm). -/
theorem povm_projEq_unique (t : K) (A Y : Mat K m n) (hm : 0 < m) (hY : Povm.Feas t Y)
    (h : sqd2 A Y ≤ sqd2 A (Povm.projEq t A)) : Y = Povm.projEq t A := by
  rw [sqd2_eq, sqd2_eq] at h
  have := eq_of_vi_of_le (fun xi : Fin m × Fin n => A.get xi.1 xi.2) (fun xi => (Povm.projEq t A).get xi.1 xi.2)
    (fun xi => Y.get xi.1 xi.2)
    (le_of_eq (by simpa [ip2, Mat.sub, Fintype.sum_prod_type] using povm_projEq_orth t A Y hm hY)) h
  apply Mat.ext'; intro x i; exact congrFun this (x, i)

/-- C04.1 uniqueness (Gate). -/
theorem gate_projEq_unique (H Y : Mat K n n) (hY : Gate.Feas Y) (h : sqd2 H Y ≤ sqd2 H (Gate.projEq H)) :
    Y = Gate.projEq H := by
  rw [sqd2_eq, sqd2_eq] at h
  have := eq_of_vi_of_le (fun xi : Fin n × Fin n => H.get xi.1 xi.2) (fun xi => (Gate.projEq H).get xi.1 xi.2)
    (fun xi => Y.get xi.1 xi.2)
    (le_of_eq (by simpa [ip2, Mat.sub, Fintype.sum_prod_type] using gate_projEq_orth H Y hY)) h
  apply Mat.ext'; intro a b; exact congrFun this (a, b)

/-- C04.1 uniqueness (MProcess). -/
theorem mprocess_projEq_unique (T Y : Ten K m n n) (hm : 0 < m) (hY : MProcess.Feas Y)
    (h : sqd3 T Y ≤ sqd3 T (MProcess.projEq T)) : Y = MProcess.projEq T := by
  rw [sqd3_eq, sqd3_eq] at h
  have := eq_of_vi_of_le (fun t : Fin m × Fin n × Fin n => T.get t.1 t.2.1 t.2.2)
    (fun t => (MProcess.projEq T).get t.1 t.2.1 t.2.2) (fun t => Y.get t.1 t.2.1 t.2.2)
    (le_of_eq (by simpa [ip3, Ten.sub, Fintype.sum_prod_type] using mprocess_projEq_orth T Y hm hY)) h
  apply Ten.ext'; intro x a b; exact congrFun this (x, a, b)

/-! ### tie to the source: definitions regenerated from state.py / gate.py on every run (QGen.C04) equal the hand model -/

/-- tie to the source (State): the element assignments translated from state.py on this run are the model's projections. -/
theorem gen_state_eq (dim : Nat) (s : K) (flag : Bool) (v : Vec K n) :
    QGen.C04.stateEqObj dim s v = State.projEq s v ∧ QGen.C04.stateEqVar dim s flag v = State.projEqVar s flag v :=
  ⟨rfl, rfl⟩

/-- tie to the source (Gate): the element / slice assignments translated from gate.py on this run
(`hs[0][0] = 1; hs[0][1:] = 0` and `new_var[0] = 1; new_var[1 : dim ** 2] = 0`) are the model's projections with `n = dim²`. -/
theorem gen_gate_eq (dim : Nat) (flag : Bool) (hs : Mat K n n) (var : Vec K N) :
    QGen.C04.gateEqObj dim hs = Gate.projEq hs ∧ QGen.C04.gateEqVar dim flag var = Gate.projEqVar (dim * dim) flag var := by
  constructor
  · apply Mat.ext'; intro a b
    simp only [QGen.C04.gateEqObj, Mat.get_ofFn, Gate.projEq_get, e0]
    by_cases ha : a.val = 0 <;> by_cases hb : b.val = 0 <;> simp [ha, hb] <;> omega
  · unfold QGen.C04.gateEqVar Gate.projEqVar
    cases flag
    · simp only [Bool.false_eq_true, if_false]
      apply Vec.ext'; intro k
      simp only [Vec.get_ofFn, pow_two]
      by_cases hk : k.val = 0
      · simp [hk]
      · have : 1 ≤ k.val := Nat.one_le_iff_ne_zero.2 hk
        simp [hk, this]
    · rfl

/-- tie to the source (Povm): the equality arithmetic translated from povm.py on this run (`new_vec = vec - a_bar + c` with
`a_bar = np.sum(vecs, axis=0)/m`, `c = [√d/m, 0, …]`), object level and `_with_var`, is the model's projection — so for flag
False "object level = variable level" is a statement about the two SOURCE sites, not only about the model. -/
theorem gen_povm_eq (t : K) (vecs : Mat K m n) :
    QGen.C04.povmEqObj t vecs = Povm.projEq t vecs ∧ QGen.C04.povmEqVar t vecs = Povm.projEqVarF t vecs := by
  constructor <;>
  · apply Mat.ext'; intro x i
    simp [QGen.C04.povmEqObj, QGen.C04.povmEqVar, Povm.projEqVarF, Povm.projEq]

/-- tie to the source (MProcess): `vec = Σ hs[0]; vec[0] -= 1; hs[0] -= vec / len(hss)` as translated from mprocess.py,
object level and `_with_var`, is the model's projection. -/
theorem gen_mprocess_eq (hss : Ten K m n n) :
    QGen.C04.mprocessEqObj hss = MProcess.projEq hss ∧ QGen.C04.mprocessEqVar hss = MProcess.projEqVarF hss := by
  constructor <;>
  · apply Ten.ext'; intro x a b
    simp [QGen.C04.mprocessEqObj, QGen.C04.mprocessEqVar, MProcess.projEqVarF, MProcess.projEq, Ten.get, Ten.ofFn]

-- the generated definitions compute (K = ℚ)
example : QGen.C04.povmEqObj (2 : Rat) (#v[#v[1, 2], #v[3, 4]] : Mat Rat 2 2) = #v[#v[0, -1], #v[2, 1]] := by decide +kernel
example : QGen.C04.mprocessEqVar (#v[#v[#v[1, 2], #v[3, 4]], #v[#v[5, 6], #v[7, 8]]] : Ten Rat 2 2 2)
    = #v[#v[#v[-3/2, -2], #v[3, 4]], #v[#v[5/2, 2], #v[7, 8]]] := by decide +kernel

/-- NOT a property theorem with content (kept for the record of defect D5, repaired in /repo d072139): in the model the
"caller's array after the call" is the identity by definition, so this is `rfl`.  Clause C04.4 ("never modify their argument") is
established by the before/after snapshots of every call site in the correspondence and the oracle ONLY. -/
theorem mprocess_eq_var_argument_model_trivial (T : Ten K m n n) (pre : Ten K m (n + 1) (n + 1))
    (rest : Mat K n (n + 1)) :
    MProcess.argAfterEqVarF T = T ∧ MProcess.argAfterEqVarT pre rest = (pre, rest) := ⟨rfl, rfl⟩

/-- … and the returned value does not depend on the aliasing either: the result for a feasible argument is the argument. -/
theorem mprocess_eq_var_F_feasible_unchanged (T : Ten K m n n) (hm : 0 < m) (hT : MProcess.Feas T) :
    MProcess.projEqVarF T = T := mprocess_projEq_fix T hm hT

-- Gate: value, feasibility of the hypotheses of `_fix` / `_nearest` / `_unique`
example : Gate.projEq (#v[#v[3, 4], #v[5, 6]] : Mat Rat 2 2) = #v[#v[1, 0], #v[5, 6]] := by decide +kernel
example (H : Mat Rat 2 2) : sqd2 H (Gate.projEq H) ≤ sqd2 H (Gate.projEq (#v[#v[3, 4], #v[5, 6]] : Mat Rat 2 2)) :=
  gate_projEq_nearest H _ (gate_projEq_mem _)

-- non-vacuity: concrete non-trivial instances (K = ℚ)
example : State.Feas (1/2 : Rat) (State.projEq (1/2) (#v[3, 4, 5] : Vec Rat 3)) := state_projEq_mem _ _
example : Povm.projEq (2 : Rat) (#v[#v[1, 2], #v[3, 4]] : Mat Rat 2 2) = #v[#v[0, -1], #v[2, 1]] := by
  decide +kernel
example : MProcess.projEq (#v[#v[#v[1, 2], #v[3, 4]], #v[#v[5, 6], #v[7, 8]]] : Ten Rat 2 2 2)
    = #v[#v[#v[-3/2, -2], #v[3, 4]], #v[#v[5/2, 2], #v[7, 8]]] := by decide +kernel

/-! # Part 2 — inequality projections (ℝ parameters, ℂ operators)

`projIneqCore B eps lam U` is the common core of all eight `calc_proj_ineq_constraint*` routines: State and
Povm elements use it with the operator basis `B` (size `d`), Gate and MProcess outcomes with
`kronBasis B` (Choi matrices, size `d²`).  `(lam, U)` is the result of `np.linalg.eigh` and a model parameter;
its contract (`U` unitary, `U diag(lam) Uᴴ` = the operator of the input parameters) is a hypothesis.
The theorems are for `eps = 0` (no truncation); `_partial`: (i) the truncation thresholds of `truncate_hs`
(`eps = 1e-13` moves each coordinate by less than `eps`, and makes the real code raise where rounding leaves an
imaginary residue ≥ `eps`), (ii) float accuracy of `eigh`, (iii) completeness of the basis, which enters as the
explicit hypothesis `hspan` (the clipped operator lies in the real span of `B`; true for every Hermitian matrix
when `B` is a complete orthonormal Hermitian basis — re-checked numerically by the harness for the shipped bases). -/
section ineq
open Matrix
open scoped ComplexOrder MatrixOrder
variable {n d : Nat}

/-- C04.2-psd feasibility: the operator of the projected parameters is the clipped matrix, which is PSD. -/
theorem projIneqCore_feasible_partial (B : Vector (Mat ℂ d d) n) (lam : Vec ℝ d) (U : Mat ℂ d d)
    (p : Vec ℝ n) (hspan : matOfVec B p = clipMat U lam) :
    (matOfVec B p).toM.PosSemidef := by
  rw [hspan, toM_clipMat]; exact Psd.clip_posSemidef _ _

/-- coordinates of a successful `projIneqCore … 0 …` are the real parts of the coefficients tr(B_αᴴ P) of the clipped matrix -/
theorem projIneqCore_coeff (B : Vector (Mat ℂ d d) n) (lam : Vec ℝ d) (U : Mat ℂ d d) (p : Vec ℝ n)
    (hp : projIneqCore B (0 : ℝ) lam U = .ok p) :
    (fun a => p.get a) = Psd.coeff (basisM B) (Psd.clip U.toM (fun i => lam.get i)) := by
  funext a
  rw [truncate_zero_get _ _ hp a, re_coeffs, toM_clipMat]

/-- C04.2-vi: variational inequality in parameter space: for every parameter vector `y` whose operator is PSD,
`⟪x − p, y − p⟫ ≤ 0`. -/
theorem projIneqCore_vi_partial (B : Vector (Mat ℂ d d) n) (hB : Psd.OrthoN (basisM B))
    (x : Vec ℝ n) (lam : Vec ℝ d) (U : Mat ℂ d d) (hU : U.toMᴴ * U.toM = 1)
    (hA : matOfVec B x = rebuild U lam) (p : Vec ℝ n) (hp : projIneqCore B (0 : ℝ) lam U = .ok p)
    (hspan : matOfVec B p = clipMat U lam)
    (y : Vec ℝ n) (hy : (matOfVec B y).toM.PosSemidef) :
    ip1 (x.sub p) (y.sub p) ≤ 0 := by
  have hc := projIneqCore_coeff B lam U p hp
  have hA' : Psd.synth (basisM B) (fun a => x.get a)
      = U.toM * diagonal (fun i => ((lam.get i : ℝ) : ℂ)) * U.toMᴴ := by
    rw [← toM_matOfVec, hA, toM_rebuild]
  have hs' : Psd.synth (basisM B) (Psd.coeff (basisM B) (Psd.clip U.toM (fun i => lam.get i)))
      = Psd.clip U.toM (fun i => lam.get i) := by
    rw [← hc, ← toM_matOfVec, hspan, toM_clipMat]
  have hy' : (Psd.synth (basisM B) (fun a => y.get a)).PosSemidef := by rw [← toM_matOfVec]; exact hy
  have := Psd.param_vi (basisM B) hB U.toM hU (fun i => lam.get i) (fun a => x.get a) hA' hs'
    (fun a => y.get a) hy'
  rw [← hc] at this
  simpa [ip1, Vec.sub] using this

/-- C04.2-nearest: eigenvalue clipping returns the parameter vector nearest (Euclidean norm of the parameters) to `x`
among all parameter vectors whose operator is PSD. -/
theorem projIneqCore_nearest_partial (B : Vector (Mat ℂ d d) n) (hB : Psd.OrthoN (basisM B))
    (x : Vec ℝ n) (lam : Vec ℝ d) (U : Mat ℂ d d) (hU : U.toMᴴ * U.toM = 1)
    (hA : matOfVec B x = rebuild U lam) (p : Vec ℝ n) (hp : projIneqCore B (0 : ℝ) lam U = .ok p)
    (hspan : matOfVec B p = clipMat U lam)
    (y : Vec ℝ n) (hy : (matOfVec B y).toM.PosSemidef) :
    sqd1 x p ≤ sqd1 x y :=
  nearest1 x p y (projIneqCore_vi_partial B hB x lam U hU hA p hp hspan y hy)

/-- C04.2-fix: parameters whose operator is already PSD are returned unchanged, whichever unitary
eigen-decomposition `eigh` returns. -/
theorem projIneqCore_fix_partial (B : Vector (Mat ℂ d d) n) (hB : Psd.OrthoN (basisM B))
    (x : Vec ℝ n) (lam : Vec ℝ d) (U : Mat ℂ d d) (hU : U.toMᴴ * U.toM = 1)
    (hA : matOfVec B x = rebuild U lam) (hx : (matOfVec B x).toM.PosSemidef)
    (p : Vec ℝ n) (hp : projIneqCore B (0 : ℝ) lam U = .ok p) : p = x := by
  have hc := projIneqCore_coeff B lam U p hp
  have hA' : (matOfVec B x).toM = U.toM * diagonal (fun i => ((lam.get i : ℝ) : ℂ)) * U.toMᴴ := by
    rw [hA, toM_rebuild]
  have hfix := Psd.clip_fix U.toM hU (fun i => lam.get i) _ hA' hx
  rw [hfix, toM_matOfVec, Psd.coeff_synth _ hB] at hc
  apply Vec.ext'; intro a; exact congrFun hc a

/-- C04.2-idem: projecting the projected parameters again (with any unitary eigen-decomposition `(lam', U')` of
their operator) returns them. -/
theorem projIneqCore_idem_partial (B : Vector (Mat ℂ d d) n) (hB : Psd.OrthoN (basisM B))
    (lam : Vec ℝ d) (U : Mat ℂ d d) (p : Vec ℝ n) (hspan : matOfVec B p = clipMat U lam)
    (lam' : Vec ℝ d) (U' : Mat ℂ d d) (hU' : U'.toMᴴ * U'.toM = 1) (hA' : matOfVec B p = rebuild U' lam')
    (p' : Vec ℝ n) (hp' : projIneqCore B (0 : ℝ) lam' U' = .ok p') : p' = p :=
  projIneqCore_fix_partial B hB p lam' U' hU' hA' (projIneqCore_feasible_partial B lam U p hspan) p' hp'

/-- C04.2 for products of cones (POVM elements, measurement-process outcomes): block-wise nearest points add up
to the nearest point of the stacked parameters. -/
theorem blocks_nearest_partial {m : Nat} (B : Vector (Mat ℂ d d) n) (hB : Psd.OrthoN (basisM B))
    (X P Y : Fin m → Vec ℝ n) (lam : Fin m → Vec ℝ d) (U : Fin m → Mat ℂ d d)
    (hU : ∀ k, (U k).toMᴴ * (U k).toM = 1) (hA : ∀ k, matOfVec B (X k) = rebuild (U k) (lam k))
    (hp : ∀ k, projIneqCore B (0 : ℝ) (lam k) (U k) = .ok (P k))
    (hspan : ∀ k, matOfVec B (P k) = clipMat (U k) (lam k))
    (hy : ∀ k, (matOfVec B (Y k)).toM.PosSemidef) :
    ∑ k, sqd1 (X k) (P k) ≤ ∑ k, sqd1 (X k) (Y k) :=
  Finset.sum_le_sum fun k _ =>
    projIneqCore_nearest_partial B hB (X k) (lam k) (U k) (hU k) (hA k) (P k) (hp k) (hspan k) (Y k) (hy k)

/-- C04.2 truncation (`truncate_hs`) with a positive threshold moves every coordinate by less than `eps`:
a successful truncation returns, per coordinate, either the real part itself or 0 in place of a real part of modulus `< eps`. -/
theorem truncate_close (eps : ℝ) (v : Vec ℂ n) (p : Vec ℝ n) (h : truncate eps v = .ok p) (a : Fin n) :
    p.get a = (v.get a).re ∨ (p.get a = 0 ∧ rabs (v.get a).re < eps) := by
  unfold truncate at h
  split at h
  · cases h
  · injection h with h
    subst h
    simp only [Vec.get_ofFn, re_def]
    by_cases hc : rabs (v.get a).re < eps
    · right; simp [hc]
    · left; simp [hc]

/-- C04.3 variable-level forms with the parametrised constraint are the object-level results with the constrained
coordinates dropped (definitional in the model; the correspondence ties each to its own code site). -/
theorem povm_ineq_var_T (B : Vector (Mat ℂ d d) n) (eps : ℝ) {m : Nat} (eig : Vector (Vec ℝ d × Mat ℂ d d) (m + 1)) :
    Povm.projIneqVarT B eps eig = (Povm.projIneq B eps eig).map Povm.toVarT := rfl

theorem gate_ineq_var_T (B : Vector (Mat ℂ d d) n) (eps : ℝ) (lam : Vec ℝ (d * d)) (U : Mat ℂ (d * d) (d * d)) :
    Gate.projIneqVarT B eps lam U = (Gate.projIneq B eps lam U).map (Gate.dropRow0 n) := rfl

/-- the Kronecker family `B_α ⊗ conj B_β` (rows of quara's `basis_basisconjugate`) is orthonormal when `B` is -/
theorem orthoN_kronBasis (B : Vector (Mat ℂ d d) n) (hB : Psd.OrthoN (basisM B)) :
    Psd.OrthoN (basisM (kronBasis B)) := by
  intro c c'
  have hn : 0 < n := pos_of_lt_mul c.isLt
  set a : Fin n := ⟨c.val / n, (Nat.div_lt_iff_lt_mul hn).2 c.isLt⟩ with ha
  set b : Fin n := ⟨c.val % n, Nat.mod_lt _ hn⟩ with hb
  set a' : Fin n := ⟨c'.val / n, (Nat.div_lt_iff_lt_mul hn).2 c'.isLt⟩ with ha'
  set b' : Fin n := ⟨c'.val % n, Nat.mod_lt _ hn⟩ with hb'
  have h1 := orthoN_get B hB a a'
  have h2 := orthoN_get B hB b b'
  have key : ((basisM (kronBasis B) c)ᴴ * basisM (kronBasis B) c').trace
      = (∑ i, ∑ j, star ((B[a.val]'a.isLt).get i j) * (B[a'.val]'a'.isLt).get i j)
        * star (∑ i, ∑ j, star ((B[b.val]'b.isLt).get i j) * (B[b'.val]'b'.isLt).get i j) := by
    rw [trace_conj_mul, sum_fin_mul]
    simp_rw [sum_fin_mul (d := d), kron_entry']
    simp only [Fintype.sum_prod_type, star_sum, Finset.sum_mul_sum, star_mul', star_star]
    apply Finset.sum_congr rfl; intro i1 _
    apply Finset.sum_congr rfl; intro i2 _
    apply Finset.sum_congr rfl; intro j1 _
    apply Finset.sum_congr rfl; intro j2 _
    ring
  rw [key, h1, h2]
  have hcc : c = c' ↔ (a = a' ∧ b = b') := by
    constructor
    · intro h; subst h; exact ⟨rfl, rfl⟩
    · rintro ⟨h1, h2⟩
      have e1 : c.val / n = c'.val / n := by simpa [ha, ha'] using congrArg Fin.val h1
      have e2 : c.val % n = c'.val % n := by simpa [hb, hb'] using congrArg Fin.val h2
      apply Fin.ext
      rw [← Nat.div_add_mod c.val n, ← Nat.div_add_mod c'.val n, e1, e2]
  by_cases hc : c = c'
  · have := hcc.1 hc
    simp [hc, this.1, this.2]
  · rw [if_neg hc]
    by_cases h3 : a = a'
    · have : b ≠ b' := fun h4 => hc (hcc.2 ⟨h3, h4⟩)
      simp [this]
    · simp [h3]

/-- C04.2-nearest for Gate (and each MProcess outcome): clipping the Choi spectrum returns the HS parameters nearest to
`x` among all HS parameters with PSD Choi matrix; orthonormality of the Choi basis is derived from that of `B`. -/
theorem gate_projIneq_nearest_partial (B : Vector (Mat ℂ d d) n) (hB : Psd.OrthoN (basisM B))
    (x : Vec ℝ (n * n)) (lam : Vec ℝ (d * d)) (U : Mat ℂ (d * d) (d * d)) (hU : U.toMᴴ * U.toM = 1)
    (hA : matOfVec (kronBasis B) x = rebuild U lam) (p : Vec ℝ (n * n))
    (hp : Gate.projIneq B (0 : ℝ) lam U = .ok p) (hspan : matOfVec (kronBasis B) p = clipMat U lam)
    (y : Vec ℝ (n * n)) (hy : (matOfVec (kronBasis B) y).toM.PosSemidef) :
    sqd1 x p ≤ sqd1 x y :=
  projIneqCore_nearest_partial (kronBasis B) (orthoN_kronBasis B hB) x lam U hU hA p hp hspan y hy

/-! ### complete bases (`d²` orthonormal Hermitian matrices, as every basis quara ships): no `hspan`, no `hp`

Completeness is derived from orthonormality by the dimension count (`Psd.synth_coeff_of_orthoN`, a left inverse of a square
matrix is a right inverse), so the only idealisations left in the `_partial` theorems below are: exact `eigh` result and
`eps = 0` — and `projIneqCore_eps_partial` bounds the effect of the real `eps > 0`. -/
open QM.Psd in
/-- in exact arithmetic the projection never raises and its operator is the clipped matrix: with an orthonormal Hermitian
basis of `d²` elements the hypothesis `hspan` of the `_partial` theorems is a theorem -/
theorem projIneqCore_ok (B : Vector (Mat ℂ d d) (d * d)) (hB : OrthoN (basisM B)) (hH : HermB B)
    (lam : Vec ℝ d) (U : Mat ℂ d d) :
    ∃ p, projIneqCore B (0 : ℝ) lam U = .ok p ∧ matOfVec B p = clipMat U lam := by
  have hPh : (clipMat U lam).toM.IsHermitian := by rw [toM_clipMat]; exact clip_isHermitian _ _
  have him : ∀ a, ((coeffs B (clipMat U lam)).get a).im = 0 := by
    intro a
    rw [coeffs_get]
    exact Complex.conj_eq_iff_im.1 (trace_real_of_hermitian _ _ (hH a) hPh)
  refine ⟨_, truncate_zero_ok _ him, ?_⟩
  apply Mat.toM_injective
  rw [toM_matOfVec]
  have : (fun a => (Vec.ofFn fun a => ((coeffs B (clipMat U lam)).get a).re : Vec ℝ (d * d)).get a)
      = coeff (basisM B) (clipMat U lam).toM := by
    funext a; rw [Vec.get_ofFn, re_coeffs]
  rw [this]
  exact synth_coeff_of_orthoN (basisM B) hB hH _ hPh

open QM.Psd in
/-- C04.2 for a complete basis (State, POVM element): for an orthonormal Hermitian basis of `d²` matrices and an exact
eigh result of the operator of `x`, the routine returns (does not raise) a parameter vector `p` whose operator is PSD and
which satisfies the variational inequality, hence is the nearest parameter vector with PSD operator. -/
theorem projIneqCore_spec_partial (B : Vector (Mat ℂ d d) (d * d)) (hB : OrthoN (basisM B)) (hH : HermB B)
    (x : Vec ℝ (d * d)) (lam : Vec ℝ d) (U : Mat ℂ d d) (hU : U.toMᴴ * U.toM = 1)
    (hA : matOfVec B x = rebuild U lam) :
    ∃ p, projIneqCore B (0 : ℝ) lam U = .ok p ∧ (matOfVec B p).toM.PosSemidef ∧
      ∀ y, (matOfVec B y).toM.PosSemidef → ip1 (x.sub p) (y.sub p) ≤ 0 ∧ sqd1 x p ≤ sqd1 x y := by
  obtain ⟨p, hp, hspan⟩ := projIneqCore_ok B hB hH lam U
  exact ⟨p, hp, projIneqCore_feasible_partial B lam U p hspan, fun y hy =>
    ⟨projIneqCore_vi_partial B hB x lam U hU hA p hp hspan y hy,
     projIneqCore_nearest_partial B hB x lam U hU hA p hp hspan y hy⟩⟩

open QM.Psd in
/-- C04.2 for Gate / each MProcess outcome with a complete basis: everything is derived from orthonormality and
Hermiticity of the `d²` operator basis elements (the Choi basis `B_α ⊗ conj B_β` inherits both and has `(d²)²` elements). -/
theorem gate_projIneq_spec_partial (B : Vector (Mat ℂ d d) (d * d)) (hB : OrthoN (basisM B)) (hH : HermB B)
    (x : Vec ℝ ((d * d) * (d * d))) (lam : Vec ℝ (d * d)) (U : Mat ℂ (d * d) (d * d)) (hU : U.toMᴴ * U.toM = 1)
    (hA : matOfVec (kronBasis B) x = rebuild U lam) :
    ∃ p, Gate.projIneq B (0 : ℝ) lam U = .ok p ∧ (matOfVec (kronBasis B) p).toM.PosSemidef ∧
      ∀ y, (matOfVec (kronBasis B) y).toM.PosSemidef → ip1 (x.sub p) (y.sub p) ≤ 0 ∧ sqd1 x p ≤ sqd1 x y :=
  projIneqCore_spec_partial (kronBasis B) (orthoN_kronBasis B hB) (hermB_kron B hH) x lam U hU hA

open QM.Psd in
/-- C04.2 idempotence for a complete basis: projecting the projected parameters again, with any unitary
eigen-decomposition `(lam', U')` of their operator, returns them. -/
theorem projIneqCore_idem_spec_partial (B : Vector (Mat ℂ d d) (d * d)) (hB : OrthoN (basisM B)) (hH : HermB B)
    (lam : Vec ℝ d) (U : Mat ℂ d d) (p : Vec ℝ (d * d)) (hp : projIneqCore B (0 : ℝ) lam U = .ok p)
    (lam' : Vec ℝ d) (U' : Mat ℂ d d) (hU' : U'.toMᴴ * U'.toM = 1) (hA' : matOfVec B p = rebuild U' lam')
    (p' : Vec ℝ (d * d)) (hp' : projIneqCore B (0 : ℝ) lam' U' = .ok p') : p' = p := by
  obtain ⟨p0, hp0, hspan⟩ := projIneqCore_ok B hB hH lam U
  rw [hp] at hp0
  injection hp0 with h0
  subst h0
  exact projIneqCore_idem_partial B hB lam U p hspan lam' U' hU' hA' p' hp'

open QM.Psd in
/-- C04.2 with the real threshold `eps > 0` (`eps_truncate_imaginary_part`, 1e-13 by default): in exact arithmetic the
routine still does not raise, and its result differs from the exact nearest point `p` (the `eps = 0` result) by less than
`eps` in every coordinate — entries of modulus `< eps` are replaced by 0, nothing else changes. -/
theorem projIneqCore_eps_partial (B : Vector (Mat ℂ d d) (d * d)) (hB : OrthoN (basisM B)) (hH : HermB B)
    (lam : Vec ℝ d) (U : Mat ℂ d d) (eps : ℝ) (heps : 0 < eps) :
    ∃ p pe, projIneqCore B (0 : ℝ) lam U = .ok p ∧ projIneqCore B eps lam U = .ok pe ∧
      ∀ a, |pe.get a - p.get a| < eps := by
  obtain ⟨p, hp, _⟩ := projIneqCore_ok B hB hH lam U
  have hPh : (clipMat U lam).toM.IsHermitian := by rw [toM_clipMat]; exact clip_isHermitian _ _
  have him : ∀ a, ((coeffs B (clipMat U lam)).get a).im = 0 := by
    intro a
    rw [coeffs_get]
    exact Complex.conj_eq_iff_im.1 (trace_real_of_hermitian _ _ (hH a) hPh)
  have hok : ∃ pe, projIneqCore B eps lam U = .ok pe := by
    unfold projIneqCore truncate
    rw [if_neg]
    · exact ⟨_, rfl⟩
    · simp [him]
  obtain ⟨pe, hpe⟩ := hok
  refine ⟨p, pe, hp, hpe, ?_⟩
  intro a
  have h0 := truncate_zero_get _ _ hp a
  rcases truncate_close eps _ pe hpe a with h | ⟨h, hlt⟩
  · rw [h, h0, sub_self, abs_zero]; exact heps
  · rw [h, h0, zero_sub, abs_neg, ← rabs_eq_abs]; exact hlt

-- non-vacuity of the complete-basis hypotheses (d = 1: the single matrix (1)); for d = 2, 3, 4, 6 the harness checks
-- orthonormality, Hermiticity and the count d² of the bases quara ships numerically on every run
open QM.Psd in
example : OrthoN (basisM (Vector.ofFn fun _ => Mat.ofFn fun _ _ => (1 : ℂ) : Vector (Mat ℂ 1 1) (1 * 1))) ∧
    HermB (Vector.ofFn fun _ => Mat.ofFn fun _ _ => (1 : ℂ) : Vector (Mat ℂ 1 1) (1 * 1)) := by
  constructor
  · intro a b
    have : a = b := by apply Fin.ext; have := a.isLt; have := b.isLt; omega
    subst this
    simp [basisM, Matrix.trace, Matrix.mul_apply, Mat.toM]
  · intro a
    ext i j
    simp [basisM, Mat.toM, Matrix.conjTranspose_apply]

open QM.Psd in
/-- the basis the code actually uses for a qubit (`get_normalized_pauli_basis`, σ_a/√2 over ℂ) satisfies the hypotheses of the
complete-basis theorems: orthonormal … -/
theorem pauli_orthoN : OrthoN (basisM pauliB) := by
  intro a b
  rw [trace_conj_mul']
  simp only [pauliB_apply, star_mul', star_rs2, Fin.sum_univ_two]
  have h := rs2_mul_self
  have e : ∀ x y : ℂ, rs2 * x * (rs2 * y) = (1 / 2) * (x * y) := by
    intro x y; rw [← h]; ring
  simp only [e]
  fin_cases a <;> fin_cases b <;> simp [sigma] <;> norm_num

open QM.Psd in
/-- … and Hermitian (4 = 2² elements by its type). -/
theorem pauli_hermB : HermB pauliB := by
  intro a
  ext i j
  rw [Matrix.conjTranspose_apply, pauliB_apply, pauliB_apply, star_mul', star_rs2]
  fin_cases a <;> fin_cases i <;> fin_cases j <;> simp [sigma, mul_comm]

-- non-vacuity of the complete-basis theorems on the real qubit basis: the spec theorem instantiated at the Pauli basis
open QM.Psd in
example (x : Vec ℝ (2 * 2)) (lam : Vec ℝ 2) (U : Mat ℂ 2 2) (hU : U.toMᴴ * U.toM = 1)
    (hA : matOfVec (pauliB : Vector (Mat ℂ 2 2) (2 * 2)) x = rebuild U lam) :
    ∃ p, projIneqCore (pauliB : Vector (Mat ℂ 2 2) (2 * 2)) (0 : ℝ) lam U = .ok p ∧ (matOfVec pauliB p).toM.PosSemidef ∧
      ∀ y, (matOfVec pauliB y).toM.PosSemidef → ip1 (x.sub p) (y.sub p) ≤ 0 ∧ sqd1 x p ≤ sqd1 x y :=
  projIneqCore_spec_partial pauliB pauli_orthoN pauli_hermB x lam U hU hA

/-- C04 (finding D13) the imaginary-part guard of `truncate_hs` as coded: the routine accepts exactly when every
coordinate has `|im| < eps` or `im = 0`; otherwise it raises `ValueError` (model: `Err.imag`). The threshold is
ABSOLUTE (`eps` does not scale with the input). -/
theorem truncate_ok_iff (eps : ℝ) (v : Vec ℂ n) :
    (∃ p, truncate eps v = .ok p) ↔ ∀ a, |(v.get a).im| < eps ∨ (v.get a).im = 0 := by
  unfold truncate
  constructor
  · intro ⟨p, h⟩
    split at h
    · cases h
    · rename_i hc
      intro a
      by_contra hcon
      simp only [not_or] at hcon
      apply hc
      simp only [List.any_eq_true, List.mem_finRange, true_and, decide_eq_true_eq]
      exact ⟨a, by rw [im_def, rabs_eq_abs]; exact hcon.1, by rw [im_def]; exact hcon.2⟩
  · intro h
    rw [if_neg]
    · exact ⟨_, rfl⟩
    · simp only [List.any_eq_true, List.mem_finRange, true_and, decide_eq_true_eq, not_exists, not_and]
      intro a ha
      rcases h a with h1 | h1
      · exact absurd (by rw [im_def, rabs_eq_abs]; exact h1) ha
      · rw [im_def]; simpa using h1

theorem truncate_raises_iff (eps : ℝ) (v : Vec ℂ n) :
    truncate eps v = .error .imag ↔ ∃ a, ¬ |(v.get a).im| < eps ∧ (v.get a).im ≠ 0 := by
  have h := truncate_ok_iff eps v
  constructor
  · intro he
    by_contra hcon
    simp only [not_exists, not_and, not_not] at hcon
    obtain ⟨p, hp⟩ := h.2 (fun a => by
      by_cases h1 : |(v.get a).im| < eps
      · exact Or.inl h1
      · exact Or.inr (hcon a h1))
    rw [he] at hp; cases hp
  · intro ⟨a, h1, h2⟩
    cases ht : truncate eps v with
    | error e => cases e; rfl
    | ok p =>
      rcases h.1 ⟨p, ht⟩ a with h3 | h3
      · exact absurd h3 h1
      · exact absurd h3 h2

/-- C04 (D13) effect of a rounding perturbation of the coefficient vector: if the exact coefficients `v` are real and the
computed ones `w` deviate by less than `eta` in every coordinate (real and imaginary part), then
`eta ≤ eps` ⇒ the routine accepts and every output coordinate is within `eta + eps` of the exact projection coordinate;
while any coordinate with `|im w| ≥ eps` makes it raise — however small that is relative to the size of the input. -/
theorem truncate_perturbed (eps eta : ℝ) (v w : Vec ℂ n) (hv : ∀ a, (v.get a).im = 0)
    (hre : ∀ a, |(w.get a).re - (v.get a).re| < eta) (him : ∀ a, |(w.get a).im - (v.get a).im| < eta)
    (hle : eta ≤ eps) :
    ∃ p, truncate eps w = .ok p ∧ ∀ a, |p.get a - (v.get a).re| < eta + eps := by
  have hacc : ∀ a, |(w.get a).im| < eps ∨ (w.get a).im = 0 := by
    intro a; left
    have := him a; rw [hv a, sub_zero] at this; linarith
  obtain ⟨p, hp⟩ := (truncate_ok_iff eps w).2 hacc
  refine ⟨p, hp, fun a => ?_⟩
  have heta : 0 < eta := lt_of_le_of_lt (abs_nonneg _) (hre a)
  rcases truncate_close eps w p hp a with h | ⟨h, hlt⟩
  · rw [h]; have := hre a; linarith
  · rw [h, zero_sub, abs_neg]
    rw [rabs_eq_abs] at hlt
    have h1 := hre a
    have : |(v.get a).re| ≤ |(w.get a).re| + |(w.get a).re - (v.get a).re| := by
      have := abs_sub_abs_le_abs_sub (v.get a).re (w.get a).re
      rw [abs_sub_comm (v.get a).re] at this; linarith
    linarith

-- non-vacuity of the guard theorems: a coordinate with imaginary part 1 and threshold 1/10 raises
example : truncate (1/10 : ℝ) (Vec.ofFn fun _ : Fin 1 => Complex.I) = .error .imag :=
  (truncate_raises_iff _ _).2 ⟨0, by simp; norm_num, by simp⟩

section blocks
variable {m : Nat}
open QM.Psd in
/-- C04.2 blocks, executed function: a successful `Povm.projIneq` (the function the driver runs: per-element `projIneqCore`, results
sequenced) returns in row `k` exactly the result of the core projection of element `k`. -/
theorem povm_projIneq_blocks (B : Vector (Mat ℂ d d) n) (eps : ℝ) (eig : Vector (Vec ℝ d × Mat ℂ d d) m) (P : Mat ℝ m n)
    (h : Povm.projIneq B eps eig = .ok P) (k : Fin m) : projIneqCore B eps eig[k].1 eig[k].2 = .ok P[k] := by
  have := seqV_ok _ P h k
  simpa using this

open QM.Psd in
/-- the same for `MProcess.projIneq` (per-outcome `Gate.projIneq`, i.e. the core projection w.r.t. the Choi basis). -/
theorem mprocess_projIneq_blocks (B : Vector (Mat ℂ d d) n) (eps : ℝ)
    (eig : Vector (Vec ℝ (d * d) × Mat ℂ (d * d) (d * d)) m) (P : Mat ℝ m (n * n))
    (h : MProcess.projIneq B eps eig = .ok P) (k : Fin m) :
    projIneqCore (kronBasis B) eps eig[k].1 eig[k].2 = .ok P[k] := by
  have := seqV_ok _ P h k
  simpa [Gate.projIneq] using this

open QM.Psd in
/-- C04.2 for the executed `Povm.projIneq`, complete basis: given exact eigh results for every element, the routine does not
raise, every element of the result is PSD, and the result is the nearest POVM-parameter array (Euclidean norm of the stacked
parameters) among all arrays with PSD elements. -/
theorem povm_projIneq_spec_partial (B : Vector (Mat ℂ d d) (d * d)) (hB : OrthoN (basisM B)) (hH : HermB B)
    (X : Mat ℝ m (d * d)) (eig : Vector (Vec ℝ d × Mat ℂ d d) m)
    (hU : ∀ k : Fin m, eig[k].2.toMᴴ * eig[k].2.toM = 1) (hA : ∀ k : Fin m, matOfVec B X[k] = rebuild eig[k].2 eig[k].1) :
    ∃ P, Povm.projIneq B (0 : ℝ) eig = .ok P ∧ (∀ k : Fin m, (matOfVec B P[k]).toM.PosSemidef) ∧
      ∀ Y : Mat ℝ m (d * d), (∀ k : Fin m, (matOfVec B Y[k]).toM.PosSemidef) → sqd2 X P ≤ sqd2 X Y := by
  have hs := fun k : Fin m => projIneqCore_spec_partial B hB hH X[k] eig[k].1 eig[k].2 (hU k) (hA k)
  choose p hp using hs
  refine ⟨Vector.ofFn p, ?_, ?_, ?_⟩
  · unfold Povm.projIneq
    apply seqV_of_ok
    intro k; simpa using (hp k).1
  · intro k; simpa using (hp k).2.1
  · intro Y hY
    rw [sqd2_rows, sqd2_rows]
    apply Finset.sum_le_sum; intro k _
    simpa using ((hp k).2.2 Y[k] (hY k)).2

open QM.Psd in
/-- C04.2 for the executed `MProcess.projIneq`, complete basis (each outcome through the Choi basis). -/
theorem mprocess_projIneq_spec_partial (B : Vector (Mat ℂ d d) (d * d)) (hB : OrthoN (basisM B)) (hH : HermB B)
    (X : Mat ℝ m ((d * d) * (d * d))) (eig : Vector (Vec ℝ (d * d) × Mat ℂ (d * d) (d * d)) m)
    (hU : ∀ k : Fin m, eig[k].2.toMᴴ * eig[k].2.toM = 1)
    (hA : ∀ k : Fin m, matOfVec (kronBasis B) X[k] = rebuild eig[k].2 eig[k].1) :
    ∃ P, MProcess.projIneq B (0 : ℝ) eig = .ok P ∧ (∀ k : Fin m, (matOfVec (kronBasis B) P[k]).toM.PosSemidef) ∧
      ∀ Y : Mat ℝ m ((d * d) * (d * d)), (∀ k : Fin m, (matOfVec (kronBasis B) Y[k]).toM.PosSemidef) → sqd2 X P ≤ sqd2 X Y := by
  have hs := fun k : Fin m => gate_projIneq_spec_partial B hB hH X[k] eig[k].1 eig[k].2 (hU k) (hA k)
  choose p hp using hs
  refine ⟨Vector.ofFn p, ?_, ?_, ?_⟩
  · unfold MProcess.projIneq
    apply seqV_of_ok
    intro k; simpa using (hp k).1
  · intro k; simpa using (hp k).2.1
  · intro Y hY
    rw [sqd2_rows, sqd2_rows]
    apply Finset.sum_le_sum; intro k _
    simpa using ((hp k).2.2 Y[k] (hY k)).2

-- non-vacuity on the real qubit basis (the eigh-contract hypotheses are satisfiable for every input: QProofs.C05Psd.eig_contract)
open QM.Psd in
example {m : Nat} (X : Mat ℝ m (2 * 2)) (eig : Vector (Vec ℝ 2 × Mat ℂ 2 2) m)
    (hU : ∀ k : Fin m, eig[k].2.toMᴴ * eig[k].2.toM = 1)
    (hA : ∀ k : Fin m, matOfVec (pauliB : Vector (Mat ℂ 2 2) (2 * 2)) X[k] = rebuild eig[k].2 eig[k].1) :
    ∃ P, Povm.projIneq (pauliB : Vector (Mat ℂ 2 2) (2 * 2)) (0 : ℝ) eig = .ok P ∧
      (∀ k : Fin m, (matOfVec pauliB P[k]).toM.PosSemidef) ∧
      ∀ Y : Mat ℝ m (2 * 2), (∀ k : Fin m, (matOfVec pauliB Y[k]).toM.PosSemidef) → sqd2 X P ≤ sqd2 X Y :=
  povm_projIneq_spec_partial pauliB pauli_orthoN pauli_hermB X eig hU hA

end blocks

/-- C04.3 the variable-level State routine with the parametrised constraint is the object-level result with the
first coordinate dropped (definitional). -/
theorem state_ineq_var_T (B : Vector (Mat ℂ d d) (n + 1)) (eps : ℝ) (lam : Vec ℝ d) (U : Mat ℂ d d) :
    State.projIneqVarT B eps lam U = (State.projIneq B eps lam U).map State.toVarT := rfl

/-- C04.3 Gate/MProcess outcomes are the core projection w.r.t. the Kronecker basis `B_α ⊗ conj B_β` (Choi matrix). -/
theorem gate_ineq_is_core (B : Vector (Mat ℂ d d) n) (eps : ℝ) (lam : Vec ℝ (d * d)) (U : Mat ℂ (d * d) (d * d)) :
    Gate.projIneq B eps lam U = projIneqCore (kronBasis B) eps lam U := rfl

-- non-vacuity of the hypotheses of the `projIneqCore_*_partial` theorems: d = 2, the orthonormal Hermitian family
-- {E11, E22}, x = (1, −2) with eigh result U = 1, lam = (1, −2), projection p = (1, 0)
example : Psd.OrthoN (basisM exB) := by
  intro a b
  fin_cases a <;> fin_cases b <;>
    simp [basisM, Matrix.trace, Matrix.mul_apply, Fin.sum_univ_two, Mat.toM, exB_get]
example : exU.toMᴴ * exU.toM = 1 := by
  ext i j; fin_cases i <;> fin_cases j <;> simp [exU, Matrix.mul_apply, Fin.sum_univ_two]
example : matOfVec exB exLam = rebuild exU exLam := by
  apply Mat.ext'; intro i j
  fin_cases i <;> fin_cases j <;>
    simp [matOfVec, rebuild, exB_get, exU, exLam, fsum_eq_sum, Fin.sum_univ_two]
example : projIneqCore exB (0 : ℝ) exLam exU = .ok exP := by
  unfold projIneqCore
  rw [truncate_zero_ok]
  · congr 1; apply Vec.ext'; intro a
    fin_cases a <;>
      simp [coeffs, clipMat, exB_get, exP, exU, exLam, fsum_eq_sum, Fin.sum_univ_two, pos]
  · intro a
    fin_cases a <;>
      simp [coeffs, clipMat, exB_get, exU, exLam, fsum_eq_sum, Fin.sum_univ_two, pos]
example : matOfVec exB exP = clipMat exU exLam := by
  apply Mat.ext'; intro i j
  fin_cases i <;> fin_cases j <;>
    simp [matOfVec, clipMat, exB_get, exP, exU, exLam, fsum_eq_sum, Fin.sum_univ_two, pos] <;> norm_num

end ineq

end QM.C04
