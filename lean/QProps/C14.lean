import QProofs.C14
/-!
# C14 — property theorems (sampled data, empirical distributions, seed plumbing)

All statements are unbounded in the number of outcomes, the data length, the number of sample sizes, the number of
schedules and the number of preceding calls. `probs.take i |>.sum` is the cumulative sum `c_i` (`c_0 = 0`).
Probabilities are rationals (every float is one). The running sum of the model is exact; the code adds in floats. `r2d_interval` is about exact sums;
the validity clause (`r2d_pos_any_add`, `data_valid`) holds for any addition with `add c 0 = c`, hence for the float code
(the former defect D19 — a zero-probability outcome after a rounding fall-through — was repaired in 007afc6).
-/
namespace QM.C14

/-- **(T) `generated_core`** — the pieces regenerated from the source (`QGen.C14`, harness/c14_translate.py) are the ones
every theorem below assumes: the loop tests `random_number < cumulative_sum` (strict), the running sum starts at 0,
after a fall-through the backward loop keeps entries `> 0`, the final result is `len − 1`. An edit of a comparison
direction / start / backward test / final result in the source re-opens this. -/
theorem generated_core (u c : Rat) (n : Int) :
    (QGen.C14.hit u c = true ↔ u < c) ∧ QGen.C14.cumStart = 0 ∧ (QGen.C14.fallKeep c = true ↔ 0 < c) ∧
      QGen.C14.fallThrough n = n - 1 :=
  ⟨hit_iff u c, rfl, fallKeep_iff c, rfl⟩

/-- **(T) `generated_empi_tests`** — the tests and offsets of `calc_empi_dist_sequence` regenerated from the source are the
ones the theorems about empirical distributions assume: `measurement_num < 0`, `num_sum > len(data)`,
`0 ≤ d < measurement_num`, hit at `index + 1 == next_num_sum`, division by `index + 1`, `former ≥ next`. -/
theorem generated_empi_tests (m n len d former next : Int) (index : Nat) :
    (QGen.C14.empiNegative m = true ↔ m < 0) ∧ (QGen.C14.empiTooLarge n len = true ↔ n > len) ∧
    (QGen.C14.empiInRange d m = true ↔ 0 ≤ d ∧ d < m) ∧ (QGen.C14.empiHit index next = true ↔ (index : Int) + 1 = next) ∧
    QGen.C14.empiDiv index = index + 1 ∧ (QGen.C14.empiNotIncreasing former next = true ↔ former ≥ next) := by
  simp [QGen.C14.empiNegative, QGen.C14.empiTooLarge, QGen.C14.empiInRange, QGen.C14.empiHit, QGen.C14.empiDiv,
    QGen.C14.empiNotIncreasing]

example : QGen.C14.empiNotIncreasing 2 2 = true ∧ QGen.C14.empiHit 4 5 = true ∧ QGen.C14.empiInRange 3 3 = false := by decide

/-- **(T) `toStream_table`** — `to_stream` as generated from the source: `None` → numpy's global state, an `int` → a
*fresh* `Generator(MT19937(seed))`, a generator → the same object. -/
theorem toStream_table {G : Type} (P : PRNG G) (s : Int) (k : Nat) :
    toStream P .none = .glob ∧ toStream P (.int s) = .fresh (P.seed s) ∧ toStream P (.gen k) = .held k :=
  ⟨rfl, rfl, rfl⟩

example : QGen.C14.hit (1/2) (1/2) = false ∧ QGen.C14.hit (1/4) (1/2) = true := by decide +kernel

/-- **C14.a `r2d_range`** — for a non-empty probability vector the sampled outcome is within range, whatever the
random number and the entries. -/
theorem r2d_range (probs : List Rat) (u : Rat) (h : probs ≠ []) :
    0 ≤ randomNumberToData probs u ∧ randomNumberToData probs u < probs.length := by
  rw [randomNumberToData_def]
  split
  · rename_i i hi
    have := r2dLoop_lt probs u 0 0 i hi
    omega
  · have hlen : 0 < probs.length := List.length_pos_iff.2 h
    unfold fallResult
    split
    · rename_i j hj
      obtain ⟨k, hk, hlt, _, _⟩ := lastKeep_some probs 0 j hj
      omega
    · rw [fallThrough_eq]
      exact ⟨Int.sub_nonneg_of_le (by exact_mod_cast hlen), by linarith⟩

/-- **C14.b `r2d_interval`** — cumulative-sum inversion: for non-negative entries and `0 ≤ u` the outcome is `i`
exactly when `c_i ≤ u < c_{i+1}`; the preimage of `i` is a half-open interval of length `probs[i]`. -/
theorem r2d_interval (probs : List Rat) (hnn : ∀ p ∈ probs, 0 ≤ p) (u : Rat) (hu : 0 ≤ u) (i : Nat)
    (hi : i < probs.length) :
    randomNumberToData probs u = i ∧ u < probs.sum ↔
      (probs.take i).sum ≤ u ∧ u < (probs.take (i + 1)).sum := by
  have key : r2dLoop probs u 0 0 = some i ↔ (probs.take i).sum ≤ u ∧ u < (probs.take (i + 1)).sum := by
    rw [r2dLoop_some_iff]
    constructor
    · rintro ⟨k, hk, _, hlt, hall⟩
      simp only [Nat.zero_add] at hk; subst hk
      refine ⟨?_, by simpa using hlt⟩
      cases i with
      | zero => simpa using hu
      | succ j => simpa using hall j (by omega)
    · rintro ⟨h1, h2⟩
      refine ⟨i, by simp, hi, by simpa using h2, ?_⟩
      intro j hj
      have := sum_take_mono probs hnn (j + 1) i (by omega)
      simp only [Rat.zero_add]; linarith
  constructor
  · rintro ⟨h1, h2⟩
    rw [randomNumberToData_def] at h1
    split at h1
    · rename_i k hk
      have : k = i := by exact_mod_cast h1
      subst this
      exact key.1 hk
    · rename_i hnone
      have := (r2dLoop_none_iff probs hnn u 0 0 hu).1 hnone
      linarith
  · intro h
    have hs := key.2 h
    refine ⟨by simp [randomNumberToData_def, hs], ?_⟩
    have := sum_take_le_sum probs hnn (i + 1)
    linarith

/-- **C14.c0 `r2d_hit_nonzero_any_add`** — whatever addition the running sum uses (exact, or IEEE double `+`), as long as
`add c 0 = c`: a *hit* of the first loop (`return index` inside the `for`) with `0 ≤ u` never lands on an entry that is
exactly `0`. -/
theorem r2d_hit_nonzero_any_add (add : Rat → Rat → Rat) (hadd : ∀ c, add c 0 = c) (probs : List Rat) (u : Rat)
    (hu : 0 ≤ u) (i : Nat) (h : r2dLoopW add probs u 0 0 = some i) :
    ∃ hi : i < probs.length, probs[i] ≠ 0 := by
  obtain ⟨k, hk, hlt, hne⟩ := r2dLoopW_hit_ne_zero add hadd probs u 0 0 i (by linarith) h
  simp only [Nat.zero_add] at hk; subst hk
  exact ⟨hlt, hne⟩

/-- the exact model is the instance `add = (+)`, and the loop only sees the running sums (driver op `r2dcs` runs it on
the float sums of the implementation, for every vector incl. non-dyadic ones on the boundaries) -/
theorem r2dLoop_is_instance (add : Rat → Rat → Rat) (probs : List Rat) (u : Rat) :
    r2dLoop probs u 0 0 = r2dLoopW (· + ·) probs u 0 0 ∧
    r2dLoopW add probs u 0 0 = r2dCums (scanAdd add 0 probs) u 0 ∧
    randomNumberToData probs u = randomNumberToDataW (· + ·) probs u := by
  refine ⟨r2dLoop_eq_W probs u 0 0, r2dLoopW_eq_cums add probs u 0 0, ?_⟩
  simp only [randomNumberToData, randomNumberToDataW, r2dLoop_eq_W]

/-- a rounding addition under which the first loop falls through on a normalised vector although `u < 1` (the situation of
the repaired defect D19, fix 007afc6): the backward loop then returns the last POSITIVE outcome, not the trailing zero -/
example : r2dLoopW (fun a b => if a + b > 9/10 then 9/10 else a + b) [1/2, 1/2, 0] (19/20) 0 0 = none ∧
    randomNumberToDataW (fun a b => if a + b > 9/10 then 9/10 else a + b) [1/2, 1/2, 0] (19/20) = 1 := by decide +kernel

/-- **C14.c1 `r2d_hit_pos`** (exact arithmetic, contributed by the peer review) — no sign hypothesis on the entries (the code
accepts entries down to `−atol`), no `u < Σ probs`: a hit has strictly positive probability. -/
theorem r2d_hit_pos (probs : List Rat) (u : Rat) (hu : 0 ≤ u) (i : Nat) (h : r2dLoop probs u 0 0 = some i) :
    ∃ hi : i < probs.length, 0 < probs[i] := r2dLoop_hit_pos probs u hu i h

example : r2dLoop [1/2, -1/1000, 1/2 + 1/1000] (1/2) 0 0 = some 2 := by decide +kernel

/-- **C14.c `r2d_pos_any_add`** — "only outcomes of non-zero probability", for the code as it is and in a form that holds
for the float arithmetic: for ANY addition of the running sum with `add c 0 = c`, every vector of non-negative entries with
at least one positive entry, and every `u ≥ 0` (no normalisation, no `u < Σ probs`, no exactness), the outcome is in range
and has strictly positive probability — a hit never lands on a zero entry, and a fall-through returns the last positive one. -/
theorem r2d_pos_any_add (add : Rat → Rat → Rat) (hadd : ∀ c, add c 0 = c) (probs : List Rat)
    (hnn : ∀ p ∈ probs, 0 ≤ p) (hex : ∃ p ∈ probs, 0 < p) (u : Rat) (hu : 0 ≤ u) :
    ∃ i : Nat, ∃ hi : i < probs.length, randomNumberToDataW add probs u = i ∧ 0 < probs[i] := by
  unfold randomNumberToDataW
  rw [cumStart_eq]
  cases h : r2dLoopW add probs u 0 0 with
  | some i =>
    obtain ⟨hi, hne⟩ := r2d_hit_nonzero_any_add add hadd probs u hu i h
    exact ⟨i, hi, rfl, lt_of_le_of_ne (hnn _ (List.getElem_mem hi)) (Ne.symm hne)⟩
  | none =>
    unfold fallResult
    cases hk : lastKeep probs 0 with
    | none =>
      obtain ⟨p, hp, hpos⟩ := hex
      exact absurd hpos ((lastKeep_none_iff probs 0).1 hk p hp)
    | some j =>
      obtain ⟨k, hjk, hlt, hpos, _⟩ := lastKeep_some probs 0 j hk
      simp only [Nat.zero_add] at hjk; subst hjk
      exact ⟨j, hlt, rfl, hpos⟩

/-- **C14.c `r2d_pos`** — the exact-arithmetic instance of `r2d_pos_any_add` (the executed `randomNumberToData`). -/
theorem r2d_pos (probs : List Rat) (hnn : ∀ p ∈ probs, 0 ≤ p) (hex : ∃ p ∈ probs, 0 < p) (u : Rat) (hu : 0 ≤ u) :
    ∃ i : Nat, ∃ hi : i < probs.length, randomNumberToData probs u = i ∧ 0 < probs[i] := by
  rw [(r2dLoop_is_instance (· + ·) probs u).2.2]
  exact r2d_pos_any_add (· + ·) (fun c => by simp) probs hnn hex u hu

/-- **C14.c' `r2d_residual`** — the fall-through branch spelled out: if `Σ probs ≤ u` (exact sums; through rounding also for a
normalised vector) the first loop falls through and the result is the LAST outcome of positive probability; only when no entry
is positive it is `len − 1`. -/
theorem r2d_residual (probs : List Rat) (hnn : ∀ p ∈ probs, 0 ≤ p) (u : Rat) (hu : 0 ≤ u) (hge : probs.sum ≤ u) :
    randomNumberToData probs u = fallResult probs ∧
    ((∃ j : Nat, ∃ hj : j < probs.length, fallResult probs = j ∧ 0 < probs[j] ∧
        ∀ k (hk : k < probs.length), j < k → ¬ 0 < probs[k]) ∨
     ((∀ p ∈ probs, ¬ 0 < p) ∧ fallResult probs = (probs.length : Int) - 1)) := by
  have := (r2dLoop_none_iff probs hnn u 0 0 hu).2 (by linarith)
  refine ⟨by simp [randomNumberToData_def, this], ?_⟩
  unfold fallResult
  cases hk : lastKeep probs 0 with
  | none => exact Or.inr ⟨(lastKeep_none_iff probs 0).1 hk, rfl⟩
  | some j =>
    obtain ⟨k, hjk, hlt, hpos, hall⟩ := lastKeep_some probs 0 j hk
    simp only [Nat.zero_add] at hjk; subst hjk
    exact Or.inl ⟨j, hlt, rfl, hpos, hall⟩

/-- a sub-normalised vector with a trailing zero and `u` above its sum: the last POSITIVE outcome (before fix 007afc6: 2) -/
example : randomNumberToData [1/4, 1/2, 0] (7/8) = 1 := by decide +kernel
/-- no positive entry at all: `len − 1` -/
example : randomNumberToData [0, 0, 0] (1/2) = 2 := by decide +kernel

/-- **C14.d `data_valid`** — generated data (`generate_data_from_prob_dist` after the uniforms are drawn), for any number of
data: for every vector of non-negative entries with at least one positive entry and uniforms `≥ 0`, every datum is in range
and has non-zero probability. (By `r2d_pos_any_add` the same holds with the float addition of the running sum.) -/
theorem data_valid (probs : List Rat) (hnn : ∀ p ∈ probs, 0 ≤ p) (hex : ∃ p ∈ probs, 0 < p) (us : List Rat)
    (hus : ∀ u ∈ us, 0 ≤ u) :
    (dataOfUniforms probs us).length = us.length ∧
    ∀ d ∈ dataOfUniforms probs us, ∃ i : Nat, ∃ hi : i < probs.length, d = i ∧ 0 < probs[i] := by
  refine ⟨by simp [dataOfUniforms], ?_⟩
  intro d hd
  simp only [dataOfUniforms, List.mem_map] at hd
  obtain ⟨u, hu, rfl⟩ := hd
  obtain ⟨i, hi, h1, h2⟩ := r2d_pos probs hnn hex u (hus u hu)
  exact ⟨i, hi, h1, h2⟩

example : dataOfUniforms [1/2, 0, 1/4, 1/4] [0, 1/2, 3/4, 7/8, 1/4] = [0, 2, 3, 3, 0] := by decide +kernel
example : dataOfUniforms [1/4, 1/2, 0] [7/8, 99] = [1, 1] := by decide +kernel

/-! ## empirical distributions (`calc_empi_dist_sequence`) -/

/-- spec pins: the count vector and the specified entry `(n, counts(data[:n]) / n)` -/
theorem countsOf_def (m : Nat) (l : List Int) :
    countsOf m l = (List.range' 0 m).map fun k => l.count ((k : Nat) : Int) := rfl
theorem empiEntry_def (m : Nat) (data : List Int) (n : Int) :
    empiEntry m data n = (n, (countsOf m (data.take n.toNat)).map fun (c : Nat) => ((c : Int) : Rat) / (n : Rat)) := rfl

/-- **C14.e `empi_counts`** — whenever `calc_empi_dist_sequence` returns (positive sample sizes), it returns, for
*every* requested sample size `n` in order, exactly `(n, counts of the prefix data[:n] / n)` — nothing else of the
data enters. ∀ outcome counts, data lengths, numbers of sample sizes. -/
theorem empi_counts (mnum : Int) (data : List Int) (ns : List Int) (out : List (Int × List Rat))
    (hpos : ∀ n ∈ ns, 0 < n) (h : calcEmpiDistSequence mnum data ns = .ok out) :
    out = ns.map (empiEntry mnum.toNat data) := by
  rw [calcEmpiDistSequence_def] at h
  split at h
  · cases h
  · split at h
    · injection h with h; subst h; rfl
    · rename_i n0 rest
      split at h
      · cases h
      · rename_i hle
        have := empiLoop_spec mnum.toNat data data [] n0 0 rest [] out rfl
          (by simpa using hpos n0 (by simp)) (by omega)
          (by rw [countsOf_nil]; exact h)
        simpa using this

/-- entries are non-negative -/
theorem empi_nonneg (m : Nat) (data : List Int) (n : Int) (hn : 0 < n) :
    ∀ e ∈ (empiEntry m data n).2, 0 ≤ e := by
  intro e he
  simp only [empiEntry, List.mem_map] at he
  obtain ⟨c, _, rfl⟩ := he
  have h1 : (0 : Rat) ≤ ((c : Int) : Rat) := by exact_mod_cast Int.natCast_nonneg c
  have h2 : (0 : Rat) < (n : Rat) := by exact_mod_cast hn
  exact div_nonneg h1 (le_of_lt h2)

/-- **C14.e' `empi_sum_one`** — an entry whose prefix lies within range sums to one. -/
theorem empi_sum_one (m : Nat) (data : List Int) (n : Int) (hn : 0 < n) (hle : n ≤ data.length)
    (hr : ∀ x ∈ data.take n.toNat, 0 ≤ x ∧ x < (m : Int)) :
    ((empiEntry m data n).2).sum = 1 := by
  have hs := countsOf_sum m (data.take n.toNat) hr
  have hlen : (data.take n.toNat).length = n.toNat := by
    rw [List.length_take]; omega
  have hnq : (n : Rat) ≠ 0 := by
    have : (0 : Rat) < (n : Rat) := by exact_mod_cast hn
    exact ne_of_gt this
  simp only [empiEntry]
  have : ∀ l : List Nat, (l.map fun (c : Nat) => ((c : Int) : Rat) / (n : Rat)).sum = ((l.sum : Nat) : Rat) / (n : Rat) := by
    intro l
    induction l with
    | nil => simp
    | cons c t ih => simp only [List.map_cons, List.sum_cons, ih]; push_cast; rw [add_div]
  rw [this, hs, hlen]
  have : ((n.toNat : Nat) : Rat) = (n : Rat) := by
    have := Int.toNat_of_nonneg (le_of_lt hn)
    exact_mod_cast this
  rw [this]; exact div_self hnq


/-- **C14.f `empi_cumulative`** — cumulative consistency: for `n₁ ≤ n₂` the count vector behind the entry for `n₂`
is the one behind `n₁` plus the counts of the slice `data[n₁:n₂]` (so `n₂·e₂ − n₁·e₁` is that slice's count vector). -/
theorem empi_cumulative (m : Nat) (data : List Int) (n1 n2 : Nat) (h : n1 ≤ n2) :
    countsOf m (data.take n2) =
      List.zipWith (· + ·) (countsOf m (data.take n1)) (countsOf m ((data.take n2).drop n1)) := by
  have : data.take n2 = data.take n1 ++ (data.take n2).drop n1 := by
    have h1 := (List.take_append_drop n1 (data.take n2)).symm
    rwa [List.take_take, Nat.min_eq_left h] at h1
  conv => lhs; rw [this]
  exact countsFrom_append 0 m _ _

/-- **C14.f' `empi_cumulative_out`** — cumulative consistency stated on the OUTPUT of `calc_empi_dist_sequence`: for any two
returned entries `(n₁, e₁)`, `(n₂, e₂)` with `n₁ ≤ n₂`, `n₂·e₂ = n₁·e₁ + (count vector of the slice data[n₁:n₂])`. -/
theorem empi_cumulative_out (mnum : Int) (data : List Int) (ns : List Int) (out : List (Int × List Rat))
    (hpos : ∀ n ∈ ns, 0 < n) (h : calcEmpiDistSequence mnum data ns = .ok out)
    (a b : Int × List Rat) (ha : a ∈ out) (hb : b ∈ out) (hab : a.1 ≤ b.1) :
    b.2.map (fun x => x * (b.1 : Rat)) =
      List.zipWith (· + ·) (a.2.map fun x => x * (a.1 : Rat))
        ((countsOf mnum.toNat ((data.take b.1.toNat).drop a.1.toNat)).map fun (c : Nat) => ((c : Int) : Rat)) := by
  have hout := empi_counts mnum data ns out hpos h
  rw [hout] at ha hb
  obtain ⟨n1, hn1, rfl⟩ := List.mem_map.1 ha
  obtain ⟨n2, hn2, rfl⟩ := List.mem_map.1 hb
  have h1 : (empiEntry mnum.toNat data n1).1 = n1 := rfl
  have h2 : (empiEntry mnum.toNat data n2).1 = n2 := rfl
  rw [h1, h2] at hab ⊢
  rw [entry_times_n _ _ _ (hpos n1 hn1), entry_times_n _ _ _ (hpos n2 hn2),
    empi_cumulative mnum.toNat data n1.toNat n2.toNat (by have := hpos n1 hn1; omega), map_cast_zipWith_add]


example : calcEmpiDistSequence 3 [0, 1, 2, 2, 1] [2, 5] = .ok [(2, [1/2, 1/2, 0]), (5, [1/5, 2/5, 2/5])] ∧
    countsOf 3 (([0, 1, 2, 2, 1] : List Int).take 5 |>.drop 2) = [0, 1, 2] := by decide +kernel

/-- spec pins: strictly increasing sample sizes; the last requested size -/
theorem increasing_def (a b : Int) (t : List Int) :
    (Increasing [] ↔ True) ∧ (Increasing [a] ↔ True) ∧ (Increasing (a :: b :: t) ↔ a < b ∧ Increasing (b :: t)) :=
  ⟨Iff.rfl, Iff.rfl, Iff.rfl⟩
theorem lastD_def (a b : Int) (t : List Int) : lastD a [] = a ∧ lastD a (b :: t) = lastD b t := ⟨rfl, rfl⟩

/-- **C14.g `empi_ok_iff`** — full characterisation of success (first requested size positive): `calc_empi_dist_sequence`
returns exactly when `measurement_num ≥ 0`, the sample sizes are strictly increasing and none exceeds the data length,
and every datum of the consumed prefix `data[:last size]` satisfies `0 ≤ d < measurement_num`. Data behind the last
requested size are never looked at. -/
theorem empi_ok_iff (mnum : Int) (data : List Int) (n0 : Int) (rest : List Int) (hpos : 0 < n0) :
    (∃ out, calcEmpiDistSequence mnum data (n0 :: rest) = .ok out) ↔
      0 ≤ mnum ∧ Increasing (n0 :: rest) ∧ (∀ n ∈ n0 :: rest, n ≤ (data.length : Int)) ∧
        ∀ x ∈ data.take (lastD n0 rest).toNat, 0 ≤ x ∧ x < mnum := by
  rw [calcEmpiDistSequence_def]
  by_cases hm : mnum < 0
  · simp only [hm, if_true, reduceCtorEq, exists_false, false_iff]
    intro h; omega
  · have hm' : 0 ≤ mnum := by omega
    have hcast : ((mnum.toNat : Nat) : Int) = mnum := Int.toNat_of_nonneg hm'
    simp only [hm, if_false]
    by_cases hle : n0 > (data.length : Int)
    · simp only [hle, if_true, reduceCtorEq, exists_false, false_iff]
      intro h; have := h.2.2.1 n0 (by simp); omega
    · simp only [hle, if_false]
      constructor
      · rintro ⟨out, h⟩
        obtain ⟨g1, g2, g3⟩ := empiLoop_ok_valid mnum.toNat data.length data 0 _ n0 0 rest [] out (by simp)
          (by simpa using hpos) (by omega) h
        refine ⟨hm', g1, ?_, ?_⟩
        · intro n hn
          rcases List.mem_cons.1 hn with rfl | hn
          · omega
          · exact g2 n hn
        · intro x hx
          have := g3 x (by simpa using hx)
          unfold InRangeD at this; rw [hcast] at this; exact this
      · rintro ⟨_, h1, h2, h3⟩
        exact empiLoop_valid_ok mnum.toNat data.length data 0 _ n0 0 rest [] (by simp) (by simpa using hpos) h1 h2
          (by
            intro x hx
            have := h3 x (by simpa using hx)
            unfold InRangeD; rw [hcast]; exact this)

/-- **C14.g' `empi_error_sound`** — every error names an actual defect at the reported position: a negative
`measurement_num`; a sample size `num_sums[p]` beyond the data; a datum `data[i]` outside `0 ≤ d < measurement_num`
with all data before it inside; a pair `num_sums[p-1] ≥ num_sums[p]`. -/
theorem empi_error_sound (mnum : Int) (data : List Int) (ns : List Int) (e : EmpiErr)
    (h : calcEmpiDistSequence mnum data ns = .error e) :
    (e = .negativeMeasurementNum ∧ mnum < 0) ∨
    (∃ p n, e = .numSumTooLarge p ∧ ns[p]? = some n ∧ n > (data.length : Int)) ∨
    (∃ i d, e = .dataOutOfRange i ∧ data[i]? = some d ∧ ¬ (0 ≤ d ∧ d < mnum) ∧
        ∀ j x, j < i → data[j]? = some x → 0 ≤ x ∧ x < mnum) ∨
    (∃ p a b, e = .notIncreasing (p + 1) ∧ ns[p]? = some a ∧ ns[p + 1]? = some b ∧ a ≥ b) := by
  rw [calcEmpiDistSequence_def] at h
  split at h
  · rename_i hm; injection h with h; subst h; exact Or.inl ⟨rfl, hm⟩
  · rename_i hm
    have hcast : ((mnum.toNat : Nat) : Int) = mnum := Int.toNat_of_nonneg (by omega)
    split at h
    · cases h
    · rename_i n0 rest
      split at h
      · rename_i hgt
        injection h with h; subst h
        exact Or.inr (Or.inl ⟨0, n0, rfl, by simp, hgt⟩)
      · rcases empiLoop_error_sound mnum.toNat data.length data 0 _ n0 0 rest [] e h with
          ⟨i, d, he, h1, h2, h3⟩ | ⟨k, n, he, h1, h2⟩ | ⟨k, a, b, he, h1, h2, h3⟩
        · refine Or.inr (Or.inr (Or.inl ⟨i, d, by simpa using he, h1, ?_, ?_⟩))
          · unfold InRangeD at h2; rw [hcast] at h2; exact h2
          · intro j x hj hx
            have := h3 j x hj hx
            unfold InRangeD at this; rw [hcast] at this; exact this
        · exact Or.inr (Or.inl ⟨k + 1, n, by rw [he]; congr 1; omega, by simpa using h1, h2⟩)
        · exact Or.inr (Or.inr (Or.inr ⟨k, a, b, by rw [he]; congr 1; omega, h1, by simpa using h2, h3⟩))

/-- **C14.e'' `empi_ok_sum_one`** — no extra hypothesis: every entry a successful call returns (positive sizes) is a
non-negative vector summing to one, because success implies that the consumed prefix lies within range. -/
theorem empi_ok_sum_one (mnum : Int) (data : List Int) (ns : List Int) (out : List (Int × List Rat))
    (hpos : ∀ n ∈ ns, 0 < n) (h : calcEmpiDistSequence mnum data ns = .ok out) :
    ∀ entry ∈ out, entry.2.sum = 1 ∧ ∀ x ∈ entry.2, 0 ≤ x := by
  have hout := empi_counts mnum data ns out hpos h
  cases ns with
  | nil => subst hout; simp
  | cons n0 rest =>
    obtain ⟨hm, hinc, hle, hrange⟩ := (empi_ok_iff mnum data n0 rest (hpos n0 (by simp))).1 ⟨out, h⟩
    have hcast : ((mnum.toNat : Nat) : Int) = mnum := Int.toNat_of_nonneg hm
    intro entry hentry
    rw [hout] at hentry
    obtain ⟨n, hn, rfl⟩ := List.mem_map.1 hentry
    have hnpos := hpos n hn
    refine ⟨empi_sum_one mnum.toNat data n hnpos (hle n hn) ?_, empi_nonneg mnum.toNat data n hnpos⟩
    intro x hx
    have hnl := le_lastD n0 rest hinc n hn
    have := hrange x (mem_take_mono data n.toNat (lastD n0 rest).toNat (by omega) x hx)
    rw [hcast]; exact this

example : Increasing [2, 5] ∧ lastD 2 [5] = 5 := by simp [Increasing, lastD]


/-- **C14.g3 `empi_first_size_nonpositive`** (the code as it is, outside the property's domain): a first sample size
`≤ 0` is never reached — all data are validated and the result is the empty list, whatever sizes follow. -/
theorem empi_first_size_nonpositive (mnum : Int) (data : List Int) (n0 : Int) (rest : List Int)
    (hm : 0 ≤ mnum) (hn : n0 ≤ 0) (hr : ∀ x ∈ data, 0 ≤ x ∧ x < mnum) :
    calcEmpiDistSequence mnum data (n0 :: rest) = .ok [] := by
  have hcast : ((mnum.toNat : Nat) : Int) = mnum := Int.toNat_of_nonneg hm
  rw [calcEmpiDistSequence_def]
  rw [if_neg (by omega)]
  simp only []
  rw [if_neg (by omega)]
  have := empiLoop_never mnum.toNat data.length data 0 (List.replicate mnum.toNat 0) n0 0 rest [] (by simpa using hn)
    (by intro x hx; unfold InRangeD; rw [hcast]; exact hr x hx)
  simpa using this

/-- **C14.g'' `empi_validation`** — the validation errors, in the order of the code: negative `measurement_num`; a first
sample size beyond the data; a datum outside `0 ≤ d < measurement_num` *within the consumed prefix* (here: the very
first datum); nothing requested ⇒ empty result without looking at the data. -/
theorem empi_validation (mnum : Int) (data : List Int) (ns : List Int) :
    (mnum < 0 → calcEmpiDistSequence mnum data ns = .error .negativeMeasurementNum) ∧
    (0 ≤ mnum → calcEmpiDistSequence mnum data [] = .ok []) ∧
    (∀ n0 rest, 0 ≤ mnum → (data.length : Int) < n0 →
        calcEmpiDistSequence mnum data (n0 :: rest) = .error (.numSumTooLarge 0)) ∧
    (∀ d ds n0 rest, 0 ≤ mnum → n0 ≤ ((d :: ds).length : Int) → ¬ (0 ≤ d ∧ d < mnum) →
        calcEmpiDistSequence mnum (d :: ds) (n0 :: rest) = .error (.dataOutOfRange 0)) := by
  refine ⟨?_, ?_, ?_, ?_⟩
  · intro h; simp [calcEmpiDistSequence_def, h]
  · intro h; simp [calcEmpiDistSequence_def, Int.not_lt.2 h]
  · intro n0 rest h hl; simp [calcEmpiDistSequence_def, Int.not_lt.2 h, hl]
  · intro d ds n0 rest h hl hd
    have hm : ((mnum.toNat : Nat) : Int) = mnum := Int.toNat_of_nonneg h
    simp only [calcEmpiDistSequence_def, Int.not_lt.2 h, if_false, Int.not_lt.2 hl, empiLoop_cons, hm]
    rw [if_pos hd]

example : calcEmpiDistSequence 3 [0, 1, 2, 2, 1] [2, 5] = .ok [(2, [1/2, 1/2, 0]), (5, [1/5, 2/5, 2/5])] := by
  decide +kernel
example : calcEmpiDistSequence 3 [0, 1, 2] [2, 2] = .error (.notIncreasing 1) := by decide +kernel
/-- a first sample size `0` is never reached: the result is silently empty (mirrors the code) -/
example : calcEmpiDistSequence 3 [0, 1, 2] [0] = .ok [] := by decide +kernel

/-! ## seed plumbing (`to_stream`, one stream per call), for an arbitrary deterministic generator `P`

Scope (what Python does outside it is not modelled): the probability vector passes `validate_prob_dist` (otherwise Python
raises BEFORE drawing and the stream is not advanced), an integer seed is a Python `int ≥ 0` (`MT19937` raises for negative
seeds), sample sizes on the multinomial path are positive (`0` yields `nan`, negative raises). `to_stream` is applied once
here; the code applies it again inside data_generator — harmless because `to_stream(generator)` is the generator itself and
`to_stream(np.random)` is `np.random` (the `else` branch of the generated table, `toStream_table`). The plumbing functions
(`toStream`, `genData`, `genDatasetArgs`, held / global / fresh streams) are executed against the implementation by the
driver op `dsargs` on recorded tapes. -/

/-- **C14.h `seed_int_pure`** — with an integer seed the generated data are a function of (seed, arguments) only:
the store (global numpy state, every generator object the caller holds — i.e. all earlier calls and unrelated
draws) does not occur in the result and is left unchanged. -/
theorem seed_int_pure {G : Type} (P : PRNG G) (st : Store G) (s : Int) (probs : List Rat) (n : Nat) :
    genData P st (.int s) probs n = some (dataOfUniforms probs (drawN P (P.seed s) n).1, st) := by
  simp [genData, toStream_int, genDataOn_fresh]

/-- same for `Experiment.generate_dataset` (all schedules draw successively from the one fresh generator) … -/
theorem seed_int_pure_dataset {G : Type} (P : PRNG G) (st : Store G) (s : Int) (jobs : List (List Rat × Nat)) :
    genDataset P st (.int s) jobs = some ((datasetPure P (P.seed s) jobs).1, st) := by
  simp [genDataset, toStream_int, genDatasetOn_fresh]

/-- … and for `generate_empi_dists_sequence_from_prob_dists` (multinomial draws, schedule-major). -/
theorem seed_int_pure_empis {G : Type} (P : PRNG G) (st : Store G) (s : Int) (jobs : List (List Rat × List Int)) :
    genEmpisSeq P st (.int s) jobs = some ((empisSeqPure P (P.seed s) jobs).1, st) := by
  simp [genEmpisSeq, toStream_int, genEmpisSeqOn_fresh]

/-- **C14.h' `seed_list_entries_pure`** — list-valued seeds (`generate_dataset_from_prob_dists(…, [s₀, s₁, …])`): when every
entry carries an integer seed, entry `i` is the data of a *fresh* generator for `sᵢ` — a function of `(sᵢ, probsᵢ, nᵢ)`
alone, whatever the other entries are (equal seeds included) and whatever the store; the store is unchanged. -/
theorem seed_list_entries_pure {G : Type} (P : PRNG G) (st : Store G) (jobs : List (Int × List Rat × Nat)) :
    genDatasetArgs P st (jobs.map fun j => (SeedArg.int j.1, j.2.1, j.2.2)) =
      some (jobs.map fun j => dataOfUniforms j.2.1 (drawN P (P.seed j.1) j.2.2).1, st) := by
  induction jobs with
  | nil => rfl
  | cons j rest ih =>
    simp only [List.map_cons, genDatasetArgs, seed_int_pure, ih]


/-- anything that is neither `None`, a Python `int` nor a Generator (np.int64, bool, float …) is handed on as it is and
cannot be drawn from: no data (Python: AttributeError at `.random`) -/
theorem seed_other_rejected {G : Type} (P : PRNG G) (st : Store G) (probs : List Rat) (n : Nat) :
    genData P st .other probs n = none := rfl

/-- a counter PRNG on which purity and sharing are distinguishable (state = counter, uniform = (state mod 4)/4) -/
def ctrPRNG : PRNG Nat where
  seed := fun s => s.toNat
  next := fun g => (((g % 4 : Nat) : Int) / 4, g + 1)
  multi := fun g n _ => ([n, 0], g + 1)

/-- two list entries with the same int seed: identical data (a fresh generator each) … -/
example : (genDatasetArgs ctrPRNG ⟨0, []⟩ [(.int 1, [1/2, 1/2], 2), (.int 1, [1/2, 1/2], 2)]).map (·.1) =
    some [[0, 1], [0, 1]] := by decide +kernel
/-- … whereas one shared generator object advances, and the global state is used for `None` -/
example : (genDatasetArgs ctrPRNG ⟨0, [1]⟩ [(.gen 0, [1/2, 1/2], 2), (.gen 0, [1/2, 1/2], 2), (.none, [1/2, 1/2], 2)]).map (·.1) =
    some [[0, 1], [1, 0], [0, 0]] := by decide +kernel
example : (genData ctrPRNG ⟨7, [1]⟩ (.int 2) [1/2, 1/2] 3).map (fun r => (r.1, r.2.glob, r.2.gens)) = some ([1, 1, 0], 7, [1]) := by
  decide +kernel

/-- spec pin for the dataset: schedule `k+1` continues the uniform stream where schedule `k` stopped -/
theorem datasetPure_cons {G : Type} (P : PRNG G) (g : G) (probs : List Rat) (n : Nat) (rest : List (List Rat × Nat)) :
    datasetPure P g ((probs, n) :: rest) =
      (dataOfUniforms probs (drawN P g n).1 :: (datasetPure P (drawN P g n).2 rest).1,
       (datasetPure P (drawN P g n).2 rest).2) := rfl

/-- **C14.i `shared_stream_advances`** — successive calls on one generator object consume consecutive segments of
its stream: two calls asking for `n₁` and `n₂` data return the two halves of what one call for `n₁ + n₂` uniforms
would have produced; the generator object is advanced accordingly, the global state and the other generators are
untouched. (So the two results differ unless the generator's stream repeats.) -/
theorem shared_stream_advances {G : Type} (P : PRNG G) (st : Store G) (k : Nat) (g : G) (probs : List Rat)
    (n1 n2 : Nat) (hk : st.gens[k]? = some g) :
    ∃ d1 d2 st1 st2, genData P st (.gen k) probs n1 = some (d1, st1) ∧
      genData P st1 (.gen k) probs n2 = some (d2, st2) ∧
      d1 ++ d2 = dataOfUniforms probs (drawN P g (n1 + n2)).1 ∧
      st2.gens = st.gens.set k (drawN P g (n1 + n2)).2 ∧ st2.glob = st.glob := by
  have hlt : k < st.gens.length := (List.getElem?_eq_some_iff.1 hk).1
  let g1 := (drawN P g n1).2
  let g2 := (drawN P g1 n2).2
  refine ⟨dataOfUniforms probs (drawN P g n1).1, dataOfUniforms probs (drawN P g1 n2).1,
    { st with gens := st.gens.set k g1 }, { st with gens := (st.gens.set k g1).set k g2 }, ?_, ?_, ?_, ?_, ?_⟩
  · simp [genData, toStream_gen, genDataOn, Stream.get, Stream.put, hk, g1]
  · simp [genData, toStream_gen, genDataOn, Stream.get, Stream.put, hlt, g1, g2]
  · rw [drawN_add]; simp [dataOfUniforms, g1]
  · rw [drawN_add]; simp [g1, g2]
  · rfl

/-- **C14.j `global_stream`** — without seed or generator the global numpy state is the stream: it is used, advanced,
and nothing else changes; re-seeding it (`Experiment.reset_seed_data`) makes the next unseeded call a function of
that seed alone. -/
theorem global_stream {G : Type} (P : PRNG G) (st : Store G) (probs : List Rat) (n : Nat) (reseed : Int → G) (s : Int) :
    genData P st .none probs n =
        some (dataOfUniforms probs (drawN P st.glob n).1, { st with glob := (drawN P st.glob n).2 }) ∧
    genData P (resetSeedData reseed st (some s)) .none probs n =
        some (dataOfUniforms probs (drawN P (reseed s) n).1,
              { st with glob := (drawN P (reseed s) n).2 }) ∧
    resetSeedData reseed st none = st := by
  refine ⟨by simp [genData, toStream_none, genDataOn, Stream.get, Stream.put],
    by simp [genData, toStream_none, genDataOn, Stream.get, Stream.put, resetSeedData], rfl⟩


/-! ## the pipeline: uniforms → data → empirical distributions -/

/-- **C14.k `empi_of_stream_prefix`** — the sampling pipeline end to end (`generate_data_from_prob_dist` after the
uniforms are drawn, then `calc_empi_dist_sequence` with `measurement_num = len(probs)`): for valid sample sizes the run
always succeeds, and the entry for `n` is the `n`-shot empirical distribution of the *first `n` uniforms of the same
stream* — counts of `dataOfUniforms probs (us.take n)` divided by `n` — for every `n` requested, whatever follows. -/
theorem empi_of_stream_prefix (probs : List Rat) (hnn : ∀ p ∈ probs, 0 ≤ p) (hex : ∃ p ∈ probs, 0 < p) (us : List Rat)
    (hus : ∀ u ∈ us, 0 ≤ u) (n0 : Int) (rest : List Int) (hpos : 0 < n0)
    (hinc : Increasing (n0 :: rest)) (hle : ∀ n ∈ n0 :: rest, n ≤ (us.length : Int)) :
    calcEmpiDistSequence probs.length (dataOfUniforms probs us) (n0 :: rest) =
      .ok ((n0 :: rest).map fun n =>
        (n, (countsOf probs.length (dataOfUniforms probs (us.take n.toNat))).map
              fun (c : Nat) => ((c : Int) : Rat) / (n : Rat))) := by
  have hlen : (dataOfUniforms probs us).length = us.length := by simp [dataOfUniforms]
  have hrange : ∀ x ∈ dataOfUniforms probs us, 0 ≤ x ∧ x < (probs.length : Int) := by
    intro x hx
    obtain ⟨i, hi, rfl, _⟩ := (data_valid probs hnn hex us hus).2 x hx
    exact ⟨by omega, by exact_mod_cast hi⟩
  obtain ⟨out, hout⟩ := (empi_ok_iff probs.length (dataOfUniforms probs us) n0 rest hpos).2
    ⟨by omega, hinc, by rw [hlen]; exact hle, fun x hx => hrange x (List.mem_of_mem_take hx)⟩
  have hall : ∀ n ∈ n0 :: rest, 0 < n := fun n hn => by
    have := head_le_of_increasing n0 rest hinc n hn; omega
  rw [hout, empi_counts _ _ _ out hall hout]
  congr 1
  apply List.map_congr_left
  intro n _
  simp only [empiEntry, Int.toNat_natCast, dataOfUniforms, List.map_take]

example : calcEmpiDistSequence 3 (dataOfUniforms [1/2, 1/4, 1/4] [0, 3/4, 1/2, 7/8]) [2, 4] =
    .ok [(2, [1/2, 0, 1/2]), (4, [1/4, 1/4, 1/2])] := by decide +kernel



/-! ## the multinomial path (`generate_empi_dist(s)_sequence_from_prob_dist(s)`: Experiment.generate_empi_dist(s)_sequence and the
three entry points of the four tomography classes) -/

/-- spec pins -/
theorem validEmpi_def (probs e : List Rat) : ValidEmpi probs e ↔
    (e.length = probs.length ∧ (∀ x ∈ e, 0 ≤ x) ∧ e.sum = 1 ∧ ∀ i : Nat, probs[i]? = some 0 → e[i]? = some 0) := Iff.rfl

/-- **C14.l `genEmpiSeq_valid`** — under the contract `MultiOK` of `multinomial.rvs` (counts per outcome, non-negative, summing
to `n`, zero on zero-probability outcomes; trusted, tested by the oracle) every empirical distribution this path returns, for
positive sample sizes, is `(n, v)` for the requested sizes in order with `v` a vector of one entry per outcome, non-negative,
summing to one and vanishing on outcomes of probability zero — on any stream. NOT claimed (and false): cumulative consistency —
each size is an independent draw. The tomography layer (copy of the experiment, target index, schedule-major consumption,
transposition) is skeleton-matched by the translator and checked by the reference-stream oracle only. -/
theorem genEmpiSeq_valid {G : Type} (P : PRNG G) (hP : MultiOK P) (probs : List Rat) :
    ∀ (ns : List Int) (st : Store G) (s : Stream G) (r : List (Int × List Rat)) (st' : Store G) (s' : Stream G),
      (∀ n ∈ ns, 0 < n) → genEmpiSeqOn P st s probs ns = some (r, st', s') →
      r.map (·.1) = ns ∧ ∀ e ∈ r, ValidEmpi probs e.2 := by
  intro ns
  induction ns with
  | nil =>
    intro st s r st' s' _ h
    simp only [genEmpiSeqOn, Option.some.injEq, Prod.mk.injEq] at h
    obtain ⟨rfl, _, _⟩ := h
    simp
  | cons n ns ih =>
    intro st s r st' s' hpos h
    simp only [genEmpiSeqOn] at h
    split at h
    · cases h
    · rename_i g hg
      split at h
      · cases h
      · rename_i r0 st0 s0 hrec
        simp only [Option.some.injEq, Prod.mk.injEq] at h
        obtain ⟨rfl, _, _⟩ := h
        obtain ⟨h1, h2⟩ := ih _ _ r0 st0 s0 (fun m hm => hpos m (by simp [hm])) hrec
        refine ⟨by simp [h1], ?_⟩
        intro e he
        rcases List.mem_cons.1 he with rfl | he
        · exact validEmpi_of_counts P hP g n (hpos n (by simp)) probs
        · exact h2 e he


/-- `ctrPRNG.multi` satisfies nothing of the contract for 3 outcomes; a PRNG that puts all `n` shots on the first outcome of
positive probability would. Non-vacuity of the contract: the constant one-outcome sampler -/
def oneOutcomePRNG : PRNG Unit where
  seed := fun _ => ()
  next := fun _ => (0, ())
  multi := fun _ n p => (p.map fun q => if q = 1 then n else 0, ())

example : (genEmpiSeqOn oneOutcomePRNG ⟨(), []⟩ .glob [0, 1, 0] [5, 7]).map (·.1) = some [(5, [0, 1, 0]), (7, [0, 1, 0])] := by
  decide +kernel


/-! ## error branches of `generate_data_from_prob_dist` (executed by driver op `gde`) -/

/-- **C14.m `validateProb_ok_iff`** — `validate_prob_dist(prob_dist, eps)` passes exactly when every entry is non-negative up
to `eps` (`p ≥ 0` or `|p| ≤ eps`) and the sum is within `eps` of one. -/
theorem validateProb_ok_iff (probs : List Rat) (eps : Rat) :
    validateProb probs eps = .ok () ↔
      (∀ p ∈ probs, 0 ≤ p ∨ rabs p ≤ eps) ∧ rabs (probs.foldr (· + ·) 0 - 1) ≤ eps := by
  unfold validateProb
  cases h : firstNegative eps probs 0 with
  | some i =>
    simp only [reduceCtorEq, false_iff, not_and]
    intro hall
    rw [(firstNegative_none_iff eps probs 0).2 hall] at h; cases h
  | none =>
    have hall := (firstNegative_none_iff eps probs 0).1 h
    by_cases hs : rabs (probs.foldr (· + ·) 0 - 1) ≤ eps
    · simp only [hs, if_true, true_iff, and_true]; exact hall
    · simp [hs]

/-- **C14.m' `validateProb_error_sound`** — the reported entry really is below `−eps`, and it is the first such entry -/
theorem validateProb_error_sound (probs : List Rat) (eps : Rat) (i : Nat)
    (h : validateProb probs eps = .error (.negativeEntry i)) :
    ∃ hi : i < probs.length, probs[i] < 0 ∧ ¬ rabs probs[i] ≤ eps := by
  unfold validateProb at h
  cases hf : firstNegative eps probs 0 with
  | none => rw [hf] at h; simp only at h; split at h <;> cases h
  | some j =>
    rw [hf] at h; injection h with h; injection h with h; subst h
    obtain ⟨k, hk, hlt, hp⟩ := firstNegative_some eps probs 0 j hf
    simp only [Nat.zero_add] at hk; subst hk
    exact ⟨hlt, hp⟩

/-- **C14.n `genDataE_ok_iff`** — `generate_data_from_prob_dist` returns data exactly when the vector passes validation, the
argument is `None`, a generator the caller holds, or a non-negative Python int, and then the data and the store afterwards are
those of `genData` (so all seed-purity / stream theorems apply). -/
theorem genDataE_ok_iff {G : Type} (P : PRNG G) (st : Store G) (a : SeedArg) (probs : List Rat) (n : Nat) (eps : Rat)
    (d : List Int) (st' : Store G) :
    genDataE P st a probs n eps = (.ok d, st') ↔
      validateProb probs eps = .ok () ∧ a ≠ .other ∧ (∀ s, a = .int s → 0 ≤ s) ∧ genData P st a probs n = some (d, st') := by
  unfold genDataE
  cases hv : validateProb probs eps with
  | error e => simp
  | ok u =>
    cases a with
    | other => simp
    | int s =>
      by_cases hs : s < 0
      · simp [hs]
      · simp only [hs, if_false]
        cases hg : genData P st (.int s) probs n with
        | none => simp
        | some r => obtain ⟨d2, st2⟩ := r; simp; intro _ _; omega
    | none =>
      cases hg : genData P st .none probs n with
      | none => simp
      | some r => obtain ⟨d2, st2⟩ := r; simp
    | gen k =>
      cases hg : genData P st (.gen k) probs n with
      | none => simp
      | some r => obtain ⟨d2, st2⟩ := r; simp

/-- **C14.n' `genDataE_error_draws_nothing`** — on every error (invalid vector, negative seed, a seed that is neither `None`,
an int nor a generator: np.int64, bool, float …) nothing has been drawn: the store after the call is the store before. -/
theorem genDataE_error_draws_nothing {G : Type} (P : PRNG G) (st : Store G) (a : SeedArg) (probs : List Rat) (n : Nat)
    (eps : Rat) (e : GenErr) (st' : Store G) (h : genDataE P st a probs n eps = (.error e, st')) : st' = st := by
  unfold genDataE at h
  cases hv : validateProb probs eps with
  | error e' => rw [hv] at h; simp only [Prod.mk.injEq] at h; exact h.2.symm
  | ok u =>
    rw [hv] at h
    cases a with
    | other => simp only [Prod.mk.injEq] at h; exact h.2.symm
    | int s =>
      simp only at h
      split at h
      · simp only [Prod.mk.injEq] at h; exact h.2.symm
      · split at h
        · simp only [Prod.mk.injEq, reduceCtorEq, false_and] at h
        · simp only [Prod.mk.injEq] at h; exact h.2.symm
    | none =>
      simp only at h
      split at h
      · simp only [Prod.mk.injEq, reduceCtorEq, false_and] at h
      · simp only [Prod.mk.injEq] at h; exact h.2.symm
    | gen k =>
      simp only at h
      split at h
      · simp only [Prod.mk.injEq, reduceCtorEq, false_and] at h
      · simp only [Prod.mk.injEq] at h; exact h.2.symm

/-- the order of the checks, on concrete inputs: validation first, then the seed -/
example : (genDataE ctrPRNG ⟨0, [1]⟩ (.int (-1)) [1/2, 1/5] 2 (1/100)).1 = .error .sumNotOne := by decide +kernel
example : (genDataE ctrPRNG ⟨0, [1]⟩ (.int (-1)) [1/2, 1/2] 2 (1/100)).1 = .error .negativeSeed := by decide +kernel
example : (genDataE ctrPRNG ⟨0, [1]⟩ .other [1/2, 1/2] 2 (1/100)).1 = .error .notAStream := by decide +kernel
example : (genDataE ctrPRNG ⟨0, [1]⟩ (.gen 0) [1/2, -1/10, 3/5] 2 (1/100)).1 = .error (.negativeEntry 1) := by decide +kernel
example : (genDataE ctrPRNG ⟨0, [1]⟩ (.gen 0) [1/2, -1/1000, 501/1000] 2 (1/100)).1 = .ok [0, 2] := by decide +kernel


/-! ## `QTomography.reset_seed` / `Experiment.reset_seed_data` (executed by driver op `rseed`) -/

/-- **C14.o `reset_seed_replays`** — the replay mechanism of the global-state path: after `reset_seed()` on an object holding the
seed `s`, after `reset_seed(s')` for ANY integer `s'` (zero included - fix b42e0b1), and again after any further `reset_seed()`,
the next unseeded generation is a function of the seed alone: the data of the stream `reseed s`, whatever was drawn before. -/
theorem reset_seed_replays {G : Type} (P : PRNG G) (reseed : Int → G) (t : TomoSeed G) (probs : List Rat) (n : Nat) (s s' : Int)
    (hs : t.seedData = some s) :
    (genData P (tomoResetSeed reseed t none).store .none probs n).map (·.1) =
        some (dataOfUniforms probs (drawN P (reseed s) n).1) ∧
    (tomoResetSeed reseed t (some s')).seedData = some s' ∧
    (genData P (tomoResetSeed reseed t (some s')).store .none probs n).map (·.1) =
        some (dataOfUniforms probs (drawN P (reseed s') n).1) ∧
    (genData P (tomoResetSeed reseed (tomoResetSeed reseed t (some s')) none).store .none probs n).map (·.1) =
        some (dataOfUniforms probs (drawN P (reseed s') n).1) := by
  simp [tomoResetSeed, expResetSeedData, resetSeedData, hs, genData, toStream_none, genDataOn, Stream.get, Stream.put]

/-- an object built without `seed_data` is not re-seeded by `reset_seed()` (`np.random.seed` is not called for `None`) -/
theorem reset_seed_none_is_noop {G : Type} (reseed : Int → G) (t : TomoSeed G) (h : t.seedData = none) :
    tomoResetSeed reseed t none = t := by
  cases t; simp_all [tomoResetSeed, expResetSeedData, resetSeedData]

/-- history on the counter PRNG: draw, rewind with `reset_seed()`, draw the same again; `reset_seed(0)` switches to seed 0 -/
example : runResets ctrPRNG (fun s => s.toNat) [1/2, 1/2] ⟨some 1, ⟨1, []⟩⟩
    [(none, 2), (some none, 0), (none, 2), (some (some 0), 0), (none, 2), (some none, 0), (none, 1)] =
    some [[0, 1], [0, 1], [0, 0], [0]] := by decide +kernel

end QM.C14
