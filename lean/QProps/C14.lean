import QProofs.C14
/-!
# C14 — property theorems (sampled data, empirical distributions, seed plumbing)

All statements are unbounded in the number of outcomes, the data length, the number of sample sizes, the number of
schedules and the number of preceding calls. `probs.take i |>.sum` is the cumulative sum `c_i` (`c_0 = 0`).
Probabilities are rationals (every float is one); the float rounding of the running sum is not modelled (DESIGN §6).
-/
namespace QM.C14

/-- **C14.a `r2d_range`** — for a non-empty probability vector the sampled outcome is within range, whatever the
random number and the entries. -/
theorem r2d_range (probs : List Rat) (u : Rat) (h : probs ≠ []) :
    0 ≤ randomNumberToData probs u ∧ randomNumberToData probs u < probs.length := by
  unfold randomNumberToData
  split
  · rename_i i hi
    have := r2dLoop_lt probs u 0 0 i hi
    omega
  · have : 0 < probs.length := List.length_pos_iff.2 h
    omega

/-- **C14.b `r2d_interval`** — cumulative-sum inversion: for non-negative entries and `0 ≤ u` the outcome is `i`
exactly when `c_i ≤ u < c_{i+1}`; the preimage of `i` is a half-open interval of length `probs[i]`. -/
theorem r2d_interval (probs : List Rat) (hnn : ∀ p ∈ probs, 0 ≤ p) (u : Rat) (hu : 0 ≤ u) (i : Nat)
    (hi : i < probs.length) :
    randomNumberToData probs u = i ∧ u < probs.sum ↔
      (probs.take i).sum ≤ u ∧ u < (probs.take (i + 1)).sum := by
  have key : r2dLoop probs u 0 0 = some i ↔ (probs.take i).sum ≤ u ∧ u < (probs.take (i + 1)).sum := by
    rw [r2dLoop_some_iff]
    constructor
    · rintro ⟨k, hk, _, hlt, hall⟩
      simp only [Nat.zero_add] at hk; subst hk
      refine ⟨?_, by simpa using hlt⟩
      cases i with
      | zero => simpa using hu
      | succ j => simpa using hall j (by omega)
    · rintro ⟨h1, h2⟩
      refine ⟨i, by simp, hi, by simpa using h2, ?_⟩
      intro j hj
      have := sum_take_mono probs hnn (j + 1) i (by omega)
      simp only [Rat.zero_add]; linarith
  constructor
  · rintro ⟨h1, h2⟩
    unfold randomNumberToData at h1
    split at h1
    · rename_i k hk
      have : k = i := by exact_mod_cast h1
      subst this
      exact key.1 hk
    · rename_i hnone
      have := (r2dLoop_none_iff probs hnn u 0 0 hu).1 hnone
      linarith
  · intro h
    have hs := key.2 h
    refine ⟨by simp [randomNumberToData, hs], ?_⟩
    have := sum_take_le_sum probs hnn (i + 1)
    linarith

/-- **C14.c `r2d_pos`** — only outcomes of non-zero probability: if `0 ≤ u < Σ probs` (entries non-negative) the
outcome `i` has `probs[i] > 0`. -/
theorem r2d_pos (probs : List Rat) (hnn : ∀ p ∈ probs, 0 ≤ p) (u : Rat) (hu : 0 ≤ u) (hlt : u < probs.sum) :
    ∃ i : Nat, ∃ hi : i < probs.length, randomNumberToData probs u = i ∧ 0 < probs[i] := by
  cases h : r2dLoop probs u 0 0 with
  | none =>
    have := (r2dLoop_none_iff probs hnn u 0 0 hu).1 h
    linarith
  | some i =>
    have hi := (r2dLoop_lt probs u 0 0 i h).2
    simp only [Nat.zero_add] at hi
    have hr : randomNumberToData probs u = i := by simp [randomNumberToData, h]
    have := (r2d_interval probs hnn u hu i hi).1 ⟨hr, hlt⟩
    refine ⟨i, hi, hr, ?_⟩
    have hs := List.sum_take_succ probs i hi
    linarith

/-- **C14.c' `r2d_residual`** — the explicit residual branch: if `Σ probs ≤ u` (possible only through rounding, or a
sub-normalised vector) the loop falls through and the *last* outcome is returned, whatever its probability. -/
theorem r2d_residual (probs : List Rat) (hnn : ∀ p ∈ probs, 0 ≤ p) (u : Rat) (hu : 0 ≤ u) (hge : probs.sum ≤ u) :
    randomNumberToData probs u = (probs.length : Int) - 1 := by
  have := (r2dLoop_none_iff probs hnn u 0 0 hu).2 (by linarith)
  simp [randomNumberToData, this]

/-- the residual branch can deliver a zero-probability outcome (sub-normalised vector, `u` just below 1) -/
example : randomNumberToData [1/4, 1/2, 0] (7/8) = 2 := by decide +kernel

/-- **C14.d `data_valid`** — generated data (`generate_data_from_prob_dist` after the uniforms are drawn): every datum
is in range and has non-zero probability, for any number of data. -/
theorem data_valid (probs : List Rat) (hnn : ∀ p ∈ probs, 0 ≤ p) (us : List Rat)
    (hus : ∀ u ∈ us, 0 ≤ u ∧ u < probs.sum) :
    (dataOfUniforms probs us).length = us.length ∧
    ∀ d ∈ dataOfUniforms probs us, ∃ i : Nat, ∃ hi : i < probs.length, d = i ∧ 0 < probs[i] := by
  refine ⟨by simp [dataOfUniforms], ?_⟩
  intro d hd
  simp only [dataOfUniforms, List.mem_map] at hd
  obtain ⟨u, hu, rfl⟩ := hd
  obtain ⟨i, hi, h1, h2⟩ := r2d_pos probs hnn u (hus u hu).1 (hus u hu).2
  exact ⟨i, hi, h1, h2⟩

example : dataOfUniforms [1/2, 0, 1/4, 1/4] [0, 1/2, 3/4, 7/8, 1/4] = [0, 2, 3, 3, 0] := by decide +kernel

/-! ## empirical distributions (`calc_empi_dist_sequence`) -/

/-- spec pins: the count vector and the specified entry `(n, counts(data[:n]) / n)` -/
theorem countsOf_def (m : Nat) (l : List Int) :
    countsOf m l = (List.range' 0 m).map fun k => l.count ((k : Nat) : Int) := rfl
theorem empiEntry_def (m : Nat) (data : List Int) (n : Int) :
    empiEntry m data n = (n, (countsOf m (data.take n.toNat)).map fun (c : Nat) => ((c : Int) : Rat) / (n : Rat)) := rfl

/-- **C14.e `empi_counts`** — whenever `calc_empi_dist_sequence` returns (positive sample sizes), it returns, for
*every* requested sample size `n` in order, exactly `(n, counts of the prefix data[:n] / n)` — nothing else of the
data enters. ∀ outcome counts, data lengths, numbers of sample sizes. -/
theorem empi_counts (mnum : Int) (data : List Int) (ns : List Int) (out : List (Int × List Rat))
    (hpos : ∀ n ∈ ns, 0 < n) (h : calcEmpiDistSequence mnum data ns = .ok out) :
    out = ns.map (empiEntry mnum.toNat data) := by
  unfold calcEmpiDistSequence at h
  split at h
  · cases h
  · split at h
    · injection h with h; subst h; rfl
    · rename_i n0 rest
      split at h
      · cases h
      · rename_i hle
        have := empiLoop_spec mnum.toNat data data [] n0 0 rest [] out rfl
          (by simpa using hpos n0 (by simp)) (by omega)
          (by rw [countsOf_nil]; exact h)
        simpa using this

/-- entries are non-negative -/
theorem empi_nonneg (m : Nat) (data : List Int) (n : Int) (hn : 0 < n) :
    ∀ e ∈ (empiEntry m data n).2, 0 ≤ e := by
  intro e he
  simp only [empiEntry, List.mem_map] at he
  obtain ⟨c, _, rfl⟩ := he
  have h1 : (0 : Rat) ≤ ((c : Int) : Rat) := by exact_mod_cast Int.natCast_nonneg c
  have h2 : (0 : Rat) < (n : Rat) := by exact_mod_cast hn
  exact div_nonneg h1 (le_of_lt h2)

/-- **C14.e' `empi_sum_one`** — an entry whose prefix lies within range sums to one. -/
theorem empi_sum_one (m : Nat) (data : List Int) (n : Int) (hn : 0 < n) (hle : n ≤ data.length)
    (hr : ∀ x ∈ data.take n.toNat, 0 ≤ x ∧ x < (m : Int)) :
    ((empiEntry m data n).2).sum = 1 := by
  have hs := countsOf_sum m (data.take n.toNat) hr
  have hlen : (data.take n.toNat).length = n.toNat := by
    rw [List.length_take]; omega
  have hnq : (n : Rat) ≠ 0 := by
    have : (0 : Rat) < (n : Rat) := by exact_mod_cast hn
    exact ne_of_gt this
  simp only [empiEntry]
  have : ∀ l : List Nat, (l.map fun (c : Nat) => ((c : Int) : Rat) / (n : Rat)).sum = ((l.sum : Nat) : Rat) / (n : Rat) := by
    intro l
    induction l with
    | nil => simp
    | cons c t ih => simp only [List.map_cons, List.sum_cons, ih]; push_cast; rw [add_div]
  rw [this, hs, hlen]
  have : ((n.toNat : Nat) : Rat) = (n : Rat) := by
    have := Int.toNat_of_nonneg (le_of_lt hn)
    exact_mod_cast this
  rw [this]; exact div_self hnq


/-- **C14.f `empi_cumulative`** — cumulative consistency: for `n₁ ≤ n₂` the count vector behind the entry for `n₂`
is the one behind `n₁` plus the counts of the slice `data[n₁:n₂]` (so `n₂·e₂ − n₁·e₁` is that slice's count vector). -/
theorem empi_cumulative (m : Nat) (data : List Int) (n1 n2 : Nat) (h : n1 ≤ n2) :
    countsOf m (data.take n2) =
      List.zipWith (· + ·) (countsOf m (data.take n1)) (countsOf m ((data.take n2).drop n1)) := by
  have : data.take n2 = data.take n1 ++ (data.take n2).drop n1 := by
    have h1 := (List.take_append_drop n1 (data.take n2)).symm
    rwa [List.take_take, Nat.min_eq_left h] at h1
  conv => lhs; rw [this]
  exact countsFrom_append 0 m _ _

/-- **C14.g `empi_validation`** — the validation errors, in the order of the code: negative `measurement_num`; a first
sample size beyond the data; a datum outside `0 ≤ d < measurement_num` *within the consumed prefix* (here: the very
first datum); nothing requested ⇒ empty result without looking at the data. -/
theorem empi_validation (mnum : Int) (data : List Int) (ns : List Int) :
    (mnum < 0 → calcEmpiDistSequence mnum data ns = .error .negativeMeasurementNum) ∧
    (0 ≤ mnum → calcEmpiDistSequence mnum data [] = .ok []) ∧
    (∀ n0 rest, 0 ≤ mnum → (data.length : Int) < n0 →
        calcEmpiDistSequence mnum data (n0 :: rest) = .error (.numSumTooLarge 0)) ∧
    (∀ d ds n0 rest, 0 ≤ mnum → n0 ≤ ((d :: ds).length : Int) → ¬ (0 ≤ d ∧ d < mnum) →
        calcEmpiDistSequence mnum (d :: ds) (n0 :: rest) = .error (.dataOutOfRange 0)) := by
  refine ⟨?_, ?_, ?_, ?_⟩
  · intro h; simp [calcEmpiDistSequence, h]
  · intro h; simp [calcEmpiDistSequence, Int.not_lt.2 h]
  · intro n0 rest h hl; simp [calcEmpiDistSequence, Int.not_lt.2 h, hl]
  · intro d ds n0 rest h hl hd
    have hm : ((mnum.toNat : Nat) : Int) = mnum := Int.toNat_of_nonneg h
    simp only [calcEmpiDistSequence, Int.not_lt.2 h, if_false, Int.not_lt.2 hl, empiLoop, hm]
    rw [if_pos hd]

example : calcEmpiDistSequence 3 [0, 1, 2, 2, 1] [2, 5] = .ok [(2, [1/2, 1/2, 0]), (5, [1/5, 2/5, 2/5])] := by
  decide +kernel
example : calcEmpiDistSequence 3 [0, 1, 2] [2, 2] = .error (.notIncreasing 1) := by decide +kernel
/-- a first sample size `0` is never reached: the result is silently empty (mirrors the code) -/
example : calcEmpiDistSequence 3 [0, 1, 2] [0] = .ok [] := by decide +kernel

/-! ## seed plumbing (`to_stream`, one stream per call), for an arbitrary deterministic generator `P` -/

/-- **C14.h `seed_int_pure`** — with an integer seed the generated data are a function of (seed, arguments) only:
the store (global numpy state, every generator object the caller holds — i.e. all earlier calls and unrelated
draws) does not occur in the result and is left unchanged. -/
theorem seed_int_pure {G : Type} (P : PRNG G) (st : Store G) (s : Int) (probs : List Rat) (n : Nat) :
    genData P st (.int s) probs n = some (dataOfUniforms probs (drawN P (P.seed s) n).1, st) := by
  simp [genData, toStream, genDataOn_fresh]

/-- same for `Experiment.generate_dataset` (all schedules draw successively from the one fresh generator) … -/
theorem seed_int_pure_dataset {G : Type} (P : PRNG G) (st : Store G) (s : Int) (jobs : List (List Rat × Nat)) :
    genDataset P st (.int s) jobs = some ((datasetPure P (P.seed s) jobs).1, st) := by
  simp [genDataset, toStream, genDatasetOn_fresh]

/-- … and for `generate_empi_dists_sequence_from_prob_dists` (multinomial draws, schedule-major). -/
theorem seed_int_pure_empis {G : Type} (P : PRNG G) (st : Store G) (s : Int) (jobs : List (List Rat × List Int)) :
    genEmpisSeq P st (.int s) jobs = some ((empisSeqPure P (P.seed s) jobs).1, st) := by
  simp [genEmpisSeq, toStream, genEmpisSeqOn_fresh]

/-- spec pin for the dataset: schedule `k+1` continues the uniform stream where schedule `k` stopped -/
theorem datasetPure_cons {G : Type} (P : PRNG G) (g : G) (probs : List Rat) (n : Nat) (rest : List (List Rat × Nat)) :
    datasetPure P g ((probs, n) :: rest) =
      (dataOfUniforms probs (drawN P g n).1 :: (datasetPure P (drawN P g n).2 rest).1,
       (datasetPure P (drawN P g n).2 rest).2) := rfl

/-- **C14.i `shared_stream_advances`** — successive calls on one generator object consume consecutive segments of
its stream: two calls asking for `n₁` and `n₂` data return the two halves of what one call for `n₁ + n₂` uniforms
would have produced; the generator object is advanced accordingly, the global state and the other generators are
untouched. (So the two results differ unless the generator's stream repeats.) -/
theorem shared_stream_advances {G : Type} (P : PRNG G) (st : Store G) (k : Nat) (g : G) (probs : List Rat)
    (n1 n2 : Nat) (hk : st.gens[k]? = some g) :
    ∃ d1 d2 st1 st2, genData P st (.gen k) probs n1 = some (d1, st1) ∧
      genData P st1 (.gen k) probs n2 = some (d2, st2) ∧
      d1 ++ d2 = dataOfUniforms probs (drawN P g (n1 + n2)).1 ∧
      st2.gens = st.gens.set k (drawN P g (n1 + n2)).2 ∧ st2.glob = st.glob := by
  have hlt : k < st.gens.length := (List.getElem?_eq_some_iff.1 hk).1
  let g1 := (drawN P g n1).2
  let g2 := (drawN P g1 n2).2
  refine ⟨dataOfUniforms probs (drawN P g n1).1, dataOfUniforms probs (drawN P g1 n2).1,
    { st with gens := st.gens.set k g1 }, { st with gens := (st.gens.set k g1).set k g2 }, ?_, ?_, ?_, ?_, ?_⟩
  · simp [genData, toStream, genDataOn, Stream.get, Stream.put, hk, g1]
  · simp [genData, toStream, genDataOn, Stream.get, Stream.put, hlt, g1, g2]
  · rw [drawN_add]; simp [dataOfUniforms, g1]
  · rw [drawN_add]; simp [g1, g2]
  · rfl

/-- **C14.j `global_stream`** — without seed or generator the global numpy state is the stream: it is used, advanced,
and nothing else changes; re-seeding it (`Experiment.reset_seed_data`) makes the next unseeded call a function of
that seed alone. -/
theorem global_stream {G : Type} (P : PRNG G) (st : Store G) (probs : List Rat) (n : Nat) (reseed : Int → G) (s : Int) :
    genData P st .none probs n =
        some (dataOfUniforms probs (drawN P st.glob n).1, { st with glob := (drawN P st.glob n).2 }) ∧
    genData P (resetSeedData reseed st (some s)) .none probs n =
        some (dataOfUniforms probs (drawN P (reseed s) n).1,
              { st with glob := (drawN P (reseed s) n).2 }) ∧
    resetSeedData reseed st none = st := by
  refine ⟨by simp [genData, toStream, genDataOn, Stream.get, Stream.put],
    by simp [genData, toStream, genDataOn, Stream.get, Stream.put, resetSeedData], rfl⟩

end QM.C14
