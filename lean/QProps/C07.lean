import QProofs.C07
import QGen.C07
import QProofs.C07Embed
/-!
# C07 — property theorems: tensor products and embeddings respect subsystem structure

Statements are about the executable definitions of `QModel/C07.lean`; unbounded in all dimensions, numbers of
subsystems and list lengths unless the doc comment says "finite table".
-/
open Matrix
namespace QM.C07
open QM

section kernels
variable {K : Type} [CommSemiring K]

/-- C07 `K_swaps`: the commutation matrix `_K(a, b)` swaps tensor factors, `K(a,b)·(u ⊗ v) = v ⊗ u`,
for all dimensions `a`, `b` (`u ∈ K^b`, `v ∈ K^a`). -/
theorem K_swaps (a b : Nat) (u : Vec K b) (v : Vec K a) :
    (Kmat a b).mulVec (kronVec u v) = kronVec v u := Kmat_swaps a b u v

/-- C07 `hs_tensor`: `_tensor_product_hs_hs` before the subsystem permutation — Kronecker product of the flattened
HS matrices, vec-permutation `I ⊗ K(d2,d1) ⊗ I`, reshape — *is* the Kronecker product of the HS matrices,
for all sizes. (So a product gate acts factor-wise: `HS(g1 ⊗ g2) = HS(g1) ⊗ HS(g2)` in the product basis.) -/
theorem hs_tensor {n1 n2 : Nat} (A : Mat K n1 n1) (B : Mat K n2 n2) : tensorHsHs A B = kron A B :=
  tensorHsHs_eq_kron A B

/-- mixed-product property, the reason a product gate maps product states to product states:
`(A ⊗ B)(x ⊗ y) = (A x) ⊗ (B y)`. -/
theorem product_gate_action {a b c d : Nat} (A : Mat K a b) (B : Mat K c d) (x : Vec K b) (y : Vec K d) :
    (kron A B).mulVec (kronVec x y) = kronVec (A.mulVec x) (B.mulVec y) := kron_mulVec A B x y

/-- C07 single-swap lemma: the vec-permutation `I_H ⊗ K(p,q) ⊗ I_T` that `_left_permutation_matrix` builds (`H`, `T`
the products of the sizes before / after the swapped pair, `leftPerm_dims`) exchanges the two adjacent tensor
factors and leaves the rest alone — for all sizes. -/
theorem left_perm_single_swap (H p q T : Nat) (xh : Vec K H) (u : Vec K q) (v : Vec K p) (xt : Vec K T) :
    (kron (kron (Mat.one : Mat K H H) (Kmat p q)) (Mat.one : Mat K T T)).mulVec
        (kronVec (kronVec xh (kronVec u v)) xt)
      = kronVec (kronVec xh (kronVec v u)) xt := by
  rw [kron_mulVec, kron_mulVec, one_mulVec, one_mulVec, Kmat_swaps]

end kernels

/-- the driver's large-input path (`kron` substituted for the vec-permutation pipeline) computes the same
function as the model of the code as written. -/
theorem tensorObjExec_eq : tensorObjExec = tensorObj := by
  unfold tensorObjExec tensorObj
  congr 1
  funext n1 n2 A B
  exact (tensorHsHs_eq_kron A B).symm

def isShapeErr {α : Type} : Except Err α → Bool
  | .error .shape => true
  | _ => false

/-! ### the bubble sort on subsystem names (`calc_permutation_matrix` loop) -/

/-- C07 `perm_sorts`, control part: whenever the loop of `calc_permutation_matrix` returns, the final
`tmp_system_order` is ascending and is a rearrangement of the input order — for every `_left_permutation_matrix`
implementation `lp`, every number of subsystems and every fuel. -/
theorem calcPermLoop_sorted {K : Type} [Add K] [Mul K] [Zero K] [One K]
    (lp : Nat → List Nat → Except Err (DMat K)) (fuel : Nat) (order sizes : List Nat) (perm : DMat K)
    (P : DMat K) (o s : List Nat) (h : calcPermLoop lp fuel order sizes perm = .ok (P, o, s)) :
    o.Pairwise (· ≤ ·) ∧ o.Perm order := by
  induction fuel generalizing order sizes perm with
  | zero => simp [calcPermLoop] at h
  | succ f ih =>
    unfold calcPermLoop at h
    split at h
    · rename_i hc
      injection h with h
      simp only [Prod.mk.injEq] at h
      obtain ⟨_, rfl, _⟩ := h
      exact ⟨checkCross_none _ hc, List.Perm.refl _⟩
    · rename_i pos hc
      split at h
      · cases h
      · split at h
        · cases h
        · obtain ⟨hs, hp⟩ := ih _ _ _ h
          refine ⟨hs, hp.trans ?_⟩
          obtain ⟨pre, a, b, post, rfl, rfl, _⟩ := checkCross_some _ _ hc
          rw [swapAt_decomp]
          exact List.Perm.append_left _ (List.Perm.swap _ _ _)

/-- `_left_permutation_matrix` (coded or fixed) never produces the model's fuel error -/
theorem leftPerm_ne_fuel {K : Type} [Add K] [Mul K] [Zero K] [One K] (pos : Nat) (sizes : List Nat) :
    leftPerm (K := K) pos sizes ≠ .error .fuel := by
  unfold leftPerm
  simp only [bind, Except.bind, pure, Except.pure, throw, throwThe, MonadExceptOf.throw]
  cases sizes[pos]? <;> cases sizes[pos - 1]? <;> simp

/-- C07 `perm_sorts`, termination: the model's loop bound is never hit — the loop performs at most
`#inversions ≤ k²` adjacent swaps (each swap removes exactly one inversion), so `calc_permutation_matrix`
terminates for every order and the `fuel` error of the model is unreachable. -/
theorem calcPermLoop_fuel_suffices {K : Type} [Add K] [Mul K] [Zero K] [One K]
    (lp : Nat → List Nat → Except Err (DMat K)) (hlp : ∀ p s, lp p s ≠ .error .fuel)
    (fuel : Nat) (order sizes : List Nat) (perm : DMat K) (hf : inv order < fuel) :
    calcPermLoop lp fuel order sizes perm ≠ .error .fuel := by
  induction fuel generalizing order sizes perm with
  | zero => omega
  | succ f ih =>
    unfold calcPermLoop
    split
    · simp
    · rename_i pos hc
      split
      · rename_i e he
        intro h; injection h with h; subst h
        exact hlp _ _ he
      · split
        · rename_i e he
          intro h; injection h with h; subst h
          unfold DMat.mul at he
          split at he <;> cases he
        · apply ih
          obtain ⟨pre, a, b, post, rfl, rfl, hlt⟩ := checkCross_some _ _ hc
          rw [swapAt_decomp]
          have := inv_append_swap pre a b post hlt
          omega

/-- corollary for `calc_permutation_matrix` as coded -/
theorem calcPerm_never_fuel {K : Type} [Add K] [Mul K] [Zero K] [One K] (order sizes : List Nat) :
    calcPerm (K := K) order sizes ≠ .error .fuel := by
  unfold calcPerm
  have := calcPermLoop_fuel_suffices (K := K) leftPerm (fun p s => leftPerm_ne_fuel p s)
    (order.length * order.length + 1) order sizes (DMat.eye (prodL sizes))
    (by have := inv_le_sq order; omega)
  cases h : calcPermLoop (K := K) leftPerm (order.length * order.length + 1) order sizes (DMat.eye (prodL sizes)) with
  | ok v => simp [Except.map]
  | error e =>
    simp only [Except.map]
    intro h2; injection h2 with h2; subst h2
    exact this h

/-- C07 `perm_sorts`, shape part, every number of subsystems: every intermediate matrix product of the
`calc_permutation_matrix` loop is well-shaped (the head/tail identity sizes are the products of the neighbouring
sizes), so the loop never raises and returns with the names ascending — for every order of any number of
subsystems and any sizes. -/
theorem calcPermLoop_total {K : Type} [Add K] [Mul K] [Zero K] [One K]
    (fuel : Nat) (order sizes : List Nat) (perm : DMat K)
    (hlen : order.length = sizes.length) (hr : perm.r = prodL sizes) (hf : inv order < fuel) :
    ∃ P o s, calcPermLoop (K := K) leftPerm fuel order sizes perm = .ok (P, o, s) ∧
      o.Pairwise (· ≤ ·) ∧ o.Perm order := by
  induction fuel generalizing order sizes perm with
  | zero => omega
  | succ f ih =>
    unfold calcPermLoop
    split
    · rename_i hc
      exact ⟨_, _, _, rfl, checkCross_none _ hc, List.Perm.refl _⟩
    · rename_i pos hc
      obtain ⟨pre, a, b, post, rfl, rfl, hlt⟩ := checkCross_some _ _ hc
      obtain ⟨spre, sq, sp, spost, rfl, hsl⟩ := split_at_pair sizes (pre.length + 1) (by omega)
        (by rw [← hlen]; simp)
      have hsl' : spre.length + 1 = pre.length + 1 := by omega
      obtain ⟨M, hM, hMr, hMc⟩ := leftPerm_dims (K := K) spre sq sp spost
      rw [hsl'] at hM
      rw [hM]
      have hmul : M.c = perm.r := by
        rw [hMc, hr, prodL_append, prodL_cons, prodL_cons]; ring
      simp only [DMat.mul, hmul, dite_true]
      have hsw1 : swapAt (pre ++ a :: b :: post) (pre.length + 1) = pre ++ b :: a :: post :=
        swapAt_decomp pre a b post
      have hsw2 : swapAt (spre ++ sq :: sp :: spost) (pre.length + 1) = spre ++ sp :: sq :: spost := by
        rw [← hsl']; exact swapAt_decomp spre sq sp spost
      rw [hsw1, hsw2]
      obtain ⟨P, o, s, h, hs, hp⟩ := ih (pre ++ b :: a :: post) (spre ++ sp :: sq :: spost)
        ⟨M.r, perm.c, M.m.mul (hmul ▸ perm.m)⟩
        (by simp at hlen ⊢; omega)
        (by simp only [hMr, prodL_append, prodL_cons]; ring)
        (by have := inv_append_swap pre a b post hlt; omega)
      exact ⟨P, o, s, h, hs, hp.trans (List.Perm.append_left _ (List.Perm.swap _ _ _))⟩


/-- C07 `perm_sorts`, `calc_permutation_matrix` is total: for every order of any number of subsystems with one
size per name it returns a matrix (never the matmul shape error that four subsystems used to trigger). -/
theorem calcPerm_total {K : Type} [Add K] [Mul K] [Zero K] [One K] (order sizes : List Nat)
    (hlen : order.length = sizes.length) : ∃ P, calcPerm (K := K) order sizes = .ok P := by
  obtain ⟨P, o, s, h, _, _⟩ := calcPermLoop_total (K := K) (order.length * order.length + 1) order sizes
    (DMat.eye (prodL sizes)) hlen rfl (by have := inv_le_sq order; omega)
  exact ⟨P, by simp [calcPerm, h, Except.map]⟩

/-! ### the semantic loop invariant (any number of subsystems) -/
section listlevel
variable {K : Type} [CommSemiring K]

/-- single swap on lists: the matrix of `_left_permutation_matrix` exchanges the two adjacent factors -/
theorem leftPerm_swap_list (spre spost : List Nat) (sq sp : Nat) (xh u v xt : List K)
    (hxh : xh.length = prodL spre) (hu : u.length = sq) (hv : v.length = sp) (hxt : xt.length = prodL spost) :
    ∃ M : DMat K, leftPerm (K := K) (spre.length + 1) (spre ++ sq :: sp :: spost) = .ok M ∧
      M.r = prodL spre * (sp * sq) * prodL spost ∧ M.c = prodL spre * (sq * sp) * prodL spost ∧
      M.mulVecL (kronLG (kronLG xh (kronLG u v)) xt) = .ok (kronLG (kronLG xh (kronLG v u)) xt) := by
  refine ⟨_, leftPerm_explicit spre sq sp spost, rfl, rfl, ?_⟩
  have hin : kronLG (kronLG xh (kronLG u v)) xt
      = (kronVec (kronVec (ofList xh _ hxh) (kronVec (ofList u _ hu) (ofList v _ hv))) (ofList xt _ hxt)).toList := by
    simp only [kronVec_toList, ofList_toList]
  have hout : kronLG (kronLG xh (kronLG v u)) xt
      = (kronVec (kronVec (ofList xh _ hxh) (kronVec (ofList v _ hv) (ofList u _ hu))) (ofList xt _ hxt)).toList := by
    simp only [kronVec_toList, ofList_toList]
  rw [hin, hout]
  rw [mulVecL_of_length _ _ (by simp)]
  have := left_perm_single_swap (K := K) (prodL spre) sp sq (prodL spost)
    (ofList xh _ hxh) (ofList u _ hu) (ofList v _ hv) (ofList xt _ hxt)
  simp only [ofList_vec, this]

/-- helper: the tensor product of a list of vectors, split around an adjacent pair -/
theorem kronAll_pair (vpre : List (List K)) (u v : List K) (vpost : List (List K)) :
    kronAll (vpre ++ u :: v :: vpost)
      = kronLG (kronLG (kronAll vpre) (kronLG u v)) (kronAll vpost) := by
  rw [kronAll_append]
  simp only [kronAll, kronLG_assoc]

/-- C07 `perm_sorts`, the semantic loop invariant, any number of subsystems: if the accumulated matrix maps `x₀`
to the tensor product of the vectors in the current order, the loop of `calc_permutation_matrix` returns a matrix
mapping `x₀` to the tensor product in the final order, which is ascending in the names and a rearrangement of the
(name, vector) pairs (same number of names and of vectors, so nothing is truncated by the `zip`). -/
theorem calcPermLoop_semantic (fuel : Nat) (order sizes : List Nat) (perm : DMat K)
    (vs : List (List K)) (x0 : List K)
    (hlen : order.length = sizes.length) (hvs : vs.map List.length = sizes) (hr : perm.r = prodL sizes)
    (hinv : perm.mulVecL x0 = .ok (kronAll vs)) (hf : inv order < fuel) :
    ∃ P o s vs', calcPermLoop (K := K) leftPerm fuel order sizes perm = .ok (P, o, s) ∧
      P.mulVecL x0 = .ok (kronAll vs') ∧ o.Pairwise (· ≤ ·) ∧ (o.zip vs').Perm (order.zip vs) ∧
      o.length = order.length ∧ vs'.length = vs.length := by
  induction fuel generalizing order sizes perm vs with
  | zero => omega
  | succ f ih =>
    unfold calcPermLoop
    split
    · rename_i hc
      exact ⟨_, _, _, vs, rfl, hinv, checkCross_none _ hc, List.Perm.refl _, rfl, rfl⟩
    · rename_i pos hc
      obtain ⟨pre, a, b, post, rfl, rfl, hlt⟩ := checkCross_some _ _ hc
      subst hvs
      have hvl : (pre ++ a :: b :: post).length = vs.length := by simpa using hlen
      obtain ⟨vpre, u, v, vpost, rfl, hvp⟩ := split_at_pair vs (pre.length + 1) (by omega)
        (by rw [← hvl]; simp)
      have hpl : (vpre.map List.length).length + 1 = pre.length + 1 := by simp; omega
      obtain ⟨M, hM, hMr, hMc, hMv⟩ := leftPerm_swap_list (K := K) (vpre.map List.length) (vpost.map List.length)
        u.length v.length (kronAll vpre) u v (kronAll vpost) (kronAll_length vpre) rfl rfl (kronAll_length vpost)
      rw [hpl] at hM
      have hsz : List.map List.length (vpre ++ u :: v :: vpost)
          = vpre.map List.length ++ u.length :: v.length :: vpost.map List.length := by simp
      rw [hsz] at hr ⊢
      rw [hM]
      have hmul : M.c = perm.r := by
        rw [hMc, hr, prodL_append, prodL_cons, prodL_cons]; ring
      simp only [DMat.mul, hmul, dite_true]
      have hsw1 : swapAt (pre ++ a :: b :: post) (pre.length + 1) = pre ++ b :: a :: post :=
        swapAt_decomp pre a b post
      have hsw2 : swapAt (vpre.map List.length ++ u.length :: v.length :: vpost.map List.length) (pre.length + 1)
          = vpre.map List.length ++ v.length :: u.length :: vpost.map List.length := by
        rw [← hpl]; exact swapAt_decomp _ _ _ _
      rw [hsw1, hsw2]
      have hmulok : M.mul perm = .ok ⟨M.r, perm.c, M.m.mul (hmul ▸ perm.m)⟩ := by
        simp only [DMat.mul, hmul, dite_true]
      have hnew : (⟨M.r, perm.c, M.m.mul (hmul ▸ perm.m)⟩ : DMat K).mulVecL x0
          = .ok (kronAll (vpre ++ v :: u :: vpost)) := by
        rw [mul_mulVecL M perm _ hmulok x0 _ hinv, kronAll_pair, hMv, kronAll_pair]
      obtain ⟨P, o, s, vs', h, hP, hs, hp, hlo, hlv⟩ := ih (pre ++ b :: a :: post)
        (vpre.map List.length ++ v.length :: u.length :: vpost.map List.length)
        ⟨M.r, perm.c, M.m.mul (hmul ▸ perm.m)⟩ (vpre ++ v :: u :: vpost)
        (by simp at hvl ⊢; omega)
        (by simp)
        (by simp only [hMr, prodL_append, prodL_cons]; ring)
        hnew
        (by have := inv_append_swap pre a b post hlt; omega)
      refine ⟨P, o, s, vs', h, hP, hs, hp.trans ?_, by simpa using hlo, by simpa using hlv⟩
      have hl : pre.length = vpre.length := by omega
      rw [List.zip_append hl, List.zip_append hl]
      exact List.Perm.append_left _ (List.Perm.swap _ _ _)

/-- C07 `perm_sorts` (unbounded): for every order of any number of subsystems, one vector per subsystem,
`calc_permutation_matrix(order, sizes) · (v_σ1 ⊗ … ⊗ v_σk)` is the tensor product of the same vectors arranged with
the names ascending. -/
theorem calcPerm_sorts (order : List Nat) (vs : List (List K)) (hlen : order.length = vs.length) :
    ∃ (P : DMat K) (o : List Nat) (vs' : List (List K)), calcPerm (K := K) order (vs.map List.length) = .ok P ∧
      P.mulVecL (kronAll vs) = .ok (kronAll vs') ∧ o.Pairwise (· ≤ ·) ∧ (o.zip vs').Perm (order.zip vs) ∧
      o.length = order.length ∧ vs'.length = vs.length := by
  have hid : (DMat.eye (prodL (vs.map List.length)) : DMat K).mulVecL (kronAll vs) = .ok (kronAll vs) := by
    rw [mulVecL_of_length _ _ (by simp [DMat.eye, kronAll_length])]
    simp [DMat.eye, one_mulVec, ofList_toList]
  obtain ⟨P, o, s, vs', h, hP, hs, hp, hlo, hlv⟩ := calcPermLoop_semantic (K := K) (order.length * order.length + 1) order
    (vs.map List.length) (DMat.eye (prodL (vs.map List.length))) vs (kronAll vs) (by simpa using hlen) rfl rfl hid
    (by have := inv_le_sq order; omega)
  exact ⟨P, o, vs', by simp [calcPerm, h, Except.map], hP, hs, hp, hlo, hlv⟩

end listlevel


/-! ### the executed object-level path (`ratPerm`, `tensorStateState`) -/

/-- the driver's `ratPerm` (integer matrix, entries cast to ℚ) is `calc_permutation_matrix` over ℚ -/
theorem ratPerm_eq_calcPerm (order sizes : List Nat) : ratPerm order sizes = calcPerm (K := Rat) order sizes := by
  rw [← map_calcPerm (Int.castRingHom ℚ) order sizes]
  unfold ratPerm
  cases calcPerm (K := Int) order sizes <;> simp [Except.map, bind, Except.bind, pure, Except.pure, DMat.map]

/-- C07 "the tensor product … denotes the Kronecker product of their operators arranged in ascending subsystem name,
whatever the order … of the arguments", on the **executed** `_tensor_product_State_State` (`tensorStateState`, the
function behind the `tensor` / `fold` driver ops): for operands that are themselves tensor products of one vector per
elemental system (in particular for any two states on single subsystems, `vs = [v]`), of any number and dimensions of
subsystems with distinct names, the result is the sorted composite system together with the tensor product of the
same vectors rearranged with their names ascending. Partial: operands on several subsystems are covered in product
form only (the extension to entangled inputs by linearity is not proved), and the analogous statements for the
POVM / gate / measurement-process branches rest on `calcPerm_sorts`, `hs_tensor` and the correspondence. -/
theorem tensorStateState_product_partial (s1 s2 : List ESys) (vs1 vs2 : List (List Rat))
    (hnd : ((s1 ++ s2).map (·.1)).Nodup)
    (h1 : vs1.map List.length = s1.map fun x => sq x.2) (h2 : vs2.map List.length = s2.map fun x => sq x.2) :
    ∃ (o : List Nat) (vs' : List (List Rat)),
      tensorStateState s1 (kronAll vs1) s2 (kronAll vs2) = .ok ((s1 ++ s2).foldr insertSorted [], kronAll vs') ∧
      o.Pairwise (· ≤ ·) ∧ (o.zip vs').Perm (((s1 ++ s2).map (·.1)).zip (vs1 ++ vs2)) ∧
      o.length = (s1 ++ s2).length ∧ vs'.length = (vs1 ++ vs2).length := by
  have hsz : (s1 ++ s2).map (fun x => sq x.2) = (vs1 ++ vs2).map List.length := by
    simp [h1, h2]
  have hlen : ((s1 ++ s2).map (·.1)).length = (vs1 ++ vs2).length := by
    have e1 := congrArg List.length h1
    have e2 := congrArg List.length h2
    simp at e1 e2 ⊢; omega
  obtain ⟨P, o, vs', hP, hv, hs, hp, hlo, hlv⟩ := calcPerm_sorts (K := Rat) ((s1 ++ s2).map (·.1)) (vs1 ++ vs2) hlen
  refine ⟨o, vs', ?_, hs, hp, by simpa using hlo, hlv⟩
  unfold tensorStateState
  simp only [mkCSys, hnd, if_true, bind, Except.bind, pure, Except.pure, ratPerm_eq_calcPerm, hsz, hP]
  rw [kronL_eq, ← kronAll_append, hv]

/-- non-vacuity of `tensorStateState_product_partial`: a qutrit state on subsystem 5 and a qubit state on subsystem 2
(argument order descending, different dimensions) -/
example : (([(5, 3)] ++ [(2, 2)] : List ESys).map (·.1)).Nodup ∧
    [List.replicate 9 (1 / 3 : Rat)].map List.length = [(5, 3)].map (fun x : ESys => sq x.2) ∧
    [[(1 : Rat), 0, 0, 1]].map List.length = [(2, 2)].map (fun x : ESys => sq x.2) := by
  decide

/-- non-vacuity of `calcPerm_sorts` / `calcPerm_total`: four subsystems of sizes 2,3,2,3 out of order -/
example : ∃ P, calcPerm (K := Int) [1, 0, 3, 2] [2, 3, 2, 3] = .ok P := calcPerm_total _ _ rfl

/-! ### tie to the source: the model equals the definitions regenerated from matrix_util.py on every run -/

/-- `_left_permutation_matrix` of the model is built from exactly the head / tail identity sizes, `_K` arguments and
`kron` nesting that `harness/c07_translate.py` reads off the current source (QGen/C07.lean): an edit of any of those
expressions (e.g. `reduce(add, …)`, the defect D7) makes this proof fail. -/
theorem leftPerm_matches_source {K : Type} [Add K] [Mul K] [Zero K] [One K] (position : Nat) (sizes : List Nat) :
    leftPerm (K := K) position sizes =
      match QGen.C07.kArgs position sizes with
      | (some sp, some sq) =>
          .ok (((DMat.eye (QGen.C07.headSize position sizes)).kron ⟨sp * sq, sq * sp, Kmat sp sq⟩).kron
                (DMat.eye (QGen.C07.tailSize position sizes)))
      | _ => .error .index := by
  unfold leftPerm QGen.C07.kArgs QGen.C07.headSize QGen.C07.tailSize QGen.C07.redMul prodL
  cases sizes[position]? <;> cases sizes[position - 1]? <;> rfl

/-- the two tuple swaps of the `calc_permutation_matrix` loop, as read off the source: `swapAt` of the model performs
exactly the generated swaps (a no-op swap of `tmp_size_list`, seeded change C07-2, breaks this). The last conjunct is
only a tripwire on the generated constant (`perm_matrix = left_perm @ perm_matrix` has the new factor on the left, as
`calcPermLoop`'s `left.mul perm`); `_check_cross_system_position`, `_K` and operators.py are not regenerated — those
are tied by the correspondence only. -/
theorem calcPerm_loop_matches_source (pre : List Nat) (a b : Nat) (post : List Nat) :
    swapAt (pre ++ a :: b :: post) (pre.length + 1)
        = pre ++ (QGen.C07.swapOrder (a, b)).1 :: (QGen.C07.swapOrder (a, b)).2 :: post ∧
      swapAt (pre ++ a :: b :: post) (pre.length + 1)
        = pre ++ (QGen.C07.swapSizes (a, b)).1 :: (QGen.C07.swapSizes (a, b)).2 :: post ∧
      QGen.C07.accumOnLeft = true := by
  refine ⟨?_, ?_, rfl⟩ <;> simp [QGen.C07.swapOrder, QGen.C07.swapSizes, swapAt_decomp]

example : leftPerm (K := Int) 1 [2, 3] = .ok (((DMat.eye 1).kron ⟨3 * 2, 2 * 3, Kmat 3 2⟩).kron (DMat.eye 1)) := by
  rw [leftPerm_matches_source]; rfl

/-! ### the permutation matrix is orthogonal -/
section orthoprops
variable {K : Type} [CommSemiring K]

/-- helper: every `_left_permutation_matrix` is orthogonal (`I ⊗ K ⊗ I` with `KᵀK = 1`) -/
theorem leftPerm_ortho (pos : Nat) (sizes : List Nat) (M : DMat K) (h : leftPerm (K := K) pos sizes = .ok M) :
    M.IsOrtho := by
  rw [leftPerm_matches_source] at h
  split at h
  · injection h with h; subst h
    apply kron_ortho _ _ (kron_ortho _ _ (eye_ortho _) ?_) (eye_ortho _)
    exact Kmat_orthogonal _ _
  · cases h

/-- helper: the loop of `calc_permutation_matrix` keeps the accumulated matrix orthogonal -/
theorem calcPermLoop_ortho (fuel : Nat) (order sizes : List Nat) (perm P : DMat K) (o s : List Nat)
    (hp : perm.IsOrtho) (h : calcPermLoop (K := K) leftPerm fuel order sizes perm = .ok (P, o, s)) : P.IsOrtho := by
  induction fuel generalizing order sizes perm with
  | zero => simp [calcPermLoop] at h
  | succ f ih =>
    unfold calcPermLoop at h
    split at h
    · injection h with h; simp only [Prod.mk.injEq] at h; rw [← h.1]; exact hp
    · rename_i pos _
      split at h
      · cases h
      · rename_i left hl
        split at h
        · cases h
        · rename_i perm' hm
          exact ih _ _ perm' (mul_ortho left perm perm' hm (leftPerm_ortho pos sizes left hl) hp) h


/-- C07: the matrix returned by `calc_permutation_matrix` is orthogonal, `PᵀP = 1`, for every order, any number of
subsystems and any sizes (it is a product of `I ⊗ K(p,q) ⊗ I` factors) — so `P · t · Pᵀ` in `_tensor_product_hs_hs`
is a similarity transformation and `Pᵀ` undoes `P`. -/
theorem calcPerm_orthogonal (order sizes : List Nat) (P : DMat K) (h : calcPerm (K := K) order sizes = .ok P) :
    P.IsOrtho := by
  unfold calcPerm at h
  cases hl : calcPermLoop (K := K) leftPerm (order.length * order.length + 1) order sizes (DMat.eye (prodL sizes)) with
  | error e => simp [hl, Except.map] at h
  | ok r =>
    simp only [hl, Except.map, Except.ok.injEq] at h
    subst h
    exact calcPermLoop_ortho _ _ _ _ r.1 r.2.1 r.2.2 (eye_ortho _) hl

/-- the same for the matrix the driver uses (`ratPerm`) -/
theorem ratPerm_orthogonal (order sizes : List Nat) (P : DMat Rat) (h : ratPerm order sizes = .ok P) : P.IsOrtho :=
  calcPerm_orthogonal order sizes P (ratPerm_eq_calcPerm order sizes ▸ h)

/-- non-vacuity: a four-subsystem order on which `calc_permutation_matrix` returns a matrix -/
example : ∃ P, calcPerm (K := Rat) [3, 1, 2, 0] [4, 9, 4, 4] = .ok P := calcPerm_total _ _ rfl

end orthoprops

/-- helper: the matrix the driver uses has as many columns as the product of the sizes -/
theorem ratPerm_cols (order sizes : List Nat) (P : DMat Rat) (h : ratPerm order sizes = .ok P) :
    P.c = prodL sizes := by
  rw [ratPerm_eq_calcPerm] at h
  unfold calcPerm at h
  cases hl : calcPermLoop (K := Rat) leftPerm (order.length * order.length + 1) order sizes (DMat.eye (prodL sizes)) with
  | error e => simp [hl, Except.map] at h
  | ok r =>
    simp only [hl, Except.map, Except.ok.injEq] at h
    subst h
    exact calcPermLoop_cols _ _ _ _ _ r.1 r.2.1 r.2.2 hl

/-- C07 "a product gate … acts factor-wise … whatever the order of the arguments", on the **executed**
`_tensor_product_hs_hs` (`tensorHsWith` with the `kron` core the driver runs, `= tensorHsHs` by `hs_tensor`): the
result is `R = P·(A⊗B)·Pᵀ` with `P` the subsystem re-ordering, and for **every** vector `x` (entangled or not)
`R·(P·x) = P·((A⊗B)·x)` — the product gate maps the re-ordered image of `x` to the re-ordered image of `(A⊗B)x`; for
`x = x₁⊗x₂` the latter is the re-ordering of `(A x₁)⊗(B x₂)` (`product_gate_action`, `calcPerm_sorts`). Any number
and dimensions of subsystems behind `A` and `B`; needs only that the sizes multiply up (`hdim`). -/
theorem tensorHs_intertwines (n1 n2 : Nat) (A : Mat Rat n1 n1) (B : Mat Rat n2 n2) (e : List ESys)
    (hdim : prodL (e.map fun x => sq x.2) = n1 * n2) :
    ∃ (P R : DMat Rat), ratPerm (e.map (·.1)) (e.map fun x => sq x.2) = .ok P ∧
      tensorHsWith (fun A B => kron A B) ⟨n1, n1, A⟩ ⟨n2, n2, B⟩ e = .ok R ∧
      ∀ x y z, P.mulVecL x = .ok y → (⟨n1 * n2, n1 * n2, kron A B⟩ : DMat Rat).mulVecL x = .ok z →
        R.mulVecL y = P.mulVecL z := by
  obtain ⟨P, hP⟩ : ∃ P, ratPerm (e.map (·.1)) (e.map fun x => sq x.2) = .ok P := by
    rw [ratPerm_eq_calcPerm]; exact calcPerm_total _ _ (by simp)
  have hc := ratPerm_cols _ _ P hP
  have hortho := ratPerm_orthogonal _ _ P hP
  rw [hdim] at hc
  obtain ⟨pr, pc, pm⟩ := P
  simp only at hc
  subst hc
  have hpt : DMat.mul (⟨pr, n1 * n2, pm⟩ : DMat Rat) ⟨n1 * n2, n1 * n2, kron A B⟩
      = .ok ⟨pr, n1 * n2, pm.mul (kron A B)⟩ := by
    simp [DMat.mul]
  have hR : DMat.mul (⟨pr, n1 * n2, pm.mul (kron A B)⟩ : DMat Rat) (DMat.transpose ⟨pr, n1 * n2, pm⟩)
      = .ok ⟨pr, pr, (pm.mul (kron A B)).mul pm.transpose⟩ := by
    simp [DMat.mul, DMat.transpose]
  refine ⟨⟨pr, n1 * n2, pm⟩, ⟨pr, pr, (pm.mul (kron A B)).mul pm.transpose⟩, hP, ?_, ?_⟩
  · unfold tensorHsWith
    simp only [and_self, dite_true, bind, Except.bind, hP, hpt]
    exact hR
  · intro x y z hy hz
    have h1 := transpose_mulVecL_of_ortho _ hortho x y hy
    rw [mul_mulVecL _ _ _ hR y x h1]
    exact mul_mulVecL _ _ _ hpt x z hz


/-- non-vacuity of `tensorHs_intertwines` (`hdim`): a qutrit gate on subsystem 5 and a qubit gate on subsystem 2 -/
example : prodL (([(5, 3), (2, 2)] : List ESys).map fun x => sq x.2) = 9 * 4 := by decide

/-- helper: the mixed-product property for the run-time-sized Kronecker matrix on lists -/
theorem kron_mulVecL (n1 n2 : Nat) (A : Mat Rat n1 n1) (B : Mat Rat n2 n2) (x1 x2 : List Rat)
    (h1 : x1.length = n1) (h2 : x2.length = n2) :
    (⟨n1 * n2, n1 * n2, kron A B⟩ : DMat Rat).mulVecL (kronLG x1 x2)
      = .ok (kronLG (A.mulVec (ofList x1 n1 h1)).toList (B.mulVec (ofList x2 n2 h2)).toList) := by
  have hin : kronLG x1 x2 = (kronVec (ofList x1 n1 h1) (ofList x2 n2 h2)).toList := by
    rw [kronVec_toList, ofList_toList, ofList_toList]
  rw [hin, mulVecL_of_length _ _ (by simp)]
  rw [ofList_vec]
  show Except.ok ((kron A B).mulVec _).toList = _
  rw [kron_mulVec, kronVec_toList]

/-- C07 "a product gate … acts factor-wise", on the **executed** `_tensor_product_hs_hs`, whatever the order of the
arguments: for the product `R` of two gates `A`, `B` (on any number of subsystems each) and a product input
`x₁ ⊗ x₂`, `R` maps the re-ordered image `P·(x₁⊗x₂)` to the re-ordered image `P·((A x₁)⊗(B x₂))` of the factor-wise
outputs, `P` being `calc_permutation_matrix` of the argument order (which `calcPerm_sorts` identifies as the
rearrangement into ascending subsystem name). -/
theorem tensorHs_product_action (n1 n2 : Nat) (A : Mat Rat n1 n1) (B : Mat Rat n2 n2) (e : List ESys)
    (hdim : prodL (e.map fun x => sq x.2) = n1 * n2) (x1 x2 : List Rat) (h1 : x1.length = n1) (h2 : x2.length = n2) :
    ∃ (P R : DMat Rat) (y : List Rat), ratPerm (e.map (·.1)) (e.map fun x => sq x.2) = .ok P ∧
      tensorHsWith (fun A B => kron A B) ⟨n1, n1, A⟩ ⟨n2, n2, B⟩ e = .ok R ∧
      P.mulVecL (kronLG x1 x2) = .ok y ∧
      R.mulVecL y = P.mulVecL (kronLG (A.mulVec (ofList x1 n1 h1)).toList (B.mulVec (ofList x2 n2 h2)).toList) := by
  obtain ⟨P, R, hP, hR, hint⟩ := tensorHs_intertwines n1 n2 A B e hdim
  have hc := ratPerm_cols _ _ P hP
  rw [hdim] at hc
  have hlen : (kronLG x1 x2).length = P.c := by rw [kronLG_length, h1, h2, hc]
  have hy := mulVecL_of_length P (kronLG x1 x2) hlen
  exact ⟨P, R, _, hP, hR, hy, hint _ _ _ hy (kron_mulVecL n1 n2 A B x1 x2 h1 h2)⟩

/-- non-vacuity of `tensorHs_product_action`: a qutrit gate on subsystem 5 and a qubit gate on subsystem 2, inputs of
lengths 9 and 4 -/
example : prodL (([(5, 3), (2, 2)] : List ESys).map fun x => sq x.2) = 9 * 4 ∧
    (List.replicate 9 (1 : Rat)).length = 9 ∧ ([1, 0, 0, 1] : List Rat).length = 4 := by decide


/-! ### the measurement-process layout (open defect D7b) -/

/-- HS matrices of a 1-dimensional system (1×1) — enough to exhibit an outcome layout -/
def hs1 (x : Rat) : DMat Rat := ⟨1, 1, #v[#v[x]]⟩

def mpEntries : Except Err TObj → Option (List Nat × List (List Rat))
  | .ok (.mprocess _ shape hss) => some (shape, hss.map (·.entries))
  | _ => none

/-- D7b (`_tensor_product_MProcess_MProcess`, operators.py:219): the outcome layout contradicts the reported
shape. For outcome maps `[2,3]` on system 0 and `[5,7,11]` on system 1 the product reports shape `[2,3]` but
stores `[10,15,14,21,22,33]`; laid out as the shape says (first index slow) it must be `[10,14,22,15,21,33]`
— e.g. entry `(0,1)` holds `3·5` instead of `2·7`. -/
theorem mprocess_product_layout_fails :
    ¬ ∀ (a b : List Rat),
        mpEntries (tensorObj (.mprocess [(0, 1)] [a.length] (a.map hs1)) (.mprocess [(1, 1)] [b.length] (b.map hs1)))
          = some ([a.length, b.length], a.flatMap fun x => b.map fun y => [x * y]) := by
  intro h
  have := h [2, 3] [5, 7, 11]
  revert this
  decide +kernel

/-! ### product statistics -/

/-- Euclidean inner product of two coefficient lists (`np.vdot` on real arrays) -/
def dotL (u v : List Rat) : Rat := lsum (List.zipWith (· * ·) u v)

/-- helper: bilinearity of the list inner product under scalar multiples -/
theorem dotL_scale (x y : Rat) (b s : List Rat) :
    dotL (b.map fun t => x * t) (s.map fun t => y * t) = x * y * dotL b s := by
  induction b generalizing s with
  | nil => simp [dotL, lsum]
  | cons b0 bs ih =>
    cases s with
    | nil => simp [dotL, lsum]
    | cons s0 ss =>
      have := ih ss
      simp only [dotL, List.map_cons, List.zipWith_cons_cons, lsum, List.foldr_cons] at *
      rw [this]; ring

/-- helper: the list inner product splits over concatenations of equal-length blocks -/
theorem dotL_append (a b c d : List Rat) (h : a.length = c.length) :
    dotL (a ++ b) (c ++ d) = dotL a c + dotL b d := by
  unfold dotL
  rw [List.zipWith_append h]
  simp [lsum_eq_sum]

/-- C07 "product measurements give product statistics": for a product POVM element `Π¹_x ⊗ Π²_y` and a product
state `ρ¹ ⊗ ρ²` (coefficient arrays, `np.kron`), the Born weight factorises, `⟪Π¹_x⊗Π²_y, ρ¹⊗ρ²⟫ = ⟪Π¹_x,ρ¹⟫·⟪Π²_y,ρ²⟫`,
for all dimensions. -/
theorem product_statistics (a r b s : List Rat) (h1 : a.length = r.length) (h2 : b.length = s.length) :
    dotL (kronL a b) (kronL r s) = dotL a r * dotL b s := by
  induction a generalizing r with
  | nil => simp [kronL, dotL, lsum]
  | cons x xs ih =>
    cases r with
    | nil => simp at h1
    | cons y ys =>
      have hl : (b.map fun t => x * t).length = (s.map fun t => y * t).length := by simp [h2]
      have := ih ys (by simpa using h1)
      simp only [kronL, List.flatMap_cons] at *
      rw [dotL_append _ _ _ _ hl, this, dotL_scale]
      simp only [dotL, List.zipWith_cons_cons, lsum, List.foldr_cons]
      ring

/-- layout of the raw product list of `_tensor_product_Povm_Povm` (`itertools.product(vecs1, vecs2)`): entry
`i·|Π²| + j` is `Π¹_i ⊗ Π²_j` — first factor's outcome slow, matching `nums_local_outcomes = nums1 + nums2`. -/
theorem povm_product_raw_layout (vs1 vs2 : List (List Rat)) (i j : Nat) (a b : List Rat)
    (hi : vs1[i]? = some a) (hj : vs2[j]? = some b) :
    (vs1.flatMap fun a => vs2.map fun b => kronL a b)[i * vs2.length + j]? = some (kronL a b) := by
  have hjlt : j < vs2.length := by
    rcases Nat.lt_or_ge j vs2.length with h | h
    · exact h
    · rw [List.getElem?_eq_none h] at hj; cases hj
  induction vs1 generalizing i with
  | nil => simp at hi
  | cons x l ih =>
    cases i with
    | zero =>
      simp only [List.getElem?_cons_zero, Option.some.injEq] at hi
      subst hi
      simp only [List.flatMap_cons, Nat.zero_mul, Nat.zero_add]
      rw [List.getElem?_append_left (by simpa using hjlt)]
      simp [hj]
    | succ i =>
      simp only [List.getElem?_cons_succ] at hi
      simp only [List.flatMap_cons]
      rw [List.getElem?_append_right (by simp [Nat.succ_mul]; omega)]
      have : (i + 1) * vs2.length + j - (vs2.map fun b => kronL x b).length = i * vs2.length + j := by
        simp [Nat.succ_mul]; omega
      rw [this]
      exact ih i hi

/-! ### qutrit → two-qubit embedding (finite tables for one and two qutrits) -/

/-- helper: `_permutation_matrix_from_qutrits_to_qubits(1)` is the identity permutation (finite fact) -/
theorem embedIndex_one : embedIndex 1 = [0, 1, 2, 3] := by decide
/-- helper: `_permutation_matrix_from_qutrits_to_qubits(2)`: qubit index ↦ qutrit-block index (finite fact) -/
theorem embedIndex_two :
    embedIndex 2 = [0, 1, 2, 9, 3, 4, 5, 10, 6, 7, 8, 11, 12, 13, 14, 15] := by decide

/-- C07 embedding, one qutrit (all matrices and coefficients): `_calc_matrix_from_qutrits_to_qubits` places the
3×3 input in the top-left block, `coeff` on the remaining diagonal entry and zeros elsewhere — i.e.
`V M Vᵀ + coeff·(1 − V Vᵀ)` for the isometry `V|i⟩ = |i⟩`. Hence an embedded state (`coeff = 0`) keeps its
trace and entries, and embedded POVM elements (`coeff = 1/m`) still sum to the identity. -/
theorem embed_one_block {K : Type} [Zero K] (mat : Nat → Nat → K) (coeff : K) (i j : Nat)
    (hi : i < 4) (hj : j < 4) :
    embedEntry 1 mat coeff i j =
      some (if i < 3 ∧ j < 3 then mat i j else if i = j then coeff else 0) := by
  have h := embedIndex_one
  interval_cases i <;> interval_cases j <;> simp [embedEntry, h]

/-- position of a two-qutrit basis state inside the four-qubit register (`none` = a state using level 3) -/
def qutritIndex (i : Nat) : Option Nat := if i / 4 < 3 ∧ i % 4 < 3 then some (3 * (i / 4) + i % 4) else none

/-- C07 embedding, two qutrits (finite table over the 16×16 index pairs, all matrices and coefficients): the
entry at qubit indices `(i, j)` is the input entry at the corresponding qutrit indices when both are embedded
basis states (`|a b⟩ ↦ |a⟩|b⟩` with `a, b < 3`), `coeff` on the rest of the diagonal and 0 elsewhere. -/
theorem embed_two_block {K : Type} [Zero K] (mat : Nat → Nat → K) (coeff : K) (i j : Nat)
    (hi : i < 16) (hj : j < 16) :
    embedEntry 2 mat coeff i j =
      some (match qutritIndex i, qutritIndex j with
            | some p, some q => mat p q
            | _, _ => if i = j then coeff else 0) := by
  have h := embedIndex_two
  interval_cases i <;> interval_cases j <;> simp [embedEntry, h, qutritIndex]


/-! ### embedding physicality: the embedding is conjugation with an isometry -/
section embphys
open scoped ComplexOrder
variable {t N : Nat} (ι : Fin t → Fin N) (hι : Function.Injective ι)
include hι

/-- C07 "embedding a qutrit operation into two qubits preserves physicality", states: the embedded density matrix
`V ρ Vᴴ` (complement coefficient 0) is PSD with the same trace — any isometric relabelling `ι`, any dimensions. -/
theorem embed_state_physical (rho : Matrix (Fin t) (Fin t) ℂ) (h : rho.PosSemidef) :
    (embIso ι rho 0).PosSemidef ∧ (embIso ι rho 0).trace = rho.trace := by
  refine ⟨embIso_posSemidef ι hι rho h 0 le_rfl, ?_⟩
  rw [embIso_trace ι hι]; simp

/-- C07 embedding, POVMs: with the complement coefficient `1/m` used by `Povm._embed_…` every embedded element is
PSD and the embedded elements still sum to the identity. -/
theorem embed_povm_physical (l : List (Matrix (Fin t) (Fin t) ℂ)) (hpsd : ∀ E ∈ l, E.PosSemidef)
    (hsum : l.sum = 1) (hne : l ≠ []) :
    (∀ E ∈ l, (embIso ι E (1 / (l.length : ℂ))).PosSemidef) ∧
      (l.map fun E => embIso ι E (1 / (l.length : ℂ))).sum = 1 := by
  have hm : (l.length : ℂ) ≠ 0 := by
    have : l.length ≠ 0 := fun h => hne (List.length_eq_zero_iff.mp h)
    exact_mod_cast this
  refine ⟨fun E hE => embIso_posSemidef ι hι E (hpsd E hE) _ ?_, ?_⟩
  · have h : (1 / (l.length : ℂ)) = (((1 / (l.length : ℝ)) : ℝ) : ℂ) := by push_cast; rfl
    rw [h]
    exact Complex.zero_le_real.mpr (by positivity)
  · rw [embIso_list_sum, hsum, mul_one_div_cancel hm, embIso_one]

/-- C07 embedding, gates / measurement processes: Kraus operators embedded with complement coefficient `c`,
`r·|c|² = 1` (`c = 1/√r`, `r` the number of Kraus operators), stay jointly trace preserving. -/
theorem embed_kraus_tp (ks : List (Matrix (Fin t) (Fin t) ℂ)) (htp : (ks.map fun K => Kᴴ * K).sum = 1) (c : ℂ)
    (hc : (ks.length : ℂ) * (star c * c) = 1) :
    (ks.map fun K => (embIso ι K c)ᴴ * embIso ι K c).sum = 1 := by
  have h1 : (ks.map fun K => (embIso ι K c)ᴴ * embIso ι K c)
      = (ks.map fun K => Kᴴ * K).map fun M => embIso ι M (star c * c) := by
    rw [List.map_map]; apply List.map_congr_left; intro K _
    simp only [Function.comp, embIso_conjTranspose, embIso_mul ι hι]
  rw [h1, embIso_list_sum, htp, List.length_map, hc, embIso_one]

/-- C07 embedding preserves "all outcome statistics of embedded inputs": Born weights and Kraus action. -/
theorem embed_statistics (E K rho : Matrix (Fin t) (Fin t) ℂ) (c : ℂ) :
    (embIso ι E c * embIso ι rho 0).trace = (E * rho).trace ∧
      embIso ι K c * embIso ι rho 0 * (embIso ι K c)ᴴ = embIso ι (K * rho * Kᴴ) 0 := by
  constructor
  · rw [embIso_mul ι hι, embIso_trace ι hι]; simp
  · rw [embIso_conjTranspose, embIso_mul ι hι, embIso_mul ι hι]; simp

end embphys

section embtie
variable {R : Type} [CommRing R] [StarRing R]

/-- one qutrit: `_calc_matrix_from_qutrits_to_qubits` computes `V M Vᴴ + coeff·(1 − V Vᴴ)` -/
theorem embedEntry_one_eq (M : Matrix (Fin 3) (Fin 3) R) (c : R) (i j : Fin 4) :
    embedEntry 1 (natFn M) c i.val j.val = some (embIso iota1 M c i j) := by
  rw [embed_one_block _ _ _ _ i.isLt j.isLt, embIso_apply iota1 iota1_inj inv1 inv1_spec]
  fin_cases i <;> fin_cases j <;> simp [inv1, natFn]

/-- two qutrits (finite table over the 16×16 index pairs, all matrices): the same statement with
`V|a b⟩ = |a⟩|b⟩` -/
theorem embedEntry_two_eq (M : Matrix (Fin 9) (Fin 9) R) (c : R) (i j : Fin 16) :
    embedEntry 2 (natFn M) c i.val j.val = some (embIso iota2 M c i j) := by
  rw [embed_two_block _ _ _ _ i.isLt j.isLt, embIso_apply iota2 iota2_inj inv2 inv2_spec]
  fin_cases i <;> fin_cases j <;> simp [inv2, natFn, qutritIndex]

end embtie

open scoped ComplexOrder in
/-- non-vacuity of the embedding theorems: the one-qutrit relabelling is injective, the maximally mixed qutrit
state is PSD, the trivial POVM `{1}` sums to the identity, the single Kraus operator `1` is trace preserving -/
example : Function.Injective iota1 ∧ (1 : Matrix (Fin 3) (Fin 3) ℂ).PosSemidef ∧
    ([(1 : Matrix (Fin 3) (Fin 3) ℂ)].sum = 1) ∧
    (([(1 : Matrix (Fin 3) (Fin 3) ℂ)].map fun K => Kᴴ * K).sum = 1) := by
  exact ⟨iota1_inj, Matrix.PosSemidef.one, by simp, by simp⟩

/-! ### non-vacuity -/
example : (Kmat (K := Int) 2 3).mulVec (kronVec #v[1, 2, 3] #v[10, 20]) = kronVec #v[10, 20] #v[1, 2, 3] := by
  decide +kernel
example : checkCross [0, 5, 2] = some 2 := by decide
example : dotL (kronL [1, 2] [3, 4, 5]) (kronL [1/2, 1] [1, 0, 2]) = dotL [1, 2] [1/2, 1] * dotL [3, 4, 5] [1, 0, 2] := by
  decide +kernel


end QM.C07
