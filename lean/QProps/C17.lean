import QProofs.C17
import Mathlib.Analysis.CStarAlgebra.Matrix
import Mathlib.Analysis.Normed.Algebra.MatrixExponential
/-!
# C17 — catalogued objects: soundness of the certificate checkers and the generic constructions

The catalogue entries themselves are certified per entry by *executing* the checkers of `QModel/C17.lean`
on the implementation's outputs (harness); what is proved here, for all dimensions, is
(1) that a passed `psdCert` really implies positive semidefiniteness up to `ε`, and
(2) that the generic constructions the catalogues are built from (pure state ↦ density matrix, orthonormal
basis ↦ projective POVM, unitary ↦ gate, Kraus set ↦ measurement process) always yield physical objects.
-/
open Matrix
namespace QM.C17
open QM QM.C18
open scoped ComplexOrder

/-! ## checker soundness -/
section cert
variable {n : Nat}

/-- C17 `psdCert` soundness: if `M` is exactly Hermitian and the residual of the (float) eigen-decomposition
with clipped eigenvalues has squared Frobenius norm `≤ ε²`, then `M + ε·1` is positive semidefinite —
for ANY `V` (no unitarity of the eigenvector matrix is assumed), all sizes. -/
theorem psdCert_sound (M V : Mat ℂ n n) (lam : Fin n → ℝ) (ε : ℝ) (hε : 0 ≤ ε) (hM : M = adj M)
    (h : (frob2 (psdResid M V (Vec.ofFn fun i => (((max (lam i) 0 : ℝ)) : ℂ)))).re ≤ ε ^ 2) :
    (M.toM + (ε : ℂ) • (1 : Matrix (Fin n) (Fin n) ℂ)).PosSemidef := by
  set P : Matrix (Fin n) (Fin n) ℂ :=
    V.toM * diagonal (fun i => (((max (lam i) 0 : ℝ)) : ℂ)) * V.toMᴴ with hP
  have hPpsd : P.PosSemidef := QM.Psd.conj_diag_psd (𝕜 := ℂ) V.toM (fun i => max (lam i) 0)
    (fun i => le_max_right _ _)
  have hMh : M.toMᴴ = M.toM := by
    conv_rhs => rw [hM]
    rw [toM_adj]
  have hres : (psdResid M V (Vec.ofFn fun i => (((max (lam i) 0 : ℝ)) : ℂ))).toM = M.toM - P := by
    simp [psdResid, toM_adj, toM_diag, hP, Vec.get_ofFn]
  have hRh : (M.toM - P).IsHermitian := by
    unfold Matrix.IsHermitian
    rw [Matrix.conjTranspose_sub, hMh, hPpsd.isHermitian.eq]
  have hR := herm_add_eps_psd (M.toM - P) hRh ε hε (by
    rw [frob2_eq_trace, hres, hRh.eq] at h
    exact h)
  have : M.toM + (ε : ℂ) • (1 : Matrix (Fin n) (Fin n) ℂ) = P + (M.toM - P + (ε : ℂ) • 1) := by
    abel
  rw [this]
  exact hPpsd.add hR

/-- the executed decider (complex rationals) accepts exactly when the three hypotheses of `psdCert_sound`
hold for its input: `ε ≥ 0`, `M` exactly Hermitian, squared residual `≤ ε²`. -/
theorem psdCert_iff (M V : Mat CRat n n) (lam : Vec Rat n) (eps : Rat) :
    psdCert M V lam eps = true ↔
      0 ≤ eps ∧ M = adj M ∧ (frob2 (psdResid M V (clipPos lam))).re ≤ eps * eps := by
  simp [psdCert, Bool.and_eq_true, decide_eq_true_eq, and_assoc]

/-- `unitaryCert` with `ε = 0` certifies exact unitarity; in general it bounds `‖UᴴU − 1‖_F` by `ε`
(this is the definition; the residual is `UᴴU − 1` as a Mathlib matrix). -/
theorem unitaryResid_toM (U : Mat ℂ n n) : (unitaryResid U).toM = U.toMᴴ * U.toM - 1 := by
  simp [unitaryResid, toM_adj]
end cert

/-! ## generic constructions -/
section generic
variable {n : Type} [Fintype n] [DecidableEq n]

/-- C17 `state_of_pure_vector_physical`: `|ψ⟩⟨ψ|` with `⟨ψ|ψ⟩ = 1` is PSD with unit trace. -/
theorem state_of_pure_vector_physical (ψ : n → ℂ) (h : star ψ ⬝ᵥ ψ = 1) :
    (vecMulVec ψ (star ψ)).PosSemidef ∧ (vecMulVec ψ (star ψ)).trace = 1 := by
  refine ⟨posSemidef_vecMulVec_self_star ψ, ?_⟩
  rw [← h]
  simp [Matrix.trace, vecMulVec_apply, dotProduct, mul_comm]

/-- C17 `povm_of_onb_physical`: the rank-one projectors on the columns of a unitary `U` are PSD and sum to 1. -/
theorem povm_of_onb_physical (U : Matrix n n ℂ) (hU : U * Uᴴ = 1) :
    (∀ x, (vecMulVec (fun i => U i x) (star fun i => U i x)).PosSemidef) ∧
      ∑ x, vecMulVec (fun i => U i x) (star fun i => U i x) = 1 := by
  refine ⟨fun x => posSemidef_vecMulVec_self_star _, ?_⟩
  rw [← hU]
  ext i j
  simp [Matrix.sum_apply, vecMulVec_apply, Matrix.mul_apply, Matrix.conjTranspose_apply]

/-- C17 `gate_of_unitary_physical` (TP): conjugation by a unitary preserves the trace. -/
theorem gate_of_unitary_tp (U ρ : Matrix n n ℂ) (hU : Uᴴ * U = 1) : (U * ρ * Uᴴ).trace = ρ.trace := by
  rw [Matrix.trace_mul_cycle, hU, Matrix.one_mul]

/-- C17 `gate_of_unitary_physical` (CP): the Choi matrix of `ρ ↦ UρUᴴ` is PSD (for every `U`). -/
theorem gate_of_unitary_choi_psd (U : Matrix n n ℂ) : (choi fun ρ => U * ρ * Uᴴ).PosSemidef := by
  rw [choi_conj]; exact posSemidef_vecMulVec_self_star _

/-- C17 `mprocess_of_kraus_physical` (TP): Kraus operators with `Σ KᴴK = 1` give a trace-preserving map … -/
theorem kraus_tp {m : Type} [Fintype m] (K : m → Matrix n n ℂ) (h : ∑ x, (K x)ᴴ * K x = 1)
    (ρ : Matrix n n ℂ) : (∑ x, K x * ρ * (K x)ᴴ).trace = ρ.trace := by
  rw [Matrix.trace_sum]
  have hc : ∀ x, (K x * ρ * (K x)ᴴ).trace = ((K x)ᴴ * K x * ρ).trace :=
    fun x => Matrix.trace_mul_cycle _ _ _
  simp only [hc]
  rw [← Matrix.trace_sum, ← Matrix.sum_mul, h, Matrix.one_mul]

/-- … and each outcome's map `ρ ↦ Σ_k K_k ρ K_kᴴ` has a PSD Choi matrix. -/
theorem kraus_choi_psd {m : Type} [Fintype m] (K : m → Matrix n n ℂ) :
    (choi fun ρ => ∑ x, K x * ρ * (K x)ᴴ).PosSemidef := by
  have : (choi fun ρ => ∑ x, K x * ρ * (K x)ᴴ) = ∑ x, choi (fun ρ => K x * ρ * (K x)ᴴ) := by
    ext p q; simp [choi, Matrix.sum_apply]
  rw [this]
  apply Matrix.posSemidef_sum
  intro x _
  rw [choi_conj]; exact posSemidef_vecMulVec_self_star _
end generic

/-! ## further generic families -/
section families
variable {n : Type} [Fintype n] [DecidableEq n]

/-- C17 `state_ensemble` / depolarised objects: a convex mixture of physical states is a physical state. -/
theorem mixture_physical {m : Type} [Fintype m] (p : m → ℝ) (ρ : m → Matrix n n ℂ) (hp : ∀ x, 0 ≤ p x)
    (hs : ∑ x, p x = 1) (hρ : ∀ x, (ρ x).PosSemidef ∧ (ρ x).trace = 1) :
    (∑ x, ((p x : ℝ) : ℂ) • ρ x).PosSemidef ∧ (∑ x, ((p x : ℝ) : ℂ) • ρ x).trace = 1 := by
  constructor
  · apply Matrix.posSemidef_sum
    intro x _
    exact (hρ x).1.smul (by exact_mod_cast hp x)
  · rw [Matrix.trace_sum]
    simp only [Matrix.trace_smul, (hρ _).2, smul_eq_mul, mul_one]
    exact_mod_cast hs

/-- C17 type-1 (projective) measurement processes: the Kraus operators `|u_x⟩⟨u_x|` built from the columns of a unitary
satisfy `Σ_x K_xᴴ K_x = 1`, so `kraus_tp` / `kraus_choi_psd` apply. -/
theorem projective_kraus_complete (U : Matrix n n ℂ) (hU : U * Uᴴ = 1) (hU' : Uᴴ * U = 1) :
    ∑ x, (vecMulVec (fun i => U i x) (star fun i => U i x))ᴴ * vecMulVec (fun i => U i x) (star fun i => U i x) = 1 := by
  have hn : ∀ x, (star fun i => U i x) ⬝ᵥ (fun i => U i x) = 1 := by
    intro x
    have := congrFun (congrFun hU' x) x
    simpa [Matrix.mul_apply, Matrix.conjTranspose_apply, dotProduct] using this
  have hP : ∀ x, (vecMulVec (fun i => U i x) (star fun i => U i x))ᴴ * vecMulVec (fun i => U i x) (star fun i => U i x)
      = vecMulVec (fun i => U i x) (star fun i => U i x) := by
    intro x
    ext i j
    simp only [Matrix.mul_apply, Matrix.conjTranspose_apply, vecMulVec_apply, Pi.star_apply, star_mul, star_star]
    have h1 := hn x
    simp only [dotProduct, Pi.star_apply] at h1
    calc ∑ k, U i x * star (U k x) * (U k x * star (U j x))
        = U i x * (∑ k, star (U k x) * U k x) * star (U j x) := by
          rw [Finset.mul_sum, Finset.sum_mul]; apply Finset.sum_congr rfl; intro k _; ring
      _ = U i x * star (U j x) := by rw [h1, mul_one]
  simp only [hP]
  exact (povm_of_onb_physical U hU).2
end families

/-! ## Hamiltonian ↦ unitary -/
section hamiltonian
open NormedSpace
open scoped Matrix.Norms.L2Operator

/-- C17 `unitary_of_hamiltonian`: `exp(−iH)` is unitary for every Hermitian `H` (all dimensions; the
topology on matrices is the one of the operator norm). -/
theorem unitary_of_hamiltonian {n : Type} [Fintype n] [DecidableEq n] (H : Matrix n n ℂ) (hH : Hᴴ = H) :
    exp ((-Complex.I) • H) ∈ unitary (Matrix n n ℂ) := by
  let _ : NormedAlgebra ℚ (Matrix n n ℂ) := NormedAlgebra.restrictScalars ℚ ℂ _
  apply exp_mem_unitary_of_mem_skewAdjoint
  rw [skewAdjoint.mem_iff, Matrix.star_eq_conjTranspose, Matrix.conjTranspose_smul, hH]
  simp

/-- C17 Hamiltonian-defined gates (every 3-qubit and 2-qutrit catalogue gate, and the gate of every catalogue
Lindbladian): for Hermitian `H` the map `ρ ↦ UρUᴴ` with `U = exp(−iH)` is trace preserving and its Choi matrix is PSD. -/
theorem gate_of_hamiltonian_physical {n : Type} [Fintype n] [DecidableEq n] (H : Matrix n n ℂ) (hH : Hᴴ = H) :
    (∀ ρ : Matrix n n ℂ, (exp ((-Complex.I) • H) * ρ * (exp ((-Complex.I) • H))ᴴ).trace = ρ.trace) ∧
      (choi fun ρ => exp ((-Complex.I) • H) * ρ * (exp ((-Complex.I) • H))ᴴ).PosSemidef := by
  have hU := unitary_of_hamiltonian H hH
  refine ⟨fun ρ => gate_of_unitary_tp _ ρ ?_, gate_of_unitary_choi_psd _⟩
  rw [← Matrix.star_eq_conjTranspose]
  exact Unitary.star_mul_self_of_mem hU
end hamiltonian

/-! ## the executable `hsOfUnitary` -/
section hs
variable {d : Nat}

/-- C17 "unitary ↦ HS matrix is TP": for an orthonormal Hermitian basis with `B_0 = s·1` (`s` real) and a
unitary `U`, the first row of the model's `hsOfUnitary B U` is `e₀`. -/
theorem hsOfUnitary_row0 (B : Basis ℂ d) (z : Fin (d * d)) (s : ℂ) (hB : ONH0 B z s) (hs : star s = s)
    (U : Mat ℂ d d) (hU : U.toMᴴ * U.toM = 1) (b : Fin (d * d)) :
    (hsOfUnitary B U).get z b = if b = z then 1 else 0 := by
  simp only [hsOfUnitary, Mat.get_ofFn]
  rw [trMul_eq_trace, toM_adj, Mat.toM_mul, Mat.toM_mul, toM_adj, toM_get_eq_Bm, toM_get_eq_Bm,
    hB.herm z, hB.b0, Matrix.smul_mul, Matrix.one_mul, Matrix.trace_smul, Matrix.trace_mul_cycle, hU,
    Matrix.one_mul, hB.trace_B]
  by_cases h : b = z
  · simp only [h, if_true, smul_eq_mul]
    rw [← mul_assoc]; exact hB.snorm
  · simp [h]
end hs

/-! ## names outside the catalogue are rejected (about the definitions GENERATED from the source, QGen/C17.lean) -/
section names
open QGen.C17

/-- C17 `unknown_name_rejected` (1): the translated `is_valid_state_name` accepts exactly the names that the
translated `get_state_names()` lists — every name, of any length. (A rewrite of the validator that is no longer a
chain of catalogue-membership tests makes the translator fail; one that changes the lists re-opens this proof.) -/
theorem valid_iff_listed (name : String) :
    is_valid_state_name name = true ↔ name ∈ get_state_names := by
  simp only [is_valid_state_name, get_state_names, List.contains_iff_mem, List.mem_append, List.nil_append]
  constructor
  · intro h
    split_ifs at h with h1 h2 h3 h4 h5
    · exact Or.inl (Or.inl (Or.inl (Or.inl h1)))
    · exact Or.inl (Or.inl (Or.inl (Or.inr h2)))
    · exact Or.inl (Or.inl (Or.inr h3))
    · exact Or.inl (Or.inr h4)
    · exact Or.inr h5
  · intro h
    rcases h with (((h | h) | h) | h) | h <;> simp [h]

/-- C17 `unknown_name_rejected` (2): both state generators that every state object form goes through
(`generate_state_pure_state_vector_from_name`, `generate_state_density_mat_from_name`) raise for every name that
`get_state_names()` does not list. -/
theorem unknown_name_rejected (name : String) (h : name ∉ get_state_names) :
    generate_state_pure_state_vector_from_name_rejects name = true ∧
      generate_state_density_mat_from_name_rejects name = true := by
  have hv : is_valid_state_name name = false := by
    cases hb : is_valid_state_name name
    · rfl
    · exact absurd ((valid_iff_listed name).mp hb) h
  simp [generate_state_pure_state_vector_from_name_rejects, generate_state_density_mat_from_name_rejects, hv]

/-- and conversely a listed name passes the guard -/
theorem listed_name_accepted (name : String) (h : name ∈ get_state_names) :
    generate_state_pure_state_vector_from_name_rejects name = false := by
  simp [generate_state_pure_state_vector_from_name_rejects, (valid_iff_listed name).mpr h]

/-- C17 catalogue structure (generated `get_gate_names_2qutrit_two_base_matrices`): a name is listed iff it is
`n1 ++ "_" ++ n2` for two DIFFERENT listed single-base names — the parameters the generator reads back by `split("_")`. -/
theorem two_base_name_structure (name : String) :
    name ∈ get_gate_names_2qutrit_two_base_matrices ↔
      ∃ n1 ∈ get_gate_names_2qutrit_single_base_matrix, ∃ n2 ∈ get_gate_names_2qutrit_single_base_matrix,
        n1 ≠ n2 ∧ name = n1 ++ "_" ++ n2 := by
  simp only [get_gate_names_2qutrit_two_base_matrices, List.nil_append, List.mem_flatMap, List.mem_map,
    List.mem_filter, bne_iff_ne, ne_eq]
  constructor
  · rintro ⟨n1, h1, n2, ⟨h2, hne⟩, rfl⟩
    exact ⟨n1, h1, n2, h2, hne, rfl⟩
  · rintro ⟨n1, h1, n2, h2, hne, rfl⟩
    exact ⟨n1, h1, n2, ⟨h2, hne⟩, rfl⟩

/-- C17 catalogue structure (generated `get_gate_names_2qutrit_single_base_matrix`): a name is listed iff it is a
base-matrix name other than `"ii"` (first occurrence removed) followed by an angle. -/
theorem single_base_name_structure (name : String) :
    name ∈ get_gate_names_2qutrit_single_base_matrix ↔
      ∃ b ∈ get_base_matrix_names_2qutrit.erase "ii", ∃ a ∈ get_angles_2qutrit, name = b ++ a := by
  simp only [get_gate_names_2qutrit_single_base_matrix, List.nil_append, prodTuples_two_join, List.mem_flatMap,
    List.mem_map]
  constructor
  · rintro ⟨b, hb, a, ha, rfl⟩; exact ⟨b, hb, a, ha, rfl⟩
  · rintro ⟨b, hb, a, ha, rfl⟩; exact ⟨b, hb, a, ha, rfl⟩

/-- C17 catalogue structure (generated `get_gate_names`): `identity` followed by the five per-system lists. -/
theorem gate_names_listing :
    get_gate_names = "identity" :: (get_gate_names_1qubit ++ get_gate_names_2qubit ++ get_gate_names_3qubit
      ++ get_gate_names_1qutrit ++ get_gate_names_2qutrit) := by
  simp [get_gate_names]

/-- the hypotheses are inhabited on both sides; near-miss names assembled from valid labels are rejected -/
example : "i01x90" ∈ get_gate_names_2qutrit_single_base_matrix := by decide +kernel
example : get_gate_names_1qubit.length = 15 ∧ get_gate_names_3qubit = ["toffoli", "fredkin"] := by decide +kernel
example : is_valid_state_name "z0_x1_a" = true := by decide +kernel
example : "z0_01x0" ∉ get_state_names := by decide +kernel
example : generate_state_pure_state_vector_from_name_rejects "01z0_01z0_01z0" = true := by decide +kernel
example : get_state_names.length = 749 := by decide +kernel
end names

/-- the hypotheses of the generic family theorems are satisfiable -/
example := projective_kraus_complete (1 : Matrix (Fin 2) (Fin 2) ℂ) (by simp) (by simp)
example := mixture_physical (n := Fin 2) (m := Fin 2) (fun _ => (1 / 2 : ℝ))
  (fun _ => vecMulVec (fun i : Fin 2 => if i = 0 then (1 : ℂ) else 0) (star fun i : Fin 2 => if i = 0 then (1 : ℂ) else 0))
  (fun _ => by norm_num) (by simp)
  (fun _ => state_of_pure_vector_physical _ (by simp [dotProduct, Fin.sum_univ_two]))
section
open NormedSpace
open scoped Matrix.Norms.L2Operator
example := gate_of_hamiltonian_physical (0 : Matrix (Fin 2) (Fin 2) ℂ) (by simp)
end

/-- `hsOfUnitary_row0` instantiated (one-dimensional system, `U = 1`) -/
example : (hsOfUnitary basis1 (Mat.one : Mat ℂ 1 1)).get ⟨0, by decide⟩ ⟨0, by decide⟩ = 1 := by
  have := hsOfUnitary_row0 basis1 _ 1 onh0_basis1 (by simp) Mat.one (by simp) ⟨0, by decide⟩
  simpa using this

example : (frob2 (psdResid (Mat.one : Mat ℂ 2 2) Mat.one (Vec.ofFn fun _ => (((max (1 : ℝ) 0 : ℝ)) : ℂ)))).re ≤ (0 : ℝ) ^ 2 := by
  simp [frob2, psdResid, fsum_eq_sum, diag, adj, conj_eq_star, Fin.sum_univ_two, Vec.get_ofFn]

end QM.C17
