import QProofs.C17
import Mathlib.Analysis.CStarAlgebra.Matrix
import Mathlib.Analysis.Normed.Algebra.MatrixExponential
/-!
# C17 — catalogued objects: soundness of the certificate checkers and the generic constructions

The catalogue entries themselves are certified per entry by *executing* the checkers of `QModel/C17.lean`
on the implementation's outputs (harness); what is proved here, for all dimensions, is
(1) that a passed `psdCert` really implies positive semidefiniteness up to `ε`, and
(2) that the generic constructions the catalogues are built from (pure state ↦ density matrix, orthonormal
basis ↦ projective POVM, unitary ↦ gate, Kraus set ↦ measurement process) always yield physical objects.
-/
open Matrix
namespace QM.C17
open QM QM.C18
open scoped ComplexOrder

/-! ## checker soundness -/
section cert
variable {n : Nat}

/-- C17 `psdCert` soundness: if `M` is exactly Hermitian and the residual of the (float) eigen-decomposition
with clipped eigenvalues has squared Frobenius norm `≤ ε²`, then `M + ε·1` is positive semidefinite —
for ANY `V` (no unitarity of the eigenvector matrix is assumed), all sizes. -/
theorem psdCert_sound (M V : Mat ℂ n n) (lam : Fin n → ℝ) (ε : ℝ) (hε : 0 ≤ ε) (hM : M = adj M)
    (h : (frob2 (psdResid M V (Vec.ofFn fun i => (((max (lam i) 0 : ℝ)) : ℂ)))).re ≤ ε ^ 2) :
    (M.toM + (ε : ℂ) • (1 : Matrix (Fin n) (Fin n) ℂ)).PosSemidef := by
  set P : Matrix (Fin n) (Fin n) ℂ :=
    V.toM * diagonal (fun i => (((max (lam i) 0 : ℝ)) : ℂ)) * V.toMᴴ with hP
  have hPpsd : P.PosSemidef := QM.Psd.conj_diag_psd (𝕜 := ℂ) V.toM (fun i => max (lam i) 0)
    (fun i => le_max_right _ _)
  have hMh : M.toMᴴ = M.toM := by
    conv_rhs => rw [hM]
    rw [toM_adj]
  have hres : (psdResid M V (Vec.ofFn fun i => (((max (lam i) 0 : ℝ)) : ℂ))).toM = M.toM - P := by
    simp [psdResid, toM_adj, toM_diag, hP, Vec.get_ofFn]
  have hRh : (M.toM - P).IsHermitian := by
    unfold Matrix.IsHermitian
    rw [Matrix.conjTranspose_sub, hMh, hPpsd.isHermitian.eq]
  have hR := herm_add_eps_psd (M.toM - P) hRh ε hε (by
    rw [frob2_eq_trace, hres, hRh.eq] at h
    exact h)
  have : M.toM + (ε : ℂ) • (1 : Matrix (Fin n) (Fin n) ℂ) = P + (M.toM - P + (ε : ℂ) • 1) := by
    abel
  rw [this]
  exact hPpsd.add hR

/-- the executed decider (complex rationals) accepts exactly when the three hypotheses of `psdCert_sound`
hold for its input: `ε ≥ 0`, `M` exactly Hermitian, squared residual `≤ ε²`. -/
theorem psdCert_iff (M V : Mat CRat n n) (lam : Vec Rat n) (eps : Rat) :
    psdCert M V lam eps = true ↔
      0 ≤ eps ∧ M = adj M ∧ (frob2 (psdResid M V (clipPos lam))).re ≤ eps * eps := by
  simp [psdCert, Bool.and_eq_true, decide_eq_true_eq, and_assoc]

/-- C17 `psdCert` soundness FOR THE EXECUTED DECIDER: if the checker that the driver runs on complex rationals accepts
`(M, V, λ, ε)`, then the complex matrix `M` (entrywise embedding `mapC`) satisfies `M + ε·1 ⪰ 0`. This is the statement the
per-entry certification of states, POVM elements and Choi matrices rests on; `CRat → ℂ` is a star ring homomorphism
(`CRat.toC`), `frob2` of the residual is carried to `tr(RᴴR)` (`frob2_re_cast`). -/
theorem psdCert_true_sound (M V : Mat CRat n n) (lam : Vec Rat n) (eps : Rat) (h : psdCert M V lam eps = true) :
    (mapC M + (((eps : ℚ) : ℝ) : ℂ) • (1 : Matrix (Fin n) (Fin n) ℂ)).PosSemidef := by
  obtain ⟨h0, hM, hres⟩ := (psdCert_iff M V lam eps).mp h
  have hε : (0 : ℝ) ≤ ((eps : ℚ) : ℝ) := by exact_mod_cast h0
  have hMh : (mapC M)ᴴ = mapC M := by rw [← mapC_adj, ← hM]
  apply psd_of_cert_matrix (mapC M) (mapC V) (fun i => max ((lam.get i : ℚ) : ℝ) 0) (fun i => le_max_right _ _) _ hε hMh
  have hcast : (((frob2 (psdResid M V (clipPos lam))).re : ℚ) : ℝ) ≤ ((eps : ℚ) : ℝ) ^ 2 := by
    have : (((eps * eps : ℚ)) : ℝ) = ((eps : ℚ) : ℝ) ^ 2 := by push_cast; ring
    rw [← this]; exact_mod_cast hres
  rw [frob2_re_cast] at hcast
  have hmap : mapC (psdResid M V (clipPos lam))
      = mapC M - mapC V * diagonal (fun i => (((max ((lam.get i : ℚ) : ℝ) 0 : ℝ)) : ℂ)) * (mapC V)ᴴ := by
    unfold psdResid
    rw [mapC_sub, mapC_mul, mapC_mul, mapC_adj, mapC_diag]
    simp only [toC_clipPos]
  rw [hmap] at hcast
  exact hcast

/-- C17 `unitaryCert` soundness (executed decider): acceptance bounds the squared Frobenius norm of `UᴴU − 1` by `ε²`;
with `ε = 0` the float matrix is exactly unitary. -/
theorem unitaryCert_sound (U : Mat CRat n n) (eps : Rat) (h : unitaryCert U eps = true) :
    frobSq ((mapC U)ᴴ * mapC U - 1) ≤ ((eps : ℚ) : ℝ) ^ 2 := by
  have hres : (frob2 (unitaryResid U)).re ≤ eps * eps := by simpa [unitaryCert] using h
  have hcast : (((frob2 (unitaryResid U)).re : ℚ) : ℝ) ≤ ((eps : ℚ) : ℝ) ^ 2 := by
    have : (((eps * eps : ℚ)) : ℝ) = ((eps : ℚ) : ℝ) ^ 2 := by push_cast; ring
    rw [← this]; exact_mod_cast hres
  rw [frob2_re_cast] at hcast
  have : mapC (unitaryResid U) = (mapC U)ᴴ * mapC U - 1 := by
    unfold unitaryResid; rw [mapC_sub, mapC_mul, mapC_adj, mapC_one]
  rwa [this] at hcast

theorem unitaryCert_zero (U : Mat CRat n n) (h : unitaryCert U 0 = true) : (mapC U)ᴴ * mapC U = 1 := by
  have := unitaryCert_sound U 0 h
  have h0 := frobSq_eq_zero _ (by simpa using this)
  exact sub_eq_zero.mp h0

/-- C17 `trace1Cert` soundness: acceptance bounds `|tr M − 1|²` by `ε²`. -/
theorem trace1Cert_sound (M : Mat CRat n n) (eps : Rat) (h : trace1Cert M eps = true) :
    Complex.normSq ((mapC M).trace - 1) ≤ ((eps : ℚ) : ℝ) ^ 2 := by
  have hres : CRat.abs2 (M.trace - 1) ≤ eps * eps := by simpa [trace1Cert] using h
  have hcast : ((CRat.abs2 (M.trace - 1) : ℚ) : ℝ) ≤ ((eps : ℚ) : ℝ) ^ 2 := by
    have : (((eps * eps : ℚ)) : ℝ) = ((eps : ℚ) : ℝ) ^ 2 := by push_cast; ring
    rw [← this]; exact_mod_cast hres
  have htr : (mapC M).trace - 1 = CRat.toC (M.trace - 1) := by
    rw [map_sub, map_one, Mat.trace_eq, mapC, ← AddMonoidHom.map_trace]
  rw [htr, Complex.normSq_apply]
  simpa [CRat.abs2] using hcast

/-- C17 `tpCert` soundness (real HS matrices, literally the executed instance): acceptance bounds the squared distance of
the first row from `e₀`; with `ε = 0` the first row IS `e₀`. -/
theorem tpCert_zero (hs : Mat Rat n n) (h : tpCert hs 0 = true) (i j : Fin n) (hi : i.val = 0) :
    hs.get i j = if j.val = 0 then 1 else 0 := by
  have hres : tpResid2 hs ≤ 0 := by simpa [tpCert] using h
  unfold tpResid2 at hres
  simp only [fsum_eq_sum] at hres
  have hnn : ∀ a b : Fin n, 0 ≤ (if a.val = 0 then (hs.get a b - (if b.val = 0 then 1 else 0)) * (hs.get a b - (if b.val = 0 then 1 else 0)) else 0) := by
    intro a b; split_ifs <;> first | exact mul_self_nonneg _ | exact le_rfl
  have hz := (Finset.sum_eq_zero_iff_of_nonneg (fun a _ => Finset.sum_nonneg (fun b _ => hnn a b))).mp
    (le_antisymm hres (Finset.sum_nonneg (fun a _ => Finset.sum_nonneg (fun b _ => hnn a b)))) i (Finset.mem_univ i)
  have hz2 := (Finset.sum_eq_zero_iff_of_nonneg (fun b _ => hnn i b)).mp hz j (Finset.mem_univ j)
  simp only [hi, if_true] at hz2
  have := mul_self_eq_zero.mp hz2
  linarith

/-- C17 `povmSumCert` soundness: acceptance bounds `‖Σ_x M_x − 1‖_F²` by `ε²`; with `ε = 0` the elements sum to 1. -/
theorem povmSumCert_sound (Ms : List (Mat CRat n n)) (eps : Rat) (h : povmSumCert Ms eps = true) :
    frobSq ((Ms.map mapC).sum - 1) ≤ ((eps : ℚ) : ℝ) ^ 2 := by
  have hres : (frob2 (sumResid Ms)).re ≤ eps * eps := by simpa [povmSumCert] using h
  have hcast : (((frob2 (sumResid Ms)).re : ℚ) : ℝ) ≤ ((eps : ℚ) : ℝ) ^ 2 := by
    have : (((eps * eps : ℚ)) : ℝ) = ((eps : ℚ) : ℝ) ^ 2 := by push_cast; ring
    rw [← this]; exact_mod_cast hres
  rwa [frob2_re_cast, mapC_sumResid] at hcast

theorem povmSumCert_zero (Ms : List (Mat CRat n n)) (h : povmSumCert Ms 0 = true) : (Ms.map mapC).sum = 1 := by
  have := povmSumCert_sound Ms 0 h
  exact sub_eq_zero.mp (frobSq_eq_zero _ (by simpa using this))

/-- C17 `hsUnitaryCert` soundness: acceptance bounds the squared Frobenius distance between the implementation's real HS
matrix and the model's `hsOfUnitary B U`, whose entries are `tr(B_aᴴ · U B_b Uᴴ)` (`mapC_hsOfUnitary`). -/
theorem hsUnitaryCert_sound {d : Nat} (B : Basis CRat d) (U : Mat CRat d d) (hs : Mat Rat (d * d) (d * d)) (eps : Rat)
    (h : hsUnitaryCert B U hs eps = true) :
    frobSq (mapC (embed hs) - mapC (hsOfUnitary B U)) ≤ ((eps : ℚ) : ℝ) ^ 2 ∧
      ∀ a b, mapC (hsOfUnitary B U) a b = ((mapC (B.get a))ᴴ * (mapC U * mapC (B.get b) * (mapC U)ᴴ)).trace := by
  refine ⟨?_, mapC_hsOfUnitary B U⟩
  have hres : (frob2 ((embed hs).sub (hsOfUnitary B U))).re ≤ eps * eps := by simpa [hsUnitaryCert] using h
  have hcast : (((frob2 ((embed hs).sub (hsOfUnitary B U))).re : ℚ) : ℝ) ≤ ((eps : ℚ) : ℝ) ^ 2 := by
    have : (((eps * eps : ℚ)) : ℝ) = ((eps : ℚ) : ℝ) ^ 2 := by push_cast; ring
    rw [← this]; exact_mod_cast hres
  rwa [frob2_re_cast, mapC_sub] at hcast

/-- the residual that `unitaryCert` measures is `UᴴU − 1` (restatement at `ℂ`; the soundness statements are
`unitaryCert_sound` / `unitaryCert_zero` above). -/
theorem unitaryResid_toM (U : Mat ℂ n n) : (unitaryResid U).toM = U.toMᴴ * U.toM - 1 := by
  simp [unitaryResid, toM_adj]
end cert

/-! ## generic constructions -/
section generic
variable {n : Type} [Fintype n] [DecidableEq n]

/-- C17 `state_of_pure_vector_physical`: `|ψ⟩⟨ψ|` with `⟨ψ|ψ⟩ = 1` is PSD with unit trace. -/
theorem state_of_pure_vector_physical (ψ : n → ℂ) (h : star ψ ⬝ᵥ ψ = 1) :
    (vecMulVec ψ (star ψ)).PosSemidef ∧ (vecMulVec ψ (star ψ)).trace = 1 := by
  refine ⟨posSemidef_vecMulVec_self_star ψ, ?_⟩
  rw [← h]
  simp [Matrix.trace, vecMulVec_apply, dotProduct, mul_comm]

/-- C17 `povm_of_onb_physical`: the rank-one projectors on the columns of a unitary `U` are PSD and sum to 1. -/
theorem povm_of_onb_physical (U : Matrix n n ℂ) (hU : U * Uᴴ = 1) :
    (∀ x, (vecMulVec (fun i => U i x) (star fun i => U i x)).PosSemidef) ∧
      ∑ x, vecMulVec (fun i => U i x) (star fun i => U i x) = 1 := by
  refine ⟨fun x => posSemidef_vecMulVec_self_star _, ?_⟩
  rw [← hU]
  ext i j
  simp [Matrix.sum_apply, vecMulVec_apply, Matrix.mul_apply, Matrix.conjTranspose_apply]

/-- C17 `gate_of_unitary_physical` (TP): conjugation by a unitary preserves the trace. -/
theorem gate_of_unitary_tp (U ρ : Matrix n n ℂ) (hU : Uᴴ * U = 1) : (U * ρ * Uᴴ).trace = ρ.trace := by
  rw [Matrix.trace_mul_cycle, hU, Matrix.one_mul]

/-- C17 `gate_of_unitary_physical` (CP): the Choi matrix of `ρ ↦ UρUᴴ` is PSD (for every `U`). -/
theorem gate_of_unitary_choi_psd (U : Matrix n n ℂ) : (choi fun ρ => U * ρ * Uᴴ).PosSemidef := by
  rw [choi_conj]; exact posSemidef_vecMulVec_self_star _

/-- C17 `mprocess_of_kraus_physical` (TP): Kraus operators with `Σ KᴴK = 1` give a trace-preserving map … -/
theorem kraus_tp {m : Type} [Fintype m] (K : m → Matrix n n ℂ) (h : ∑ x, (K x)ᴴ * K x = 1)
    (ρ : Matrix n n ℂ) : (∑ x, K x * ρ * (K x)ᴴ).trace = ρ.trace := by
  rw [Matrix.trace_sum]
  have hc : ∀ x, (K x * ρ * (K x)ᴴ).trace = ((K x)ᴴ * K x * ρ).trace :=
    fun x => Matrix.trace_mul_cycle _ _ _
  simp only [hc]
  rw [← Matrix.trace_sum, ← Matrix.sum_mul, h, Matrix.one_mul]

/-- … and each outcome's map `ρ ↦ Σ_k K_k ρ K_kᴴ` has a PSD Choi matrix. -/
theorem kraus_choi_psd {m : Type} [Fintype m] (K : m → Matrix n n ℂ) :
    (choi fun ρ => ∑ x, K x * ρ * (K x)ᴴ).PosSemidef := by
  have : (choi fun ρ => ∑ x, K x * ρ * (K x)ᴴ) = ∑ x, choi (fun ρ => K x * ρ * (K x)ᴴ) := by
    ext p q; simp [choi, Matrix.sum_apply]
  rw [this]
  apply Matrix.posSemidef_sum
  intro x _
  rw [choi_conj]; exact posSemidef_vecMulVec_self_star _
end generic

/-! ## further generic families -/
section families
variable {n : Type} [Fintype n] [DecidableEq n]

/-- C17 `state_ensemble` / depolarised objects: a convex mixture of physical states is a physical state. -/
theorem mixture_physical {m : Type} [Fintype m] (p : m → ℝ) (ρ : m → Matrix n n ℂ) (hp : ∀ x, 0 ≤ p x)
    (hs : ∑ x, p x = 1) (hρ : ∀ x, (ρ x).PosSemidef ∧ (ρ x).trace = 1) :
    (∑ x, ((p x : ℝ) : ℂ) • ρ x).PosSemidef ∧ (∑ x, ((p x : ℝ) : ℂ) • ρ x).trace = 1 := by
  constructor
  · apply Matrix.posSemidef_sum
    intro x _
    exact (hρ x).1.smul (by exact_mod_cast hp x)
  · rw [Matrix.trace_sum]
    simp only [Matrix.trace_smul, (hρ _).2, smul_eq_mul, mul_one]
    exact_mod_cast hs

/-- C17 type-1 (projective) measurement processes: the Kraus operators `|u_x⟩⟨u_x|` built from the columns of a unitary
satisfy `Σ_x K_xᴴ K_x = 1`, so `kraus_tp` / `kraus_choi_psd` apply. -/
theorem projective_kraus_complete (U : Matrix n n ℂ) (hU : U * Uᴴ = 1) (hU' : Uᴴ * U = 1) :
    ∑ x, (vecMulVec (fun i => U i x) (star fun i => U i x))ᴴ * vecMulVec (fun i => U i x) (star fun i => U i x) = 1 := by
  have hn : ∀ x, (star fun i => U i x) ⬝ᵥ (fun i => U i x) = 1 := by
    intro x
    have := congrFun (congrFun hU' x) x
    simpa [Matrix.mul_apply, Matrix.conjTranspose_apply, dotProduct] using this
  have hP : ∀ x, (vecMulVec (fun i => U i x) (star fun i => U i x))ᴴ * vecMulVec (fun i => U i x) (star fun i => U i x)
      = vecMulVec (fun i => U i x) (star fun i => U i x) := by
    intro x
    ext i j
    simp only [Matrix.mul_apply, Matrix.conjTranspose_apply, vecMulVec_apply, Pi.star_apply, star_mul, star_star]
    have h1 := hn x
    simp only [dotProduct, Pi.star_apply] at h1
    calc ∑ k, U i x * star (U k x) * (U k x * star (U j x))
        = U i x * (∑ k, star (U k x) * U k x) * star (U j x) := by
          rw [Finset.mul_sum, Finset.sum_mul]; apply Finset.sum_congr rfl; intro k _; ring
      _ = U i x * star (U j x) := by rw [h1, mul_one]
  simp only [hP]
  exact (povm_of_onb_physical U hU).2
end families

/-! ## Hamiltonian ↦ unitary -/
section hamiltonian
open NormedSpace
open scoped Matrix.Norms.L2Operator

/-- C17 `unitary_of_hamiltonian`: `exp(−iH)` is unitary for every Hermitian `H` (all dimensions; the
topology on matrices is the one of the operator norm). -/
theorem unitary_of_hamiltonian {n : Type} [Fintype n] [DecidableEq n] (H : Matrix n n ℂ) (hH : Hᴴ = H) :
    exp ((-Complex.I) • H) ∈ unitary (Matrix n n ℂ) := by
  let _ : NormedAlgebra ℚ (Matrix n n ℂ) := NormedAlgebra.restrictScalars ℚ ℂ _
  apply exp_mem_unitary_of_mem_skewAdjoint
  rw [skewAdjoint.mem_iff, Matrix.star_eq_conjTranspose, Matrix.conjTranspose_smul, hH]
  simp

/-- C17 Hamiltonian-defined gates (every 3-qubit and 2-qutrit catalogue gate, and the gate of every catalogue
Lindbladian): for Hermitian `H` the map `ρ ↦ UρUᴴ` with `U = exp(−iH)` is trace preserving and its Choi matrix is PSD. -/
theorem gate_of_hamiltonian_physical {n : Type} [Fintype n] [DecidableEq n] (H : Matrix n n ℂ) (hH : Hᴴ = H) :
    (∀ ρ : Matrix n n ℂ, (exp ((-Complex.I) • H) * ρ * (exp ((-Complex.I) • H))ᴴ).trace = ρ.trace) ∧
      (choi fun ρ => exp ((-Complex.I) • H) * ρ * (exp ((-Complex.I) • H))ᴴ).PosSemidef := by
  have hU := unitary_of_hamiltonian H hH
  refine ⟨fun ρ => gate_of_unitary_tp _ ρ ?_, gate_of_unitary_choi_psd _⟩
  rw [← Matrix.star_eq_conjTranspose]
  exact Unitary.star_mul_self_of_mem hU
end hamiltonian

/-! ## the executable `hsOfUnitary` -/
section hs
variable {d : Nat}

/-- C17 "unitary ↦ HS matrix is TP": for an orthonormal Hermitian basis with `B_0 = s·1` (`s` real) and a
unitary `U`, the first row of the model's `hsOfUnitary B U` is `e₀`. -/
theorem hsOfUnitary_row0 (B : Basis ℂ d) (z : Fin (d * d)) (s : ℂ) (hB : ONH0 B z s) (hs : star s = s)
    (U : Mat ℂ d d) (hU : U.toMᴴ * U.toM = 1) (b : Fin (d * d)) :
    (hsOfUnitary B U).get z b = if b = z then 1 else 0 := by
  simp only [hsOfUnitary, Mat.get_ofFn]
  rw [trMul_eq_trace, toM_adj, Mat.toM_mul, Mat.toM_mul, toM_adj, toM_get_eq_Bm, toM_get_eq_Bm,
    hB.herm z, hB.b0, Matrix.smul_mul, Matrix.one_mul, Matrix.trace_smul, Matrix.trace_mul_cycle, hU,
    Matrix.one_mul, hB.trace_B]
  by_cases h : b = z
  · simp only [h, if_true, smul_eq_mul]
    rw [← mul_assoc]; exact hB.snorm
  · simp [h]
end hs

/-! ## the executed gate construction: unitary ↦ comp-basis superoperator ↦ HS matrix

The generic theorems above are statements about Mathlib matrices. These three tie them to definitions that are EXECUTED
(C18's `kron`, `conjM`, `act`, `choiCb`, `toHerm` and this file's `hsOfUnitary`, the reference of `hsUnitaryCert`): the model's
HS matrix of a unitary is the basis conversion of `U ⊗ Ū`, which acts as `ρ ↦ UρUᴴ` and whose Choi matrix is PSD. -/
section execgate
variable {d : Nat}

/-- `U ⊗ conj U` (the comp-basis matrix quara's `calc_gate_mat_from_unitary_mat` builds) acts as `ρ ↦ UρUᴴ`. -/
theorem gate_superoperator_acts (U rho : Mat ℂ d d) :
    (act (kron U (conjM U)) rho).toM = U.toM * rho.toM * U.toMᴴ := by
  rw [act_kron, toM_conjM_transpose]

/-- its Choi matrix (`choiCb`, a reshuffle of the entries) is the rank-one PSD matrix `|vec U⟩⟩⟨⟨vec U|` — CP for every `U`. -/
theorem gate_superoperator_choi_psd (U : Mat ℂ d d) : (choiCb (kron U (conjM U))).toM.PosSemidef := by
  have : (choiCb (kron U (conjM U))).toM
      = vecMulVec (fun r : Fin (d * d) => U.get (p2 r) (p1 r)) (star fun r : Fin (d * d) => U.get (p2 r) (p1 r)) := by
    ext r c
    simp [choiCb, vecMulVec_apply]
  rw [this]; exact posSemidef_vecMulVec_self_star _

/-- and the model's `hsOfUnitary B U` (entries `tr(B_aᴴ U B_b Uᴴ)`) is exactly `convert_hs(U ⊗ Ū, comp, B)` — any basis, all `d`. -/
theorem hsOfUnitary_eq_toHerm (B : Basis ℂ d) (U : Mat ℂ d d) :
    hsOfUnitary B U = toHerm B (kron U (conjM U)) := by
  apply Mat.ext'; intro a b
  rw [toHerm_get]
  simp only [hsOfUnitary, Mat.get_ofFn, trMul, fsum_eq_sum, adj_get, mul_get, kron_get, conjM_get, Bf, sum_pairs,
    p1_pr, p2_pr, Finset.mul_sum, Finset.sum_mul]
  -- LHS: Σ r c l k : star(B_a[c,r]) * (U[c,k] * B_b[k,l] * star(U[r,l]))   RHS: Σ k l i j
  rw [sum4]
  refine Finset.sum_congr rfl fun i _ => Finset.sum_congr rfl fun x _ => Finset.sum_congr rfl fun c _ =>
    Finset.sum_congr rfl fun r _ => ?_
  ring
end execgate

/-! ## alternative descriptions agree: state vector ↔ density matrix ↔ coefficient vector; Kraus set ↔ HS matrix

About the EXECUTED definitions `pureDensity`, `coefVec`, `densityOfCoef`, `krausSum`, `hsOfKraus` (driver ops `stateforms`,
`hsofkraus`, compared on every catalogue state of the 1-qubit / 1-qutrit systems and every catalogue m-process). -/
section descriptions
variable {K : Type} [Field K] [StarRing K] [HasI K] {d : Nat}

/-- C17 "density matrix and coefficient vector agree": for an orthonormal Hermitian basis with `B_0 = s·1`
`ρ ↦ (tr(B_aᴴρ))_a` and `v ↦ Σ_a v_a B_a` are mutually inverse — every matrix, every coefficient vector, all `d`. -/
theorem density_coef_roundtrip (B : Basis K d) (z : Fin (d * d)) (s : K) (hB : ONH0 B z s) (rho : Mat K d d)
    (v : Vec K (d * d)) :
    densityOfCoef B (coefVec B rho) = rho ∧ coefVec B (densityOfCoef B v) = v := by
  constructor
  · apply Mat.toM_injective
    have hc := complete_of_onh0 B z s hB rho.toM
    conv_rhs => rw [hc]
    unfold densityOfCoef
    rw [toM_msum]
    apply Finset.sum_congr rfl; intro a _
    rw [Mat.toM_smul]
    simp only [coefVec, Vec.get_ofFn]
    rw [trMul_eq_trace', toM_adj, toM_get_eq_Bm, hB.herm a, Matrix.trace_mul_comm]
  · apply Vec.ext'; intro a
    simp only [coefVec, Vec.get_ofFn]
    rw [trMul_eq_trace', toM_adj, toM_get_eq_Bm, hB.herm a]
    unfold densityOfCoef
    rw [toM_msum, Matrix.mul_sum, Matrix.trace_sum]
    simp only [Mat.toM_smul, Matrix.mul_smul, Matrix.trace_smul, toM_get_eq_Bm, hB.orth, smul_eq_mul, mul_ite, mul_one,
      mul_zero]
    simp

/-- C17 "pure-state vector and density matrix agree": the executed `pureDensity ψ` is `|ψ⟩⟨ψ|` (Mathlib `vecMulVec`), so
`state_of_pure_vector_physical` is a statement about it: Hermitian, PSD, trace `⟨ψ|ψ⟩`. -/
theorem pureDensity_eq (psi : Vec K d) :
    (pureDensity psi).toM = vecMulVec (fun i => psi.get i) (star fun i => psi.get i) := by
  ext i j; simp [pureDensity, vecMulVec_apply, conj_eq_star]

/-- C17 "Kraus set and HS matrix agree" (1): the comp-basis matrix `Σ_k K ⊗ K̄` acts as `ρ ↦ Σ_k K ρ Kᴴ`. -/
theorem krausSum_action (ks : List (Mat K d d)) (rho : Mat K d d) :
    (act (krausSum ks) rho).toM = (ks.map fun k => k.toM * rho.toM * k.toMᴴ).sum := by
  unfold krausSum
  have h := act_foldl_add (ks.map fun k => kron k (conjM k)) (Mat.zero : Mat K (d * d) (d * d)) rho
  rw [List.foldl_map] at h
  rw [h]
  have h0 : (act (Mat.zero : Mat K (d * d) (d * d)) rho).toM = 0 := by
    ext i j; simp [act_get, Mat.zero]
  rw [h0, zero_add, List.map_map]
  congr 1
  apply List.map_congr_left; intro k _
  simp only [Function.comp_apply]
  rw [act_kron, toM_conjM_transpose]

/-- C17 "Kraus set and HS matrix agree" (2), trace preservation of the generated m-process: if the Kraus operators of ALL
outcomes together satisfy `Σ KᴴK = 1`, the first row of the model's `hsOfKraus` (sum over the outcomes of the
catalogue's `hss`) is `e₀`. -/
theorem hsOfKraus_row0 (B : Basis K d) (z : Fin (d * d)) (s : K) (hB : ONH0 B z s) (hs : star s = s)
    (ks : List (Mat K d d)) (hk : (ks.map fun k => k.toMᴴ * k.toM).sum = 1) (b : Fin (d * d)) :
    (hsOfKraus B ks).get z b = if b = z then 1 else 0 := by
  have hz : ∀ i j, (B.get z).get i j = if i = j then s else 0 := by
    intro i j
    have := congrFun (congrFun hB.b0 i) j
    simpa [Bm, Matrix.smul_apply, Matrix.one_apply] using this
  unfold hsOfKraus
  rw [toHerm_row0 B _ z b s hz, krausSum_action, hs]
  have htr : ((ks.map fun k : Mat K d d => k.toM * (B.get b).toM * k.toMᴴ).sum).trace = ((B.get b).toM).trace := by
    have : ∀ l : List (Mat K d d), ((l.map fun k : Mat K d d => k.toM * (B.get b).toM * k.toMᴴ).sum).trace
        = ((l.map fun k : Mat K d d => k.toMᴴ * k.toM).sum * (B.get b).toM).trace := by
      intro l
      induction l with
      | nil => simp
      | cons k l ih =>
        simp only [List.map_cons, List.sum_cons, Matrix.trace_add, Matrix.add_mul, ih]
        congr 1
        rw [Matrix.trace_mul_cycle]
    rw [this, hk, Matrix.one_mul]
  rw [htr, toM_get_eq_Bm, hB.trace_B]
  by_cases h : b = z
  · simp only [h, if_true]; rw [← mul_assoc]; exact hB.snorm
  · simp [h]

/-- C17 "Hamiltonian and Lindbladian agree" on the executed `lindOfHamiltonian` (the HS matrix the Lindbladian catalogue
builds from a Hamiltonian): for Hermitian `H` it represents `ρ ↦ −i[H, ρ]`, its first row vanishes (trace-annihilating), in
every dimension and for every basis with `B_0 = s·1`. -/
theorem lindOfHamiltonian_spec (B : Basis K d) (h : Mat K d d) (hh : h.toMᴴ = h.toM) (z b : Fin (d * d)) (s : K)
    (hz : ∀ i j, (B.get z).get i j = if i = j then s else 0) (rho : Mat K d d) :
    (act (cbFromH h) rho).toM = (-(ii : K)) • (h.toM * rho.toM - rho.toM * h.toM) ∧
      (lindOfHamiltonian B h).get z b = 0 := by
  have hact : ∀ r : Mat K d d, (act (cbFromH h) r).toM = (-(ii : K)) • (h.toM * r.toM - r.toM * h.toM) := by
    intro r
    have := act_hPart h r
    rw [hh] at this
    exact this
  refine ⟨hact rho, ?_⟩
  unfold lindOfHamiltonian
  rw [toHerm_row0 B _ z b s hz, hact, Matrix.trace_smul, Matrix.trace_sub, Matrix.trace_mul_comm, sub_self, smul_zero,
    mul_zero]

/-- C17 "pure-state vectors, matrices and coefficient vectors of a POVM agree": the executed `povmOfVectors` maps each vector
to `|v⟩⟨v|`; for the columns of a unitary the elements are PSD and sum to 1 (`povm_of_onb_physical`), and each element is
recovered from its coefficient vector (`density_coef_roundtrip`). -/
theorem povmOfVectors_spec (B : Basis K d) (z : Fin (d * d)) (s : K) (hB : ONH0 B z s) (vs : List (Vec K d)) :
    (povmOfVectors vs).map Mat.toM = vs.map (fun v => vecMulVec (fun i => v.get i) (star fun i => v.get i)) ∧
      ∀ m ∈ povmOfVectors vs, densityOfCoef B (coefVec B m) = m := by
  constructor
  · simp only [povmOfVectors, List.map_map]
    apply List.map_congr_left; intro v _
    exact pureDensity_eq v
  · intro m _
    exact (density_coef_roundtrip B z s hB m (Vec.ofFn fun _ => 0)).1
end descriptions

example := lindOfHamiltonian_spec basisPauli matX matX_herm ⟨0, by decide⟩ ⟨3, by decide⟩ sP
  (fun i j => by have := Bm_basisPauli ⟨0, by decide⟩ i j; simp only [Bm, Mat.toM_apply] at this; rw [this]
                 fin_cases i <;> fin_cases j <;> simp [sigma]) matX
example := povmOfVectors_spec basisPauli _ sP onh0_basisPauli
  [Vec.ofFn fun i : Fin 2 => if i.val = 0 then (1 : ℂ) else 0, Vec.ofFn fun i : Fin 2 => if i.val = 0 then (0 : ℂ) else 1]

/-- non-degenerate instances: Pauli basis, `ρ = X`; Kraus set `{X}` (unitary, so `Σ KᴴK = 1`) -/
example := density_coef_roundtrip basisPauli _ sP onh0_basisPauli matX (Vec.ofFn fun a => (a.val : ℂ))
example (b : Fin (2 * 2)) := hsOfKraus_row0 basisPauli _ sP onh0_basisPauli star_sP [matX]
  (by simp only [List.map_cons, List.map_nil, List.sum_cons, List.sum_nil, add_zero]; rw [matX_herm]
      ext i j; fin_cases i <;> fin_cases j <;> simp [matX, sigma, Matrix.mul_apply, Fin.sum_univ_two]) b

/-! ## names outside the catalogue are rejected (about the definitions GENERATED from the source, QGen/C17.lean) -/
section names
open QGen.C17

/-- C17 `unknown_name_rejected` (1): the translated `is_valid_state_name` accepts exactly the names that the
translated `get_state_names()` lists — every name, of any length. (A rewrite of the validator that is no longer a
chain of catalogue-membership tests makes the translator fail; one that changes the lists re-opens this proof.) -/
theorem valid_iff_listed (name : String) :
    is_valid_state_name name = true ↔ name ∈ get_state_names := by
  simp only [is_valid_state_name, get_state_names, List.contains_iff_mem, List.mem_append, List.nil_append]
  constructor
  · intro h
    split_ifs at h with h1 h2 h3 h4 h5
    · exact Or.inl (Or.inl (Or.inl (Or.inl h1)))
    · exact Or.inl (Or.inl (Or.inl (Or.inr h2)))
    · exact Or.inl (Or.inl (Or.inr h3))
    · exact Or.inl (Or.inr h4)
    · exact Or.inr h5
  · intro h
    rcases h with (((h | h) | h) | h) | h <;> simp [h]

/-- C17 `unknown_name_rejected` (2) — `_partial`: STATE catalogue only. Both state generators that every state object form
goes through (`generate_state_pure_state_vector_from_name`, `generate_state_density_mat_from_name`) raise for every name
that `get_state_names()` does not list (the guard position at the head of both generators is pattern-checked by the
translator, which emits `…_rejects := !is_valid_state_name`). Missing: the POVM, gate, m-process, ensemble and Lindbladian
generators have no validator function to translate; for POVMs and m-processes the clause is in fact FALSE on the current
source (known findings D17d–f: compositional names outside the catalogue are accepted) — those catalogues are covered by
the oracle's out-of-catalogue and near-miss probes only. -/
theorem unknown_state_name_rejected_partial (name : String) (h : name ∉ get_state_names) :
    generate_state_pure_state_vector_from_name_rejects name = true ∧
      generate_state_density_mat_from_name_rejects name = true := by
  have hv : is_valid_state_name name = false := by
    cases hb : is_valid_state_name name
    · rfl
    · exact absurd ((valid_iff_listed name).mp hb) h
  simp [generate_state_pure_state_vector_from_name_rejects, generate_state_density_mat_from_name_rejects, hv]

/-- and conversely a listed name passes both guards -/
theorem listed_name_accepted (name : String) (h : name ∈ get_state_names) :
    generate_state_pure_state_vector_from_name_rejects name = false ∧
      generate_state_density_mat_from_name_rejects name = false := by
  simp [generate_state_pure_state_vector_from_name_rejects, generate_state_density_mat_from_name_rejects,
    (valid_iff_listed name).mpr h]

/-- C17 catalogue structure (generated `get_gate_names_2qutrit_two_base_matrices`): a name is listed iff it is
`n1 ++ "_" ++ n2` for two DIFFERENT listed single-base names — the parameters the generator reads back by `split("_")`. -/
theorem two_base_name_structure (name : String) :
    name ∈ get_gate_names_2qutrit_two_base_matrices ↔
      ∃ n1 ∈ get_gate_names_2qutrit_single_base_matrix, ∃ n2 ∈ get_gate_names_2qutrit_single_base_matrix,
        n1 ≠ n2 ∧ name = n1 ++ "_" ++ n2 := by
  simp only [get_gate_names_2qutrit_two_base_matrices, List.nil_append, List.mem_flatMap, List.mem_map,
    List.mem_filter, bne_iff_ne, ne_eq]
  constructor
  · rintro ⟨n1, h1, n2, ⟨h2, hne⟩, rfl⟩
    exact ⟨n1, h1, n2, h2, hne, rfl⟩
  · rintro ⟨n1, h1, n2, h2, hne, rfl⟩
    exact ⟨n1, h1, n2, ⟨h2, hne⟩, rfl⟩

/-- C17 catalogue structure (generated `get_gate_names_2qutrit_single_base_matrix`): a name is listed iff it is a
base-matrix name other than `"ii"` (first occurrence removed) followed by an angle. -/
theorem single_base_name_structure (name : String) :
    name ∈ get_gate_names_2qutrit_single_base_matrix ↔
      ∃ b ∈ get_base_matrix_names_2qutrit.erase "ii", ∃ a ∈ get_angles_2qutrit, name = b ++ a := by
  simp only [get_gate_names_2qutrit_single_base_matrix, List.nil_append, prodTuples_two_join, List.mem_flatMap,
    List.mem_map]
  constructor
  · rintro ⟨b, hb, a, ha, rfl⟩; exact ⟨b, hb, a, ha, rfl⟩
  · rintro ⟨b, hb, a, ha, rfl⟩; exact ⟨b, hb, a, ha, rfl⟩

/-- C17 catalogue structure (generated `get_gate_names`): `identity` followed by the five per-system lists. -/
theorem gate_names_listing :
    get_gate_names = "identity" :: (get_gate_names_1qubit ++ get_gate_names_2qubit ++ get_gate_names_3qubit
      ++ get_gate_names_1qutrit ++ get_gate_names_2qutrit) := by
  simp [get_gate_names]

/-- the hypotheses are inhabited on both sides; near-miss names assembled from valid labels are rejected -/
example : "i01x90" ∈ get_gate_names_2qutrit_single_base_matrix := by decide +kernel
example : get_gate_names_1qubit.length = 15 ∧ get_gate_names_3qubit = ["toffoli", "fredkin"] := by decide +kernel
example : is_valid_state_name "z0_x1_a" = true := by decide +kernel
example : "z0_01x0" ∉ get_state_names := by decide +kernel
example : generate_state_pure_state_vector_from_name_rejects "01z0_01z0_01z0" = true := by decide +kernel
example : get_state_names.length = 749 := by decide +kernel
end names

/-- the hypotheses of the generic family theorems are satisfiable -/
example := projective_kraus_complete (1 : Matrix (Fin 2) (Fin 2) ℂ) (by simp) (by simp)
example := mixture_physical (n := Fin 2) (m := Fin 2) (fun _ => (1 / 2 : ℝ))
  (fun _ => vecMulVec (fun i : Fin 2 => if i = 0 then (1 : ℂ) else 0) (star fun i : Fin 2 => if i = 0 then (1 : ℂ) else 0))
  (fun _ => by norm_num) (by simp)
  (fun _ => state_of_pure_vector_physical _ (by simp [dotProduct, Fin.sum_univ_two]))
section
open NormedSpace
open scoped Matrix.Norms.L2Operator
example := gate_of_hamiltonian_physical (0 : Matrix (Fin 2) (Fin 2) ℂ) (by simp)
end

/-- `hsOfUnitary_row0` instantiated (one-dimensional system, `U = 1`) -/
example : (hsOfUnitary basis1 (Mat.one : Mat ℂ 1 1)).get ⟨0, by decide⟩ ⟨0, by decide⟩ = 1 := by
  have := hsOfUnitary_row0 basis1 _ 1 onh0_basis1 (by simp) Mat.one (by simp) ⟨0, by decide⟩
  simpa using this

/-- `psdCert_sound` applied: hypotheses (`ε = 0`, exact Hermiticity, zero residual) and conclusion for `M = V = 1₂`, `λ = (1,1)` -/
example : ((Mat.one : Mat ℂ 2 2).toM + ((0 : ℝ) : ℂ) • (1 : Matrix (Fin 2) (Fin 2) ℂ)).PosSemidef :=
  psdCert_sound (Mat.one : Mat ℂ 2 2) Mat.one (fun _ => 1) 0 le_rfl
    (by apply Mat.ext'; intro i j; by_cases h : i = j <;> simp [adj, Mat.one, conj_eq_star, h, eq_comm])
    (by simp [frob2, psdResid, fsum_eq_sum, diag, adj, conj_eq_star, Fin.sum_univ_two, Vec.get_ofFn])

/-- the executed decider accepts a concrete non-trivial certificate (a rank-one projector with its eigen-decomposition) and
`psdCert_true_sound` applies to it -/
example : psdCert (Mat.ofFn fun i j => if i.val = 0 ∧ j.val = 0 then (1 : CRat) else 0 : Mat CRat 2 2) Mat.one
    (Vec.ofFn fun i => if i.val = 0 then (1 : Rat) else 0) 0 = true := by decide +kernel

/-- `hsOfUnitary_row0` on the normalised Pauli basis with the unitary `X` (non-degenerate instance of `ONH0`) -/
example (b : Fin (2 * 2)) : (hsOfUnitary basisPauli matX).get ⟨0, by decide⟩ b = if b = ⟨0, by decide⟩ then 1 else 0 :=
  hsOfUnitary_row0 basisPauli _ sP onh0_basisPauli star_sP matX
    (by rw [matX_herm]; ext i j; fin_cases i <;> fin_cases j <;> simp [matX, sigma, Matrix.mul_apply, Fin.sum_univ_two]) b

end QM.C17
