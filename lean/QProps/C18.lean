import QProofs.C18
import Mathlib.Tactic.Module
import Mathlib.Tactic.LinearCombination
import Mathlib.Data.Complex.Basic
/-!
# C18 — Lindbladian generators: property theorems

All statements are about the definitions of `QModel/C18.lean` and are unbounded in the dimension `d`. The polymorphic core is
instantiated at an arbitrary field `K` with an involution `star` and an element `ii`, `ii² = −1`. The driver's scalar type
`CRat` IS such a field (`CRat.instField`, `instStarRing`, `ii_mul_ii` in `QProofs/C18.lean`, built from the model's own
instances), so these theorems hold literally for the executed functions (section `execinst` instantiates them); `ℂ` is
another instance (used where an order / PSD statement is needed, through the embedding `CRat.toC` / `mapC`).
`ONH0 B z s` is the implementation's `is_orthonormal_hermitian_0thprop_identity`.
-/
open Matrix
namespace QM.C18
open QM

/-! ## equality projection (`calc_proj_eq_constraint`) and the TP verdict -/
section projection
variable {R : Type} [Field R] [LinearOrder R] [IsStrictOrderedRing R] {n : Nat}

/-- C18 "the equality projection zeroes exactly the first row": row 0 of the result vanishes … -/
theorem projEq_zeroes_row0 (hs : Mat R n n) (i j : Fin n) (hi : i.val = 0) :
    (projEq hs).get i j = 0 := by
  simp [projEq_get, hi]

/-- … and every other row is returned unchanged. -/
theorem projEq_keeps_other_rows (hs : Mat R n n) (i j : Fin n) (hi : i.val ≠ 0) :
    (projEq hs).get i j = hs.get i j := by
  simp [projEq_get, hi]

/-- generators whose first row vanishes (TP generators) are fixed points; in particular the projection is
idempotent. -/
theorem projEq_fixes_tp (hs : Mat R n n) (h0 : ∀ i j, i.val = 0 → hs.get i j = 0) :
    projEq hs = hs := by
  apply Mat.ext'; intro i j
  by_cases hi : i.val = 0
  · simp [projEq_get, hi, h0 i j hi]
  · simp [projEq_get, hi]

theorem projEq_idem (hs : Mat R n n) : projEq (projEq hs) = projEq hs :=
  projEq_fixes_tp _ fun i j hi => projEq_zeroes_row0 hs i j hi

/-- C18 "nearest point": among all matrices with vanishing first row the projection is the closest one to
`hs` in the Frobenius norm (all sizes; literally valid for the executed instance `ℚ`). -/
theorem projEq_nearest (hs Y : Mat R n n) (hY : ∀ i j, i.val = 0 → Y.get i j = 0) :
    ∑ i, ∑ j, (hs.get i j - (projEq hs).get i j) ^ 2 ≤ ∑ i, ∑ j, (hs.get i j - Y.get i j) ^ 2 :=
  projEq_nearest_aux hs Y hY
end projection

example : projEq (Mat.ofFn fun i j => ((i.val + 2 * j.val + 1 : Nat) : ℚ) : Mat ℚ 2 2)
    = Mat.ofFn fun i j => if i.val = 0 then 0 else ((i.val + 2 * j.val + 1 : Nat) : ℚ) := by
  apply Mat.ext'; intro i j; simp [projEq_get]

/-- C18 `is_tp` verdict: the model's `is_tp` is `true` exactly when every entry of the first row is within
`atol` of zero (`np.allclose(hs[0], 0, atol, rtol=0)`); with `atol = 0` this is "first row vanishes". -/
theorem isTp_iff {n : Nat} (hs : Mat ℚ n n) (atol : ℚ) :
    isTp hs atol = true ↔ ∀ i j : Fin n, i.val = 0 → |hs.get i j| ≤ atol := by
  simp only [isTp, List.all_eq_true, List.mem_finRange, forall_const, decide_eq_true_eq, rabs_eq_abs]
  constructor
  · intro h i j hi
    rcases h i j with h1 | h1
    · exact absurd hi h1
    · exact h1
  · intro h i j
    by_cases hi : i.val = 0
    · exact Or.inr (h i j hi)
    · exact Or.inl hi

/-! ## `hs[0, β] = s̄ · tr L(B_β)`: the first row is the trace functional -/
section row0
variable {K : Type} [Field K] [StarRing K] {d : Nat}

/-- C18 `tp_iff_row0` (1): for the Hermitian-basis matrix `convert_hs(L_cb, comp_basis, basis)` of any
comp-basis superoperator, entry `(0, β)` is `s̄` times the trace of `L(B_β)` when `B_0 = s·1`. -/
theorem hs_row0_eq_trace (B : Basis K d) (L : Mat K (d * d) (d * d)) (z b : Fin (d * d)) (s : K)
    (hz : ∀ i j, (B.get z).get i j = if i = j then s else 0) :
    (toHerm B L).get z b = star s * (act L (B.get b)).toM.trace :=
  toHerm_row0 B L z b s hz

/-- C18 `tp_iff_row0` (2): the first row vanishes iff `L` annihilates the trace of every basis element. -/
theorem tp_iff_row0 (B : Basis K d) (L : Mat K (d * d) (d * d)) (z : Fin (d * d)) (s : K) (hs : s ≠ 0)
    (hz : ∀ i j, (B.get z).get i j = if i = j then s else 0) :
    (∀ b, (toHerm B L).get z b = 0) ↔ ∀ b, (act L (B.get b)).toM.trace = 0 := by
  have hs' : star s ≠ 0 := by simpa using hs
  constructor
  · intro h b
    have := h b
    rw [toHerm_row0 B L z b s hz] at this
    exact (mul_eq_zero.mp this).resolve_left hs'
  · intro h b
    rw [toHerm_row0 B L z b s hz, h b, mul_zero]
end row0

/-! ## GKSL action and trace preservation of the rebuilt generator -/
section gkslthm
variable {K : Type} [Field K] [StarRing K] [CharZero K] [HasI K] {d : Nat}

/-- C18 `gksl_action` (general form): the comp-basis generator of `generate_hs_from_hjk` acts on every
matrix `ρ` as `−i(Hρ − ρH†) + (Jρ + ρJ†) + Σ K_ab B_{a+1} ρ B_{b+1}†`. -/
theorem gksl_action_hjk (B : Basis K d) (h j : Mat K d d) (k : Mat K (d * d - 1) (d * d - 1))
    (rho : Mat K d d) :
    (act (cbFromHjk B h j k) rho).toM =
      (-(ii : K)) • (h.toM * rho.toM - rho.toM * h.toMᴴ) + (j.toM * rho.toM + rho.toM * j.toMᴴ)
      + ∑ a, ∑ b, k.get a b • (Bm B (suc a) * rho.toM * (Bm B (suc b))ᴴ) :=
  act_cbFromHjk B h j k rho

/-- C18 `gksl_action`: the generator of `generate_hs_from_hk` (J computed from K through the table
`basishermitian_basis_T_from_1`) acts, for Hermitian `H` and `K`, exactly as the GKSL equation prescribes:
`−i[H,ρ] + Σ_ab K_ab (B_a ρ B_b† − ½{B_b†B_a, ρ})` (indices over `basis[1:]`); no assumption on the basis. -/
theorem gksl_action_hk (B : Basis K d) (h : Mat K d d) (k : Mat K (d * d - 1) (d * d - 1))
    (hh : h.toMᴴ = h.toM) (hk : ∀ a b, star (k.get b a) = k.get a b) (rho : Mat K d d) :
    (act (cbFromHk B h k) rho).toM =
      (-(ii : K)) • (h.toM * rho.toM - rho.toM * h.toM)
      + ∑ a, ∑ b, k.get a b • (Bm B (suc a) * rho.toM * (Bm B (suc b))ᴴ
          - (1 / (two : K)) • ((Bm B (suc b))ᴴ * Bm B (suc a) * rho.toM
                              + rho.toM * ((Bm B (suc b))ᴴ * Bm B (suc a)))) := by
  rw [cbFromHk_eq, act_cbFromHjk, jMatFromKMat_conjTranspose B k hk, hh, jMatFromKMat_toM, add_assoc]
  congr 1
  simp only [Matrix.smul_mul, Matrix.mul_smul, Matrix.sum_mul, Matrix.mul_sum, Finset.smul_sum,
    ← Finset.sum_add_distrib]
  refine Finset.sum_congr rfl fun a _ => Finset.sum_congr rfl fun b _ => ?_
  module

/-- C18 "built from (H, K) ⇒ trace preserving": the GKSL generator annihilates the trace of every `ρ`. -/
theorem from_hk_trace_zero (B : Basis K d) (h : Mat K d d) (k : Mat K (d * d - 1) (d * d - 1))
    (hh : h.toMᴴ = h.toM) (hk : ∀ a b, star (k.get b a) = k.get a b) (rho : Mat K d d) :
    (act (cbFromHk B h k) rho).toM.trace = 0 :=
  trace_act_cbFromHk B h k hh hk rho

/-- C18 "built from (H, K) ⇒ first row zero": the first row of the Hermitian-basis matrix of `generate_hs_from_hk` before
the float truncation vanishes (any field). The verdict statement for the executed builder — truncation included, `is_tp`
returns `true` — is `hsFromHk_isTp` below. -/
theorem from_hk_row0 (B : Basis K d) (h : Mat K d d) (k : Mat K (d * d - 1) (d * d - 1))
    (hh : h.toMᴴ = h.toM) (hk : ∀ a b, star (k.get b a) = k.get a b)
    (z b : Fin (d * d)) (s : K) (hz : ∀ i j, (B.get z).get i j = if i = j then s else 0) :
    (toHerm B (cbFromHk B h k)).get z b = 0 := by
  rw [toHerm_row0 B _ z b s hz, trace_act_cbFromHk B h k hh hk, mul_zero]
end gkslthm


/-! ## the index glue of the extraction loops, regenerated from the source -/
section glue
variable {K : Type} [Field K] [StarRing K] [HasI K] {d : Nat}

/-- C18 tie to the source (`calc_h_mat`): the executed loop — the generic loop instantiated with the constants that
`translate` regenerates from `effective_lindbladian.py` on every run (loop range `basis`, `kron(B,1) − kron(1, B.conj())`,
coefficient `1j/(2 dim)`) — is `Σ_α hCoef(α) · B_α` over the WHOLE basis, in every dimension. A source edit of the
range, sign, conjugation or coefficient changes `QGen/C18.lean` and breaks this proof. -/
theorem calc_h_mat_glue (B : Basis K d) (L : Mat K (d * d) (d * d)) :
    calcHMatCb B L = msum (d * d) fun a => (B.get a).smul (hCoef B L a) :=
  calcHMatCb_eq_ref B L

/-- C18 tie to the source (`calc_j_mat`): range `enumerate(basis)` (not `basis[1:]`, D12), `+`, `B.conj()`,
coefficient `1/(2 dim (1+δ))` with `δ = 1` exactly on element 0. -/
theorem calc_j_mat_glue (B : Basis K d) (L : Mat K (d * d) (d * d)) :
    calcJMatCb B L = msum (d * d) fun a => (B.get a).smul (jCoef B L a (decide (a.val = 0))) :=
  calcJMatCb_eq_ref B L

/-- C18 tie to the source (`calc_k_mat`): both loops over `basis[1:]`, second factor conjugated. -/
theorem calc_k_mat_glue (B : Basis K d) (L : Mat K (d * d) (d * d)) (a b : Fin (d * d - 1)) :
    (calcKMatCb B L).get a b = trMul L (kron (B.get (suc a)) (conjM (B.get (suc b)))) :=
  calcKMatCb_get B L a b
end glue

/-! ## extraction ∘ rebuild -/
section extractthm
variable {K : Type} [Field K] [StarRing K] [CharZero K] [HasI K] {d : Nat}

/-- C18 `extract_rebuild` (K): `calc_k_mat` of the generator rebuilt from Hermitian `(H, J, K)` is `K`
(orthonormal Hermitian basis with `B_0 = s·1`; the coded index range `basis[1:]` on both axes). -/
theorem extract_k_of_rebuild (B : Basis K d) (z : Fin (d * d)) (s : K) (hB : ONH0 B z s)
    (h j : Mat K d d) (k : Mat K (d * d - 1) (d * d - 1)) (hh : h.toMᴴ = h.toM) (hj : j.toMᴴ = j.toM) :
    calcKMatCb B (cbFromHjk B h j k) = k := by
  apply Mat.ext'; intro a b
  rw [calcKMatCb_get]
  rw [trMul_cbFromHjk_kron B h j k hh hj hB.herm, conjM_toM_of_herm _ (hB.herm (suc b))]
  simp only [toM_get_eq_Bm, Matrix.trace_transpose, hB.trace_suc, mul_zero, zero_mul, sub_self,
    add_zero, hB.orth, hB.orth_T, suc_eq_iff]
  simp

/-- C18 `extract_rebuild` (H), coefficient form: the coefficient that `calc_h_mat` gives to `B_a` is
`tr(H B_a) − tr(B_a)·tr(H)/d`, i.e. the coefficient of the traceless part of `H` (needs `ii² = −1`). -/
theorem extract_h_coef (B : Basis K d) (z : Fin (d * d)) (s : K) (hB : ONH0 B z s)
    (hii : (ii : K) * ii = -1)
    (h j : Mat K d d) (k : Mat K (d * d - 1) (d * d - 1)) (hh : h.toMᴴ = h.toM) (hj : j.toMᴴ = j.toM)
    (a : Fin (d * d)) :
    hCoef B (cbFromHjk B h j k) a = (h.toM * Bm B a).trace - (Bm B a).trace * h.toM.trace / (d : K) := by
  simp only [hCoef]
  rw [trMul_sub_right, pair_left B z s hB h j k hh hj, pair_right B z s hB h j k hh hj]
  have hd := hB.d_ne
  have h2 : (2 : K) ≠ 0 := two_ne_zero
  simp only [two, dK]
  field_simp
  linear_combination (-2 * (d : K) * (h.toM * Bm B a).trace + 2 * (Bm B a).trace * h.toM.trace) * hii

/-- C18 `extract_rebuild` (J), coefficient form: the coefficient that the `calc_j_mat` formula gives to `B_a`
is `(tr(J B_a) + tr(B_a)·tr(J)/d) / (1 + δ)` where `δ = 1` on the element treated as "first". -/
theorem extract_j_coef (B : Basis K d) (z : Fin (d * d)) (s : K) (hB : ONH0 B z s)
    (h j : Mat K d d) (k : Mat K (d * d - 1) (d * d - 1)) (hh : h.toMᴴ = h.toM) (hj : j.toMᴴ = j.toM)
    (a : Fin (d * d)) (first : Bool) :
    jCoef B (cbFromHjk B h j k) a first =
      ((j.toM * Bm B a).trace + (Bm B a).trace * j.toM.trace / (d : K)) / (1 + if first then 1 else 0) := by
  simp only [jCoef]
  rw [trMul_add_right, pair_left B z s hB h j k hh hj, pair_right B z s hB h j k hh hj]
  have hd := hB.d_ne
  have h2 : (2 : K) ≠ 0 := two_ne_zero
  simp only [two, dK]
  cases first
  · simp only [Bool.false_eq_true, if_false, add_zero]
    field_simp
    ring
  · simp only [if_true]
    have h11 : (1 + 1 : K) ≠ 0 := by norm_num
    field_simp
    ring

/-- with the loop of `calc_j_mat` (whole basis, `δ = 1` exactly on the identity element) every coefficient is the
right one: `tr(J B_a)` — including the identity component (this is what the D12 repair restored; with the
former range `basis[1:]` the identity component was lost). -/
theorem extract_j_coef_all (B : Basis K d) (z : Fin (d * d)) (s : K) (hB : ONH0 B z s)
    (h j : Mat K d d) (k : Mat K (d * d - 1) (d * d - 1)) (hh : h.toMᴴ = h.toM) (hj : j.toMᴴ = j.toM)
    (a : Fin (d * d)) :
    jCoef B (cbFromHjk B h j k) a (decide (a.val = 0)) = (j.toM * Bm B a).trace := by
  rw [extract_j_coef B z s hB h j k hh hj]
  have hd := hB.d_ne
  by_cases ha : a = z
  · subst ha
    have h11 : (1 + 1 : K) ≠ 0 := by norm_num
    simp only [hB.z0, decide_true, if_true, hB.b0, Matrix.mul_smul, Matrix.mul_one,
      Matrix.trace_smul, smul_eq_mul, Matrix.trace_one, Fintype.card_fin]
    field_simp
  · have : a.val ≠ 0 := fun h0 => ha (Fin.ext (h0.trans hB.z0.symm))
    simp [this, hB.trace_B, ha]

end extractthm


/-! ## matrix-level extraction, parts sum, the exponential -/
section matthm
variable {K : Type} [Field K] [StarRing K] [CharZero K] [HasI K] {d : Nat}

/-- C18 `extract_rebuild` (H), matrix form: `calc_h_mat` of the generator rebuilt from Hermitian `(H, J, K)`
returns the traceless part of `H` (the identity component of a Hamiltonian does not act). Completeness of the
basis is derived from orthonormality (`complete_of_onh0`). -/
theorem extract_h_of_rebuild (B : Basis K d) (z : Fin (d * d)) (s : K) (hB : ONH0 B z s)
    (hii : (ii : K) * ii = -1)
    (h j : Mat K d d) (k : Mat K (d * d - 1) (d * d - 1)) (hh : h.toMᴴ = h.toM) (hj : j.toMᴴ = j.toM) :
    (calcHMatCb B (cbFromHjk B h j k)).toM = h.toM - (h.toM.trace / (d : K)) • (1 : Matrix (Fin d) (Fin d) K) := by
  have hc := complete_of_onh0 B z s hB
  rw [calcHMatCb_toM]
  simp only [extract_h_coef B z s hB hii h j k hh hj, sub_smul, Finset.sum_sub_distrib]
  rw [← hc h.toM]
  congr 1
  conv_rhs => rw [hc (1 : Matrix (Fin d) (Fin d) K), Finset.smul_sum]
  apply Finset.sum_congr rfl; intro a _
  rw [Matrix.one_mul, smul_smul]
  congr 1
  ring

/-- C18 `extract_rebuild` (J): `calc_j_mat` of the generator rebuilt from Hermitian `(H, J, K)` returns `J`
(whole matrix, identity component included). -/
theorem extract_j_of_rebuild (B : Basis K d) (z : Fin (d * d)) (s : K) (hB : ONH0 B z s)
    (h j : Mat K d d) (k : Mat K (d * d - 1) (d * d - 1)) (hh : h.toMᴴ = h.toM) (hj : j.toMᴴ = j.toM) :
    (calcJMatCb B (cbFromHjk B h j k)).toM = j.toM := by
  rw [calcJMatCb_toM]
  simp only [extract_j_coef_all B z s hB h j k hh hj]
  exact (complete_of_onh0 B z s hB j.toM).symm

/-- C18 `parts_sum` (`_partial`: only for generators of the form `rebuild(H, J, K)`, comp basis): for every generator rebuilt from Hermitian `(H, J, K)` the h-, j- and k-parts computed
from the extracted matrices (`calc_h_part + calc_j_part + calc_k_part`, comp basis) act exactly as the generator
itself, on every `ρ`, in every dimension. (That every Hermiticity-preserving generator is of the form
`rebuild(H, J, K)` is not formalised; the oracle checks the clause on generic real `hs` as well.) -/
theorem parts_sum_partial (B : Basis K d) (z : Fin (d * d)) (s : K) (hB : ONH0 B z s)
    (hii : (ii : K) * ii = -1)
    (h j : Mat K d d) (k : Mat K (d * d - 1) (d * d - 1)) (hh : h.toMᴴ = h.toM) (hj : j.toMᴴ = j.toM)
    (rho : Mat K d d) :
    let L := cbFromHjk B h j k
    (act (((hPart (calcHMatCb B L)).add (jPart (calcJMatCb B L))).add (kPart B (calcKMatCb B L))) rho).toM
      = (act L rho).toM := by
  intro L
  have hc : star (h.toM.trace / (d : K)) = h.toM.trace / (d : K) := by
    rw [star_div₀, ← Matrix.trace_conjTranspose, hh, star_natCast]
  rw [act_add, act_add, act_hPart, act_jPart, act_kPart, act_cbFromHjk,
    extract_k_of_rebuild B z s hB h j k hh hj, extract_h_of_rebuild B z s hB hii h j k hh hj,
    extract_j_of_rebuild B z s hB h j k hh hj]
  congr 2
  rw [Matrix.conjTranspose_sub, Matrix.conjTranspose_smul, Matrix.conjTranspose_one, hc, hh]
  simp only [Matrix.sub_mul, Matrix.mul_sub, Matrix.smul_mul, Matrix.mul_smul, Matrix.one_mul,
    Matrix.mul_one]
  congr 1
  abel

end matthm

/-! ## the executed path: extraction goes through `convert_hs` to the comp basis and back -/
section execpath
variable {K : Type} [Field K] [StarRing K] [CharZero K] [HasI K] {d : Nat}

/-- C18 `extract_rebuild` on the object the code actually holds: the HS matrix `hs = convert_hs(L_cb, comp, basis)` of the
rebuilt generator. `calc_k_mat`, `calc_h_mat`, `calc_j_mat` first convert `hs` back (`toComp`); for an orthonormal basis
that round trip is the identity (`toComp_toHerm`), so the extracted matrices are `(K, H − tr H/d, J)`. (Before the
float truncation `_truncate_hs`, which the correspondence ties.) -/
theorem extract_of_rebuild_hs (B : Basis K d) (z : Fin (d * d)) (s : K) (hB : ONH0 B z s) (hii : (ii : K) * ii = -1)
    (h j : Mat K d d) (k : Mat K (d * d - 1) (d * d - 1)) (hh : h.toMᴴ = h.toM) (hj : j.toMᴴ = j.toM) :
    calcKMat B (toHerm B (cbFromHjk B h j k)) = k ∧
    (calcHMat B (toHerm B (cbFromHjk B h j k))).toM
        = h.toM - (h.toM.trace / (d : K)) • (1 : Matrix (Fin d) (Fin d) K) ∧
    (calcJMat B (toHerm B (cbFromHjk B h j k))).toM = j.toM := by
  simp only [calcKMat, calcHMat, calcJMat, toComp_toHerm B z s hB]
  exact ⟨extract_k_of_rebuild B z s hB h j k hh hj, extract_h_of_rebuild B z s hB hii h j k hh hj,
    extract_j_of_rebuild B z s hB h j k hh hj⟩

/-- the round trip itself, as a property theorem: `convert_hs` to the Hermitian basis and back is the identity. -/
theorem convert_hs_roundtrip (B : Basis K d) (z : Fin (d * d)) (s : K) (hB : ONH0 B z s)
    (L : Mat K (d * d) (d * d)) : toComp B (toHerm B L) = L :=
  toComp_toHerm B z s hB L
end execpath

/-! ## parts sum as an equality of matrices, in both basis modes -/
section partsmodes
variable {K : Type} [Field K] [StarRing K] [CharZero K] [HasI K] {d : Nat}

/-- C18 `parts_sum`, comp-basis mode, as an EQUALITY OF MATRICES (`_partial`: generators of the form `rebuild(H, J, K)`):
`calc_h_part + calc_j_part + calc_k_part` (mode `comp_basis`) of the extracted matrices is the generator itself — a
comp-basis superoperator is determined by its action (`act_ext`). -/
theorem parts_sum_comp_partial (B : Basis K d) (z : Fin (d * d)) (s : K) (hB : ONH0 B z s) (hii : (ii : K) * ii = -1)
    (h j : Mat K d d) (k : Mat K (d * d - 1) (d * d - 1)) (hh : h.toMᴴ = h.toM) (hj : j.toMᴴ = j.toM) :
    let L := cbFromHjk B h j k
    ((hPart (calcHMatCb B L)).add (jPart (calcJMatCb B L))).add (kPart B (calcKMatCb B L)) = L := by
  intro L
  exact act_ext _ _ (fun rho => parts_sum_partial B z s hB hii h j k hh hj rho)

/-- C18 `parts_sum`, mode `hermitian_basis` (`_partial`: rebuilt generators; before the float truncation of each part):
the three parts converted to the Hermitian basis (`convert_hs(part, comp_basis, basis)`, additive) sum to the HS matrix
`hs = convert_hs(L_cb, comp_basis, basis)` of the generator — "in either basis". -/
theorem parts_sum_herm_partial (B : Basis K d) (z : Fin (d * d)) (s : K) (hB : ONH0 B z s) (hii : (ii : K) * ii = -1)
    (h j : Mat K d d) (k : Mat K (d * d - 1) (d * d - 1)) (hh : h.toMᴴ = h.toM) (hj : j.toMᴴ = j.toM) :
    let hs := toHerm B (cbFromHjk B h j k)
    ((toHerm B (hPart (calcHMat B hs))).add (toHerm B (jPart (calcJMat B hs)))).add
        (toHerm B (kPart B (calcKMat B hs))) = hs := by
  intro hs
  simp only [hs, calcHMat, calcJMat, calcKMat, toComp_toHerm B z s hB]
  rw [← toHerm_add, ← toHerm_add, parts_sum_comp_partial B z s hB hii h j k hh hj]
end partsmodes

/-! ## the executed scalars: the theorems above hold literally for the driver's instance `CRat` -/
section execinst
variable {d : Nat}

/-- C18: `CRat` (the complex rationals the driver computes with; every float is one) is a field with involution and
`ii² = −1` (`QProofs/C18.lean`, built from the model's own `Add/Mul/Div/…` instances), so every theorem of this file
stated for an arbitrary `[Field K] [StarRing K] [CharZero K]` is a theorem about the executed functions. Instance: -/
theorem extract_of_rebuild_hs_exec (B : Basis CRat d) (z : Fin (d * d)) (s : CRat) (hB : ONH0 B z s)
    (h j : Mat CRat d d) (k : Mat CRat (d * d - 1) (d * d - 1)) (hh : h.toMᴴ = h.toM) (hj : j.toMᴴ = j.toM) :
    calcKMat B (toHerm B (cbFromHjk B h j k)) = k :=
  (extract_of_rebuild_hs B z s hB CRat.ii_mul_ii h j k hh hj).1

/-- C18 inequality projection, dissipator of the result: `calc_proj_ineq_constraint` rebuilds from the extracted
`(h, j)` and the clipped `K' = clipK λ V`; for Hermitian `(h, j)` the dissipator matrix of the rebuilt generator — what a
later `is_cp` looks at — is exactly `K'` (executed instance, before truncation). -/
theorem projIneq_dissipator (B : Basis CRat d) (z : Fin (d * d)) (s : CRat) (hB : ONH0 B z s)
    (h j : Mat CRat d d) (lam : Vec CRat (d * d - 1)) (V : Mat CRat (d * d - 1) (d * d - 1))
    (hh : h.toMᴴ = h.toM) (hj : j.toMᴴ = j.toM) :
    calcKMat B (toHerm B (cbFromHjk B h j (clipK lam V))) = clipK lam V :=
  extract_of_rebuild_hs_exec B z s hB h j _ hh hj

open scoped ComplexOrder in
/-- C18 inequality projection "returns a physical-dissipator generator": the clipped matrix
`V·diag(λ with negatives zeroed)·Vᴴ` is positive semidefinite (as a complex matrix) whenever the eigenvalues numpy returned
are real — for ANY `V`, all sizes. -/
theorem clipK_psd {n : Nat} (lam : Vec CRat n) (V : Mat CRat n n) (hre : ∀ i, (lam.get i).im = 0) :
    (mapC (clipK lam V)).PosSemidef :=
  mapC_clipK_psd lam V hre

/-- C18 inequality projection "leaves physical generators unchanged" (`_partial`: the K-level statement): if no
eigenvalue is negative nothing is clipped, the rebuilt dissipator matrix is `V·diag(λ)·Vᴴ` — numpy's reconstruction of the
extracted `K` itself. Together with `parts_sum_partial` (rebuild of the extracted `(h, j, K)` acts as the generator) this is
the fixed-point property; the eigen-decomposition contract `K = V diag λ Vᴴ` and the float truncation are not modelled. -/
theorem clipK_fix_partial {n : Nat} (lam : Vec CRat n) (V : Mat CRat n n) (h : ∀ i, cltZero (lam.get i) = false) :
    clipK lam V = (V.mul (diagC lam)).mul (adj V) := by
  unfold clipK
  have : (Vec.ofFn fun i => if cltZero (lam.get i) then (0 : CRat) else lam.get i) = lam := by
    apply Vec.ext'; intro i; simp [h i]
  rw [this]

/-- C18 inequality projection "leaves physical generators unchanged", AT THE GENERATOR LEVEL (executed instance, before the
float truncation and the Hermitian guards): let `hs` be the HS matrix of a generator rebuilt from Hermitian `(h, j)` and any
`k`; under the contract of `numpy.linalg.eig` — `V·diag(λ)·Vᴴ` reproduces `calc_k_mat(hs)` — and no negative eigenvalue,
the generator that `calc_proj_ineq_constraint` rebuilds from `(calc_h_mat, calc_j_mat, clipped K)` has the SAME HS matrix. -/
theorem projIneq_fixed_point (B : Basis CRat d) (z : Fin (d * d)) (s : CRat) (hB : ONH0 B z s)
    (h j : Mat CRat d d) (k : Mat CRat (d * d - 1) (d * d - 1)) (hh : h.toMᴴ = h.toM) (hj : j.toMᴴ = j.toM)
    (lam : Vec CRat (d * d - 1)) (V : Mat CRat (d * d - 1) (d * d - 1))
    (heig : (V.mul (diagC lam)).mul (adj V) = calcKMat B (toHerm B (cbFromHjk B h j k)))
    (hpos : ∀ i, cltZero (lam.get i) = false) :
    let hs := toHerm B (cbFromHjk B h j k)
    toHerm B (cbFromHjk B (calcHMat B hs) (calcJMat B hs) (clipK lam V)) = hs := by
  intro hs
  have hclip : clipK lam V = calcKMat B hs := by rw [clipK_fix_partial lam V hpos, heig]
  rw [hclip]
  have := parts_sum_comp_partial B z s hB CRat.ii_mul_ii h j k hh hj
  simp only [hs, calcHMat, calcJMat, calcKMat, toComp_toHerm B z s hB]
  unfold cbFromHjk at this ⊢
  rw [this]

/-- C18 constructor guards: `EffectiveLindbladian(c_sys, hs, …)` is accepted iff the basis is orthonormal Hermitian with
`B_0 ∝ 1`, `hs` is a square float64 matrix whose size is the square of `c_sys.dim`, and — only when physicality is
required — the verdict `is_tp and is_cp` holds. -/
theorem ctorCheck_ok_iff (bok : Bool) (rows cols : Nat) (isf : Bool) (cd : Nat) (req phys : Bool) :
    ctorCheck bok rows cols isf cd req phys = .ok () ↔
      bok = true ∧ rows = cols ∧ Nat.sqrt rows * Nat.sqrt rows = rows ∧ isf = true ∧ Nat.sqrt rows = cd ∧
        (req = true → phys = true) := by
  unfold ctorCheck
  by_cases h1 : rows = cols
  · subst h1
    cases bok <;> cases isf <;> cases req <;> cases phys <;> split_ifs <;> simp_all
  · cases bok <;> simp [h1]

/-- … and the error raised is that of the FIRST violated condition in the order of the code (basis, square, square number,
dtype, dimension, physicality); e.g. a non-physical matrix of the wrong dimension reports the dimension. -/
theorem ctorCheck_error_order (rows cols : Nat) (isf : Bool) (cd : Nat) (req phys : Bool) :
    ctorCheck false rows cols isf cd req phys = .error .basisNotOnh0 ∧
    (rows ≠ cols → ctorCheck true rows cols isf cd req phys = .error .notSquare) ∧
    (Nat.sqrt rows * Nat.sqrt rows ≠ rows → ctorCheck true rows rows isf cd req phys = .error .dimNotSquare) ∧
    (Nat.sqrt rows * Nat.sqrt rows = rows → ctorCheck true rows rows false cd req phys = .error .notReal) ∧
    (Nat.sqrt rows * Nat.sqrt rows = rows → Nat.sqrt rows ≠ cd →
      ctorCheck true rows rows true cd req phys = .error .dimMismatch) ∧
    (Nat.sqrt rows * Nat.sqrt rows = rows → Nat.sqrt rows = cd →
      ctorCheck true rows rows true cd true false = .error .notPhysical) := by
  refine ⟨by simp [ctorCheck], ?_, ?_, ?_, ?_, ?_⟩ <;> intros <;> simp_all [ctorCheck]

example : ctorCheck true 9 9 true 2 true false = .error .dimMismatch := by decide +kernel
example : ctorCheck true 4 4 true 2 false false = .ok () := by decide +kernel

/-- C18 `is_cp` verdict wiring: `mutil.is_positive_semidefinite(k, atol)` with numpy's `eigvalsh` result as a parameter is
`true` iff `k` is Hermitian within `atol` (entrywise modulus) and every eigenvalue is within `atol` of 0 or non-negative;
`isCp` applies it to `calc_k_mat` of the generator. -/
theorem isPsdVerdict_iff {n : Nat} (k : Mat CRat n n) (eigs : List Rat) (atol : Rat) :
    isPsdVerdict k eigs atol = true ↔ isHermitian k atol = true ∧ ∀ e ∈ eigs, rabs e ≤ atol ∨ 0 ≤ e := by
  simp [isPsdVerdict, Bool.and_eq_true, List.all_eq_true]

theorem isCp_iff (B : Basis CRat d) (hs : Mat Rat (d * d) (d * d)) (eigs : List Rat) (atol : Rat) :
    isCp B hs eigs atol = true ↔
      isHermitian (calcKMat B (embed hs)) atol = true ∧ ∀ e ∈ eigs, rabs e ≤ atol ∨ 0 ≤ e :=
  isPsdVerdict_iff _ _ _

/-- `choiCb` is the Choi matrix of the action: entry `((i,k),(j,l))` is `Φ(E_ij)[k,l]`. -/
theorem choiCb_get (L : Mat CRat (d * d) (d * d)) (i j k l : Fin d) :
    (choiCb L).get (pr i k) (pr j l)
      = (act L (Mat.ofFn fun a b => if a = i ∧ b = j then 1 else 0)).get k l := by
  simp only [choiCb, Mat.get_ofFn, p1_pr, p2_pr, act_get]
  rw [Finset.sum_eq_single i, Finset.sum_eq_single j] <;> simp_all

/-- C18 "built from (H, K) ⇒ judged TP", executed functions: if `generate_hs_from_hk` (model `hsFromHk`, exact Hermitian
`h`, `k`, basis with `B_0 = s·1`) returns `M`, then `is_tp(M)` holds for every `atol ≥ 0` — the float truncation keeps
zeros. -/
theorem hsFromHk_isTp (B : Basis CRat d) (h : Mat CRat d d) (k : Mat CRat (d * d - 1) (d * d - 1))
    (hh : h.toMᴴ = h.toM) (hk : ∀ a b, star (k.get b a) = k.get a b)
    (z : Fin (d * d)) (hz0 : z.val = 0) (s : CRat) (hz : ∀ i j, (B.get z).get i j = if i = j then s else 0)
    (eps atol atol' : Rat) (hat : 0 ≤ atol') (M : Mat Rat (d * d) (d * d))
    (hM : hsFromHk B h k eps atol = .ok M) : isTp M atol' = true := by
  have hrow : ∀ b, (toHerm B (cbFromHk B h k)).get z b = 0 := fun b => from_hk_row0 B h k hh hk z b s hz
  have hT : truncateHs (toHerm B (cbFromHk B h k)) eps = .ok M := by
    by_cases h1 : isHermitian h atol = true <;> by_cases h2 : isHermitian k atol = true <;>
      simp [hsFromHk, h1, h2, bind, Except.bind] at hM
    exact hM
  unfold truncateHs at hT
  split_ifs at hT with hbad
  injection hT with hT
  subst hT
  rw [isTp_iff]
  intro i j hi
  have hiz : i = z := Fin.ext (hi.trans hz0.symm)
  subst hiz
  have hre : ((toHerm B (cbFromHk B h k)).get i j).re = 0 := by rw [hrow j]; rfl
  simp [hre, rabs, hat]
end execinst

example : QGen.C18.kLoopStartRow = 1 ∧ QGen.C18.kLoopStartCol = 1 := ⟨rfl, rfl⟩

/-- non-degenerate instance (one qubit, normalised Pauli basis `σ_a/√2` over `ℂ`, `H = X`, `J = 1`, `K = 1₃`): the
extraction theorems, the parts sum and the CP criterion with all sums non-empty -/
example := extract_of_rebuild_hs basisPauli _ sP onh0_basisPauli Complex.I_mul_I matX Mat.one
  (Mat.one : Mat ℂ (2 * 2 - 1) (2 * 2 - 1)) matX_herm (by simp)
example := parts_sum_partial basisPauli _ sP onh0_basisPauli Complex.I_mul_I matX Mat.one
  (Mat.one : Mat ℂ (2 * 2 - 1) (2 * 2 - 1)) matX_herm (by simp) matX
example := gksl_action_hk basisPauli matX (Mat.one : Mat ℂ (2 * 2 - 1) (2 * 2 - 1)) matX_herm (by intro a b; simp [eq_comm]) matX

/-- the executed-instance theorems on a NON-DEGENERATE executed basis: two qubits, `σ_a ⊗ σ_b / 2` over `CRat`
(`onh0_basisPauli2`, kernel-checked), `H = J = 1₄`, `K = 1₁₅` (`λ = (1,…,1)`, `V = 1`: the eig contract holds exactly) -/
example : calcKMat basisPauli2 (toHerm basisPauli2 (cbFromHjk basisPauli2 Mat.one Mat.one (Mat.one : Mat CRat (4 * 4 - 1) (4 * 4 - 1))))
    = Mat.one :=
  extract_of_rebuild_hs_exec basisPauli2 _ _ onh0_basisPauli2 Mat.one Mat.one Mat.one (by simp) (by simp)
example (lam : Vec CRat (4 * 4 - 1)) (V : Mat CRat (4 * 4 - 1) (4 * 4 - 1)) :=
  projIneq_dissipator basisPauli2 _ _ onh0_basisPauli2 Mat.one Mat.one lam V (by simp) (by simp)
example :
    let lam : Vec CRat (4 * 4 - 1) := Vec.ofFn fun _ => 1
    let hs := toHerm basisPauli2 (cbFromHjk basisPauli2 Mat.one Mat.one (diagC lam))
    toHerm basisPauli2 (cbFromHjk basisPauli2 (calcHMat basisPauli2 hs) (calcJMat basisPauli2 hs) (clipK lam Mat.one)) = hs := by
  intro lam hs
  have hd : (diagC lam).toMᴴ = (diagC lam).toM := by
    apply Matrix.ext; intro i j
    by_cases h : i = j
    · subst h; simp only [Matrix.conjTranspose_apply, Mat.toM_apply, diagC, Mat.get_ofFn, if_true, lam, Vec.get_ofFn]; rfl
    · have h' : ¬ j = i := fun e => h e.symm
      simp [diagC, Matrix.conjTranspose_apply, h, h']
  exact projIneq_fixed_point basisPauli2 _ _ onh0_basisPauli2 Mat.one Mat.one (diagC lam) (by simp) (by simp) lam Mat.one
    (by rw [one_mul_diagC_adj_one]
        exact (extract_of_rebuild_hs_exec basisPauli2 _ _ onh0_basisPauli2 Mat.one Mat.one (diagC lam) (by simp) (by simp)).symm)
    (by intro i; simp [lam, Vec.get_ofFn, cltZero])
example (M : Mat Rat (4 * 4) (4 * 4))
    (hM : hsFromHk basisPauli2 Mat.one (Mat.one : Mat CRat (4 * 4 - 1) (4 * 4 - 1)) 0 0 = .ok M) : isTp M 0 = true :=
  hsFromHk_isTp basisPauli2 Mat.one Mat.one (by simp) (by intro a b; by_cases h : a = b <;> simp [Mat.one, h, eq_comm])
    ⟨0, by decide⟩ rfl (⟨1/2, 0⟩ : CRat) (by decide +kernel) 0 0 0 le_rfl M hM

/-! ## what the jump-operator builders do, and the H-only / K-only builders -/
section jumpthm
variable {K : Type} [Field K] [StarRing K] [CharZero K] [HasI K] {d : Nat}

/-- C18 jump operators, k part (positive statement, any non-empty list — 1..d² and beyond): `generate_k_part_cb_from_jump_operators`
acts as `ρ ↦ Σ_c c ρ c†`. -/
theorem jump_k_part_action (c : Mat K d d) (cs : List (Mat K d d)) (rho : Mat K d d) :
    ∃ L, kPartCbFromJump (c :: cs) = some L ∧
      (act L rho).toM = ((c :: cs).map fun x => x.toM * rho.toM * x.toMᴴ).sum := by
  obtain ⟨L, hL, hact⟩ := act_lsumM_map (fun x => kron x (conjM x)) c cs rho
  refine ⟨L, hL, ?_⟩
  rw [hact]
  congr 1
  apply List.map_congr_left; intro x _
  rw [act_kron, toM_conjM_transpose]

/-- C18 jump operators, j part AS CODED (D13): `generate_j_part_cb_from_jump_operators` acts as `ρ ↦ −½ Σ_c (cρ + ρc†)` — built
from `c`, not from `c†c`. -/
theorem jump_j_part_action_coded (c : Mat K d d) (cs : List (Mat K d d)) (rho : Mat K d d) :
    ∃ L, jPartCbFromJump (c :: cs) = some L ∧
      (act L rho).toM = (-(1 / (two : K))) • ((c :: cs).map fun x => x.toM * rho.toM + rho.toM * x.toMᴴ).sum := by
  obtain ⟨L, hL, hact⟩ := act_lsumM_map (fun x => (kron x Mat.one).add (kron Mat.one (conjM x))) c cs rho
  refine ⟨L.smul (-(1 / two)), by unfold jPartCbFromJump; rw [hL]; rfl, ?_⟩
  rw [act_smul, hact]
  congr 2
  apply List.map_congr_left; intro x _
  rw [act_add, act_kron_one_right, act_kron_one_left, toM_conjM_transpose]

/-- the GKSL anti-commutator part (the specification side of D13): `ρ ↦ −½ Σ_c (c†c ρ + ρ c†c)`. -/
theorem jump_j_part_action_gksl (c : Mat K d d) (cs : List (Mat K d d)) (rho : Mat K d d) :
    ∃ L, jPartCbFromJumpGksl (c :: cs) = some L ∧
      (act L rho).toM = (-(1 / (two : K))) •
        ((c :: cs).map fun x => x.toMᴴ * x.toM * rho.toM + rho.toM * (x.toMᴴ * x.toM)).sum := by
  obtain ⟨L, hL, hact⟩ := act_lsumM_map
    (fun x => (kron ((adj x).mul x) Mat.one).add (kron Mat.one (conjM ((adj x).mul x)))) c cs rho
  refine ⟨L.smul (-(1 / two)), by unfold jPartCbFromJumpGksl; rw [hL]; rfl, ?_⟩
  rw [act_smul, hact]
  congr 2
  apply List.map_congr_left; intro x _
  rw [act_add, act_kron_one_right, act_kron_one_left, toM_conjM_transpose, Mat.toM_mul, toM_adj,
    Matrix.conjTranspose_mul, Matrix.conjTranspose_conjTranspose]

/-- C18 `generate_hs_from_h`: the H-only builder acts as `ρ ↦ −i(Hρ − ρH†)` (`= −i[H,ρ]` for Hermitian `H`). -/
theorem from_h_action (h rho : Mat K d d) :
    (act (cbFromH h) rho).toM = (-(ii : K)) • (h.toM * rho.toM - rho.toM * h.toMᴴ) :=
  act_hPart h rho

/-- C18 `generate_hs_from_k`: the K-only builder is the `(H, K)` builder at `H = 0`. -/
theorem from_k_action (B : Basis K d) (k : Mat K (d * d - 1) (d * d - 1)) (rho : Mat K d d) :
    (act (cbFromK B k) rho).toM = (act (cbFromHk B Mat.zero k) rho).toM := by
  unfold cbFromK cbFromHk
  rw [act_add, act_add, act_add, act_hPart]
  simp
end jumpthm

section cpthm
open scoped ComplexOrder
variable {d : Nat}

/-- C18 `cp_iff_K_psd` (the completely-positive part of the verdict, for the jump part of the generator): for an
orthonormal Hermitian basis the Choi matrix of `ρ ↦ Σ_ab K_ab B_a ρ B_b†` (the model's `kPart`, the table
`basis_basisconjugate_T_sparse_from_1`) is `V K Vᴴ` with `VᴴV = 1`; hence that map is completely positive iff the
dissipator matrix `K` — what `is_cp` tests through `calc_k_mat` — is positive semidefinite. All dimensions.
(`⇐` needs no assumption on the basis. That `exp(tL)` is CP for all `t ≥ 0` iff `K` is PSD — Lindblad's theorem —
is not formalised.) -/
theorem cp_iff_K_psd (B : Basis ℂ d) (z : Fin (d * d)) (s : ℂ) (hB : ONH0 B z s)
    (k : Mat ℂ (d * d - 1) (d * d - 1)) :
    (choiCb (kPart B k)).toM.PosSemidef ↔ k.toM.PosSemidef :=
  ⟨psd_of_choiCb_kPart_psd B z s hB k, choiCb_kPart_psd B k⟩

/-- the `⇐` direction for ANY basis: a PSD dissipator matrix gives a completely positive jump part. -/
theorem kPart_cp_of_K_psd (B : Basis ℂ d) (k : Mat ℂ (d * d - 1) (d * d - 1)) (hk : k.toM.PosSemidef) :
    (choiCb (kPart B k)).toM.PosSemidef :=
  choiCb_kPart_psd B k hk
end cpthm

open scoped ComplexOrder in
example : ((choiCb (kPart basis1 (Mat.zero : Mat ℂ (1 * 1 - 1) (1 * 1 - 1)))).toM.PosSemidef ↔
    (Mat.zero : Mat ℂ (1 * 1 - 1) (1 * 1 - 1)).toM.PosSemidef) :=
  cp_iff_K_psd basis1 _ 1 onh0_basis1 _

open scoped ComplexOrder in
example : (choiCb (kPart basisPauli (Mat.one : Mat ℂ (2 * 2 - 1) (2 * 2 - 1)))).toM.PosSemidef :=
  (cp_iff_K_psd basisPauli _ sP onh0_basisPauli _).mpr (by simpa using Matrix.PosSemidef.one)

section expthm
variable {R : Type} [Field R] {n : Nat}

/-- C18 `exp_tp`, series form (any field, literally the executed instance `ℚ`): if the first row of `L`
vanishes, the first row of every partial sum `Σ_{k≤N} L^k/k!` is `e₀` — for all `N` and all sizes. `to_gate`
uses scipy's `expm`, tied to this series by the correspondence check; the limit statement is `exp_tp` below.
Complete positivity of `exp(L)` (Lindblad's theorem) is not proved at all. -/
theorem exp_series_tp (L : Mat R n n) (z : Fin n) (hL : ∀ j, L.get z j = 0) (N : Nat) (j : Fin n) :
    (expSeries L N).get z j = if z = j then 1 else 0 :=
  (expLoop_row0 L z hL N).2 j
end expthm

section expmathlib
open NormedSpace
open scoped Matrix.Norms.Operator

/-- C18 `exp_tp`: for Mathlib's matrix exponential (`NormedSpace.exp`, the limit of the series): if the first
row of the generator `L` vanishes then the first row of `exp L` is `e₀` — the gate obtained by exponentiating a
trace-annihilating generator is trace preserving, in every dimension. (Proof: `e₀ᵀ Lᵏ = 0` for `k ≥ 1` and
continuity of the entry functional applied to the exponential series.) -/
theorem exp_tp {n : Nat} (L : Mat ℝ n n) (z : Fin n) (hL : ∀ j, L.get z j = 0) (j : Fin n) :
    (exp L.toM) z j = if z = j then 1 else 0 :=
  exp_row0 L.toM z (fun j => by simpa using hL j) j

/-- the executed truncated series `expSeries L N` (the model's independent reference for `to_gate`) is the
`N`-th partial sum of the series defining Mathlib's `exp L`. -/
theorem expSeries_eq_partial_sum {n : Nat} (L : Mat ℝ n n) (N : Nat) :
    (expSeries L N).toM = ∑ i ∈ Finset.range (N + 1), ((i.factorial : ℝ)⁻¹) • L.toM ^ i :=
  (expLoop_toM L N).2
end expmathlib


/-! ## the hypotheses are satisfiable

`ONH0`/`Complete` are what the implementation checks at construction time
(`is_orthonormal_hermitian_0thprop_identity`) and what the harness re-checks numerically for every basis it
uses (normalised Pauli, Gell-Mann, their tensor products and random rotations of them; these need `√2`,
`√3`, so the kernel-checked instance below is the one-dimensional one over `ℂ`). -/
section examples

example : (ii : ℂ) * ii = -1 := Complex.I_mul_I

/-- D13 (negation witness for "built from jump operators ⇒ acts as GKSL prescribes"): as coded, the
anti-commutator part is built from `c` instead of `c†c`; for `c = (2)` the coded generator is `ρ ↦ 2ρ`
while the GKSL dissipator `cρc† − ½{c†c, ρ}` vanishes. -/
theorem jump_operators_gksl_fails :
    ¬ ∀ (d : Nat) (cs : List (Mat ℂ d d)), dPartCbFromJump cs = dPartCbFromJumpGksl cs := by
  intro h
  have h1 := congrArg (Option.map fun L => L.get ⟨0, by decide⟩ ⟨0, by decide⟩) (h 1 [c2])
  have e1 : (dPartCbFromJump [c2]).map (fun L => L.get ⟨0, by decide⟩ ⟨0, by decide⟩) = some 2 := by
    simp [dPartCbFromJump, jPartCbFromJump, kPartCbFromJump, lsumM, c2, two, kron, conjM, Mat.smul,
      Mat.add, Mat.one, conj_eq_star, Mat.get_ofFn]
    rw [show (starRingEnd ℂ) 2 = 2 from map_ofNat _ 2]
    norm_num
  have e2 : (dPartCbFromJumpGksl [c2]).map (fun L => L.get ⟨0, by decide⟩ ⟨0, by decide⟩) = some 0 := by
    simp [dPartCbFromJumpGksl, jPartCbFromJumpGksl, kPartCbFromJump, lsumM, c2, two, kron, conjM, adj,
      Mat.smul, Mat.add, Mat.mul, Mat.one, conj_eq_star, Mat.get_ofFn, fsum_eq_sum]
    rw [show (starRingEnd ℂ) 2 = 2 from map_ofNat _ 2]
    norm_num
  rw [e1, e2] at h1
  norm_num at h1

/-- `extract_j_of_rebuild` instantiated: in dimension 1 `calc_j_mat` of the generator `ρ ↦ 2ρ` (`J = 1`) is `J`. -/
example : (calcJMatCb basis1 (cbFromHjk basis1 Mat.zero Mat.one Mat.zero)).toM = (Mat.one : Mat ℂ 1 1).toM :=
  extract_j_of_rebuild basis1 _ 1 onh0_basis1 _ _ _ (by simp) (by simp)
end examples

end QM.C18
