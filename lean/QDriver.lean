import QDriver.Dispatch
