import QGen.C13
import QModel.C13
/-!
# C13 — interpretation of the generated attribute tables (QGen/C13.lean, regenerated from /repo on every run)

Executable predicates that say what the C13 state machines assume about the classes they stand for; QProps/C13.lean proves
them about the generated tables (`decide`), so a source edit that violates the discipline breaks a proof obligation.
-/
namespace QM.C13.Gen
open QGen.C13

/-! ## CompositeSystem caches -/

def keyOfAttr : String → Option Key
  | "_basis_basisconjugate" => some .bbc
  | "_dict_from_hs_to_choi" => some .hs2choi
  | "_dict_from_choi_to_hs" => some .choi2hs
  | "_basis_T_sparse" => some .bT
  | "_basisconjugate_sparse" => some .bconj
  | "_basisconjugate_basis_sparse" => some .bconjb
  | "_basis_basisconjugate_T_sparse" => some .bbcT
  | "_basis_basisconjugate_T_sparse_from_1" => some .bbcT1
  | "_basishermitian_basis_T_from_1" => some .bhbT1
  | _ => none

/-- a generated getter entry `(method, tested attribute, attributes built on the None branch)` agrees with the model: the
tested attribute is a cache key `k` and the builder assigns exactly the tables of `k`'s group -/
def getterOk (e : String × String × List String) : Bool :=
  match keyOfAttr e.2.1 with
  | none => false
  | some k =>
      e.2.2.all (fun a => match keyOfAttr a with | some j => decide (j.grp = k.grp) | none => false) &&
      Key.all.all (fun j => !decide (j.grp = k.grp) || e.2.2.any (fun a => keyOfAttr a == some j))

/-- a generated delete entry resets exactly one attribute, a deletable cache key -/
def deleteOk (e : String × List String) : Bool :=
  match e.2 with
  | [a] => match keyOfAttr a with | some k => k.deletable | none => false
  | _ => false

/-! ## which methods may bind attributes of self -/

/-- the declared mutators: every method other than a constructor that binds attributes of its object. These are exactly the
setters the state machines model (loss / algorithm configuration, Settings, cache getters / deletes), the documented
in-place methods (`set_zero`, `set_mode_proj_order`, `set_mode_sampling`, the `eps_truncate_imaginary_part` setter, the
Experiment list setters, `reset_seed_data`) and the constructors' helpers (`_set_coeffs`). -/
def declaredMutators : List (String × String) := [
  ("QOperation", "set_mode_proj_order"), ("QOperation", "eps_truncate_imaginary_part"),
  ("State", "set_zero"), ("Povm", "set_zero"), ("Gate", "set_zero"), ("MProcess", "set_zero"),
  ("MProcess", "set_mode_sampling"),
  ("CompositeSystem", "basis_basisconjugate"), ("CompositeSystem", "dict_from_hs_to_choi"),
  ("CompositeSystem", "delete_dict_from_hs_to_choi"), ("CompositeSystem", "dict_from_choi_to_hs"),
  ("CompositeSystem", "delete_dict_from_choi_to_hs"), ("CompositeSystem", "_calc_basis_sparse"),
  ("CompositeSystem", "delete_basis_T_sparse"), ("CompositeSystem", "delete_basisconjugate_sparse"),
  ("CompositeSystem", "_calc_basis_basisconjugate_sparse"), ("CompositeSystem", "delete_basisconjugate_basis_sparse"),
  ("CompositeSystem", "delete_basis_basisconjugate_T_sparse"),
  ("CompositeSystem", "delete_basis_basisconjugate_T_sparse_from_1"),
  ("CompositeSystem", "delete_basishermitian_basis_T_from_1"),
  ("Settings", "set_atol"),
  ("Experiment", "states"), ("Experiment", "povms"), ("Experiment", "gates"), ("Experiment", "mprocesses"),
  ("Experiment", "schedules"), ("Experiment", "reset_seed_data"),
  ("StandardQst", "_set_coeffs"), ("StandardPovmt", "_set_coeffs"), ("StandardQpt", "_set_coeffs"),
  ("StandardQmpt", "_set_coeffs"),
  ("LossFunction", "_reset_on_value"), ("LossFunction", "_set_on_value"), ("LossFunction", "_reset_on_gradient"),
  ("LossFunction", "_set_on_gradient"), ("LossFunction", "_reset_on_hessian"), ("LossFunction", "_set_on_hessian"),
  ("LossFunction", "set_from_option"),
  ("ProbabilityBasedLossFunction", "set_func_prob_dists"), ("ProbabilityBasedLossFunction", "_set_on_func_prob_dists"),
  ("ProbabilityBasedLossFunction", "set_func_gradient_prob_dists"),
  ("ProbabilityBasedLossFunction", "set_func_hessian_prob_dists"), ("ProbabilityBasedLossFunction", "set_prob_dists_q"),
  ("ProbabilityBasedLossFunction", "set_func_prob_dists_from_standard_qt"),
  ("WeightedProbabilityBasedSquaredError", "set_weight_matrices"), ("WeightedRelativeEntropy", "set_weights"),
  ("StandardQTomographyBasedWeightedProbabilityBasedSquaredError", "_calc_extend_weight_matrix"),
  ("StandardQTomographyBasedWeightedProbabilityBasedSquaredError", "set_prob_dists_q"),
  ("StandardQTomographyBasedWeightedProbabilityBasedSquaredError", "set_func_prob_dists_from_standard_qt"),
  ("StandardQTomographyBasedWeightedProbabilityBasedSquaredError", "set_func_gradient_prob_dists_from_standard_qt"),
  ("StandardQTomographyBasedWeightedRelativeEntropy", "_calc_extend_weights"),
  ("StandardQTomographyBasedWeightedRelativeEntropy", "set_prob_dists_q"),
  ("StandardQTomographyBasedWeightedRelativeEntropy", "set_func_prob_dists_from_standard_qt"),
  ("StandardQTomographyBasedWeightedRelativeEntropy", "set_func_gradient_prob_dists_from_standard_qt"),
  ("MinimizationAlgorithm", "set_from_loss"), ("MinimizationAlgorithm", "set_from_option"),
  ("ProjectedGradientDescent", "set_constraint_from_standard_qt_and_option")]

/-- methods that may operate in place on a container held by their object: constructors and their helpers filling the
object's own fresh containers, and the cache builders filling the dictionary they have just created -/
def declaredInplace : List (String × String) := [
  ("MultinomialDistribution", "__init__"),
  ("CompositeSystem", "basis_basisconjugate"), ("CompositeSystem", "dict_from_hs_to_choi"),
  ("CompositeSystem", "dict_from_choi_to_hs"),
  ("StandardQst", "_set_coeffs"), ("StandardPovmt", "_set_coeffs"), ("StandardQpt", "_set_coeffs"),
  ("StandardQmpt", "_set_coeffs")]

/-- functions the may-analysis reports although they write into a fresh array only: the written name is re-bound to a
copy (`copy.deepcopy(var)` in the branch that writes; `matrix = np.where(…)`) before the write — the analysis is
flow-insensitive -/
def declaredParamWriters : List (String × String) := [
  ("quara/objects/gate.py", "calc_proj_eq_constraint_with_var"),
  ("quara/objects/state.py", "calc_proj_eq_constraint_with_var"),
  ("quara/utils/matrix_util.py", "truncate_and_normalize")]

def writerOk (e : String × String × List String) : Bool :=
  e.2.1 == "__init__" || declaredMutators.contains (e.1, e.2.1)

/-! ## derived caches follow their source attribute (method resolution + call closure over the generated event lists)

Every lookup is `Option`-valued: a class or method missing from the tables, or an exhausted call depth, makes the whole
closure `none`, and `cacheFollows` demands `some`. -/

def basesOf? (c : String) : Option (List String) := (objBases.find? (·.1 == c)).map (·.2)
def methodsOf? (c : String) : Option (List String) := (objMethods.find? (·.1 == c)).map (·.2)

/-- linearised ancestry (single inheritance among the scanned classes), the class itself first -/
def mro : Nat → String → Option (List String)
  | 0, _ => none
  | n + 1, c => do
      let bs ← basesOf? c
      match bs with
      | [] => some [c]
      | b :: _ => (mro n b).map (c :: ·)

/-- the class of `chain` whose definition of `m` is executed, and the classes after it (for `super()`) -/
def resolve (m : String) : List String → Option (String × List String)
  | [] => none
  | c :: rest => do
      let ms ← methodsOf? c
      if ms.contains m then some (c, rest) else resolve m rest

/-- events of method `m` of class `c` (a method that binds nothing and calls nothing has no entry: empty list) -/
def eventsOf (c m : String) : List (String × String) :=
  ((objEvents.find? (fun e => e.1 == c && e.2.1 == m)).map (·.2.2)).getD []

/-- attributes bound, **in evaluation order**, when `m` is called on an object of class `cls` (dynamic dispatch from `cls`
for self-calls, continuation of the ancestry for `super().m`). `none`: unknown class / method, or call depth exhausted. -/
def effWrites (cls : String) (full : List String) : Nat → List String → String → Option (List String)
  | 0, _, _ => none
  | fuel + 1, chain, m => do
      let (c, rest) ← resolve m chain
      let parts ← (eventsOf c m).mapM fun ev =>
        if ev.1 == "w" then some [ev.2]
        else if ev.1 == "c" then effWrites cls full fuel full ev.2
        else if ev.1 == "s" then effWrites cls full fuel rest ev.2
        else none
      some parts.flatten

def lastIdx (a : String) (l : List String) : Option Nat :=
  (l.zipIdx.filter (·.1 == a)).getLast?.map (·.2)

/-- (class, source attribute, cache derived from it, the cache is recomputed from the *attribute* — so it has to be bound
after the source — rather than from the same argument) -/
def derivedCaches : List (String × String × String × Bool) := [
  ("StandardQTomographyBasedWeightedProbabilityBasedSquaredError", "_weight_matrices", "_extend_weight_matrix", true),
  ("StandardQTomographyBasedWeightedProbabilityBasedSquaredError", "_prob_dists_q", "_prob_dists_q_flat", false),
  ("StandardQTomographyBasedWeightedRelativeEntropy", "_prob_dists_q", "_prob_dists_q_flat", false),
  ("StandardQTomographyBasedWeightedRelativeEntropy", "_weights", "_extend_weights", true)]

/-- every method of the class (own or inherited, constructors excepted) whose closure binds the source also binds the
cache — after the last binding of the source when the cache is computed from the attribute; the closure must be defined -/
def cacheFollows (e : String × String × String × Bool) : Bool :=
  match mro 8 e.1 with
  | none => false
  | some full =>
      match full.mapM methodsOf? with
      | none => false
      | some mss =>
          mss.flatten.all fun m =>
            m == "__init__" ||
              (match effWrites e.1 full 8 full m with
               | none => false
               | some w =>
                   match lastIdx e.2.1 w, lastIdx e.2.2.1 w with
                   | none, _ => true
                   | some _, none => false
                   | some i, some j => !e.2.2.2 || i < j)

/-! ## weighting modes -/

def branchAction (tbl : List (List String × String)) (m : String) : Option String :=
  (tbl.find? (·.1.contains m)).map (·.2)

/-- an accepted mode string has a branch, the branch is not `pass`, and it is the action the model's `lstep` performs -/
def modeHandled (tbl : List (List String × String)) (m : String) : Bool :=
  match branchAction tbl m, modeOfString m with
  | some a, some md => a == md.action && a != "keep"
  | _, _ => false

/-- name of the setter a model operation stands for, and its guard in `set_from_standard_qtomography_option_data` -/
def LOp.name {A Q W : Type} : LOp A Q W → String × String
  | .setOption _ _ => ("set_from_option", "always")
  | .setQ _ => ("set_prob_dists_q", "always")
  | .setFuncProb _ => ("set_func_prob_dists_from_standard_qt", "always")
  | .setFuncGrad _ => ("set_func_gradient_prob_dists_from_standard_qt", "is_gradient_required")
  | .setWeightsByMode _ _ => ("_set_weights_by_mode", "always")

/-! ## algorithm object -/

def factoryName {QT : Type} : Proj QT → String
  | .physical _ _ _ => "func_calc_proj_physical_with_var"
  | .eq _ => "func_calc_proj_eq_constraint_with_var"
  | .ineq _ => "func_calc_proj_ineq_constraint_with_var"
  | .self => "proj_to_self"

/-- the factory the generated if / elif / else chain selects for the two flags -/
def genFactory (onEq onIneq : Bool) : Option String :=
  match pgdBranches.find? (fun b => b.1 == some (onEq, onIneq)) with
  | some b => some b.2.1
  | none => (pgdBranches.find? (fun b => b.1 == none)).map (·.2.1)

end QM.C13.Gen
