import QModel.C15
import Mathlib.Tactic.Ring
import Mathlib.LinearAlgebra.Matrix.PosDef
import Mathlib.Analysis.RCLike.Basic
/-!
# C15 — helper lemmas: loops over repetitions, lookup in result maps, batches, the check's quantifier structure
-/
namespace QM.C15

/-! ## repetition loop -/
section loop
variable {S G D : Type}

theorem loopS_gen (P : Prng S G D) (glob : G) (n : Nat) :
    ∀ g : G, loopS P n (.gen g) glob
      = ((List.range n).map (fun k => (P.draw (advance P k g)).1), .gen (advance P n g), glob) := by
  induction n with
  | zero => intro g; rfl
  | succ n ih =>
      intro g
      simp only [loopS, rep, ih, List.range_succ_eq_map, List.map_cons, List.map_map]
      rfl

theorem loopS_none (P : Prng S G D) (n : Nat) :
    ∀ glob : G, loopS P n .none glob
      = ((List.range n).map (fun k => (P.draw (advance P k glob)).1), .none, advance P n glob) := by
  induction n with
  | zero => intro g; rfl
  | succ n ih =>
      intro g
      simp only [loopS, rep, ih, List.range_succ_eq_map, List.map_cons, List.map_map]
      rfl

theorem loopS_int (P : Prng S G D) (s : S) (glob : G) (n : Nat) :
    loopS P n (.int s) glob = (List.replicate n (P.draw (P.ofSeed s)).1, .int s, glob) := by
  induction n with
  | zero => rfl
  | succ n ih => simp [loopS, rep, ih, List.replicate_succ]

theorem loop_int (P : Prng S G D) (s : S) (glob : G) (n : Nat) :
    loop P n (.int s) glob
      = ((List.range n).map (fun k => (P.draw (advance P k (P.ofSeed s))).1), .int s, glob) := by
  simp [loop, toStream, loopS_gen]

theorem loop_gen (P : Prng S G D) (glob : G) (n : Nat) (g : G) :
    loop P n (.gen g) glob
      = ((List.range n).map (fun k => (P.draw (advance P k g)).1), .gen (advance P n g), glob) := by
  simp [loop, toStream, loopS_gen]

theorem loop_none (P : Prng S G D) (n : Nat) (glob : G) :
    loop P n .none glob
      = ((List.range n).map (fun k => (P.draw (advance P k glob)).1), .none, advance P n glob) := by
  simp [loop, toStream, loopS_none]

end loop

/-! ## result maps -/

theorem lookup_execute {R : Type} (task : Nat → R) (sched : List Nat) (j : Nat) :
    (execute task sched).lookup j = if j ∈ sched then some (task j) else none := by
  induction sched with
  | nil => simp [execute]
  | cons i r ih =>
      simp only [execute, List.map_cons, List.lookup_cons, List.mem_cons] at ih ⊢
      by_cases h : j = i
      · subst h; simp
      · have : (j == i) = false := by simpa using h
        simp [this, h, ih]

theorem runBatch_pure {R St : Type} (task : Nat → St → R × St) (s0 : St)
    (hp : ∀ i s s', (task i s).1 = (task i s').1) (sched : List Nat) :
    ∀ s, runBatch task s sched = execute (fun i => (task i s0).1) sched := by
  induction sched with
  | nil => intro s; rfl
  | cons i r ih =>
      intro s
      simp only [runBatch, execute, List.map_cons]
      rw [ih]; simp [execute, hp i s s0]

theorem runBatches_pure {R St : Type} (task : Nat → St → R × St) (s0 : St)
    (hp : ∀ i s s', (task i s).1 = (task i s').1) (batches : List (List Nat)) :
    runBatches task s0 batches = execute (fun i => (task i s0).1) batches.flatten := by
  unfold runBatches
  induction batches with
  | nil => rfl
  | cons b bs ih =>
      simp only [List.map_cons, List.flatten_cons, ih, runBatch_pure task s0 hp b s0]
      simp [execute]

theorem lookup_runBatch_pure {R St : Type} (task : Nat → St → R × St) (s0 : St)
    (hp : ∀ i s s', (task i s).1 = (task i s').1) (sched : List Nat) (s : St) (i : Nat) (hi : i ∈ sched) :
    (runBatch task s sched).lookup i = some (task i s0).1 := by
  rw [runBatch_pure task s0 hp sched s, lookup_execute, if_pos hi]

theorem storedEstimates_pure {D E St : Type} (est : D → St → E × St) (s0 : St)
    (hp : ∀ d s s', (est d s).1 = (est d s').1) (ds : List D) :
    ∀ s, storedEstimates est s ds = ds.map fun d => (est d s0).1 := by
  induction ds with
  | nil => intro s; rfl
  | cons d ds ih => intro s; simp [storedEstimates, ih, hp d s s0]

/-! ## the check's quantifier structure -/

theorem rowsPass_spec (f : Verdict → Bool) (k : Nat) (rs : List (List Verdict))
    (hlen : ∀ r ∈ rs, k < r.length) :
    ∃ b, rowsPass f k rs = some b ∧ (b = true ↔ ∀ r ∈ rs, ∀ v, r[k]? = some v → f v = true) := by
  induction rs with
  | nil => exact ⟨true, rfl, by simp⟩
  | cons r rs ih =>
      obtain ⟨b, hb, hiff⟩ := ih (fun x hx => hlen x (by simp [hx]))
      have hk : k < r.length := hlen r (by simp)
      have hget : r[k]? = some r[k] := List.getElem?_eq_getElem hk
      refine ⟨f r[k] && b, by simp [rowsPass, hget, hb], ?_⟩
      simp only [Bool.and_eq_true, hiff, List.mem_cons, forall_eq_or_imp, hget, Option.some.injEq,
        forall_eq']

theorem allPassFrom_spec (f : Verdict → Bool) (rs : List (List Verdict)) (ks : List Nat)
    (hlen : ∀ k ∈ ks, ∀ r ∈ rs, k < r.length) :
    ∃ b, allPassFrom f rs ks = some b ∧
      (b = true ↔ ∀ k ∈ ks, ∀ r ∈ rs, ∀ v, r[k]? = some v → f v = true) := by
  induction ks with
  | nil => exact ⟨true, rfl, by simp⟩
  | cons k ks ih =>
      obtain ⟨b, hb, hiff⟩ := ih (fun x hx => hlen x (by simp [hx]))
      obtain ⟨a, ha, haiff⟩ := rowsPass_spec f k rs (hlen k (by simp))
      refine ⟨a && b, by simp [allPassFrom, ha, hb], ?_⟩
      simp only [Bool.and_eq_true, hiff, haiff, List.mem_cons, forall_eq_or_imp]

theorem allPass_spec (f : Verdict → Bool) (nNum : Nat) (rs : List (List Verdict))
    (hlen : ∀ r ∈ rs, r.length = nNum) :
    ∃ b, allPass f nNum rs = some b ∧ (b = true ↔ ∀ r ∈ rs, ∀ v ∈ r, f v = true) := by
  obtain ⟨b, hb, hiff⟩ := allPassFrom_spec f rs (List.range nNum)
    (fun k hk r hr => by rw [hlen r hr]; simpa using hk)
  refine ⟨b, hb, hiff.trans ?_⟩
  constructor
  · intro h r hr v hv
    obtain ⟨k, hk, hkv⟩ := List.getElem_of_mem hv
    exact h k (by simpa [← hlen r hr] using hk) r hr v (by rw [List.getElem?_eq_getElem hk, hkv])
  · intro h k _ r hr v hv
    exact h r hr v (List.mem_of_getElem? hv)

theorem rowsPass_short (f : Verdict → Bool) (k : Nat) (rs : List (List Verdict))
    (h : ∃ r ∈ rs, r.length ≤ k) : rowsPass f k rs = none := by
  induction rs with
  | nil => obtain ⟨r, hr, _⟩ := h; cases hr
  | cons x xs ih =>
      obtain ⟨r, hr, hk⟩ := h
      simp only [List.mem_cons] at hr
      rcases hr with rfl | hr
      · have : r[k]? = none := List.getElem?_eq_none hk
        simp [rowsPass, this]
      · have := ih ⟨r, hr, hk⟩
        simp only [rowsPass, this]
        cases x[k]? <;> rfl

theorem allPassFrom_short (f : Verdict → Bool) (rs : List (List Verdict)) (ks : List Nat)
    (h : ∃ k ∈ ks, rowsPass f k rs = none) : allPassFrom f rs ks = none := by
  induction ks with
  | nil => obtain ⟨k, hk, _⟩ := h; cases hk
  | cons x xs ih =>
      obtain ⟨k, hk, hn⟩ := h
      simp only [List.mem_cons] at hk
      rcases hk with rfl | hk
      · simp [allPassFrom, hn]
      · have := ih ⟨k, hk, hn⟩
        simp only [allPassFrom, this]
        cases rowsPass f x rs <;> rfl

theorem allPass_short (f : Verdict → Bool) (nNum : Nat) (rs : List (List Verdict))
    (h : ∃ r ∈ rs, r.length < nNum) : allPass f nNum rs = none := by
  obtain ⟨r, hr, hlt⟩ := h
  exact allPassFrom_short f rs _ ⟨r.length, List.mem_range.mpr hlt, rowsPass_short f _ rs ⟨r, hr, Nat.le_refl _⟩⟩

/-! ## depolarising noise over a commutative ring -/
section depol
variable {K : Type} [CommRing K]

theorem depolDiag_length (n : Nat) (p : K) : (depolDiag n p).length = n := by simp [depolDiag]

theorem depolVec_eq_mixVec (p : K) (v : List K) : depolVec p v = mixVec p v := by
  apply List.ext_getElem
  · simp [depolVec, mixVec, depolDiag]
  · intro i h1 h2
    simp only [depolVec, mixVec, depolDiag, List.getElem_zipWith, List.getElem_map, List.getElem_range,
      List.getElem_zipIdx, Nat.zero_add]
    by_cases h : i = 0
    · simp [h]; ring
    · simp [h]

end depol

end QM.C15
