import QModel.C20
set_option linter.unusedSimpArgs false
set_option linter.unusedVariables false
/-!
# C20 — helper lemmas (no Mathlib needed: list / decision-logic reasoning only)
-/
namespace QM.C20

instance instDecEqExcept {ε α : Type} [DecidableEq ε] [DecidableEq α] : DecidableEq (Except ε α) := fun a b =>
  match a, b with
  | .ok x, .ok y => if h : x = y then isTrue (by rw [h]) else isFalse (fun h' => by cases h'; exact h rfl)
  | .error x, .error y => if h : x = y then isTrue (by rw [h]) else isFalse (fun h' => by cases h'; exact h rfl)
  | .ok _, .error _ => isFalse (fun h => by cases h)
  | .error _, .ok _ => isFalse (fun h => by cases h)

/-! ## items -/

/-- the pair is acceptable for `validateItem`: known kind, list exists, index in range -/
def PairOk (T : Tables) (L : Lists) (p : String × Int) : Prop :=
  T.kinds.contains p.1 = true ∧ ∃ l, L.get? p.1 = some l ∧ 0 ≤ p.2 ∧ p.2 < (l.length : Int)

def mkPair (p : String × Int) : Item := Item.mk p.1 p.2

theorem validateItem_ok_iff (T : Tables) (L : Lists) (it : Item) (n : String) :
    validateItem T L it = .ok n ↔ ∃ i, it = Item.mk n i ∧ PairOk T L (n, i) := by
  constructor
  · intro h
    unfold validateItem at h
    split at h
    · cases h
    · rename_i name idx
      split at h
      · rename_i s
        split at h
        · rename_i i
          split at h
          · cases h
          · rename_i hk
            split at h
            · cases h
            · rename_i l hl
              split at h
              · cases h
              · split at h
                · rename_i hr
                  injection h with h; subst h
                  exact ⟨i, rfl, by simpa using hk, l, hl, hr.1, hr.2⟩
                · cases h
        · cases h
      · cases h
    · cases h
  · rintro ⟨i, rfl, hk, l, hl, h0, h1⟩
    have hne : l.isEmpty = false := by
      cases l with
      | nil => simp at h1; omega
      | cons a t => rfl
    simp only [validateItem, Item.mk]
    simp only [show T.kinds.contains n = true from hk, hl, hne, Bool.and_false]
    simp [h0, h1]

theorem validateItems_ok_iff (T : Tables) (L : Lists) (its : List Item) (j : Nat) (names : List String) :
    validateItems T L its j = .ok names ↔
      ∃ ps : List (String × Int), its = ps.map mkPair ∧ names = ps.map (·.1) ∧ ∀ p ∈ ps, PairOk T L p := by
  induction its generalizing j names with
  | nil =>
    simp only [validateItems]
    constructor
    · intro h; injection h with h; subst h; exact ⟨[], rfl, rfl, by simp⟩
    · rintro ⟨ps, h1, h2, _⟩
      cases ps with
      | nil => simp [h2]
      | cons a t => simp at h1
  | cons it rest ih =>
    simp only [validateItems]
    constructor
    · intro h
      split at h
      · cases h
      · rename_i n hn
        split at h
        · cases h
        · rename_i ns hns
          injection h with h; subst h
          obtain ⟨i, hi, hp⟩ := (validateItem_ok_iff T L it n).1 hn
          obtain ⟨ps, h1, h2, h3⟩ := (ih (j + 1) ns).1 hns
          refine ⟨(n, i) :: ps, ?_, ?_, ?_⟩
          · simp [mkPair, hi, h1]
          · simp [h2]
          · intro p hp'
            rcases List.mem_cons.1 hp' with rfl | hp'
            · exact hp
            · exact h3 p hp'
    · rintro ⟨ps, h1, h2, h3⟩
      cases ps with
      | nil => simp at h1
      | cons p t =>
        simp only [List.map_cons, List.cons.injEq] at h1
        obtain ⟨h1a, h1b⟩ := h1
        have hp : validateItem T L it = .ok p.1 :=
          (validateItem_ok_iff T L it p.1).2 ⟨p.2, by rw [h1a]; rfl, h3 p (by simp)⟩
        have hr : validateItems T L rest (j + 1) = .ok (t.map (·.1)) :=
          (ih (j + 1) _).2 ⟨t, h1b, rfl, fun q hq => h3 q (by simp [hq])⟩
        rw [hp]; simp only [hr, h2, List.map_cons]

/-- an item error reports the position of the *first* failing item, with that item's exception -/
theorem validateItems_error (T : Tables) (L : Lists) (its : List Item) (j j' : Nat) (e : PyExc)
    (h : validateItems T L its j = .error (j', e)) :
    ∃ pre it post, its = pre ++ it :: post ∧ j' = j + pre.length ∧ validateItem T L it = .error e ∧
      ∀ x ∈ pre, ∃ n, validateItem T L x = .ok n := by
  induction its generalizing j with
  | nil => simp [validateItems] at h
  | cons it rest ih =>
    simp only [validateItems] at h
    split at h
    · rename_i e' he
      injection h with h
      injection h with h1 h2
      subst h1; subst h2
      exact ⟨[], it, rest, rfl, by simp, he, by simp⟩
    · rename_i n hn
      split at h
      · rename_i e' he
        injection h with h; subst h
        obtain ⟨pre, x, post, h1, h2, h3, h4⟩ := ih (j + 1) he
        refine ⟨it :: pre, x, post, by simp [h1], by simp [h2]; omega, h3, ?_⟩
        intro y hy
        rcases List.mem_cons.1 hy with rfl | hy
        · exact ⟨n, hn⟩
        · exact h4 y hy
      · cases h

/-! ## order -/

def LimitsOk (names : List String) (limits : List (String × Nat)) : Prop :=
  ∀ p ∈ limits, names.count p.1 < p.2

theorem checkLimits_ok_iff (names : List String) (limits : List (String × Nat)) :
    checkLimits names limits = .ok () ↔ LimitsOk names limits := by
  induction limits with
  | nil => simp [checkLimits, LimitsOk]
  | cons p t ih =>
    obtain ⟨k, n⟩ := p
    simp only [checkLimits, LimitsOk, List.mem_cons, forall_eq_or_imp]
    split
    · rename_i h
      constructor
      · intro h'; cases h'
      · rintro ⟨h1, _⟩; omega
    · rename_i h
      rw [ih]
      exact ⟨fun h' => ⟨by omega, h'⟩, fun h' => h'.2⟩

theorem checkLimits_ne_pyIndex (names : List String) (limits : List (String × Nat)) :
    checkLimits names limits ≠ .error .pyIndex := by
  induction limits with
  | nil => simp [checkLimits]
  | cons p t ih =>
    obtain ⟨k, n⟩ := p
    simp only [checkLimits]
    split
    · intro h; cases h
    · exact ih

/-- generic statement of the order rule for arbitrary tables with `minLen ≥ 1` -/
def OrderOk (T : Tables) (names : List String) : Prop :=
  T.minLen ≤ names.length ∧ names.head? = some T.firstKind ∧
    (∃ l, names.getLast? = some l ∧ T.lastKinds.contains l = true) ∧ LimitsOk names T.limits

theorem validateOrder_ok_iff (T : Tables) (hT : 1 ≤ T.minLen) (names : List String) :
    validateOrder T names = .ok () ↔ OrderOk T names := by
  unfold validateOrder OrderOk
  split
  · rename_i h
    constructor
    · intro h'; cases h'
    · rintro ⟨h1, _⟩; omega
  · rename_i h
    cases names with
    | nil => simp at h; omega
    | cons a t =>
      have hl : ∃ l, (a :: t).getLast? = some l := by
        cases hh : (a :: t).getLast? with
        | none => simp at hh
        | some l => exact ⟨l, rfl⟩
      obtain ⟨l, hl⟩ := hl
      simp only [List.head?_cons, hl]
      split
      · rename_i hf
        constructor
        · intro h'; cases h'
        · rintro ⟨_, h2, _⟩; simp at h2; exact absurd h2 hf
      · rename_i hf
        have hf' : a = T.firstKind := Classical.not_not.1 hf
        split
        · rename_i hlast
          constructor
          · intro h'; cases h'
          · rintro ⟨_, _, ⟨l', h3, h4⟩, _⟩
            simp only [Option.some.injEq] at h3; subst h3
            simp only [List.contains_eq_mem, decide_eq_true_eq] at h4
            simp [h4] at hlast
        · rename_i hlast
          rw [checkLimits_ok_iff]
          constructor
          · intro h'
            exact ⟨by omega, by simp [hf'], ⟨l, rfl, by simpa using hlast⟩, h'⟩
          · exact fun h' => h'.2.2.2

/-! ## schedules -/

/-- generic well-formedness of one schedule w.r.t. arbitrary tables -/
def SchedOk (T : Tables) (L : Lists) (s : Schedule) : Prop :=
  ∃ ps : List (String × Int), s = .items (ps.map mkPair) ∧ (∀ p ∈ ps, PairOk T L p) ∧
    OrderOk T (ps.map (·.1))

theorem schedOk_iff (T : Tables) (hT : 1 ≤ T.minLen) (L : Lists) (its : List Item) :
    SchedOk T L (.items its) ↔
      ∃ names, validateItems T L its 0 = .ok names ∧ validateOrder T names = .ok () := by
  constructor
  · rintro ⟨ps, h1, h2, h3⟩
    injection h1 with h1
    exact ⟨ps.map (·.1), (validateItems_ok_iff T L its 0 _).2 ⟨ps, h1, rfl, h2⟩,
      (validateOrder_ok_iff T hT _).2 h3⟩
  · rintro ⟨names, h1, h2⟩
    obtain ⟨ps, h3, h4, h5⟩ := (validateItems_ok_iff T L its 0 names).1 h1
    exact ⟨ps, by rw [h3], h5, by rw [← h4]; exact (validateOrder_ok_iff T hT _).1 h2⟩

theorem not_schedOk_nonIterable (T : Tables) (L : Lists) : ¬ SchedOk T L .nonIterable := by
  rintro ⟨ps, h, _⟩; cases h

theorem not_schedOk_nonSequence (T : Tables) (L : Lists) (k : NonSeq) (its : List Item) :
    ¬ SchedOk T L (.nonSequence k its) := by
  rintro ⟨ps, h, _⟩; cases h

/-- the items an iterable schedule yields -/
def Schedule.itemsOf? : Schedule → Option (List Item)
  | .items l => some l
  | .nonSequence _ l => some l
  | .nonIterable => none

theorem validateSchedulesAux_ok_iff (T : Tables) (hT : 1 ≤ T.minLen) (L : Lists) (ss : List Schedule)
    (i : Nat) :
    validateSchedulesAux T L ss i = .ok () ↔ ∀ s ∈ ss, SchedOk T L s := by
  induction ss generalizing i with
  | nil => simp [validateSchedulesAux]
  | cons s rest ih =>
    cases s with
    | nonIterable =>
      simp only [validateSchedulesAux, List.mem_cons, forall_eq_or_imp]
      constructor
      · intro h; cases h
      · rintro ⟨h, _⟩; exact absurd h (not_schedOk_nonIterable T L)
    | nonSequence k its =>
      simp only [validateSchedulesAux, List.mem_cons, forall_eq_or_imp]
      constructor
      · intro h
        split at h
        · cases h
        · cases h
        · cases k <;> simp only [] at h <;> (try split at h) <;> cases h
      · rintro ⟨h, _⟩; exact absurd h (not_schedOk_nonSequence T L k its)
    | items its =>
      simp only [validateSchedulesAux, List.mem_cons, forall_eq_or_imp, schedOk_iff T hT L its]
      constructor
      · intro h
        split at h
        · cases h
        · cases h
        · rename_i names hn
          split at h
          · cases h
          · rename_i ho
            exact ⟨⟨names, hn, ho⟩, (ih _).1 h⟩
      · rintro ⟨⟨names, hn, ho⟩, hrest⟩
        simp only [hn, ho]
        exact (ih _).2 hrest

/-- no `KeyError`: every accepted kind is a key of the object dictionary -/
def KindsAreKeys (T : Tables) : Prop :=
  ∀ k, T.kinds.contains k = true → k = "state" ∨ k = "povm" ∨ k = "gate" ∨ k = "mprocess"

theorem get?_isSome_of_key (L : Lists) (k : String)
    (h : k = "state" ∨ k = "povm" ∨ k = "gate" ∨ k = "mprocess") : ∃ l, L.get? k = some l := by
  rcases h with rfl | rfl | rfl | rfl <;> simp [Lists.get?]

theorem validateItem_ne_keyError (T : Tables) (hK : KindsAreKeys T) (L : Lists) (it : Item) :
    validateItem T L it ≠ .error .keyError := by
  intro h
  unfold validateItem at h
  split at h
  · cases h
  · split at h
    · split at h
      · split at h
        · cases h
        · rename_i s _ _ hk
          obtain ⟨l, hl⟩ := get?_isSome_of_key L s (hK s (by simpa using hk))
          rw [hl] at h
          simp only at h
          split at h
          · cases h
          · split at h <;> cases h
      · cases h
    · cases h
  · cases h

theorem validateItems_ne_keyError (T : Tables) (hK : KindsAreKeys T) (L : Lists) (its : List Item)
    (j j' : Nat) : validateItems T L its j ≠ .error (j', .keyError) := by
  intro h
  obtain ⟨_, it, _, _, _, h3, _⟩ := validateItems_error T L its j j' _ h
  exact validateItem_ne_keyError T hK L it h3

/-- what an error of `_validate_schedules` means, for EVERY kind of schedule: the first schedule that is not well formed
decides. A schedule that cannot be iterated gives the item error without an item position; an iterable (sequence or not)
with a malformed item gives the item error at its first failing item; a sequence with fine items gives the order error of
its kinds; an iterable that is not a sequence and whose items are fine gives the order error too. -/
theorem validateSchedulesAux_error (T : Tables) (hT : 1 ≤ T.minLen) (hK : KindsAreKeys T) (L : Lists)
    (ss : List Schedule) (i : Nat) (e : Err)
    (h : validateSchedulesAux T L ss i = .error e) :
    ∃ pre s post, ss = pre ++ s :: post ∧ (∀ x ∈ pre, SchedOk T L x) ∧ ¬ SchedOk T L s ∧
      ((s = .nonIterable ∧ e = .itemNoPos (i + pre.length)) ∨
       (∃ its j ex, s.itemsOf? = some its ∧ e = .item (i + pre.length) j ex ∧ validateItems T L its 0 = .error (j, ex)) ∨
       (∃ its names r, s = .items its ∧ e = .order (i + pre.length) r ∧ validateItems T L its 0 = .ok names ∧
          validateOrder T names = .error r) ∨
       (∃ k its names r, s = .nonSequence k its ∧ e = .order (i + pre.length) r ∧
          validateItems T L its 0 = .ok names)) := by
  induction ss generalizing i with
  | nil => simp [validateSchedulesAux] at h
  | cons s rest ih =>
    cases s with
    | nonIterable =>
      simp only [validateSchedulesAux] at h
      injection h with h; subst h
      exact ⟨[], .nonIterable, rest, rfl, by simp, not_schedOk_nonIterable T L, Or.inl ⟨rfl, by simp⟩⟩
    | nonSequence k its =>
      simp only [validateSchedulesAux] at h
      split at h
      · rename_i j hj
        exact absurd hj (validateItems_ne_keyError T hK L its 0 j)
      · rename_i j ex hne hj
        injection h with h; subst h
        exact ⟨[], .nonSequence k its, rest, rfl, by simp, not_schedOk_nonSequence T L k its,
          Or.inr (Or.inl ⟨its, j, ex, rfl, by simp, hj⟩)⟩
      · rename_i names hn
        have hres : ∃ r, e = .order i r := by
          cases k <;> simp only [] at h <;> (try split at h) <;> injection h with h <;> exact ⟨_, h.symm⟩
        obtain ⟨r, rfl⟩ := hres
        exact ⟨[], .nonSequence k its, rest, rfl, by simp, not_schedOk_nonSequence T L k its,
          Or.inr (Or.inr (Or.inr ⟨k, its, names, r, rfl, by simp, hn⟩))⟩
    | items its =>
      simp only [validateSchedulesAux] at h
      split at h
      · rename_i j hj
        exact absurd hj (validateItems_ne_keyError T hK L its 0 j)
      · rename_i j ex hne hj
        injection h with h; subst h
        refine ⟨[], .items its, rest, rfl, by simp, ?_, Or.inr (Or.inl ⟨its, j, ex, rfl, by simp, hj⟩)⟩
        rw [schedOk_iff T hT]; rintro ⟨names, h1, _⟩; rw [hj] at h1; cases h1
      · rename_i names hn
        split at h
        · rename_i r ho
          injection h with h; subst h
          refine ⟨[], .items its, rest, rfl, by simp, ?_, Or.inr (Or.inr (Or.inl ⟨its, names, r, rfl, by simp, hn, ho⟩))⟩
          rw [schedOk_iff T hT]; rintro ⟨names', h1, h2⟩
          rw [hn] at h1; injection h1 with h1; subst h1; rw [ho] at h2; cases h2
        · rename_i ho
          obtain ⟨pre, s', post, h1, h2, h3, h4⟩ := ih (i + 1) h
          refine ⟨.items its :: pre, s', post, by simp [h1], ?_, h3, ?_⟩
          · intro x hx
            rcases List.mem_cons.1 hx with rfl | hx
            · exact (schedOk_iff T hT L its).2 ⟨names, hn, ho⟩
            · exact h2 x hx
          · have : i + 1 + pre.length = i + (Schedule.items its :: pre).length := by
              simp only [List.length_cons]; omega
            rw [this] at h4; exact h4


/-! ## the rule as the property states it (definitions pinned by `Iff.rfl` theorems in QProps/C20.lean) -/
/-- known kind and in-range integer index -/
def InRange (L : Lists) (p : String × Int) : Prop :=
  (p.1 = "state" ∧ 0 ≤ p.2 ∧ p.2 < (L.state.length : Int)) ∨
  (p.1 = "povm" ∧ 0 ≤ p.2 ∧ p.2 < (L.povm.length : Int)) ∨
  (p.1 = "gate" ∧ 0 ≤ p.2 ∧ p.2 < (L.gate.length : Int)) ∨
  (p.1 = "mprocess" ∧ 0 ≤ p.2 ∧ p.2 < (L.mprocess.length : Int))

/-- order rule on the kinds of a schedule -/
def OrderRule (names : List String) : Prop :=
  2 ≤ names.length ∧ names.head? = some "state" ∧ names.count "state" = 1 ∧ names.count "povm" ≤ 1 ∧
    (names.getLast? = some "povm" ∨ names.getLast? = some "mprocess")

/-- a schedule is well formed: a sequence of `(str, int)` 2-tuples `ps`, each of known kind with in-range index,
obeying the order rule -/
def WellFormed (L : Lists) (s : Schedule) : Prop :=
  ∃ ps : List (String × Int), s = .items (ps.map fun p => Item.mk p.1 p.2) ∧
    (∀ p ∈ ps, InRange L p) ∧ OrderRule (ps.map (·.1))

/-- (T) the generated tables are the ones the property talks about -/
theorem tables_eq0 : tables =
    { kinds := ["state", "povm", "gate", "mprocess"], needNonEmpty := ["povm", "mprocess"], minLen := 2,
      firstKind := "state", lastKinds := ["povm", "mprocess"], limits := [("state", 2), ("povm", 2)] } := rfl

theorem tables_minLen : 1 ≤ tables.minLen := by rw [tables_eq0]; decide

theorem tables_kindsAreKeys : KindsAreKeys tables := by
  intro k hk
  rw [tables_eq0] at hk
  simpa using hk

theorem pairOk_iff_inRange (L : Lists) (p : String × Int) : PairOk tables L p ↔ InRange L p := by
  obtain ⟨k, i⟩ := p
  rw [tables_eq0]
  unfold PairOk InRange
  simp only [List.contains_eq_mem, List.mem_cons, List.not_mem_nil, or_false, decide_eq_true_eq]
  constructor
  · rintro ⟨hk, l, hl, h0, h1⟩
    rcases hk with rfl | rfl | rfl | rfl <;> simp [Lists.get?] at hl <;> subst hl <;> simp [h0, h1]
  · rintro (⟨rfl, h0, h1⟩ | ⟨rfl, h0, h1⟩ | ⟨rfl, h0, h1⟩ | ⟨rfl, h0, h1⟩) <;>
      simp [Lists.get?, h0, h1]

theorem orderOk_iff_orderRule (names : List String) : OrderOk tables names ↔ OrderRule names := by
  rw [tables_eq0]
  unfold OrderOk OrderRule LimitsOk
  simp only [List.contains_eq_mem, List.mem_cons, List.not_mem_nil, or_false, decide_eq_true_eq,
    forall_eq_or_imp, forall_eq, implies_true, and_true]
  constructor
  · rintro ⟨h1, h2, ⟨l, h3, h4⟩, h5, h6⟩
    refine ⟨h1, h2, ?_, by omega, by rcases h4 with rfl | rfl <;> simp [h3]⟩
    cases names with
    | nil => simp at h2
    | cons a t =>
      simp only [List.head?_cons, Option.some.injEq] at h2; subst h2
      simp only [List.count_cons_self] at h5 ⊢; omega
  · rintro ⟨h1, h2, h3, h4, h5⟩
    refine ⟨h1, h2, ?_, by omega, by omega⟩
    rcases h5 with h5 | h5
    · exact ⟨_, h5, Or.inl rfl⟩
    · exact ⟨_, h5, Or.inr rfl⟩

theorem schedOk_iff_wellFormed (L : Lists) (s : Schedule) : SchedOk tables L s ↔ WellFormed L s := by
  unfold SchedOk WellFormed
  constructor
  · rintro ⟨ps, h1, h2, h3⟩
    exact ⟨ps, h1, fun p hp => (pairOk_iff_inRange L p).1 (h2 p hp), (orderOk_iff_orderRule _).1 h3⟩
  · rintro ⟨ps, h1, h2, h3⟩
    exact ⟨ps, h1, fun p hp => (pairOk_iff_inRange L p).2 (h2 p hp), (orderOk_iff_orderRule _).2 h3⟩


theorem accept_iff_wellformed' (L : Lists) (ss : List Schedule) :
    validateSchedules tables L ss = .ok () ↔ ∀ s ∈ ss, WellFormed L s := by
  unfold validateSchedules
  rw [validateSchedulesAux_ok_iff tables tables_minLen]
  exact ⟨fun h s hs => (schedOk_iff_wellFormed L s).1 (h s hs),
    fun h s hs => (schedOk_iff_wellFormed L s).2 (h s hs)⟩

/-! ## tomography classes -/

theorem specs_eq' :
    qstSpec = ⟨[(0, "state"), (1, "povm")], 0, [1, 2, 0, 0], none⟩ ∧
    povmtSpec = ⟨[(0, "state"), (1, "povm")], 1, [2, 1, 0, 0], none⟩ ∧
    qptSpec = ⟨[(0, "state"), (1, "gate"), (2, "povm")], 1, [2, 2, 1, 0], none⟩ ∧
    qmptSpec = ⟨[(0, "state"), (1, "mprocess"), (2, "povm")], 1, [2, 2, 0, 1], some 3⟩ := ⟨rfl, rfl, rfl, rfl⟩



def toSched (ps : List (String × Int)) : Schedule := .items (ps.map fun p => Item.mk p.1 p.2)

theorem mapM_pair? (ps : List (String × Int)) :
    (ps.map fun p => Item.mk p.1 p.2).mapM Item.pair? = some ps := by
  induction ps with
  | nil => rfl
  | cons p t ih =>
    simp only [Item.mk] at ih ⊢
    simp [Item.pair?, ih]

theorem pairs?_toSched (ps : List (String × Int)) : (toSched ps).pairs? = some ps := by
  simp only [toSched, Schedule.pairs?, mapM_pair?]

theorem mapM_pairs?_toSched (pss : List (List (String × Int))) :
    (pss.map toSched).mapM Schedule.pairs? = some pss := by
  induction pss with
  | nil => rfl
  | cons p t ih =>
    simp only [List.map_cons] at ih ⊢
    simp [pairs?_toSched, ih]

/-- the class-specific test on one schedule, independent of its position: the length test (where the class has
one), the positional kind tests, the fixed index -/
def TomoOneOk (sp : TomoSpec) (ps : List (String × Int)) : Prop :=
  (∀ n, sp.len = some n → ps.length = n) ∧ posTests ps sp.pos = some false ∧ ∃ n, ps[sp.zero]? = some (n, 0)

theorem firstTest_false_iff (sp : TomoSpec) (ps : List (String × Int)) :
    firstTest sp ps = some false ↔ (∀ n, sp.len = some n → ps.length = n) ∧ posTests ps sp.pos = some false := by
  unfold firstTest
  cases h : sp.len with
  | none => simp
  | some n =>
    simp only [Option.some.injEq, forall_eq']
    by_cases hl : ps.length = n
    · simp [hl]
    · simp [hl]

theorem tomoValidateOne_ok_iff (sp : TomoSpec) (i : Nat) (ps : List (String × Int)) :
    tomoValidateOne sp i ps = .ok () ↔ TomoOneOk sp ps := by
  unfold tomoValidateOne TomoOneOk
  rw [← and_assoc, ← firstTest_false_iff]
  split
  · simp_all
  · simp_all
  · rename_i h
    simp only [h, true_and]
    split
    · simp_all
    · rename_i n x hx
      split
      · rename_i hne
        simp only [reduceCtorEq, hx, Option.some.injEq, Prod.mk.injEq, false_iff, not_exists, not_and]
        intro _ _ h0; exact hne h0
      · rename_i hne
        simp only [hx, Option.some.injEq, Prod.mk.injEq, true_iff]
        exact ⟨n, rfl, Classical.not_not.1 hne⟩

theorem tomoValidate_ok_iff (sp : TomoSpec) (pss : List (List (String × Int))) (i : Nat) :
    tomoValidate sp pss i = .ok () ↔ ∀ ps ∈ pss, TomoOneOk sp ps := by
  induction pss generalizing i with
  | nil => simp [tomoValidate]
  | cons ps t ih =>
    simp only [tomoValidate, List.mem_cons, forall_eq_or_imp]
    cases h : tomoValidateOne sp i ps with
    | error e =>
      simp only [reduceCtorEq, false_iff, not_and]
      intro h'; rw [(tomoValidateOne_ok_iff sp i ps).2 h'] at h; cases h
    | ok u =>
      simp only [ih]
      exact ⟨fun h' => ⟨(tomoValidateOne_ok_iff sp i ps).1 h, h'⟩, fun h' => h'.2⟩

theorem wellFormed_iff_toSched (L : Lists) (s : Schedule) :
    WellFormed L s ↔ ∃ ps, s = toSched ps ∧ (∀ p ∈ ps, InRange L p) ∧ OrderRule (ps.map (·.1)) := Iff.rfl

theorem all_wellFormed_iff (L : Lists) (ss : List Schedule) :
    (∀ s ∈ ss, WellFormed L s) ↔
      ∃ pss : List (List (String × Int)), ss = pss.map toSched ∧ ∀ ps ∈ pss, (∀ p ∈ ps, InRange L p) ∧ OrderRule (ps.map (·.1)) := by
  induction ss with
  | nil => exact ⟨fun _ => ⟨[], rfl, by simp⟩, fun _ => by simp⟩
  | cons s t ih =>
    simp only [List.mem_cons, forall_eq_or_imp, ih]
    constructor
    · rintro ⟨⟨ps, h1, h2⟩, pss, h3, h4⟩
      exact ⟨ps :: pss, by simp [h1, h3, toSched], by
        intro q hq; rcases List.mem_cons.1 hq with rfl | hq
        · exact h2
        · exact h4 q hq⟩
    · rintro ⟨pss, h1, h2⟩
      cases pss with
      | nil => simp at h1
      | cons ps pss =>
        simp only [List.map_cons, List.cons.injEq] at h1
        exact ⟨⟨ps, h1.1, h2 ps (by simp)⟩, pss, h1.2, fun q hq => h2 q (by simp [hq])⟩

/-- acceptance by a tomography constructor = Experiment rule (with the class's lists) ∧ class-specific test -/
theorem tomoCtor_ok_iff (c : Cls) (nS nP : Nat) (ss : List Schedule) :
    tomoCtor tables c nS nP (.list ss) = .ok ss ↔
      ∃ pss : List (List (String × Int)), ss = pss.map toSched ∧ ∀ ps ∈ pss,
        ((∀ p ∈ ps, InRange (tomoLists c.spec nS nP) p) ∧ OrderRule (ps.map (·.1))) ∧ TomoOneOk c.spec ps := by
  simp only [tomoCtor, construct]
  cases h : validateSchedules tables (tomoLists c.spec nS nP) ss with
  | error e =>
    simp only [reduceCtorEq, false_iff]
    rintro ⟨pss, h1, h2⟩
    have := (accept_iff_wellformed' _ ss).2 ((all_wellFormed_iff _ ss).2 ⟨pss, h1, fun ps hp => (h2 ps hp).1⟩)
    rw [this] at h; cases h
  | ok u =>
    obtain ⟨pss, h1, h2⟩ := (all_wellFormed_iff _ ss).1 ((accept_iff_wellformed' _ ss).1 (by rw [h]))
    subst h1
    simp only [mapM_pairs?_toSched]
    cases h3 : tomoValidate c.spec pss 0 with
    | error e =>
      simp only [reduceCtorEq, false_iff]
      rintro ⟨pss', g1, g2⟩
      have : pss' = pss := by
        have := congrArg (List.mapM Schedule.pairs?) g1
        rw [mapM_pairs?_toSched, mapM_pairs?_toSched] at this
        injection this with this; exact this.symm
      subst this
      rw [(tomoValidate_ok_iff _ _ _).2 (fun ps hp => (g2 ps hp).2)] at h3; cases h3
    | ok u =>
      simp only [true_iff]
      exact ⟨pss, rfl, fun ps hp => ⟨h2 ps hp, (tomoValidate_ok_iff _ _ _).1 h3 ps hp⟩⟩



theorem orderRule_cons (a : String) (rest : List String) :
    OrderRule (a :: rest) ↔ a = "state" ∧ rest ≠ [] ∧ "state" ∉ rest ∧ rest.count "povm" ≤ 1 ∧
      (rest.getLast? = some "povm" ∨ rest.getLast? = some "mprocess") := by
  unfold OrderRule
  cases rest with
  | nil => simp
  | cons b t =>
    simp only [List.length_cons, List.head?_cons, Option.some.injEq, List.getLast?_cons_cons, ne_eq,
      reduceCtorEq, not_false_eq_true, true_and]
    constructor
    · rintro ⟨_, rfl, h3, h4, h5⟩
      simp only [List.count_cons_self] at h3
      have h3' : List.count "state" (b :: t) = 0 := by omega
      refine ⟨rfl, List.count_eq_zero.1 h3', ?_, h5⟩
      rw [List.count_cons] at h4; simp at h4; exact h4
    · rintro ⟨rfl, h3, h4, h5⟩
      refine ⟨by omega, rfl, ?_, ?_, h5⟩
      · simp only [List.count_cons_self, List.count_eq_zero.2 h3]
      · rw [List.count_cons]; simp; exact h4

theorem inRange_empty_false (i : Int) : ¬ (0 ≤ i ∧ i < ((([] : ObjList).length : Nat) : Int)) := by
  simp only [List.length_nil]; omega

/-- shape lemma shared by Qst / Povmt: with no gates and no measurement processes the Experiment rule alone forces
`[state i, povm j]` -/
theorem two_item_shape (L : Lists) (hg : L.gate = []) (hm : L.mprocess = []) (ps : List (String × Int))
    (hr : ∀ p ∈ ps, InRange L p) (ho : OrderRule (ps.map (·.1))) :
    ∃ i j : Int, ps = [("state", i), ("povm", j)] ∧ 0 ≤ i ∧ i < L.state.length ∧ 0 ≤ j ∧ j < L.povm.length := by
  have hk : ∀ p ∈ ps, p.1 = "state" ∨ p.1 = "povm" := by
    intro p hp
    rcases hr p hp with h | h | h | h
    · exact Or.inl h.1
    · exact Or.inr h.1
    · rw [hg] at h; exact absurd h.2 (inRange_empty_false _)
    · rw [hm] at h; exact absurd h.2 (inRange_empty_false _)
  match ps, hr, ho, hk with
  | [], _, ho, _ => simp [OrderRule] at ho
  | a :: rest, hr, ho, hk =>
    simp only [List.map_cons] at ho
    obtain ⟨ha, hne, hns, hc, _⟩ := (orderRule_cons _ _).1 ho
    have hall : ∀ q ∈ rest, q.1 = "povm" := by
      intro q hq
      rcases hk q (by simp [hq]) with h | h
      · exact absurd (by rw [← h]; exact List.mem_map_of_mem hq) hns
      · exact h
    match rest, hne, hc, hall, hr with
    | [], hne, _, _, _ => simp at hne
    | [b], _, _, hall, hr =>
      have hb := hall b (by simp)
      obtain ⟨a1, a2⟩ := a
      obtain ⟨b1, b2⟩ := b
      simp only at ha hb; subst ha; subst hb
      have h1 := hr ("state", a2) (by simp)
      have h2 := hr ("povm", b2) (by simp)
      simp [InRange] at h1 h2
      exact ⟨a2, b2, rfl, h1.1, h1.2, h2.1, h2.2⟩
    | b :: c :: t, _, hc, hall, _ =>
      have hb := hall b (by simp)
      have hc' := hall c (by simp)
      simp only [List.map_cons, hb, hc', List.count_cons_self] at hc
      omega


/-- acceptance by a tomography constructor, schedule by schedule -/
theorem tomoCtor_ok_iff' (c : Cls) (nS nP : Nat) (ss : List Schedule) :
    tomoCtor tables c nS nP (.list ss) = .ok ss ↔
      ∀ s ∈ ss, ∃ ps, s = toSched ps ∧
        ((∀ p ∈ ps, InRange (tomoLists c.spec nS nP) p) ∧ OrderRule (ps.map (·.1))) ∧ TomoOneOk c.spec ps := by
  rw [tomoCtor_ok_iff]
  constructor
  · rintro ⟨pss, rfl, h⟩ s hs
    obtain ⟨ps, hp, rfl⟩ := List.mem_map.1 hs
    exact ⟨ps, rfl, h ps hp⟩
  · intro h
    induction ss with
    | nil => exact ⟨[], rfl, by simp⟩
    | cons s t ih =>
      obtain ⟨ps, h1, h2⟩ := h s (by simp)
      obtain ⟨pss, g1, g2⟩ := ih (fun x hx => h x (by simp [hx]))
      refine ⟨ps :: pss, by simp [h1, g1], ?_⟩
      intro q hq
      rcases List.mem_cons.1 hq with rfl | hq
      · exact h2
      · exact g2 q hq

theorem qstLists_eq (nS nP : Nat) :
    tomoLists qstSpec nS nP = ⟨[none], List.replicate nP (some [2]), [], []⟩ := rfl
theorem povmtLists_eq (nS nP : Nat) :
    tomoLists povmtSpec nS nP = ⟨List.replicate nS (some [2]), [none], [], []⟩ := rfl
theorem qptLists_eq (nS nP : Nat) :
    tomoLists qptSpec nS nP = ⟨List.replicate nS (some [2]), List.replicate nP (some [2]), [none], []⟩ := rfl
theorem qmptLists_eq (nS nP : Nat) :
    tomoLists qmptSpec nS nP = ⟨List.replicate nS (some [2]), List.replicate nP (some [2]), [], [none]⟩ := rfl

theorem qst_one (nS nP : Nat) (ps : List (String × Int)) :
    (((∀ p ∈ ps, InRange (tomoLists qstSpec nS nP) p) ∧ OrderRule (ps.map (·.1))) ∧ TomoOneOk qstSpec ps) ↔
      ∃ j : Nat, j < nP ∧ ps = [("state", 0), ("povm", (j : Int))] := by
  rw [qstLists_eq]
  constructor
  · rintro ⟨⟨hr, ho⟩, _⟩
    obtain ⟨i, j, rfl, h1, h2, h3, h4⟩ := two_item_shape _ rfl rfl ps hr ho
    simp only [List.length_cons, List.length_nil, List.length_replicate] at h2 h4
    refine ⟨j.toNat, by omega, ?_⟩
    have : i = 0 := by omega
    subst this
    have : ((j.toNat : Nat) : Int) = j := Int.toNat_of_nonneg h3
    rw [this]
  · rintro ⟨j, hj, rfl⟩
    refine ⟨⟨?_, ?_⟩, ?_⟩
    · intro p hp
      simp only [List.mem_cons, List.not_mem_nil, or_false] at hp
      rcases hp with rfl | rfl
      · left; simp
      · right; left; simp; omega
    · simp [OrderRule]
    · simp [TomoOneOk, posTests, specs_eq'.1]

theorem povmt_one (nS nP : Nat) (ps : List (String × Int)) :
    (((∀ p ∈ ps, InRange (tomoLists povmtSpec nS nP) p) ∧ OrderRule (ps.map (·.1))) ∧ TomoOneOk povmtSpec ps) ↔
      ∃ i : Nat, i < nS ∧ ps = [("state", (i : Int)), ("povm", 0)] := by
  rw [povmtLists_eq]
  constructor
  · rintro ⟨⟨hr, ho⟩, _⟩
    obtain ⟨i, j, rfl, h1, h2, h3, h4⟩ := two_item_shape _ rfl rfl ps hr ho
    simp only [List.length_cons, List.length_nil, List.length_replicate] at h2 h4
    refine ⟨i.toNat, by omega, ?_⟩
    have : j = 0 := by omega
    subst this
    have : ((i.toNat : Nat) : Int) = i := Int.toNat_of_nonneg h1
    rw [this]
  · rintro ⟨i, hi, rfl⟩
    refine ⟨⟨?_, ?_⟩, ?_⟩
    · intro p hp
      simp only [List.mem_cons, List.not_mem_nil, or_false] at hp
      rcases hp with rfl | rfl
      · left; simp; omega
      · right; left; simp
    · simp [OrderRule]
    · simp [TomoOneOk, posTests, specs_eq'.2.1]

theorem getLast?_mem' {α : Type} (l : List α) (x : α) (h : l.getLast? = some x) : x ∈ l :=
  List.mem_of_getLast? h

/-- shape lemma shared by Qpt / Qmpt: `[state i, (mid, 0), povm j] ++ tail`, every tail item is `(mid, 0)`;
`mid` is the one kind among gate / mprocess whose list is `[None]`, the other list is empty -/
theorem three_item_shape (L : Lists) (mid other : String) (sp : TomoSpec)
    (hsp : sp.pos = [(0, "state"), (1, mid), (2, "povm")] ∧ sp.zero = 1)
    (hmid : ∀ p : String × Int, InRange L p → p.1 = "state" ∨ p.1 = "povm" ∨ (p.1 = mid ∧ p.2 = 0))
    (hmid' : mid ≠ "state" ∧ mid ≠ "povm")
    (ps : List (String × Int)) (hr : ∀ p ∈ ps, InRange L p) (ho : OrderRule (ps.map (·.1)))
    (ht : TomoOneOk sp ps) :
    ∃ (i j : Int) (tail : List (String × Int)), ps = ("state", i) :: (mid, 0) :: ("povm", j) :: tail ∧
      (∀ q ∈ tail, q = (mid, 0)) ∧ InRange L ("state", i) ∧ InRange L ("povm", j) ∧
      (tail.map (·.1)).getLast? ≠ some "povm" ∧ (tail ≠ [] → (mid = "povm" ∨ mid = "mprocess")) := by
  obtain ⟨hp, hz⟩ := hsp
  obtain ⟨_, ht⟩ := ht
  rw [hp, hz] at ht
  match ps, hr, ho, ht with
  | [], _, _, ht => simp [posTests] at ht
  | [_], _, _, ht => simp [posTests] at ht
  | [_, _], _, _, ht =>
    simp [posTests] at ht
    obtain ⟨ht, _⟩ := ht
    repeat' (first | (simp at ht; done) | split at ht)
  | a :: b :: c :: t, hr, ho, ht =>
    obtain ⟨a1, a2⟩ := a
    obtain ⟨b1, b2⟩ := b
    obtain ⟨c1, c2⟩ := c
    simp [posTests] at ht
    obtain ⟨ht1, ht2⟩ := ht
    have ha : a1 = "state" := by
      by_cases h : a1 = "state"
      · exact h
      · simp [h] at ht1
    subst ha
    have hb : b1 = mid := by
      by_cases h : b1 = mid
      · exact h
      · simp [h] at ht1
    subst hb
    have hc : c1 = "povm" := by
      by_cases h : c1 = "povm"
      · exact h
      · simp [h] at ht1
    subst hc
    subst ht2
    simp only [List.map_cons] at ho
    obtain ⟨_, _, hns, hcnt, hlast⟩ := (orderRule_cons _ _).1 ho
    have hcnt' : List.count "povm" (t.map (·.1)) = 0 := by
      rw [List.count_cons, List.count_cons] at hcnt
      simp at hcnt
      omega
    have hnp : "povm" ∉ t.map (·.1) := List.count_eq_zero.1 hcnt'
    have htail : ∀ q ∈ t, q = (b1, 0) := by
      intro q hq
      have hq1 : q.1 ∈ t.map (·.1) := List.mem_map_of_mem hq
      rcases hmid q (hr q (by simp [hq])) with h | h | ⟨h1, h2⟩
      · exact absurd (h ▸ hq1) (fun hh => hns (by simp [hh]))
      · exact absurd (h ▸ hq1) hnp
      · obtain ⟨q1, q2⟩ := q; simp only at h1 h2; rw [h1, h2]
    refine ⟨a2, c2, t, rfl, htail, hr _ (by simp), hr _ (by simp), ?_, ?_⟩
    · intro hl
      exact hnp (List.mem_of_getLast? hl)
    · intro hne
      have : (List.map (fun x => x.fst) t) ≠ [] := by simpa using hne
      obtain ⟨x, hx⟩ : ∃ x, (t.map (·.1)).getLast? = some x := by
        cases hh : (t.map (·.1)).getLast? with
        | none => simp at hh; exact absurd hh hne
        | some x => exact ⟨x, rfl⟩
      have hxm := List.mem_of_getLast? hx
      obtain ⟨q, hq, hq1⟩ := List.mem_map.1 hxm
      have := htail q hq
      subst this
      simp only at hq1
      have hl2 : (b1 :: "povm" :: List.map (fun x => x.fst) t).getLast? = some x := by
        cases htm : List.map (fun x => x.fst) t with
        | nil => exact absurd htm this
        | cons y ys =>
          rw [htm] at hx
          simp only [List.getLast?_cons_cons]
          exact hx
      rw [hl2] at hlast
      rcases hlast with h | h
      · left; injection h with h; rw [hq1, h]
      · right; injection h with h; rw [hq1, h]


theorem qpt_one (nS nP : Nat) (ps : List (String × Int)) :
    (((∀ p ∈ ps, InRange (tomoLists qptSpec nS nP) p) ∧ OrderRule (ps.map (·.1))) ∧ TomoOneOk qptSpec ps) ↔
      ∃ i j : Nat, i < nS ∧ j < nP ∧ ps = [("state", (i : Int)), ("gate", 0), ("povm", (j : Int))] := by
  rw [qptLists_eq]
  constructor
  · rintro ⟨⟨hr, ho⟩, ht⟩
    obtain ⟨i, j, tail, rfl, h1, h2, h3, _, h5⟩ :=
      three_item_shape _ "gate" "mprocess" qptSpec ⟨specs_eq'.2.2.1 ▸ rfl, specs_eq'.2.2.1 ▸ rfl⟩
        (by
          intro p hp
          rcases hp with h | h | h | h
          · exact Or.inl h.1
          · exact Or.inr (Or.inl h.1)
          · refine Or.inr (Or.inr ⟨h.1, ?_⟩)
            have := h.2; simp only [List.length_cons, List.length_nil] at this; omega
          · exact absurd h.2 (inRange_empty_false _))
        (by decide) ps hr ho ht
    have ht' : tail = [] := by
      by_cases hne : tail = []
      · exact hne
      · rcases h5 hne with h | h <;> exact absurd h (by decide)
    subst ht'
    simp [InRange] at h2 h3
    refine ⟨i.toNat, j.toNat, by omega, by omega, ?_⟩
    rw [Int.toNat_of_nonneg h2.1, Int.toNat_of_nonneg h3.1]
  · rintro ⟨i, j, hi, hj, rfl⟩
    refine ⟨⟨?_, ?_⟩, ?_⟩
    · intro p hp
      simp only [List.mem_cons, List.not_mem_nil, or_false] at hp
      rcases hp with rfl | rfl | rfl
      · left; simp; omega
      · right; right; left; simp
      · right; left; simp; omega
    · simp [OrderRule]
    · simp [TomoOneOk, posTests, specs_eq'.2.2.1]

theorem qmpt_one (nS nP : Nat) (ps : List (String × Int)) :
    (((∀ p ∈ ps, InRange (tomoLists qmptSpec nS nP) p) ∧ OrderRule (ps.map (·.1))) ∧ TomoOneOk qmptSpec ps) ↔
      ∃ i j : Nat, i < nS ∧ j < nP ∧ ps = [("state", (i : Int)), ("mprocess", 0), ("povm", (j : Int))] := by
  rw [qmptLists_eq]
  constructor
  · rintro ⟨⟨hr, ho⟩, ht⟩
    have hlen : ps.length = 3 := ht.1 3 (by rw [specs_eq'.2.2.2])
    obtain ⟨i, j, tail, rfl, h1, h2, h3, _, _⟩ :=
      three_item_shape _ "mprocess" "gate" qmptSpec ⟨specs_eq'.2.2.2 ▸ rfl, specs_eq'.2.2.2 ▸ rfl⟩
        (by
          intro p hp
          rcases hp with h | h | h | h
          · exact Or.inl h.1
          · exact Or.inr (Or.inl h.1)
          · exact absurd h.2 (inRange_empty_false _)
          · refine Or.inr (Or.inr ⟨h.1, ?_⟩)
            have := h.2; simp only [List.length_cons, List.length_nil] at this; omega)
        (by decide) ps hr ho ht
    have htail : tail = [] := by
      simp only [List.length_cons] at hlen
      exact List.length_eq_zero_iff.1 (by omega)
    subst htail
    simp [InRange] at h2 h3
    refine ⟨i.toNat, j.toNat, by omega, by omega, ?_⟩
    rw [Int.toNat_of_nonneg h2.1, Int.toNat_of_nonneg h3.1]
  · rintro ⟨i, j, hi, hj, rfl⟩
    refine ⟨⟨?_, ?_⟩, ?_⟩
    · intro p hp
      simp only [List.mem_cons, List.not_mem_nil, or_false] at hp
      rcases hp with rfl | rfl | rfl
      · left; simp; omega
      · right; right; right; simp
      · right; left; simp; omega
    · simp [OrderRule]
    · simp [TomoOneOk, posTests, specs_eq'.2.2.2]


/-! ## calc_prob_dist -/


def mprocOutcome : QT → Option (List Nat)
  | .mproc m => some m
  | _ => none

/-- the object a `(kind, index)` pair refers to: `some none` = the `None` placeholder -/
def objOf (L : Lists) (p : String × Int) : Option (Option (List Nat)) := (L.get? p.1).bind fun l => pyIndex l p.2

theorem lookupTargets_ok (L : Lists) (outc : String × Int → List Nat) (ps : List (String × Int)) (pos : Nat)
    (h : ∀ p ∈ ps, objOf L p = some (some (outc p))) :
    lookupTargets L (ps.map fun p => Item.mk p.1 p.2) pos = .ok (ps.map fun p => qtOf p.1 (outc p)) := by
  induction ps generalizing pos with
  | nil => rfl
  | cons p t ih =>
    have hp := h p (by simp)
    unfold objOf at hp
    cases hl : L.get? p.1 with
    | none => simp [hl] at hp
    | some l =>
      simp only [hl, Option.bind_some] at hp
      have ih' := ih (pos + 1) (fun q hq => h q (by simp [hq]))
      simp only [Item.mk] at ih'
      simp only [List.map_cons, Item.mk, lookupTargets, hl, hp, ih']

/-- `None` placeholders are rejected: the first item (in schedule order) that refers to `None` raises -/
theorem lookupTargets_none (L : Lists) (outc : String × Int → List Nat) (pre : List (String × Int)) (p : String × Int)
    (post : List (String × Int)) (pos : Nat)
    (h : ∀ q ∈ pre, objOf L q = some (some (outc q))) (hp : objOf L p = some none) :
    lookupTargets L ((pre ++ p :: post).map fun p => Item.mk p.1 p.2) pos = .error (.isNone (pos + pre.length)) := by
  induction pre generalizing pos with
  | nil =>
    unfold objOf at hp
    cases hl : L.get? p.1 with
    | none => simp [hl] at hp
    | some l =>
      simp only [hl, Option.bind_some] at hp
      simp only [List.nil_append, List.map_cons, Item.mk, lookupTargets, hl, hp, List.length_nil, Nat.add_zero]
  | cons a t ih =>
    have ha := h a (by simp)
    unfold objOf at ha
    cases hl : L.get? a.1 with
    | none => simp [hl] at ha
    | some l =>
      simp only [hl, Option.bind_some] at ha
      have ih' := ih (pos + 1) (fun q hq => h q (by simp [hq]))
      simp only [Item.mk] at ih'
      simp only [List.cons_append, List.map_cons, Item.mk, lookupTargets, hl, ha, ih', List.length_cons]
      have : pos + 1 + t.length = pos + (t.length + 1) := by omega
      rw [this]

/-- the running object of `calc_prob_dist` while gates / measurement processes are applied: `none` = still a single State,
`some sh` = a StateEnsemble with outcome shape `sh` -/
def tempOf : Option (List Nat) → QT
  | none => .state
  | some sh => .ens sh

def advance : Option (List Nat) → QT → Option (List Nat)
  | none, .mproc m => some m
  | some sh, .mproc m => some (sh ++ m)
  | cur, _ => cur

/-- shape of the distribution a POVM with local outcomes `m` produces: FLAT `[∏ m]` on a single State
(`MultinomialDistribution(prob, prob.shape)`), `sh ++ m` on an ensemble -/
def finalShape : Option (List Nat) → List Nat → List Nat
  | none, m => [prodNat m]
  | some sh, m => sh ++ m

/-- closed form: the shapes of the measurement processes in order, then the POVM's local outcomes; flat when there is none -/
def shapeOfRun (shs : List (List Nat)) (m : List Nat) : List Nat :=
  if shs.isEmpty then [prodNat m] else shs.flatten ++ m

/-- composition typing: from a state (or state ensemble) through gates and measurement processes into a POVM -/
theorem composeFrom_typing (mid : List QT) (hmid : ∀ t ∈ mid, t = .gate ∨ ∃ m, t = .mproc m) (m : List Nat) :
    ∀ cur : Option (List Nat),
      composeFrom (tempOf cur) (mid ++ [.povm m]) = .ok (.dist (finalShape (mid.foldl advance cur) m)) := by
  induction mid with
  | nil =>
    intro cur
    cases cur <;> simp [composeFrom, compose, tempOf, finalShape]
  | cons t rest ih =>
    intro cur
    have hrest : ∀ t ∈ rest, t = .gate ∨ ∃ m, t = .mproc m := fun x hx => hmid x (by simp [hx])
    rcases hmid t (by simp) with rfl | ⟨k, rfl⟩
    · cases cur with
      | none =>
        simp only [List.cons_append, composeFrom, compose, tempOf, List.foldl_cons, advance]
        simpa [tempOf] using ih hrest none
      | some sh =>
        simp only [List.cons_append, composeFrom, compose, tempOf, List.foldl_cons, advance]
        simpa [tempOf] using ih hrest (some sh)
    · cases cur with
      | none =>
        simp only [List.cons_append, composeFrom, compose, tempOf, List.foldl_cons, advance]
        simpa [tempOf] using ih hrest (some k)
      | some sh =>
        simp only [List.cons_append, composeFrom, compose, tempOf, List.foldl_cons, advance]
        simpa [tempOf] using ih hrest (some (sh ++ k))

theorem finalShape_foldl (mid : List QT) (m : List Nat) :
    ∀ cur : Option (List Nat), finalShape (mid.foldl advance cur) m =
      match cur with
      | none => shapeOfRun (mid.filterMap mprocOutcome) m
      | some sh => sh ++ (mid.filterMap mprocOutcome).flatten ++ m := by
  induction mid with
  | nil => intro cur; cases cur <;> simp [finalShape, shapeOfRun]
  | cons t rest ih =>
    intro cur
    cases t with
    | mproc k =>
      cases cur with
      | none =>
        simp only [List.foldl_cons, advance, ih (some k), List.filterMap_cons, mprocOutcome, shapeOfRun]
        simp
      | some sh =>
        simp only [List.foldl_cons, advance, ih (some (sh ++ k)), List.filterMap_cons, mprocOutcome]
        simp
    | _ =>
      cases cur <;> simp only [List.foldl_cons, advance, ih, List.filterMap_cons, mprocOutcome]

theorem filterMap_mproc (outc : String × Int → List Nat) (mid : List (String × Int))
    (hmid : ∀ q ∈ mid, q.1 = "gate" ∨ q.1 = "mprocess") :
    (mid.map fun p => qtOf p.1 (outc p)).filterMap mprocOutcome =
      (mid.filter fun p => p.1 = "mprocess").map outc := by
  induction mid with
  | nil => rfl
  | cons q t ih =>
    have iht := ih (fun x hx => hmid x (by simp [hx]))
    rcases hmid q (by simp) with h | h
    · have : qtOf q.1 (outc q) = .gate := by simp [qtOf, h]
      simp only [List.map_cons, List.filterMap_cons, this, mprocOutcome, iht]
      simp [List.filter_cons, h]
    · have : qtOf q.1 (outc q) = .mproc (outc q) := by simp [qtOf, h]
      simp only [List.map_cons, List.filterMap_cons, this, mprocOutcome, iht]
      simp [List.filter_cons, h]



/-! ## setters: the generated `objdict` tables are the expected ones -/

theorem setterLists_eq (L : Lists) (w : Which) (v : ObjList) : setterLists L w v = L.set w v := by
  cases w <;> rfl

theorem setterAssign_eq (L : Lists) (w : Which) (v : ObjList) : setterAssign L w v = L.set w v := by
  cases w <;> rfl

theorem step_setList (T : Tables) (st : ExpState) (w : Which) (v : ObjList) :
    step T st (.setList w v) =
      match validateSchedules T (st.lists.set w v) st.schedules with
      | .error e => .error e
      | .ok () => .ok { st with lists := st.lists.set w v } := by
  simp only [step, setterLists_eq, setterAssign_eq]
  cases validateSchedules T (st.lists.set w v) st.schedules <;> rfl

/-! ## look-ups of accepted schedules -/


theorem inRange_get (L : Lists) (p : String × Int) (h : InRange L p) :
    ∃ l, L.get? p.1 = some l ∧ 0 ≤ p.2 ∧ p.2 < (l.length : Int) := by
  obtain ⟨_, l, hl, h0, h1⟩ := (pairOk_iff_inRange L p).2 h
  exact ⟨l, hl, h0, h1⟩

theorem pyIndex_inRange {α : Type} (l : List α) (i : Int) (h0 : 0 ≤ i) (h1 : i < (l.length : Int)) :
    ∃ o, pyIndex l i = some o ∧ l[i.toNat]? = some o := by
  have hlt : i.toNat < l.length := by omega
  exact ⟨l[i.toNat], by simp [pyIndex, h0, hlt], by simp [hlt]⟩

/-- look-ups of in-range items never raise: they deliver all objects or stop at the first `None` placeholder -/
theorem lookupTargets_total (L : Lists) (ps : List (String × Int)) (pos : Nat) (h : ∀ p ∈ ps, InRange L p) :
    (∃ ts, lookupTargets L (ps.map fun p => Item.mk p.1 p.2) pos = .ok ts ∧ ts.length = ps.length) ∨
    (∃ k, lookupTargets L (ps.map fun p => Item.mk p.1 p.2) pos = .error (.isNone k) ∧ pos ≤ k ∧ k < pos + ps.length) := by
  induction ps generalizing pos with
  | nil => exact Or.inl ⟨[], rfl, rfl⟩
  | cons p t ih =>
    obtain ⟨l, hl, h0, h1⟩ := inRange_get L p (h p (by simp))
    obtain ⟨o, ho, _⟩ := pyIndex_inRange l p.2 h0 h1
    simp only [List.map_cons, Item.mk, lookupTargets, hl, ho]
    cases o with
    | none => exact Or.inr ⟨pos, rfl, by omega, by simp⟩
    | some m =>
      have ih' := ih (pos + 1) (fun q hq => h q (by simp [hq]))
      simp only [Item.mk] at ih'
      rcases ih' with ⟨ts, h1, h2⟩ | ⟨k, h1, h2, h3⟩
      · exact Or.inl ⟨qtOf p.1 m :: ts, by simp only [h1], by simp [h2]⟩
      · exact Or.inr ⟨k, by simp only [h1], by omega, by simp only [List.length_cons]; omega⟩



/-! ## reject side of the tomography constructors -/


/-- per schedule: on an Experiment-accepted schedule the class test never raises IndexError -/
theorem tomoValidateOne_no_index (c : Cls) (i : Nat) (ps : List (String × Int))
    (ho : OrderRule (ps.map (·.1))) :
    tomoValidateOne c.spec i ps = .ok () ∨ tomoValidateOne c.spec i ps = .error (.value i) := by
  match ps, ho with
  | [], ho => simp [OrderRule] at ho
  | [a], ho => simp [OrderRule] at ho
  | [a, b], ho =>
    obtain ⟨_, _, _, _, hl⟩ := ho
    have hb : b.1 = "povm" ∨ b.1 = "mprocess" := by simpa using hl
    cases c <;>
      simp only [Cls.spec, qstSpec, povmtSpec, qptSpec, qmptSpec, QGen.C20.qstPos, QGen.C20.qstZero, QGen.C20.qstLen,
        QGen.C20.povmtPos, QGen.C20.povmtZero, QGen.C20.povmtLen, QGen.C20.qptPos, QGen.C20.qptZero, QGen.C20.qptLen,
        QGen.C20.qmptPos, QGen.C20.qmptZero, QGen.C20.qmptLen, tomoValidateOne, firstTest, posTests] <;>
      rcases hb with hb | hb <;> simp [hb] <;> (repeat' split) <;> simp_all
  | a :: b :: d :: rest, _ =>
    cases c <;>
      simp only [Cls.spec, qstSpec, povmtSpec, qptSpec, qmptSpec, QGen.C20.qstPos, QGen.C20.qstZero, QGen.C20.qstLen,
        QGen.C20.povmtPos, QGen.C20.povmtZero, QGen.C20.povmtLen, QGen.C20.qptPos, QGen.C20.qptZero, QGen.C20.qptLen,
        QGen.C20.qmptPos, QGen.C20.qmptZero, QGen.C20.qmptLen, tomoValidateOne, firstTest, posTests] <;>
      by_cases h1 : a.1 = "state" <;> by_cases h2 : b.1 = "povm" <;> by_cases h3 : b.1 = "gate" <;>
      by_cases h4 : b.1 = "mprocess" <;> by_cases h5 : d.1 = "povm" <;> by_cases h6 : rest = [] <;>
      by_cases h7 : a.2 = 0 <;> by_cases h8 : b.2 = 0 <;> simp_all

theorem tomoValidate_no_index (c : Cls) (pss : List (List (String × Int))) (i : Nat) (e : TomoErr)
    (hw : ∀ ps ∈ pss, OrderRule (ps.map (·.1))) (h : tomoValidate c.spec pss i = .error e) : ∃ j, e = .value j := by
  induction pss generalizing i with
  | nil => simp [tomoValidate] at h
  | cons ps t ih =>
    simp only [tomoValidate] at h
    rcases tomoValidateOne_no_index c i ps (hw ps (by simp)) with g | g
    · rw [g] at h; exact ih (i + 1) (fun q hq => hw q (by simp [hq])) h
    · rw [g] at h; injection h with h; exact ⟨i, h.symm⟩



/-! ## reachable states, tomography circuits -/


theorem toSched_inj (ps ps' : List (String × Int)) (h : toSched ps = toSched ps') : ps = ps' := by
  have := congrArg Schedule.pairs? h
  rw [pairs?_toSched, pairs?_toSched] at this
  exact Option.some.inj this



theorem pyIndex_replicate {α : Type} (n j : Nat) (x : α) (h : j < n) : pyIndex (List.replicate n x) (j : Int) = some x := by
  simp [pyIndex, h]

theorem pyIndex_single {α : Type} (x : α) : pyIndex [x] (0 : Int) = some x := by simp [pyIndex]

/-- the experiment a tomography object executes: its own lists with the `[None]` placeholder replaced by the true object
(`generate_prob_dists_sequence`: `tmp_experiment.<attr>[target_index] = true_object`), `sh` = the true object's outcome shape -/
def substTrue (c : Cls) (nS nP : Nat) (sh : List Nat) : Lists :=
  match c with
  | .qst => { tomoLists c.spec nS nP with state := [some []] }
  | .povmt => { tomoLists c.spec nS nP with povm := [some sh] }
  | .qpt => { tomoLists c.spec nS nP with gate := [some []] }
  | .qmpt => { tomoLists c.spec nS nP with mprocess := [some sh] }

/-- outcome shape of one tomography schedule: testers are POVMs with one local outcome count 2 in the model -/
def tomoShape (c : Cls) (sh : List Nat) : List Nat :=
  match c with
  | .qst => [2] | .povmt => [prodNat sh] | .qpt => [2] | .qmpt => sh ++ [2]


end QM.C20
