import QProofs.C16Sum
/-! helper lemmas for the general (any set of conditioning variables) conditional-mass theorem of
C16: `matchesCond mi idxs vals` is the test `project mi idxs = vals` when `idxs` is strictly
ascending and in range. -/
namespace QM.C16

/-! ### `condValue` / `condOk` on a cons pair -/

theorem condValue_nil (vals : List Nat) (pos : Nat) : condValue [] vals pos = none := by
  simp [condValue]

/-- the reversed `find?` looks at the tail first, the head pair is the fallback -/
theorem condValue_cons (i v pos : Nat) (is vs : List Nat) :
    condValue (i :: is) (v :: vs) pos =
      (condValue is vs pos).or (if i = pos then some v else none) := by
  unfold condValue
  rw [List.zip_cons_cons, List.reverse_cons, List.find?_append, Option.map_or]
  congr 1
  by_cases h : i = pos <;> simp [h]

theorem condValue_of_not_mem (idxs vals : List Nat) (pos : Nat) (h : pos ∉ idxs) :
    condValue idxs vals pos = none := by
  unfold condValue
  rw [Option.map_eq_none_iff, List.find?_eq_none]
  rintro ⟨a, b⟩ hx
  have hmem := (List.of_mem_zip (List.mem_reverse.1 hx)).1
  simp only [decide_eq_true_eq]
  rintro rfl
  exact h hmem

theorem condValue_cons_ne (i v pos : Nat) (is vs : List Nat) (h : i ≠ pos) :
    condValue (i :: is) (v :: vs) pos = condValue is vs pos := by
  rw [condValue_cons, if_neg h, Option.or_none]

theorem condValue_cons_eq (i v : Nat) (is vs : List Nat) (h : i ∉ is) :
    condValue (i :: is) (v :: vs) i = some v := by
  rw [condValue_cons, condValue_of_not_mem is vs i h]
  simp

theorem condOk_nil (vals : List Nat) (x pos : Nat) : condOk [] vals x pos = true := by
  unfold condOk
  rw [condValue_nil]

theorem condOk_of_not_mem (idxs vals : List Nat) (x pos : Nat) (h : pos ∉ idxs) :
    condOk idxs vals x pos = true := by
  unfold condOk
  rw [condValue_of_not_mem idxs vals pos h]

theorem condOk_cons_ne (i v x pos : Nat) (is vs : List Nat) (h : i ≠ pos) :
    condOk (i :: is) (v :: vs) x pos = condOk is vs x pos := by
  unfold condOk
  rw [condValue_cons_ne i v pos is vs h]

theorem condOk_cons_eq (i v x : Nat) (is vs : List Nat) (h : i ∉ is) :
    condOk (i :: is) (v :: vs) x i = decide (x = v) := by
  unfold condOk
  rw [condValue_cons_eq i v is vs h]

/-! ### `projectFrom` -/

theorem projectFrom_nil_keep {α : Type} (k : Nat) (l : List α) : projectFrom k l [] = [] := by
  simp [projectFrom]

theorem projectFrom_nil {α : Type} (k : Nat) (keep : List Nat) :
    projectFrom k ([] : List α) keep = [] := by
  simp [projectFrom]

/-- positions below the start offset are never selected -/
theorem projectFrom_cons_lt {α : Type} (k i : Nat) (l : List α) (keep : List Nat) (h : i < k) :
    projectFrom k l (i :: keep) = projectFrom k l keep := by
  induction l generalizing k with
  | nil => simp [projectFrom]
  | cons a l ih =>
    rw [projectFrom_cons, projectFrom_cons, ih (k + 1) (by omega)]
    have hne : ¬ k = i := by omega
    simp [hne]

/-- a strictly ascending in-range selection keeps exactly one entry per selected position -/
theorem projectFrom_length {α : Type} (k : Nat) (l : List α) (idxs : List Nat)
    (hasc : idxs.Pairwise (· < ·)) (hr : ∀ i ∈ idxs, k ≤ i ∧ i < k + l.length) :
    (projectFrom k l idxs).length = idxs.length := by
  induction l generalizing k idxs with
  | nil =>
    cases idxs with
    | nil => simp [projectFrom]
    | cons i is =>
      have := hr i (by simp)
      simp at this
      omega
  | cons a l ih =>
    cases idxs with
    | nil => simp [projectFrom]
    | cons i is =>
      have hp := List.pairwise_cons.1 hasc
      have hi := hr i (by simp)
      simp only [List.length_cons] at hi
      by_cases hik : i = k
      · subst hik
        have hr' : ∀ j ∈ is, i + 1 ≤ j ∧ j < i + 1 + l.length := by
          intro j hj
          have h1 := hp.1 j hj
          have h2 := hr j (by simp [hj])
          simp only [List.length_cons] at h2
          omega
        rw [projectFrom_cons, if_pos (by simp), List.length_cons,
          projectFrom_cons_lt (i + 1) i l is (by omega), ih (i + 1) is hp.2 hr']
        simp
      · have hnot : ((i :: is).contains k) = false := by
          rw [List.contains_eq_mem, decide_eq_false_iff_not]
          intro hm
          rcases List.mem_cons.1 hm with h | h
          · omega
          · have := hp.1 k h; omega
        have hr' : ∀ j ∈ i :: is, k + 1 ≤ j ∧ j < k + 1 + l.length := by
          intro j hj
          have h2 := hr j hj
          simp only [List.length_cons] at h2
          rcases List.mem_cons.1 hj with h | h
          · omega
          · have := hp.1 j h; omega
        rw [projectFrom_cons, hnot]
        simp only [Bool.false_eq_true, if_false]
        exact ih (k + 1) (i :: is) hasc hr'

/-! ### the conditioning test is a projection test -/

theorem zipIdx_all_condOk (mi : List Nat) (k : Nat) (idxs vals : List Nat)
    (hasc : idxs.Pairwise (· < ·)) (hr : ∀ i ∈ idxs, k ≤ i ∧ i < k + mi.length)
    (hlen : vals.length = idxs.length) :
    ((mi.zipIdx k).all fun xp => condOk idxs vals xp.1 xp.2) = true ↔
      projectFrom k mi idxs = vals := by
  induction mi generalizing k idxs vals with
  | nil =>
    cases idxs with
    | nil =>
      cases vals with
      | nil => simp [projectFrom]
      | cons v vs => simp at hlen
    | cons i is =>
      have := hr i (by simp)
      simp at this
      omega
  | cons a l ih =>
    cases idxs with
    | nil =>
      cases vals with
      | nil => simp [projectFrom_nil_keep, condOk_nil]
      | cons v vs => simp at hlen
    | cons i is =>
      cases vals with
      | nil => simp at hlen
      | cons v vs =>
        have hp := List.pairwise_cons.1 hasc
        have hi := hr i (by simp)
        have hlen' : vs.length = is.length := by simpa using hlen
        simp only [List.length_cons] at hi
        rw [List.zipIdx_cons, List.all_cons, Bool.and_eq_true]
        by_cases hik : i = k
        · subst hik
          have hnm : i ∉ is := fun hm => by have := hp.1 i hm; omega
          have hr' : ∀ j ∈ is, i + 1 ≤ j ∧ j < i + 1 + l.length := by
            intro j hj
            have h1 := hp.1 j hj
            have h2 := hr j (by simp [hj])
            simp only [List.length_cons] at h2
            omega
          have hrest : ((l.zipIdx (i + 1)).all fun xp => condOk (i :: is) (v :: vs) xp.1 xp.2)
              = ((l.zipIdx (i + 1)).all fun xp => condOk is vs xp.1 xp.2) := by
            rw [Bool.eq_iff_iff, List.all_eq_true, List.all_eq_true]
            refine forall_congr' fun xp => forall_congr' fun hxp => ?_
            have := List.le_snd_of_mem_zipIdx hxp
            rw [condOk_cons_ne i v xp.1 xp.2 is vs (by omega)]
          rw [hrest, ih (i + 1) is vs hp.2 hr' hlen', condOk_cons_eq i v a is vs hnm,
            projectFrom_cons, if_pos (by simp), projectFrom_cons_lt (i + 1) i l is (by omega)]
          simp
        · have hnm : k ∉ i :: is := by
            intro hm
            rcases List.mem_cons.1 hm with h | h
            · omega
            · have := hp.1 k h; omega
          have hnot : ((i :: is).contains k) = false := by
            rw [List.contains_eq_mem, decide_eq_false_iff_not]; exact hnm
          have hr' : ∀ j ∈ i :: is, k + 1 ≤ j ∧ j < k + 1 + l.length := by
            intro j hj
            have h2 := hr j hj
            simp only [List.length_cons] at h2
            rcases List.mem_cons.1 hj with h | h
            · omega
            · have := hp.1 j h; omega
          rw [condOk_of_not_mem (i :: is) (v :: vs) a k hnm, projectFrom_cons, hnot,
            ih (k + 1) (i :: is) (v :: vs) hasc hr' hlen]
          simp

/-- for a strictly ascending, in-range list of conditioning variables the event test of
`conditionalize` is "the projection onto the conditioning variables equals `vals`" -/
theorem matchesCond_iff_project (mi idxs vals : List Nat)
    (hasc : idxs.Pairwise (· < ·)) (hr : ∀ i ∈ idxs, i < mi.length)
    (hlen : vals.length = idxs.length) :
    matchesCond mi idxs vals = true ↔ project mi idxs = vals := by
  unfold matchesCond
  rw [project_eq_projectFrom]
  exact zipIdx_all_condOk mi 0 idxs vals hasc
    (fun i hi => ⟨Nat.zero_le _, by simpa using hr i hi⟩) hlen

theorem project_length {α : Type} (l : List α) (idxs : List Nat)
    (hasc : idxs.Pairwise (· < ·)) (hr : ∀ i ∈ idxs, i < l.length) :
    (project l idxs).length = idxs.length := by
  rw [project_eq_projectFrom]
  exact projectFrom_length 0 l idxs hasc (fun i hi => ⟨Nat.zero_le _, by simpa using hr i hi⟩)

/-- pairing a list with its image: the pair of a member is a member of the zip -/
theorem mem_zip_map_self {α β : Type} (l : List α) (f : α → β) (a : α) (h : a ∈ l) :
    (a, f a) ∈ l.zip (l.map f) := by
  induction l with
  | nil => cases h
  | cons b l ih =>
    rw [List.map_cons, List.zip_cons_cons]
    rcases List.mem_cons.1 h with rfl | h
    · simp
    · exact List.mem_cons_of_mem _ (ih h)

end QM.C16
