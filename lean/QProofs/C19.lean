import QModel.C19
import QProofs.Bridge
import Mathlib.Tactic.Ring
import Mathlib.Tactic.FieldSimp
import Mathlib.Tactic.Linarith
import Mathlib.Algebra.BigOperators.Ring.Finset
import Mathlib.Algebra.CharZero.Defs
import Mathlib.Data.Matrix.Basic
import Mathlib.Logic.Equiv.Fin.Basic
import Mathlib.Algebra.BigOperators.Fin
/-! helper lemmas for C19: linearity and moments of the recursive multinomial expectation -/
open Matrix
namespace QM.C19
open QM

section expect
variable {K : Type} [Field K] {m : Nat} (p : Vec K m)

theorem expectN_zero (g : Vec Nat m → K) : expectN p 0 g = g (Vec.ofFn fun _ => 0) := rfl

theorem expectN_succ (n : Nat) (g : Vec Nat m → K) :
    expectN p (n + 1) g = ∑ i, p.get i * expectN p n (fun c => g (bump c i)) := by
  simp [expectN, fsum_eq_sum]

theorem expectN_congr (n : Nat) {g h : Vec Nat m → K} (hgh : ∀ c, g c = h c) :
    expectN p n g = expectN p n h := by
  have : g = h := funext hgh
  rw [this]

theorem expectN_add (n : Nat) (g h : Vec Nat m → K) :
    expectN p n (fun c => g c + h c) = expectN p n g + expectN p n h := by
  induction n generalizing g h with
  | zero => rfl
  | succ n ih =>
    simp only [expectN_succ]
    rw [← Finset.sum_add_distrib]
    refine Finset.sum_congr rfl fun i _ => ?_
    rw [ih, mul_add]

theorem expectN_smul (n : Nat) (a : K) (g : Vec Nat m → K) :
    expectN p n (fun c => a * g c) = a * expectN p n g := by
  induction n generalizing g with
  | zero => rfl
  | succ n ih =>
    simp only [expectN_succ]
    rw [Finset.mul_sum]
    refine Finset.sum_congr rfl fun i _ => ?_
    rw [ih]; ring

theorem expectN_mul_const (n : Nat) (a : K) (g : Vec Nat m → K) :
    expectN p n (fun c => g c * a) = expectN p n g * a := by
  rw [mul_comm, ← expectN_smul]
  exact expectN_congr p n fun c => mul_comm _ _

theorem expectN_const (hp : ∑ i, p.get i = 1) (n : Nat) (a : K) :
    expectN p n (fun _ => a) = a := by
  induction n with
  | zero => rfl
  | succ n ih =>
    simp only [expectN_succ, ih]
    rw [← Finset.sum_mul, hp, one_mul]

theorem expectN_sub (n : Nat) (g h : Vec Nat m → K) :
    expectN p n (fun c => g c - h c) = expectN p n g - expectN p n h := by
  have : (fun c => g c - h c) = fun c => g c + (-1) * h c := by funext c; ring
  rw [this, expectN_add, expectN_smul]; ring

theorem expectN_finset_sum {ι : Type} (s : Finset ι) (n : Nat) (g : ι → Vec Nat m → K) :
    expectN p n (fun c => ∑ x ∈ s, g x c) = ∑ x ∈ s, expectN p n (g x) := by
  classical
  induction s using Finset.induction_on with
  | empty =>
    simp only [Finset.sum_empty]
    have := expectN_smul p n 0 (fun _ => (0 : K))
    simpa using this
  | insert a s ha ih =>
    simp only [Finset.sum_insert ha]
    rw [expectN_add, ih]

theorem bump_get (c : Vec Nat m) (i j : Fin m) :
    (bump c i).get j = if j = i then c.get j + 1 else c.get j := by
  simp [bump]

/-- first moment of the counts -/
theorem expectN_count (hp : ∑ i, p.get i = 1) (n : Nat) (i : Fin m) :
    expectN p n (fun c => (c.get i : K)) = n * p.get i := by
  induction n with
  | zero => simp [expectN_zero]
  | succ n ih =>
    rw [expectN_succ]
    have h1 : ∀ k : Fin m, expectN p n (fun c => ((bump c k).get i : K))
        = n * p.get i + (if i = k then 1 else 0) := by
      intro k
      have : (fun c : Vec Nat m => ((bump c k).get i : K))
          = fun c => (c.get i : K) + (if i = k then 1 else 0) := by
        funext c; rw [bump_get]; split <;> simp
      rw [this, expectN_add, ih, expectN_const p hp]
    simp only [h1, mul_add, Finset.sum_add_distrib, ← Finset.sum_mul, hp]
    simp [Finset.sum_ite_eq]
    ring

/-- second moment of the counts -/
theorem expectN_count_mul (hp : ∑ i, p.get i = 1) (n : Nat) (i j : Fin m) :
    expectN p n (fun c => (c.get i : K) * (c.get j : K))
      = n * (n - 1) * (p.get i * p.get j) + (if i = j then n * p.get i else 0) := by
  induction n with
  | zero => simp [expectN_zero]
  | succ n ih =>
    rw [expectN_succ]
    have h1 : ∀ k : Fin m, expectN p n (fun c => ((bump c k).get i : K) * ((bump c k).get j : K))
        = (n * (n - 1) * (p.get i * p.get j) + (if i = j then n * p.get i else 0))
          + (if j = k then 1 else 0) * (n * p.get i) + (if i = k then 1 else 0) * (n * p.get j)
          + (if i = k then 1 else 0) * (if j = k then 1 else 0) := by
      intro k
      have : (fun c : Vec Nat m => ((bump c k).get i : K) * ((bump c k).get j : K))
          = fun c => (c.get i : K) * (c.get j : K) + (if j = k then 1 else 0) * (c.get i : K)
              + (if i = k then 1 else 0) * (c.get j : K)
              + (if i = k then 1 else 0) * (if j = k then 1 else 0) := by
        funext c; rw [bump_get, bump_get]
        split <;> split <;> simp <;> ring
      rw [this, expectN_add, expectN_add, expectN_add, ih, expectN_smul, expectN_smul,
        expectN_count p hp, expectN_count p hp, expectN_const p hp]
    simp only [h1, mul_add, Finset.sum_add_distrib, ← Finset.sum_mul, hp, one_mul]
    have e1 : ∑ k, p.get k * ((if j = k then (1 : K) else 0) * (n * p.get i)) = p.get j * (n * p.get i) := by
      simp [Finset.sum_ite_eq]
    have e2 : ∑ k, p.get k * ((if i = k then (1 : K) else 0) * (n * p.get j)) = p.get i * (n * p.get j) := by
      simp [Finset.sum_ite_eq]
    have e3 : ∑ k, p.get k * ((if i = k then (1 : K) else 0) * (if j = k then 1 else 0))
        = if i = j then p.get i else 0 := by
      by_cases hij : i = j
      · subst hij; simp [Finset.sum_ite_eq]
      · simp only [hij, if_false]
        apply Finset.sum_eq_zero
        intro k _
        by_cases hik : i = k
        · subst hik
          have hji : ¬ j = i := fun h => hij h.symm
          simp [hji]
        · simp [hik]
    rw [e1, e2, e3]
    by_cases hij : i = j
    · subst hij; simp; ring
    · simp [hij]; ring

end expect

section algebra
variable {K : Type} [Field K]

theorem covMat_get {m : Nat} (q : Vec K m) (n : K) (i j : Fin m) :
    (covMat q n).get i j = ((if i = j then q.get i else 0) - q.get i * q.get j) / n := by
  simp [covMat]

theorem normSq_eq {k : Nat} (v : Vec K k) : normSq v = ∑ a, v.get a * v.get a := by
  simp [normSq, Vec.dot, fsum_eq_sum]

theorem conjugate_toM {k n : Nat} (X : Mat K k n) (V : Mat K n n) :
    (conjugate X V).toM = X.toM * V.toM * X.toMᵀ := by
  simp [conjugate]

theorem trace_conjugate {k n : Nat} (X : Mat K k n) (V : Mat K n n) :
    (conjugate X V).trace = ∑ a, ∑ i, ∑ j, X.get a i * V.get i j * X.get a j := by
  rw [Mat.trace_eq, conjugate_toM]
  simp only [Matrix.trace, Matrix.diag, Matrix.mul_apply, Matrix.transpose_apply, Mat.toM_apply,
    Finset.sum_mul]
  refine Finset.sum_congr rfl fun a _ => ?_
  rw [Finset.sum_comm]

end algebra
end QM.C19

namespace QM.C19
open QM

section joint
variable {K : Type} [Field K] {m : Nat}

/-- every schedule's distribution sums to one -/
def AllProb (l : List (Vec K m × Nat)) : Prop := ∀ x ∈ l, ∑ i, x.1.get i = 1

theorem expectJoint_congr (l : List (Vec K m × Nat)) {g h : List (Vec Nat m) → K}
    (hgh : ∀ cs, g cs = h cs) : expectJoint l g = expectJoint l h := by
  rw [funext hgh]

theorem expectJoint_add (l : List (Vec K m × Nat)) (g h : List (Vec Nat m) → K) :
    expectJoint l (fun cs => g cs + h cs) = expectJoint l g + expectJoint l h := by
  induction l generalizing g h with
  | nil => rfl
  | cons x r ih =>
    obtain ⟨p, n⟩ := x
    simp only [expectJoint]
    rw [← expectN_add]
    exact expectN_congr p n fun c => ih _ _

theorem expectJoint_smul (l : List (Vec K m × Nat)) (a : K) (g : List (Vec Nat m) → K) :
    expectJoint l (fun cs => a * g cs) = a * expectJoint l g := by
  induction l generalizing g with
  | nil => rfl
  | cons x r ih =>
    obtain ⟨p, n⟩ := x
    simp only [expectJoint]
    rw [← expectN_smul]
    exact expectN_congr p n fun c => ih _

theorem expectJoint_const (l : List (Vec K m × Nat)) (hl : AllProb l) (a : K) :
    expectJoint l (fun _ => a) = a := by
  induction l with
  | nil => rfl
  | cons x r ih =>
    obtain ⟨p, n⟩ := x
    simp only [expectJoint]
    have hr : AllProb r := fun y hy => hl y (List.mem_cons_of_mem _ hy)
    rw [expectN_congr p n fun c => ih hr]
    exact expectN_const p (hl (p, n) (List.mem_cons_self ..)) n a

theorem expectJoint_finset_sum {ι : Type} (s : Finset ι) (l : List (Vec K m × Nat))
    (g : ι → List (Vec Nat m) → K) :
    expectJoint l (fun cs => ∑ x ∈ s, g x cs) = ∑ x ∈ s, expectJoint l (g x) := by
  classical
  induction s using Finset.induction_on with
  | empty =>
    simp only [Finset.sum_empty]
    have := expectJoint_smul l 0 (fun _ => (0 : K))
    simpa using this
  | insert a s ha ih =>
    simp only [Finset.sum_insert ha]
    rw [expectJoint_add, ih]

end joint

section vecs
variable {K : Type} [Field K]

theorem vadd_get {n : Nat} (u v : Vec K n) (i : Fin n) : (u.add v).get i = u.get i + v.get i := by
  simp [Vec.add]
theorem vsub_get {n : Nat} (u v : Vec K n) (i : Fin n) : (u.sub v).get i = u.get i - v.get i := by
  simp [Vec.sub]
theorem vzero_get {n : Nat} (i : Fin n) : (Vec.zero : Vec K n).get i = 0 := by
  simp [Vec.zero]
theorem mulVec_get {k n : Nat} (L : Mat K k n) (v : Vec K n) (a : Fin k) :
    (L.mulVec v).get a = ∑ i, L.get a i * v.get i := by
  simp [Mat.mulVec, fsum_eq_sum]
theorem empi_get {m : Nat} (c : Vec Nat m) (n : Nat) (i : Fin m) :
    (empi (K := K) c n).get i = (c.get i : K) / (n : K) := by
  simp [empi]

theorem normSq_mulVec {k n : Nat} (L : Mat K k n) (d : Vec K n) :
    normSq (L.mulVec d) = ∑ a, ∑ i, ∑ j, L.get a i * (d.get i * d.get j) * L.get a j := by
  rw [normSq_eq]
  refine Finset.sum_congr rfl fun a _ => ?_
  rw [mulVec_get, Finset.sum_mul]
  refine Finset.sum_congr rfl fun i _ => ?_
  rw [Finset.mul_sum]
  refine Finset.sum_congr rfl fun j _ => ?_
  ring

theorem normSq_add {k : Nat} (u w : Vec K k) :
    normSq (u.add w) = normSq u + 2 * (∑ a, u.get a * w.get a) + normSq w := by
  simp only [normSq_eq, vadd_get]
  rw [Finset.mul_sum, ← Finset.sum_add_distrib, ← Finset.sum_add_distrib]
  refine Finset.sum_congr rfl fun a _ => ?_
  ring

/-- `Σ_s trace(L_s Cov_s L_sᵀ)` over the schedules -/
def linTrace {m k : Nat} : List (Mat K k m × Vec K m × Nat) → K
  | [] => 0
  | (L, p, n) :: r => (conjugate L (covMat p (n : K))).trace + linTrace r

end vecs
end QM.C19

namespace QM.C19
open QM

section dsum
variable {K : Type} [Field K]

/-- the first `k` columns -/
def colsL {a k n : Nat} (X : Mat K a (k + n)) : Mat K a k :=
  Mat.ofFn fun r c => X.get r (Fin.castAdd n c)
/-- the remaining columns -/
def colsR {a k n : Nat} (X : Mat K a (k + n)) : Mat K a n :=
  Mat.ofFn fun r c => X.get r (Fin.natAdd k c)

theorem directSum_get (bs : List (Block K)) (i j : Fin (dsSize bs)) :
    (directSum bs).get i j = dsEntry bs i.val j.val := by
  simp [directSum]

theorem dsEntry_cons (k : Nat) (B : Mat K k k) (r : List (Block K)) (i j : Nat) :
    dsEntry (⟨k, B⟩ :: r) i j =
      if h : i < k ∧ j < k then B.get ⟨i, h.1⟩ ⟨j, h.2⟩
      else if k ≤ i ∧ k ≤ j then dsEntry r (i - k) (j - k) else 0 := by
  rw [dsEntry]

theorem ds_get_LL (k : Nat) (B : Mat K k k) (r : List (Block K)) (i j : Fin k) :
    (directSum (⟨k, B⟩ :: r)).get (Fin.castAdd (dsSize r) i) (Fin.castAdd (dsSize r) j) = B.get i j := by
  refine (directSum_get (⟨k, B⟩ :: r) _ _).trans ?_
  change dsEntry (⟨k, B⟩ :: r) i.val j.val = _
  rw [dsEntry_cons, dif_pos ⟨i.isLt, j.isLt⟩]

theorem ds_get_LR (k : Nat) (B : Mat K k k) (r : List (Block K)) (i : Fin k) (j : Fin (dsSize r)) :
    (directSum (⟨k, B⟩ :: r)).get (Fin.castAdd (dsSize r) i) (Fin.natAdd k j) = 0 := by
  have hi := i.isLt
  refine (directSum_get (⟨k, B⟩ :: r) _ _).trans ?_
  change dsEntry (⟨k, B⟩ :: r) i.val (k + j.val) = _
  rw [dsEntry_cons, dif_neg (by omega), if_neg (by omega)]

theorem ds_get_RL (k : Nat) (B : Mat K k k) (r : List (Block K)) (i : Fin (dsSize r)) (j : Fin k) :
    (directSum (⟨k, B⟩ :: r)).get (Fin.natAdd k i) (Fin.castAdd (dsSize r) j) = 0 := by
  have hj := j.isLt
  refine (directSum_get (⟨k, B⟩ :: r) _ _).trans ?_
  change dsEntry (⟨k, B⟩ :: r) (k + i.val) j.val = _
  rw [dsEntry_cons, dif_neg (by omega), if_neg (by omega)]

theorem ds_get_RR (k : Nat) (B : Mat K k k) (r : List (Block K)) (i j : Fin (dsSize r)) :
    (directSum (⟨k, B⟩ :: r)).get (Fin.natAdd k i) (Fin.natAdd k j) = (directSum r).get i j := by
  refine (directSum_get (⟨k, B⟩ :: r) _ _).trans ?_
  change dsEntry (⟨k, B⟩ :: r) (k + i.val) (k + j.val) = _
  rw [dsEntry_cons, dif_neg (by omega), if_pos (by omega), directSum_get]
  simp

/-- trace of the direct sum = sum of the traces (`calc_mse_empi_dists_analytical` adds the traces) -/
theorem trace_directSum (bs : List (Block K)) : (directSum bs).trace = mseEmpi bs := by
  induction bs with
  | nil => simp [Mat.trace, fsum_eq_sum, mseEmpi, dsSize]
  | cons b r ih =>
    obtain ⟨k, B⟩ := b
    rw [mseEmpi, ← ih]
    simp only [Mat.trace, fsum_eq_sum]
    have : (∑ i : Fin (dsSize (⟨k, B⟩ :: r)), (directSum (⟨k, B⟩ :: r)).get i i)
        = ∑ i : Fin (k + dsSize r), (directSum (⟨k, B⟩ :: r)).get i i := rfl
    rw [this, Fin.sum_univ_add]
    simp only [ds_get_LL, ds_get_RR]

omit [Field K] in
theorem colsL_get {a k n : Nat} (X : Mat K a (k + n)) (x : Fin a) (i : Fin k) :
    (colsL X).get x i = X.get x (Fin.castAdd n i) := by simp [colsL]
omit [Field K] in
theorem colsR_get {a k n : Nat} (X : Mat K a (k + n)) (x : Fin a) (i : Fin n) :
    (colsR X).get x i = X.get x (Fin.natAdd k i) := by simp [colsR]

theorem mseLinearVar_nil {a : Nat} (X : Mat K a (dsSize ([] : List (Block K)))) :
    mseLinearVar [] X = 0 := by
  unfold mseLinearVar
  rw [trace_conjugate]
  refine Finset.sum_eq_zero fun x _ => ?_
  exact Finset.sum_eq_zero fun i _ => Fin.elim0 i

/-- block decomposition of `trace(X (B ⊕ rest) Xᵀ)` -/
theorem mseLinearVar_cons {a : Nat} (k : Nat) (B : Mat K k k) (r : List (Block K))
    (X : Mat K a (dsSize (⟨k, B⟩ :: r))) :
    mseLinearVar (⟨k, B⟩ :: r) X
      = (conjugate (colsL (k := k) (n := dsSize r) X) B).trace
        + mseLinearVar r (colsR (k := k) (n := dsSize r) X) := by
  unfold mseLinearVar
  rw [trace_conjugate, trace_conjugate, trace_conjugate, ← Finset.sum_add_distrib]
  refine Finset.sum_congr rfl fun x _ => ?_
  have e : (∑ i : Fin (dsSize (⟨k, B⟩ :: r)), ∑ j : Fin (dsSize (⟨k, B⟩ :: r)),
        X.get x i * (directSum (⟨k, B⟩ :: r)).get i j * X.get x j)
      = ∑ i : Fin (k + dsSize r), ∑ j : Fin (k + dsSize r),
        Mat.get (n := k + dsSize r) X x i * (directSum (⟨k, B⟩ :: r)).get i j
          * Mat.get (n := k + dsSize r) X x j := rfl
  rw [e, Fin.sum_univ_add]
  simp only [Fin.sum_univ_add, ds_get_LL, ds_get_LR, ds_get_RL, ds_get_RR, mul_zero, zero_mul,
    Finset.sum_const_zero, add_zero, zero_add]
  have hL : ∀ i : Fin k, (colsL (k := k) (n := dsSize r) X).get x i
      = Mat.get (n := k + dsSize r) X x (Fin.castAdd (dsSize r) i) := fun i => colsL_get _ _ _
  have hR : ∀ i : Fin (dsSize r), (colsR (k := k) (n := dsSize r) X).get x i
      = Mat.get (n := k + dsSize r) X x (Fin.natAdd k i) := fun i => colsR_get _ _ _
  simp only [hL, hR]

end dsum

section uniform
variable {K : Type} [Field K] {m : Nat}

/-- arguments of `covBlocks` for schedules with a common outcome count -/
def uniArgs : List (Vec K m × Nat) → List ((m : Nat) × Vec K m × K)
  | [] => []
  | (p, n) :: r => ⟨m, p, (n : K)⟩ :: uniArgs r

/-- the column blocks of `A⁺`, one per schedule -/
def splitCols {a : Nat} : (l : List (Vec K m × Nat)) → Mat K a (dsSize (covBlocks (uniArgs l))) →
    List (Mat K a m × Vec K m × Nat)
  | [], _ => []
  | (p, n) :: r, X =>
    (colsL (k := m) (n := dsSize (covBlocks (uniArgs r))) X, p, n)
      :: splitCols r (colsR (k := m) (n := dsSize (covBlocks (uniArgs r))) X)

end uniform
end QM.C19

namespace QM.C19
open QM

section slices

theorem length_flatten_uniform {α : Type} (blocks : List (List α)) (m : Nat)
    (h : ∀ b ∈ blocks, b.length = m) : blocks.flatten.length = m * blocks.length := by
  induction blocks with
  | nil => simp
  | cons b r ih =>
    simp only [List.flatten_cons, List.length_append, List.length_cons]
    rw [ih fun x hx => h x (List.mem_cons_of_mem _ hx), h b (List.mem_cons_self ..)]
    ring

theorem drop_flatten_uniform {α : Type} (blocks : List (List α)) (m : Nat)
    (h : ∀ b ∈ blocks, b.length = m) (j : Nat) :
    blocks.flatten.drop (m * j) = (blocks.drop j).flatten := by
  induction blocks generalizing j with
  | nil => simp
  | cons b r ih =>
    cases j with
    | zero => simp
    | succ j =>
      have hb := h b (List.mem_cons_self ..)
      simp only [List.flatten_cons, List.drop_succ_cons]
      rw [show m * (j + 1) = b.length + m * j by rw [hb]; ring, ← List.drop_drop, List.drop_left]
      exact ih (fun x hx => h x (List.mem_cons_of_mem _ hx)) j

theorem slice_flatten_uniform {α : Type} (blocks : List (List α)) (m : Nat)
    (h : ∀ b ∈ blocks, b.length = m) (j : Nat) (hj : j < blocks.length) :
    (blocks.flatten.drop (m * j)).take m = blocks[j] := by
  rw [drop_flatten_uniform blocks m h j, List.drop_eq_getElem_cons hj, List.flatten_cons]
  have : blocks[j].length = m := h _ (List.getElem_mem hj)
  rw [← this, List.take_left]

end slices
end QM.C19

/-! ## definitions used in the statements of QProps/C19.lean -/
namespace QM.C19
open QM

section statementDefs
variable {K : Type} [Field K] {m k : Nat}

/-- hypotheses on a list of schedules: distributions sum to one, sample sizes are positive -/
def Good (l : List (Mat K k m × Vec K m × Nat)) : Prop :=
  ∀ x ∈ l, (∑ i, x.2.1.get i = 1) ∧ 1 ≤ x.2.2


/-- exact mean squared error of all empirical distributions: `Σ_s E‖f_s − p_s‖²` -/
def mseEmpiExactTotal : List (Vec K m × Nat) → K
  | [] => 0
  | (p, n) :: r => mseEmpiExact p n + mseEmpiExactTotal r


/-- the element a POVM with `on_para_eq_constraint=True` does not store: `c − Σ_k E_k` (`c` = coefficient vector of
the identity) -/
def lastElem {K : Type} [Field K] (d2 mo : Nat) (c : Vec K d2) (v : Vec K ((mo - 1) * d2)) : Vec K d2 :=
  Vec.ofFn fun a => c.get a - ∑ k : Fin (mo - 1), v.get (finProdFinEquiv (k, a))


end statementDefs
end QM.C19

namespace QM.C19
open QM
section listSums
variable {K : Type} [Field K]

theorem lsum_zip_ofFn {α β : Type} {m : Nat} (f : Fin m → α) (g : Fin m → β) (h : α × β → K) :
    lsum (((List.ofFn f).zip (List.ofFn g)).map h) = ∑ i, h (f i, g i) := by
  induction m with
  | zero => simp [lsum]
  | succ m ih =>
    rw [List.ofFn_succ, List.ofFn_succ, List.zip_cons_cons, List.map_cons, Fin.sum_univ_succ]
    have := ih (fun i => f i.succ) (fun i => g i.succ)
    simp only [lsum, List.foldr_cons] at this ⊢
    rw [this]


/-- scaled matrix `w · F` (rows) -/
def scaleRows (w : K) (F : List (List K)) : List (List K) := F.map fun r => r.map fun x => w * x

end listSums
end QM.C19

namespace QM.C19
open QM
section clipHelpers
variable {K : Type} [Field K] [LinearOrder K] [IsStrictOrderedRing K]

theorem lsum_map_split (l : List K) (eps c : K) :
    lsum (l.map fun p => if p < eps then eps else p - c)
      = ((l.filter fun x => decide (x < eps)).length : K) * eps
        + (lsum (l.filter fun x => !decide (x < eps))
            - ((l.filter fun x => !decide (x < eps)).length : K) * c) := by
  induction l with
  | nil => simp [lsum]
  | cons p r ih =>
    simp only [List.map_cons, lsum, List.foldr_cons] at ih ⊢
    rw [ih]
    by_cases h : p < eps
    · simp [h, List.filter_cons, lsum]; ring
    · simp [h, List.filter_cons, lsum]; ring

theorem filter_lengths (l : List K) (eps : K) :
    (l.filter fun x => !decide (x < eps)).length = l.length - (l.filter fun x => decide (x < eps)).length := by
  induction l with
  | nil => rfl
  | cons p r ih =>
    by_cases h : p < eps
    · simp [h, List.filter_cons, ih]
    · have hle := List.length_filter_le (fun x => decide (x < eps)) r
      simp [h, List.filter_cons, ih]; omega

end clipHelpers
end QM.C19
