import QModel.C17
import QProofs.C18
import QProofs.Psd
import Mathlib.Analysis.Matrix.Spectrum
/-! helper lemmas for C17: a Hermitian matrix of Frobenius norm ≤ ε is ≥ −ε·1 (spectral theorem) -/
open Matrix
namespace QM.C17
open QM QM.C18
open scoped ComplexOrder

variable {n : Type} [Fintype n] [DecidableEq n]

theorem herm_add_eps_psd (R : Matrix n n ℂ) (hR : R.IsHermitian) (ε : ℝ) (hε : 0 ≤ ε)
    (h : (R * R).trace.re ≤ ε ^ 2) : (R + (ε : ℂ) • (1 : Matrix n n ℂ)).PosSemidef := by
  set U : Matrix n n ℂ := (hR.eigenvectorUnitary : Matrix n n ℂ) with hUdef
  have hU1 : Uᴴ * U = 1 := by
    have := (hR.eigenvectorUnitary).2
    exact (Matrix.mem_unitaryGroup_iff'.mp this)
  have hU2 : U * Uᴴ = 1 := by
    have := (hR.eigenvectorUnitary).2
    exact (Matrix.mem_unitaryGroup_iff.mp this)
  set lam := hR.eigenvalues with hlam
  have hspec : R = U * diagonal (fun i => ((lam i : ℝ) : ℂ)) * Uᴴ := by
    have := hR.spectral_theorem
    rw [Unitary.conjStarAlgAut_apply] at this
    exact this
  have htr : (R * R).trace = ∑ i, ((lam i : ℝ) : ℂ) ^ 2 := by
    conv_lhs => rw [hspec]
    have : U * diagonal (fun i => ((lam i : ℝ) : ℂ)) * Uᴴ * (U * diagonal (fun i => ((lam i : ℝ) : ℂ)) * Uᴴ)
        = U * (diagonal (fun i => ((lam i : ℝ) : ℂ)) * (Uᴴ * U) * diagonal (fun i => ((lam i : ℝ) : ℂ))) * Uᴴ := by
      simp only [Matrix.mul_assoc]
    rw [this, hU1, Matrix.mul_one, diagonal_mul_diagonal, Matrix.trace_mul_cycle, hU1, Matrix.one_mul,
      Matrix.trace_diagonal]
    apply Finset.sum_congr rfl; intro i _; ring
  have hsum : ∑ i, (lam i) ^ 2 ≤ ε ^ 2 := by
    have : ((R * R).trace).re = ∑ i, (lam i) ^ 2 := by
      rw [htr, Complex.re_sum]
      apply Finset.sum_congr rfl; intro i _
      rw [← Complex.ofReal_pow, Complex.ofReal_re]
    rw [← this]; exact h
  have hl : ∀ i, 0 ≤ lam i + ε := by
    intro i
    have h1 : (lam i) ^ 2 ≤ ε ^ 2 :=
      le_trans (Finset.single_le_sum (f := fun i => (lam i) ^ 2) (fun j _ => sq_nonneg _) (Finset.mem_univ i)) hsum
    have := abs_le_of_sq_le_sq h1 hε
    linarith [neg_le_of_abs_le this]
  have hpsd := QM.Psd.conj_diag_psd (𝕜 := ℂ) U (fun i => lam i + ε) hl
  have heq : R + (ε : ℂ) • (1 : Matrix n n ℂ)
      = U * diagonal (fun i => (((lam i + ε : ℝ)) : ℂ)) * Uᴴ := by
    have hd : diagonal (fun i => (((lam i + ε : ℝ)) : ℂ))
        = diagonal (fun i => ((lam i : ℝ) : ℂ)) + (ε : ℂ) • (1 : Matrix n n ℂ) := by
      ext i j
      by_cases hij : i = j
      · subst hij; simp
      · simp [hij]
    rw [hd, Matrix.mul_add, Matrix.add_mul, ← hspec, Matrix.mul_smul, Matrix.smul_mul, Matrix.mul_one, hU2]
  rw [heq]
  exact hpsd


section gentables
open QGen.C17

theorem prodTuples_two_join (A B : List String) :
    (prodTuples [A, B]).map String.join = A.flatMap fun a => B.map fun b => a ++ b := by
  simp only [prodTuples, List.map_flatMap, List.flatMap_map, List.map_map, List.flatMap_cons, List.flatMap_nil,
    List.map_cons, List.map_nil, List.append_nil]
  simp [String.join, List.map_eq_flatMap]
end gentables

section certhelpers
variable {n : Nat}
theorem toM_diag (v : Vec ℂ n) : (diag v).toM = diagonal (fun i => v.get i) := by
  ext i j
  by_cases h : i = j
  · subst h; simp [diag]
  · simp [diag, h]

theorem frob2_eq_trace {m k : Nat} (A : Mat ℂ m k) : frob2 A = (A.toMᴴ * A.toM).trace := by
  simp only [frob2, fsum_eq_sum, Matrix.trace, Matrix.diag_apply, Matrix.mul_apply,
    Matrix.conjTranspose_apply, Mat.toM_apply, conj_eq_star]
  rw [Finset.sum_comm]

theorem trMul_eq_trace {k : Nat} (A C : Mat ℂ k k) : trMul A C = (A.toM * C.toM).trace := by
  simp [trMul, fsum_eq_sum, Matrix.trace, Matrix.mul_apply]

end certhelpers

section choihelpers
variable {n : Type} [Fintype n] [DecidableEq n]
/-- Choi matrix `Σ_ij E_ij ⊗ Φ(E_ij)` of a map on matrices -/
def choi (Φ : Matrix n n ℂ → Matrix n n ℂ) : Matrix (n × n) (n × n) ℂ :=
  fun p q => Φ (Matrix.single p.1 q.1 1) p.2 q.2

/-- Choi matrix of `ρ ↦ KρKᴴ` is the rank-one matrix `|vec K⟩⟩⟨⟨vec K|` -/
theorem choi_conj (K : Matrix n n ℂ) :
    choi (fun ρ => K * ρ * Kᴴ) = vecMulVec (fun p : n × n => K p.2 p.1) (star fun p : n × n => K p.2 p.1) := by
  ext p q
  simp [choi, vecMulVec_apply, Matrix.mul_apply, Matrix.single_apply, Matrix.conjTranspose_apply,
    Finset.sum_mul, ite_and]

end choihelpers

end QM.C17
