import QModel.C17
import QProofs.C18
import QProofs.Psd
import Mathlib.Analysis.Matrix.Spectrum
/-! helper lemmas for C17: a Hermitian matrix of Frobenius norm ≤ ε is ≥ −ε·1 (spectral theorem) -/
open Matrix
namespace QM.C17
open QM QM.C18
open scoped ComplexOrder

variable {n : Type} [Fintype n] [DecidableEq n]

theorem herm_add_eps_psd (R : Matrix n n ℂ) (hR : R.IsHermitian) (ε : ℝ) (hε : 0 ≤ ε)
    (h : (R * R).trace.re ≤ ε ^ 2) : (R + (ε : ℂ) • (1 : Matrix n n ℂ)).PosSemidef := by
  set U : Matrix n n ℂ := (hR.eigenvectorUnitary : Matrix n n ℂ) with hUdef
  have hU1 : Uᴴ * U = 1 := by
    have := (hR.eigenvectorUnitary).2
    exact (Matrix.mem_unitaryGroup_iff'.mp this)
  have hU2 : U * Uᴴ = 1 := by
    have := (hR.eigenvectorUnitary).2
    exact (Matrix.mem_unitaryGroup_iff.mp this)
  set lam := hR.eigenvalues with hlam
  have hspec : R = U * diagonal (fun i => ((lam i : ℝ) : ℂ)) * Uᴴ := by
    have := hR.spectral_theorem
    rw [Unitary.conjStarAlgAut_apply] at this
    exact this
  have htr : (R * R).trace = ∑ i, ((lam i : ℝ) : ℂ) ^ 2 := by
    conv_lhs => rw [hspec]
    have : U * diagonal (fun i => ((lam i : ℝ) : ℂ)) * Uᴴ * (U * diagonal (fun i => ((lam i : ℝ) : ℂ)) * Uᴴ)
        = U * (diagonal (fun i => ((lam i : ℝ) : ℂ)) * (Uᴴ * U) * diagonal (fun i => ((lam i : ℝ) : ℂ))) * Uᴴ := by
      simp only [Matrix.mul_assoc]
    rw [this, hU1, Matrix.mul_one, diagonal_mul_diagonal, Matrix.trace_mul_cycle, hU1, Matrix.one_mul,
      Matrix.trace_diagonal]
    apply Finset.sum_congr rfl; intro i _; ring
  have hsum : ∑ i, (lam i) ^ 2 ≤ ε ^ 2 := by
    have : ((R * R).trace).re = ∑ i, (lam i) ^ 2 := by
      rw [htr, Complex.re_sum]
      apply Finset.sum_congr rfl; intro i _
      rw [← Complex.ofReal_pow, Complex.ofReal_re]
    rw [← this]; exact h
  have hl : ∀ i, 0 ≤ lam i + ε := by
    intro i
    have h1 : (lam i) ^ 2 ≤ ε ^ 2 :=
      le_trans (Finset.single_le_sum (f := fun i => (lam i) ^ 2) (fun j _ => sq_nonneg _) (Finset.mem_univ i)) hsum
    have := abs_le_of_sq_le_sq h1 hε
    linarith [neg_le_of_abs_le this]
  have hpsd := QM.Psd.conj_diag_psd (𝕜 := ℂ) U (fun i => lam i + ε) hl
  have heq : R + (ε : ℂ) • (1 : Matrix n n ℂ)
      = U * diagonal (fun i => (((lam i + ε : ℝ)) : ℂ)) * Uᴴ := by
    have hd : diagonal (fun i => (((lam i + ε : ℝ)) : ℂ))
        = diagonal (fun i => ((lam i : ℝ) : ℂ)) + (ε : ℂ) • (1 : Matrix n n ℂ) := by
      ext i j
      by_cases hij : i = j
      · subst hij; simp
      · simp [hij]
    rw [hd, Matrix.mul_add, Matrix.add_mul, ← hspec, Matrix.mul_smul, Matrix.smul_mul, Matrix.mul_one, hU2]
  rw [heq]
  exact hpsd

end QM.C17
