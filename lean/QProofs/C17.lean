import QModel.C17
import QProofs.C18
import QProofs.Psd
import Mathlib.Analysis.Matrix.Spectrum
/-! helper lemmas for C17: a Hermitian matrix of Frobenius norm ≤ ε is ≥ −ε·1 (spectral theorem) -/
open Matrix
namespace QM.C17
open QM QM.C18
open scoped ComplexOrder

variable {n : Type} [Fintype n] [DecidableEq n]

theorem herm_add_eps_psd (R : Matrix n n ℂ) (hR : R.IsHermitian) (ε : ℝ) (hε : 0 ≤ ε)
    (h : (R * R).trace.re ≤ ε ^ 2) : (R + (ε : ℂ) • (1 : Matrix n n ℂ)).PosSemidef := by
  set U : Matrix n n ℂ := (hR.eigenvectorUnitary : Matrix n n ℂ) with hUdef
  have hU1 : Uᴴ * U = 1 := by
    have := (hR.eigenvectorUnitary).2
    exact (Matrix.mem_unitaryGroup_iff'.mp this)
  have hU2 : U * Uᴴ = 1 := by
    have := (hR.eigenvectorUnitary).2
    exact (Matrix.mem_unitaryGroup_iff.mp this)
  set lam := hR.eigenvalues with hlam
  have hspec : R = U * diagonal (fun i => ((lam i : ℝ) : ℂ)) * Uᴴ := by
    have := hR.spectral_theorem
    rw [Unitary.conjStarAlgAut_apply] at this
    exact this
  have htr : (R * R).trace = ∑ i, ((lam i : ℝ) : ℂ) ^ 2 := by
    conv_lhs => rw [hspec]
    have : U * diagonal (fun i => ((lam i : ℝ) : ℂ)) * Uᴴ * (U * diagonal (fun i => ((lam i : ℝ) : ℂ)) * Uᴴ)
        = U * (diagonal (fun i => ((lam i : ℝ) : ℂ)) * (Uᴴ * U) * diagonal (fun i => ((lam i : ℝ) : ℂ))) * Uᴴ := by
      simp only [Matrix.mul_assoc]
    rw [this, hU1, Matrix.mul_one, diagonal_mul_diagonal, Matrix.trace_mul_cycle, hU1, Matrix.one_mul,
      Matrix.trace_diagonal]
    apply Finset.sum_congr rfl; intro i _; ring
  have hsum : ∑ i, (lam i) ^ 2 ≤ ε ^ 2 := by
    have : ((R * R).trace).re = ∑ i, (lam i) ^ 2 := by
      rw [htr, Complex.re_sum]
      apply Finset.sum_congr rfl; intro i _
      rw [← Complex.ofReal_pow, Complex.ofReal_re]
    rw [← this]; exact h
  have hl : ∀ i, 0 ≤ lam i + ε := by
    intro i
    have h1 : (lam i) ^ 2 ≤ ε ^ 2 :=
      le_trans (Finset.single_le_sum (f := fun i => (lam i) ^ 2) (fun j _ => sq_nonneg _) (Finset.mem_univ i)) hsum
    have := abs_le_of_sq_le_sq h1 hε
    linarith [neg_le_of_abs_le this]
  have hpsd := QM.Psd.conj_diag_psd (𝕜 := ℂ) U (fun i => lam i + ε) hl
  have heq : R + (ε : ℂ) • (1 : Matrix n n ℂ)
      = U * diagonal (fun i => (((lam i + ε : ℝ)) : ℂ)) * Uᴴ := by
    have hd : diagonal (fun i => (((lam i + ε : ℝ)) : ℂ))
        = diagonal (fun i => ((lam i : ℝ) : ℂ)) + (ε : ℂ) • (1 : Matrix n n ℂ) := by
      ext i j
      by_cases hij : i = j
      · subst hij; simp
      · simp [hij]
    rw [hd, Matrix.mul_add, Matrix.add_mul, ← hspec, Matrix.mul_smul, Matrix.smul_mul, Matrix.mul_one, hU2]
  rw [heq]
  exact hpsd


section certbridge
open scoped ComplexOrder
variable {n : Nat}

/-- squared Frobenius norm of a complex matrix: `tr(RᴴR)` (a non-negative real) -/
noncomputable def frobSq {m k : Nat} (R : Matrix (Fin m) (Fin k) ℂ) : ℝ := (Rᴴ * R).trace.re

theorem frobSq_eq_zero {m k : Nat} (R : Matrix (Fin m) (Fin k) ℂ) (h : frobSq R ≤ 0) : R = 0 := by
  have hpsd := Matrix.posSemidef_conjTranspose_mul_self R
  have hnn : 0 ≤ (Rᴴ * R).trace := hpsd.trace_nonneg
  have hre : (Rᴴ * R).trace.re = 0 := le_antisymm h (Complex.nonneg_iff.mp hnn).1
  have him : (Rᴴ * R).trace.im = 0 := ((Complex.nonneg_iff.mp hnn).2).symm
  have : (Rᴴ * R).trace = 0 := Complex.ext hre him
  exact Matrix.trace_conjTranspose_mul_self_eq_zero_iff.mp this

/-- Matrix-level core of `psdCert` soundness -/
theorem psd_of_cert_matrix (M V : Matrix (Fin n) (Fin n) ℂ) (dg : Fin n → ℝ) (hd : ∀ i, 0 ≤ dg i) (ε : ℝ) (hε : 0 ≤ ε)
    (hM : Mᴴ = M) (h : frobSq (M - V * diagonal (fun i => ((dg i : ℝ) : ℂ)) * Vᴴ) ≤ ε ^ 2) :
    (M + (ε : ℂ) • (1 : Matrix (Fin n) (Fin n) ℂ)).PosSemidef := by
  set P : Matrix (Fin n) (Fin n) ℂ := V * diagonal (fun i => ((dg i : ℝ) : ℂ)) * Vᴴ with hP
  have hPpsd : P.PosSemidef := QM.Psd.conj_diag_psd (𝕜 := ℂ) V dg hd
  have hRh : (M - P).IsHermitian := by
    unfold Matrix.IsHermitian
    rw [Matrix.conjTranspose_sub, hM, hPpsd.isHermitian.eq]
  have hR := herm_add_eps_psd (M - P) hRh ε hε (by
    unfold frobSq at h
    rw [hRh.eq] at h
    exact h)
  have : M + (ε : ℂ) • (1 : Matrix (Fin n) (Fin n) ℂ) = P + (M - P + (ε : ℂ) • 1) := by abel
  rw [this]
  exact hPpsd.add hR

/-- `frob2` of the executed model is `tr(AᴴA)` (any field with involution, in particular `CRat`) -/
theorem frob2_eq_trace' {K : Type} [Field K] [StarRing K] {m k : Nat} (A : Mat K m k) :
    frob2 A = (A.toMᴴ * A.toM).trace := by
  simp only [frob2, fsum_eq_sum, Matrix.trace, Matrix.diag_apply, Matrix.mul_apply,
    Matrix.conjTranspose_apply, Mat.toM_apply, conj_eq_star]
  rw [Finset.sum_comm]

theorem frob2_re_cast {m k : Nat} (A : Mat CRat m k) : (((frob2 A).re : ℚ) : ℝ) = frobSq (mapC A) := by
  unfold frobSq
  rw [show (((frob2 A).re : ℚ) : ℝ) = (CRat.toC (frob2 A)).re from rfl]
  congr 1
  have h := frob2_eq_trace' A
  have hconj : (mapC A)ᴴ = (A.toMᴴ).map CRat.toC := by
    ext i j; simp [mapC, Matrix.conjTranspose_apply, CRat.toC_star]
  rw [h, hconj, mapC, ← Matrix.map_mul, ← AddMonoidHom.map_trace]

theorem mapC_diag (v : Vec CRat n) : mapC (diag v) = diagonal (fun i => CRat.toC (v.get i)) := by
  ext i j
  by_cases h : i = j
  · subst h; simp [mapC, diag]
  · simp [mapC, diag, h]

theorem toC_clipPos (lam : Vec Rat n) (i : Fin n) :
    CRat.toC ((clipPos lam).get i) = (((max ((lam.get i : ℚ) : ℝ) 0 : ℝ)) : ℂ) := by
  apply Complex.ext
  · by_cases h : lam.get i < 0
    · have h' : ((lam.get i : ℚ) : ℝ) ≤ 0 := by exact_mod_cast le_of_lt h
      simp [clipPos, CRat.ofRat, Vec.get_ofFn, h, max_eq_right h']
    · have h' : (0 : ℝ) ≤ ((lam.get i : ℚ) : ℝ) := by exact_mod_cast not_lt.mp h
      simp [clipPos, CRat.ofRat, Vec.get_ofFn, h, max_eq_left h']
  · simp [clipPos, CRat.ofRat, Vec.get_ofFn]

theorem mapC_add' {m k : Nat} (A B : Mat CRat m k) : mapC (A.add B) = mapC A + mapC B := by
  ext i j; simp [mapC, Mat.add]
theorem mapC_zero' {m k : Nat} : mapC (Mat.zero : Mat CRat m k) = 0 := by
  ext i j; simp [mapC, Mat.zero]

theorem mapC_foldl_add (Ms : List (Mat CRat n n)) (acc : Mat CRat n n) :
    mapC (Ms.foldl Mat.add acc) = mapC acc + (Ms.map mapC).sum := by
  induction Ms generalizing acc with
  | nil => simp
  | cons M Ms ih => simp [List.foldl_cons, ih, mapC_add', add_assoc]

theorem mapC_sumResid (Ms : List (Mat CRat n n)) : mapC (sumResid Ms) = (Ms.map mapC).sum - 1 := by
  unfold sumResid
  rw [mapC_sub, mapC_foldl_add, mapC_zero', zero_add, mapC_one]

theorem trMul_eq_trace' {K : Type} [Field K] {k : Nat} (A C : Mat K k k) : trMul A C = (A.toM * C.toM).trace := by
  simp [trMul, fsum_eq_sum, Matrix.trace, Matrix.mul_apply]

/-- the model's `hsOfUnitary`, entrywise in `ℂ`: `tr(B_aᴴ · U B_b Uᴴ)` -/
theorem mapC_hsOfUnitary {d : Nat} (B : Basis CRat d) (U : Mat CRat d d) (a b : Fin (d * d)) :
    mapC (hsOfUnitary B U) a b
      = ((mapC (B.get a))ᴴ * (mapC U * mapC (B.get b) * (mapC U)ᴴ)).trace := by
  rw [mapC_apply]
  simp only [hsOfUnitary, Mat.get_ofFn]
  rw [trMul_eq_trace', ← mapC_adj, ← mapC_adj, ← mapC_mul, ← mapC_mul, ← mapC_mul]
  simp only [mapC, ← AddMonoidHom.map_trace, Mat.toM_mul]
end certbridge

section sums
theorem sum4 {M : Type} [AddCommMonoid M] {n : Nat} (f : Fin n → Fin n → Fin n → Fin n → M) :
    ∑ r, ∑ c, ∑ x, ∑ i, f r c x i = ∑ i, ∑ x, ∑ c, ∑ r, f r c x i := by
  have e1 : ∀ r c, ∑ x, ∑ i, f r c x i = ∑ i, ∑ x, f r c x i := fun r c => Finset.sum_comm
  simp_rw [e1]
  have e2 : ∀ r, ∑ c, ∑ i, ∑ x, f r c x i = ∑ i, ∑ x, ∑ c, f r c x i := by
    intro r; rw [Finset.sum_comm]; apply Finset.sum_congr rfl; intro i _; exact Finset.sum_comm
  simp_rw [e2]
  rw [Finset.sum_comm]; apply Finset.sum_congr rfl; intro i _
  rw [Finset.sum_comm]; apply Finset.sum_congr rfl; intro x _
  exact Finset.sum_comm

end sums

section gentables
open QGen.C17

theorem prodTuples_two_join (A B : List String) :
    (prodTuples [A, B]).map String.join = A.flatMap fun a => B.map fun b => a ++ b := by
  simp only [prodTuples, List.map_flatMap, List.flatMap_map, List.map_map, List.flatMap_cons, List.flatMap_nil,
    List.map_cons, List.map_nil, List.append_nil]
  simp [String.join, List.map_eq_flatMap]
end gentables

section certhelpers
variable {n : Nat}
theorem toM_diag (v : Vec ℂ n) : (diag v).toM = diagonal (fun i => v.get i) := by
  ext i j
  by_cases h : i = j
  · subst h; simp [diag]
  · simp [diag, h]

theorem frob2_eq_trace {m k : Nat} (A : Mat ℂ m k) : frob2 A = (A.toMᴴ * A.toM).trace := by
  simp only [frob2, fsum_eq_sum, Matrix.trace, Matrix.diag_apply, Matrix.mul_apply,
    Matrix.conjTranspose_apply, Mat.toM_apply, conj_eq_star]
  rw [Finset.sum_comm]

theorem trMul_eq_trace {k : Nat} (A C : Mat ℂ k k) : trMul A C = (A.toM * C.toM).trace := by
  simp [trMul, fsum_eq_sum, Matrix.trace, Matrix.mul_apply]

end certhelpers

section choihelpers
variable {n : Type} [Fintype n] [DecidableEq n]
/-- Choi matrix `Σ_ij E_ij ⊗ Φ(E_ij)` of a map on matrices -/
def choi (Φ : Matrix n n ℂ → Matrix n n ℂ) : Matrix (n × n) (n × n) ℂ :=
  fun p q => Φ (Matrix.single p.1 q.1 1) p.2 q.2

/-- Choi matrix of `ρ ↦ KρKᴴ` is the rank-one matrix `|vec K⟩⟩⟨⟨vec K|` -/
theorem choi_conj (K : Matrix n n ℂ) :
    choi (fun ρ => K * ρ * Kᴴ) = vecMulVec (fun p : n × n => K p.2 p.1) (star fun p : n × n => K p.2 p.1) := by
  ext p q
  simp [choi, vecMulVec_apply, Matrix.mul_apply, Matrix.single_apply, Matrix.conjTranspose_apply,
    Finset.sum_mul, ite_and]

end choihelpers

end QM.C17
