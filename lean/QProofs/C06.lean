import QModel.C06
import QProofs.Bridge
import Mathlib.Tactic.Ring
import Mathlib.Tactic.FieldSimp
import Mathlib.Tactic.Linarith
import Mathlib.Algebra.Order.Field.Rat
/-! helper lemmas for C06 -/
open Matrix
namespace QM.C06
open QM

/-! ## list layout: nested loops `for a in l: for b in fs: g a b` are row-major in `(a, b)` -/

theorem length_flatMap_map {α β γ : Type} (l : List α) (fs : List β) (g : α → β → γ) :
    (l.flatMap fun a => fs.map (g a)).length = l.length * fs.length := by
  induction l with
  | nil => simp
  | cons a l ih => simp [List.flatMap_cons, ih, Nat.succ_mul, Nat.add_comm]

theorem getElem?_flatMap_map {α β γ : Type} (l : List α) (fs : List β) (g : α → β → γ)
    (i j : Nat) (a : α) (b : β) (hi : l[i]? = some a) (hj : fs[j]? = some b) :
    (l.flatMap fun a => fs.map (g a))[i * fs.length + j]? = some (g a b) := by
  have hjlt : j < fs.length := by
    rcases Nat.lt_or_ge j fs.length with h | h
    · exact h
    · rw [List.getElem?_eq_none h] at hj; cases hj
  induction l generalizing i with
  | nil => simp at hi
  | cons x l ih =>
    cases i with
    | zero =>
      simp only [List.getElem?_cons_zero, Option.some.injEq] at hi
      subst hi
      simp only [List.flatMap_cons, Nat.zero_mul, Nat.zero_add]
      rw [List.getElem?_append_left (by simpa using hjlt)]
      simp [hj]
    | succ i =>
      simp only [List.getElem?_cons_succ] at hi
      simp only [List.flatMap_cons]
      rw [List.getElem?_append_right (by simp [Nat.succ_mul]; omega)]
      have : (i + 1) * fs.length + j - (fs.map (g x)).length = i * fs.length + j := by
        simp [Nat.succ_mul]; omega
      rw [this]
      exact ih i hi

/-! ## sums -/
section sums
variable {K : Type} [CommRing K]

theorem lsum_map_mul_left {α : Type} (c : K) (l : List α) (f : α → K) :
    lsum (l.map fun a => c * f a) = c * lsum (l.map f) := by
  induction l with
  | nil => simp [lsum]
  | cons a l ih => simp only [List.map_cons, lsum, List.foldr_cons] at *; rw [ih]; ring

theorem lsum_append (a b : List K) : lsum (a ++ b) = lsum a + lsum b := by
  simp [lsum_eq_sum]

theorem lsum_fsum_swap {α : Type} {n : Nat} (l : List α) (f : α → Fin n → K) :
    lsum (l.map fun a => fsum n (f a)) = fsum n fun i => lsum (l.map fun a => f a i) := by
  induction l with
  | nil => simp [lsum, fsum_eq_sum]
  | cons a l ih =>
    simp only [List.map_cons, lsum, List.foldr_cons] at *
    rw [ih]; simp [fsum_eq_sum, Finset.sum_add_distrib]

end sums

theorem lsum_map_div {K : Type} [Field K] (l : List K) (s : K) :
    lsum (l.map (· / s)) = lsum l / s := by
  induction l with
  | nil => simp [lsum]
  | cons a l ih => simp only [List.map_cons, lsum, List.foldr_cons] at *; rw [ih, add_div]

theorem List.zip_self_eq_map {α : Type} (l : List α) : l.zip l = l.map fun a => (a, a) := by
  induction l with
  | nil => rfl
  | cons a l ih => simp [ih]

/-! ## kernels as Mathlib matrix operations -/
section bridge
variable {K : Type} [CommRing K] {n : Nat}

theorem toV_vecMat (v : Vec K n) (A : Mat K n n) :
    Vec.toV (vecMat v A) = Matrix.vecMul (Vec.toV v) A.toM := by
  funext j; simp [vecMat, Matrix.vecMul, dotProduct, fsum_eq_sum, Vec.toV]

theorem dot_vecMat (v : Vec K n) (A : Mat K n n) (r : Vec K n) :
    (vecMat v A).dot r = v.dot (A.mulVec r) := by
  rw [Vec.dot_eq, Vec.dot_eq, toV_vecMat, Mat.toV_mulVec, Matrix.dotProduct_mulVec]

theorem toV_transpose_mulVec (v : Vec K n) (A : Mat K n n) :
    Vec.toV (A.transpose.mulVec v) = Matrix.vecMul (Vec.toV v) A.toM := by
  rw [Mat.toV_mulVec, Mat.toM_transpose, Matrix.mulVec_transpose]

theorem transpose_mulVec_eq_vecMat (v : Vec K n) (A : Mat K n n) :
    A.transpose.mulVec v = vecMat v A := by
  apply Vec.toV_injective; rw [toV_transpose_mulVec, toV_vecMat]

theorem mulVec_mulVec (A B : Mat K n n) (v : Vec K n) :
    (A.mul B).mulVec v = A.mulVec (B.mulVec v) := by
  apply Vec.toV_injective; simp [Matrix.mulVec_mulVec]

theorem mul_assoc' (A B C : Mat K n n) : (A.mul B).mul C = A.mul (B.mul C) := by
  apply Mat.toM_injective; simp [Matrix.mul_assoc]

theorem mul_one' (A : Mat K n n) : A.mul Mat.one = A := by
  apply Mat.toM_injective; simp

end bridge

/-- the HS matrix of a gate object -/
def gateOf {n : Nat} : QOp n → Mat Rat n n
  | .gate _ A => A
  | _ => Mat.one

/-- right-nested product of the HS matrices of a chain of gates -/
def gateProd {n : Nat} : List (QOp n) → Mat Rat n n
  | [] => Mat.one
  | [x] => gateOf x
  | x :: xs => (gateOf x).mul (gateProd xs)

theorem one_mul'' {n : Nat} (A : Mat Rat n n) : (Mat.one : Mat Rat n n).mul A = A := by
  apply Mat.toM_injective; simp

theorem gateProd_cons {n : Nat} (x : QOp n) (xs : List (QOp n)) (h : xs ≠ []) :
    gateProd (x :: xs) = (gateOf x).mul (gateProd xs) := by
  cases xs with
  | nil => exact absurd rfl h
  | cons y ys => rfl

theorem gateProd_append {n : Nat} (a b : List (QOp n)) (ha : a ≠ []) (hb : b ≠ []) :
    gateProd (a ++ b) = (gateProd a).mul (gateProd b) := by
  induction a with
  | nil => exact absurd rfl ha
  | cons x xs ih =>
    cases xs with
    | nil => simp [gateProd_cons x b hb, gateProd]
    | cons y ys =>
      have := ih (by simp)
      have e1 : gateProd (x :: (y :: ys ++ b)) = (gateOf x).mul (gateProd (y :: ys ++ b)) :=
        gateProd_cons x _ (by simp)
      have e2 : gateProd (x :: y :: ys) = (gateOf x).mul (gateProd (y :: ys)) :=
        gateProd_cons x _ (by simp)
      rw [List.cons_append, e1, this, e2, mul_assoc']

theorem leaves_ne_nil {n : Nat} (t : Tree n) : t.leaves ≠ [] := by
  induction t with
  | leaf x => simp [Tree.leaves]
  | node l r ihl _ => simp [Tree.leaves, ihl]

section ratlemmas
variable {n : Nat}
/-- a gate commutes with the normalisation of post-measurement states -/
theorem mulVec_vdiv (G : Mat Rat n n) (r : Vec Rat n) (p : Rat) :
    G.mulVec (vdiv r p) = vdiv (G.mulVec r) p := by
  apply Vec.ext'; intro i
  simp only [Mat.mulVec, vdiv, Vec.get_ofFn, fsum_eq_sum, div_eq_mul_inv, Finset.sum_mul, mul_assoc]

theorem mulVec_zero_vec (G : Mat Rat n n) : G.mulVec (Vec.zero : Vec Rat n) = Vec.zero := by
  apply Vec.ext'; intro i
  simp [Mat.mulVec, Vec.zero, fsum_eq_sum]

end ratlemmas

/-- helper: the distribution constructor keeps the requested shape -/
theorem ctor_shape (ps : List Rat) (shape : List Nat) (eps : Rat) (d : Dist)
    (h : QM.C16.ctor ps shape eps = .ok d) : d.shape = shape := by
  unfold QM.C16.ctor at h
  simp only [bind, Except.bind, pure, Except.pure] at h
  repeat (split at h <;> try cases h)
  all_goals (first | rfl | (injection h with h; subst h; rfl))


/-- reported shape of a distribution-carrying result (for the labelling witnesses) -/
def distShape {n : Nat} : Except Err (QOp n) → Option (List Nat × List Rat)
  | .ok (.ensemble _ _ d _) => some (d.shape, d.ps)
  | .ok (.dist d) => some (d.shape, d.ps)
  | _ => none
end QM.C06
