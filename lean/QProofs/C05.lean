import QModel.C05
import QProofs.C04
/-! helper lemmas for C05: the Dykstra loop of `QModel.C05` over a linearly ordered field. -/
open Finset
set_option linter.unusedSectionVars false
namespace QM.C05
open QM.C04

variable {K : Type} [Field K] [LinearOrder K] [IsStrictOrderedRing K] {N : Nat}

@[simp] theorem add_get (u v : Vec K N) (i : Fin N) : (u.add v).get i = u.get i + v.get i := by simp [Vec.add]
@[simp] theorem sub_get (u v : Vec K N) (i : Fin N) : (u.sub v).get i = u.get i - v.get i := by simp [Vec.sub]
@[simp] theorem zero_get (i : Fin N) : (Vec.zero : Vec K N).get i = 0 := by simp [Vec.zero]

/-- `x + p + q` of a state -/
def St.total (s : St K N) : Vec K N := (s.x.add s.p).add s.q

theorem St.ext' {s t : St K N} (hx : s.x = t.x) (hp : s.p = t.p) (hq : s.q = t.q) : s = t := by
  cases s; cases t; simp_all

theorem errVal_eq (s s' : St K N) :
    errVal s s' = ∑ i, ((s.p.get i - s'.p.get i) * (s.p.get i - s'.p.get i)
      + (s.q.get i - s'.q.get i) * (s.q.get i - s'.q.get i)) := by
  simp [errVal, fsum_eq_sum]

theorem errVal_nonneg (s s' : St K N) : 0 ≤ errVal s s' := by
  rw [errVal_eq]
  exact Finset.sum_nonneg fun i _ => add_nonneg (mul_self_nonneg _) (mul_self_nonneg _)

theorem errVal_eq_zero (s s' : St K N) (h : errVal s s' = 0) : s'.p = s.p ∧ s'.q = s.q := by
  rw [errVal_eq] at h
  have h' := (Finset.sum_eq_zero_iff_of_nonneg
    (fun i _ => add_nonneg (mul_self_nonneg (s.p.get i - s'.p.get i)) (mul_self_nonneg (s.q.get i - s'.q.get i)))).1 h
  constructor
  · apply Vec.ext'; intro i
    have := h' i (Finset.mem_univ i)
    have h1 : (s.p.get i - s'.p.get i) * (s.p.get i - s'.p.get i) = 0 := by
      nlinarith [mul_self_nonneg (s.p.get i - s'.p.get i), mul_self_nonneg (s.q.get i - s'.q.get i)]
    have := mul_self_eq_zero.1 h1
    linarith
  · apply Vec.ext'; intro i
    have := h' i (Finset.mem_univ i)
    have h1 : (s.q.get i - s'.q.get i) * (s.q.get i - s'.q.get i) = 0 := by
      nlinarith [mul_self_nonneg (s.p.get i - s'.p.get i), mul_self_nonneg (s.q.get i - s'.q.get i)]
    have := mul_self_eq_zero.1 h1
    linarith

theorem errVal_self (s : St K N) : errVal s s = 0 := by
  rw [errVal_eq]; simp

/-! ### the loop: generic induction principles -/

section loopind
variable (eps : K) (P1 P2 : Nat → Vec K N → Vec K N)

/-- the record written by sweep `k` from state `s` -/
def recOf (k : Nat) (s : St K N) : Rec K N :=
  ⟨k, s, (sweep (P1 k) (P2 k) s).1, (sweep (P1 k) (P2 k) s).2,
    if 1 ≤ k then some (errVal s (sweep (P1 k) (P2 k) s).1) else none⟩

/-- `is_stopping` of one sweep -/
def stopB (err : Option K) : Bool :=
  match err with
  | some e => decide (e < eps)
  | none => false

theorem stopB_true (err : Option K) (h : stopB eps err = true) : ∃ e, err = some e ∧ e < eps := by
  cases err with
  | none => simp [stopB] at h
  | some e => exact ⟨e, rfl, by simpa [stopB] using h⟩

theorem loop_succ (r k : Nat) (s : St K N) (acc : List (Rec K N)) :
    loop eps P1 P2 (r + 1) k s acc =
      if (stopB eps (recOf P1 P2 k s).err || r == 0) = true
      then ⟨(sweep (P1 k) (P2 k) s).1.x, recOf P1 P2 k s :: acc, k, r == 0⟩
      else loop eps P1 P2 r (k + 1) (sweep (P1 k) (P2 k) s).1 (recOf P1 P2 k s :: acc) := by
  rfl

/-- every record of the output is either an old one or the record `recOf j s_j` of a state reachable
under an invariant `I` that is preserved by sweeps -/
theorem loop_recs (I : Nat → St K N → Prop)
    (hI : ∀ k s, I k s → I (k + 1) (sweep (P1 k) (P2 k) s).1)
    (r k : Nat) (s : St K N) (acc : List (Rec K N)) (hs : I k s) :
    ∀ rec ∈ (loop eps P1 P2 r k s acc).recs, rec ∈ acc ∨ ∃ j t, I j t ∧ rec = recOf P1 P2 j t := by
  induction r generalizing k s acc with
  | zero => intro rec h; left; simpa [loop] using h
  | succ r ih =>
    intro rec h
    rw [loop_succ] at h
    by_cases hc : (stopB eps (recOf P1 P2 k s).err || r == 0) = true
    · rw [if_pos hc] at h
      simp only [List.mem_cons] at h
      rcases h with h | h
      · right; exact ⟨k, s, hs, h⟩
      · left; exact h
    · rw [if_neg hc] at h
      rcases ih (k + 1) _ _ (hI k s hs) rec h with h | h
      · simp only [List.mem_cons] at h
        rcases h with h | h
        · right; exact ⟨k, s, hs, h⟩
        · left; exact h
      · right; exact h

/-- the head of the output: the newest record is the record of some sweep `j` from some state `t`; the returned point is
its `next.x`; the loop variable is `j`; `k ≤ j ≤ k + r`; the warning flag is set exactly when `j` is the last permitted
sweep; and if it is not the last permitted sweep, the stopping criterion fired on that record -/
theorem loop_head (r k : Nat) (s : St K N) (acc : List (Rec K N)) :
    ∃ j t rest, (loop eps P1 P2 (r + 1) k s acc).recs = recOf P1 P2 j t :: rest ∧
      (loop eps P1 P2 (r + 1) k s acc).x = (sweep (P1 j) (P2 j) t).1.x ∧
      (loop eps P1 P2 (r + 1) k s acc).k = j ∧ k ≤ j ∧ j ≤ k + r ∧
      ((loop eps P1 P2 (r + 1) k s acc).warned = true ↔ j = k + r) ∧
      (j < k + r → ∃ e, (recOf P1 P2 j t).err = some e ∧ e < eps) := by
  induction r generalizing k s acc with
  | zero =>
    refine ⟨k, s, acc, ?_⟩
    rw [loop_succ]
    simp
  | succ r ih =>
    rw [loop_succ]
    by_cases hc : (stopB eps (recOf P1 P2 k s).err || r + 1 == 0) = true
    · rw [if_pos hc]
      refine ⟨k, s, acc, rfl, rfl, rfl, le_refl _, by omega, ?_, ?_⟩
      · simp
      · intro _
        have h0 : (r + 1 == 0) = false := by simp
        rw [h0, Bool.or_false] at hc
        exact stopB_true eps _ hc
    · rw [if_neg hc]
      obtain ⟨j, t, rest, h1, h2, h3, h4, h5, h6, h7⟩ :=
        ih (k + 1) (sweep (P1 k) (P2 k) s).1 (recOf P1 P2 k s :: acc)
      refine ⟨j, t, rest, h1, h2, h3, by omega, by omega, ?_, ?_⟩
      · rw [h6]; omega
      · intro hlt; exact h7 (by omega)

/-- number of records: one per executed sweep -/
theorem loop_length (r k : Nat) (s : St K N) (acc : List (Rec K N)) :
    (loop eps P1 P2 (r + 1) k s acc).recs.length = acc.length + ((loop eps P1 P2 (r + 1) k s acc).k - k + 1) ∧
      k ≤ (loop eps P1 P2 (r + 1) k s acc).k := by
  induction r generalizing k s acc with
  | zero => rw [loop_succ]; simp
  | succ r ih =>
    rw [loop_succ]
    by_cases hc : (stopB eps (recOf P1 P2 k s).err || r + 1 == 0) = true
    · rw [if_pos hc]; simp
    · rw [if_neg hc]
      obtain ⟨h1, h2⟩ := ih (k + 1) (sweep (P1 k) (P2 k) s).1 (recOf P1 P2 k s :: acc)
      refine ⟨?_, by omega⟩
      rw [h1]; simp only [List.length_cons]; omega

/-- records that are not the newest one did not satisfy the stopping criterion -/
theorem loop_tail_not_stopped (r k : Nat) (s : St K N) (acc : List (Rec K N)) :
    ∀ rec ∈ ((loop eps P1 P2 (r + 1) k s acc).recs).tail, rec ∈ acc ∨ ∀ e, rec.err = some e → ¬ e < eps := by
  induction r generalizing k s acc with
  | zero => intro rec h; left; rw [loop_succ] at h; simpa using h
  | succ r ih =>
    intro rec h
    rw [loop_succ] at h
    by_cases hc : (stopB eps (recOf P1 P2 k s).err || r + 1 == 0) = true
    · rw [if_pos hc] at h; left; simpa using h
    · rw [if_neg hc] at h
      rcases ih (k + 1) _ _ rec h with h | h
      · simp only [List.mem_cons] at h
        rcases h with h | h
        · right
          intro e he hlt
          apply hc
          rw [← h, he]
          simp [stopB, hlt]
        · left; exact h
      · right; exact h

end loopind
end QM.C05
