import QModel.C05
import QProofs.C04
/-! helper lemmas for C05: the Dykstra loop of `QModel.C05` over a linearly ordered field. -/
open Finset
set_option linter.unusedSectionVars false
namespace QM.C05
open QM.C04

variable {K : Type} [Field K] [LinearOrder K] [IsStrictOrderedRing K] {N : Nat}

@[simp] theorem add_get (u v : Vec K N) (i : Fin N) : (u.add v).get i = u.get i + v.get i := by simp [Vec.add]
@[simp] theorem sub_get (u v : Vec K N) (i : Fin N) : (u.sub v).get i = u.get i - v.get i := by simp [Vec.sub]
@[simp] theorem zero_get (i : Fin N) : (Vec.zero : Vec K N).get i = 0 := by simp [Vec.zero]

/-- `x + p + q` of a state -/
def St.total (s : St K N) : Vec K N := (s.x.add s.p).add s.q

theorem St.ext' {s t : St K N} (hx : s.x = t.x) (hp : s.p = t.p) (hq : s.q = t.q) : s = t := by
  cases s; cases t; simp_all

theorem errVal_eq (s s' : St K N) :
    errVal s s' = ∑ i, ((s.p.get i - s'.p.get i) * (s.p.get i - s'.p.get i)
      + (s.q.get i - s'.q.get i) * (s.q.get i - s'.q.get i)) := by
  simp [errVal, fsum_eq_sum]

theorem errVal_nonneg (s s' : St K N) : 0 ≤ errVal s s' := by
  rw [errVal_eq]
  exact Finset.sum_nonneg fun i _ => add_nonneg (mul_self_nonneg _) (mul_self_nonneg _)

theorem errVal_eq_zero (s s' : St K N) (h : errVal s s' = 0) : s'.p = s.p ∧ s'.q = s.q := by
  rw [errVal_eq] at h
  have h' := (Finset.sum_eq_zero_iff_of_nonneg
    (fun i _ => add_nonneg (mul_self_nonneg (s.p.get i - s'.p.get i)) (mul_self_nonneg (s.q.get i - s'.q.get i)))).1 h
  constructor
  · apply Vec.ext'; intro i
    have := h' i (Finset.mem_univ i)
    have h1 : (s.p.get i - s'.p.get i) * (s.p.get i - s'.p.get i) = 0 := by
      nlinarith [mul_self_nonneg (s.p.get i - s'.p.get i), mul_self_nonneg (s.q.get i - s'.q.get i)]
    have := mul_self_eq_zero.1 h1
    linarith
  · apply Vec.ext'; intro i
    have := h' i (Finset.mem_univ i)
    have h1 : (s.q.get i - s'.q.get i) * (s.q.get i - s'.q.get i) = 0 := by
      nlinarith [mul_self_nonneg (s.p.get i - s'.p.get i), mul_self_nonneg (s.q.get i - s'.q.get i)]
    have := mul_self_eq_zero.1 h1
    linarith

theorem errVal_self (s : St K N) : errVal s s = 0 := by
  rw [errVal_eq]; simp

/-! ### the loop: generic induction principles -/

section loopind
variable (eps : K) (P1 P2 : Nat → Vec K N → Vec K N)

/-- the record written by sweep `k` from state `s` -/
def recOf (k : Nat) (s : St K N) : Rec K N :=
  ⟨k, s, (sweep (P1 k) (P2 k) s).1, (sweep (P1 k) (P2 k) s).2,
    if 1 ≤ k then some (errVal s (sweep (P1 k) (P2 k) s).1) else none⟩

/-- `is_stopping` of one sweep -/
def stopB (err : Option K) : Bool :=
  match err with
  | some e => decide (e < eps)
  | none => false

theorem stopB_true (err : Option K) (h : stopB eps err = true) : ∃ e, err = some e ∧ e < eps := by
  cases err with
  | none => simp [stopB] at h
  | some e => exact ⟨e, rfl, by simpa [stopB] using h⟩

theorem loop_succ (r k : Nat) (s : St K N) (acc : List (Rec K N)) :
    loop eps P1 P2 (r + 1) k s acc =
      if (stopB eps (recOf P1 P2 k s).err || r == 0) = true
      then ⟨(sweep (P1 k) (P2 k) s).1.x, recOf P1 P2 k s :: acc, k, r == 0⟩
      else loop eps P1 P2 r (k + 1) (sweep (P1 k) (P2 k) s).1 (recOf P1 P2 k s :: acc) := by
  rfl

/-- every record of the output is either an old one or the record `recOf j s_j` of a state reachable
under an invariant `I` that is preserved by sweeps -/
theorem loop_recs (I : Nat → St K N → Prop)
    (hI : ∀ k s, I k s → I (k + 1) (sweep (P1 k) (P2 k) s).1)
    (r k : Nat) (s : St K N) (acc : List (Rec K N)) (hs : I k s) :
    ∀ rec ∈ (loop eps P1 P2 r k s acc).recs, rec ∈ acc ∨ ∃ j t, I j t ∧ rec = recOf P1 P2 j t := by
  induction r generalizing k s acc with
  | zero => intro rec h; left; simpa [loop] using h
  | succ r ih =>
    intro rec h
    rw [loop_succ] at h
    by_cases hc : (stopB eps (recOf P1 P2 k s).err || r == 0) = true
    · rw [if_pos hc] at h
      simp only [List.mem_cons] at h
      rcases h with h | h
      · right; exact ⟨k, s, hs, h⟩
      · left; exact h
    · rw [if_neg hc] at h
      rcases ih (k + 1) _ _ (hI k s hs) rec h with h | h
      · simp only [List.mem_cons] at h
        rcases h with h | h
        · right; exact ⟨k, s, hs, h⟩
        · left; exact h
      · right; exact h

/-- the head of the output: the newest record is the record of some sweep `j` from some state `t`; the returned point is
its `next.x`; the loop variable is `j`; `k ≤ j ≤ k + r`; the warning flag is set exactly when `j` is the last permitted
sweep; and if it is not the last permitted sweep, the stopping criterion fired on that record -/
theorem loop_head (r k : Nat) (s : St K N) (acc : List (Rec K N)) :
    ∃ j t rest, (loop eps P1 P2 (r + 1) k s acc).recs = recOf P1 P2 j t :: rest ∧
      (loop eps P1 P2 (r + 1) k s acc).x = (sweep (P1 j) (P2 j) t).1.x ∧
      (loop eps P1 P2 (r + 1) k s acc).k = j ∧ k ≤ j ∧ j ≤ k + r ∧
      ((loop eps P1 P2 (r + 1) k s acc).warned = true ↔ j = k + r) ∧
      (j < k + r → ∃ e, (recOf P1 P2 j t).err = some e ∧ e < eps) := by
  induction r generalizing k s acc with
  | zero =>
    refine ⟨k, s, acc, ?_⟩
    rw [loop_succ]
    simp
  | succ r ih =>
    rw [loop_succ]
    by_cases hc : (stopB eps (recOf P1 P2 k s).err || r + 1 == 0) = true
    · rw [if_pos hc]
      refine ⟨k, s, acc, rfl, rfl, rfl, le_refl _, by omega, ?_, ?_⟩
      · simp
      · intro _
        have h0 : (r + 1 == 0) = false := by simp
        rw [h0, Bool.or_false] at hc
        exact stopB_true eps _ hc
    · rw [if_neg hc]
      obtain ⟨j, t, rest, h1, h2, h3, h4, h5, h6, h7⟩ :=
        ih (k + 1) (sweep (P1 k) (P2 k) s).1 (recOf P1 P2 k s :: acc)
      refine ⟨j, t, rest, h1, h2, h3, by omega, by omega, ?_, ?_⟩
      · rw [h6]; omega
      · intro hlt; exact h7 (by omega)

/-- number of records: one per executed sweep -/
theorem loop_length (r k : Nat) (s : St K N) (acc : List (Rec K N)) :
    (loop eps P1 P2 (r + 1) k s acc).recs.length = acc.length + ((loop eps P1 P2 (r + 1) k s acc).k - k + 1) ∧
      k ≤ (loop eps P1 P2 (r + 1) k s acc).k := by
  induction r generalizing k s acc with
  | zero => rw [loop_succ]; simp
  | succ r ih =>
    rw [loop_succ]
    by_cases hc : (stopB eps (recOf P1 P2 k s).err || r + 1 == 0) = true
    · rw [if_pos hc]; simp
    · rw [if_neg hc]
      obtain ⟨h1, h2⟩ := ih (k + 1) (sweep (P1 k) (P2 k) s).1 (recOf P1 P2 k s :: acc)
      refine ⟨?_, by omega⟩
      rw [h1]; simp only [List.length_cons]; omega

/-- records that are not the newest one did not satisfy the stopping criterion -/
theorem loop_tail_not_stopped (r k : Nat) (s : St K N) (acc : List (Rec K N)) :
    ∀ rec ∈ ((loop eps P1 P2 (r + 1) k s acc).recs).tail, rec ∈ acc ∨ ∀ e, rec.err = some e → ¬ e < eps := by
  induction r generalizing k s acc with
  | zero => intro rec h; left; rw [loop_succ] at h; simpa using h
  | succ r ih =>
    intro rec h
    rw [loop_succ] at h
    by_cases hc : (stopB eps (recOf P1 P2 k s).err || r + 1 == 0) = true
    · rw [if_pos hc] at h; left; simpa using h
    · rw [if_neg hc] at h
      rcases ih (k + 1) _ _ rec h with h | h
      · simp only [List.mem_cons] at h
        rcases h with h | h
        · right
          intro e he hlt
          apply hc
          rw [← h, he]
          simp [stopB, hlt]
        · left; exact h
      · right; exact h

end loopind
/-! ### metric projections, normal cones, the Boyle–Dykstra potential, iterates -/

/-- a map is the metric projection onto the set `A` (characterised by membership + variational inequality) -/
def IsProj (A : Vec K N → Prop) (P : Vec K N → Vec K N) : Prop :=
  ∀ u, A (P u) ∧ ∀ z, A z → ip1 (u.sub (P u)) (z.sub (P u)) ≤ 0


/-- `p` is an outward normal of the set `A` at `y` -/
def NormalAt (A : Vec K N → Prop) (y p : Vec K N) : Prop := ∀ w, A w → ip1 p (w.sub y) ≤ 0

/-- Boyle–Dykstra potential of a state w.r.t. a point `z`: `‖x − z‖² + 2⟪p, y − z⟫ + 2⟪q, x − z⟫`
(`y` = the point at which the correction `p` is normal) -/
def lyap (z y : Vec K N) (s : St K N) : K :=
  sqd1 s.x z + 2 * ip1 s.p (y.sub z) + 2 * ip1 s.q (s.x.sub z)

/-- states after `k` sweeps, together with the last intermediate point `y` -/
def iterSY (P1 P2 : Nat → Vec K N → Vec K N) (x0 : Vec K N) : Nat → St K N × Vec K N
  | 0 => (⟨x0, Vec.zero, Vec.zero⟩, x0)
  | k + 1 => sweep (P1 k) (P2 k) (iterSY P1 P2 x0 k).1

theorem sweep_normal (A B : Vec K N → Prop) (P1 P2 : Vec K N → Vec K N) (h1 : IsProj A P1) (h2 : IsProj B P2)
    (s : St K N) :
    A (sweep P1 P2 s).2 ∧ B (sweep P1 P2 s).1.x ∧
      NormalAt A (sweep P1 P2 s).2 (sweep P1 P2 s).1.p ∧ NormalAt B (sweep P1 P2 s).1.x (sweep P1 P2 s).1.q :=
  ⟨(h1 _).1, (h2 _).1, fun w hw => (h1 _).2 w hw, fun w hw => (h2 _).2 w hw⟩

/-- one-sweep identity behind Boyle–Dykstra: potential before = potential after + stopping value + two non-negative terms -/
theorem lyap_identity (P1 P2 : Vec K N → Vec K N) (s : St K N) (y z : Vec K N) :
    lyap z y s = lyap z (sweep P1 P2 s).2 (sweep P1 P2 s).1 + errVal s (sweep P1 P2 s).1
      - 2 * ip1 s.p ((sweep P1 P2 s).2.sub y) - 2 * ip1 s.q ((sweep P1 P2 s).1.x.sub s.x) := by
  simp only [lyap, sqd1_eq, ip1, errVal_eq, sweep, sub_get, add_get, Finset.mul_sum, ← Finset.sum_add_distrib,
    ← Finset.sum_sub_distrib]
  apply Finset.sum_congr rfl; intro i _; ring

theorem lyap_ge (A B : Vec K N → Prop) (z y : Vec K N) (s : St K N) (hzA : A z) (hzB : B z)
    (hp : NormalAt A y s.p) (hq : NormalAt B s.x s.q) : sqd1 s.x z ≤ lyap z y s := by
  have h1 := hp z hzA
  have h2 := hq z hzB
  have e1 : ip1 s.p (y.sub z) = - ip1 s.p (z.sub y) := by
    simp only [ip1, sub_get, ← Finset.sum_neg_distrib]; apply Finset.sum_congr rfl; intro i _; ring
  have e2 : ip1 s.q (s.x.sub z) = - ip1 s.q (z.sub s.x) := by
    simp only [ip1, sub_get, ← Finset.sum_neg_distrib]; apply Finset.sum_congr rfl; intro i _; ring
  unfold lyap; rw [e1, e2]; linarith

/-- the stopping value of sweep `j` (between the states after `j` and `j+1` sweeps) -/
def errAt (P1 P2 : Nat → Vec K N → Vec K N) (x0 : Vec K N) (j : Nat) : K :=
  errVal (iterSY P1 P2 x0 j).1 (iterSY P1 P2 x0 (j + 1)).1

theorem ip1_zero_left (v : Vec K N) : ip1 (Vec.zero : Vec K N) v = 0 := by simp [ip1]

/-- `error_value` of sweep `j` as recorded (None for sweep 0) -/
def errOpt (P1 P2 : Nat → Vec K N → Vec K N) (x0 : Vec K N) (j : Nat) : Option K :=
  if 1 ≤ j then some (errAt P1 P2 x0 j) else none

theorem recOf_iter_err (P1 P2 : Nat → Vec K N → Vec K N) (x0 : Vec K N) (j : Nat) :
    (recOf P1 P2 j (iterSY P1 P2 x0 j).1).err = errOpt P1 P2 x0 j := rfl

theorem loop_iter (eps : K) (P1 P2 : Nat → Vec K N → Vec K N) (x0 : Vec K N) (r k : Nat) (acc : List (Rec K N)) :
    k ≤ (loop eps P1 P2 (r + 1) k (iterSY P1 P2 x0 k).1 acc).k ∧
    (loop eps P1 P2 (r + 1) k (iterSY P1 P2 x0 k).1 acc).k ≤ k + r ∧
    (loop eps P1 P2 (r + 1) k (iterSY P1 P2 x0 k).1 acc).x
      = (iterSY P1 P2 x0 ((loop eps P1 P2 (r + 1) k (iterSY P1 P2 x0 k).1 acc).k + 1)).1.x ∧
    (∀ j, k ≤ j → j < (loop eps P1 P2 (r + 1) k (iterSY P1 P2 x0 k).1 acc).k → stopB eps (errOpt P1 P2 x0 j) = false) ∧
    (stopB eps (errOpt P1 P2 x0 (loop eps P1 P2 (r + 1) k (iterSY P1 P2 x0 k).1 acc).k) = true ∨
      (loop eps P1 P2 (r + 1) k (iterSY P1 P2 x0 k).1 acc).k = k + r) := by
  induction r generalizing k acc with
  | zero =>
    rw [loop_succ]
    simp only [BEq.rfl, Bool.or_true, if_true]
    exact ⟨le_refl _, le_refl _, rfl, fun j h1 h2 => absurd h2 (by omega), Or.inr rfl⟩
  | succ r ih =>
    rw [loop_succ]
    have h0 : (r + 1 == 0) = false := by simp
    by_cases hc : (stopB eps (recOf P1 P2 k (iterSY P1 P2 x0 k).1).err || r + 1 == 0) = true
    · rw [if_pos hc]
      rw [h0, Bool.or_false, recOf_iter_err] at hc
      dsimp only
      exact ⟨le_refl _, Nat.le_add_right _ _, rfl, fun j h1 h2 => absurd h2 (by omega), Or.inl hc⟩
    · rw [if_neg hc]
      rw [h0, Bool.or_false, recOf_iter_err] at hc
      have e : (sweep (P1 k) (P2 k) (iterSY P1 P2 x0 k).1).1 = (iterSY P1 P2 x0 (k + 1)).1 := rfl
      rw [e]
      obtain ⟨a1, a2, a3, a4, a5⟩ := ih (k + 1) (recOf P1 P2 k (iterSY P1 P2 x0 k).1 :: acc)
      refine ⟨by omega, by omega, a3, ?_, ?_⟩
      · intro j hj1 hj2
        by_cases hjk : j = k
        · subst hjk; simpa using hc
        · exact a4 j (by omega) hj2
      · rcases a5 with h | h
        · exact Or.inl h
        · exact Or.inr (by omega)

/-- `stop at sweep j` as coded: `j ≥ 1` and the stopping value is `< eps` -/
def StopAt (eps : K) (P1 P2 : Nat → Vec K N → Vec K N) (x0 : Vec K N) (j : Nat) : Prop :=
  1 ≤ j ∧ errAt P1 P2 x0 j < eps

theorem stopB_errOpt (eps : K) (P1 P2 : Nat → Vec K N → Vec K N) (x0 : Vec K N) (j : Nat) :
    stopB eps (errOpt P1 P2 x0 j) = true ↔ StopAt eps P1 P2 x0 j := by
  unfold errOpt StopAt
  split
  · rename_i h; simp [stopB, h]
  · rename_i h; simp [stopB, h]


/-! ### congruence: only the values of the projections at the arguments actually passed matter -/

theorem loop_congr (eps : K) (P1 P2 P1' P2' : Nat → Vec K N → Vec K N) (x0 : Vec K N)
    (hs : ∀ k, sweep (P1 k) (P2 k) (iterSY P1' P2' x0 k).1 = sweep (P1' k) (P2' k) (iterSY P1' P2' x0 k).1)
    (r k : Nat) (acc : List (Rec K N)) :
    loop eps P1 P2 r k (iterSY P1' P2' x0 k).1 acc = loop eps P1' P2' r k (iterSY P1' P2' x0 k).1 acc := by
  induction r generalizing k acc with
  | zero => rfl
  | succ r ih =>
    have hrec : recOf P1 P2 k (iterSY P1' P2' x0 k).1 = recOf P1' P2' k (iterSY P1' P2' x0 k).1 := by
      simp only [recOf, hs k]
    rw [loop_succ, loop_succ, hrec, hs k]
    have e : (sweep (P1' k) (P2' k) (iterSY P1' P2' x0 k).1).1 = (iterSY P1' P2' x0 (k + 1)).1 := rfl
    rw [e, ih (k + 1)]

/-- the argument handed to the first / second projection in sweep `k` of the run driven by `P1' P2'` -/
def arg1 (P1' P2' : Nat → Vec K N → Vec K N) (x0 : Vec K N) (k : Nat) : Vec K N :=
  (iterSY P1' P2' x0 k).1.x.add (iterSY P1' P2' x0 k).1.p
def arg2 (P1' P2' : Nat → Vec K N → Vec K N) (x0 : Vec K N) (k : Nat) : Vec K N :=
  (P1' k (arg1 P1' P2' x0 k)).add (iterSY P1' P2' x0 k).1.q

/-! ### the recorded history is the sequence of iterates -/

theorem loop_recs_exact (eps : K) (P1 P2 : Nat → Vec K N → Vec K N) (x0 : Vec K N) (r k : Nat) (acc : List (Rec K N)) :
    (loop eps P1 P2 (r + 1) k (iterSY P1 P2 x0 k).1 acc).recs
      = ((List.range' k ((loop eps P1 P2 (r + 1) k (iterSY P1 P2 x0 k).1 acc).k + 1 - k)).map
          fun j => recOf P1 P2 j (iterSY P1 P2 x0 j).1).reverse ++ acc := by
  induction r generalizing k acc with
  | zero =>
    rw [loop_succ]
    simp only [BEq.rfl, Bool.or_true, if_true]
    simp
  | succ r ih =>
    rw [loop_succ]
    by_cases hc : (stopB eps (recOf P1 P2 k (iterSY P1 P2 x0 k).1).err || r + 1 == 0) = true
    · rw [if_pos hc]; simp
    · rw [if_neg hc]
      have e : (sweep (P1 k) (P2 k) (iterSY P1 P2 x0 k).1).1 = (iterSY P1 P2 x0 (k + 1)).1 := rfl
      rw [e, ih (k + 1)]
      have hk := (loop_iter eps P1 P2 x0 r (k + 1) (recOf P1 P2 k (iterSY P1 P2 x0 k).1 :: acc)).1
      set K' := (loop eps P1 P2 (r + 1) (k + 1) (iterSY P1 P2 x0 (k + 1)).1 (recOf P1 P2 k (iterSY P1 P2 x0 k).1 :: acc)).k
      have h1 : K' + 1 - k = (K' + 1 - (k + 1)) + 1 := by omega
      rw [h1, List.range'_succ]
      simp

/-! ### a genuine projection on ℚ² used by the examples: clipping of the second coordinate at 0 -/
def clip1 (v : Vec Rat 2) : Vec Rat 2 := Vec.ofFn fun i => if i.val = 1 ∧ v.get i < 0 then 0 else v.get i

theorem clip1_get (v : Vec Rat 2) (i : Fin 2) : (clip1 v).get i = if i.val = 1 ∧ v.get i < 0 then 0 else v.get i := by
  simp [clip1]

theorem isProj_clip : IsProj (fun v : Vec Rat 2 => 0 ≤ v.get 1) clip1 := by
  intro u
  refine ⟨?_, fun z hz => ?_⟩
  · show 0 ≤ (clip1 u).get 1
    rw [clip1_get]; split
    · exact le_refl _
    · rename_i h; simp at h; exact h
  · simp only [ip1, sub_get, clip1_get, Fin.sum_univ_two]
    by_cases h : u.get 1 < 0
    · simp [h]
      have : 0 ≤ z.get 1 := hz
      nlinarith
    · simp [h]

/-- the trace-preserving set of a gate on the flat HS vector: first row `e0` -/
def GateFlatFeas (n : Nat) (v : Vec K (n * n)) : Prop :=
  ∀ k : Fin (n * n), k.val < n → v.get k = if k.val = 0 then 1 else 0

theorem peqGate_get (n : Nat) (v : Vec K (n * n)) (k : Fin (n * n)) :
    (peqGate v).get k = if k.val = 0 then 1 else if k.val < n then 0 else v.get k := by
  simp [peqGate, Gate.projEqVar]

theorem ip1_sq_le (u v : Vec K N) : ip1 u v * ip1 u v ≤ ip1 u u * ip1 v v := by
  have := Finset.sum_mul_sq_le_sq_mul_sq (Finset.univ : Finset (Fin N)) (fun i => u.get i) (fun i => v.get i)
  simpa [ip1, pow_two] using this


/-- projection of ℚ² onto the half plane `v₀ ≤ v₁` (does not commute with the trace-one projection) -/
def projH (v : Vec Rat 2) : Vec Rat 2 :=
  if v.get 0 ≤ v.get 1 then v else Vec.ofFn fun _ => (v.get 0 + v.get 1) / 2

theorem isProj_half : IsProj (fun v : Vec Rat 2 => v.get 0 ≤ v.get 1) projH := by
  intro u
  unfold projH
  by_cases h : u.get 0 ≤ u.get 1
  · rw [if_pos h]
    exact ⟨h, fun z _ => by simp [ip1]⟩
  · rw [if_neg h]
    refine ⟨by simp, fun z hz => ?_⟩
    simp only [ip1, sub_get, Vec.get_ofFn, Fin.sum_univ_two]
    have h' : u.get 1 < u.get 0 := not_le.1 h
    have hz' : z.get 0 ≤ z.get 1 := hz
    nlinarith

/-- a non-trivial fixed point of the sweep for these two sets (x = (1/2,0), p = (5/2,0), q = (0,−1); total (3,−1)) -/
def exFix : St Rat 2 := ⟨#v[1/2, 0], #v[5/2, 0], #v[0, -1]⟩
/-- … and of the other projection order -/
def exFix' : St Rat 2 := ⟨#v[1/2, 0], #v[0, -1], #v[5/2, 0]⟩

theorem exFix_fixed : (sweep (peqState (n := 2) (1/2 : Rat)) clip1 exFix).1 = exFix :=
  St.ext' (by decide +kernel) (by decide +kernel) (by decide +kernel)
theorem exFix'_fixed : (sweep clip1 (peqState (n := 2) (1/2 : Rat)) exFix').1 = exFix' :=
  St.ext' (by decide +kernel) (by decide +kernel) (by decide +kernel)


/-! ### stacked (flat) vectors vs shaped objects -/
section flat
variable {m n : Nat}
theorem unflatten_get (v : Vec K (m * n)) (i : Fin m) (j : Fin n) :
    (unflatten v).get i j = v.get ⟨i.val * n + j.val, idx_lt i j⟩ := by simp [unflatten]

theorem flatten_get (A : Mat K m n) (i : Fin m) (j : Fin n) :
    (flatten A).get ⟨i.val * n + j.val, idx_lt i j⟩ = A.get i j := by
  have hn : 0 < n := j.pos
  simp only [flatten, Vec.get_ofFn]
  congr 1
  · apply Fin.ext; simp [Nat.add_comm, Nat.add_mul_div_right _ _ hn, Nat.div_eq_of_lt j.isLt]
  · apply Fin.ext; simp [Nat.add_mod, Nat.mod_eq_of_lt j.isLt]

theorem unflatten_flatten (A : Mat K m n) : unflatten (flatten A) = A := by
  apply Mat.ext'; intro i j; rw [unflatten_get, flatten_get]

theorem sum_flat (f : Fin (m * n) → K) : ∑ k, f k = ∑ i : Fin m, ∑ j : Fin n, f ⟨i.val * n + j.val, idx_lt i j⟩ := by
  rw [← Fintype.sum_prod_type', ← Equiv.sum_comp finProdFinEquiv f]
  apply Finset.sum_congr rfl; intro p _
  congr 1; apply Fin.ext; simp [finProdFinEquiv, Nat.mul_comm, Nat.add_comm]

theorem ip1_flat (u w : Vec K (m * n)) : ip1 u w = ip2 (unflatten u) (unflatten w) := by
  unfold ip1 ip2; rw [sum_flat]; simp [unflatten_get]

theorem unflatten_sub (u w : Vec K (m * n)) : unflatten (u.sub w) = (unflatten u).sub (unflatten w) := by
  apply Mat.ext'; intro i j; simp [unflatten_get, Mat.sub]

theorem ip2_rows (X Y : Mat K m n) : ip2 X Y = ∑ k : Fin m, ip1 X[k] Y[k] := by
  simp [ip2, ip1, Mat.get, Vec.get]
theorem tenOfVec_get (v : Vec K (m * (n * n))) (x : Fin m) (a b : Fin n) :
    (tenOfVec v).get x a b = ((unflatten ((unflatten v)[x]))).get a b := by
  simp [tenOfVec, Ten.get]

theorem tenOfVec_vecOfTen (T : Ten K m n n) : tenOfVec (vecOfTen T) = T := by
  apply Ten.ext'; intro x a b
  rw [tenOfVec_get]
  unfold vecOfTen
  rw [unflatten_flatten]
  simp only [Vector.getElem_ofFn, Fin.getElem_fin]
  rw [unflatten_flatten]
  rfl

theorem ip1_ten (u w : Vec K (m * (n * n))) : ip1 u w = ip3 (tenOfVec u) (tenOfVec w) := by
  rw [ip1_flat, ip2_rows]
  unfold ip3
  apply Finset.sum_congr rfl; intro x _
  rw [ip1_flat]
  unfold ip2
  apply Finset.sum_congr rfl; intro a _
  apply Finset.sum_congr rfl; intro b _
  rw [tenOfVec_get, tenOfVec_get]

theorem tenOfVec_get' (v : Vec K (m * (n * n))) (x : Fin m) (a b : Fin n) :
    (tenOfVec v).get x a b = v.get ⟨x.val * (n * n) + (a.val * n + b.val), idx_lt x ⟨a.val * n + b.val, idx_lt a b⟩⟩ := by
  rw [tenOfVec_get, unflatten_get]
  exact unflatten_get v x ⟨a.val * n + b.val, idx_lt a b⟩

theorem tenOfVec_sub (u w : Vec K (m * (n * n))) : tenOfVec (u.sub w) = Ten.sub (tenOfVec u) (tenOfVec w) := by
  apply Ten.ext'; intro x a b
  simp only [Ten.sub, Ten.get_ofFn, tenOfVec_get', sub_get]
end flat

end QM.C05
