import QModel.C16
/-! helper lemmas for C16 (core Lean only) -/
namespace QM.C16

/-- positional value of a reversed (length, digit) list -/
def val : List (Nat × Nat) → Nat
  | [] => 0
  | (len, i) :: r => i + len * val r

def prodFst : List (Nat × Nat) → Nat
  | [] => 1
  | (len, _) :: r => len * prodFst r

theorem serialRevLoop_eq (r : List (Nat × Nat)) (serial temp : Nat) :
    serialRevLoop r serial temp = serial + temp * val r := by
  induction r generalizing serial temp with
  | nil => simp [serialRevLoop, val]
  | cons x r ih =>
    obtain ⟨len, i⟩ := x
    simp only [serialRevLoop, val, ih]
    rw [Nat.mul_add, Nat.mul_assoc, Nat.mul_comm i temp, Nat.add_assoc]

theorem multiRevLoop_length (L : List Nat) (s : Nat) : (multiRevLoop L s).length = L.length := by
  induction L generalizing s with
  | nil => rfl
  | cons l ls ih => simp [multiRevLoop, ih]

theorem prod_cons (l : Nat) (ls : List Nat) : prod (l :: ls) = l * prod ls := rfl

theorem prod_append (a b : List Nat) : prod (a ++ b) = prod a * prod b := by
  induction a with
  | nil => simp [prod]
  | cons x a ih => simp only [List.cons_append, prod_cons, ih, Nat.mul_assoc]

theorem prod_reverse (a : List Nat) : prod a.reverse = prod a := by
  induction a with
  | nil => rfl
  | cons x a ih =>
    rw [List.reverse_cons, prod_append, ih, prod_cons]
    simp [prod, Nat.mul_comm]

theorem prod_pos {L : List Nat} (h : ∀ l ∈ L, 0 < l) : 0 < prod L := by
  induction L with
  | nil => simp [prod]
  | cons l ls ih =>
    rw [prod_cons]
    exact Nat.mul_pos (h l (by simp)) (ih fun x hx => h x (by simp [hx]))

/-- digits of `s` in the mixed radix `L` have value `s % prod L` -/
theorem val_digits (L : List Nat) (s : Nat) :
    val (L.zip (multiRevLoop L s)) = s % prod L := by
  induction L generalizing s with
  | nil => simp [multiRevLoop, val, prod, Nat.mod_one]
  | cons l ls ih =>
    simp only [multiRevLoop, List.zip_cons_cons, val, ih, prod_cons]
    rw [Nat.mod_mul]

theorem digits_val (L D : List Nat) (hlen : L.length = D.length)
    (h : ∀ p ∈ L.zip D, p.2 < p.1) : multiRevLoop L (val (L.zip D)) = D := by
  induction L generalizing D with
  | nil => cases D <;> simp_all [multiRevLoop]
  | cons l ls ih =>
    cases D with
    | nil => simp at hlen
    | cons d ds =>
      have hd : d < l := h (l, d) (by simp)
      have hl : 0 < l := by omega
      simp only [List.zip_cons_cons, val, multiRevLoop]
      have h1 : (d + l * val (ls.zip ds)) % l = d := by
        rw [Nat.add_mul_mod_self_left]; exact Nat.mod_eq_of_lt hd
      have h2 : (d + l * val (ls.zip ds)) / l = val (ls.zip ds) := by
        rw [Nat.add_mul_div_left _ _ hl, Nat.div_eq_of_lt hd, Nat.zero_add]
      rw [h1, h2, ih ds (by simpa using hlen) (fun p hp => h p (by simp [hp]))]

theorem multiRevLoop_lt (L : List Nat) (s : Nat) (hL : ∀ l ∈ L, 0 < l) :
    ∀ p ∈ L.zip (multiRevLoop L s), p.2 < p.1 := by
  induction L generalizing s with
  | nil => simp [multiRevLoop]
  | cons l ls ih =>
    intro p hp
    simp only [multiRevLoop, List.zip_cons_cons, List.mem_cons] at hp
    rcases hp with rfl | hp
    · exact Nat.mod_lt _ (hL l (by simp))
    · exact ih (s / l) (fun x hx => hL x (by simp [hx])) p hp

theorem val_lt (L D : List Nat) (hlen : L.length = D.length)
    (h : ∀ p ∈ L.zip D, p.2 < p.1) : val (L.zip D) < prod L := by
  induction L generalizing D with
  | nil => simp [val, prod]
  | cons l ls ih =>
    cases D with
    | nil => simp at hlen
    | cons d ds =>
      have hd : d < l := h (l, d) (by simp)
      have := ih ds (by simpa using hlen) (fun p hp => h p (by simp [hp]))
      simp only [List.zip_cons_cons, val, prod_cons]
      calc d + l * val (ls.zip ds) < l + l * val (ls.zip ds) := by omega
        _ = l * (val (ls.zip ds) + 1) := by rw [Nat.mul_add, Nat.mul_one, Nat.add_comm]
        _ ≤ l * prod ls := Nat.mul_le_mul_left l this

theorem val_append (A B : List (Nat × Nat)) : val (A ++ B) = val A + prodFst A * val B := by
  induction A with
  | nil => simp [val, prodFst]
  | cons x A ih =>
    obtain ⟨len, i⟩ := x
    simp only [List.cons_append, val, prodFst, ih, Nat.mul_add, Nat.mul_assoc, Nat.add_assoc]

theorem prodFst_zip (L D : List Nat) (hlen : L.length = D.length) : prodFst (L.zip D) = prod L := by
  induction L generalizing D with
  | nil => simp [prodFst, prod]
  | cons l ls ih =>
    cases D with
    | nil => simp at hlen
    | cons d ds => simp [prodFst, prod_cons, ih ds (by simpa using hlen)]

theorem reverse_zip {α β : Type} {l : List α} {l' : List β} (h : l.length = l'.length) :
    (l.zip l').reverse = l.reverse.zip l'.reverse := by
  simpa [List.zip] using List.reverse_zipWith (f := Prod.mk) h

end QM.C16
