import QProps.C04
import QProofs.C05
import Mathlib.Analysis.Matrix.Spectrum
/-! the genuine PSD projection `psdProj` on parameter vectors (model's `projIneqCore` fed with Mathlib's spectral decomposition),
used by QProps.C05 to connect the executed Dykstra loop (tapped eigh results) with the `IsProj` theorems. -/
open Matrix Finset QM QM.C04 QM.C05 QM.Psd
open scoped ComplexOrder
set_option linter.unusedSectionVars false
namespace QM.C04
variable {d : Nat}

theorem synth_isHermitian (B : Vector (Mat ℂ d d) (d * d)) (hH : HermB B) (v : Vec ℝ (d * d)) :
    (matOfVec B v).toM.IsHermitian := by
  rw [toM_matOfVec]
  unfold synth Matrix.IsHermitian
  rw [Matrix.conjTranspose_sum]
  apply Finset.sum_congr rfl
  intro a _
  rw [Matrix.conjTranspose_smul, (hH a).eq]
  congr 1
  simp

/-- eigenvector matrix / eigenvalues of the operator of `v` (Mathlib's spectral theorem), as model objects -/
noncomputable def eigU (B : Vector (Mat ℂ d d) (d * d)) (hH : HermB B) (v : Vec ℝ (d * d)) : Mat ℂ d d :=
  Mat.ofFn fun i j => ((synth_isHermitian B hH v).eigenvectorUnitary : Matrix (Fin d) (Fin d) ℂ) i j
noncomputable def eigLam (B : Vector (Mat ℂ d d) (d * d)) (hH : HermB B) (v : Vec ℝ (d * d)) : Vec ℝ d :=
  Vec.ofFn fun i => (synth_isHermitian B hH v).eigenvalues i

theorem eigU_toM (B : Vector (Mat ℂ d d) (d * d)) (hH : HermB B) (v : Vec ℝ (d * d)) :
    (eigU B hH v).toM = ((synth_isHermitian B hH v).eigenvectorUnitary : Matrix (Fin d) (Fin d) ℂ) := by
  ext i j; simp [eigU]

theorem eig_contract (B : Vector (Mat ℂ d d) (d * d)) (hH : HermB B) (v : Vec ℝ (d * d)) :
    (eigU B hH v).toMᴴ * (eigU B hH v).toM = 1 ∧ matOfVec B v = rebuild (eigU B hH v) (eigLam B hH v) := by
  constructor
  · rw [eigU_toM]
    exact Unitary.coe_star_mul_self _
  · apply Mat.toM_injective
    rw [toM_rebuild, eigU_toM]
    have h := (synth_isHermitian B hH v).spectral_theorem
    rw [Unitary.conjStarAlgAut_apply] at h
    have e1 : (diagonal fun i => (((eigLam B hH v).get i : ℝ) : ℂ))
        = diagonal (RCLike.ofReal ∘ (synth_isHermitian B hH v).eigenvalues) := by
      congr 1; funext i; simp [eigLam]
    rw [e1, ← Matrix.star_eq_conjTranspose]
    exact h

/-- the genuine metric projection onto `{v | operator of v is PSD}`, defined for EVERY parameter vector: the model's
`projIneqCore` fed with Mathlib's spectral decomposition of the operator of `v` -/
noncomputable def psdProj (B : Vector (Mat ℂ d d) (d * d)) (hB : OrthoN (basisM B)) (hH : HermB B) (v : Vec ℝ (d * d)) :
    Vec ℝ (d * d) :=
  Classical.choose (projIneqCore_ok B hB hH (eigLam B hH v) (eigU B hH v))

theorem psdProj_spec (B : Vector (Mat ℂ d d) (d * d)) (hB : OrthoN (basisM B)) (hH : HermB B) (v : Vec ℝ (d * d)) :
    projIneqCore B (0 : ℝ) (eigLam B hH v) (eigU B hH v) = .ok (psdProj B hB hH v) ∧
      matOfVec B (psdProj B hB hH v) = clipMat (eigU B hH v) (eigLam B hH v) :=
  Classical.choose_spec (projIneqCore_ok B hB hH (eigLam B hH v) (eigU B hH v))

theorem eq_of_two_vi {N : Nat} (x p p' : Vec ℝ N) (h1 : ip1 (x.sub p) (p'.sub p) ≤ 0) (h2 : ip1 (x.sub p') (p.sub p') ≤ 0) :
    p = p' := by
  have hsum : ∑ i, (p'.get i - p.get i) * (p'.get i - p.get i) ≤ 0 := by
    have : ∑ i, (p'.get i - p.get i) * (p'.get i - p.get i) = ip1 (x.sub p) (p'.sub p) + ip1 (x.sub p') (p.sub p') := by
      simp only [ip1, sub_get, ← Finset.sum_add_distrib]
      apply Finset.sum_congr rfl; intro i _; ring
    rw [this]; exact add_nonpos h1 h2
  have h0 := le_antisymm hsum (Finset.sum_nonneg fun i _ => mul_self_nonneg _)
  apply Vec.ext'; intro i
  have := (Finset.sum_eq_zero_iff_of_nonneg (fun i _ => mul_self_nonneg (p'.get i - p.get i))).1 h0 i (Finset.mem_univ i)
  have := mul_self_eq_zero.1 this
  linarith
end QM.C04

namespace QM.C05
open QM.C04
variable {d : Nat}
/-- block-wise PSD projection on the flat vector of `m` operators (POVM elements; m-process outcomes through the Choi basis) -/
noncomputable def psdProjBlocks (B : Vector (Mat ℂ d d) (d * d)) (hB : OrthoN (basisM B)) (hH : HermB B) (m : Nat)
    (v : Vec ℝ (m * (d * d))) : Vec ℝ (m * (d * d)) :=
  flatten (Vector.ofFn fun k : Fin m => psdProj B hB hH (unflatten v)[k] : Mat ℝ m (d * d))
end QM.C05
