import QModel.C16
import Mathlib.Data.List.Nodup
import Mathlib.Data.List.Forall2
import Mathlib.Tactic.Ring
import Mathlib.Algebra.Order.Field.Rat
/-! helper lemmas for the marginal / conditional theorems of C16 (Mathlib lists) -/
namespace QM.C16

theorem rsum_nil : rsum [] = 0 := rfl
theorem rsum_cons (a : Rat) (l : List Rat) : rsum (a :: l) = a + rsum l := rfl

theorem rsum_map_add {α : Type} (os : List α) (g h : α → Rat) :
    rsum (os.map fun o => g o + h o) = rsum (os.map g) + rsum (os.map h) := by
  induction os with
  | nil => simp [rsum_nil]
  | cons o os ih => simp only [List.map_cons, rsum_cons, ih]; ring

theorem rsum_map_zero {α : Type} (os : List α) : rsum (os.map fun _ => (0 : Rat)) = 0 := by
  induction os with
  | nil => rfl
  | cons o os ih => simp only [List.map_cons, rsum_cons, ih]; ring

theorem rsum_map_ite_eq {β : Type} [DecidableEq β] (os : List β) (hnd : os.Nodup) (b : β) (c : Rat) :
    rsum (os.map fun o => if b = o then c else 0) = if b ∈ os then c else 0 := by
  induction os with
  | nil => simp [rsum_nil]
  | cons o os ih =>
    have hnd' := List.nodup_cons.1 hnd
    simp only [List.map_cons, rsum_cons, ih hnd'.2, List.mem_cons]
    by_cases hbo : b = o
    · subst hbo; simp [hnd'.1]
    · simp [hbo]

/-- grouping a list of weighted items by a key and summing the groups preserves the total -/
theorem rsum_partition {α β : Type} [DecidableEq β] (xs : List α) (f : α → β) (v : α → Rat)
    (os : List β) (hnd : os.Nodup) (hmem : ∀ x ∈ xs, f x ∈ os) :
    rsum (os.map fun o => rsum (xs.filterMap fun x => if f x = o then some (v x) else none))
      = rsum (xs.map v) := by
  induction xs with
  | nil => simpa [rsum_nil] using rsum_map_zero os
  | cons x xs ih =>
    have h1 : ∀ o, rsum ((x :: xs).filterMap fun x => if f x = o then some (v x) else none)
        = (if f x = o then v x else 0)
          + rsum (xs.filterMap fun x => if f x = o then some (v x) else none) := by
      intro o
      by_cases h : f x = o
      · simp [h, rsum_cons]
      · simp [h]
    simp only [h1, rsum_map_add, List.map_cons, rsum_cons]
    rw [rsum_map_ite_eq os hnd, if_pos (hmem x (by simp)), ih (fun y hy => hmem y (by simp [hy]))]

/-! ### multi-indices -/

theorem mem_allMulti {shape mi : List Nat} :
    mi ∈ allMulti shape ↔ List.Forall₂ (· < ·) mi shape := by
  induction shape generalizing mi with
  | nil => cases mi <;> simp [allMulti]
  | cons l ls ih =>
    simp only [allMulti, List.mem_flatMap, List.mem_range, List.mem_map]
    constructor
    · rintro ⟨i, hi, t, ht, rfl⟩
      exact List.Forall₂.cons hi (ih.1 ht)
    · intro h
      cases h with
      | cons hi ht => exact ⟨_, hi, _, ih.2 ht, rfl⟩

theorem allMulti_nodup (shape : List Nat) : (allMulti shape).Nodup := by
  induction shape with
  | nil => simp [allMulti]
  | cons l ls ih =>
    simp only [allMulti]
    rw [List.nodup_flatMap]
    refine ⟨fun i _ => ih.map (fun a b h => by simpa using h), ?_⟩
    refine List.Pairwise.imp_of_mem ?_ (List.nodup_range (n := l))
    intro a b _ _ hab
    simp only [Function.onFun, List.disjoint_left, List.mem_map]
    rintro x ⟨t, _, rfl⟩ ⟨t', _, h⟩
    simp at h
    exact hab h.1.symm

theorem allMulti_length (shape : List Nat) : (allMulti shape).length = prod shape := by
  induction shape with
  | nil => rfl
  | cons l ls ih =>
    simp only [allMulti, List.length_flatMap, List.length_map, ih, prod]
    simp [List.foldr]

/-- projection with an explicit start offset of the position counter -/
def projectFrom {α : Type} (k : Nat) (l : List α) (keep : List Nat) : List α :=
  ((l.zipIdx k).filter fun xp => keep.contains xp.2).map (·.1)

theorem project_eq_projectFrom {α : Type} (l : List α) (keep : List Nat) :
    project l keep = projectFrom 0 l keep := rfl

theorem projectFrom_cons {α : Type} (k : Nat) (a : α) (l : List α) (keep : List Nat) :
    projectFrom k (a :: l) keep =
      if keep.contains k then a :: projectFrom (k + 1) l keep else projectFrom (k + 1) l keep := by
  simp only [projectFrom, List.zipIdx_cons, List.filter_cons]
  split <;> simp

theorem forall₂_projectFrom {R : Nat → Nat → Prop} {a b : List Nat} (h : List.Forall₂ R a b)
    (k : Nat) (keep : List Nat) : List.Forall₂ R (projectFrom k a keep) (projectFrom k b keep) := by
  induction h generalizing k with
  | nil => simp [projectFrom]
  | cons hab _ ih =>
    rw [projectFrom_cons, projectFrom_cons]
    split
    · exact List.Forall₂.cons hab (ih (k + 1))
    · exact ih (k + 1)

theorem project_mem_allMulti {shape mi : List Nat} (h : mi ∈ allMulti shape) (keep : List Nat) :
    project mi keep ∈ allMulti (project shape keep) := by
  rw [mem_allMulti] at *
  exact forall₂_projectFrom h 0 keep

end QM.C16

namespace QM.C16

theorem projectFrom_single {α : Type} (k i : Nat) (l : List α) :
    projectFrom k l [i] = if h : k ≤ i ∧ i - k < l.length then [l[i - k]'h.2] else [] := by
  induction l generalizing k with
  | nil => simp [projectFrom]
  | cons a l ih =>
    rw [projectFrom_cons, ih (k + 1)]
    by_cases hk : k = i
    · subst hk
      simp
    · have hc : ([i].contains k) = false := by simp [hk]
      rw [hc]
      simp only [Bool.false_eq_true, if_false]
      by_cases h1 : k + 1 ≤ i ∧ i - (k + 1) < l.length
      · have h2 : k ≤ i ∧ i - k < (a :: l).length := ⟨by omega, by simp; omega⟩
        rw [dif_pos h1, dif_pos h2]
        have : i - k = (i - (k + 1)) + 1 := by omega
        simp [this]
      · have h2 : ¬ (k ≤ i ∧ i - k < (a :: l).length) := by
          intro ⟨ha, hb⟩
          apply h1
          simp at hb
          exact ⟨by omega, by omega⟩
        rw [dif_neg h1, dif_neg h2]

theorem project_single {α : Type} (i : Nat) (l : List α) (h : i < l.length) :
    project l [i] = [l[i]] := by
  rw [project_eq_projectFrom, projectFrom_single, dif_pos ⟨Nat.zero_le _, by simpa using h⟩]
  simp

theorem condValue_single (i v pos : Nat) : condValue [i] [v] pos = if i = pos then some v else none := by
  simp only [condValue, List.zip_cons_cons, List.zip_nil_right, List.reverse_cons, List.reverse_nil,
    List.nil_append, List.find?_cons, List.find?_nil]
  by_cases h : i = pos <;> simp [h]

theorem condOk_single (i v x pos : Nat) :
    condOk [i] [v] x pos = if i = pos then decide (x = v) else true := by
  unfold condOk
  rw [condValue_single]
  by_cases h : i = pos <;> simp [h]

theorem zipIdx_all_single (mi : List Nat) (i v k : Nat) :
    ((mi.zipIdx k).all fun xp => condOk [i] [v] xp.1 xp.2) = true ↔
      ∀ j (hj : j < mi.length), k + j = i → mi[j] = v := by
  induction mi generalizing k with
  | nil => simp
  | cons a l ih =>
    rw [List.zipIdx_cons, List.all_cons, Bool.and_eq_true, ih (k + 1), condOk_single]
    constructor
    · rintro ⟨h0, hr⟩ j hj hji
      cases j with
      | zero =>
        have : i = k := by omega
        subst this
        simpa using h0
      | succ j =>
        have := hr j (by simpa using hj) (by omega)
        simpa using this
    · intro h
      refine ⟨?_, fun j hj hji => ?_⟩
      · by_cases hik : i = k
        · subst hik
          have := h 0 (by simp) (by simp)
          simpa using this
        · simp [hik]
      · have := h (j + 1) (by simpa using hj) (by omega)
        simpa using this

theorem matchesCond_single (mi : List Nat) (i v : Nat) (h : i < mi.length) :
    matchesCond mi [i] [v] = true ↔ mi[i] = v := by
  unfold matchesCond
  rw [zipIdx_all_single mi i v 0]
  constructor
  · intro hh; exact hh i h (by simp)
  · intro hh j hj hji
    have : j = i := by omega
    subst this; exact hh

theorem length_of_mem_allMulti {shape mi : List Nat} (h : mi ∈ allMulti shape) :
    mi.length = shape.length :=
  (mem_allMulti.1 h).length_eq

theorem allMulti_single (n : Nat) : allMulti [n] = (List.range n).map fun i => [i] := by
  simp only [allMulti, List.map_cons, List.map_nil]
  induction n with
  | zero => simp
  | succ n ih => simp [List.range_succ, ih]

end QM.C16
