import QModel.Core
import Mathlib.Data.Matrix.Mul
import Mathlib.Algebra.BigOperators.Fin
import Mathlib.LinearAlgebra.Matrix.Trace
/-!
# Bridge from the executable `QM.Mat`/`QM.Vec` model to Mathlib matrices

`toM`/`toV` are the obvious maps; every executable operation is a homomorphism, so after
`simp [toM_mul, …]` a statement about the executed definitions is a statement about Mathlib's.
-/
open Matrix
namespace QM

theorem lsum_eq_sum {K : Type} [AddCommMonoid K] (l : List K) : lsum l = l.sum := by
  induction l with
  | nil => rfl
  | cons a l ih => simp [lsum] at *; rw [← ih]

theorem fsum_eq_sum {K : Type} [AddCommMonoid K] (n : Nat) (f : Fin n → K) :
    fsum n f = ∑ i, f i := by
  simp [fsum, lsum_eq_sum, Fin.sum_univ_def]

namespace Vec
variable {K : Type} {n : Nat}
def toV (v : Vec K n) : Fin n → K := fun i => v.get i
@[simp] theorem get_ofFn (f : Fin n → K) (i : Fin n) : (ofFn f).get i = f i := by simp [ofFn, get]
@[simp] theorem toV_ofFn (f : Fin n → K) : toV (ofFn f) = f := by funext i; simp [toV]
theorem ext' {u v : Vec K n} (h : ∀ i, u.get i = v.get i) : u = v := by
  apply Vector.ext; intro i hi; exact h ⟨i, hi⟩
theorem toV_injective : Function.Injective (toV : Vec K n → Fin n → K) := by
  intro u v h; apply ext'; intro i; exact congrFun h i
@[simp] theorem toV_add [Add K] (u v : Vec K n) : toV (u.add v) = toV u + toV v := by
  funext i; simp [toV, add]
@[simp] theorem toV_sub [Sub K] (u v : Vec K n) : toV (u.sub v) = toV u - toV v := by
  funext i; simp [toV, sub]
@[simp] theorem toV_smul [Mul K] (c : K) (v : Vec K n) : toV (v.smul c) = c • toV v := by
  funext i; simp [toV, smul]
@[simp] theorem toV_zero [Zero K] : toV (zero : Vec K n) = 0 := by funext i; simp [toV, zero]
theorem dot_eq [NonUnitalNonAssocSemiring K] (u v : Vec K n) : u.dot v = toV u ⬝ᵥ toV v := by
  simp [dot, fsum_eq_sum, dotProduct, toV]
end Vec

namespace Mat
variable {K : Type} {m n p : Nat}
def toM (A : Mat K m n) : Matrix (Fin m) (Fin n) K := Matrix.of fun i j => A.get i j
@[simp] theorem get_ofFn (f : Fin m → Fin n → K) (i : Fin m) (j : Fin n) : (ofFn f).get i j = f i j := by
  simp [ofFn, get]
@[simp] theorem toM_apply (A : Mat K m n) (i : Fin m) (j : Fin n) : A.toM i j = A.get i j := rfl
@[simp] theorem toM_ofFn (f : Fin m → Fin n → K) : toM (ofFn f) = Matrix.of f := by ext i j; simp
theorem ext' {A B : Mat K m n} (h : ∀ i j, A.get i j = B.get i j) : A = B := by
  apply Vector.ext; intro i hi; apply Vector.ext; intro j hj; exact h ⟨i, hi⟩ ⟨j, hj⟩
theorem toM_injective : Function.Injective (toM : Mat K m n → Matrix (Fin m) (Fin n) K) := by
  intro A B h; apply ext'; intro i j; exact congrFun (congrFun h i) j
@[simp] theorem toM_add [Add K] (A B : Mat K m n) : (A.add B).toM = A.toM + B.toM := by ext i j; simp [add]
@[simp] theorem toM_sub [Sub K] (A B : Mat K m n) : (A.sub B).toM = A.toM - B.toM := by ext i j; simp [sub]
@[simp] theorem toM_neg [Neg K] (A : Mat K m n) : A.neg.toM = - A.toM := by ext i j; simp [neg]
@[simp] theorem toM_smul [Mul K] (c : K) (A : Mat K m n) : (A.smul c).toM = c • A.toM := by ext i j; simp [smul]
@[simp] theorem toM_zero [Zero K] : (zero : Mat K m n).toM = 0 := by ext i j; simp [zero]
@[simp] theorem toM_one [Zero K] [One K] : (one : Mat K n n).toM = 1 := by
  ext i j; simp [one, Matrix.one_apply]
@[simp] theorem toM_transpose (A : Mat K m n) : A.transpose.toM = A.toMᵀ := by ext i j; simp [transpose]
@[simp] theorem toM_mul [NonUnitalNonAssocSemiring K] (A : Mat K m n) (B : Mat K n p) :
    (A.mul B).toM = A.toM * B.toM := by
  ext i j; simp [mul, Matrix.mul_apply, fsum_eq_sum]
@[simp] theorem toV_mulVec [NonUnitalNonAssocSemiring K] (A : Mat K m n) (v : Vec K n) :
    Vec.toV (A.mulVec v) = A.toM *ᵥ Vec.toV v := by
  funext i; simp [mulVec, Matrix.mulVec, dotProduct, fsum_eq_sum, Vec.toV]
@[simp] theorem trace_eq [AddCommMonoid K] (A : Mat K n n) : A.trace = A.toM.trace := by
  simp [trace, Matrix.trace, fsum_eq_sum]
end Mat
end QM
