import QProofs.Psd
/-! C04 toolbox: eigenvalue clipping is the Frobenius-nearest PSD matrix (existence, uniqueness,
fixed points, idempotence), and the transfer of these statements to real coefficient space over an
orthonormal family of matrices. -/
open Matrix
namespace QM.Psd
open scoped MatrixOrder ComplexOrder
set_option linter.unusedSectionVars false

variable {n : Type*} [Fintype n] [DecidableEq n] {𝕜 : Type*} [RCLike 𝕜]
variable {ι : Type*} [Fintype ι] [DecidableEq ι]

/-! ## Part A -/

/-- real Hilbert–Schmidt inner product `re tr(Mᴴ N)` (helper) -/
noncomputable def hsr (M N : Matrix n n 𝕜) : ℝ := RCLike.re (Mᴴ * N).trace

/-- squared Frobenius norm -/
noncomputable def frobSq (M : Matrix n n 𝕜) : ℝ := RCLike.re (Mᴴ * M).trace

lemma frobSq_eq_hsr (M : Matrix n n 𝕜) : frobSq M = hsr M M := rfl

lemma hsr_comm (M N : Matrix n n 𝕜) : hsr M N = hsr N M := by
  unfold hsr
  have h : Nᴴ * M = (Mᴴ * N)ᴴ := by
    rw [conjTranspose_mul, conjTranspose_conjTranspose]
  rw [h, trace_conjTranspose, RCLike.star_def, RCLike.conj_re]

lemma hsr_sub_left (M N K : Matrix n n 𝕜) : hsr (M - N) K = hsr M K - hsr N K := by
  simp [hsr, conjTranspose_sub, Matrix.sub_mul, trace_sub]

lemma hsr_sub_right (M N K : Matrix n n 𝕜) : hsr K (M - N) = hsr K M - hsr K N := by
  simp [hsr, Matrix.mul_sub, trace_sub]

lemma frobSq_sub (M N : Matrix n n 𝕜) : frobSq (M - N) = frobSq M + frobSq N - 2 * hsr M N := by
  rw [frobSq_eq_hsr, frobSq_eq_hsr, frobSq_eq_hsr, hsr_sub_left, hsr_sub_right, hsr_sub_right,
    hsr_comm N M]
  ring

theorem frobSq_nonneg (M : Matrix n n 𝕜) : 0 ≤ frobSq M := by
  have h : (0 : 𝕜) ≤ (Mᴴ * M).trace := (posSemidef_conjTranspose_mul_self M).trace_nonneg
  exact (RCLike.nonneg_iff.mp h).1

theorem frobSq_eq_zero_iff (M : Matrix n n 𝕜) : frobSq M = 0 ↔ M = 0 := by
  constructor
  · intro h0
    have h : (0 : 𝕜) ≤ (Mᴴ * M).trace := (posSemidef_conjTranspose_mul_self M).trace_nonneg
    have him := (RCLike.nonneg_iff.mp h).2
    have : (Mᴴ * M).trace = 0 := by
      apply RCLike.ext
      · simpa [frobSq] using h0
      · simpa using him
    exact trace_conjTranspose_mul_self_eq_zero_iff.mp this
  · rintro rfl
    simp [frobSq]

theorem clip_posSemidef (U : Matrix n n 𝕜) (d : n → ℝ) : (clip U d).PosSemidef :=
  conj_diag_psd U _ (fun _ => le_max_right _ _)

theorem clip_isHermitian (U : Matrix n n 𝕜) (d : n → ℝ) : (clip U d).IsHermitian :=
  (clip_posSemidef U d).isHermitian

lemma conj_diag_isHermitian (U : Matrix n n 𝕜) (d : n → ℝ) :
    (U * diagonal (fun i => ((d i : ℝ) : 𝕜)) * Uᴴ).IsHermitian := by
  unfold IsHermitian
  rw [conjTranspose_mul, conjTranspose_mul, conjTranspose_conjTranspose, diagonal_conjTranspose,
    Matrix.mul_assoc]
  congr 3
  funext i
  simp

/-- variational inequality in real-inner-product form -/
theorem clip_vi_re (U : Matrix n n 𝕜) (hU : Uᴴ * U = 1) (d : n → ℝ) (A : Matrix n n 𝕜)
    (hA : A = U * diagonal (fun i => ((d i : ℝ) : 𝕜)) * Uᴴ)
    {X : Matrix n n 𝕜} (hX : X.PosSemidef) :
    RCLike.re (((A - clip U d)ᴴ * (X - clip U d)).trace) ≤ 0 := by
  have hAh : Aᴴ = A := by rw [hA]; exact conj_diag_isHermitian U d
  have hH : (A - clip U d)ᴴ = A - clip U d := by
    rw [conjTranspose_sub, hAh, (clip_isHermitian U d).eq]
  rw [hH]
  have h := clip_vi U hU d A hA hX
  exact (RCLike.nonpos_iff.mp h).1

/-- eigenvalue clipping is the Frobenius-nearest PSD matrix -/
theorem clip_nearest (U : Matrix n n 𝕜) (hU : Uᴴ * U = 1) (d : n → ℝ) (A : Matrix n n 𝕜)
    (hA : A = U * diagonal (fun i => ((d i : ℝ) : 𝕜)) * Uᴴ)
    {X : Matrix n n 𝕜} (hX : X.PosSemidef) :
    frobSq (A - clip U d) ≤ frobSq (A - X) := by
  have hvi : hsr (A - clip U d) (X - clip U d) ≤ 0 := clip_vi_re U hU d A hA hX
  have hexp : frobSq (A - X) = frobSq (A - clip U d) + frobSq (X - clip U d)
      - 2 * hsr (A - clip U d) (X - clip U d) := by
    rw [← frobSq_sub]; congr 1; abel
  have := frobSq_nonneg (X - clip U d)
  linarith

/-- ... and the only one at that distance -/
theorem clip_nearest_unique (U : Matrix n n 𝕜) (hU : Uᴴ * U = 1) (d : n → ℝ) (A : Matrix n n 𝕜)
    (hA : A = U * diagonal (fun i => ((d i : ℝ) : 𝕜)) * Uᴴ)
    {X : Matrix n n 𝕜} (hX : X.PosSemidef)
    (h : frobSq (A - X) ≤ frobSq (A - clip U d)) : X = clip U d := by
  have hvi : hsr (A - clip U d) (X - clip U d) ≤ 0 := clip_vi_re U hU d A hA hX
  have hexp : frobSq (A - X) = frobSq (A - clip U d) + frobSq (X - clip U d)
      - 2 * hsr (A - clip U d) (X - clip U d) := by
    rw [← frobSq_sub]; congr 1; abel
  have h0 := frobSq_nonneg (X - clip U d)
  have hz : frobSq (X - clip U d) = 0 := by linarith
  exact sub_eq_zero.mp ((frobSq_eq_zero_iff _).mp hz)

/-- a PSD matrix is reproduced by clipping ANY of its unitary eigendecompositions -/
theorem clip_fix (U : Matrix n n 𝕜) (hU : Uᴴ * U = 1) (d : n → ℝ) (A : Matrix n n 𝕜)
    (hA : A = U * diagonal (fun i => ((d i : ℝ) : 𝕜)) * Uᴴ) (hpsd : A.PosSemidef) :
    clip U d = A := by
  have hD : Uᴴ * A * U = diagonal (fun i => ((d i : ℝ) : 𝕜)) := by
    rw [hA]
    have : Uᴴ * (U * diagonal (fun i => ((d i : ℝ) : 𝕜)) * Uᴴ) * U
        = (Uᴴ * U) * diagonal (fun i => ((d i : ℝ) : 𝕜)) * (Uᴴ * U) := by
      simp only [Matrix.mul_assoc]
    rw [this, hU, Matrix.one_mul, Matrix.mul_one]
  have hDpsd : (diagonal (fun i => ((d i : ℝ) : 𝕜))).PosSemidef := by
    rw [← hD]; exact hpsd.conjTranspose_mul_mul_same U
  have hd : ∀ i, 0 ≤ d i := by
    intro i
    have h := hDpsd.diag_nonneg (i := i)
    rw [diagonal_apply_eq] at h
    exact RCLike.ofReal_nonneg.mp h
  rw [hA, clip]
  congr 3
  funext i
  rw [max_eq_left (hd i)]

/-- idempotence: clipping any unitary eigendecomposition `(U', d')` of a clipped matrix gives the
same matrix -/
theorem clip_idem (U : Matrix n n 𝕜) (d : n → ℝ) (U' : Matrix n n 𝕜) (hU' : U'ᴴ * U' = 1)
    (d' : n → ℝ) (h : clip U d = U' * diagonal (fun i => ((d' i : ℝ) : 𝕜)) * U'ᴴ) :
    clip U' d' = clip U d :=
  clip_fix U' hU' d' (clip U d) h (clip_posSemidef U d)

/-! ## Part B -/

/-- `Σ_α v_α • B_α` -/
noncomputable def synth (B : ι → Matrix n n 𝕜) (v : ι → ℝ) : Matrix n n 𝕜 :=
  ∑ α, ((v α : ℝ) : 𝕜) • B α

/-- `α ↦ re tr(B_αᴴ H)` -/
noncomputable def coeff (B : ι → Matrix n n 𝕜) (H : Matrix n n 𝕜) : ι → ℝ :=
  fun α => RCLike.re ((B α)ᴴ * H).trace

/-- orthonormal w.r.t. the Hilbert–Schmidt inner product -/
def OrthoN (B : ι → Matrix n n 𝕜) : Prop :=
  ∀ α β, ((B α)ᴴ * B β).trace = if α = β then 1 else 0

theorem coeff_synth (B : ι → Matrix n n 𝕜) (hB : OrthoN B) (v : ι → ℝ) :
    coeff B (synth B v) = v := by
  funext β
  unfold coeff synth
  rw [Finset.mul_sum, trace_sum, map_sum]
  have : ∀ α, RCLike.re ((B β)ᴴ * (((v α : ℝ) : 𝕜) • B α)).trace
      = if β = α then v α else 0 := by
    intro α
    rw [Matrix.mul_smul, trace_smul, hB β α, smul_eq_mul]
    split_ifs <;> simp
  simp only [this]
  simp

theorem synth_sub (B : ι → Matrix n n 𝕜) (x y : ι → ℝ) :
    synth B x - synth B y = synth B (x - y) := by
  simp [synth, Finset.sum_sub_distrib, sub_smul]

/-- adjointness: `⟨coeff H, y⟩ = re tr((synth y)ᴴ H)` -/
theorem coeff_dot (B : ι → Matrix n n 𝕜) (H : Matrix n n 𝕜) (y : ι → ℝ) :
    ∑ α, coeff B H α * y α = RCLike.re ((synth B y)ᴴ * H).trace := by
  unfold coeff synth
  rw [conjTranspose_sum, Finset.sum_mul, trace_sum, map_sum]
  refine Finset.sum_congr rfl (fun α _ => ?_)
  rw [conjTranspose_smul, Matrix.smul_mul, trace_smul, RCLike.star_def, RCLike.conj_ofReal,
    smul_eq_mul, RCLike.re_ofReal_mul, mul_comm]

/-- polarised form of `frobSq_synth` -/
lemma hsr_synth (B : ι → Matrix n n 𝕜) (hB : OrthoN B) (u w : ι → ℝ) :
    hsr (synth B u) (synth B w) = ∑ α, u α * w α := by
  unfold hsr
  rw [← coeff_dot, coeff_synth B hB]
  exact Finset.sum_congr rfl (fun α _ => mul_comm _ _)

theorem frobSq_synth (B : ι → Matrix n n 𝕜) (hB : OrthoN B) (v : ι → ℝ) :
    frobSq (synth B v) = ∑ α, (v α) ^ 2 := by
  rw [frobSq_eq_hsr, hsr_synth B hB]
  exact Finset.sum_congr rfl (fun α _ => (sq _).symm)

/-- parameter-space variational inequality. `P := clip U d`, `p := coeff B P`. Hypothesis `hspan`
says `P` lies in the real span of `B` (true for every Hermitian `P` when `B` is a complete
Hermitian orthonormal basis). -/
theorem param_vi (B : ι → Matrix n n 𝕜) (hB : OrthoN B) (U : Matrix n n 𝕜) (hU : Uᴴ * U = 1)
    (d : n → ℝ) (x : ι → ℝ)
    (hA : synth B x = U * diagonal (fun i => ((d i : ℝ) : 𝕜)) * Uᴴ)
    (hspan : synth B (coeff B (clip U d)) = clip U d)
    (y : ι → ℝ) (hy : (synth B y).PosSemidef) :
    ∑ α, (x α - coeff B (clip U d) α) * (y α - coeff B (clip U d) α) ≤ 0 := by
  have h := clip_vi_re U hU d (synth B x) hA hy
  have hx : synth B x - clip U d = synth B (x - coeff B (clip U d)) := by
    rw [← synth_sub, hspan]
  have hy' : synth B y - clip U d = synth B (y - coeff B (clip U d)) := by
    rw [← synth_sub, hspan]
  rw [hx, hy'] at h
  have h2 := hsr_synth B hB (x - coeff B (clip U d)) (y - coeff B (clip U d))
  unfold hsr at h2
  rw [h2] at h
  simpa using h

theorem param_nearest (B : ι → Matrix n n 𝕜) (hB : OrthoN B) (U : Matrix n n 𝕜)
    (hU : Uᴴ * U = 1) (d : n → ℝ) (x : ι → ℝ)
    (hA : synth B x = U * diagonal (fun i => ((d i : ℝ) : 𝕜)) * Uᴴ)
    (hspan : synth B (coeff B (clip U d)) = clip U d)
    (y : ι → ℝ) (hy : (synth B y).PosSemidef) :
    ∑ α, (x α - coeff B (clip U d) α) ^ 2 ≤ ∑ α, (x α - y α) ^ 2 := by
  have hvi := param_vi B hB U hU d x hA hspan y hy
  set p := coeff B (clip U d) with hp
  have hexp : ∑ α, (x α - y α) ^ 2
      = ∑ α, (x α - p α) ^ 2 + ∑ α, (y α - p α) ^ 2
        - 2 * ∑ α, (x α - p α) * (y α - p α) := by
    rw [Finset.mul_sum, ← Finset.sum_add_distrib, ← Finset.sum_sub_distrib]
    refine Finset.sum_congr rfl (fun α _ => ?_)
    ring
  have hnn : 0 ≤ ∑ α, (y α - p α) ^ 2 := Finset.sum_nonneg (fun α _ => sq_nonneg _)
  rw [hexp]
  linarith

theorem param_feasible (B : ι → Matrix n n 𝕜) (U : Matrix n n 𝕜) (d : n → ℝ)
    (hspan : synth B (coeff B (clip U d)) = clip U d) :
    (synth B (coeff B (clip U d))).PosSemidef := by
  rw [hspan]; exact clip_posSemidef U d

end QM.Psd
