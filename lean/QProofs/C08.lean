import QModel.C08
import QGen.C08
import QProofs.Bridge
import Mathlib.Algebra.Field.Basic
import Mathlib.Algebra.BigOperators.Group.List.Basic
import Mathlib.Tactic.Ring
import Mathlib.Tactic.Linarith
import Mathlib.Tactic.FieldSimp
/-!
# helper lemmas for C08: dot products of lists built by `++ / take / drop / tile / outerFlat / chunks`
-/
namespace QM.C08

variable {K : Type}

section ring
variable [CommRing K]

@[simp] theorem ldot_nil_left (b : List K) : ldot ([] : List K) b = 0 := by simp [ldot, lsum]
@[simp] theorem ldot_nil_right (a : List K) : ldot a ([] : List K) = 0 := by simp [ldot, lsum]
@[simp] theorem ldot_cons (a : K) (as : List K) (b : K) (bs : List K) :
    ldot (a :: as) (b :: bs) = a * b + ldot as bs := by simp [ldot, lsum]

theorem ldot_comm (a b : List K) : ldot a b = ldot b a := by
  induction a generalizing b with
  | nil => simp
  | cons x xs ih => cases b with
    | nil => simp
    | cons y ys => simp [ih ys, mul_comm]

theorem ldot_append (a b c d : List K) (h : a.length = c.length) :
    ldot (a ++ b) (c ++ d) = ldot a c + ldot b d := by
  induction a generalizing c with
  | nil => cases c with
    | nil => simp
    | cons y ys => simp at h
  | cons x xs ih => cases c with
    | nil => simp at h
    | cons y ys =>
      simp only [List.cons_append, ldot_cons, ih ys (by simpa using h)]
      ring

@[simp] theorem ldot_zeros_left (k : Nat) (c : List K) : ldot (zeros k : List K) c = 0 := by
  induction k generalizing c with
  | zero => simp [zeros]
  | succ k ih => cases c with
    | nil => simp
    | cons y ys =>
      have : (zeros (k + 1) : List K) = 0 :: zeros k := by simp [zeros, List.replicate_succ]
      rw [this, ldot_cons, ih]; simp

@[simp] theorem ldot_zeros_right (k : Nat) (c : List K) : ldot c (zeros k : List K) = 0 := by
  rw [ldot_comm, ldot_zeros_left]

theorem ldot_smul_left (x : K) (v w : List K) : ldot (v.map fun y => x * y) w = x * ldot v w := by
  induction v generalizing w with
  | nil => simp
  | cons a as ih => cases w with
    | nil => simp
    | cons b bs => simp [ih bs]; ring

theorem ldot_neg_left (a b : List K) : ldot (lneg a) b = - ldot a b := by
  induction a generalizing b with
  | nil => simp [lneg]
  | cons x xs ih => cases b with
    | nil => simp
    | cons y ys =>
      have := ih ys
      simp only [lneg, List.map_cons, ldot_cons] at this ⊢
      rw [this]; ring

theorem ldot_lsub_left (a b c : List K) (h : a.length = b.length) :
    ldot (lsub a b) c = ldot a c - ldot b c := by
  induction a generalizing b c with
  | nil => cases b with
    | nil => simp [lsub]
    | cons y ys => simp at h
  | cons x xs ih => cases b with
    | nil => simp at h
    | cons y ys => cases c with
      | nil => simp
      | cons z zs =>
        have := ih ys zs (by simpa using h)
        simp only [lsub, List.zipWith_cons_cons, ldot_cons] at this ⊢
        rw [this]; ring

@[simp] theorem zeros_length (k : Nat) : (zeros k : List K).length = k := by simp [zeros]
@[simp] theorem lneg_length (a : List K) : (lneg a).length = a.length := by simp [lneg]

theorem lsub_zeros_right (a : List K) (k : Nat) (h : a.length = k) : lsub a (zeros k) = a := by
  subst h
  induction a with
  | nil => simp [lsub, zeros]
  | cons x xs ih =>
    have : (zeros (xs.length + 1) : List K) = 0 :: zeros xs.length := by
      simp [zeros, List.replicate_succ]
    simp only [List.length_cons, this, lsub, List.zipWith_cons_cons, sub_zero]
    congr 1

/-- the unit row `np.eye(1, n)` picks the first entry -/
theorem ldot_e0 (k : Nat) (rho : List K) :
    ldot ((1 : K) :: zeros k) rho = match rho with | x :: _ => x | [] => 0 := by
  cases rho with
  | nil => simp
  | cons x xs => simp

end ring

/-! ## chunks (reshape) -/

@[simp] theorem chunks_length (n c : Nat) (l : List K) : (chunks n c l).length = c := by
  induction c generalizing l with
  | zero => rfl
  | succ c ih => simp [chunks, ih]

/-- `reshape` of a flattened list of `c` rows of length `n` returns the rows -/
theorem chunks_flatten (n : Nat) (rows : List (List K)) (h : ∀ r ∈ rows, r.length = n)
    (rest : List K) : chunks n rows.length (rows.flatten ++ rest) = rows := by
  induction rows with
  | nil => rfl
  | cons r rs ih =>
    have hr : r.length = n := h r (by simp)
    simp only [List.length_cons, chunks, List.flatten_cons, List.append_assoc]
    rw [List.take_append_of_le_length (by omega), List.take_of_length_le (by omega),
      List.drop_append_of_le_length (by omega), List.drop_of_length_le (by omega), List.nil_append,
      ih (fun r' hr' => h r' (by simp [hr']))]

theorem chunks_flatten' (n : Nat) (rows : List (List K)) (h : ∀ r ∈ rows, r.length = n) :
    chunks n rows.length rows.flatten = rows := by
  have := chunks_flatten n rows h []
  simpa using this

theorem chunks_row_length (n c : Nat) (l : List K) (h : l.length = c * n) :
    ∀ r ∈ chunks n c l, r.length = n := by
  induction c generalizing l with
  | zero => simp [chunks]
  | succ c ih =>
    intro r hr
    simp only [chunks, List.mem_cons] at hr
    have hl : n ≤ l.length := by rw [h]; exact Nat.le_mul_of_pos_left n (Nat.succ_pos c)
    rcases hr with rfl | hr
    · simp [List.length_take, hl]
    · exact ih (l.drop n) (by simp [List.length_drop, h, Nat.succ_mul]) r hr

theorem flatten_chunks (n c : Nat) (l : List K) (h : l.length = c * n) :
    (chunks n c l).flatten = l := by
  induction c generalizing l with
  | zero =>
    simp only [Nat.zero_mul, List.length_eq_zero_iff] at h
    simp [chunks, h]
  | succ c ih =>
    simp only [chunks, List.flatten_cons]
    rw [ih (l.drop n) (by simp [List.length_drop, h, Nat.succ_mul]), List.take_append_drop]

end QM.C08

namespace QM.C08
variable {K : Type}

section rows
variable [Field K]

theorem zeros_add (a b : Nat) : (zeros (a + b) : List K) = zeros a ++ zeros b := by
  simp only [zeros, List.replicate_append_replicate]

theorem zeros_succ (k : Nat) : (zeros (k + 1) : List K) = 0 :: zeros k := by
  simp [zeros, List.replicate_succ]

/-- outer product against a flattened matrix: `vec(E ρᵀ) · vec(hs) = E · (hs ρ)` -/
theorem ldot_outerFlat (e rho : List K) (rows : List (List K))
    (h : ∀ row ∈ rows, row.length = rho.length) :
    ldot (outerFlat e rho) rows.flatten = ldot e (matVec rows rho) := by
  induction e generalizing rows with
  | nil => simp [outerFlat]
  | cons a es ih =>
    cases rows with
    | nil => simp [matVec]
    | cons row rs =>
      have hr : row.length = rho.length := h row (by simp)
      have ih' := ih rs (fun r hr' => h r (by simp [hr']))
      simp only [outerFlat, List.flatMap_cons, List.flatten_cons, matVec, List.map_cons, ldot_cons] at ih' ⊢
      rw [ldot_append _ _ _ _ (by simp [hr]), ldot_smul_left, ih', ldot_comm rho row]

/-- a block row against a flattened list of equally long rows picks one row -/
theorem ldot_blockRow (w : Nat) (rows : List (List K)) (x : Nat) (c : List K) (k : Nat)
    (hx : x < rows.length) (hl : ∀ r ∈ rows, r.length = w) (hc : c.length = w) :
    ldot (zeros (x * w) ++ c ++ zeros k) rows.flatten = ldot c (rows[x]) := by
  induction x generalizing rows with
  | zero =>
    cases rows with
    | nil => simp at hx
    | cons r rs =>
      have hr : r.length = w := hl r (by simp)
      simp only [Nat.zero_mul, zeros, List.replicate_zero, List.nil_append, List.flatten_cons,
        List.getElem_cons_zero]
      rw [ldot_append _ _ _ _ (by rw [hc, hr])]
      have : ldot (List.replicate k (0 : K)) rs.flatten = 0 := ldot_zeros_left k _
      rw [this, add_zero]
  | succ x ih =>
    cases rows with
    | nil => simp at hx
    | cons r rs =>
      have hr : r.length = w := hl r (by simp)
      have e : (zeros ((x + 1) * w) : List K) = zeros w ++ zeros (x * w) := by
        rw [← zeros_add]; congr 1; rw [Nat.succ_mul, Nat.add_comm]
      simp only [e, List.append_assoc, List.flatten_cons, List.getElem_cons_succ]
      rw [ldot_append _ _ _ _ (by simp [hr]), ldot_zeros_left, zero_add]
      have := ih rs (by simpa using hx) (fun r' hr' => hl r' (by simp [hr']))
      simpa [List.append_assoc] using this

/-- C08 row identity, state tomography -/
theorem qst_row_eq (flag : Bool) (r : K) (vec var a : List K) (b : K)
    (h : qstRow flag r vec = some (a, b)) : ldot a var + b = ldot vec (stateOf flag r var) := by
  cases flag with
  | false =>
    simp only [qstRow, Bool.false_eq_true, if_false, Option.some.injEq, Prod.mk.injEq] at h
    obtain ⟨rfl, rfl⟩ := h
    simp [stateOf]
  | true =>
    cases vec with
    | nil => simp [qstRow] at h
    | cons v0 rest =>
      simp only [qstRow, if_true, Option.some.injEq, Prod.mk.injEq] at h
      obtain ⟨rfl, rfl⟩ := h
      simp only [stateOf, if_true, ldot_cons]
      rw [mul_one_div, add_comm]

/-- C08 row identity, process tomography: `c = outer(E, ρ).flatten()` -/
theorem qpt_row_eq (flag : Bool) (rho e var a : List K) (b : K)
    (hn : var.length = (if flag then rho.length - 1 else rho.length) * rho.length)
    (h : qptRow flag rho.length (outerFlat e rho) = some (a, b)) :
    ldot a var + b = ldot e (matVec (gateOf flag rho.length var) rho) := by
  cases flag with
  | false =>
    simp only [qptRow, Bool.false_eq_true, if_false, Option.some.injEq, Prod.mk.injEq] at h
    obtain ⟨rfl, rfl⟩ := h
    simp only [Bool.false_eq_true, if_false] at hn
    simp only [gateOf, Bool.false_eq_true, if_false, add_zero]
    have hv := flatten_chunks rho.length rho.length var hn
    conv_lhs => rw [← hv]
    exact ldot_outerFlat e rho _ (chunks_row_length _ _ _ hn)
  | true =>
    simp only [if_true] at hn
    cases e with
    | nil => simp [qptRow, outerFlat] at h
    | cons e0 es =>
      cases rho with
      | nil =>
        have : outerFlat (e0 :: es) ([] : List K) = [] := by
          simp [outerFlat]
        simp [qptRow, this] at h
      | cons r0 rs =>
        have hc : outerFlat (e0 :: es) (r0 :: rs) =
            (e0 * r0 :: rs.map fun x => e0 * x) ++ outerFlat es (r0 :: rs) := by
          simp [outerFlat]
        rw [hc] at h
        simp only [qptRow, if_true, List.cons_append, Option.some.injEq, Prod.mk.injEq] at h
        obtain ⟨ha, rfl⟩ := h
        have ha' : a = outerFlat es (r0 :: rs) := by
          rw [← ha]
          have : (e0 * r0 :: ((rs.map fun x => e0 * x) ++ outerFlat es (r0 :: rs))) =
              (e0 * r0 :: rs.map fun x => e0 * x) ++ outerFlat es (r0 :: rs) := rfl
          rw [this, List.drop_left' (by simp)]
        subst ha'
        simp only [List.length_cons, Nat.add_sub_cancel] at hn
        simp only [gateOf, if_true, matVec, List.map_cons, ldot_cons, List.length_cons,
          Nat.add_sub_cancel]
        have hv := flatten_chunks (rs.length + 1) rs.length var hn
        have hl := chunks_row_length (rs.length + 1) rs.length var hn
        have key := ldot_outerFlat es (r0 :: rs) (chunks (rs.length + 1) rs.length var)
          (by simpa using hl)
        rw [hv] at key
        simp only [matVec] at key
        rw [key]
        simp
        ring

end rows
end QM.C08

namespace QM.C08
variable {K : Type}

section povmt
variable [Field K]

theorem tile_zeros (k n : Nat) : tile k (zeros n : List K) = zeros (k * n) := by
  induction k with
  | zero => simp [tile, zeros]
  | succ k ih =>
    have : tile (k + 1) (zeros n : List K) = zeros n ++ tile k (zeros n) := by
      simp [tile, List.replicate_succ]
    rw [this, ih, ← zeros_add]; congr 1; rw [Nat.succ_mul, Nat.add_comm]

omit [Field K] in
theorem tile_succ (k : Nat) (c : List K) : tile (k + 1) c = c ++ tile k c := by
  simp [tile, List.replicate_succ]

theorem tile_length (k : Nat) (c : List K) : (tile k c).length = k * c.length := by
  induction k with
  | zero => simp [tile]
  | succ k ih => rw [tile_succ, List.length_append, ih, Nat.succ_mul, Nat.add_comm]

/-- `np.tile(c, k)` against `k` stacked rows: the sum of the row products -/
theorem ldot_tile (c : List K) (rows : List (List K)) (h : ∀ r ∈ rows, r.length = c.length) :
    ldot (tile rows.length c) rows.flatten = (rows.map fun r => ldot c r).sum := by
  induction rows with
  | nil => simp [tile]
  | cons r rs ih =>
    have hr : r.length = c.length := h r (by simp)
    rw [List.length_cons, tile_succ, List.flatten_cons, ldot_append _ _ _ _ hr.symm,
      ih (fun r' hr' => h r' (by simp [hr']))]
    simp

theorem ldot_zipWith_add (a b c : List K) (h : a.length = b.length) :
    ldot (List.zipWith (· + ·) a b) c = ldot a c + ldot b c := by
  induction a generalizing b c with
  | nil => cases b with
    | nil => simp
    | cons y ys => simp at h
  | cons x xs ih => cases b with
    | nil => simp at h
    | cons y ys => cases c with
      | nil => simp
      | cons z zs =>
        simp only [List.zipWith_cons_cons, ldot_cons, ih ys zs (by simpa using h)]
        ring

theorem colSum_length (n : Nat) (rows : List (List K)) (h : ∀ r ∈ rows, r.length = n) :
    (colSum n rows).length = n := by
  induction rows with
  | nil => simp [colSum]
  | cons r rs ih =>
    have := ih (fun r' hr' => h r' (by simp [hr']))
    simp only [colSum, List.foldr_cons, List.length_zipWith] at this ⊢
    rw [this, h r (by simp)]; simp

theorem ldot_colSum (n : Nat) (rows : List (List K)) (rho : List K) (h : ∀ r ∈ rows, r.length = n) :
    ldot (colSum n rows) rho = (rows.map fun r => ldot r rho).sum := by
  induction rows with
  | nil => simp [colSum]
  | cons r rs ih =>
    have hl := colSum_length n rs (fun r' hr' => h r' (by simp [hr']))
    have e : colSum n (r :: rs) = List.zipWith (· + ·) r (colSum n rs) := rfl
    rw [e, ldot_zipWith_add _ _ _ (by rw [hl, h r (by simp)]), ih (fun r' hr' => h r' (by simp [hr']))]
    simp

/-- C08 row identity, POVM tomography: outcome `x` of the unknown POVM built from `var` -/
theorem povmt_row_eq (flag : Bool) (r : K) (m : Nat) (rho : List K) (x : Nat) (var a : List K) (b : K)
    (hx : x < m) (hn : var.length = (if flag then m - 1 else m) * rho.length)
    (h : povmtRow flag r m rho x = some (a, b)) :
    (bornPovmState (povmOf flag r rho.length m var) rho)[x]? = some (ldot a var + b) := by
  cases flag with
  | false =>
    simp only [povmtRow, Bool.false_eq_true, if_false, Option.some.injEq, Prod.mk.injEq] at h
    obtain ⟨rfl, rfl⟩ := h
    simp only [Bool.false_eq_true, if_false] at hn
    have hv := flatten_chunks rho.length m var hn
    have hl := chunks_row_length rho.length m var hn
    simp only [povmOf, Bool.false_eq_true, if_false, bornPovmState, List.getElem?_map, add_zero]
    have hx' : x < (chunks rho.length m var).length := by simpa using hx
    rw [List.getElem?_eq_getElem hx', Option.map_some]
    congr 1
    conv_rhs => rw [← hv]
    rw [ldot_blockRow rho.length _ x rho _ hx' hl rfl, ldot_comm]
  | true =>
    obtain ⟨m', rfl⟩ : ∃ m', m = m' + 1 := ⟨m - 1, by omega⟩
    simp only [if_true, Nat.add_sub_cancel] at hn
    have hv := flatten_chunks rho.length m' var hn
    have hl := chunks_row_length rho.length m' var hn
    have hlen : (chunks rho.length m' var).length = m' := chunks_length _ _ _
    cases rho with
    | nil =>
      exfalso
      simp only [povmtRow, List.length_nil, Nat.mul_zero, if_true] at h
      simp [zeros] at h
    | cons r0 rs =>
      set rho := r0 :: rs with hrho
      set n := rho.length with hnn
      have hnpos : n = rs.length + 1 := by simp [hnn, hrho]
      simp only [povmtRow, if_true, Nat.add_sub_cancel] at h
      simp only [povmOf, if_true, Nat.add_sub_cancel, bornPovmState, List.getElem?_map]
      by_cases hlt : x < m'
      · -- an outcome other than the last one
        obtain ⟨k, hk⟩ : ∃ k, m' - x = k + 1 := ⟨m' - x - 1, by omega⟩
        have hc : zeros (x * n) ++ rho ++ zeros ((m' - x) * n) =
            (zeros (x * n) ++ rho ++ zeros (k * n)) ++ (zeros n : List K) := by
          rw [hk, Nat.succ_mul, zeros_add]; simp [List.append_assoc]
        have hplen : (zeros (x * n) ++ rho ++ (zeros (k * n) : List K)).length = n * m' := by
          simp only [List.length_append, zeros_length]
          have : m' = x + (k + 1) := by omega
          rw [this, ← hnn]; ring
        rw [hc, List.take_left' hplen, List.drop_left' hplen] at h
        have hz : (zeros n : List K) = 0 :: zeros rs.length := by rw [hnpos, zeros_succ]
        rw [hz] at h
        simp only [Option.some.injEq, Prod.mk.injEq] at h
        obtain ⟨rfl, rfl⟩ := h
        rw [← hz, tile_zeros, lsub_zeros_right _ _ (by rw [hplen, Nat.mul_comm])]
        have hx' : x < (chunks n m' var).length := by rw [hlen]; exact hlt
        rw [List.getElem?_append_left hx', List.getElem?_eq_getElem hx', Option.map_some]
        congr 1
        conv_rhs => rw [← hv]
        rw [ldot_blockRow n _ x rho _ hx' hl rfl, ldot_comm]
        simp
      · -- the last outcome: `I − Σ others`
        have hxe : x = m' := by omega
        subst hxe
        have hc : zeros (x * n) ++ rho ++ zeros ((x - x) * n) = (zeros (x * n) : List K) ++ rho := by
          simp [zeros]
        have hplen : (zeros (x * n) : List K).length = n * x := by simp [Nat.mul_comm]
        rw [hc, List.take_left' hplen, List.drop_left' hplen] at h
        simp only [hrho, Option.some.injEq, Prod.mk.injEq] at h
        obtain ⟨rfl, rfl⟩ := h
        rw [← hrho]
        have hx' : (chunks n x var).length ≤ x := by rw [hlen]
        rw [List.getElem?_append_right hx']
        simp only [hlen, Nat.sub_self, List.getElem?_cons_zero, Option.map_some]
        congr 1
        have hcs := colSum_length n (chunks n x var) hl
        rw [ldot_lsub_left _ _ _ (by rw [hcs]; simp [hnpos]), ldot_colSum n _ rho hl,
          ldot_lsub_left _ _ _ (by rw [tile_length, zeros_length])]
        have ht := ldot_tile rho (chunks n x var) hl
        rw [hlen, hv] at ht
        rw [ht, ldot_zeros_left]
        have : n - 1 = rs.length := by omega
        rw [this]
        have hs : (List.map (fun r => ldot r rho) (chunks n x var)).sum =
            (List.map (fun r => ldot rho r) (chunks n x var)).sum := by
          congr 1; exact List.map_congr_left (fun r' _ => ldot_comm _ _)
        rw [hs, hrho, ldot_cons, ldot_zeros_left]
        ring

end povmt
end QM.C08

namespace QM.C08
variable {K : Type}

section qmpt
variable [Field K]

theorem outerFlat_length (e rho : List K) : (outerFlat e rho).length = e.length * rho.length := by
  induction e with
  | nil => simp [outerFlat]
  | cons a es ih =>
    have : outerFlat (a :: es) rho = (rho.map fun x => a * x) ++ outerFlat es rho := by simp [outerFlat]
    rw [this, List.length_append, ih, List.length_map, List.length_cons, Nat.succ_mul, Nat.add_comm]

/-- one block of `block_diag(c_qpt, …)` against the stacked gates picks gate `k` -/
theorem ldot_block_gate (n cnt k : Nat) (e rho var : List K) (t : Nat) (hk : k < cnt)
    (he : e.length = n) (hr : rho.length = n) (hv : var.length = cnt * (n * n)) :
    ldot (zeros (k * (n * n)) ++ outerFlat e rho ++ zeros t) var =
      ldot e (matVec (chunks n n ((chunks (n * n) cnt var)[k]'(by simpa using hk))) rho) := by
  have hfl := flatten_chunks (n * n) cnt var hv
  have hl := chunks_row_length (n * n) cnt var hv
  have hk' : k < (chunks (n * n) cnt var).length := by simpa using hk
  have hb : ((chunks (n * n) cnt var)[k]).length = n * n := hl _ (List.getElem_mem hk')
  conv_lhs => rw [← hfl]
  rw [ldot_blockRow (n * n) _ k _ t hk' hl (by rw [outerFlat_length, he, hr])]
  have hfl2 := flatten_chunks n n ((chunks (n * n) cnt var)[k]) hb
  conv_lhs => rw [← hfl2]
  exact ldot_outerFlat e rho _ (by
    intro row hrow
    rw [hr]; exact chunks_row_length n n _ hb row hrow)

/-- C08 schedule identity, measurement-process tomography, unconstrained parametrisation:
the rows of `block_diag(c_qpt × m)` predict the joint probabilities in the order
(mprocess outcome, povm outcome) -/
theorem qmpt_sched_eq_false (m : Nat) (rho : List K) (povm : List (List K)) (var : List K)
    (rows : List (List K × K)) (hE : ∀ e ∈ povm, e.length = rho.length)
    (hn : var.length = m * (rho.length * rho.length))
    (h : qmptSched false m rho povm = some rows) :
    rows.map (fun ab => ldot ab.1 var + ab.2) =
      bornPovmMprocessState povm (mprocessOf false rho.length m var) rho := by
  simp only [qmptSched, cqptToCqmpt, Bool.false_eq_true, if_false, Option.some.injEq] at h
  subst h
  set n := rho.length with hnn
  simp only [bornPovmMprocessState, mprocessOf, Bool.false_eq_true, if_false, bornPovmGateState,
    bornPovmState, cQpt, blockRow]
  rw [List.map_flatMap, List.flatMap_def, List.flatMap_def, List.map_map]
  congr 1
  apply List.ext_getElem
  · simp
  · intro k h1 h2
    have hk : k < m := by simpa using h1
    simp only [List.getElem_map, List.getElem_range, Function.comp_def, List.map_map]
    apply List.map_congr_left
    intro e he
    simp only [add_zero]
    exact ldot_block_gate n m k e rho var _ hk (hE e he) rfl hn

end qmpt
end QM.C08

namespace QM.C08
variable {K : Type}

/-! ## the coefficient dictionary: insertion order is key order -/

def keyRel (p q : Coeff K) : Prop := keyLe p.key q.key = true

/-- dictionary built from schedule index `s` on, element indices from `j` on -/
def rowsFrom (si j : Nat) (rows : List (List K × K)) : List (Coeff K) :=
  (rows.zipIdx j).map fun (ab, x) => ⟨(si, x), ab.1, ab.2⟩

def coeffsFrom (s : Nat) (per : List (List (List K × K))) : List (Coeff K) :=
  (per.zipIdx s).flatMap fun (rows, si) => rowsFrom si 0 rows

theorem mkCoeffs_eq (per : List (List (List K × K))) : mkCoeffs per = coeffsFrom 0 per := rfl

theorem rowsFrom_cons (si j : Nat) (ab : List K × K) (rows : List (List K × K)) :
    rowsFrom si j (ab :: rows) = ⟨(si, j), ab.1, ab.2⟩ :: rowsFrom si (j + 1) rows := by
  simp [rowsFrom, List.zipIdx_cons]

theorem coeffsFrom_cons (s : Nat) (rows : List (List K × K)) (per : List (List (List K × K))) :
    coeffsFrom s (rows :: per) = rowsFrom s 0 rows ++ coeffsFrom (s + 1) per := by
  simp [coeffsFrom, List.zipIdx_cons]

theorem rowsFrom_key (si j : Nat) (rows : List (List K × K)) :
    ∀ c ∈ rowsFrom si j rows, c.key.1 = si ∧ j ≤ c.key.2 := by
  induction rows generalizing j with
  | nil => simp [rowsFrom]
  | cons ab rows ih =>
    intro c hc
    rw [rowsFrom_cons, List.mem_cons] at hc
    rcases hc with rfl | hc
    · simp
    · have := ih (j + 1) c hc
      exact ⟨this.1, by omega⟩

theorem rowsFrom_pairwise (si j : Nat) (rows : List (List K × K)) :
    (rowsFrom si j rows).Pairwise keyRel := by
  induction rows generalizing j with
  | nil => simp [rowsFrom]
  | cons ab rows ih =>
    rw [rowsFrom_cons, List.pairwise_cons]
    refine ⟨?_, ih (j + 1)⟩
    intro c hc
    have := rowsFrom_key si (j + 1) rows c hc
    simp only [keyRel, keyLe, Bool.or_eq_true, decide_eq_true_eq, Bool.and_eq_true, beq_iff_eq]
    right
    exact ⟨this.1.symm, by omega⟩

theorem coeffsFrom_key (s : Nat) (per : List (List (List K × K))) :
    ∀ c ∈ coeffsFrom s per, s ≤ c.key.1 := by
  induction per generalizing s with
  | nil => simp [coeffsFrom]
  | cons rows per ih =>
    intro c hc
    rw [coeffsFrom_cons, List.mem_append] at hc
    rcases hc with hc | hc
    · rw [(rowsFrom_key s 0 rows c hc).1]
    · have := ih (s + 1) c hc; omega

theorem coeffsFrom_pairwise (s : Nat) (per : List (List (List K × K))) :
    (coeffsFrom s per).Pairwise keyRel := by
  induction per generalizing s with
  | nil => simp [coeffsFrom]
  | cons rows per ih =>
    rw [coeffsFrom_cons, List.pairwise_append]
    refine ⟨rowsFrom_pairwise s 0 rows, ih (s + 1), ?_⟩
    intro c hc c' hc'
    have h1 := (rowsFrom_key s 0 rows c hc).1
    have h2 := coeffsFrom_key (s + 1) per c' hc'
    simp only [keyRel, keyLe, Bool.or_eq_true, decide_eq_true_eq, Bool.and_eq_true, beq_iff_eq]
    left; omega

/-- `sorted(dict.items())` does not move anything: the loops insert in key order -/
theorem sortCoeffs_mkCoeffs (per : List (List (List K × K))) :
    sortCoeffs (mkCoeffs per) = mkCoeffs per := by
  rw [mkCoeffs_eq]
  exact List.mergeSort_of_pairwise (coeffsFrom_pairwise 0 per)

theorem rowsFrom_map (si j : Nat) (rows : List (List K × K)) {β : Type} (f : List K → K → β) :
    (rowsFrom si j rows).map (fun c => f c.a c.b) = rows.map fun ab => f ab.1 ab.2 := by
  induction rows generalizing j with
  | nil => simp [rowsFrom]
  | cons ab rows ih => rw [rowsFrom_cons]; simp [ih (j + 1)]

theorem coeffsFrom_map (s : Nat) (per : List (List (List K × K))) {β : Type} (f : List K → K → β) :
    (coeffsFrom s per).map (fun c => f c.a c.b) = (per.map fun rows => rows.map fun ab => f ab.1 ab.2).flatten := by
  induction per generalizing s with
  | nil => simp [coeffsFrom]
  | cons rows per ih =>
    rw [coeffsFrom_cons, List.map_append, rowsFrom_map, ih (s + 1)]; simp

theorem rowsFrom_keys (si j : Nat) (rows : List (List K × K)) :
    (rowsFrom si j rows).map (·.key) = (List.range' j rows.length).map fun x => (si, x) := by
  induction rows generalizing j with
  | nil => simp [rowsFrom]
  | cons ab rows ih => rw [rowsFrom_cons]; simp [ih (j + 1), List.range'_succ]

theorem coeffsFrom_keys (s : Nat) (per : List (List (List K × K))) :
    (coeffsFrom s per).map (·.key) =
      ((per.zipIdx s).map fun (rows, si) => (List.range rows.length).map fun x => (si, x)).flatten := by
  induction per generalizing s with
  | nil => simp [coeffsFrom]
  | cons rows per ih =>
    rw [coeffsFrom_cons, List.map_append, rowsFrom_keys, ih (s + 1)]
    simp [List.zipIdx_cons, List.range_eq_range']

end QM.C08

namespace QM.C08
variable {K : Type}

/-! ## Option.mapM plumbing -/

theorem mapM_opt_map {α β γ : Type} (f : α → Option β) (g : β → γ) (h : α → γ)
    (hyp : ∀ a b, f a = some b → g b = h a) :
    ∀ (l : List α) (l' : List β), l.mapM f = some l' → l'.map g = l.map h := by
  intro l
  induction l with
  | nil => intro l' hl; simp at hl; subst hl; rfl
  | cons a l ih =>
    intro l' hl
    rw [List.mapM_cons] at hl
    simp only [Option.bind_eq_bind, Option.bind_eq_some_iff, Option.pure_def, Option.some.injEq] at hl
    obtain ⟨b, hb, bs, hbs, rfl⟩ := hl
    simp [hyp a b hb, ih bs hbs]

theorem mapM_opt_lift {α β γ : Type} (f : α → Option β) (f' : α → Option γ) (g : β → γ)
    (hyp : ∀ a b, f a = some b → f' a = some (g b)) :
    ∀ (l : List α) (l' : List β), l.mapM f = some l' → l.mapM f' = some (l'.map g) := by
  intro l
  induction l with
  | nil => intro l' hl; simp at hl; subst hl; simp
  | cons a l ih =>
    intro l' hl
    rw [List.mapM_cons] at hl
    simp only [Option.bind_eq_bind, Option.bind_eq_some_iff, Option.pure_def, Option.some.injEq] at hl
    obtain ⟨b, hb, bs, hbs, rfl⟩ := hl
    rw [List.mapM_cons]
    simp [hyp a b hb, ih bs hbs]

theorem mapM_map_opt {α β γ : Type} (u : α → β) (f : β → Option γ) (l : List α) :
    (l.map u).mapM f = l.mapM (fun a => f (u a)) := by
  induction l with
  | nil => rfl
  | cons a l ih => simp [List.mapM_cons, ih]

theorem mapM_opt_length {α β : Type} (f : α → Option β) :
    ∀ (l : List α) (l' : List β), l.mapM f = some l' → l'.length = l.length := by
  intro l l' h
  have := mapM_opt_map f (fun _ => ()) (fun _ => ()) (fun _ _ _ => rfl) l l' h
  simpa using congrArg List.length this

theorem mapM_opt_getElem {α β : Type} (f : α → Option β) :
    ∀ (l : List α) (l' : List β), l.mapM f = some l' →
      ∀ i (h : i < l.length) (h' : i < l'.length), f l[i] = some l'[i] := by
  intro l
  induction l with
  | nil => intro l' _ i h; simp at h
  | cons a l ih =>
    intro l' hl i h h'
    rw [List.mapM_cons] at hl
    simp only [Option.bind_eq_bind, Option.bind_eq_some_iff, Option.pure_def, Option.some.injEq] at hl
    obtain ⟨b, hb, bs, hbs, rfl⟩ := hl
    cases i with
    | zero => simpa using hb
    | succ j => simpa using ih bs hbs j (by simpa using h) (by simpa using h')

/-- value predicted by one dictionary entry -/
def rowVal [Add K] [Mul K] [Zero K] (var : List K) (ab : List K × K) : K := ldot ab.1 var + ab.2

section sched
variable [Field K]

theorem qstSched_eq (flag : Bool) (r : K) (povm : List (List K)) (var : List K)
    (rows : List (List K × K)) (h : qstSched flag r povm = some rows) :
    rows.map (rowVal var) = bornPovmState povm (stateOf flag r var) := by
  unfold bornPovmState
  exact mapM_opt_map (qstRow flag r) (rowVal var) _
    (fun vec ab hab => qst_row_eq flag r vec var ab.1 ab.2 hab) povm rows h

theorem qptSched_eq (flag : Bool) (rho : List K) (povm : List (List K)) (var : List K)
    (rows : List (List K × K))
    (hn : var.length = (if flag then rho.length - 1 else rho.length) * rho.length)
    (h : qptSched flag rho povm = some rows) :
    rows.map (rowVal var) = bornPovmGateState povm (gateOf flag rho.length var) rho := by
  unfold bornPovmGateState bornPovmState
  unfold qptSched cQpt at h
  rw [mapM_map_opt] at h
  exact mapM_opt_map _ (rowVal var) _
    (fun e ab hab => qpt_row_eq flag rho e var ab.1 ab.2 hn hab) povm rows h

theorem povmtSched_eq (flag : Bool) (r : K) (m : Nat) (rho var : List K) (rows : List (List K × K))
    (hm : 0 < m) (hn : var.length = (if flag then m - 1 else m) * rho.length)
    (h : povmtSched flag r m rho = some rows) :
    rows.map (rowVal var) = bornPovmState (povmOf flag r rho.length m var) rho := by
  have hlen : rows.length = m := by
    have := mapM_opt_length _ _ _ h; simpa using this
  have hlen2 : (bornPovmState (povmOf flag r rho.length m var) rho).length = m := by
    cases flag with
    | false => simp [bornPovmState, povmOf]
    | true => simp [bornPovmState, povmOf]; omega
  apply List.ext_getElem?
  intro x
  by_cases hx : x < m
  · have hr := mapM_opt_getElem _ _ _ h x (by simpa using hx) (by rw [hlen]; exact hx)
    simp only [List.getElem_range] at hr
    rw [povmt_row_eq flag r m rho x var _ _ hx hn hr]
    rw [List.getElem?_map, List.getElem?_eq_getElem (by rw [hlen]; exact hx)]
    rfl
  · rw [List.getElem?_eq_none (by simp [hlen]; omega), List.getElem?_eq_none (by rw [hlen2]; omega)]

end sched
end QM.C08

namespace QM.C08
variable {K : Type}
section qmptT
variable [Field K]

omit [Field K] in
theorem chunks_append_left (n c : Nat) (a t : List K) (h : a.length = c * n) :
    chunks n c (a ++ t) = chunks n c a := by
  have hf := flatten_chunks n c a h
  have hl := chunks_row_length n c a h
  have := chunks_flatten n (chunks n c a) hl t
  rw [hf, chunks_length] at this
  exact this

theorem blockRow_length (w cnt k : Nat) (c : List K) (hk : k < cnt) (hc : c.length = w) :
    (blockRow w cnt k c).length = cnt * w := by
  simp only [blockRow, List.length_append, zeros_length, hc]
  have : cnt = k + 1 + (cnt - 1 - k) := by omega
  conv_rhs => rw [this]
  ring

/-- last block row: the eliminated first row of the last gate -/
theorem qmpt_last_row_eq (m' : Nat) (rho e V1 V2 a : List K) (b : K)
    (he : e.length = rho.length)
    (h1 : V1.length = m' * (rho.length * rho.length))
    (h2 : V2.length = (rho.length - 1) * rho.length)
    (h : qmptLastRow rho.length (m' + 1) (outerFlat e rho) = some (a, b)) :
    ldot a (V1 ++ V2) + b =
      ldot e (matVec
        ((lsub ((1 : K) :: zeros (rho.length - 1))
            (colSum rho.length ((chunks (rho.length * rho.length) m' V1).map fun blk => blk.take rho.length)))
          :: chunks rho.length (rho.length - 1) V2) rho) := by
  cases e with
  | nil => simp [qmptLastRow, outerFlat] at h
  | cons e0 es =>
    cases rho with
    | nil =>
      have : outerFlat (e0 :: es) ([] : List K) = [] := by simp [outerFlat]
      simp [qmptLastRow, this] at h
    | cons r0 rs =>
      set rho := r0 :: rs with hrho
      set n := rho.length with hnn
      have hn1 : n = rs.length + 1 := by simp [hnn, hrho]
      have hc : outerFlat (e0 :: es) rho = (rho.map fun x => e0 * x) ++ outerFlat es rho := by
        simp [outerFlat]
      have hc0 : outerFlat (e0 :: es) rho = e0 * r0 :: ((rs.map fun x => e0 * x) ++ outerFlat es rho) := by
        rw [hc, hrho]; rfl
      have htk : (outerFlat (e0 :: es) rho).take n = rho.map fun x => e0 * x := by
        rw [hc, List.take_left' (by simp [hnn])]
      have hdr : (outerFlat (e0 :: es) rho).drop n = outerFlat es rho := by
        rw [hc, List.drop_left' (by simp [hnn])]
      unfold qmptLastRow at h
      rw [htk, hdr] at h
      rw [hc0] at h
      simp only [Nat.add_sub_cancel, Option.some.injEq, Prod.mk.injEq] at h
      obtain ⟨rfl, rfl⟩ := h
      set w := n * n with hw
      set D : List K := lneg (rho.map fun x => e0 * x) ++ zeros (w - n) with hD
      have hnw : n ≤ w := by rw [hw]; exact Nat.le_mul_of_pos_left n (by omega)
      have hDlen : D.length = w := by simp [hD, hnn]; omega
      set B := chunks w m' V1 with hB
      have hBfl : B.flatten = V1 := flatten_chunks w m' V1 h1
      have hBl : ∀ blk ∈ B, blk.length = w := chunks_row_length w m' V1 h1
      have hBlen : B.length = m' := chunks_length _ _ _
      -- split the dot product
      rw [ldot_append _ _ _ _ (by rw [tile_length, hDlen, h1])]
      have ht := ldot_tile D B (by intro blk hb; rw [hBl blk hb, hDlen])
      rw [hBlen, hBfl] at ht
      rw [ht]
      have hblk : ∀ blk ∈ B, ldot D blk = - (e0 * ldot (blk.take n) rho) := by
        intro blk hb
        have hl := hBl blk hb
        conv_lhs => rw [← List.take_append_drop n blk]
        rw [hD, ldot_append _ _ _ _ (by simp [hnn, hl]; omega), ldot_zeros_left, add_zero,
          ldot_neg_left, ldot_smul_left, ldot_comm]
      have hsum : (B.map fun blk => ldot D blk).sum =
          - (e0 * ((B.map fun blk => blk.take n).map fun row => ldot row rho).sum) := by
        rw [List.map_map]
        have : (B.map fun blk => ldot D blk) = B.map fun blk => - (e0 * ldot (blk.take n) rho) :=
          List.map_congr_left hblk
        rw [this]
        clear ht hblk this
        induction B with
        | nil => simp
        | cons blk B ih => simp only [List.map_cons, List.sum_cons, ih, Function.comp_apply]; ring
      rw [hsum]
      -- the remaining rows of the last gate
      have hV2 := flatten_chunks n (n - 1) V2 h2
      have hV2l := chunks_row_length n (n - 1) V2 h2
      have key := ldot_outerFlat es rho (chunks n (n - 1) V2) (by simpa [hnn] using hV2l)
      rw [hV2] at key
      rw [key]
      -- right-hand side
      have hfr : ∀ row ∈ (B.map fun blk => blk.take n), row.length = n := by
        intro row hr
        obtain ⟨blk, hb, rfl⟩ := List.mem_map.1 hr
        simp [hBl blk hb, hnw]
      simp only [matVec, List.map_cons, ldot_cons]
      rw [ldot_lsub_left _ _ _ (by rw [colSum_length n _ hfr]; simp; omega), ldot_colSum n _ rho hfr]
      have : ldot ((1 : K) :: zeros (n - 1)) rho = r0 := by
        rw [hrho, ldot_cons, ldot_zeros_left]; ring
      rw [this]
      ring

end qmptT
end QM.C08

namespace QM.C08
variable {K : Type}

theorem mapM_opt_map_mem {α β γ : Type} (f : α → Option β) (g : β → γ) (h : α → γ) :
    ∀ (l : List α) (l' : List β), (∀ a ∈ l, ∀ b, f a = some b → g b = h a) →
      l.mapM f = some l' → l'.map g = l.map h := by
  intro l
  induction l with
  | nil => intro l' _ hl; simp at hl; subst hl; rfl
  | cons a l ih =>
    intro l' hyp hl
    rw [List.mapM_cons] at hl
    simp only [Option.bind_eq_bind, Option.bind_eq_some_iff, Option.pure_def, Option.some.injEq] at hl
    obtain ⟨b, hb, bs, hbs, rfl⟩ := hl
    simp [hyp a (by simp) b hb, ih bs (fun a' ha' => hyp a' (by simp [ha'])) hbs]

section qmptT2
variable [Field K]

omit [Field K] in
theorem head_chunks (n : Nat) (hn : 0 < n) (blk : List K) :
    (match chunks n n blk with | row :: _ => row | [] => []) = blk.take n := by
  obtain ⟨k, rfl⟩ : ∃ k, n = k + 1 := ⟨n - 1, by omega⟩
  simp [chunks]

/-- C08 schedule identity, measurement-process tomography, constrained parametrisation -/
theorem qmpt_sched_eq_true (m : Nat) (rho : List K) (povm : List (List K)) (var : List K)
    (rows : List (List K × K)) (hm : 0 < m) (hr : 0 < rho.length)
    (hE : ∀ e ∈ povm, e.length = rho.length)
    (hn : var.length = (m - 1) * (rho.length * rho.length) + (rho.length - 1) * rho.length)
    (h : qmptSched true m rho povm = some rows) :
    rows.map (rowVal var) = bornPovmMprocessState povm (mprocessOf true rho.length m var) rho := by
  obtain ⟨m', rfl⟩ : ∃ m', m = m' + 1 := ⟨m - 1, by omega⟩
  simp only [Nat.add_sub_cancel] at hn
  set n := rho.length with hnn
  set w := n * n with hw
  set V1 := var.take (m' * w) with hV1
  set V2 := var.drop (m' * w) with hV2
  have hvar : var = V1 ++ V2 := (List.take_append_drop _ _).symm
  have h1 : V1.length = m' * w := by simp [hV1, List.length_take, hn]
  have h2 : V2.length = (n - 1) * n := by simp [hV2, List.length_drop, hn]
  have hB : chunks w m' var = chunks w m' V1 := by
    conv_lhs => rw [hvar]
    exact chunks_append_left w m' V1 V2 h1
  -- the rows
  simp only [qmptSched, cqptToCqmpt, if_true, Nat.add_sub_cancel, Option.bind_eq_bind,
    Option.bind_eq_some_iff, Option.pure_def, Option.some.injEq] at h
  obtain ⟨a1, ha1, rfl⟩ := h
  unfold cQpt at ha1
  rw [mapM_map_opt] at ha1
  -- the object
  have hobj : mprocessOf true n (m' + 1) var =
      (chunks w m' V1).map (chunks n n) ++
        [lsub ((1 : K) :: zeros (n - 1)) (colSum n ((chunks w m' V1).map fun blk => blk.take n))
          :: chunks n (n - 1) V2] := by
    have hB' : chunks (n * n) m' var = chunks w m' V1 := hB
    have hV2' : List.drop (m' * (n * n)) var = V2 := rfl
    simp only [mprocessOf, if_true, Nat.add_sub_cancel, List.map_map, hB', hV2']
    congr 5
    apply List.map_congr_left
    intro blk _
    exact head_chunks n hr blk
  rw [hobj]
  simp only [bornPovmMprocessState, List.flatMap_append, List.flatMap_cons, List.flatMap_nil,
    List.append_nil, List.map_append]
  congr 1
  · -- the first m' gates
    simp only [bornPovmGateState, bornPovmState, cQpt]
    rw [List.map_flatMap, List.flatMap_def, List.flatMap_def, List.map_map]
    congr 1
    apply List.ext_getElem
    · simp
    · intro k hk1 hk2
      have hk : k < m' := by simpa using hk1
      simp only [List.getElem_map, List.getElem_range, Function.comp_def, List.map_map]
      apply List.map_congr_left
      intro e he
      simp only [rowVal, add_zero]
      have hol : (outerFlat e rho).length = w := by rw [outerFlat_length, hE e he]
      rw [hvar, ldot_append _ _ _ _ (by rw [blockRow_length w m' k _ hk hol, h1]), ldot_zeros_left,
        add_zero]
      exact ldot_block_gate n m' k e rho V1 _ hk (hE e he) rfl h1
  · -- the last gate
    simp only [bornPovmGateState, bornPovmState]
    apply mapM_opt_map_mem _ (rowVal var) _ povm a1 _ ha1
    intro e he ab hab
    have := qmpt_last_row_eq m' rho e V1 V2 ab.1 ab.2 (hE e he) h1 h2 hab
    simp only [rowVal]
    rw [hvar]
    exact this

end qmptT2
end QM.C08

namespace QM.C08
theorem ldot_div_left {K : Type} [Field K] (v w : List K) (p : K) :
    ldot (v.map (· / p)) w = ldot v w / p := by
  induction v generalizing w with
  | nil => simp
  | cons a as ih => cases w with
    | nil => simp
    | cons b bs => simp [ih bs]; ring
end QM.C08

namespace QM.C08
/-- lists of lists of the same shape with equal concatenations are equal -/
theorem flatten_map_inj {α β : Type} (f g : α → β) (per : List (List α))
    (h : (per.map fun rows => rows.map f).flatten = (per.map fun rows => rows.map g).flatten) :
    (per.map fun rows => rows.map f) = per.map fun rows => rows.map g := by
  induction per with
  | nil => rfl
  | cons rows per ih =>
    simp only [List.map_cons, List.flatten_cons] at h ⊢
    have := List.append_inj h (by simp)
    rw [this.1, ih this.2]
end QM.C08

namespace QM.C08
variable {K : Type}
section cols
variable [Field K]

theorem lsub_length (a b : List K) : (lsub a b).length = min a.length b.length := by simp [lsub]

/-- C08.2 `matA_cols` (POVMT): `(m−1)·n` (flag) resp. `m·n` columns -/
theorem povmt_cols' (flag : Bool) (r : K) (m : Nat) (rho : List K) (x : Nat) (a : List K) (b : K)
    (hx : x < m) (h : povmtRow flag r m rho x = some (a, b)) :
    a.length = (if flag then m - 1 else m) * rho.length := by
  obtain ⟨m', rfl⟩ : ∃ m', m = m' + 1 := ⟨m - 1, by omega⟩
  have hclen : (zeros (x * rho.length) ++ rho ++ (zeros ((m' + 1 - 1 - x) * rho.length) : List K)).length
      = (m' + 1) * rho.length := by
    simp only [List.length_append, zeros_length, Nat.add_sub_cancel]
    have : m' + 1 = x + 1 + (m' - x) := by omega
    conv_rhs => rw [this]
    ring
  cases flag with
  | false =>
    simp only [povmtRow, Bool.false_eq_true, if_false, Option.some.injEq, Prod.mk.injEq] at h
    rw [← h.1, hclen]; simp
  | true =>
    simp only [povmtRow, if_true] at h
    split at h
    · rename_i x0 rest hcp
      simp only [Option.some.injEq, Prod.mk.injEq] at h
      rw [← h.1, lsub_length, tile_length, List.length_take, hclen, List.length_drop, hclen]
      simp only [Nat.add_sub_cancel, if_true]
      have e1 : (m' + 1) * rho.length - rho.length * m' = rho.length := by
        rw [Nat.succ_mul, Nat.mul_comm m']; omega
      rw [e1]
      have e2 : min (rho.length * m') ((m' + 1) * rho.length) = rho.length * m' := by
        apply Nat.min_eq_left; rw [Nat.succ_mul, Nat.mul_comm]; omega
      rw [e2, Nat.mul_comm, Nat.min_self]
    · cases h

/-- C08.2 `matA_cols` (QMPT): every row built by `cqpt_to_cqmpt` has `m·n² − n` (flag) resp. `m·n²` entries -/
theorem qmpt_cols' (flag : Bool) (m : Nat) (rho : List K) (povm : List (List K))
    (rows : List (List K × K)) (hm : 0 < m) (hr : 0 < rho.length)
    (hE : ∀ e ∈ povm, e.length = rho.length) (h : qmptSched flag m rho povm = some rows) :
    ∀ ab ∈ rows, ab.1.length =
      if flag then (m - 1) * (rho.length * rho.length) + (rho.length * rho.length - rho.length)
      else m * (rho.length * rho.length) := by
  set n := rho.length with hn
  have hw : ∀ e ∈ povm, (outerFlat e rho).length = n * n := by
    intro e he; rw [outerFlat_length, hE e he]
  cases flag with
  | false =>
    simp only [qmptSched, cqptToCqmpt, Bool.false_eq_true, if_false, Option.some.injEq] at h
    subst h
    intro ab hab
    simp only [List.mem_flatMap, List.mem_range, List.mem_map, cQpt] at hab
    obtain ⟨k, hk, c, ⟨e, he, rfl⟩, rfl⟩ := hab
    simp only [Bool.false_eq_true, if_false]
    exact blockRow_length (n * n) m k _ hk (hw e he)
  | true =>
    obtain ⟨m', rfl⟩ : ∃ m', m = m' + 1 := ⟨m - 1, by omega⟩
    simp only [qmptSched, cqptToCqmpt, if_true, Nat.add_sub_cancel, Option.bind_eq_bind,
      Option.bind_eq_some_iff, Option.pure_def, Option.some.injEq] at h
    obtain ⟨a1, ha1, rfl⟩ := h
    intro ab hab
    simp only [if_true, Nat.add_sub_cancel]
    rw [List.mem_append] at hab
    rcases hab with hab | hab
    · simp only [List.mem_flatMap, List.mem_range, List.mem_map, cQpt] at hab
      obtain ⟨k, hk, c, ⟨e, he, rfl⟩, rfl⟩ := hab
      rw [List.length_append, blockRow_length (n * n) m' k _ hk (hw e he), zeros_length]
    · unfold cQpt at ha1
      rw [mapM_map_opt] at ha1
      obtain ⟨i, hi, rfl⟩ := List.mem_iff_getElem.1 hab
      have hlen := mapM_opt_length _ _ _ ha1
      have hg := mapM_opt_getElem _ _ _ ha1 i (by rw [← hlen]; exact hi) hi
      have he : povm[i]'(by rw [← hlen]; exact hi) ∈ povm := List.getElem_mem _
      have hwl := hw _ he
      unfold qmptLastRow at hg
      split at hg
      · rename_i c0 rest hc
        simp only [Option.some.injEq] at hg
        rw [← hg]
        simp only [List.length_append, tile_length, lneg_length, List.length_take, zeros_length,
          List.length_drop, Nat.add_sub_cancel, hwl]
        have hnw : n ≤ n * n := Nat.le_mul_of_pos_left n hr
        rw [Nat.min_eq_left hnw, Nat.add_sub_cancel' hnw]
      · cases hg

end cols
end QM.C08

namespace QM.C08
variable {K : Type}

theorem truncNorm_length [Field K] [LinearOrder K] (eps : K) (row : List K) :
    (truncNorm eps row).length = row.length := by simp [truncNorm]

theorem gen_qst_row' [Field K] (flag : Bool) (r : K) (vec : List K) :
    QGen.C08.qst_row flag r vec = qstRow flag r vec := by
  cases flag <;> cases vec <;> simp [QGen.C08.qst_row, qstRow]

theorem gen_qpt_row' [Field K] (flag : Bool) (n : Nat) (c : List K) :
    QGen.C08.qpt_row flag n c = qptRow flag n c := by
  cases flag <;> cases c <;> simp [QGen.C08.qpt_row, qptRow]

theorem gen_povmt_row' [Field K] (flag : Bool) (r : K) (m : Nat) (rho : List K) (x : Nat) :
    QGen.C08.povmt_row flag r m rho x = povmtRow flag r m rho x := by
  cases flag
  · simp [QGen.C08.povmt_row, povmtRow]
  · simp only [QGen.C08.povmt_row, povmtRow, if_true]
    cases h : List.drop (rho.length * (m - 1))
        (zeros (x * rho.length) ++ rho ++ zeros ((m - 1 - x) * rho.length)) with
    | nil => simp only [List.getElem?_nil]
    | cons x0 rest => simp only [List.getElem?_cons_zero]

/-- exact characterisation of the coded reshape -/
theorem calcProbDists_iff [Field K] [LinearOrder K] (eps : K) (cs : List (Coeff K))
    (var : List K) (dists : List (List K)) (hk : 0 < dists.length)
    (hp : predict cs var = .ok dists.flatten) :
    calcProbDists eps dists.length cs var = .ok (dists.map (truncNorm eps)) ↔
      ∃ c, ∀ d ∈ dists, d.length = c := by
  constructor
  · intro h
    unfold calcProbDists at h
    rw [hp] at h
    simp only [bind, Except.bind, pure, Except.pure] at h
    rw [if_neg (by omega)] at h
    split at h
    · cases h
    · rename_i hdiv
      injection h with h
      refine ⟨dists.flatten.length / dists.length, ?_⟩
      have hlen : dists.flatten.length = dists.length * (dists.flatten.length / dists.length) := by
        have := Nat.div_add_mod dists.flatten.length dists.length
        have h0 : dists.flatten.length % dists.length = 0 := by
          by_contra hne; exact hdiv hne
        omega
      have hrows := chunks_row_length (dists.flatten.length / dists.length) dists.length dists.flatten hlen
      have hl := congrArg (List.map List.length) h
      simp only [List.map_map] at hl
      intro d hd
      obtain ⟨i, hi, rfl⟩ := List.mem_iff_getElem.1 hd
      have hi' : i < (chunks (dists.flatten.length / dists.length) dists.length dists.flatten).length := by
        simpa using hi
      have e1 := congrArg (fun l => l[i]?) hl
      simp only [List.getElem?_map, List.getElem?_eq_getElem hi, List.getElem?_eq_getElem hi',
        Option.map_some, Function.comp_apply, truncNorm_length, Option.some.injEq] at e1
      rw [← e1]
      exact hrows _ (List.getElem_mem hi')
  · rintro ⟨c, hd⟩
    have hlen : dists.flatten.length = dists.length * c := by
      rw [List.length_flatten]
      have : dists.map List.length = List.replicate dists.length c := by
        apply List.eq_replicate_iff.2
        exact ⟨by simp, by intro x hx; obtain ⟨d, hd', rfl⟩ := List.mem_map.1 hx; exact hd d hd'⟩
      rw [this]; simp
    unfold calcProbDists
    rw [hp]
    simp only [bind, Except.bind, pure, Except.pure]
    rw [if_neg (by omega), hlen, if_neg (by simp)]
    rw [Nat.mul_div_cancel_left c hk]
    congr 2
    exact chunks_flatten' c dists hd

end QM.C08

namespace QM.C08
variable {K : Type}
/-- `truncate_and_normalize` leaves a distribution alone when it sums to one and every entry is either exactly 0 or at
least `eps` (boundary objects probed with their own eigenstates give exact zeros). -/
theorem truncNorm_id_zero_or_large' [Field K] [LinearOrder K] (eps : K) (row : List K)
    (h1 : ∀ p ∈ row, p < eps → p = 0) (h2 : lsum row = 1) : truncNorm eps row = row := by
  unfold truncNorm
  have e : (row.map fun p => if p < eps then 0 else p) = row := by
    conv_rhs => rw [← List.map_id row]
    apply List.map_congr_left
    intro p hp
    by_cases hlt : p < eps
    · simp [hlt, h1 p hp hlt]
    · simp [hlt]
  simp only [e, h2, div_one]
  simp
end QM.C08

namespace QM.C08
variable {K : Type} {m n : Nat}

theorem matA_mkCoeffs (per : List (List (List K × K))) :
    matA (mkCoeffs per) = (per.map fun rows => rows.map (·.1)).flatten := by
  unfold matA
  rw [sortCoeffs_mkCoeffs, mkCoeffs_eq]
  exact coeffsFrom_map 0 per (fun a _ => a)

/-- the statistics of two variable vectors agree iff their products with every row of matA agree (the offsets cancel) -/
theorem dists_eq_iff [Field K] (per : List (List (List K × K))) (v v' : List K) :
    ((per.map fun rows => rows.map (rowVal v)) = per.map fun rows => rows.map (rowVal v')) ↔
      (matA (mkCoeffs per)).map (fun row => ldot row v) = (matA (mkCoeffs per)).map (fun row => ldot row v') := by
  rw [matA_mkCoeffs, List.map_inj_left, List.map_inj_left]
  constructor
  · intro h row hrow
    simp only [List.mem_flatten, List.mem_map] at hrow
    obtain ⟨l, ⟨rows, hr, rfl⟩, hl⟩ := hrow
    obtain ⟨ab, hab, rfl⟩ := List.mem_map.1 hl
    have := List.map_inj_left.1 (h rows hr) ab hab
    exact add_right_cancel this
  · intro h rows hr
    rw [List.map_inj_left]
    intro ab hab
    have := h ab.1 (by
      simp only [List.mem_flatten, List.mem_map]
      exact ⟨rows.map (·.1), ⟨rows, hr, rfl⟩, List.mem_map.2 ⟨ab, hab, rfl⟩⟩)
    simp only [rowVal, this]

end QM.C08

namespace QM.C08
theorem mapM_opt_congr {α β : Type} (f g : α → Option β) :
    ∀ (l : List α), (∀ a ∈ l, f a = g a) → l.mapM f = l.mapM g := by
  intro l
  induction l with
  | nil => intro _; rfl
  | cons a l ih =>
    intro h
    rw [List.mapM_cons, List.mapM_cons, h a (by simp), ih (fun a' ha' => h a' (by simp [ha']))]
end QM.C08

/-! ## the generated `cqpt_to_cqmpt` (numpy statements on lists of rows) is the hand model -/
namespace QM.C08
variable {K : Type}

theorem zipWith_replicate_right {α β γ : Type} (f : α → β → γ) (l : List α) (x : β) :
    List.zipWith f l (List.replicate l.length x) = l.map fun a => f a x := by
  induction l with
  | nil => rfl
  | cons a l ih => simp [List.replicate_succ, ih]

theorem zipWith_map_map {α β γ δ : Type} (f : β → γ → δ) (g : α → β) (h : α → γ) (l : List α) :
    List.zipWith f (l.map g) (l.map h) = l.map fun a => f (g a) (h a) := by
  induction l with
  | nil => rfl
  | cons a l ih => simp [ih]

theorem matWidth_of_rows [Zero K] (w : Nat) (C : List (List K)) (h : ∀ c ∈ C, c.length = w) (hne : C ≠ []) :
    matWidth C = w := by
  cases C with
  | nil => exact absurd rfl hne
  | cons c cs => simpa [matWidth] using h c (by simp)

theorem gen_cqpt_false [Field K] (dim m : Nat) (cq : List (List K)) (w : Nat)
    (hw : ∀ c ∈ cq, c.length = w) (hwn : w = dim ^ 2 * dim ^ 2) :
    (QGen.C08.cqpt_to_cqmpt false dim m cq).map (fun ab => ab.1.zip ab.2) = cqptToCqmpt false (dim ^ 2) m cq := by
  by_cases hne : cq = []
  · subst hne
    simp [QGen.C08.cqpt_to_cqmpt, cqptToCqmpt, blockDiagRep, zeros]
  · have hmw := matWidth_of_rows w cq hw hne
    simp only [QGen.C08.cqpt_to_cqmpt, cqptToCqmpt, Bool.false_eq_true, if_false, Option.map_some]
    congr 1
    unfold zeros
    rw [List.zip_eq_zipWith, zipWith_replicate_right]
    simp only [blockDiagRep, blockRow, hmw, hwn, List.map_flatMap, List.map_map, zeros]
    rfl

end QM.C08

namespace QM.C08
variable {K : Type}

theorem zipWith_map_replicate {α β γ δ : Type} (f : β → γ → δ) (g : α → β) (l : List α) (x : γ) :
    List.zipWith f (l.map g) (List.replicate l.length x) = l.map fun a => f (g a) x := by
  induction l with
  | nil => rfl
  | cons a l ih => simp [List.replicate_succ, ih]

theorem blockDiagRep_length [Zero K] (k : Nat) (C : List (List K)) : (blockDiagRep k C).length = k * C.length := by
  unfold blockDiagRep
  generalize matWidth C = w
  have : ∀ (f : Nat → List K → List K) (k : Nat),
      ((List.range k).flatMap fun i => C.map (f i)).length = k * C.length := by
    intro f k
    induction k with
    | zero => simp
    | succ k ih => rw [List.range_succ, List.flatMap_append, List.length_append, ih]; simp [Nat.succ_mul]
  exact this (fun i c => zeros (i * w) ++ c ++ zeros ((k - 1 - i) * w)) k

theorem lastRow_mapM [Field K] (n m : Nat) (cq : List (List K)) :
    (cq.mapM (fun c => c[0]?)).map (fun b1 =>
        (cq.map fun c => tile (m - 1) (lneg (c.take n) ++ zeros (n * n - n)) ++ c.drop n).zip b1) =
      cq.mapM (qmptLastRow n m) := by
  induction cq with
  | nil => simp
  | cons c cs ih =>
    rw [List.mapM_cons, List.mapM_cons]
    cases c with
    | nil => simp [qmptLastRow]
    | cons c0 rest =>
      simp only [List.getElem?_cons_zero, Option.bind_eq_bind, Option.bind_some, qmptLastRow]
      rw [← ih]
      cases cs.mapM (fun c => c[0]?) <;> simp

theorem gen_cqpt_true [Field K] (dim m : Nat) (cq : List (List K)) (hd : 0 < dim)
    (hw : ∀ c ∈ cq, c.length = dim ^ 2 * dim ^ 2) :
    (QGen.C08.cqpt_to_cqmpt true dim m cq).map (fun ab => ab.1.zip ab.2) = cqptToCqmpt true (dim ^ 2) m cq := by
  set n := dim ^ 2 with hn
  have hn1 : 0 < n := pow_pos hd 2
  have hnw : n ≤ n * n := Nat.le_mul_of_pos_left n hn1
  by_cases hne : cq = []
  · subst hne
    simp [QGen.C08.cqpt_to_cqmpt, cqptToCqmpt, blockDiagRep, zeros, colAt?, colsTo, hstack2, hstackRep, negMat,
      colsFrom, zerosMat]
  · have hmw := matWidth_of_rows (n * n) cq hw hne
    have hme : matWidth (colsFrom n cq) = n * n - n := by
      apply matWidth_of_rows
      · intro c hc
        obtain ⟨c', hc', rfl⟩ := List.mem_map.1 hc
        simp [hw c' hc']
      · simpa [colsFrom] using hne
    have hmd : matWidth (colsTo n cq) = n := by
      apply matWidth_of_rows
      · intro c hc
        obtain ⟨c', hc', rfl⟩ := List.mem_map.1 hc
        simp [hw c' hc', hnw]
      · simpa [colsTo] using hne
    have hb1 : colAt? 0 (colsTo n cq) = cq.mapM (fun c => c[0]?) := by
      unfold colAt? colsTo
      rw [mapM_map_opt]
      congr 1
      funext c
      rw [List.getElem?_take]; simp [hn1]
    simp only [QGen.C08.cqpt_to_cqmpt, if_true, cqptToCqmpt, Nat.add_sub_cancel]
    simp only [← hn, hme, hmd, hmw, hb1]
    rw [← lastRow_mapM n m cq]
    cases hq : cq.mapM (fun c => c[0]?) with
    | none => simp
    | some b1 =>
      simp only [Option.map_some, Option.bind_eq_bind, Option.bind_some, Option.pure_def, Option.some.injEq]
      have hA0 : hstack2 (blockDiagRep (m - 1) cq) (zerosMat (blockDiagRep (m - 1) cq).length (n * n - n)) =
          (blockDiagRep (m - 1) cq).map fun row => row ++ zeros (n * n - n) := by
        unfold hstack2 zerosMat; exact zipWith_replicate_right _ _ _
      have hD : hstack2 (negMat (colsTo n cq)) (zerosMat (colsTo n cq).length (n * n - n)) =
          cq.map fun c => lneg (c.take n) ++ zeros (n * n - n) := by
        unfold hstack2 zerosMat negMat colsTo
        rw [List.map_map, List.length_map]
        exact zipWith_map_replicate _ _ _ _
      have hA1 : hstackRep (m - 1) (cq.map fun c => lneg (c.take n) ++ zeros (n * n - n)) (colsFrom n cq) =
          cq.map fun c => tile (m - 1) (lneg (c.take n) ++ zeros (n * n - n)) ++ c.drop n := by
        unfold hstackRep colsFrom; exact zipWith_map_map _ _ _ _
      rw [hA0, hD, hA1]
      rw [List.zip_append (by simp [blockDiagRep_length, colsTo, Nat.mul_comm])]
      congr 1
      have hlen : (colsTo n cq).length * (m - 1) = ((blockDiagRep (m - 1) cq).map fun row => row ++ zeros (n * n - n)).length := by
        simp [blockDiagRep_length, colsTo, Nat.mul_comm]
      unfold zeros at *
      rw [hlen, List.zip_eq_zipWith, zipWith_replicate_right]
      simp only [blockDiagRep, blockRow, hmw, List.map_flatMap, List.map_map, zeros]
      rfl

end QM.C08

namespace QM.C08
variable {K : Type}

theorem mapM_opt_mem {α β : Type} (f : α → Option β) :
    ∀ (l : List α) (l' : List β), l.mapM f = some l' → ∀ b ∈ l', ∃ a ∈ l, f a = some b := by
  intro l
  induction l with
  | nil => intro l' hl b hb; simp at hl; subst hl; simp at hb
  | cons a l ih =>
    intro l' hl b hb
    rw [List.mapM_cons] at hl
    simp only [Option.bind_eq_bind, Option.bind_eq_some_iff, Option.pure_def, Option.some.injEq] at hl
    obtain ⟨b0, hb0, bs, hbs, rfl⟩ := hl
    rcases List.mem_cons.1 hb with rfl | hb
    · exact ⟨a, by simp, hb0⟩
    · obtain ⟨a', ha', hf⟩ := ih bs hbs b hb
      exact ⟨a', by simp [ha'], hf⟩

/-- `predict` (numpy's `matA @ var` with its shape check) succeeds iff every row has `len(var)` entries -/
theorem predict_mkCoeffs [Field K] (per : List (List (List K × K))) (var : List K)
    (h : ∀ rows ∈ per, ∀ ab ∈ rows, ab.1.length = var.length) :
    predict (mkCoeffs per) var = .ok (predictRaw (mkCoeffs per) var) := by
  unfold predict
  rw [if_pos]
  rw [sortCoeffs_mkCoeffs, List.all_eq_true]
  intro c hc
  have hm : c.a ∈ (mkCoeffs per).map (·.a) := List.mem_map.2 ⟨c, hc, rfl⟩
  rw [mkCoeffs_eq, coeffsFrom_map 0 per (fun a _ => a)] at hm
  simp only [List.mem_flatten, List.mem_map] at hm
  obtain ⟨l, ⟨rows, hr, rfl⟩, hl⟩ := hm
  obtain ⟨ab, hab, he⟩ := List.mem_map.1 hl
  simp [← he, h rows hr ab hab]

end QM.C08

namespace QM.C08
variable {K : Type}

end QM.C08

namespace QM.C08
theorem zip_zip_map_self {α β : Type} (f : α → β) (l : List α) :
    ((l.zip (l.map f)).zip (l.map f)) = l.map fun a => ((a, f a), f a) := by
  induction l with
  | nil => rfl
  | cons a l ih => simp [ih]

end QM.C08

namespace QM.C08
variable {K : Type}

/-- `raw` probabilities of the ensemble after `eps_zero` clipping, as in `circuitPovmMprocessStateEps` -/
def rawProbs [Field K] [LinearOrder K] (r epsZero : K) (hss : List (List (List K))) (rho : List K) : List K :=
  (hss.map fun hs => matVec hs rho).map fun mrho => (let p := r * firstEntry mrho; if p ≤ epsZero then 0 else p)

end QM.C08
