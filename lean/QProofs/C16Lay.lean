import QProofs.C16Ens
/-!
# C16 — the enumeration used by marginals / conditionals is the serial (row-major) layout, and iterated slicing is serial access
-/
namespace QM.C16

/-- the entries after thresholding -/
def zeroedOf (ps : List Rat) (eps : Rat) : List Rat := ps.map fun p => if p < eps then 0 else p

theorem allMulti_length (shape : List Nat) : (allMulti shape).length = prod shape := by
  induction shape with
  | nil => rfl
  | cons l ls ih =>
    simp only [allMulti, List.length_flatMap, List.length_map, ih, prod_cons]
    induction l with
    | zero => simp
    | succ n ihn => simp [List.range_succ, ihn, Nat.succ_mul]

/-- position `k` of `allMulti shape` holds an in-range multi-index whose serial index is `k` -/
theorem allMulti_serial (shape : List Nat) (k : Nat) (hk : k < prod shape) :
    ∃ mi, (allMulti shape)[k]? = some mi ∧ shape.length = mi.length ∧
      (∀ p ∈ shape.zip mi, p.2 < p.1) ∧ serialFromMulti shape mi = some k := by
  induction shape generalizing k with
  | nil =>
    have : k = 0 := by simpa [prod] using hk
    subst this
    exact ⟨[], by simp [allMulti], rfl, by simp, by decide⟩
  | cons l ls ih =>
    rw [prod_cons] at hk
    have hP : 0 < prod ls := by
      rcases Nat.eq_zero_or_pos (prod ls) with h | h
      · rw [h] at hk; simp at hk
      · exact h
    have hi : k / prod ls < l := by
      apply Nat.div_lt_of_lt_mul; rwa [Nat.mul_comm]
    have hj : k % prod ls < prod ls := Nat.mod_lt _ hP
    obtain ⟨mj, h1, h2, h3, h4⟩ := ih (k % prod ls) hj
    refine ⟨(k / prod ls) :: mj, ?_, by simp [h2], ?_, ?_⟩
    · have hb := flatMap_block (List.range l) (fun i => (allMulti ls).map (i :: ·)) (prod ls)
        (fun x _ => by simp [allMulti_length]) (k / prod ls) (k % prod ls) (by simpa using hi) hj
      have hk' : k / prod ls * prod ls + k % prod ls = k := by
        rw [Nat.mul_comm]; exact Nat.div_add_mod k (prod ls)
      rw [hk'] at hb
      simp only [allMulti]
      rw [hb]
      simp [h1]
    · intro p hp
      simp only [List.zip_cons_cons, List.mem_cons] at hp
      rcases hp with rfl | hp
      · exact hi
      · exact h3 p hp
    · have e4 := serial_some ls mj h2
      rw [h4] at e4
      have hv : val (ls.reverse.zip mj.reverse) = k % prod ls := (Option.some.inj e4).symm
      rw [serial_some (l :: ls) ((k / prod ls) :: mj) (by simp [h2])]
      have := serial_append [l] ls [k / prod ls] mj rfl h2
      simp only [List.singleton_append] at this
      rw [this, hv]
      simp only [List.reverse_cons, List.reverse_nil, List.nil_append, List.zip_cons_cons, List.zip_nil_right, val,
        Nat.mul_zero, Nat.add_zero]
      rw [Nat.mul_comm]
      exact congrArg some (Nat.div_add_mod k (prod ls))

/-- iterated slicing `ps.reshape(shape)[i0][i1]…` of a flat row-major buffer -/
theorem drop_take_getElem? {α : Type} (ps : List α) (a P j : Nat) (hj : j < P) :
    ((ps.drop a).take P)[j]? = ps[a + j]? := by
  rw [List.getElem?_take_of_lt hj, List.getElem?_drop]

theorem sliceGet_eq_serial (ps : List Rat) (shape idx : List Nat) (hlen : shape.length = idx.length)
    (hr : ∀ p ∈ shape.zip idx, p.2 < p.1) :
    sliceGet ps shape idx = ps[val (shape.reverse.zip idx.reverse)]? := by
  induction shape generalizing ps idx with
  | nil =>
    cases idx with
    | nil => simp [sliceGet, val]
    | cons _ _ => simp at hlen
  | cons l ls ih =>
    cases idx with
    | nil => simp at hlen
    | cons i is =>
      have hlen' : ls.length = is.length := by simpa using hlen
      have hi : i < l := hr (l, i) (by simp)
      have hr' : ∀ p ∈ ls.zip is, p.2 < p.1 := fun p hp => hr p (by simp [hp])
      have hv := val_lt' ls is hlen' hr'
      have happ := serial_append [l] ls [i] is rfl hlen'
      simp only [List.singleton_append] at happ
      rw [happ]
      simp only [sliceGet, hi, if_true, List.reverse_cons, List.reverse_nil, List.nil_append, List.zip_cons_cons,
        List.zip_nil_right, val, Nat.mul_zero, Nat.add_zero]
      rw [ih _ is hlen' hr', drop_take_getElem? _ _ _ _ hv]

theorem zip_eq_range_map {α β : Type} (l : List α) (ps : List β) (h : l.length = ps.length) :
    l.zip ps = (List.range l.length).filterMap fun s =>
      match l[s]?, ps[s]? with
      | some a, some b => some (a, b)
      | _, _ => none := by
  induction l generalizing ps with
  | nil => simp
  | cons a l ih =>
    cases ps with
    | nil => simp at h
    | cons b ps =>
      have h' : l.length = ps.length := by simpa using h
      rw [List.zip_cons_cons, List.length_cons, List.range_succ_eq_map, List.filterMap_cons]
      simp only [List.getElem?_cons_zero, List.filterMap_map]
      congr 1
      rw [ih ps h']
      rfl

theorem filterMap_congr' {α β : Type} (l : List α) (f g : α → Option β) (h : ∀ a ∈ l, f a = g a) :
    l.filterMap f = l.filterMap g := by
  induction l with
  | nil => rfl
  | cons a l ih =>
    simp only [List.filterMap_cons, h a (by simp)]
    rw [ih fun x hx => h x (by simp [hx])]

end QM.C16
