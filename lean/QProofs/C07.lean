import QModel.C07
import QProofs.Bridge
import Mathlib.Tactic.Ring
import Mathlib.Tactic.Linarith
import Mathlib.Tactic.IntervalCases
import Mathlib.Logic.Equiv.Fin.Basic
import Mathlib.Algebra.BigOperators.Fin
import Mathlib.Data.Fintype.BigOperators
/-! helper lemmas for C07 -/
open Matrix
namespace QM.C07
open QM

/-! ## `Fin (a*b)` as pairs -/

theorem fdiv_eq {a b : Nat} (i : Fin (a * b)) : fdiv i = i.divNat := rfl
theorem fmod_eq {a b : Nat} (i : Fin (a * b)) : fmod i = i.modNat := rfl

/-- the pair `(x, y)` as an element of `Fin (a*b)` (row major) -/
def pair {a b : Nat} (x : Fin a) (y : Fin b) : Fin (a * b) := finProdFinEquiv (x, y)

@[simp] theorem fdiv_pair {a b : Nat} (x : Fin a) (y : Fin b) : fdiv (pair x y) = x := by
  have := finProdFinEquiv.left_inv (x, y)
  exact congrArg Prod.fst this

@[simp] theorem fmod_pair {a b : Nat} (x : Fin a) (y : Fin b) : fmod (pair x y) = y := by
  have := finProdFinEquiv.left_inv (x, y)
  exact congrArg Prod.snd this

@[simp] theorem pair_fdiv_fmod {a b : Nat} (i : Fin (a * b)) : pair (fdiv i) (fmod i) = i :=
  finProdFinEquiv.right_inv i

theorem pair_val {a b : Nat} (x : Fin a) (y : Fin b) : (pair x y).val = x.val * b + y.val := by
  simp [pair, finProdFinEquiv, Nat.mul_comm, Nat.add_comm]

theorem sum_fin_mul {K : Type} [AddCommMonoid K] {a b : Nat} (f : Fin (a * b) → K) :
    ∑ i, f i = ∑ x : Fin a, ∑ y : Fin b, f (pair x y) := by
  rw [← Fintype.sum_prod_type']
  exact (Equiv.sum_comp finProdFinEquiv f).symm

theorem pair_eq_iff {a b : Nat} (i : Fin (a * b)) (x : Fin a) (y : Fin b) :
    i = pair x y ↔ fdiv i = x ∧ fmod i = y := by
  constructor
  · rintro rfl; simp
  · rintro ⟨rfl, rfl⟩; simp

section kernels
variable {K : Type} [CommSemiring K]

/-- closed form of `_K(a, b)`: a 1 exactly where the column pair is the swapped row pair -/
theorem Kmat_entry (a b : Nat) (r : Fin (a * b)) (c : Fin (b * a)) :
    (Kmat (K := K) a b).get r c = if fdiv c = fmod r ∧ fmod c = fdiv r then 1 else 0 := by
  simp only [Kmat, unitM, Mat.get_ofFn, fsum_eq_sum]
  rw [Finset.sum_eq_single (fdiv r)]
  · rw [Finset.sum_eq_single (fdiv c)]
    · by_cases h1 : fdiv c = fmod r <;> by_cases h2 : fmod c = fdiv r <;> simp [h1, h2, eq_comm]
    · intro col _ hne; simp [Ne.symm hne]
    · simp
  · intro row _ hne
    apply Finset.sum_eq_zero
    intro col _
    simp [Ne.symm hne]
  · simp

/-- C07.1 `K(a,b)·(u ⊗ v) = v ⊗ u` -/
theorem Kmat_swaps (a b : Nat) (u : Vec K b) (v : Vec K a) :
    (Kmat a b).mulVec (kronVec u v) = kronVec v u := by
  apply Vec.ext'; intro r
  simp only [Mat.mulVec, Vec.get_ofFn, fsum_eq_sum, kronVec, Kmat_entry]
  rw [sum_fin_mul]
  simp only [fdiv_pair, fmod_pair]
  rw [Finset.sum_eq_single (fmod r)]
  · rw [Finset.sum_eq_single (fdiv r)]
    · simp [mul_comm]
    · intro y _ hne; simp [hne]
    · simp
  · intro x _ hne
    apply Finset.sum_eq_zero
    intro y _
    simp [hne]
  · simp

theorem get_cast {m n : Nat} (h : m = n) (v : Vec K m) (i : Fin n) :
    Vec.get (Vector.cast h v) i = v.get (Fin.cast h.symm i) := by
  subst h; rfl

theorem val_eq_pair {a b : Nat} (i : Fin (a * b)) : i.val = (fdiv i).val * b + (fmod i).val := by
  have := congrArg Fin.val (pair_fdiv_fmod i)
  rw [pair_val] at this
  exact this.symm

/-- C07.3 `hs_tensor`: the vec-permutation pipeline of `_tensor_product_hs_hs`
(`(I ⊗ K(d2,d1) ⊗ I)·(vec A ⊗ vec B)` reshaped) is the Kronecker product `A ⊗ B`, for all sizes. -/
theorem tensorHsHs_eq_kron {n1 n2 : Nat} (A : Mat K n1 n1) (B : Mat K n2 n2) :
    tensorHsHs A B = kron A B := by
  apply Mat.ext'; intro i j
  simp only [tensorHsHs, reshape, Mat.get_ofFn, get_cast, mulVecFn, Vec.get_ofFn, fsum_eq_sum, kron]
  have ht : Fin.cast (hsSize₂ n1 n2).symm ⟨i.val * (n1 * n2) + j.val, by
        have hi := i.isLt; have hj := j.isLt
        calc i.val * (n1 * n2) + j.val < i.val * (n1 * n2) + n1 * n2 := Nat.add_lt_add_left hj _
          _ = (i.val + 1) * (n1 * n2) := (Nat.succ_mul _ _).symm
          _ ≤ n1 * n2 * (n1 * n2) := Nat.mul_le_mul_right _ hi⟩
      = pair (pair (fdiv i) (pair (fmod i) (fdiv j))) (fmod j) := by
    apply Fin.ext
    simp only [Fin.val_cast, pair_val]
    rw [val_eq_pair i, val_eq_pair j]; ring
  rw [ht]
  rw [sum_fin_mul]
  simp only [sum_fin_mul (a := n1) (b := n1 * n2), sum_fin_mul (a := n1) (b := n2)]
  have hs : ∀ (s1 s2a : Fin n1) (s2b s3 : Fin n2),
      Fin.cast (hsSize₁ n1 n2).symm (pair (pair s1 (pair s2a s2b)) s3)
        = pair (pair s1 s2a) (pair s2b s3) := by
    intro s1 s2a s2b s3
    apply Fin.ext
    simp only [Fin.val_cast, pair_val]; ring
  simp only [hs, fdiv_pair, fmod_pair, Kmat_entry, kronVec, flatten, Vec.get_ofFn]
  rw [Finset.sum_eq_single (fdiv i)]
  · rw [Finset.sum_eq_single (fdiv j)]
    · rw [Finset.sum_eq_single (fmod i)]
      · rw [Finset.sum_eq_single (fmod j)]
        · simp
        · intro s3 _ hne; simp [Ne.symm hne]
        · simp
      · intro s2b _ hne
        apply Finset.sum_eq_zero; intro s3 _; simp [hne]
      · simp
    · intro s2a _ hne
      apply Finset.sum_eq_zero; intro s2b _
      apply Finset.sum_eq_zero; intro s3 _; simp [hne]
    · simp
  · intro s1 _ hne
    apply Finset.sum_eq_zero; intro s2a _
    apply Finset.sum_eq_zero; intro s2b _
    apply Finset.sum_eq_zero; intro s3 _; simp [Ne.symm hne]
  · simp

/-- mixed-product property on vectors: `(A ⊗ B)(x ⊗ y) = (A x) ⊗ (B y)` -/
theorem kron_mulVec {a b c d : Nat} (A : Mat K a b) (B : Mat K c d) (x : Vec K b) (y : Vec K d) :
    (kron A B).mulVec (kronVec x y) = kronVec (A.mulVec x) (B.mulVec y) := by
  apply Vec.ext'; intro i
  simp only [Mat.mulVec, kron, kronVec, Vec.get_ofFn, Mat.get_ofFn, fsum_eq_sum]
  rw [sum_fin_mul]
  simp only [fdiv_pair, fmod_pair]
  rw [Finset.sum_mul_sum]
  apply Finset.sum_congr rfl; intro p _
  apply Finset.sum_congr rfl; intro q _
  ring

theorem one_mulVec {n : Nat} (x : Vec K n) : (Mat.one : Mat K n n).mulVec x = x := by
  apply Vec.ext'; intro i
  simp [Mat.mulVec, Mat.one, fsum_eq_sum]

end kernels
end QM.C07

namespace QM.C07
/-! ## the bubble sort on subsystem names -/

/-- number of inversions -/
def inv : List Nat → Nat
  | [] => 0
  | x :: xs => (xs.filter fun y => y < x).length + inv xs

/-- adjacent elements ascending -/
def adjSorted : List Nat → Prop
  | [] => True
  | [_] => True
  | x :: y :: r => x ≤ y ∧ adjSorted (y :: r)

theorem adjSorted_pairwise : ∀ l : List Nat, adjSorted l → l.Pairwise (· ≤ ·)
  | [], _ => List.Pairwise.nil
  | [x], _ => List.pairwise_singleton _ _
  | x :: y :: r, h => by
    obtain ⟨hxy, hr⟩ := h
    have ih := adjSorted_pairwise (y :: r) hr
    refine List.Pairwise.cons ?_ ih
    intro z hz
    rcases List.mem_cons.1 hz with rfl | hz
    · exact hxy
    · exact le_trans hxy (List.rel_of_pairwise_cons ih hz)

theorem pairwise_adjSorted : ∀ l : List Nat, l.Pairwise (· ≤ ·) → adjSorted l
  | [], _ => trivial
  | [x], _ => trivial
  | x :: y :: r, h => by
    have h1 := List.rel_of_pairwise_cons h (List.mem_cons_self)
    exact ⟨h1, pairwise_adjSorted (y :: r) (List.Pairwise.of_cons h)⟩

/-- decomposition found by `_check_cross_system_position` -/
theorem checkCrossFrom_spec (pos former : Nat) (l : List Nat) :
    (checkCrossFrom pos former l = none → adjSorted (former :: l)) ∧
    (∀ p, checkCrossFrom pos former l = some p →
      ∃ pre a b post, former :: l = pre ++ a :: b :: post ∧ p = pos + pre.length ∧ b < a ∧
        adjSorted (pre ++ [a])) := by
  induction l generalizing pos former with
  | nil => exact ⟨fun _ => trivial, fun p h => by simp [checkCrossFrom] at h⟩
  | cons x xs ih =>
    simp only [checkCrossFrom]
    split
    · rename_i hgt
      refine ⟨fun h => (by cases h), fun p h => ?_⟩
      injection h with h; subst h
      exact ⟨[], former, x, xs, rfl, by simp, hgt, trivial⟩
    · rename_i hle
      have hle' : former ≤ x := Nat.le_of_not_gt hle
      obtain ⟨ih1, ih2⟩ := ih (pos + 1) x
      refine ⟨fun h => ⟨hle', ih1 h⟩, fun p h => ?_⟩
      obtain ⟨pre, a, b, post, heq, hp, hlt, hs⟩ := ih2 p h
      refine ⟨former :: pre, a, b, post, by rw [heq]; rfl, by simp [hp]; omega, hlt, ?_⟩
      cases pre with
      | nil =>
        simp only [List.nil_append, List.cons.injEq] at heq
        obtain ⟨rfl, _⟩ := heq
        exact ⟨hle', trivial⟩
      | cons q qs =>
        simp only [List.cons_append, List.cons.injEq] at heq
        obtain ⟨rfl, _⟩ := heq
        exact ⟨hle', hs⟩

theorem checkCross_none (l : List Nat) (h : checkCross l = none) : l.Pairwise (· ≤ ·) := by
  cases l with
  | nil => exact List.Pairwise.nil
  | cons x xs => exact adjSorted_pairwise _ ((checkCrossFrom_spec 1 x xs).1 h)

theorem checkCross_some (l : List Nat) (p : Nat) (h : checkCross l = some p) :
    ∃ pre a b post, l = pre ++ a :: b :: post ∧ p = pre.length + 1 ∧ b < a := by
  cases l with
  | nil => simp [checkCross] at h
  | cons x xs =>
    obtain ⟨pre, a, b, post, heq, hp, hlt, _⟩ := (checkCrossFrom_spec 1 x xs).2 p h
    exact ⟨pre, a, b, post, heq, by omega, hlt⟩

theorem swapAt_decomp {α : Type} (pre : List α) (a b : α) (post : List α) :
    swapAt (pre ++ a :: b :: post) (pre.length + 1) = pre ++ b :: a :: post := by
  unfold swapAt
  have h1 : (pre ++ a :: b :: post)[pre.length + 1 - 1]? = some a := by simp
  have h2 : (pre ++ a :: b :: post)[pre.length + 1]? = some b := by
    rw [List.getElem?_append_right (by omega)]; simp
  rw [h1, h2]
  simp only [Nat.add_sub_cancel]
  rw [List.set_append_right _ _ (by omega), Nat.sub_self, List.set_cons_zero]
  rw [List.set_append_right _ _ (by omega)]
  simp

theorem filter_lt_length_append (l r : List Nat) (x : Nat) :
    ((l ++ r).filter fun y => y < x).length
      = (l.filter fun y => y < x).length + (r.filter fun y => y < x).length := by
  simp [List.filter_append]

theorem inv_append_swap (pre : List Nat) (a b : Nat) (post : List Nat) (h : b < a) :
    inv (pre ++ b :: a :: post) + 1 = inv (pre ++ a :: b :: post) := by
  induction pre with
  | nil =>
    simp only [List.nil_append, inv, List.filter_cons]
    have h1 : decide (b < a) = true := by simpa using h
    have h2 : decide (a < b) = false := by simp; omega
    simp only [h1, h2, if_true, List.length_cons]
    simp
    omega
  | cons x xs ih =>
    simp only [List.cons_append, inv]
    have : ((xs ++ b :: a :: post).filter fun y => y < x).length
        = ((xs ++ a :: b :: post).filter fun y => y < x).length := by
      simp only [List.filter_append, List.length_append, List.filter_cons]
      by_cases h1 : b < x <;> by_cases h2 : a < x <;> simp [h1, h2]
    omega

theorem inv_le_sq (l : List Nat) : inv l ≤ l.length * l.length := by
  induction l with
  | nil => simp [inv]
  | cons x xs ih =>
    simp only [inv, List.length_cons]
    have := List.length_filter_le (fun y => decide (y < x)) xs
    nlinarith

end QM.C07

namespace QM.C07

theorem foldl_mul_init (l : List Nat) (c : Nat) : l.foldl (· * ·) c = c * l.foldl (· * ·) 1 := by
  induction l generalizing c with
  | nil => simp
  | cons x xs ih => simp only [List.foldl_cons]; rw [ih (c * x), ih (1 * x)]; ring

theorem prodL_cons (x : Nat) (l : List Nat) : prodL (x :: l) = x * prodL l := by
  unfold prodL; simp only [List.foldl_cons]; rw [foldl_mul_init]; ring

theorem prodL_append (a b : List Nat) : prodL (a ++ b) = prodL a * prodL b := by
  induction a with
  | nil => simp [prodL]
  | cons x xs ih => simp only [List.cons_append, prodL_cons, ih]; ring

theorem swapAt_length {α : Type} (l : List α) (p : Nat) : (swapAt l p).length = l.length := by
  unfold swapAt
  split <;> simp

/-- a list splits around an adjacent pair -/
theorem split_at_pair {α : Type} (l : List α) (p : Nat) (h1 : 1 ≤ p) (h2 : p < l.length) :
    ∃ pre a b post, l = pre ++ a :: b :: post ∧ pre.length = p - 1 := by
  refine ⟨l.take (p - 1), l[p - 1]'(by omega), l[p]'h2, l.drop (p + 1), ?_, by simp; omega⟩
  have e1 : l = l.take (p - 1) ++ l.drop (p - 1) := (List.take_append_drop _ _).symm
  have e2 : l.drop (p - 1) = l[p - 1]'(by omega) :: l.drop (p - 1 + 1) := by
    rw [List.drop_eq_getElem_cons]
  have e3 : l.drop p = l[p]'h2 :: l.drop (p + 1) := by
    rw [List.drop_eq_getElem_cons]
  have hp : p - 1 + 1 = p := by omega
  rw [hp] at e2
  rw [e3] at e2
  rw [e2] at e1
  exact e1

theorem leftPerm_dims {K : Type} [Add K] [Mul K] [Zero K] [One K]
    (pre : List Nat) (sq sp : Nat) (post : List Nat) :
    ∃ M : DMat K, leftPerm (K := K) (pre.length + 1) (pre ++ sq :: sp :: post) = .ok M ∧
      M.r = prodL pre * (sp * sq) * prodL post ∧ M.c = prodL pre * (sq * sp) * prodL post := by
  have h1 : (pre ++ sq :: sp :: post)[pre.length + 1]? = some sp := by
    rw [List.getElem?_append_right (by omega)]; simp
  have h2 : (pre ++ sq :: sp :: post)[pre.length + 1 - 1]? = some sq := by simp
  have h3 : (pre ++ sq :: sp :: post).take (pre.length + 1 - 1) = pre := by simp
  have h4 : (pre ++ sq :: sp :: post).drop (pre.length + 1 + 1) = post := by
    have : pre ++ sq :: sp :: post = (pre ++ [sq, sp]) ++ post := by simp
    rw [this, List.drop_left' (by simp)]
  -- the coded conditionals agree with the empty products
  have hhead : (if pre.length + 1 < 2 then 1 else prodL pre) = prodL pre := by
    split
    · have : pre = [] := List.length_eq_zero_iff.mp (by omega)
      subst this; rfl
    · rfl
  have htail : (if pre.length + 1 < (pre ++ sq :: sp :: post).length - 1 then prodL post else 1) = prodL post := by
    split
    · rfl
    · rename_i h
      have hl : (pre ++ sq :: sp :: post).length = pre.length + 2 + post.length := by
        simp only [List.length_append, List.length_cons]; omega
      rw [hl] at h
      have : post = [] := List.length_eq_zero_iff.mp (by omega)
      subst this; rfl
  unfold leftPerm
  simp only [h1, h2, h3, h4, hhead, htail, bind, Except.bind, pure, Except.pure]
  exact ⟨_, rfl, by simp [DMat.kron, DMat.eye], by simp [DMat.kron, DMat.eye]⟩

end QM.C07

namespace QM.C07
/-! ## list-level Kronecker products and run-time-sized matrix–vector products -/
section listlevel
variable {K : Type} [CommSemiring K]

/-- `np.kron` of two 1-d arrays as lists (`kronL` of the model at any scalar type) -/
def kronLG (u v : List K) : List K := u.flatMap fun x => v.map fun y => x * y

theorem kronL_eq (u v : List Rat) : kronL u v = kronLG u v := rfl

theorem length_flatMap_map' {α β γ : Type} (l : List α) (fs : List β) (g : α → β → γ) :
    (l.flatMap fun a => fs.map (g a)).length = l.length * fs.length := by
  induction l with
  | nil => simp
  | cons a l ih => simp [List.flatMap_cons, ih, Nat.succ_mul, Nat.add_comm]

theorem getElem?_flatMap_map' {α β γ : Type} (l : List α) (fs : List β) (g : α → β → γ)
    (i j : Nat) (a : α) (b : β) (hi : l[i]? = some a) (hj : fs[j]? = some b) :
    (l.flatMap fun a => fs.map (g a))[i * fs.length + j]? = some (g a b) := by
  have hjlt : j < fs.length := by
    rcases Nat.lt_or_ge j fs.length with h | h
    · exact h
    · rw [List.getElem?_eq_none h] at hj; cases hj
  induction l generalizing i with
  | nil => simp at hi
  | cons x l ih =>
    cases i with
    | zero =>
      simp only [List.getElem?_cons_zero, Option.some.injEq] at hi
      subst hi
      simp only [List.flatMap_cons, Nat.zero_mul, Nat.zero_add]
      rw [List.getElem?_append_left (by simpa using hjlt)]
      simp [hj]
    | succ i =>
      simp only [List.getElem?_cons_succ] at hi
      simp only [List.flatMap_cons]
      rw [List.getElem?_append_right (by simp [Nat.succ_mul]; omega)]
      have : (i + 1) * fs.length + j - (fs.map (g x)).length = i * fs.length + j := by
        simp [Nat.succ_mul]; omega
      rw [this]
      exact ih i hi

theorem kronLG_length (u v : List K) : (kronLG u v).length = u.length * v.length :=
  length_flatMap_map' u v _

/-- typed `kronVec` and list `kronLG` agree -/
theorem kronVec_toList {a b : Nat} (x : Vec K a) (y : Vec K b) :
    (kronVec x y).toList = kronLG x.toList y.toList := by
  apply List.ext_getElem?
  intro i
  by_cases hi : i < a * b
  · have hb : 0 < b := by
      rcases Nat.eq_zero_or_pos b with h | h
      · subst h; simp at hi
      · exact h
    have hq : i / b < a := Nat.div_lt_of_lt_mul (by rwa [Nat.mul_comm] at hi)
    have hr : i % b < b := Nat.mod_lt _ hb
    have h1 : x.toList[i / b]? = some x[i / b] := by simp [hq]
    have h2 : y.toList[i % b]? = some y[i % b] := by simp [hr]
    have := getElem?_flatMap_map' x.toList y.toList (fun p q => p * q) (i / b) (i % b) _ _ h1 h2
    simp only [Vector.length_toList] at this
    rw [Nat.div_add_mod'] at this
    unfold kronLG
    rw [this]
    simp [kronVec, Vec.ofFn, hi, fdiv, fmod, Vec.get]
  · have h1 : (kronVec x y).toList[i]? = none := by simp; omega
    have h2 : (kronLG x.toList y.toList)[i]? = none := by
      rw [List.getElem?_eq_none]; rw [kronLG_length]; simp; omega
    rw [h1, h2]

theorem kronLG_assoc (a b c : List K) : kronLG (kronLG a b) c = kronLG a (kronLG b c) := by
  simp only [kronLG, List.flatMap_assoc, List.map_flatMap, List.flatMap_map, List.map_map]
  congr 1; funext x
  simp only [List.flatMap_def, List.map_map]
  congr 2; funext y
  congr 1; funext z
  simp [mul_assoc]

theorem kronLG_one_left (a : List K) : kronLG [1] a = a := by simp [kronLG]
theorem kronLG_one_right (a : List K) : kronLG a [1] = a := by
  simp [kronLG]

/-- `np.kron` of a list of 1-d arrays (left to right) -/
def kronAll : List (List K) → List K
  | [] => [1]
  | v :: vs => kronLG v (kronAll vs)

theorem kronAll_append (a b : List (List K)) : kronAll (a ++ b) = kronLG (kronAll a) (kronAll b) := by
  induction a with
  | nil => simp [kronAll, kronLG_one_left]
  | cons v vs ih => simp only [List.cons_append, kronAll, ih, kronLG_assoc]

theorem kronAll_length (vs : List (List K)) : (kronAll vs).length = prodL (vs.map List.length) := by
  induction vs with
  | nil => simp [kronAll, prodL]
  | cons v vs ih => simp only [kronAll, kronLG_length, ih, List.map_cons, prodL_cons]


/-- a list of the right length as a typed vector -/
def ofList (l : List K) (n : Nat) (h : l.length = n) : Vec K n := ⟨l.toArray, by simp [h]⟩

theorem ofList_toList (l : List K) (n : Nat) (h : l.length = n) : (ofList l n h).toList = l := by
  simp [ofList, Vector.toList]

theorem ofList_vec {n : Nat} (w : Vec K n) (h : w.toList.length = n) : ofList w.toList n h = w := by
  cases w; simp [ofList, Vector.toList]

theorem toList?_eq (l : List K) (n : Nat) (h : l.length = n) : DMat.toList? l n = some (ofList l n h) := by
  simp [DMat.toList?, h, ofList]

theorem mulVecL_of_length (A : DMat K) (l : List K) (h : l.length = A.c) :
    A.mulVecL l = .ok (A.m.mulVec (ofList l A.c h)).toList := by
  simp [DMat.mulVecL, toList?_eq l A.c h]

theorem mat_mulVec_mulVec {a b c : Nat} (A : Mat K a b) (B : Mat K b c) (w : Vec K c) :
    (A.mul B).mulVec w = A.mulVec (B.mulVec w) := by
  apply Vec.toV_injective; simp [Matrix.mulVec_mulVec]

/-- `(A @ B) @ x = A @ (B @ x)` for the run-time-sized matrices -/
theorem mul_mulVecL (A B C : DMat K) (h : A.mul B = .ok C) (l y : List K) (hy : B.mulVecL l = .ok y) :
    C.mulVecL l = A.mulVecL y := by
  obtain ⟨ar, ac, am⟩ := A
  obtain ⟨br, bc, bm⟩ := B
  unfold DMat.mul at h
  simp only at h
  split at h
  · rename_i hc
    subst hc
    injection h with h; subst h
    unfold DMat.mulVecL at hy ⊢
    simp only at hy ⊢
    cases hl : DMat.toList? l bc with
    | none => simp [hl] at hy
    | some w =>
      simp only [hl] at hy ⊢
      injection hy with hy; subst hy
      have : DMat.toList? (bm.mulVec w).toList ac = some (bm.mulVec w) := by
        simp [DMat.toList?, Vector.toList]
      simp [this, mat_mulVec_mulVec]
  · cases h

theorem leftPerm_explicit (pre : List Nat) (sq sp : Nat) (post : List Nat) :
    leftPerm (K := K) (pre.length + 1) (pre ++ sq :: sp :: post)
      = .ok ⟨prodL pre * (sp * sq) * prodL post, prodL pre * (sq * sp) * prodL post,
             kron (kron (Mat.one : Mat K (prodL pre) (prodL pre)) (Kmat sp sq)) (Mat.one : Mat K (prodL post) (prodL post))⟩ := by
  have h1 : (pre ++ sq :: sp :: post)[pre.length + 1]? = some sp := by
    rw [List.getElem?_append_right (by omega)]; simp
  have h2 : (pre ++ sq :: sp :: post)[pre.length + 1 - 1]? = some sq := by simp
  have h3 : (pre ++ sq :: sp :: post).take (pre.length + 1 - 1) = pre := by simp
  have h4 : (pre ++ sq :: sp :: post).drop (pre.length + 1 + 1) = post := by
    have : pre ++ sq :: sp :: post = (pre ++ [sq, sp]) ++ post := by simp
    rw [this, List.drop_left' (by simp)]
  have hhead : (if pre.length + 1 < 2 then 1 else prodL pre) = prodL pre := by
    split
    · have : pre = [] := List.length_eq_zero_iff.mp (by omega)
      subst this; rfl
    · rfl
  have htail : (if pre.length + 1 < (pre ++ sq :: sp :: post).length - 1 then prodL post else 1) = prodL post := by
    split
    · rfl
    · rename_i h
      have hl : (pre ++ sq :: sp :: post).length = pre.length + 2 + post.length := by
        simp only [List.length_append, List.length_cons]; omega
      rw [hl] at h
      have : post = [] := List.length_eq_zero_iff.mp (by omega)
      subst this; rfl
  unfold leftPerm
  simp only [h1, h2, h3, h4, hhead, htail, bind, Except.bind, pure, Except.pure]
  rfl

end listlevel
end QM.C07

namespace QM.C07
/-! ## change of scalars (the driver computes the permutation over ℤ and casts to ℚ) -/
section cast
variable {K L : Type} [CommSemiring K] [CommSemiring L] (φ : K →+* L)

theorem dmat_ext' {r c : Nat} (m1 m2 : Mat L r c) (h : ∀ i j, m1.get i j = m2.get i j) :
    (⟨r, c, m1⟩ : DMat L) = ⟨r, c, m2⟩ := by
  congr; exact Mat.ext' h

theorem map_eye (n : Nat) : (DMat.eye n : DMat K).map φ = DMat.eye n := by
  unfold DMat.map DMat.eye
  apply dmat_ext'
  intro i j
  simp only [Mat.get_ofFn, Mat.one]
  split <;> simp

theorem map_kron (A B : DMat K) : (A.kron B).map φ = (A.map φ).kron (B.map φ) := by
  unfold DMat.map DMat.kron
  apply dmat_ext'
  intro i j
  simp [kron]

theorem map_Kmat (a b : Nat) :
    (⟨a * b, b * a, Kmat a b⟩ : DMat K).map φ = ⟨a * b, b * a, Kmat a b⟩ := by
  unfold DMat.map
  apply dmat_ext'
  intro i j
  simp only [Mat.get_ofFn, Kmat_entry]
  split <;> simp

theorem map_leftPerm (pos : Nat) (sizes : List Nat) :
    (leftPerm (K := K) pos sizes).map (DMat.map φ) = leftPerm (K := L) pos sizes := by
  unfold leftPerm
  simp only [bind, Except.bind, pure, Except.pure]
  cases sizes[pos]? <;> cases sizes[pos - 1]? <;>
    simp [Except.map, throw, throwThe, MonadExceptOf.throw, map_kron, map_eye, map_Kmat]

theorem map_mul (A B : DMat K) :
    (A.mul B).map (DMat.map φ) = (A.map φ).mul (B.map φ) := by
  obtain ⟨ar, ac, am⟩ := A
  obtain ⟨br, bc, bm⟩ := B
  by_cases h : ac = br
  · subst h
    have hl : DMat.mul (⟨ar, ac, am⟩ : DMat K) ⟨ac, bc, bm⟩ = .ok ⟨ar, bc, am.mul bm⟩ := by simp [DMat.mul]
    have hr : DMat.mul (DMat.map φ (⟨ar, ac, am⟩ : DMat K)) (DMat.map φ ⟨ac, bc, bm⟩)
        = .ok ⟨ar, bc, (Mat.ofFn fun i j => φ (am.get i j)).mul (Mat.ofFn fun i j => φ (bm.get i j))⟩ := by
      simp [DMat.mul, DMat.map]
    rw [hl, hr]
    simp only [Except.map]
    congr 1
    unfold DMat.map
    apply dmat_ext'
    intro i j
    simp [Mat.mul, fsum_eq_sum, map_sum]
  · simp [DMat.mul, DMat.map, h, Except.map]

theorem map_calcPermLoop (fuel : Nat) (order sizes : List Nat) (perm : DMat K) :
    (calcPermLoop (K := K) leftPerm fuel order sizes perm).map (fun r => (r.1.map φ, r.2))
      = calcPermLoop (K := L) leftPerm fuel order sizes (perm.map φ) := by
  induction fuel generalizing order sizes perm with
  | zero => simp [calcPermLoop, Except.map]
  | succ f ih =>
    unfold calcPermLoop
    split
    · simp [Except.map]
    · rename_i pos _
      rw [← map_leftPerm φ pos sizes]
      cases hl : leftPerm (K := K) pos sizes with
      | error e => simp [Except.map]
      | ok left =>
        simp only [Except.map]
        rw [← map_mul φ left perm]
        cases hm : left.mul perm with
        | error e => simp [Except.map]
        | ok p' => simp only [Except.map]; exact ih _ _ _

/-- `calc_permutation_matrix` commutes with a change of scalars: computing the permutation matrix over `K` and casting
its entries is computing it over `L` -/
theorem map_calcPerm (order sizes : List Nat) :
    (calcPerm (K := K) order sizes).map (DMat.map φ) = calcPerm (K := L) order sizes := by
  unfold calcPerm
  rw [← map_eye φ, ← map_calcPermLoop φ]
  cases calcPermLoop (K := K) leftPerm (order.length * order.length + 1) order sizes (DMat.eye (prodL sizes)) <;>
    simp [Except.map]

end cast
end QM.C07

namespace QM.C07
/-! ## orthogonality of the vec-permutation matrices -/
section ortho
variable {K : Type} [CommSemiring K]

theorem mat_mul_assoc {a b c d : Nat} (A : Mat K a b) (B : Mat K b c) (C : Mat K c d) :
    (A.mul B).mul C = A.mul (B.mul C) := by
  apply Mat.toM_injective; simp [Matrix.mul_assoc]

theorem mat_transpose_mul {a b c : Nat} (A : Mat K a b) (B : Mat K b c) :
    (A.mul B).transpose = B.transpose.mul A.transpose := by
  apply Mat.toM_injective; simp [Matrix.transpose_mul]

theorem mat_one_mul {a b : Nat} (A : Mat K a b) : (Mat.one : Mat K a a).mul A = A := by
  apply Mat.toM_injective; simp

theorem mat_one_transpose {a : Nat} : (Mat.one : Mat K a a).transpose = Mat.one := by
  apply Mat.toM_injective; simp

theorem kron_transpose {a b c d : Nat} (A : Mat K a b) (B : Mat K c d) :
    (kron A B).transpose = kron A.transpose B.transpose := by
  apply Mat.ext'; intro i j; simp [kron, Mat.transpose]

theorem kron_mul_kron {a b c d e f : Nat} (A : Mat K a b) (B : Mat K c d) (C : Mat K b e) (D : Mat K d f) :
    (kron A B).mul (kron C D) = kron (A.mul C) (B.mul D) := by
  apply Mat.ext'; intro i j
  simp only [Mat.mul, kron, Mat.get_ofFn, fsum_eq_sum]
  rw [sum_fin_mul]
  simp only [fdiv_pair, fmod_pair]
  rw [Finset.sum_mul_sum]
  apply Finset.sum_congr rfl; intro p _
  apply Finset.sum_congr rfl; intro q _
  ring

theorem kron_one_one (a b : Nat) : kron (Mat.one : Mat K a a) (Mat.one : Mat K b b) = Mat.one := by
  apply Mat.ext'; intro i j
  simp only [kron, Mat.one, Mat.get_ofFn]
  by_cases h : i = j
  · subst h; simp
  · have : ¬ (fdiv i = fdiv j ∧ fmod i = fmod j) := by
      intro ⟨h1, h2⟩
      apply h
      rw [← pair_fdiv_fmod i, ← pair_fdiv_fmod j, h1, h2]
    by_cases h1 : fdiv i = fdiv j <;> by_cases h2 : fmod i = fmod j <;> simp_all

/-- the commutation matrix is orthogonal: `K(a,b)ᵀ K(a,b) = 1` -/
theorem Kmat_orthogonal (a b : Nat) : (Kmat (K := K) a b).transpose.mul (Kmat a b) = Mat.one := by
  apply Mat.ext'; intro c c'
  simp only [Mat.mul, Mat.transpose, Mat.get_ofFn, fsum_eq_sum, Kmat_entry, Mat.one]
  rw [sum_fin_mul]
  simp only [fdiv_pair, fmod_pair]
  rw [Finset.sum_eq_single (fmod c)]
  · rw [Finset.sum_eq_single (fdiv c)]
    · by_cases h : c = c'
      · subst h; simp
      · have : ¬ (fdiv c' = fdiv c ∧ fmod c' = fmod c) := by
          intro ⟨h1, h2⟩
          apply h
          rw [← pair_fdiv_fmod c, ← pair_fdiv_fmod c', h1, h2]
        by_cases h1 : fdiv c' = fdiv c <;> by_cases h2 : fmod c' = fmod c <;> simp_all
    · intro y _ hy; simp [Ne.symm hy]
    · simp
  · intro x _ hx
    apply Finset.sum_eq_zero; intro y _
    simp [Ne.symm hx]
  · simp

/-- `AᵀA = 1` for a run-time-sized matrix -/
def DMat.IsOrtho (A : DMat K) : Prop := A.m.transpose.mul A.m = Mat.one

theorem eye_ortho (n : Nat) : (DMat.eye n : DMat K).IsOrtho := by
  simp [DMat.IsOrtho, DMat.eye, mat_one_transpose, mat_one_mul]

theorem kron_ortho (A B : DMat K) (hA : A.IsOrtho) (hB : B.IsOrtho) : (A.kron B).IsOrtho := by
  unfold DMat.IsOrtho DMat.kron at *
  simp only
  rw [kron_transpose, kron_mul_kron, hA, hB, kron_one_one]

theorem mul_ortho (A B C : DMat K) (h : A.mul B = .ok C) (hA : A.IsOrtho) (hB : B.IsOrtho) : C.IsOrtho := by
  obtain ⟨ar, ac, am⟩ := A
  obtain ⟨br, bc, bm⟩ := B
  unfold DMat.mul at h
  simp only at h
  split at h
  · rename_i hc
    subst hc
    injection h with h; subst h
    unfold DMat.IsOrtho at *
    simp only at *
    rw [mat_transpose_mul, mat_mul_assoc, ← mat_mul_assoc am.transpose, hA, mat_one_mul, hB]
  · cases h

end ortho
end QM.C07

namespace QM.C07
section intertwine
variable {K : Type} [CommSemiring K]

/-- `Pᵀ (P x) = x` for an orthogonal run-time-sized matrix -/
theorem transpose_mulVecL_of_ortho (P : DMat K) (hP : P.IsOrtho) (x y : List K) (h : P.mulVecL x = .ok y) :
    P.transpose.mulVecL y = .ok x := by
  obtain ⟨r, c, m⟩ := P
  unfold DMat.mulVecL at h
  simp only at h
  cases hl : DMat.toList? x c with
  | none => simp [hl] at h
  | some w =>
    simp only [hl] at h
    injection h with h; subst h
    have hx : x = w.toList := by
      unfold DMat.toList? at hl
      split at hl
      · injection hl with hl; subst hl; simp [Vector.toList]
      · cases hl
    unfold DMat.mulVecL DMat.transpose
    simp only
    have : DMat.toList? (m.mulVec w).toList r = some (m.mulVec w) := by simp [DMat.toList?, Vector.toList]
    rw [this]
    simp only
    rw [← mat_mulVec_mulVec]
    unfold DMat.IsOrtho at hP
    simp only at hP
    rw [hP, one_mulVec, hx]

end intertwine

/-- the loop of `calc_permutation_matrix` never changes the number of columns of the accumulated matrix -/
theorem calcPermLoop_cols {K : Type} [Add K] [Mul K] [Zero K] [One K]
    (lp : Nat → List Nat → Except Err (DMat K)) (fuel : Nat) (order sizes : List Nat) (perm P : DMat K)
    (o s : List Nat) (h : calcPermLoop lp fuel order sizes perm = .ok (P, o, s)) : P.c = perm.c := by
  induction fuel generalizing order sizes perm with
  | zero => simp [calcPermLoop] at h
  | succ f ih =>
    unfold calcPermLoop at h
    split at h
    · injection h with h; simp only [Prod.mk.injEq] at h; rw [← h.1]
    · split at h
      · cases h
      · rename_i left _
        split at h
        · cases h
        · rename_i perm' hm
          rw [ih _ _ perm' h]
          unfold DMat.mul at hm
          split at hm
          · injection hm with hm; rw [← hm]
          · cases hm


end QM.C07
