import QGen.C16
import QModel.C16
import Mathlib.Tactic.Ring
import Mathlib.Tactic.Push
/-!
# C16 — the definitions regenerated from quara/utils/index_util.py equal the hand-written model

`QGen/C16.lean` is rewritten from /repo's source on every run; these lemmas are the proof obligations
that tie it to `QModel/C16.lean` (about which the property theorems are stated).
-/
namespace QM.C16

/-- one generated iteration of the serial → multi loop on naturals (tactics chosen to survive harmless rewrites of the body,
e.g. `divmod`, reordered statements) -/
theorem gen_multiBody (s l : Nat) :
    QGen.C16.multiBody (Int.ofNat s) (Int.ofNat l) = (Int.ofNat (s % l), Int.ofNat (s / l)) := by
  have h1 : Int.fmod (Int.ofNat s) (Int.ofNat l) = Int.ofNat (s % l) := (Int.ofNat_fmod s l).symm
  have h2 : Int.fdiv (Int.ofNat s) (Int.ofNat l) = Int.ofNat (s / l) := (Int.ofNat_fdiv s l).symm
  simp only [QGen.C16.multiBody, h1, h2]

theorem gen_multiLoop (ls : List Nat) (s : Nat) :
    QGen.C16.multiLoop (ls.map Int.ofNat) (Int.ofNat s) = (multiRevLoop ls s).map Int.ofNat := by
  induction ls generalizing s with
  | nil => rfl
  | cons l ls ih =>
    simp only [List.map_cons, QGen.C16.multiLoop, multiRevLoop, gen_multiBody, ih]

theorem gen_multiFromSerial (lens : List Nat) (s : Nat) :
    QGen.C16.multiFromSerial (lens.map Int.ofNat) (Int.ofNat s)
      = ((multiRevLoop lens.reverse s).reverse).map Int.ofNat := by
  simp only [QGen.C16.multiFromSerial, QGen.C16.multiIterReversed, QGen.C16.multiResultReversed,
    QGen.C16.multiInit, if_true, ← List.map_reverse, gen_multiLoop]

theorem gen_serialBody (a t len i : Nat) :
    QGen.C16.serialBody (Int.ofNat a) (Int.ofNat t) (Int.ofNat len) (Int.ofNat i)
      = (Int.ofNat (a + i * t), Int.ofNat (t * len)) := by
  simp only [QGen.C16.serialBody, Int.ofNat_eq_natCast]
  refine Prod.ext ?_ ?_ <;> push_cast <;> ring

theorem gen_serialLoop (zs : List (Nat × Nat)) (a t : Nat) :
    (QGen.C16.serialLoop (zs.map fun p => (Int.ofNat p.1, Int.ofNat p.2)) (Int.ofNat a, Int.ofNat t))
      = (Int.ofNat (serialRevLoop zs a t), Int.ofNat (t * (zs.map (·.1)).foldr (· * ·) 1)) := by
  induction zs generalizing a t with
  | nil => simp [QGen.C16.serialLoop, serialRevLoop]
  | cons p zs ih =>
    obtain ⟨len, i⟩ := p
    simp only [List.map_cons, QGen.C16.serialLoop, serialRevLoop, gen_serialBody, List.foldr_cons, ih,
      Nat.mul_assoc]

theorem gen_serialFromMulti (lens idx : List Nat) :
    QGen.C16.serialFromMulti (lens.map Int.ofNat) (idx.map Int.ofNat)
      = (serialFromMulti lens idx).map Int.ofNat := by
  unfold QGen.C16.serialFromMulti serialFromMulti
  by_cases h : lens.length = idx.length
  · have hz : (lens.map Int.ofNat).zip (idx.map Int.ofNat)
        = (lens.zip idx).map fun p => (Int.ofNat p.1, Int.ofNat p.2) := by
      rw [List.zip_map]; simp [Prod.map]
    simp only [QGen.C16.serialLenGuard, QGen.C16.serialIterReversed, QGen.C16.serialInit,
      QGen.C16.serialResult, List.length_map, h, bne_self_eq_false, Bool.and_false, if_true,
      ne_eq, not_true_eq_false, if_false, Bool.false_eq_true, hz, ← List.map_reverse, Option.map_some]
    have := gen_serialLoop (lens.zip idx).reverse 0 1
    simp only [Int.ofNat_eq_natCast, Int.natCast_zero, Int.natCast_one] at this ⊢
    rw [this]
  · simp [QGen.C16.serialLenGuard, h]

end QM.C16
