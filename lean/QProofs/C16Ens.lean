import QProofs.C16
/-!
# C16 — layout of state ensembles produced by measurements

Model of the list bookkeeping in quara/objects/operators.py:
* `_compose_qoperations_MProcess_StateEnsemble`: `states.extend(states_local); ps.extend(ps_local)` in one loop over the old
  ensemble, shape = old shape + instrument shape;
* `_tensor_product_StateEnsemble_StateEnsemble`: the nested loops over both ensembles, shape = shape1 + shape2;
* `StateEnsemble.state(outcome)`: serial index of the tuple, then list access.
-/
namespace QM.C16

theorem serial_some (lens idx : List Nat) (h : lens.length = idx.length) :
    serialFromMulti lens idx = some (val (lens.reverse.zip idx.reverse)) := by
  unfold serialFromMulti
  rw [if_neg (by simpa using h), reverse_zip h]
  simp [serialRevLoop_eq]

/-- serial index of a concatenated multi-index: the earlier variables are the slow ones -/
theorem serial_append (s2 s1 m2 m1 : List Nat) (h2 : s2.length = m2.length) (h1 : s1.length = m1.length) :
    val ((s2 ++ s1).reverse.zip (m2 ++ m1).reverse)
      = val (s2.reverse.zip m2.reverse) * prod s1 + val (s1.reverse.zip m1.reverse) := by
  have hl : s1.reverse.length = m1.reverse.length := by simpa using h1
  rw [List.reverse_append, List.reverse_append, List.zip_append hl, val_append,
    prodFst_zip _ _ hl, prod_reverse]
  rw [Nat.add_comm, Nat.mul_comm]

theorem val_lt' (lens idx : List Nat) (hlen : lens.length = idx.length)
    (hr : ∀ p ∈ lens.zip idx, p.2 < p.1) : val (lens.reverse.zip idx.reverse) < prod lens := by
  have hlen' : lens.reverse.length = idx.reverse.length := by simpa using hlen
  have hr' : ∀ p ∈ lens.reverse.zip idx.reverse, p.2 < p.1 := by
    intro p hp
    rw [← reverse_zip hlen] at hp
    exact hr p (by simpa using hp)
  have := val_lt _ _ hlen' hr'
  rwa [prod_reverse] at this

/-- entry `i * m + j` of a concatenation of blocks of uniform length `m` is entry `j` of block `i` -/
theorem flatMap_block {α β : Type} (old : List α) (f : α → List β) (m : Nat)
    (hm : ∀ x ∈ old, (f x).length = m) (i j : Nat) (hi : i < old.length) (hj : j < m) :
    (old.flatMap f)[i * m + j]? = (f old[i])[j]? := by
  induction old generalizing i with
  | nil => simp at hi
  | cons x xs ih =>
    have hx : (f x).length = m := hm x (by simp)
    cases i with
    | zero =>
      simp only [List.flatMap_cons, Nat.zero_mul, Nat.zero_add, List.getElem_cons_zero]
      rw [List.getElem?_append_left (by omega)]
    | succ i =>
      simp only [List.flatMap_cons, List.getElem_cons_succ]
      rw [List.getElem?_append_right (by rw [hx, Nat.succ_mul]; omega)]
      have : (i + 1) * m + j - (f x).length = i * m + j := by rw [hx, Nat.succ_mul]; omega
      rw [this]
      exact ih (fun y hy => hm y (by simp [hy])) i (by simpa using hi)

end QM.C16
