import QModel.C12
import QGen.C12
import QProofs.Bridge
import Mathlib.Tactic.Ring
import Mathlib.Tactic.Abel
import Mathlib.Tactic.FieldSimp
import Mathlib.Tactic.Linarith
import Mathlib.Algebra.BigOperators.Ring.Finset
import Mathlib.Data.Matrix.Basic
import Mathlib.Data.Matrix.Mul
import Mathlib.Analysis.SpecialFunctions.Log.Deriv
/-! helper lemmas for C12: quadratic expansion of the weighted squared error, block-diagonal weights -/
open Matrix
namespace QM.C12
open QM

section quad
variable {K : Type} [Field K] {m nv : Nat}

/-- the weight actually applied: the matrix, or the identity when there is none -/
def wmat (W : Option (Mat K m m)) : Matrix (Fin m) (Fin m) K :=
  match W with
  | some W => W.toM
  | none => 1

theorem bil_eq (W : Option (Mat K m m)) (a b : Vec K m) :
    bil W a b = a.toV ⬝ᵥ (wmat W *ᵥ b.toV) := by
  cases W <;> simp [bil, Vec.dot_eq, wmat]

theorem resid_toV (s : Sched K m nv) (x : Vec K nv) :
    (resid s x).toV = s.A.toM *ᵥ x.toV + s.b.toV - s.q.toV := by
  simp [resid]

theorem resid_add (s : Sched K m nv) (x h : Vec K nv) :
    (resid s (x.add h)).toV = (resid s x).toV + s.A.toM *ᵥ h.toV := by
  simp only [resid_toV, Vec.toV_add, Matrix.mulVec_add]
  abel

theorem gradP_toV (s : Sched K m nv) (α : Fin nv) : (gradP s α).toV = fun i => s.A.toM i α := by
  funext i; simp [gradP, Vec.toV]

theorem sym_swap (M : Matrix (Fin m) (Fin m) K) (hM : Mᵀ = M) (u v : Fin m → K) :
    u ⬝ᵥ (M *ᵥ v) = v ⬝ᵥ (M *ᵥ u) := by
  rw [Matrix.dotProduct_mulVec, ← Matrix.mulVec_transpose, hM, dotProduct_comm]

theorem quad_expand (M : Matrix (Fin m) (Fin m) K) (hM : Mᵀ = M) (r d : Fin m → K) :
    (r + d) ⬝ᵥ (M *ᵥ (r + d)) = r ⬝ᵥ (M *ᵥ r) + 2 * (d ⬝ᵥ (M *ᵥ r)) + d ⬝ᵥ (M *ᵥ d) := by
  simp only [Matrix.mulVec_add, add_dotProduct, dotProduct_add]
  rw [sym_swap M hM r d]
  ring

theorem sum_col (A : Matrix (Fin m) (Fin nv) K) (h : Fin nv → K) (u : Fin m → K) :
    ∑ α, h α * ((fun i => A i α) ⬝ᵥ u) = (A *ᵥ h) ⬝ᵥ u := by
  simp only [dotProduct, Matrix.mulVec, Finset.mul_sum, Finset.sum_mul]
  rw [Finset.sum_comm]
  refine Finset.sum_congr rfl fun i _ => Finset.sum_congr rfl fun α _ => ?_
  ring

theorem sum_col2 (A : Matrix (Fin m) (Fin nv) K) (M : Matrix (Fin m) (Fin m) K) (hM : Mᵀ = M)
    (h : Fin nv → K) :
    ∑ α, ∑ β, h α * h β * ((fun i => A i α) ⬝ᵥ (M *ᵥ fun j => A j β))
      = (A *ᵥ h) ⬝ᵥ (M *ᵥ (A *ᵥ h)) := by
  have inner : ∀ α, ∑ β, h α * h β * ((fun i => A i α) ⬝ᵥ (M *ᵥ fun j => A j β))
      = h α * ((fun i => A i α) ⬝ᵥ (M *ᵥ (A *ᵥ h))) := by
    intro α
    rw [sym_swap M hM (fun i => A i α) (A *ᵥ h), ← sum_col A h, Finset.mul_sum]
    refine Finset.sum_congr rfl fun β _ => ?_
    rw [sym_swap M hM (fun i => A i α) (fun j => A j β)]
    ring
  simp only [inner]
  exact sum_col A h _

/-- exact second-order expansion of one schedule's term -/
theorem sched_taylor (s : Sched K m nv) (W : Option (Mat K m m)) (hW : (wmat W)ᵀ = wmat W)
    (x h : Vec K nv) :
    bil W (resid s (x.add h)) (resid s (x.add h))
      = bil W (resid s x) (resid s x)
        + 2 * ∑ α, h.get α * bil W (gradP s α) (resid s x)
        + ∑ α, ∑ β, h.get α * h.get β *
            (bil W (gradP s α) (gradP s β) + bil W Vec.zero (resid s x)) := by
  simp only [bil_eq, resid_add, gradP_toV, Vec.toV_zero, zero_dotProduct, add_zero]
  rw [quad_expand _ hW]
  have e1 := sum_col s.A.toM h.toV (wmat W *ᵥ (resid s x).toV)
  have e2 := sum_col2 s.A.toM (wmat W) hW h.toV
  simp only [Vec.toV] at e1 e2 ⊢
  rw [e1, e2]

end quad

/-! ## the sum over schedules as a list sum -/
section sums
variable {K : Type} [Field K] {m nv : Nat}

/-- schedules paired with the weight the code looks up for them; `none` = IndexError -/
def resolve (Ws : Option (List (Mat K m m))) :
    List (Sched K m nv) → Nat → Option (List (Sched K m nv × Option (Mat K m m)))
  | [], _ => some []
  | s :: r, j =>
    match weightAt Ws j with
    | none => none
    | some W => (resolve Ws r (j + 1)).map fun l => (s, W) :: l

theorem sumSched_go_eq (Ws : Option (List (Mat K m m)))
    (f : Sched K m nv → Option (Mat K m m) → K) (ss : List (Sched K m nv)) (j : Nat) :
    sumSched.go Ws f ss j =
      match resolve Ws ss j with
      | none => .error .index
      | some l => .ok (l.map fun p => f p.1 p.2).sum := by
  induction ss generalizing j with
  | nil => simp [sumSched.go, resolve]
  | cons s r ih =>
    simp only [sumSched.go, resolve]
    cases hw : weightAt Ws j with
    | none => rfl
    | some W =>
      simp only [ih (j + 1)]
      cases hr : resolve Ws r (j + 1) with
      | none => rfl
      | some l => simp [bind, Except.bind]

theorem sumSched_eq (Ws : Option (List (Mat K m m)))
    (f : Sched K m nv → Option (Mat K m m) → K) (ss : List (Sched K m nv)) :
    sumSched ss Ws f =
      match resolve Ws ss 0 with
      | none => .error .index
      | some l => .ok (l.map fun p => f p.1 p.2).sum := by
  unfold sumSched
  exact sumSched_go_eq Ws f ss 0

theorem list_sum_finset {ι α : Type} (s : Finset ι) (l : List α) (f : ι → α → K) :
    (l.map fun x => ∑ i ∈ s, f i x).sum = ∑ i ∈ s, (l.map (f i)).sum := by
  induction l with
  | nil => simp
  | cons a l ih => simp [ih, Finset.sum_add_distrib]

theorem list_sum_add {α : Type} (l : List α) (f g : α → K) :
    (l.map fun x => f x + g x).sum = (l.map f).sum + (l.map g).sum := by
  induction l with
  | nil => simp
  | cons a l ih => simp [ih]; ring

theorem list_sum_mul_left {α : Type} (l : List α) (c : K) (f : α → K) :
    (l.map fun x => c * f x).sum = c * (l.map f).sum := by
  induction l with
  | nil => simp
  | cons a l ih => simp [ih]; ring

end sums

/-! ## block-diagonal weights: the fast bilinear form equals the sum over the blocks -/
section blocks
variable {K : Type} [Field K] {m : Nat}

theorem bilFlat_some (N : Nat) (E : Nat → Nat → K) (a b : Nat → K) :
    bilFlat N (some E) a b = ∑ i : Fin N, a i.val * ∑ j : Fin N, E i.val j.val * b j.val := by
  simp [bilFlat, fsum_eq_sum]

theorem bilFlat_none (N : Nat) (a b : Nat → K) :
    bilFlat N none a b = ∑ i : Fin N, a i.val * b i.val := by
  simp [bilFlat, fsum_eq_sum]

theorem catEntry_lt (v : Vec K m) (r : List (Vec K m)) (i : Nat) (h : i < m) :
    catEntry (v :: r) i = v.get ⟨i, h⟩ := by
  simp [catEntry, h]

theorem catEntry_ge (v : Vec K m) (r : List (Vec K m)) (i : Nat) :
    catEntry (v :: r) (m + i) = catEntry r i := by
  simp [catEntry]

theorem blockEntry_cons (W : Mat K m m) (r : List (Mat K m m)) (i j : Nat) :
    blockEntry (W :: r) i j =
      if h : i < m ∧ j < m then W.get ⟨i, h.1⟩ ⟨j, h.2⟩
      else if m ≤ i ∧ m ≤ j then blockEntry r (i - m) (j - m) else 0 := by
  rw [blockEntry]

/-- the three lists (left vectors, right vectors, weight blocks) zipped -/
def bilBlocks : List (Vec K m) → List (Vec K m) → List (Mat K m m) → K
  | a :: as, b :: bs, W :: Ws => a.dot (W.mulVec b) + bilBlocks as bs Ws
  | _, _, _ => 0

/-- `vec · (np.block(diag W) vec)` over the stacked vectors = `Σ_j vec_j · (W_j vec_j)` -/
theorem bilFlat_block (as bs : List (Vec K m)) (Ws : List (Mat K m m))
    (h1 : as.length = Ws.length) (h2 : bs.length = Ws.length) :
    bilFlat (Ws.length * m) (some (blockEntry Ws)) (catEntry as) (catEntry bs) = bilBlocks as bs Ws := by
  induction Ws generalizing as bs with
  | nil =>
    cases as <;> cases bs <;> simp_all [bilFlat_some, bilBlocks]
  | cons W Ws ih =>
    cases as with
    | nil => simp at h1
    | cons a as =>
      cases bs with
      | nil => simp at h2
      | cons b bs =>
        simp only [List.length_cons] at h1 h2
        have ih' := ih as bs (by omega) (by omega)
        rw [bilFlat_some] at ih' ⊢
        simp only [bilBlocks]
        rw [← ih']
        have hN : (Ws.length + 1) * m = m + Ws.length * m := by ring
        rw [List.length_cons]
        rw [← Fin.sum_congr' _ hN.symm]
        rw [Fin.sum_univ_add]
        have inner : ∀ f : Fin ((Ws.length + 1) * m) → K,
            ∑ j : Fin ((Ws.length + 1) * m), f j
              = ∑ j : Fin m, f (Fin.cast hN.symm (Fin.castAdd _ j))
                + ∑ j : Fin (Ws.length * m), f (Fin.cast hN.symm (Fin.natAdd m j)) := by
          intro f
          rw [← Fin.sum_congr' _ hN.symm, Fin.sum_univ_add]
        simp only [inner, Fin.val_cast, Fin.val_castAdd, Fin.val_natAdd]
        congr 1
        · -- head block
          rw [Vec.dot_eq, Mat.toV_mulVec]
          simp only [dotProduct, Matrix.mulVec, Vec.toV, Mat.toM_apply]
          refine Finset.sum_congr rfl fun i _ => ?_
          rw [catEntry_lt a as i.val i.isLt]
          congr 1
          have z : ∀ j : Fin (Ws.length * m),
              blockEntry (W :: Ws) i.val (m + j.val) * catEntry (b :: bs) (m + j.val) = 0 := by
            intro j
            rw [blockEntry_cons, dif_neg (by omega), if_neg (by have := i.isLt; omega), zero_mul]
          rw [Finset.sum_eq_zero (fun j _ => z j), add_zero]
          refine Finset.sum_congr rfl fun j _ => ?_
          rw [blockEntry_cons, dif_pos ⟨i.isLt, j.isLt⟩, catEntry_lt b bs j.val j.isLt]
        · refine Finset.sum_congr rfl fun i _ => ?_
          rw [catEntry_ge]
          congr 1
          have z : ∀ j : Fin m,
              blockEntry (W :: Ws) (m + i.val) j.val * catEntry (b :: bs) j.val = 0 := by
            intro j
            rw [blockEntry_cons, dif_neg (by omega), if_neg (by have := j.isLt; omega), zero_mul]
          rw [Finset.sum_eq_zero (fun j _ => z j), zero_add]
          refine Finset.sum_congr rfl fun j _ => ?_
          rw [blockEntry_cons, dif_neg (by omega), if_pos (by omega), catEntry_ge]
          simp

end blocks
end QM.C12

namespace QM.C12
open QM
section noweights
variable {K : Type} [Field K] {m nv : Nat}

/-- `Σ_j a_j · b_j` over the blocks -/
def dotBlocks : List (Vec K m) → List (Vec K m) → K
  | a :: as, b :: bs => a.dot b + dotBlocks as bs
  | _, _ => 0

theorem bilFlat_none_cat (as bs : List (Vec K m)) (h : as.length = bs.length) :
    bilFlat (as.length * m) none (catEntry as) (catEntry bs) = dotBlocks as bs := by
  induction as generalizing bs with
  | nil => cases bs <;> simp_all [bilFlat_none, dotBlocks]
  | cons a as ih =>
    cases bs with
    | nil => simp at h
    | cons b bs =>
      simp only [List.length_cons, Nat.add_right_cancel_iff] at h
      have ih' := ih bs h
      rw [bilFlat_none] at ih' ⊢
      simp only [dotBlocks]
      rw [← ih']
      have hN : (as.length + 1) * m = m + as.length * m := by ring
      rw [List.length_cons, ← Fin.sum_congr' _ hN.symm, Fin.sum_univ_add]
      simp only [Fin.val_cast, Fin.val_castAdd, Fin.val_natAdd]
      congr 1
      · rw [Vec.dot_eq]
        simp only [dotProduct, Vec.toV]
        refine Finset.sum_congr rfl fun i _ => ?_
        rw [catEntry_lt a as i.val i.isLt, catEntry_lt b bs i.val i.isLt]
      · refine Finset.sum_congr rfl fun i _ => ?_
        rw [catEntry_ge, catEntry_ge]

theorem resolve_none (ss : List (Sched K m nv)) (j : Nat) :
    resolve (none : Option (List (Mat K m m))) ss j = some (ss.map fun s => (s, none)) := by
  induction ss generalizing j with
  | nil => simp [resolve]
  | cons s r ih => simp [resolve, weightAt, ih (j + 1)]

theorem map_sum_eq_dotBlocks (f g : Sched K m nv → Vec K m) (ss : List (Sched K m nv)) :
    ((ss.map fun s => (s, (none : Option (Mat K m m)))).map fun p => bil p.2 (f p.1) (g p.1)).sum
      = dotBlocks (ss.map f) (ss.map g) := by
  induction ss with
  | nil => simp [dotBlocks]
  | cons s r ih =>
    simp only [List.map_cons, List.sum_cons, dotBlocks]
    rw [ih]
    simp [bil]

end noweights
end QM.C12

namespace QM.C12
open QM
section wreHelpers
variable {K : Type} [Field K]

/-- `_calc_extend_weights`: every weight repeated once per outcome of its schedule -/
def extendW (w : List K) (lens : List Nat) : List K := (w.zip lens).flatMap fun (a, n) => List.replicate n a

theorem lsum_append (a b : List K) : lsum (a ++ b) = lsum a + lsum b := by
  rw [lsum_eq_sum, lsum_eq_sum, lsum_eq_sum, List.sum_append]

theorem lsum_flatten (ts : List (List K)) : lsum ts.flatten = lsum (ts.map lsum) := by
  induction ts with
  | nil => rfl
  | cons t r ih => rw [List.flatten_cons, lsum_append, ih]; simp [lsum]

theorem lsum_replicate_zip (a : K) (t : List K) :
    lsum (((List.replicate t.length a).zip t).map fun (x, y) => x * y) = a * lsum t := by
  induction t with
  | nil => simp [lsum]
  | cons y t ih =>
    simp only [List.length_cons, List.replicate_succ, List.zip_cons_cons, List.map_cons]
    simp only [lsum, List.foldr_cons] at ih ⊢
    rw [ih]; ring

theorem extendW_length (w : List K) (ts : List (List K)) (h : w.length = ts.length) :
    (extendW w (ts.map List.length)).length = ts.flatten.length := by
  induction w generalizing ts with
  | nil => cases ts <;> simp_all [extendW]
  | cons a w ih =>
    cases ts with
    | nil => simp at h
    | cons t r =>
      simp only [List.length_cons, Nat.add_right_cancel_iff] at h
      have := ih r h
      simp only [extendW, List.map_cons, List.zip_cons_cons, List.flatMap_cons, List.length_append,
        List.length_replicate, List.flatten_cons] at this ⊢
      omega

theorem extend_dot (w : List K) (ts : List (List K)) (h : w.length = ts.length) :
    lsum (((extendW w (ts.map List.length)).zip ts.flatten).map fun (x, y) => x * y)
      = lsum ((w.zip (ts.map lsum)).map fun (x, y) => x * y) := by
  induction w generalizing ts with
  | nil => cases ts <;> simp_all [extendW, lsum]
  | cons a w ih =>
    cases ts with
    | nil => simp at h
    | cons t r =>
      simp only [List.length_cons, Nat.add_right_cancel_iff] at h
      have ih' := ih r h
      simp only [extendW, List.map_cons, List.zip_cons_cons, List.flatMap_cons, List.flatten_cons] at ih' ⊢
      rw [List.zip_append (by simp), List.map_append, lsum_append, lsum_replicate_zip, ih']
      simp [lsum]

end wreHelpers
end QM.C12

/-! ## interpretation of the GENERATED mode table / call order (QGen.C12) over the state records -/
namespace QM.C12
open QM

section generated
variable {K : Type} [Add K] [Sub K] [Mul K] [Div K] [Zero K] [One K] [LT K] [DecidableLT K] [NatCast K] {m : Nat}

/-- the argument a generated branch hands to the setter -/
def interpBranch (opt : Opt K m) (G : List (Mat K (m - 1) (m - 1))) :
    QGen.C12.Branch → Option (List (Mat K m m))
  | .reset => none
  | .optionWeights => opt.weights
  | .invCov _ => some (invCovWeights G)

/-- one call of the generated wiring list on the fast loss's weighting state; an unknown method is an error -/
def stepFast (atol : K) (opt : Opt K m) (grad : Bool) (G : List (Mat K (m - 1) (m - 1)))
    (call : String × String) (st : FastWse K m) : Except Err (FastWse K m) :=
  let active := call.2 = "always" || (call.2 = "grad" && grad)
  if call.1 = "set_func_prob_dists_from_standard_qt" || call.1 = "set_func_gradient_prob_dists_from_standard_qt" then
    (if active then calcExt st else .ok st)
  else if call.1 = "set_from_option" || call.1 = "set_prob_dists_q"
      || call.1 = "set_func_hessian_prob_dists_from_standard_qt" then .ok st
  else if call.1 = "_set_weights_by_mode" then
    match QGen.C12.wseBranch (modeName opt.mode) with
    | none => .ok st
    | some b =>
      let w := interpBranch opt G b
      if validWs atol w then setWeightsFast st w else .error .notSymmetric
  else .error .shape

def interpFast (atol : K) (opt : Opt K m) (grad : Bool) (G : List (Mat K (m - 1) (m - 1))) :
    List (String × String) → FastWse K m → Except Err (FastWse K m)
  | [], st => .ok st
  | c :: r, st => do
    let st' ← stepFast atol opt grad G c st
    interpFast atol opt grad G r st'

/-- the branch the hand-written model implements for each handled mode -/
def expectedBranch : Mode → QGen.C12.Branch
  | .identity => .reset | .custom => .optionWeights | .invSample => .invCov false | .invUnbiased => .invCov true
  | .unbiasedInv => .invCov true

end generated
end QM.C12

/-! ## definitions used in the statements of QProps/C12.lean (QProps holds theorems only) -/
namespace QM.C12
open QM

section statementDefs
variable {K : Type} [Field K] [LinearOrder K] {m nv : Nat}

/-- every weight matrix in force is symmetric (the constructor / setter validate `is_hermitian`) -/
def SymWeights (l : List (Sched K m nv × Option (Mat K m m))) : Prop :=
  ∀ p ∈ l, (wmat p.2)ᵀ = wmat p.2

/-- the weight matrices a mode string stands for: none (identity weights) for `identity`, the option's for
`custom`, the symmetrised inverse-covariance matrices for the covariance modes -/
def modeWeights (opt : Opt K m) (G : List (Mat K (m - 1) (m - 1))) : Option (List (Mat K m m)) :=
  match opt.mode with
  | .identity => none
  | .custom => opt.weights
  | .invSample | .invUnbiased | .unbiasedInv => some (G.map invCovWeight)

/-- one outcome along a line: data `q`, probability `p`, gradient component `g = ∂_α p`, direction `d = (A h)_i` -/
structure Pt where
  q : ℝ
  p : ℝ
  g : ℝ
  d : ℝ

def qsOf (l : List Pt) : List ℝ := l.map (·.q)
def psAt (l : List Pt) (t : ℝ) : List ℝ := l.map fun x => x.p + t * x.d
def gsOf (l : List Pt) : List ℝ := l.map (·.g)
def dsOf (l : List Pt) : List ℝ := l.map (·.d)
/-- numpy's `log` values as the kernel receives them: `Real.log` of the clipped ratio -/
noncomputable def logsAt (epsq epsp : ℝ) (l : List Pt) (t : ℝ) : List ℝ :=
  l.map fun x => Real.log (logArg x.q (x.p + t * x.d) epsq epsp)

/-- away from the clipping thresholds at parameter `t` -/
def AwayAt (epsq epsp : ℝ) (l : List Pt) (t : ℝ) : Prop :=
  ∀ x ∈ l, 0 < x.q ∧ epsq ≤ x.q ∧ 0 < x.p + t * x.d ∧ epsp < x.p + t * x.d ∧ epsp < x.q / (x.p + t * x.d)

/-- the model's relative-entropy kernel with `np.log = Real.log`, along the line `p(t) = p + t d` -/
noncomputable def valueAt (epsq epsp : ℝ) (l : List Pt) (t : ℝ) : ℝ :=
  relEnt epsq epsp (qsOf l) (psAt l t) (logsAt epsq epsp l t)

/-- one outcome's term of the model's `relative_entropy` kernel as a function of the predicted probability -/
noncomputable def termAt (epsq epsp q : ℝ) (p : ℝ) : ℝ :=
  relEnt epsq epsp [q] [p] [Real.log (logArg q p epsq epsp)]

/-- every outcome is either skipped by the kernel (`q < eps_q`, e.g. an exactly-zero empirical entry) or away from
all clipping thresholds -/
def AwayOrSkipped (epsq epsp : ℝ) (l : List Pt) (t : ℝ) : Prop :=
  ∀ x ∈ l, x.q < epsq ∨
    (0 < x.q ∧ epsq ≤ x.q ∧ 0 < x.p + t * x.d ∧ epsp < x.p + t * x.d ∧ epsp < x.q / (x.p + t * x.d))

noncomputable def kept (epsq : ℝ) (l : List Pt) : List Pt := l.filter fun x => decide (epsq ≤ x.q)

/-- value of the WEIGHTED relative-entropy loss along a line: `Σ_j w_j · (kernel value of schedule j)`; `scheds` pairs each schedule's
weight with its outcomes -/
noncomputable def lossAt (epsq epsp : ℝ) (scheds : List (ℝ × List Pt)) (t : ℝ) : ℝ :=
  (scheds.map fun s => s.1 * valueAt epsq epsp s.2 t).sum


/-- `Σ_α h_α · column_α` of a list of (coefficient, column) pairs, all columns of length `n` -/
def lincomb (n : Nat) : List (K × List K) → List K
  | [] => List.replicate n 0
  | (c, col) :: r => List.zipWith (· + ·) (col.map (c * ·)) (lincomb n r)


end statementDefs
end QM.C12
