import Mathlib.Analysis.Matrix.Order
import Mathlib.Analysis.Matrix.PosDef
/-! PSD toolbox: trace of a product of PSD matrices is non-negative; eigenvalue clipping satisfies the
variational inequality of the metric projection onto the PSD cone (Frobenius norm). -/
open Matrix
namespace QM.Psd
open scoped MatrixOrder ComplexOrder

variable {n : Type*} [Fintype n] [DecidableEq n] {𝕜 : Type*} [RCLike 𝕜]

lemma psd_trace_mul_nonneg {A B : Matrix n n 𝕜} (hA : A.PosSemidef) (hB : B.PosSemidef) :
    0 ≤ (A * B).trace := by
  have hB0 : (0 : Matrix n n 𝕜) ≤ B := nonneg_iff_posSemidef.mpr hB
  set S := CFC.sqrt B with hS
  have hSS : S * S = B := CFC.sqrt_mul_sqrt_self B hB0
  have hSpsd : S.PosSemidef := nonneg_iff_posSemidef.mp (CFC.sqrt_nonneg B)
  have hSh : Sᴴ = S := hSpsd.isHermitian
  have h1 : (A * B).trace = (Sᴴ * A * S).trace := by
    rw [← hSS, hSh, ← Matrix.mul_assoc, Matrix.trace_mul_comm, ← Matrix.mul_assoc]
  rw [h1]
  exact (hA.conjTranspose_mul_mul_same S).trace_nonneg

/-- clipped reconstruction -/
noncomputable def clip (U : Matrix n n 𝕜) (d : n → ℝ) : Matrix n n 𝕜 :=
  U * diagonal (fun i => ((max (d i) 0 : ℝ) : 𝕜)) * Uᴴ

lemma conj_diag_psd (U : Matrix n n 𝕜) (e : n → ℝ) (he : ∀ i, 0 ≤ e i) :
    (U * diagonal (fun i => ((e i : ℝ) : 𝕜)) * Uᴴ).PosSemidef := by
  have hd : (diagonal (fun i => ((e i : ℝ) : 𝕜))).PosSemidef :=
    PosSemidef.diagonal (fun i => by
      simpa using (RCLike.ofReal_nonneg (K := 𝕜)).mpr (he i))
  simpa using hd.mul_mul_conjTranspose_same U

theorem clip_vi (U : Matrix n n 𝕜) (hU : Uᴴ * U = 1) (d : n → ℝ) (A : Matrix n n 𝕜)
    (hA : A = U * diagonal (fun i => ((d i : ℝ) : 𝕜)) * Uᴴ)
    {X : Matrix n n 𝕜} (hX : X.PosSemidef) :
    ((A - clip U d) * (X - clip U d)).trace ≤ 0 := by
  set N : Matrix n n 𝕜 := U * diagonal (fun i => ((max (- d i) 0 : ℝ) : 𝕜)) * Uᴴ with hN
  have hNpsd : N.PosSemidef := conj_diag_psd U _ (fun i => le_max_right _ _)
  have hAP : A - clip U d = -N := by
    rw [hA, clip, hN, ← Matrix.sub_mul, ← Matrix.mul_sub, ← Matrix.neg_mul, ← Matrix.mul_neg]
    congr 2
    rw [diagonal_sub, diagonal_neg]
    congr 1
    funext i
    rcases le_total (d i) 0 with h0 | h0
    · simp [max_eq_right h0, max_eq_left (neg_nonneg.mpr h0)]
    · simp [max_eq_left h0, max_eq_right (neg_nonpos.mpr h0)]
  have hNP : N * clip U d = 0 := by
    rw [hN, clip]
    have : U * diagonal (fun i => ((max (- d i) 0 : ℝ) : 𝕜)) * Uᴴ *
        (U * diagonal (fun i => ((max (d i) 0 : ℝ) : 𝕜)) * Uᴴ)
        = U * (diagonal (fun i => ((max (- d i) 0 : ℝ) : 𝕜)) * (Uᴴ * U) *
          diagonal (fun i => ((max (d i) 0 : ℝ) : 𝕜))) * Uᴴ := by
      simp only [Matrix.mul_assoc]
    rw [this, hU, Matrix.mul_one, diagonal_mul_diagonal]
    have hz : (fun i => ((max (- d i) 0 : ℝ) : 𝕜) * ((max (d i) 0 : ℝ) : 𝕜)) = fun _ => 0 := by
      funext i
      rcases le_total (d i) 0 with h0 | h0
      · simp [max_eq_right h0]
      · simp [max_eq_right (neg_nonpos.mpr h0)]
    rw [hz]
    simp
  rw [hAP, Matrix.mul_sub, Matrix.neg_mul, Matrix.neg_mul, hNP, neg_zero, sub_zero, Matrix.trace_neg]
  exact neg_nonpos.mpr (psd_trace_mul_nonneg hNpsd hX)

end QM.Psd
