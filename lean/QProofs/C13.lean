import QModel.C13
/-!
# C13 — helper lemmas for the state machines (no Mathlib needed: everything is induction over histories)
-/
namespace QM.C13

/-! ## (a) caches -/

theorem cacheOk_empty {T : Type} (tbl : Key → T) : CacheOk tbl Cache.empty := by
  intro k v h; simp [Cache.empty] at h

theorem build_ok {T : Type} (tbl : Key → T) (g : Grp) (s : Cache T) (h : CacheOk tbl s) :
    CacheOk tbl (build tbl g s) := by
  intro k v hk
  unfold build at hk
  split at hk
  · injection hk with hk; exact hk.symm
  · exact h k v hk

theorem cstep_ok {T : Type} (tbl : Key → T) (s : Cache T) (op : COp) (h : CacheOk tbl s) :
    CacheOk tbl (cstep tbl s op).1 := by
  cases op with
  | get k =>
      simp only [cstep]
      split
      · exact build_ok tbl _ s h
      · exact h
  | delete k =>
      simp only [cstep]
      split
      · intro j v hj
        simp only at hj
        split at hj
        · cases hj
        · exact h j v hj
      · exact h

theorem crun_ok {T : Type} (tbl : Key → T) (ops : List COp) :
    ∀ s : Cache T, CacheOk tbl s → CacheOk tbl (crun tbl s ops).1 := by
  induction ops with
  | nil => intro s h; exact h
  | cons op ops ih => intro s h; exact ih _ (cstep_ok tbl s op h)

theorem get_out {T : Type} (tbl : Key → T) (s : Cache T) (k : Key) (h : CacheOk tbl s) :
    (cstep tbl s (.get k)).2 = .table (some (tbl k)) := by
  simp only [cstep]
  cases hk : s k with
  | none => simp [build]
  | some v => simp [hk, h k v hk]

/-- outputs of a history, one per call -/
theorem crun_length {T : Type} (tbl : Key → T) (ops : List COp) :
    ∀ s : Cache T, (crun tbl s ops).2.length = ops.length := by
  induction ops with
  | nil => intro s; rfl
  | cons op ops ih => intro s; simp [crun, ih]

theorem crun_gets_pure {T : Type} (tbl : Key → T) (ops : List COp) :
    ∀ s : Cache T, CacheOk tbl s →
      ∀ p ∈ ops.zip (crun tbl s ops).2, ∀ k, p.1 = .get k → p.2 = .table (some (tbl k)) := by
  induction ops with
  | nil => intro s _ p hp; simp [crun] at hp
  | cons op ops ih =>
      intro s h p hp k hk
      simp only [crun, List.zip_cons_cons, List.mem_cons] at hp
      rcases hp with rfl | hp
      · simp only at hk; subst hk; exact get_out tbl s k h
      · exact ih _ (cstep_ok tbl s op h) p hp k hk

/-! ## (b) loss -/

section loss
variable {A Q W : Type}

theorem calcExt_ext (s : Loss A Q W) : (calcExt s).ext = s.weights := rfl

/-- the state after one `set_from_standard_qtomography_option_data`, field by field -/
theorem configure_eq (s : Loss A Q W) (c : Cfg A Q W) :
    configure s c =
      { option := some (c.mode, c.optWeights)
        q := some c.q
        matA := some c.matA
        weights := match c.mode with
          | .identity => none | .custom => c.optWeights | .invCov => some c.dataW
        ext := match c.mode with
          | .identity => none | .custom => c.optWeights | .invCov => some c.dataW } := by
  obtain ⟨o, q, a, w, e⟩ := s
  obtain ⟨mode, ow, ma, cq, dw, g⟩ := c
  cases g <;> cases mode <;> simp [configure, cfgOps, lstep, calcExt, setWeights]

end loss

/-! ## (c) algorithm -/

theorem setConstraint_qt {QT : Type} (s : Algo QT) (c : QT × AlgoOpt) :
    (setConstraint s c).qt = some c.1 := by
  unfold setConstraint; cases s.funcProj <;> simp

theorem setConstraint_proj_some {QT : Type} (s : Algo QT) (c : QT × AlgoOpt) (p : Proj QT)
    (h : s.funcProj = some p) : (setConstraint s c).funcProj = some p := by
  unfold setConstraint; simp [h]

theorem arun_proj_some {QT : Type} (h : List (QT × AlgoOpt)) :
    ∀ (s : Algo QT) (p : Proj QT), s.funcProj = some p → (arun s h).funcProj = some p := by
  induction h with
  | nil => intro s p hp; exact hp
  | cons c h ih => intro s p hp; exact ih _ p (setConstraint_proj_some s c p hp)

/-! ## interleavings -/

theorem crun_fst_foldl {T : Type} (tbl : Key → T) (ops : List COp) :
    ∀ s : Cache T, (crun tbl s ops).1 = ops.foldl (fun s op => (cstep tbl s op).1) s := by
  induction ops with
  | nil => intro s; rfl
  | cons op ops ih => intro s; simp [crun, ih]

theorem arunAtol_fst_foldl (ops : List AOp) :
    ∀ a : Rat, (arunAtol a ops).1 = ops.foldl (fun a op => (astep a op).1) a := by
  induction ops with
  | nil => intro a; rfl
  | cons op ops ih => intro a; simp [arunAtol, ih]

theorem prun_components {T A Q W QT : Type} (tbl : Key → T) (h : List (POp A Q W QT)) :
    ∀ s : Pool T A Q W QT,
      (prun tbl s h).cache = (crun tbl s.cache (h.filterMap POp.cache?)).1 ∧
      (prun tbl s h).loss = lrun s.loss (h.filterMap POp.loss?) ∧
      (prun tbl s h).algo = arun s.algo (h.filterMap POp.algo?) ∧
      (prun tbl s h).atol = (arunAtol s.atol (h.filterMap POp.atol?)).1 := by
  induction h with
  | nil => intro s; simp [prun, crun, lrun, arun, arunAtol]
  | cons op h ih =>
      intro s
      have := ih (pstep tbl s op)
      simp only [prun, List.foldl_cons] at this ⊢
      cases op <;>
        simp_all [pstep, POp.cache?, POp.loss?, POp.algo?, POp.atol?, crun, lrun, arun, arunAtol, List.filterMap_cons]

/-! ## (d) atol -/

theorem arunAtol_append (a : Rat) (x y : List AOp) :
    arunAtol a (x ++ y) = ((arunAtol (arunAtol a x).1 y).1, (arunAtol a x).2 ++ (arunAtol (arunAtol a x).1 y).2) := by
  induction x generalizing a with
  | nil => simp [arunAtol]
  | cons op x ih => simp [arunAtol, ih]

end QM.C13
