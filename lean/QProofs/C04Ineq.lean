import QProofs.C04
import QProofs.C04Psd
import Mathlib.Logic.Equiv.Fin.Basic
import Mathlib.Analysis.Real.Sqrt
import Mathlib.LinearAlgebra.Matrix.NonsingularInverse
/-! bridge of the inequality-projection model (`clipMat`, `matOfVec`, `coeffs`, `truncate`) at `R = ℝ`, `K = ℂ`
to the Mathlib statements of `QProofs.C04Psd`. -/
open Matrix
set_option linter.unusedSectionVars false
namespace QM.C04

noncomputable instance instCxLikeRC : CxLike ℝ ℂ := ⟨Complex.ofReal, starRingEnd ℂ, Complex.re, Complex.im⟩

@[simp] theorem ofReal_def (r : ℝ) : (CxLike.ofReal r : ℂ) = (r : ℂ) := rfl
@[simp] theorem conj_def (z : ℂ) : (CxLike.conj z : ℂ) = star z := rfl
@[simp] theorem re_def (z : ℂ) : (CxLike.re z : ℝ) = z.re := rfl
@[simp] theorem im_def (z : ℂ) : (CxLike.im z : ℝ) = z.im := rfl

variable {n d : Nat}

theorem pos_eq_max (x : ℝ) : pos x = max x 0 := by
  unfold pos; split
  · rename_i h; rw [max_eq_right h.le]
  · rename_i h; rw [max_eq_left (not_lt.1 h)]

/-- the basis as a family of Mathlib matrices -/
def basisM (B : Vector (Mat ℂ d d) n) : Fin n → Matrix (Fin d) (Fin d) ℂ := fun a => (B[a]).toM

theorem toM_clipMat (U : Mat ℂ d d) (lam : Vec ℝ d) :
    (clipMat U lam).toM = Psd.clip U.toM (fun i => lam.get i) := by
  ext i j
  simp [clipMat, Psd.clip, Matrix.mul_apply, fsum_eq_sum, Matrix.diagonal_apply, pos_eq_max,
    Matrix.conjTranspose_apply]

theorem toM_rebuild (U : Mat ℂ d d) (lam : Vec ℝ d) :
    (rebuild U lam).toM = U.toM * diagonal (fun i => ((lam.get i : ℝ) : ℂ)) * U.toMᴴ := by
  ext i j
  simp [rebuild, Matrix.mul_apply, fsum_eq_sum, Matrix.diagonal_apply, Matrix.conjTranspose_apply]

theorem toM_matOfVec (B : Vector (Mat ℂ d d) n) (v : Vec ℝ n) :
    (matOfVec B v).toM = Psd.synth (basisM B) (fun a => v.get a) := by
  ext i j
  simp [matOfVec, Psd.synth, basisM, fsum_eq_sum, Matrix.sum_apply]

theorem re_coeffs (B : Vector (Mat ℂ d d) n) (M : Mat ℂ d d) (a : Fin n) :
    ((coeffs B M).get a).re = Psd.coeff (basisM B) M.toM a := by
  simp only [coeffs, Vec.get_ofFn, fsum_eq_sum, Psd.coeff, basisM, Matrix.trace, Matrix.diag,
    Matrix.mul_apply, Matrix.conjTranspose_apply, conj_def, Mat.toM_apply]
  rw [Finset.sum_comm]
  rfl

theorem rabs_nonneg (x : ℝ) : ¬ rabs x < 0 := by
  unfold rabs; split
  · rename_i h; linarith
  · rename_i h; exact h

/-- with `eps = 0` (the exact idealisation) a successful truncation returns the real parts -/
theorem truncate_zero_get (v : Vec ℂ n) (p : Vec ℝ n) (h : truncate (0 : ℝ) v = .ok p) (a : Fin n) :
    p.get a = (v.get a).re := by
  unfold truncate at h
  split at h
  · cases h
  · injection h with h
    subst h
    simp [rabs_nonneg]

/-- … and it succeeds exactly when all imaginary parts vanish -/
theorem truncate_zero_ok (v : Vec ℂ n) (hv : ∀ a, (v.get a).im = 0) :
    truncate (0 : ℝ) v = .ok (Vec.ofFn fun a => (v.get a).re) := by
  unfold truncate
  rw [if_neg]
  · congr 1; apply Vec.ext'; intro a; simp [rabs_nonneg]
  · simp [hv]

/-! ### entries of the Kronecker basis -/
section kron
open Finset

/-- Hilbert–Schmidt product of two model matrices as a double sum -/
theorem trace_conj_mul (A B : Matrix (Fin d) (Fin d) ℂ) :
    (Aᴴ * B).trace = ∑ i, ∑ j, star (A i j) * B i j := by
  simp only [Matrix.trace, Matrix.diag, Matrix.mul_apply, Matrix.conjTranspose_apply]
  rw [Finset.sum_comm]

theorem sum_fin_mul {M : Type} [AddCommMonoid M] (f : Fin (d * d) → M) :
    ∑ i, f i = ∑ p : Fin d × Fin d, f (finProdFinEquiv p) :=
  (Equiv.sum_comp finProdFinEquiv f).symm

theorem kron_entry (B : Vector (Mat ℂ d d) n) (c : Fin (n * n)) (i1 i2 j1 j2 : Fin d) :
    (basisM (kronBasis B) c) (finProdFinEquiv (i1, i2)) (finProdFinEquiv (j1, j2))
      = (B[c.val / n]'((Nat.div_lt_iff_lt_mul (pos_of_lt_mul c.isLt)).2 c.isLt)).get i1 j1
        * star ((B[c.val % n]'(Nat.mod_lt _ (pos_of_lt_mul c.isLt))).get i2 j2) := by
  have hd : 0 < d := i1.pos
  have e1 : (i2.val + d * i1.val) / d = i1.val := by
    rw [Nat.add_mul_div_left _ _ hd, Nat.div_eq_of_lt i2.isLt, Nat.zero_add]
  have e2 : (i2.val + d * i1.val) % d = i2.val := by
    rw [Nat.add_mul_mod_self_left, Nat.mod_eq_of_lt i2.isLt]
  have e3 : (j2.val + d * j1.val) / d = j1.val := by
    rw [Nat.add_mul_div_left _ _ hd, Nat.div_eq_of_lt j2.isLt, Nat.zero_add]
  have e4 : (j2.val + d * j1.val) % d = j2.val := by
    rw [Nat.add_mul_mod_self_left, Nat.mod_eq_of_lt j2.isLt]
  simp [basisM, kronBasis, finProdFinEquiv, e1, e2, e3, e4]

theorem kron_entry' (B : Vector (Mat ℂ d d) n) (c : Fin (n * n)) (p q : Fin d × Fin d) :
    (basisM (kronBasis B) c) (finProdFinEquiv p) (finProdFinEquiv q)
      = (B[c.val / n]'((Nat.div_lt_iff_lt_mul (pos_of_lt_mul c.isLt)).2 c.isLt)).get p.1 q.1
        * star ((B[c.val % n]'(Nat.mod_lt _ (pos_of_lt_mul c.isLt))).get p.2 q.2) := by
  obtain ⟨i1, i2⟩ := p; obtain ⟨j1, j2⟩ := q; exact kron_entry B c i1 i2 j1 j2

theorem orthoN_get (B : Vector (Mat ℂ d d) n) (hB : Psd.OrthoN (basisM B)) (a a' : Fin n) :
    ∑ i, ∑ j, star ((B[a.val]'a.isLt).get i j) * (B[a'.val]'a'.isLt).get i j = if a = a' then 1 else 0 := by
  have := hB a a'
  rw [trace_conj_mul] at this
  simpa [basisM] using this


end kron

/-! ### completeness of d² orthonormal Hermitian matrices; Hermitian families -/
end QM.C04

namespace QM.Psd
open scoped ComplexOrder
open Finset
variable {d : Nat}

theorem trace_conj_mul' (A B : Matrix (Fin d) (Fin d) ℂ) :
    (Aᴴ * B).trace = ∑ i, ∑ j, star (A i j) * B i j := by
  simp only [Matrix.trace, Matrix.diag, Matrix.mul_apply, Matrix.conjTranspose_apply]
  rw [Finset.sum_comm]

/-- `d²` orthonormal `d × d` matrices are complete (dimension count: a left inverse of a square matrix is a right inverse) -/
theorem complete_of_orthoN (B : Fin (d * d) → Matrix (Fin d) (Fin d) ℂ) (hB : OrthoN B) (i j k l : Fin d) :
    ∑ a, B a i j * star (B a k l) = if (k, l) = (i, j) then 1 else 0 := by
  let G : Matrix (Fin (d * d)) (Fin d × Fin d) ℂ := Matrix.of fun a p => B a p.1 p.2
  let Gs : Matrix (Fin d × Fin d) (Fin (d * d)) ℂ := Matrix.of fun p a => star (B a p.1 p.2)
  have h1 : G * Gs = 1 := by
    ext a b
    have := hB b a
    rw [trace_conj_mul'] at this
    simp only [G, Gs, Matrix.mul_apply, Fintype.sum_prod_type, Matrix.one_apply, Matrix.of_apply]
    rw [show (if a = b then (1 : ℂ) else 0) = if b = a then 1 else 0 by simp [eq_comm]]
    rw [← this]
    apply Finset.sum_congr rfl; intro x _
    apply Finset.sum_congr rfl; intro y _
    ring
  have h2 : Gs * G = 1 := (mul_eq_one_comm_of_equiv finProdFinEquiv.symm).1 h1
  have := congrFun (congrFun h2 (k, l)) (i, j)
  simp only [Gs, G, Matrix.mul_apply, Matrix.one_apply, Matrix.of_apply] at this
  rw [← this]
  apply Finset.sum_congr rfl; intro a _; ring

theorem trace_real_of_hermitian (A H : Matrix (Fin d) (Fin d) ℂ) (hA : A.IsHermitian) (hH : H.IsHermitian) :
    (starRingEnd ℂ) ((Aᴴ * H).trace) = (Aᴴ * H).trace := by
  rw [starRingEnd_apply, ← Matrix.trace_conjTranspose, Matrix.conjTranspose_mul, Matrix.conjTranspose_conjTranspose,
    hH.eq, hA.eq, Matrix.trace_mul_comm]

/-- completeness for the real coefficient maps: every Hermitian matrix is reproduced from its real coefficients in an
orthonormal Hermitian family of `d²` matrices -/
theorem synth_coeff_of_orthoN (B : Fin (d * d) → Matrix (Fin d) (Fin d) ℂ) (hB : OrthoN B)
    (hBh : ∀ a, (B a).IsHermitian) (H : Matrix (Fin d) (Fin d) ℂ) (hH : H.IsHermitian) :
    synth B (coeff B H) = H := by
  ext i j
  have hre := fun a => RCLike.conj_eq_iff_re.1 (trace_real_of_hermitian (B a) H (hBh a) hH)
  have e1 : (synth B (coeff B H)) i j = ∑ a, ((B a)ᴴ * H).trace * B a i j := by
    simp only [synth, Matrix.sum_apply, Matrix.smul_apply, smul_eq_mul]
    apply Finset.sum_congr rfl; intro a _
    rw [← hre a]; rfl
  rw [e1]
  have e2 : ∀ a, ((B a)ᴴ * H).trace * B a i j = ∑ k, ∑ l, H k l * (B a i j * star (B a k l)) := by
    intro a
    rw [trace_conj_mul', Finset.sum_mul]
    apply Finset.sum_congr rfl; intro k _
    rw [Finset.sum_mul]
    apply Finset.sum_congr rfl; intro l _; ring
  simp_rw [e2]
  rw [Finset.sum_comm]
  have e3 : ∀ k, ∑ a, ∑ l, H k l * (B a i j * star (B a k l)) = ∑ l, H k l * (if (k, l) = (i, j) then 1 else 0) := by
    intro k
    rw [Finset.sum_comm]
    apply Finset.sum_congr rfl; intro l _
    rw [← Finset.mul_sum, complete_of_orthoN B hB]
  simp_rw [e3]
  simp [Prod.ext_iff, ite_and, Finset.sum_ite_eq']
end QM.Psd

namespace QM.C04
open QM.Psd
open scoped ComplexOrder
variable {n d : Nat}

/-- every basis element is Hermitian -/
def HermB (B : Vector (Mat ℂ d d) n) : Prop := ∀ a, (basisM B a).IsHermitian

theorem basisM_mk (B : Vector (Mat ℂ d d) n) (k : Nat) (h : k < n) (i j : Fin d) :
    basisM B ⟨k, h⟩ i j = (B[k]'h).get i j := by simp [basisM]

theorem coeffs_get (B : Vector (Mat ℂ d d) n) (M : Mat ℂ d d) (a : Fin n) :
    (coeffs B M).get a = ((basisM B a)ᴴ * M.toM).trace := by
  simp only [coeffs, Vec.get_ofFn, fsum_eq_sum, basisM, Matrix.trace, Matrix.diag,
    Matrix.mul_apply, Matrix.conjTranspose_apply, conj_def, Mat.toM_apply]
  rw [Finset.sum_comm]

/-- the Kronecker (Choi) family of a Hermitian family is Hermitian -/
theorem hermB_kron (B : Vector (Mat ℂ d d) n) (hH : HermB B) : HermB (kronBasis B) := by
  intro c
  have hn : 0 < n := pos_of_lt_mul c.isLt
  ext i j
  obtain ⟨p, rfl⟩ := finProdFinEquiv.surjective i
  obtain ⟨q, rfl⟩ := finProdFinEquiv.surjective j
  rw [Matrix.conjTranspose_apply, kron_entry', kron_entry']
  have ha := congrFun (congrFun (hH ⟨c.val / n, (Nat.div_lt_iff_lt_mul hn).2 c.isLt⟩) p.1) q.1
  have hb := congrFun (congrFun (hH ⟨c.val % n, Nat.mod_lt _ hn⟩) q.2) p.2
  rw [Matrix.conjTranspose_apply, basisM_mk, basisM_mk] at ha hb
  rw [star_mul', star_star, ha, ← hb]

theorem rabs_eq_abs (x : ℝ) : rabs x = |x| := by
  unfold rabs; split
  · rename_i h; rw [abs_of_neg h]
  · rename_i h; rw [abs_of_nonneg (not_lt.1 h)]

/-! ### the normalised Pauli basis -/

/-- `1/√2` -/
noncomputable def rs2 : ℂ := ((Real.sqrt 2 : ℝ) : ℂ)⁻¹

theorem rs2_mul_self : rs2 * rs2 = 1 / 2 := by
  unfold rs2
  rw [← mul_inv, ← Complex.ofReal_mul, Real.mul_self_sqrt (by norm_num)]
  norm_num

theorem star_rs2 : star rs2 = rs2 := by
  unfold rs2
  rw [star_inv₀]
  congr 1
  exact Complex.conj_ofReal _

/-- Pauli matrices `I, X, Y, Z` (index 0..3) -/
def sigma (a : Fin 4) (i j : Fin 2) : ℂ :=
  match a.val, i.val, j.val with
  | 0, 0, 0 => 1 | 0, 1, 1 => 1
  | 1, 0, 1 => 1 | 1, 1, 0 => 1
  | 2, 0, 1 => -Complex.I | 2, 1, 0 => Complex.I
  | 3, 0, 0 => 1 | 3, 1, 1 => -1
  | _, _, _ => 0

/-- the normalised Pauli basis of quara (`get_normalized_pauli_basis`): `σ_a / √2` -/
noncomputable def pauliB : Vector (Mat ℂ 2 2) 4 := Vector.ofFn fun a => Mat.ofFn fun i j => rs2 * sigma a i j

theorem pauliB_apply (a : Fin 4) (i j : Fin 2) : basisM pauliB a i j = rs2 * sigma a i j := by
  simp [basisM, pauliB]


/-! ### sequencing of per-block results (`seqV` = `Vector.mapM id` in `Except`) -/
theorem list_mapM_id_ok {α : Type} (l : List (Except Err α)) (l' : List α) (h : l.mapM id = .ok l') :
    l = l'.map .ok := by
  induction l generalizing l' with
  | nil => simp [pure, Except.pure] at h; subst h; rfl
  | cons a l ih =>
    rw [List.mapM_cons] at h
    cases a with
    | error e => simp [bind, Except.bind] at h
    | ok x =>
      simp only [id, bind, Except.bind] at h
      cases hl : l.mapM id with
      | error e => rw [hl] at h; simp [pure, Except.pure] at h
      | ok r =>
        rw [hl] at h
        simp [pure, Except.pure] at h
        subst h
        simp [ih r hl]

theorem seqV_ok {α : Type} {n : Nat} (v : Vector (Except Err α) n) (P : Vector α n) (h : seqV v = .ok P) :
    ∀ k : Fin n, v[k] = .ok P[k] := by
  have h1 : Vector.toArray <$> v.mapM id = v.toArray.mapM id := Vector.toArray_mapM
  unfold seqV at h
  rw [h, Array.mapM_eq_mapM_toList] at h1
  cases hl : v.toArray.toList.mapM id with
  | error e => rw [hl] at h1; simp [Functor.map, Except.map] at h1
  | ok r =>
    rw [hl] at h1
    simp only [Functor.map, Except.map] at h1
    injection h1 with h1
    have hr : r = P.toArray.toList := by
      have := congrArg Array.toList h1; simpa using this.symm
    have hv := list_mapM_id_ok _ _ hl
    rw [hr] at hv
    intro k
    have : v.toArray.toList[k.val]'(by simp) = (P.toArray.toList.map Except.ok)[k.val]'(by simp) := by
      simp [hv]
    simpa using this

theorem seqV_of_ok {α : Type} {n : Nat} (v : Vector (Except Err α) n) (P : Vector α n) (h : ∀ k : Fin n, v[k] = .ok P[k]) :
    seqV v = .ok P := by
  have hv : v = P.map Except.ok := by
    apply Vector.ext; intro i hi
    simpa using h ⟨i, hi⟩
  unfold seqV
  rw [hv, Vector.mapM_map]
  have := Vector.mapM_pure (m := Except Err) (xs := P) (f := id)
  simpa [pure, Except.pure] using this

theorem sqd2_rows {m n : Nat} (X P : Mat ℝ m n) : sqd2 X P = ∑ k : Fin m, sqd1 X[k] P[k] := by
  simp [sqd2, sqd1, fsum_eq_sum, Mat.get, Vec.get]

/-! a concrete instance used for the non-vacuity examples of QProps.C04 -/

/-- diagonal matrix units E11, E22: an orthonormal Hermitian family (rational entries) -/
noncomputable def exB : Vector (Mat ℂ 2 2) 2 :=
  Vector.ofFn fun a => Mat.ofFn fun i j => if i = j ∧ i = a then 1 else 0
noncomputable def exU : Mat ℂ 2 2 := Mat.ofFn fun i j => if i = j then 1 else 0
noncomputable def exLam : Vec ℝ 2 := Vec.ofFn fun i => if i = 0 then 1 else -2
noncomputable def exP : Vec ℝ 2 := Vec.ofFn fun i => if i = 0 then 1 else 0

theorem exB_get (a : Nat) (ha : a < 2) (i j : Fin 2) : (exB[a]'ha).get i j = if i = j ∧ i.val = a then 1 else 0 := by
  simp [exB, Fin.ext_iff]


end QM.C04
