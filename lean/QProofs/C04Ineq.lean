import QProofs.C04
import QProofs.C04Psd
import Mathlib.Logic.Equiv.Fin.Basic
/-! bridge of the inequality-projection model (`clipMat`, `matOfVec`, `coeffs`, `truncate`) at `R = ℝ`, `K = ℂ`
to the Mathlib statements of `QProofs.C04Psd`. -/
open Matrix
set_option linter.unusedSectionVars false
namespace QM.C04

noncomputable instance instCxLikeRC : CxLike ℝ ℂ := ⟨Complex.ofReal, starRingEnd ℂ, Complex.re, Complex.im⟩

@[simp] theorem ofReal_def (r : ℝ) : (CxLike.ofReal r : ℂ) = (r : ℂ) := rfl
@[simp] theorem conj_def (z : ℂ) : (CxLike.conj z : ℂ) = star z := rfl
@[simp] theorem re_def (z : ℂ) : (CxLike.re z : ℝ) = z.re := rfl
@[simp] theorem im_def (z : ℂ) : (CxLike.im z : ℝ) = z.im := rfl

variable {n d : Nat}

theorem pos_eq_max (x : ℝ) : pos x = max x 0 := by
  unfold pos; split
  · rename_i h; rw [max_eq_right h.le]
  · rename_i h; rw [max_eq_left (not_lt.1 h)]

/-- the basis as a family of Mathlib matrices -/
def basisM (B : Vector (Mat ℂ d d) n) : Fin n → Matrix (Fin d) (Fin d) ℂ := fun a => (B[a]).toM

theorem toM_clipMat (U : Mat ℂ d d) (lam : Vec ℝ d) :
    (clipMat U lam).toM = Psd.clip U.toM (fun i => lam.get i) := by
  ext i j
  simp [clipMat, Psd.clip, Matrix.mul_apply, fsum_eq_sum, Matrix.diagonal_apply, pos_eq_max,
    Matrix.conjTranspose_apply]

theorem toM_rebuild (U : Mat ℂ d d) (lam : Vec ℝ d) :
    (rebuild U lam).toM = U.toM * diagonal (fun i => ((lam.get i : ℝ) : ℂ)) * U.toMᴴ := by
  ext i j
  simp [rebuild, Matrix.mul_apply, fsum_eq_sum, Matrix.diagonal_apply, Matrix.conjTranspose_apply]

theorem toM_matOfVec (B : Vector (Mat ℂ d d) n) (v : Vec ℝ n) :
    (matOfVec B v).toM = Psd.synth (basisM B) (fun a => v.get a) := by
  ext i j
  simp [matOfVec, Psd.synth, basisM, fsum_eq_sum, Matrix.sum_apply]

theorem re_coeffs (B : Vector (Mat ℂ d d) n) (M : Mat ℂ d d) (a : Fin n) :
    ((coeffs B M).get a).re = Psd.coeff (basisM B) M.toM a := by
  simp only [coeffs, Vec.get_ofFn, fsum_eq_sum, Psd.coeff, basisM, Matrix.trace, Matrix.diag,
    Matrix.mul_apply, Matrix.conjTranspose_apply, conj_def, Mat.toM_apply]
  rw [Finset.sum_comm]
  rfl

theorem rabs_nonneg (x : ℝ) : ¬ rabs x < 0 := by
  unfold rabs; split
  · rename_i h; linarith
  · rename_i h; exact h

/-- with `eps = 0` (the exact idealisation) a successful truncation returns the real parts -/
theorem truncate_zero_get (v : Vec ℂ n) (p : Vec ℝ n) (h : truncate (0 : ℝ) v = .ok p) (a : Fin n) :
    p.get a = (v.get a).re := by
  unfold truncate at h
  split at h
  · cases h
  · injection h with h
    subst h
    simp [rabs_nonneg]

/-- … and it succeeds exactly when all imaginary parts vanish -/
theorem truncate_zero_ok (v : Vec ℂ n) (hv : ∀ a, (v.get a).im = 0) :
    truncate (0 : ℝ) v = .ok (Vec.ofFn fun a => (v.get a).re) := by
  unfold truncate
  rw [if_neg]
  · congr 1; apply Vec.ext'; intro a; simp [rabs_nonneg]
  · simp [hv]

/-! ### entries of the Kronecker basis -/
section kron
open Finset

/-- Hilbert–Schmidt product of two model matrices as a double sum -/
theorem trace_conj_mul (A B : Matrix (Fin d) (Fin d) ℂ) :
    (Aᴴ * B).trace = ∑ i, ∑ j, star (A i j) * B i j := by
  simp only [Matrix.trace, Matrix.diag, Matrix.mul_apply, Matrix.conjTranspose_apply]
  rw [Finset.sum_comm]

theorem sum_fin_mul {M : Type} [AddCommMonoid M] (f : Fin (d * d) → M) :
    ∑ i, f i = ∑ p : Fin d × Fin d, f (finProdFinEquiv p) :=
  (Equiv.sum_comp finProdFinEquiv f).symm

theorem kron_entry (B : Vector (Mat ℂ d d) n) (c : Fin (n * n)) (i1 i2 j1 j2 : Fin d) :
    (basisM (kronBasis B) c) (finProdFinEquiv (i1, i2)) (finProdFinEquiv (j1, j2))
      = (B[c.val / n]'((Nat.div_lt_iff_lt_mul (pos_of_lt_mul c.isLt)).2 c.isLt)).get i1 j1
        * star ((B[c.val % n]'(Nat.mod_lt _ (pos_of_lt_mul c.isLt))).get i2 j2) := by
  have hd : 0 < d := i1.pos
  have e1 : (i2.val + d * i1.val) / d = i1.val := by
    rw [Nat.add_mul_div_left _ _ hd, Nat.div_eq_of_lt i2.isLt, Nat.zero_add]
  have e2 : (i2.val + d * i1.val) % d = i2.val := by
    rw [Nat.add_mul_mod_self_left, Nat.mod_eq_of_lt i2.isLt]
  have e3 : (j2.val + d * j1.val) / d = j1.val := by
    rw [Nat.add_mul_div_left _ _ hd, Nat.div_eq_of_lt j2.isLt, Nat.zero_add]
  have e4 : (j2.val + d * j1.val) % d = j2.val := by
    rw [Nat.add_mul_mod_self_left, Nat.mod_eq_of_lt j2.isLt]
  simp [basisM, kronBasis, finProdFinEquiv, e1, e2, e3, e4]

theorem kron_entry' (B : Vector (Mat ℂ d d) n) (c : Fin (n * n)) (p q : Fin d × Fin d) :
    (basisM (kronBasis B) c) (finProdFinEquiv p) (finProdFinEquiv q)
      = (B[c.val / n]'((Nat.div_lt_iff_lt_mul (pos_of_lt_mul c.isLt)).2 c.isLt)).get p.1 q.1
        * star ((B[c.val % n]'(Nat.mod_lt _ (pos_of_lt_mul c.isLt))).get p.2 q.2) := by
  obtain ⟨i1, i2⟩ := p; obtain ⟨j1, j2⟩ := q; exact kron_entry B c i1 i2 j1 j2

theorem orthoN_get (B : Vector (Mat ℂ d d) n) (hB : Psd.OrthoN (basisM B)) (a a' : Fin n) :
    ∑ i, ∑ j, star ((B[a.val]'a.isLt).get i j) * (B[a'.val]'a'.isLt).get i j = if a = a' then 1 else 0 := by
  have := hB a a'
  rw [trace_conj_mul] at this
  simpa [basisM] using this


end kron

/-! a concrete instance used for the non-vacuity examples of QProps.C04 -/

/-- diagonal matrix units E11, E22: an orthonormal Hermitian family (rational entries) -/
noncomputable def exB : Vector (Mat ℂ 2 2) 2 :=
  Vector.ofFn fun a => Mat.ofFn fun i j => if i = j ∧ i = a then 1 else 0
noncomputable def exU : Mat ℂ 2 2 := Mat.ofFn fun i j => if i = j then 1 else 0
noncomputable def exLam : Vec ℝ 2 := Vec.ofFn fun i => if i = 0 then 1 else -2
noncomputable def exP : Vec ℝ 2 := Vec.ofFn fun i => if i = 0 then 1 else 0

theorem exB_get (a : Nat) (ha : a < 2) (i j : Fin 2) : (exB[a]'ha).get i j = if i = j ∧ i.val = a then 1 else 0 := by
  simp [exB, Fin.ext_iff]


end QM.C04
