import QModel.C18
import QProofs.Bridge
import QProofs.Psd
import Mathlib.Algebra.Star.BigOperators
import Mathlib.Algebra.Order.BigOperators.Ring.Finset
import Mathlib.LinearAlgebra.Matrix.ConjTranspose
import Mathlib.Logic.Equiv.Fin.Basic
import Mathlib.Tactic.Ring
import Mathlib.Tactic.Linarith
import Mathlib.Tactic.FieldSimp
import Mathlib.Data.Complex.Basic
import Mathlib.LinearAlgebra.Matrix.NonsingularInverse
import Mathlib.Analysis.Normed.Algebra.MatrixExponential
import Mathlib.Analysis.Matrix.Order
import Mathlib.Analysis.Matrix.PosDef
import Mathlib.Tactic.Positivity
import Mathlib.Analysis.SpecialFunctions.Sqrt
import Mathlib.Tactic.FinCases
/-! helper lemmas for C18 -/
open Matrix
namespace QM.C18
open QM

/-- the model's conjugation is `star` on every Mathlib star-type -/
instance (priority := low) instHasConjOfStar {K : Type} [Star K] : HasConj K := ⟨star⟩

theorem conj_eq_star {K : Type} [Star K] (x : K) : (conj x : K) = star x := rfl

/-- the model's imaginary unit on `ℂ` -/
instance instHasIComplex : HasI ℂ := ⟨Complex.I⟩

section idx
variable {d : Nat}

theorem pr_eq (i j : Fin d) : pr i j = finProdFinEquiv (i, j) := by
  apply Fin.ext
  simp [pr, finProdFinEquiv, Nat.mul_comm, Nat.add_comm]

@[simp] theorem p1_pr (i j : Fin d) : p1 (pr i j) = i := by
  apply Fin.ext
  have hd : 0 < d := Nat.pos_of_ne_zero (by intro h; subst h; exact i.elim0)
  simp only [p1, pr]
  rw [Nat.mul_comm, Nat.mul_add_div hd, Nat.div_eq_of_lt j.isLt, Nat.add_zero]

@[simp] theorem p2_pr (i j : Fin d) : p2 (pr i j) = j := by
  apply Fin.ext
  simp only [p2, pr]
  rw [Nat.mul_comm, Nat.mul_add_mod, Nat.mod_eq_of_lt j.isLt]

@[simp] theorem pr_p1_p2 (r : Fin (d * d)) : pr (p1 r) (p2 r) = r := by
  apply Fin.ext
  simp only [p1, p2, pr]
  exact Nat.div_add_mod' _ _

theorem sum_pairs {M : Type} [AddCommMonoid M] (f : Fin (d * d) → M) :
    ∑ r, f r = ∑ i, ∑ j, f (pr i j) := by
  rw [← Fintype.sum_prod_type']
  exact (Fintype.sum_equiv finProdFinEquiv (fun x => f (pr x.1 x.2)) f
    (fun x => by rw [pr_eq])).symm

theorem pr_inj {i j k l : Fin d} (h : pr i j = pr k l) : i = k ∧ j = l := by
  have h1 := congrArg p1 h
  have h2 := congrArg p2 h
  simp at h1 h2
  exact ⟨h1, h2⟩
end idx


section bridge
variable {K : Type} {m n k : Nat}

@[simp] theorem msum_get [AddCommMonoid K] (f : Fin k → Mat K m n) (i : Fin m) (j : Fin n) :
    (msum k f).get i j = ∑ a, (f a).get i j := by
  simp [msum, fsum_eq_sum]

theorem toM_msum [AddCommMonoid K] (f : Fin k → Mat K m n) :
    (msum k f).toM = ∑ a, (f a).toM := by
  ext i j; simp [Matrix.sum_apply]

@[simp] theorem conjM_get [Star K] (A : Mat K m n) (i : Fin m) (j : Fin n) :
    (conjM A).get i j = star (A.get i j) := by simp [conjM, conj_eq_star]

@[simp] theorem adj_get [Star K] (A : Mat K m n) (i : Fin n) (j : Fin m) :
    (adj A).get i j = star (A.get j i) := by simp [adj, conj_eq_star]

theorem toM_adj [Star K] (A : Mat K m n) : (adj A).toM = A.toMᴴ := by
  ext i j; simp [Matrix.conjTranspose_apply]

theorem toM_conjM [Star K] (A : Mat K m n) : (conjM A).toM = A.toM.map star := by
  ext i j; simp

@[simp] theorem smul_get [Mul K] (c : K) (A : Mat K m n) (i : Fin m) (j : Fin n) :
    (A.smul c).get i j = c * A.get i j := by simp [Mat.smul]
@[simp] theorem add_get [Add K] (A B : Mat K m n) (i : Fin m) (j : Fin n) :
    (A.add B).get i j = A.get i j + B.get i j := by simp [Mat.add]
@[simp] theorem sub_get [Sub K] (A B : Mat K m n) (i : Fin m) (j : Fin n) :
    (A.sub B).get i j = A.get i j - B.get i j := by simp [Mat.sub]
@[simp] theorem one_get [Zero K] [One K] (i j : Fin n) :
    (Mat.one : Mat K n n).get i j = if i = j then 1 else 0 := by simp [Mat.one]
@[simp] theorem mul_get [NonUnitalNonAssocSemiring K] (A : Mat K m n) (B : Mat K n k)
    (i : Fin m) (j : Fin k) : (A.mul B).get i j = ∑ l, A.get i l * B.get l j := by
  simp [Mat.mul, fsum_eq_sum]
end bridge

set_option linter.unusedSectionVars false
section core
variable {K : Type} [Field K] [StarRing K] {d : Nat}

@[simp] theorem kron_get (A C : Mat K d d) (r c : Fin (d * d)) :
    (kron A C).get r c = A.get (p1 r) (p1 c) * C.get (p2 r) (p2 c) := by simp [kron]

@[simp] theorem flatten_get (A : Mat K d d) (r : Fin (d * d)) :
    (flatten A).get r = A.get (p1 r) (p2 r) := by simp [flatten]

@[simp] theorem unflatten_get (v : Vec K (d * d)) (i j : Fin d) :
    (unflatten v).get i j = v.get (pr i j) := by simp [unflatten]

theorem act_get (L : Mat K (d * d) (d * d)) (rho : Mat K d d) (i j : Fin d) :
    (act L rho).get i j = ∑ k, ∑ l, L.get (pr i j) (pr k l) * rho.get k l := by
  simp [act, Mat.mulVec, fsum_eq_sum, sum_pairs]

theorem act_add (L M : Mat K (d * d) (d * d)) (rho : Mat K d d) :
    (act (L.add M) rho).toM = (act L rho).toM + (act M rho).toM := by
  ext i j
  simp [act_get, add_mul, Finset.sum_add_distrib]

theorem act_sub (L M : Mat K (d * d) (d * d)) (rho : Mat K d d) :
    (act (L.sub M) rho).toM = (act L rho).toM - (act M rho).toM := by
  ext i j
  simp [act_get, sub_mul, Finset.sum_sub_distrib]

theorem act_smul (c : K) (L : Mat K (d * d) (d * d)) (rho : Mat K d d) :
    (act (L.smul c) rho).toM = c • (act L rho).toM := by
  ext i j
  simp [act_get, Finset.mul_sum, mul_assoc]

theorem act_msum {k : Nat} (f : Fin k → Mat K (d * d) (d * d)) (rho : Mat K d d) :
    (act (msum k f) rho).toM = ∑ a, (act (f a) rho).toM := by
  ext i j
  simp only [Mat.toM_apply, act_get, msum_get, Finset.sum_mul, Matrix.sum_apply]
  rw [Finset.sum_congr rfl (fun x _ => Finset.sum_comm)]
  rw [Finset.sum_comm]

/-- `(A ⊗ C) vec ρ = vec (A ρ Cᵀ)` in the row-major convention of the code -/
theorem act_kron (A C rho : Mat K d d) :
    (act (kron A C) rho).toM = A.toM * rho.toM * C.toMᵀ := by
  ext i j
  simp only [Mat.toM_apply, act_get, kron_get, p1_pr, p2_pr, Matrix.mul_apply,
    Matrix.transpose_apply, Finset.sum_mul]
  rw [Finset.sum_comm]
  apply Finset.sum_congr rfl; intro l _
  apply Finset.sum_congr rfl; intro k _
  ring

theorem act_kron_one_right (A rho : Mat K d d) :
    (act (kron A Mat.one) rho).toM = A.toM * rho.toM := by
  rw [act_kron]; simp

theorem act_kron_one_left (C rho : Mat K d d) :
    (act (kron Mat.one C) rho).toM = rho.toM * C.toMᵀ := by
  rw [act_kron]; simp

theorem toM_conjM_transpose (A : Mat K d d) : (conjM A).toMᵀ = A.toMᴴ := by
  ext i j; simp [Matrix.conjTranspose_apply]
end core


section gksl
variable {K : Type} [Field K] [StarRing K] [HasI K] {d : Nat}

/-- Mathlib matrix of a basis element -/
def Bm (B : Basis K d) (a : Fin (d * d)) : Matrix (Fin d) (Fin d) K := (B.get a).toM

theorem act_hPart (h rho : Mat K d d) :
    (act (hPart h) rho).toM = (-(ii : K)) • (h.toM * rho.toM - rho.toM * h.toMᴴ) := by
  unfold hPart
  rw [act_smul, act_sub, act_kron_one_right, act_kron_one_left, toM_conjM_transpose]

theorem act_jPart (j rho : Mat K d d) :
    (act (jPart j) rho).toM = j.toM * rho.toM + rho.toM * j.toMᴴ := by
  unfold jPart
  rw [act_add, act_kron_one_right, act_kron_one_left, toM_conjM_transpose]

theorem act_kPart (B : Basis K d) (k : Mat K (d * d - 1) (d * d - 1)) (rho : Mat K d d) :
    (act (kPart B k) rho).toM =
      ∑ a, ∑ b, k.get a b • (Bm B (suc a) * rho.toM * (Bm B (suc b))ᴴ) := by
  unfold kPart
  rw [act_msum]
  apply Finset.sum_congr rfl; intro a _
  rw [act_msum]
  apply Finset.sum_congr rfl; intro b _
  rw [act_smul, act_kron, toM_conjM_transpose]
  rfl

theorem jMatFromKMat_toM (B : Basis K d) (k : Mat K (d * d - 1) (d * d - 1)) :
    (jMatFromKMat B k).toM =
      (-(1 / (two : K))) • ∑ a, ∑ b, k.get a b • ((Bm B (suc b))ᴴ * Bm B (suc a)) := by
  unfold jMatFromKMat
  rw [Mat.toM_smul, toM_msum]
  congr 1
  apply Finset.sum_congr rfl; intro a _
  rw [toM_msum]
  apply Finset.sum_congr rfl; intro b _
  rw [Mat.toM_smul, Mat.toM_mul, toM_adj]
  rfl

theorem act_cbFromHjk (B : Basis K d) (h j : Mat K d d) (k : Mat K (d * d - 1) (d * d - 1))
    (rho : Mat K d d) :
    (act (cbFromHjk B h j k) rho).toM =
      (-(ii : K)) • (h.toM * rho.toM - rho.toM * h.toMᴴ) + (j.toM * rho.toM + rho.toM * j.toMᴴ)
      + ∑ a, ∑ b, k.get a b • (Bm B (suc a) * rho.toM * (Bm B (suc b))ᴴ) := by
  unfold cbFromHjk
  rw [act_add, act_add, act_hPart, act_jPart, act_kPart]

theorem cbFromHk_eq (B : Basis K d) (h : Mat K d d) (k : Mat K (d * d - 1) (d * d - 1)) :
    cbFromHk B h k = cbFromHjk B h (jMatFromKMat B k) k := rfl

theorem star_half : star (1 / (two : K)) = 1 / (two : K) := by
  simp [two]

/-- `Jᴴ` for `J = jMatFromKMat B k` with Hermitian `k` -/
theorem jMatFromKMat_conjTranspose (B : Basis K d) (k : Mat K (d * d - 1) (d * d - 1))
    (hk : ∀ a b, star (k.get b a) = k.get a b) :
    (jMatFromKMat B k).toMᴴ = (jMatFromKMat B k).toM := by
  rw [jMatFromKMat_toM, Matrix.conjTranspose_smul, star_neg, star_half,
    Matrix.conjTranspose_sum]
  congr 1
  rw [Finset.sum_comm]
  apply Finset.sum_congr rfl; intro a _
  rw [Matrix.conjTranspose_sum]
  apply Finset.sum_congr rfl; intro b _
  rw [Matrix.conjTranspose_smul, Matrix.conjTranspose_mul, Matrix.conjTranspose_conjTranspose, hk]
end gksl


section convert
variable {K : Type} [Field K] [StarRing K] {d : Nat}

/-- entry `(i,j)` of a basis element addressed by the flattened index -/
def Bf (B : Basis K d) (a r : Fin (d * d)) : K := (B.get a).get (p1 r) (p2 r)

theorem transMat_toHerm_get (B : Basis K d) (a r : Fin (d * d)) :
    (transMat (compBasis K d) B).get a r = star (Bf B a r) := by
  simp [transMat, vdot, compBasis, fsum_eq_sum, conj_eq_star, Bf, ite_and, Vec.get_ofFn]

theorem transMat_toComp_get (B : Basis K d) (a r : Fin (d * d)) :
    (transMat B (compBasis K d)).get r a = Bf B a r := by
  simp [transMat, vdot, compBasis, fsum_eq_sum, conj_eq_star, Bf, ite_and, Vec.get_ofFn, apply_ite]

theorem toHerm_get (B : Basis K d) (L : Mat K (d * d) (d * d)) (a b : Fin (d * d)) :
    (toHerm B L).get a b = ∑ c, ∑ r, star (Bf B a r) * L.get r c * Bf B b c := by
  simp [toHerm, convertHs, transMat_toHerm_get, Finset.sum_mul]

theorem toComp_get (B : Basis K d) (hs : Mat K (d * d) (d * d)) (r c : Fin (d * d)) :
    (toComp B hs).get r c = ∑ b, ∑ a, Bf B a r * hs.get a b * star (Bf B b c) := by
  simp [toComp, convertHs, transMat_toComp_get, Finset.sum_mul]

/-- first row of the Hermitian-basis matrix: `hs[0,β] = s̄ · tr L(B_β)` when `B_0 = s·1` -/
theorem toHerm_row0 (B : Basis K d) (L : Mat K (d * d) (d * d)) (z b : Fin (d * d)) (s : K)
    (hz : ∀ i j, (B.get z).get i j = if i = j then s else 0) :
    (toHerm B L).get z b = star s * (act L (B.get b)).toM.trace := by
  rw [toHerm_get]
  simp only [Matrix.trace, Matrix.diag_apply, Mat.toM_apply, act_get, Finset.mul_sum]
  rw [Finset.sum_comm]
  rw [sum_pairs]
  apply Finset.sum_congr rfl; intro i _
  rw [Finset.sum_eq_single i]
  · rw [sum_pairs]
    apply Finset.sum_congr rfl; intro k _
    apply Finset.sum_congr rfl; intro l _
    simp [Bf, hz, mul_assoc]
  · intro j _ hji
    apply Finset.sum_eq_zero; intro c _
    simp [Bf, hz, Ne.symm hji]
  · intro h; exact absurd (Finset.mem_univ i) h
end convert


section tp
variable {K : Type} [Field K] [StarRing K] [CharZero K] [HasI K] {d : Nat}

theorem two_ne_zero' : (two : K) ≠ 0 := by
  simp only [two]; norm_num

/-- the GKSL generator built from Hermitian `(h, k)` annihilates the trace -/
theorem trace_act_cbFromHk (B : Basis K d) (h : Mat K d d) (k : Mat K (d * d - 1) (d * d - 1))
    (hh : h.toMᴴ = h.toM) (hk : ∀ a b, star (k.get b a) = k.get a b) (rho : Mat K d d) :
    (act (cbFromHk B h k) rho).toM.trace = 0 := by
  rw [cbFromHk_eq, act_cbFromHjk, jMatFromKMat_conjTranspose B k hk, hh]
  simp only [Matrix.trace_add, Matrix.trace_smul, Matrix.trace_sub, Matrix.trace_sum]
  rw [Matrix.trace_mul_comm rho.toM h.toM, sub_self, smul_zero, zero_add,
    Matrix.trace_mul_comm rho.toM (jMatFromKMat B k).toM, jMatFromKMat_toM]
  simp only [Matrix.smul_mul, Matrix.trace_smul, Matrix.sum_mul, Matrix.trace_sum]
  have hc : ∀ a b, (Bm B (suc a) * rho.toM * (Bm B (suc b))ᴴ).trace =
      ((Bm B (suc b))ᴴ * Bm B (suc a) * rho.toM).trace := by
    intro a b
    rw [Matrix.trace_mul_comm, Matrix.mul_assoc]
  simp only [hc, smul_eq_mul]
  have h2 : (2 : K) ≠ 0 := two_ne_zero
  simp only [two]
  field_simp
  ring
end tp

section ordered
variable {R : Type} [Field R] [LinearOrder R] [IsStrictOrderedRing R] {n : Nat}

theorem projEq_get (hs : Mat R n n) (i j : Fin n) :
    (projEq hs).get i j = if i.val = 0 then 0 else hs.get i j := by simp [projEq]

theorem projEq_nearest_aux (hs Y : Mat R n n) (hY : ∀ i j, i.val = 0 → Y.get i j = 0) :
    ∑ i, ∑ j, (hs.get i j - (projEq hs).get i j) ^ 2 ≤ ∑ i, ∑ j, (hs.get i j - Y.get i j) ^ 2 := by
  apply Finset.sum_le_sum; intro i _
  apply Finset.sum_le_sum; intro j _
  rw [projEq_get]
  by_cases h0 : i.val = 0
  · simp [h0, hY i j h0]
  · have := sq_nonneg (hs.get i j - Y.get i j)
    simpa [h0] using this
end ordered

section expo
variable {R : Type} [Field R] {n : Nat}

theorem expLoop_row0 (L : Mat R n n) (z : Fin n) (hL : ∀ j, L.get z j = 0) (k : Nat) :
    (∀ j, (expLoop L k).1.get z j = if k = 0 then (if z = j then 1 else 0) else 0) ∧
    (∀ j, (expLoop L k).2.get z j = if z = j then 1 else 0) := by
  induction k with
  | zero => simp [expLoop]
  | succ k ih =>
    obtain ⟨ih1, ih2⟩ := ih
    have ht : ∀ j, ((expLoop L k).1.mul L).get z j = 0 := by
      intro j
      rw [mul_get]
      by_cases hk : k = 0
      · subst hk
        simp [expLoop, hL]
      · simp [ih1, hk]
    constructor
    · intro j
      simp [expLoop, ht]
    · intro j
      simp [expLoop, ht, ih2]
end expo


section extract
variable {K : Type} [Field K] [StarRing K] {d n : Nat}

theorem trMul_add_left (L M X : Mat K n n) : trMul (L.add M) X = trMul L X + trMul M X := by
  simp [trMul, fsum_eq_sum, add_mul, Finset.sum_add_distrib]
theorem trMul_sub_left (L M X : Mat K n n) : trMul (L.sub M) X = trMul L X - trMul M X := by
  simp [trMul, fsum_eq_sum, sub_mul, Finset.sum_sub_distrib]
theorem trMul_smul_left (c : K) (L X : Mat K n n) : trMul (L.smul c) X = c * trMul L X := by
  simp [trMul, fsum_eq_sum, Finset.mul_sum, mul_assoc]
theorem trMul_add_right (L X Y : Mat K n n) : trMul L (X.add Y) = trMul L X + trMul L Y := by
  simp [trMul, fsum_eq_sum, mul_add, Finset.sum_add_distrib]
theorem trMul_sub_right (L X Y : Mat K n n) : trMul L (X.sub Y) = trMul L X - trMul L Y := by
  simp [trMul, fsum_eq_sum, mul_sub, Finset.sum_sub_distrib]
theorem trMul_msum_left {k : Nat} (f : Fin k → Mat K n n) (X : Mat K n n) :
    trMul (msum k f) X = ∑ a, trMul (f a) X := by
  simp only [trMul, fsum_eq_sum, msum_get, Finset.sum_mul]
  rw [Finset.sum_congr rfl (fun x _ => Finset.sum_comm)]
  rw [Finset.sum_comm]

theorem trMul_kron_kron (X Y A C : Mat K d d) :
    trMul (kron X Y) (kron A C) = (X.toM * A.toM).trace * (Y.toM * C.toM).trace := by
  simp only [trMul, fsum_eq_sum, kron_get, Matrix.trace, Matrix.diag_apply, Matrix.mul_apply,
    Mat.toM_apply, sum_pairs, p1_pr, p2_pr]
  rw [Finset.sum_mul_sum]
  refine Finset.sum_congr rfl fun i _ => Finset.sum_congr rfl fun j _ => ?_
  rw [Finset.sum_mul_sum]
  refine Finset.sum_congr rfl fun k _ => Finset.sum_congr rfl fun l _ => ?_
  ring

theorem conjM_toM_of_herm (A : Mat K d d) (hA : A.toMᴴ = A.toM) : (conjM A).toM = A.toMᵀ := by
  have := toM_conjM_transpose A
  rw [hA] at this
  rw [← this, Matrix.transpose_transpose]

variable [HasI K]

/-- the trace pairing of the rebuilt comp-basis generator with a product operator -/
theorem trMul_cbFromHjk_kron (B : Basis K d) (h j : Mat K d d) (k : Mat K (d * d - 1) (d * d - 1))
    (hh : h.toMᴴ = h.toM) (hj : j.toMᴴ = j.toM) (hB : ∀ a, (Bm B a)ᴴ = Bm B a) (A C : Mat K d d) :
    trMul (cbFromHjk B h j k) (kron A C) =
      (-(ii : K)) * ((h.toM * A.toM).trace * C.toM.trace - A.toM.trace * (h.toMᵀ * C.toM).trace)
      + ((j.toM * A.toM).trace * C.toM.trace + A.toM.trace * (j.toMᵀ * C.toM).trace)
      + ∑ a, ∑ b, k.get a b * ((Bm B (suc a) * A.toM).trace * ((Bm B (suc b))ᵀ * C.toM).trace) := by
  unfold cbFromHjk hPart jPart kPart
  rw [trMul_add_left, trMul_add_left, trMul_smul_left, trMul_sub_left, trMul_add_left,
    trMul_kron_kron, trMul_kron_kron, trMul_kron_kron, trMul_kron_kron, trMul_msum_left,
    conjM_toM_of_herm h hh, conjM_toM_of_herm j hj]
  simp only [Mat.toM_one, Matrix.one_mul]
  congr 1
  apply Finset.sum_congr rfl; intro a _
  rw [trMul_msum_left]
  apply Finset.sum_congr rfl; intro b _
  rw [trMul_smul_left, trMul_kron_kron, conjM_toM_of_herm _ (hB (suc b))]
  rfl

/-- orthonormal Hermitian basis whose element `z` (index 0) is `s·1` — the implementation's
`is_orthonormal_hermitian_0thprop_identity` -/
structure ONH0 (B : Basis K d) (z : Fin (d * d)) (s : K) : Prop where
  herm : ∀ a, (Bm B a)ᴴ = Bm B a
  orth : ∀ a b, (Bm B a * Bm B b).trace = if a = b then 1 else 0
  b0 : Bm B z = s • (1 : Matrix (Fin d) (Fin d) K)
  z0 : z.val = 0
  snorm : s * s * (d : K) = 1

namespace ONH0
variable {B : Basis K d} {z : Fin (d * d)} {s : K} (hB : ONH0 B z s)
include hB

theorem s_ne : s ≠ 0 := by
  intro h; have := hB.snorm; simp [h] at this

theorem d_ne : (d : K) ≠ 0 := by
  intro h; have := hB.snorm; simp [h] at this

theorem trace_one : (1 : Matrix (Fin d) (Fin d) K).trace = (d : K) := by
  simp [Matrix.trace_one]

theorem trace_B (a : Fin (d * d)) : (Bm B a).trace = if a = z then s * (d : K) else 0 := by
  by_cases h : a = z
  · subst h; simp [hB.b0, Matrix.trace_smul, Matrix.trace_one]
  · have := hB.orth z a
    rw [hB.b0, Matrix.smul_mul, Matrix.one_mul, Matrix.trace_smul, if_neg (Ne.symm h)] at this
    simp only [smul_eq_mul, mul_eq_zero] at this
    rcases this with h0 | h0
    · exact absurd h0 hB.s_ne
    · simp [h, h0]

theorem suc_ne (a : Fin (d * d - 1)) : suc a ≠ z := by
  intro h
  have := congrArg Fin.val h
  simp [suc, hB.z0] at this

theorem trace_suc (a : Fin (d * d - 1)) : (Bm B (suc a)).trace = 0 := by
  rw [hB.trace_B, if_neg (hB.suc_ne a)]

theorem orth_T (a b : Fin (d * d)) : ((Bm B a)ᵀ * (Bm B b)ᵀ).trace = if a = b then 1 else 0 := by
  rw [← Matrix.transpose_mul, Matrix.trace_transpose, hB.orth b a]
  simp [eq_comm]
end ONH0

theorem suc_inj {a b : Fin (d * d - 1)} (h : suc a = suc b) : a = b := by
  apply Fin.ext
  have := congrArg Fin.val h
  simpa [suc] using this
end extract


section extract2
variable {K : Type} [Field K] [StarRing K] {d : Nat}

theorem toM_get_eq_Bm (B : Basis K d) (a : Fin (d * d)) : (B.get a).toM = Bm B a := rfl

theorem trace_T_mul_T (X Y : Matrix (Fin d) (Fin d) K) : (Xᵀ * Yᵀ).trace = (X * Y).trace := by
  rw [← Matrix.transpose_mul, Matrix.trace_transpose, Matrix.trace_mul_comm]

theorem suc_eq_iff {a b : Fin (d * d - 1)} : suc a = suc b ↔ a = b :=
  ⟨suc_inj, fun h => h ▸ rfl⟩

variable [HasI K]

/-- pairing with `B_a ⊗ 1` -/
theorem pair_left (B : Basis K d) (z : Fin (d * d)) (s : K) (hB : ONH0 B z s) (h j : Mat K d d)
    (k : Mat K (d * d - 1) (d * d - 1)) (hh : h.toMᴴ = h.toM) (hj : j.toMᴴ = j.toM) (a : Fin (d * d)) :
    trMul (cbFromHjk B h j k) (kron (B.get a) Mat.one) =
      (-(ii : K)) * ((h.toM * Bm B a).trace * (d : K) - (Bm B a).trace * h.toM.trace)
      + ((j.toM * Bm B a).trace * (d : K) + (Bm B a).trace * j.toM.trace) := by
  rw [trMul_cbFromHjk_kron B h j k hh hj hB.herm]
  simp only [Mat.toM_one, toM_get_eq_Bm, Matrix.mul_one, Matrix.trace_transpose, Matrix.trace_one,
    Fintype.card_fin, hB.trace_suc, mul_zero, Finset.sum_const_zero, add_zero]

/-- pairing with `1 ⊗ conj B_a` -/
theorem pair_right (B : Basis K d) (z : Fin (d * d)) (s : K) (hB : ONH0 B z s) (h j : Mat K d d)
    (k : Mat K (d * d - 1) (d * d - 1)) (hh : h.toMᴴ = h.toM) (hj : j.toMᴴ = j.toM) (a : Fin (d * d)) :
    trMul (cbFromHjk B h j k) (kron Mat.one (conjM (B.get a))) =
      (-(ii : K)) * (h.toM.trace * (Bm B a).trace - (d : K) * (h.toM * Bm B a).trace)
      + (j.toM.trace * (Bm B a).trace + (d : K) * (j.toM * Bm B a).trace) := by
  rw [trMul_cbFromHjk_kron B h j k hh hj hB.herm, conjM_toM_of_herm _ (hB.herm a)]
  simp only [Mat.toM_one, toM_get_eq_Bm, Matrix.mul_one, Matrix.trace_transpose, Matrix.trace_one,
    Fintype.card_fin, hB.trace_suc, zero_mul, mul_zero, Finset.sum_const_zero, add_zero,
    trace_T_mul_T]
end extract2


section matlevel
variable {K : Type} [Field K] [StarRing K] [HasI K] {d : Nat}

/-- the generated index glue of `calc_h_mat` instantiates the generic loop to the reference formula `hCoef` on the
whole basis (breaks when the source's loop range / sign / conjugation / coefficient changes) -/
theorem calcHMatCb_eq_ref (B : Basis K d) (L : Mat K (d * d) (d * d)) :
    calcHMatCb B L = msum (d * d) fun a => (B.get a).smul (hCoef B L a) := by
  apply Mat.ext'; intro i j
  simp [calcHMatCb, extractG, coefG, pairG, hCoef, QGen.C18.hLoopStart, QGen.C18.hDeltaAt, QGen.C18.hNumImag,
    QGen.C18.hDen, QGen.C18.hNegSecond, QGen.C18.hConjSecond, two, one_add_one_eq_two]

/-- the generated index glue of `calc_j_mat` instantiates the generic loop to the reference formula `jCoef` on the whole
basis with `delta` exactly on element 0 -/
theorem calcJMatCb_eq_ref (B : Basis K d) (L : Mat K (d * d) (d * d)) :
    calcJMatCb B L = msum (d * d) fun a => (B.get a).smul (jCoef B L a (decide (a.val = 0))) := by
  apply Mat.ext'; intro i j
  simp only [calcJMatCb, extractG, coefG, pairG, jCoef, QGen.C18.jLoopStart, QGen.C18.jDeltaAt, QGen.C18.jNumImag,
    QGen.C18.jDen, QGen.C18.jNegSecond, QGen.C18.jConjSecond, two, msum_get]
  apply Finset.sum_congr rfl; intro a _
  by_cases ha : a.val = 0
  · simp [ha, one_add_one_eq_two]
  · have ha' : ¬ (0 = a.val) := fun h => ha h.symm
    simp [ha, ha', one_add_one_eq_two]

theorem calcKMatCb_get (B : Basis K d) (L : Mat K (d * d) (d * d)) (a b : Fin (d * d - 1)) :
    (calcKMatCb B L).get a b = trMul L (kron (B.get (suc a)) (conjM (B.get (suc b)))) := by
  simp [calcKMatCb, QGen.C18.kConjSecond]

theorem calcHMatCb_toM (B : Basis K d) (L : Mat K (d * d) (d * d)) :
    (calcHMatCb B L).toM = ∑ a, hCoef B L a • Bm B a := by
  rw [calcHMatCb_eq_ref]
  rw [toM_msum]
  apply Finset.sum_congr rfl; intro a _
  rw [Mat.toM_smul]; rfl

theorem calcJMatCb_toM (B : Basis K d) (L : Mat K (d * d) (d * d)) :
    (calcJMatCb B L).toM = ∑ a, jCoef B L a (decide (a.val = 0)) • Bm B a := by
  rw [calcJMatCb_eq_ref]
  rw [toM_msum]
  apply Finset.sum_congr rfl; intro a _
  rw [Mat.toM_smul]; rfl

/-- completeness of the basis: every matrix is the sum of its components -/
def Complete (B : Basis K d) : Prop :=
  ∀ X : Matrix (Fin d) (Fin d) K, X = ∑ a, (X * Bm B a).trace • Bm B a

/-- completeness follows from orthonormality: the `d²×d²` matrix of flattened basis elements is square -/
theorem complete_of_onh0 (B : Basis K d) (z : Fin (d * d)) (s : K) (hB : ONH0 B z s) : Complete B := by
  set U : Matrix (Fin (d * d)) (Fin (d * d)) K := Matrix.of fun a r => star (Bf B a r) with hU
  have h1 : U * Uᴴ = 1 := by
    ext a b
    have := hB.orth a b
    rw [← hB.herm a] at this
    simp only [Matrix.trace, Matrix.diag_apply, Matrix.mul_apply, Matrix.conjTranspose_apply] at this
    rw [Finset.sum_comm] at this
    simp only [Matrix.mul_apply, Matrix.conjTranspose_apply, hU, Matrix.of_apply, star_star, Matrix.one_apply]
    rw [sum_pairs]
    simpa [Bf, Bm] using this
  have h2 : Uᴴ * U = 1 := mul_eq_one_comm.mp h1
  intro X
  ext i j
  have hc : ∀ k l, ∑ a, Bf B a (pr i j) * star (Bf B a (pr k l)) = if pr i j = pr k l then 1 else 0 := by
    intro k l
    have := congrFun (congrFun h2 (pr i j)) (pr k l)
    simpa [Matrix.mul_apply, Matrix.conjTranspose_apply, hU, Matrix.one_apply] using this
  have hherm : ∀ a k l, Bm B a l k = star (Bm B a k l) := by
    intro a k l
    have := congrFun (congrFun (hB.herm a) l) k
    simpa [Matrix.conjTranspose_apply] using this.symm
  have hpr : ∀ k l, (pr i j = pr k l) ↔ (i = k ∧ j = l) := fun k l =>
    ⟨pr_inj, fun h => by rw [h.1, h.2]⟩
  symm
  calc (∑ a, (X * Bm B a).trace • Bm B a) i j
      = ∑ a, ∑ k, ∑ l, X k l * (Bf B a (pr i j) * star (Bf B a (pr k l))) := by
        simp only [Matrix.sum_apply, Matrix.smul_apply, smul_eq_mul, Matrix.trace, Matrix.diag_apply,
          Matrix.mul_apply, Finset.sum_mul]
        refine Finset.sum_congr rfl fun a _ => Finset.sum_congr rfl fun k _ =>
          Finset.sum_congr rfl fun l _ => ?_
        simp only [Bf, p1_pr, p2_pr]
        rw [hherm a k l]
        simp only [Bm, Mat.toM_apply]
        ring
    _ = ∑ k, ∑ l, X k l * ∑ a, (Bf B a (pr i j) * star (Bf B a (pr k l))) := by
        rw [Finset.sum_comm]
        refine Finset.sum_congr rfl fun k _ => ?_
        rw [Finset.sum_comm]
        refine Finset.sum_congr rfl fun l _ => ?_
        rw [Finset.mul_sum]
    _ = X i j := by
        simp only [hc, hpr, ite_and, mul_ite, mul_one, mul_zero]
        simp [Finset.sum_ite_eq]

theorem eq_zero_of_toM {m n : Nat} (A : Mat K m n) (h : A.toM = 0) : A = Mat.zero := by
  apply Mat.toM_injective; rw [h, Mat.toM_zero]
end matlevel


section expo_mathlib
open NormedSpace
open scoped Matrix.Norms.Operator

theorem pow_row0 {n : Type} [Fintype n] [DecidableEq n] (L : Matrix n n ℝ) (z : n) (hL : ∀ j, L z j = 0)
    (k : ℕ) (j : n) : (L ^ (k + 1)) z j = 0 := by
  rw [pow_succ', Matrix.mul_apply]
  apply Finset.sum_eq_zero; intro l _
  rw [hL l, zero_mul]

theorem exp_row0 {n : Type} [Fintype n] [DecidableEq n] (L : Matrix n n ℝ) (z : n) (hL : ∀ j, L z j = 0)
    (j : n) : (exp L) z j = if z = j then 1 else 0 := by
  have hs : HasSum (fun k : ℕ => ((k.factorial : ℝ)⁻¹) • L ^ k) (exp L) := exp_series_hasSum_exp' (𝕂 := ℝ) L
  have hc : Continuous fun A : Matrix n n ℝ => A z j := by fun_prop
  let φ : Matrix n n ℝ →+ ℝ := { toFun := fun A => A z j, map_zero' := rfl, map_add' := fun _ _ => rfl }
  have hs2 := hs.map φ hc
  have h0 : HasSum (fun k : ℕ => φ (((k.factorial : ℝ)⁻¹) • L ^ k)) (if z = j then 1 else 0) := by
    have : (fun k : ℕ => φ (((k.factorial : ℝ)⁻¹) • L ^ k)) = fun k => if k = 0 then (if z = j then (1:ℝ) else 0) else 0 := by
      funext k
      cases k with
      | zero =>
        show ((((Nat.factorial 0 : ℕ) : ℝ)⁻¹) • L ^ 0) z j = _
        simp [Matrix.one_apply]
      | succ k =>
        show ((((Nat.factorial (k + 1) : ℕ) : ℝ)⁻¹) • L ^ (k + 1)) z j = _
        rw [Matrix.smul_apply, pow_row0 L z hL k j, smul_zero]
        simp
    rw [this]
    exact hasSum_ite_eq 0 _
  exact hs2.unique h0

/-- the executed partial sums are the partial sums of Mathlib's exponential series -/
theorem expLoop_toM {n : Nat} (L : Mat ℝ n n) (k : Nat) :
    (expLoop L k).1.toM = ((k.factorial : ℝ)⁻¹) • L.toM ^ k ∧
    (expLoop L k).2.toM = ∑ i ∈ Finset.range (k + 1), ((i.factorial : ℝ)⁻¹) • L.toM ^ i := by
  induction k with
  | zero => simp [expLoop]
  | succ k ih =>
    obtain ⟨ih1, ih2⟩ := ih
    have h1 : (expLoop L (k + 1)).1.toM = (((k + 1).factorial : ℝ)⁻¹) • L.toM ^ (k + 1) := by
      simp only [expLoop, Mat.toM_smul, Mat.toM_mul, ih1, Matrix.smul_mul, smul_smul, pow_succ]
      congr 1
      rw [Nat.factorial_succ]
      push_cast
      field_simp
    refine ⟨h1, ?_⟩
    rw [Finset.sum_range_succ, ← ih2, ← h1]
    simp [expLoop]
end expo_mathlib

section choi
open scoped ComplexOrder
variable {d : Nat}

/-- `V[(i,k), a] = B_{a+1}[k, i]`: the flattened traceless basis elements as columns -/
def vecB (B : Basis ℂ d) : Matrix (Fin (d * d)) (Fin (d * d - 1)) ℂ :=
  Matrix.of fun r a => (B.get (suc a)).get (p2 r) (p1 r)

theorem choiCb_kPart (B : Basis ℂ d) (k : Mat ℂ (d * d - 1) (d * d - 1)) :
    (choiCb (kPart B k)).toM = vecB B * k.toM * (vecB B)ᴴ := by
  ext r c
  simp only [choiCb, kPart, Mat.toM_apply, Mat.get_ofFn, msum_get, smul_get, kron_get, conjM_get, p1_pr, p2_pr,
    Matrix.mul_apply, Matrix.conjTranspose_apply, vecB, Matrix.of_apply, Finset.sum_mul]
  rw [Finset.sum_comm]
  refine Finset.sum_congr rfl fun b _ => Finset.sum_congr rfl fun a _ => ?_
  ring

theorem choiCb_kPart_psd (B : Basis ℂ d) (k : Mat ℂ (d * d - 1) (d * d - 1)) (hk : k.toM.PosSemidef) :
    (choiCb (kPart B k)).toM.PosSemidef := by
  rw [choiCb_kPart]
  exact hk.mul_mul_conjTranspose_same (vecB B)

theorem vecB_orthonormal (B : Basis ℂ d) (z : Fin (d * d)) (s : ℂ) (hB : ONH0 B z s) :
    (vecB B)ᴴ * vecB B = 1 := by
  ext a b
  have h := hB.orth (suc a) (suc b)
  rw [← hB.herm (suc a)] at h
  simp only [Matrix.trace, Matrix.diag_apply, Matrix.mul_apply, Matrix.conjTranspose_apply] at h
  simp only [Matrix.mul_apply, Matrix.conjTranspose_apply, vecB, Matrix.of_apply, Matrix.one_apply]
  rw [sum_pairs]
  simp only [p1_pr, p2_pr]
  rw [show (if a = b then (1 : ℂ) else 0) = if suc a = suc b then 1 else 0 by simp [suc_eq_iff]]
  rw [← h]
  rfl

theorem psd_of_choiCb_kPart_psd (B : Basis ℂ d) (z : Fin (d * d)) (s : ℂ) (hB : ONH0 B z s)
    (k : Mat ℂ (d * d - 1) (d * d - 1)) (h : (choiCb (kPart B k)).toM.PosSemidef) : k.toM.PosSemidef := by
  have h1 := h.conjTranspose_mul_mul_same (vecB B)
  rw [choiCb_kPart] at h1
  have h2 : (vecB B)ᴴ * (vecB B * k.toM * (vecB B)ᴴ) * vecB B
      = ((vecB B)ᴴ * vecB B) * k.toM * ((vecB B)ᴴ * vecB B) := by
    simp only [Matrix.mul_assoc]
  rw [h2, vecB_orthonormal B z s hB, Matrix.one_mul, Matrix.mul_one] at h1
  exact h1
end choi

/-! ## the executed scalars form a field: the polymorphic theorems apply literally to the driver's instance -/
namespace CRat
@[ext] theorem ext' {a b : CRat} (h1 : a.re = b.re) (h2 : a.im = b.im) : a = b := by
  cases a; cases b; simp_all
@[simp] theorem add_re (a b : CRat) : (a + b).re = a.re + b.re := rfl
@[simp] theorem add_im (a b : CRat) : (a + b).im = a.im + b.im := rfl
@[simp] theorem sub_re (a b : CRat) : (a - b).re = a.re - b.re := rfl
@[simp] theorem sub_im (a b : CRat) : (a - b).im = a.im - b.im := rfl
@[simp] theorem neg_re (a : CRat) : (-a).re = -a.re := rfl
@[simp] theorem neg_im (a : CRat) : (-a).im = -a.im := rfl
@[simp] theorem mul_re (a b : CRat) : (a * b).re = a.re * b.re - a.im * b.im := rfl
@[simp] theorem mul_im (a b : CRat) : (a * b).im = a.re * b.im + a.im * b.re := rfl
@[simp] theorem zero_re : (0 : CRat).re = 0 := rfl
@[simp] theorem zero_im : (0 : CRat).im = 0 := rfl
@[simp] theorem one_re : (1 : CRat).re = 1 := rfl
@[simp] theorem one_im : (1 : CRat).im = 0 := rfl
@[simp] theorem natCast_re (n : ℕ) : ((n : CRat)).re = (n : ℚ) := rfl
@[simp] theorem natCast_im (n : ℕ) : ((n : CRat)).im = 0 := rfl
@[simp] theorem div_re (a b : CRat) : (a / b).re = (a.re * b.re + a.im * b.im) / (b.re * b.re + b.im * b.im) := rfl
@[simp] theorem div_im (a b : CRat) : (a / b).im = (a.im * b.re - a.re * b.im) / (b.re * b.re + b.im * b.im) := rfl
@[simp] theorem conj_re (a : CRat) : (conj a).re = a.re := rfl
@[simp] theorem conj_im (a : CRat) : (conj a).im = -a.im := rfl

instance : Inv CRat := ⟨fun a => 1 / a⟩
@[simp] theorem inv_re (a : CRat) : (a⁻¹).re = a.re / (a.re * a.re + a.im * a.im) := by
  show (1 / a).re = _; simp
@[simp] theorem inv_im (a : CRat) : (a⁻¹).im = -a.im / (a.re * a.re + a.im * a.im) := by
  show (1 / a).im = _; simp

theorem abs2_pos {a : CRat} (h : a ≠ 0) : 0 < a.re * a.re + a.im * a.im := by
  by_contra hc
  have h0 : a.re * a.re + a.im * a.im = 0 :=
    le_antisymm (not_lt.mp hc) (add_nonneg (mul_self_nonneg _) (mul_self_nonneg _))
  have hr : a.re = 0 := by nlinarith [mul_self_nonneg a.re, mul_self_nonneg a.im]
  have hi : a.im = 0 := by nlinarith [mul_self_nonneg a.re, mul_self_nonneg a.im]
  exact h (ext' hr hi)

/-- the complex rationals of the executable model form a field (all operations are the model's own instances) -/
instance instField : Field CRat where
  add := (· + ·)
  zero := 0
  neg := Neg.neg
  sub := (· - ·)
  mul := (· * ·)
  one := 1
  inv := Inv.inv
  div := (· / ·)
  natCast n := (n : CRat)
  add_assoc a b c := by ext <;> simp <;> ring
  zero_add a := by ext <;> simp
  add_zero a := by ext <;> simp
  add_comm a b := by ext <;> simp <;> ring
  neg_add_cancel a := by ext <;> simp
  sub_eq_add_neg a b := by ext <;> simp <;> ring
  mul_assoc a b c := by ext <;> simp <;> ring
  one_mul a := by ext <;> simp
  mul_one a := by ext <;> simp
  left_distrib a b c := by ext <;> simp <;> ring
  right_distrib a b c := by ext <;> simp <;> ring
  mul_comm a b := by ext <;> simp <;> ring
  zero_mul a := by ext <;> simp
  mul_zero a := by ext <;> simp
  natCast_zero := by ext <;> simp
  natCast_succ n := by ext <;> simp
  nsmul := nsmulRec
  zsmul := zsmulRec
  exists_pair_ne := ⟨0, 1, by intro h; have := congrArg CRat.re h; simp at this⟩
  mul_inv_cancel a h := by
    have hp := abs2_pos h
    have hne : a.re * a.re + a.im * a.im ≠ 0 := ne_of_gt hp
    ext
    · simp only [mul_re, inv_re, inv_im, one_re]
      rw [show a.re * (a.re / (a.re * a.re + a.im * a.im)) - a.im * (-a.im / (a.re * a.re + a.im * a.im))
        = (a.re * a.re + a.im * a.im) / (a.re * a.re + a.im * a.im) by ring]
      exact div_self hne
    · simp only [mul_im, inv_re, inv_im, one_im]
      field_simp
      ring
  inv_zero := by ext <;> simp
  div_eq_mul_inv a b := by ext <;> simp <;> ring
  nnqsmul := _
  nnqsmul_def := fun _ _ => rfl
  qsmul := _
  qsmul_def := fun _ _ => rfl
  nnratCast_def := fun _ => rfl
  ratCast_def := fun _ => rfl

instance instStar : Star CRat := ⟨conj⟩
@[simp] theorem star_re (a : CRat) : (star a).re = a.re := rfl
@[simp] theorem star_im (a : CRat) : (star a).im = -a.im := rfl

instance instStarRing : StarRing CRat where
  star_involutive a := by ext <;> simp
  star_mul a b := by ext <;> simp <;> ring
  star_add a b := by ext <;> simp <;> ring

instance instCharZero : CharZero CRat where
  cast_injective m n h := by
    have := congrArg CRat.re h
    simpa using this

theorem ii_mul_ii : (ii : CRat) * ii = -1 := by ext <;> simp [ii, HasI.ii]

/-- the embedding of the complex rationals into `ℂ` -/
def toC : CRat →+* ℂ where
  toFun a := ⟨(a.re : ℝ), (a.im : ℝ)⟩
  map_one' := by apply Complex.ext <;> simp
  map_mul' a b := by apply Complex.ext <;> simp [Complex.mul_re, Complex.mul_im]
  map_zero' := by apply Complex.ext <;> simp
  map_add' a b := by apply Complex.ext <;> simp

@[simp] theorem toC_re (a : CRat) : (toC a).re = (a.re : ℝ) := rfl
@[simp] theorem toC_im (a : CRat) : (toC a).im = (a.im : ℝ) := rfl
theorem toC_star (a : CRat) : toC (star a) = star (toC a) := by
  apply Complex.ext <;> simp
end CRat


section roundtrip
variable {K : Type} [Field K] [StarRing K] {d : Nat}

/-- completeness in flattened form: `Σ_a B_a[r] · conj B_a[c] = δ_rc` -/
theorem flat_complete [HasI K] (B : Basis K d) (z : Fin (d * d)) (s : K) (hB : ONH0 B z s) (r c : Fin (d * d)) :
    ∑ a, Bf B a r * star (Bf B a c) = if r = c then 1 else 0 := by
  set U : Matrix (Fin (d * d)) (Fin (d * d)) K := Matrix.of fun a r => star (Bf B a r) with hU
  have h1 : U * Uᴴ = 1 := by
    ext a b
    have := hB.orth a b
    rw [← hB.herm a] at this
    simp only [Matrix.trace, Matrix.diag_apply, Matrix.mul_apply, Matrix.conjTranspose_apply] at this
    rw [Finset.sum_comm] at this
    simp only [Matrix.mul_apply, Matrix.conjTranspose_apply, hU, Matrix.of_apply, star_star, Matrix.one_apply]
    rw [sum_pairs]
    simpa [Bf, Bm] using this
  have h2 : Uᴴ * U = 1 := mul_eq_one_comm.mp h1
  have := congrFun (congrFun h2 r) c
  simpa [Matrix.mul_apply, Matrix.conjTranspose_apply, hU, Matrix.one_apply] using this

/-- `convert_hs` there and back: comp basis → Hermitian basis → comp basis is the identity (orthonormal basis) -/
theorem toComp_toHerm [HasI K] (B : Basis K d) (z : Fin (d * d)) (s : K) (hB : ONH0 B z s)
    (L : Mat K (d * d) (d * d)) : toComp B (toHerm B L) = L := by
  apply Mat.ext'; intro r c
  rw [toComp_get]
  simp only [toHerm_get]
  have key : ∀ r' c', (∑ b, ∑ a, Bf B a r * (star (Bf B a r') * L.get r' c' * Bf B b c') * star (Bf B b c))
      = (∑ a, Bf B a r * star (Bf B a r')) * L.get r' c' * (∑ b, Bf B b c' * star (Bf B b c)) := by
    intro r' c'
    rw [Finset.sum_mul, Finset.sum_mul, Finset.sum_comm]
    apply Finset.sum_congr rfl; intro a _
    rw [Finset.mul_sum]
    apply Finset.sum_congr rfl; intro b _
    ring
  calc (∑ b, ∑ a, Bf B a r * (∑ c', ∑ r', star (Bf B a r') * L.get r' c' * Bf B b c') * star (Bf B b c))
      = ∑ c', ∑ r', (∑ b, ∑ a, Bf B a r * (star (Bf B a r') * L.get r' c' * Bf B b c') * star (Bf B b c)) := by
        simp only [Finset.mul_sum, Finset.sum_mul]
        rw [Finset.sum_comm]
        conv_lhs => arg 2; ext a; rw [Finset.sum_comm]
        rw [Finset.sum_comm]
        apply Finset.sum_congr rfl; intro c' _
        conv_lhs => arg 2; ext a; rw [Finset.sum_comm]
        rw [Finset.sum_comm]
        apply Finset.sum_congr rfl; intro r' _
        rw [Finset.sum_comm]
    _ = L.get r c := by
        simp only [key, flat_complete B z s hB]
        simp [Finset.sum_ite_eq, eq_comm]
end roundtrip

section cmap
/-- entrywise embedding of complex-rational matrices into `ℂ` -/
def mapC {m n : Nat} (A : Mat CRat m n) : Matrix (Fin m) (Fin n) ℂ := A.toM.map CRat.toC

theorem mapC_apply {m n : Nat} (A : Mat CRat m n) (i : Fin m) (j : Fin n) : mapC A i j = CRat.toC (A.get i j) := rfl
theorem mapC_mul {m n k : Nat} (A : Mat CRat m n) (B : Mat CRat n k) : mapC (A.mul B) = mapC A * mapC B := by
  simp [mapC, Mat.toM_mul, Matrix.map_mul]
theorem mapC_sub {m n : Nat} (A B : Mat CRat m n) : mapC (A.sub B) = mapC A - mapC B := by
  ext i j; simp [mapC, Mat.sub]
theorem mapC_adj {m n : Nat} (A : Mat CRat m n) : mapC (adj A) = (mapC A)ᴴ := by
  ext i j
  simp only [mapC, Matrix.map_apply, Mat.toM_apply, Matrix.conjTranspose_apply]
  rw [show (adj A).get i j = star (A.get j i) from by simp [adj]; rfl]
  exact CRat.toC_star _
theorem mapC_one {n : Nat} : mapC (Mat.one : Mat CRat n n) = 1 := by
  ext i j; simp [mapC, Mat.one, Matrix.one_apply, apply_ite]

theorem mapC_clipK {n : Nat} (lam : Vec CRat n) (V : Mat CRat n n) :
    mapC (clipK lam V) = mapC V * Matrix.diagonal (fun i => CRat.toC (if cltZero (lam.get i) then 0 else lam.get i))
      * (mapC V)ᴴ := by
  unfold clipK
  rw [mapC_mul, mapC_mul, mapC_adj]
  congr 2
  ext i j
  by_cases h : i = j
  · subst h; simp [mapC, diagC, Vec.get_ofFn]
  · simp [mapC, diagC, h]

open scoped ComplexOrder in
/-- the clipped dissipator matrix of `calc_proj_ineq_constraint` is PSD whenever numpy's eigenvalues are real — for
ANY eigenvector matrix `V` (no unitarity needed) -/
theorem mapC_clipK_psd {n : Nat} (lam : Vec CRat n) (V : Mat CRat n n) (hre : ∀ i, (lam.get i).im = 0) :
    (mapC (clipK lam V)).PosSemidef := by
  rw [mapC_clipK]
  have hd : (fun i => CRat.toC (if cltZero (lam.get i) then 0 else lam.get i))
      = fun i => (((max ((lam.get i).re : ℝ) 0 : ℝ)) : ℂ) := by
    funext i
    apply Complex.ext
    · by_cases hc : cltZero (lam.get i) = true
      · have : (lam.get i).re < 0 := by
          simp only [cltZero, decide_eq_true_eq] at hc
          rcases hc with h | ⟨_, h⟩
          · exact h
          · rw [hre i] at h; exact absurd h (lt_irrefl _)
        have h' : ((lam.get i).re : ℝ) ≤ 0 := by exact_mod_cast le_of_lt this
        simp [hc, max_eq_right h']
      · have hge : 0 ≤ (lam.get i).re := by
          simp only [cltZero, decide_eq_true_eq, not_or, not_lt] at hc
          exact hc.1
        have h' : (0 : ℝ) ≤ ((lam.get i).re : ℝ) := by exact_mod_cast hge
        simp [hc, max_eq_left h']
    · by_cases hc : cltZero (lam.get i) = true <;> simp [hc, hre i]
  rw [hd]
  exact QM.Psd.conj_diag_psd (𝕜 := ℂ) (mapC V) (fun i => max ((lam.get i).re : ℝ) 0) (fun i => le_max_right _ _)
end cmap

section jump
variable {K : Type} [Field K] [StarRing K] {d : Nat}

theorem act_foldl_add (xs : List (Mat K (d * d) (d * d))) (x : Mat K (d * d) (d * d)) (rho : Mat K d d) :
    (act (xs.foldl Mat.add x) rho).toM = (act x rho).toM + (xs.map fun y => (act y rho).toM).sum := by
  induction xs generalizing x with
  | nil => simp
  | cons y ys ih => simp [List.foldl_cons, ih, act_add, add_assoc]

/-- action of `reduce(add, [f(c) for c in cs])` for a non-empty list -/
theorem act_lsumM_map (f : Mat K d d → Mat K (d * d) (d * d)) (c : Mat K d d) (cs : List (Mat K d d)) (rho : Mat K d d) :
    ∃ L, lsumM ((c :: cs).map f) = some L ∧ (act L rho).toM = ((c :: cs).map fun x => (act (f x) rho).toM).sum := by
  refine ⟨(cs.map f).foldl Mat.add (f c), rfl, ?_⟩
  rw [act_foldl_add]
  simp [List.map_map, Function.comp_def]
end jump

section hermmode
variable {K : Type} [Field K] [StarRing K] {d : Nat}

/-- `convert_hs` to the Hermitian basis is additive -/
theorem toHerm_add (B : Basis K d) (L M : Mat K (d * d) (d * d)) :
    toHerm B (L.add M) = (toHerm B L).add (toHerm B M) := by
  apply Mat.ext'; intro a b
  simp only [add_get, toHerm_get, mul_add, add_mul, Finset.sum_add_distrib]

/-- a comp-basis superoperator is determined by its action on the matrix units -/
theorem act_ext (L M : Mat K (d * d) (d * d)) (h : ∀ rho : Mat K d d, (act L rho).toM = (act M rho).toM) : L = M := by
  apply Mat.ext'; intro r c
  have := congrFun (congrFun (h (Mat.ofFn fun a b => if a = p1 c ∧ b = p2 c then 1 else 0)) (p1 r)) (p2 r)
  simp only [Mat.toM_apply, act_get, Mat.get_ofFn, pr_p1_p2] at this
  have e : ∀ N : Mat K (d * d) (d * d), (∑ k, ∑ l, N.get r (pr k l) * (if k = p1 c ∧ l = p2 c then (1 : K) else 0)) = N.get r c := by
    intro N
    rw [Finset.sum_eq_single (p1 c), Finset.sum_eq_single (p2 c)]
    · simp
    · intro l _ hl; simp [hl]
    · intro hx; exact absurd (Finset.mem_univ _) hx
    · intro k _ hk
      apply Finset.sum_eq_zero; intro l _; simp [hk]
    · intro hx; exact absurd (Finset.mem_univ _) hx
  rwa [e L, e M] at this
end hermmode

section examples
/-- the basis `{(1)}` of the one-dimensional system -/
def basis1 : Basis ℂ 1 := Vec.ofFn fun _ => Mat.one

theorem Bm_basis1 (a : Fin (1 * 1)) : Bm basis1 a = 1 := by
  simp [Bm, basis1, Vec.get_ofFn]

theorem onh0_basis1 : ONH0 basis1 ⟨0, by decide⟩ (1 : ℂ) where
  herm a := by simp [Bm_basis1]
  orth a b := by
    have : a = b := by apply Fin.ext; have := a.isLt; have := b.isLt; omega
    simp [Bm_basis1, this]
  b0 := by simp [Bm_basis1]
  z0 := rfl
  snorm := by simp

/-- the jump operator `c = (2)` of the one-dimensional system -/
def c2 : Mat ℂ 1 1 := Mat.ofFn fun _ _ => 2


theorem rabs_eq_abs (x : ℚ) : rabs x = |x| := by
  unfold rabs
  split_ifs with h
  · rw [abs_of_neg h]
  · rw [abs_of_nonneg (not_lt.mp h)]


/-! ### a non-degenerate instance of `ONH0`: the normalised Pauli basis of one qubit over `ℂ` -/
/-- `1/√2` -/
noncomputable def sP : ℂ := ((Real.sqrt 2)⁻¹ : ℝ)

theorem sP_mul_self : sP * sP = 1 / 2 := by
  unfold sP
  rw [← Complex.ofReal_mul, ← mul_inv, Real.mul_self_sqrt (by norm_num)]
  norm_num

theorem star_sP : star sP = sP := by
  unfold sP; exact Complex.conj_ofReal _

/-- Pauli matrices `I, X, Y, Z` by index -/
def sigma (a : Nat) (i j : Nat) : ℂ :=
  match a, i, j with
  | 0, 0, 0 => 1 | 0, 1, 1 => 1
  | 1, 0, 1 => 1 | 1, 1, 0 => 1
  | 2, 0, 1 => -Complex.I | 2, 1, 0 => Complex.I
  | 3, 0, 0 => 1 | 3, 1, 1 => -1
  | _, _, _ => 0

/-- the normalised Pauli basis `σ_a/√2` of one qubit -/
noncomputable def basisPauli : Basis ℂ 2 :=
  Vec.ofFn fun a => Mat.ofFn fun i j => sP * sigma a.val i.val j.val

theorem Bm_basisPauli (a : Fin (2 * 2)) (i j : Fin 2) :
    Bm basisPauli a i j = sP * sigma a.val i.val j.val := by
  simp [Bm, basisPauli, Vec.get_ofFn]

theorem onh0_basisPauli : ONH0 basisPauli ⟨0, by decide⟩ sP where
  herm a := by
    ext i j
    rw [Matrix.conjTranspose_apply, Bm_basisPauli, Bm_basisPauli, star_mul', star_sP]
    congr 1
    fin_cases a <;> fin_cases i <;> fin_cases j <;> simp [sigma]
  orth a b := by
    simp only [Matrix.trace, Matrix.diag_apply, Matrix.mul_apply, Bm_basisPauli, Fin.sum_univ_two]
    have h := sP_mul_self
    fin_cases a <;> fin_cases b <;> simp [sigma] <;>
      first
        | linear_combination (exp := 1) 2 * h
        | linear_combination (exp := 1) 2 * h - 2 * sP ^ 2 * Complex.I_sq
  b0 := by
    ext i j
    rw [Bm_basisPauli]
    fin_cases i <;> fin_cases j <;> simp [sigma, Matrix.one_apply]
  z0 := rfl
  snorm := by
    rw [sP_mul_self]; norm_num

/-- the Pauli matrix `X` as a model matrix (a Hermitian, traceless test Hamiltonian) -/
def matX : Mat ℂ 2 2 := Mat.ofFn fun i j => sigma 1 i.val j.val

theorem matX_herm : matX.toMᴴ = matX.toM := by
  ext i j
  fin_cases i <;> fin_cases j <;> simp [matX, sigma, Matrix.conjTranspose_apply]

/-! ### a non-degenerate instance of `ONH0` over the EXECUTED scalars: two qubits, `σ_a ⊗ σ_b / 2` (exact in `CRat`) -/
/-- executable check of `ONH0` over the complex rationals -/
def onh0Check {d : Nat} (B : Basis CRat d) (z : Fin (d * d)) (s : CRat) : Bool :=
  ((List.finRange (d * d)).all fun a => (List.finRange d).all fun i => (List.finRange d).all fun j =>
      decide (conj ((B.get a).get j i) = (B.get a).get i j)) &&
  ((List.finRange (d * d)).all fun a => (List.finRange (d * d)).all fun b =>
      decide ((fsum d fun i => fsum d fun j => (B.get a).get i j * (B.get b).get j i) = if a = b then 1 else 0)) &&
  ((List.finRange d).all fun i => (List.finRange d).all fun j =>
      decide ((B.get z).get i j = if i = j then s else 0)) &&
  decide (z.val = 0) && decide (s * s * (d : CRat) = 1)

theorem onh0_of_check {d : Nat} (B : Basis CRat d) (z : Fin (d * d)) (s : CRat) (h : onh0Check B z s = true) :
    ONH0 B z s := by
  simp only [onh0Check, Bool.and_eq_true, List.all_eq_true, List.mem_finRange, forall_const, decide_eq_true_eq] at h
  obtain ⟨⟨⟨⟨h1, h2⟩, h3⟩, h4⟩, h5⟩ := h
  refine ⟨?_, ?_, ?_, h4, h5⟩
  · intro a; apply Matrix.ext; intro i j
    simp only [Matrix.conjTranspose_apply, Bm, Mat.toM_apply]
    exact h1 a i j
  · intro a b
    have := h2 a b
    simp only [fsum_eq_sum] at this
    simpa [Matrix.trace, Matrix.mul_apply, Bm] using this
  · apply Matrix.ext; intro i j
    simp only [Bm, Mat.toM_apply, Matrix.smul_apply, Matrix.one_apply, smul_eq_mul]
    rw [h3 i j]; split_ifs <;> simp

/-- single-qubit Pauli entries over `CRat` -/
def sigmaQ (a i j : Nat) : CRat :=
  match a, i, j with
  | 0, 0, 0 => 1 | 0, 1, 1 => 1
  | 1, 0, 1 => 1 | 1, 1, 0 => 1
  | 2, 0, 1 => ⟨0, -1⟩ | 2, 1, 0 => ⟨0, 1⟩
  | 3, 0, 0 => 1 | 3, 1, 1 => ⟨-1, 0⟩
  | _, _, _ => 0

/-- the normalised two-qubit Pauli basis `σ_a ⊗ σ_b / 2` — exact over the complex rationals (`s = 1/2`) -/
def basisPauli2 : Basis CRat 4 :=
  Vec.ofFn fun a => Mat.ofFn fun i j =>
    (⟨1/2, 0⟩ : CRat) * (sigmaQ (a.val / 4) (i.val / 2) (j.val / 2) * sigmaQ (a.val % 4) (i.val % 2) (j.val % 2))

theorem onh0_basisPauli2 : ONH0 basisPauli2 ⟨0, by decide⟩ (⟨1/2, 0⟩ : CRat) :=
  onh0_of_check _ _ _ (by decide +kernel)

theorem one_mul_diagC_adj_one {n : Nat} (lam : Vec CRat n) :
    ((Mat.one : Mat CRat n n).mul (diagC lam)).mul (adj Mat.one) = diagC lam := by
  apply Mat.toM_injective
  rw [Mat.toM_mul, Mat.toM_mul, toM_adj, Mat.toM_one]
  simp
end examples

end QM.C18
