import QModel.C03
import Mathlib.Tactic.Ring
import Mathlib.Tactic.Linarith
import Mathlib.Algebra.Ring.Defs
/-!
# C03 — helper lemmas (floor division facts, free-entry predicates, bijectivity of the GENERATED index maps,
numpy reshape/flatten lemmas, generated `num_variables_*` as natural numbers)
-/
open QGen.C03
namespace QM.C03
variable {K : Type}

/-! ## floor division -/
theorem fdm_spec (a n : Int) (hn : 0 < n) :
    n * a.fdiv n + a.fmod n = a ∧ 0 ≤ a.fmod n ∧ a.fmod n < n :=
  ⟨Int.mul_fdiv_add_fmod a n, by
    rw [Int.fmod_eq_emod_of_nonneg _ (Int.le_of_lt hn)]; exact Int.emod_nonneg _ (Int.ne_of_gt hn), by
    rw [Int.fmod_eq_emod_of_nonneg _ (Int.le_of_lt hn)]; exact Int.emod_lt_of_pos _ hn⟩

theorem fdm_unique (n q r : Int) (hn : 0 < n) (h0 : 0 ≤ r) (hr : r < n) :
    (n * q + r).fdiv n = q ∧ (n * q + r).fmod n = r := by
  rw [Int.fdiv_eq_ediv_of_nonneg _ (Int.le_of_lt hn), Int.fmod_eq_emod_of_nonneg _ (Int.le_of_lt hn)]
  exact (Int.ediv_emod_unique (a := n * q + r) (r := r) (q := q) hn).2 ⟨by omega, h0, hr⟩

theorem q_lt (n q r b : Int) (hn : 0 < n) (h0 : 0 ≤ r) (h : n * q + r < n * b) : q < b := by
  by_contra hc
  have : n * b ≤ n * q := Int.mul_le_mul_of_nonneg_left (by omega) (Int.le_of_lt hn)
  omega

theorem lin_lt (n q r b : Int) (hn : 0 < n) (hr : r < n) (h : q < b) : n * q + r < n * b := by
  have : n * (q + 1) ≤ n * b := Int.mul_le_mul_of_nonneg_left (by omega) (Int.le_of_lt hn)
  rw [Int.mul_add, Int.mul_one] at this
  omega

theorem q_nonneg (n q r : Int) (hn : 0 < n) (hr : r < n) (h : 0 ≤ n * q + r) : 0 ≤ q := by
  by_contra hc
  have : n * q ≤ n * (-1) := Int.mul_le_mul_of_nonneg_left (by omega) (Int.le_of_lt hn)
  omega

theorem lin_nonneg (n q r : Int) (hn : 0 < n) (hq : 0 ≤ q) (h0 : 0 ≤ r) : 0 ≤ n * q + r := by
  have := Int.mul_nonneg (Int.le_of_lt hn) hq
  omega
def PovmFree (d m : Int) (f : Bool) (a : Int × Int) : Prop :=
  0 ≤ a.1 ∧ a.1 < (if f then m - 1 else m) ∧ 0 ≤ a.2 ∧ a.2 < d ^ (2:Nat)
def MpFree (d m : Int) (f : Bool) (a : Int × Int × Int) : Prop :=
  0 ≤ a.1 ∧ a.1 < m ∧ (if f = true ∧ a.1 = m - 1 then 1 else 0) ≤ a.2.1 ∧ a.2.1 < d ^ (2:Nat) ∧
    0 ≤ a.2.2 ∧ a.2.2 < d ^ (2:Nat)

theorem povm_v2o (d m i : Int) (f : Bool) (hd : 0 < d) (h0 : 0 ≤ i) (h : i < num_variables_povmt d m f) :
    PovmFree d m f (convert_var_index_to_povm_index d m (d ^ (2:Nat)) i f) ∧
      convert_povm_index_to_var_index d m (d ^ (2:Nat)) (convert_var_index_to_povm_index d m (d ^ (2:Nat)) i f) f = i := by
  have hn : 0 < d ^ (2:Nat) := Int.pow_pos hd
  obtain ⟨h1, h2, h3⟩ := fdm_spec i (d ^ (2:Nat)) hn
  unfold num_variables_povmt at h
  unfold PovmFree convert_povm_index_to_var_index convert_var_index_to_povm_index
  dsimp only
  generalize d ^ (2:Nat) = n at *
  generalize i.fdiv n = q at *
  generalize i.fmod n = r at *
  have hq0 := q_nonneg n q r hn h3 (by omega)
  refine ⟨⟨hq0, ?_, h2, h3⟩, h1⟩
  cases f
  · simp only [Bool.false_eq_true, ↓reduceIte] at *
    exact q_lt n q r m hn h2 (by rw [Int.mul_comm n m]; omega)
  · simp only [↓reduceIte] at *
    exact q_lt n q r (m-1) hn h2 (by rw [Int.mul_comm n (m-1)]; omega)

theorem povm_o2v (d m : Int) (a : Int × Int) (f : Bool) (hd : 0 < d) (h : PovmFree d m f a) :
    (0 ≤ convert_povm_index_to_var_index d m (d ^ (2:Nat)) a f ∧
      convert_povm_index_to_var_index d m (d ^ (2:Nat)) a f < num_variables_povmt d m f) ∧
      convert_var_index_to_povm_index d m (d ^ (2:Nat)) (convert_povm_index_to_var_index d m (d ^ (2:Nat)) a f) f = a := by
  have hn : 0 < d ^ (2:Nat) := Int.pow_pos hd
  obtain ⟨k, j⟩ := a
  unfold PovmFree at h
  unfold num_variables_povmt convert_povm_index_to_var_index convert_var_index_to_povm_index
  dsimp only at *
  generalize d ^ (2:Nat) = n at *
  obtain ⟨u1, u2⟩ := fdm_unique n k j hn h.2.2.1 h.2.2.2
  refine ⟨⟨lin_nonneg n k j hn h.1 h.2.2.1, ?_⟩, by rw [u1, u2]⟩
  cases f
  · simp only [Bool.false_eq_true, ↓reduceIte] at *
    rw [Int.mul_comm m n]; exact lin_lt n k j m hn h.2.2.2 h.2.1
  · simp only [↓reduceIte] at *
    rw [Int.mul_comm (m-1) n]; exact lin_lt n k j (m-1) hn h.2.2.2 h.2.1

/-- the generated mprocess maps with `n` standing for `dim ^ 2` -/
def mpV2O (n m i : Int) (f : Bool) : Int × Int × Int :=
  ((i.fdiv (n * n)), ((i.fmod (n * n)).fdiv n + (if f = true ∧ i.fdiv (n * n) = m - 1 then 1 else 0)), ((i.fmod (n * n)).fmod n))
def mpO2V (n m : Int) (a : Int × Int × Int) (f : Bool) : Int :=
  a.1 * (n * n) + a.2.1 * n + a.2.2 - (if f = true ∧ a.1 = m - 1 then n else 0)

theorem gen_mpV2O (d m s i : Int) (f : Bool) :
    convert_var_index_to_mprocess_index d m s i f = mpV2O (d ^ (2:Nat)) m i f := by
  unfold convert_var_index_to_mprocess_index mpV2O
  cases f
  · simp
  · by_cases h : i.fdiv (d ^ (2:Nat) * d ^ (2:Nat)) = m - 1 <;> simp [h]

theorem gen_mpO2V (d m s : Int) (a : Int × Int × Int) (f : Bool) :
    convert_mprocess_index_to_var_index d a m s f = mpO2V (d ^ (2:Nat)) m a f := by
  unfold convert_mprocess_index_to_var_index mpO2V
  cases f
  · simp
  · by_cases h : a.1 = m - 1 <;> simp [h]

def MpFreeN (n m : Int) (f : Bool) (a : Int × Int × Int) : Prop :=
  0 ≤ a.1 ∧ a.1 < m ∧ (if f = true ∧ a.1 = m - 1 then 1 else 0) ≤ a.2.1 ∧ a.2.1 < n ∧ 0 ≤ a.2.2 ∧ a.2.2 < n

theorem mpN_v2o (n m i : Int) (f : Bool) (hn : 0 < n) (h0 : 0 ≤ i)
    (h : i < m * (n * n) - (if f = true then n else 0)) :
    MpFreeN n m f (mpV2O n m i f) ∧ mpO2V n m (mpV2O n m i f) f = i := by
  have hnn : 0 < n * n := Int.mul_pos hn hn
  obtain ⟨h1, h2, h3⟩ := fdm_spec i (n * n) hnn
  obtain ⟨g1, g2, g3⟩ := fdm_spec (i.fmod (n * n)) n hn
  unfold MpFreeN mpO2V mpV2O
  dsimp only
  generalize i.fdiv (n * n) = k at *
  generalize i.fmod (n * n) = mi at *
  generalize mi.fdiv n = r at *
  generalize mi.fmod n = c at *
  generalize hH : n * n = H at *
  have hk0 := q_nonneg H k mi hnn h3 (by omega)
  have hr0 := q_nonneg n r c hn g3 (by omega)
  have hrn := q_lt n r c n hn g2 (by omega)
  have e1 : k * H = H * k := Int.mul_comm _ _
  have e2 : r * n = n * r := Int.mul_comm _ _
  have e3 : (r + 1) * n = n * r + n := by ring
  have e4 : m * H = H * m := Int.mul_comm _ _
  have hkm := q_lt H k mi m hnn h2 (by split at h <;> omega)
  by_cases hl : f = true ∧ k = m - 1
  · simp only [hl, and_self, ↓reduceIte] at *
    have e5 : H * (m - 1) = H * m - H := by ring
    have e6 : n * (n - 1) = H - n := by rw [← hH]; ring
    have e7 : (m - 1) * H = H * m - H := by ring
    have := q_lt n r c (n - 1) hn g2 (by omega)
    omega
  · simp only [hl, ↓reduceIte, Int.add_zero, Int.sub_zero] at *
    omega

theorem mpN_o2v (n m : Int) (a : Int × Int × Int) (f : Bool) (hn : 0 < n) (h : MpFreeN n m f a) :
    (0 ≤ mpO2V n m a f ∧ mpO2V n m a f < m * (n * n) - (if f = true then n else 0)) ∧
      mpV2O n m (mpO2V n m a f) f = a := by
  have hnn : 0 < n * n := Int.mul_pos hn hn
  obtain ⟨k, r, c⟩ := a
  unfold MpFreeN at h
  dsimp only at h
  obtain ⟨hk0, hkm, hr1, hrn, hc0, hcn⟩ := h
  unfold mpO2V mpV2O
  dsimp only
  by_cases hl : f = true ∧ k = m - 1
  · simp only [hl, and_self, ↓reduceIte] at *
    have e0 : (m - 1) * (n * n) + r * n + c - n = (n * n) * (m - 1) + (n * (r - 1) + c) := by ring
    rw [e0]
    have i0 := lin_nonneg n (r - 1) c hn (by omega) hc0
    have i1 := lin_lt n (r - 1) c n hn hcn (by omega)
    obtain ⟨u1, u2⟩ := fdm_unique (n * n) (m - 1) (n * (r - 1) + c) hnn i0 i1
    obtain ⟨v1, v2⟩ := fdm_unique n (r - 1) c hn hc0 hcn
    rw [u1, u2, v1, v2]
    refine ⟨⟨lin_nonneg (n * n) (m - 1) _ hnn (by omega) i0, ?_⟩, by simp⟩
    have := lin_lt n (r - 1) c (n - 1) hn hcn (by omega)
    have e1 : n * (n - 1) = n * n - n := by ring
    have e2 : n * n * (m - 1) = m * (n * n) - n * n := by ring
    omega
  · have hite1 : (if f = true ∧ k = m - 1 then n else (0:Int)) = 0 := if_neg hl
    have hite2 : (if f = true ∧ k = m - 1 then (1:Int) else 0) = 0 := if_neg hl
    rw [hite1]; rw [hite2] at hr1
    have e0 : k * (n * n) + r * n + c - 0 = (n * n) * k + (n * r + c) := by ring
    rw [e0]
    have i0 := lin_nonneg n r c hn (by omega) hc0
    have i1 := lin_lt n r c n hn hcn (by omega)
    obtain ⟨u1, u2⟩ := fdm_unique (n * n) k (n * r + c) hnn i0 i1
    obtain ⟨v1, v2⟩ := fdm_unique n r c hn hc0 hcn
    rw [u1, u2, v1, v2, hite2]
    refine ⟨⟨lin_nonneg (n * n) k _ hnn hk0 i0, ?_⟩, by simp⟩
    cases f
    · have := lin_lt (n * n) k (n * r + c) m hnn i1 hkm
      have e2 : n * n * m = m * (n * n) := by ring
      simp only [Bool.false_eq_true, ↓reduceIte, Int.sub_zero]
      omega
    · have hk : k ≠ m - 1 := fun hk => hl ⟨rfl, hk⟩
      have := lin_lt (n * n) k (n * r + c) (m - 1) hnn i1 (by omega)
      have e2 : n * n * (m - 1) = m * (n * n) - n * n := by ring
      have : n ≤ n * n := by
        have := Int.mul_le_mul_of_nonneg_left (show (1:Int) ≤ n by omega) (Int.le_of_lt hn)
        omega
      simp only [↓reduceIte]
      omega

/-! ## state / gate index maps -/
/-- free (non-implied) entries -/
def StateFree (d : Int) (f : Bool) (a : Int) : Prop := (if f then 1 else 0) ≤ a ∧ a < d ^ (2:Nat)
def GateFree (d : Int) (f : Bool) (a : Int × Int) : Prop :=
  (if f then 1 else 0) ≤ a.1 ∧ a.1 < d ^ (2:Nat) ∧ 0 ≤ a.2 ∧ a.2 < d ^ (2:Nat)

theorem state_v2o (d i : Int) (f : Bool) (h0 : 0 ≤ i) (h : i < num_variables_qst d f) :
    StateFree d f (convert_var_index_to_state_index i f) ∧
      convert_state_index_to_var_index (convert_var_index_to_state_index i f) f = i := by
  unfold StateFree convert_state_index_to_var_index convert_var_index_to_state_index
  unfold num_variables_qst at h
  cases f <;> simp at * <;> omega

theorem state_o2v (d a : Int) (f : Bool) (h : StateFree d f a) :
    (0 ≤ convert_state_index_to_var_index a f ∧ convert_state_index_to_var_index a f < num_variables_qst d f) ∧
      convert_var_index_to_state_index (convert_state_index_to_var_index a f) f = a := by
  unfold StateFree at h
  unfold convert_state_index_to_var_index convert_var_index_to_state_index num_variables_qst
  cases f <;> simp at * <;> omega

theorem gate_v2o (d i : Int) (f : Bool) (hd : 0 < d) (h0 : 0 ≤ i) (h : i < num_variables_qpt d f) :
    GateFree d f (convert_var_index_to_gate_index d i f) ∧
      convert_gate_index_to_var_index d (convert_var_index_to_gate_index d i f) f = i := by
  have hn : 0 < d ^ (2:Nat) := Int.pow_pos hd
  have h4 : d ^ (4:Nat) = d ^ (2:Nat) * d ^ (2:Nat) := by ring
  obtain ⟨h1, h2, h3⟩ := fdm_spec i (d ^ (2:Nat)) hn
  unfold num_variables_qpt at h
  unfold GateFree convert_gate_index_to_var_index convert_var_index_to_gate_index
  dsimp only
  rw [h4] at h
  generalize d ^ (2:Nat) = n at *
  generalize i.fdiv n = q at *
  generalize i.fmod n = r at *
  have hq0 := q_nonneg n q r hn h3 (by omega)
  cases f
  · simp at *
    have := q_lt n q r n hn h2 (by omega)
    omega
  · simp at *
    have := q_lt n q r (n - 1) hn h2 (by rw [Int.mul_sub]; omega)
    omega

theorem gate_o2v (d : Int) (a : Int × Int) (f : Bool) (hd : 0 < d) (h : GateFree d f a) :
    (0 ≤ convert_gate_index_to_var_index d a f ∧ convert_gate_index_to_var_index d a f < num_variables_qpt d f) ∧
      convert_var_index_to_gate_index d (convert_gate_index_to_var_index d a f) f = a := by
  have hn : 0 < d ^ (2:Nat) := Int.pow_pos hd
  have h4 : d ^ (4:Nat) = d ^ (2:Nat) * d ^ (2:Nat) := by ring
  obtain ⟨r, c⟩ := a
  unfold GateFree at h
  unfold num_variables_qpt convert_gate_index_to_var_index convert_var_index_to_gate_index
  dsimp only at *
  rw [h4]
  generalize d ^ (2:Nat) = n at *
  cases f
  · simp only [Bool.false_eq_true, ↓reduceIte] at *
    obtain ⟨u1, u2⟩ := fdm_unique n r c hn h.2.2.1 h.2.2.2
    refine ⟨⟨lin_nonneg n r c hn h.1 h.2.2.1, lin_lt n r c n hn h.2.2.2 h.2.1⟩, ?_⟩
    rw [u1, u2]
  · simp only [Bool.false_eq_true, ↓reduceIte] at *
    obtain ⟨u1, u2⟩ := fdm_unique n (r - 1) c hn h.2.2.1 h.2.2.2
    refine ⟨⟨lin_nonneg n (r-1) c hn (by omega) h.2.2.1, ?_⟩, ?_⟩
    · have := lin_lt n (r-1) c (n-1) hn h.2.2.2 (by omega)
      rw [Int.mul_sub n n 1] at this; omega
    · rw [u1, u2]; simp

/-! ## numpy reshape / flatten -/
theorem rows_length (n k : Nat) (l : List K) : (rows n k l).length = k := by
  induction k generalizing l with
  | zero => rfl
  | succ k ih => simp [rows, ih]

theorem rows_flatten (n k : Nat) (l : List K) (h : l.length = k * n) : (rows n k l).flatten = l := by
  induction k generalizing l with
  | zero => simp at h; simp [rows, h]
  | succ k ih =>
    have : (l.drop n).length = k * n := by simp [h, Nat.succ_mul]
    simp [rows, ih _ this]

theorem rows_row_length (n k : Nat) (l : List K) (h : l.length = k * n) :
    ∀ r ∈ rows n k l, r.length = n := by
  induction k generalizing l with
  | zero => simp [rows]
  | succ k ih =>
    have h2 : (l.drop n).length = k * n := by simp [h, Nat.succ_mul]
    intro r hr
    simp only [rows, List.mem_cons] at hr
    rcases hr with rfl | hr
    · simp [h, Nat.succ_mul]
    · exact ih _ h2 r hr

theorem rows_of_flatten (n : Nat) (L : List (List K)) (h : ∀ r ∈ L, r.length = n) :
    rows n L.length L.flatten = L := by
  induction L with
  | nil => rfl
  | cons a L ih =>
    have ha : a.length = n := h a (by simp)
    have hL : ∀ r ∈ L, r.length = n := fun r hr => h r (by simp [hr])
    simp only [List.length_cons, rows, List.flatten_cons]
    rw [← ha, List.take_left', List.drop_left', ha, ih hL] <;> rfl

theorem flatten_length_of (n : Nat) (L : List (List K)) (h : ∀ r ∈ L, r.length = n) :
    L.flatten.length = L.length * n := by
  induction L with
  | nil => simp
  | cons a L ih =>
    have ha : a.length = n := h a (by simp)
    have hL : ∀ r ∈ L, r.length = n := fun r hr => h r (by simp [hr])
    simp [ih hL, ha, Nat.succ_mul]; omega

theorem rows_append (n k j : Nat) (l1 l2 : List K) (h : l1.length = k * n) :
    rows n (k + j) (l1 ++ l2) = rows n k l1 ++ rows n j l2 := by
  induction k generalizing l1 with
  | zero =>
    simp at h; subst h; simp [rows]
  | succ k ih =>
    have hn : n ≤ l1.length := by rw [h, Nat.succ_mul]; omega
    have h2 : (l1.drop n).length = k * n := by simp [h, Nat.succ_mul]
    have e : k + 1 + j = (k + j) + 1 := by omega
    rw [e]
    simp only [rows]
    rw [List.take_append_of_le_length hn, List.drop_append_of_le_length hn, ih _ h2]
    simp

theorem rows_one (n : Nat) (l : List K) (h : l.length = n) : rows n 1 l = [l] := by
  simp [rows, ← h]

theorem vadd_length [Add K] (a b : List K) : (vadd a b).length = min a.length b.length := by
  simp [vadd]
theorem vsub_length [Sub K] (a b : List K) : (vsub a b).length = min a.length b.length := by
  simp [vsub]
theorem e0_length [Zero K] (c : K) (n : Nat) (h : 0 < n) : (e0 c n).length = n := by
  simp [e0]; omega

theorem colSum_length [Add K] [Zero K] (n : Nat) (rs : List (List K)) (h : ∀ r ∈ rs, r.length = n) :
    (colSum n rs).length = n := by
  unfold colSum
  suffices ∀ (acc : List K), acc.length = n → (rs.foldl vadd acc).length = n by
    exact this _ (by simp)
  induction rs with
  | nil => intro acc h; simpa using h
  | cons a rs ih =>
    intro acc hacc
    simp only [List.foldl_cons]
    apply ih (fun r hr => h r (by simp [hr]))
    rw [vadd_length, hacc, h a (by simp)]; simp

theorem povmLast_length [Add K] [Sub K] [Zero K] (d : Nat) (sq : K) (pre : List (List K)) (hd : 0 < d)
    (h : ∀ r ∈ pre, r.length = d ^ 2) : (povmLast d sq pre).length = d ^ 2 := by
  unfold povmLast
  rw [vsub_length, e0_length _ _ (Nat.pow_pos hd), colSum_length _ _ h]; simp

/-! numeric: generated `num_variables_*` as natural numbers -/
theorem nv_qst (d L : Nat) (f : Bool) (hd : 0 < d) :
    (L : Int) = num_variables_qst d f ↔ L = (if f then d ^ 2 - 1 else d ^ 2) := by
  obtain ⟨k, hk⟩ : ∃ k, d ^ 2 = k + 1 := ⟨d ^ 2 - 1, by have := Nat.pow_pos (n := 2) hd; omega⟩
  have hk' : (d:Int) ^ (2:Nat) = k + 1 := by exact_mod_cast hk
  unfold num_variables_qst
  rw [hk', hk]
  cases f <;> simp <;> omega

theorem nv_povmt (d m L : Nat) (f : Bool) (hm : 1 ≤ m) :
    (L : Int) = num_variables_povmt d m f ↔ L = (if f then (m - 1) * d ^ 2 else m * d ^ 2) := by
  unfold num_variables_povmt
  cases f
  · simp; norm_cast
  · simp
    obtain ⟨k, rfl⟩ : ∃ k, m = k + 1 := ⟨m - 1, by omega⟩
    simp; norm_cast

theorem nv_qpt (d L : Nat) (f : Bool) (hd : 0 < d) :
    (L : Int) = num_variables_qpt d f ↔ L = (if f then (d ^ 2 - 1) * d ^ 2 else d ^ 2 * d ^ 2) := by
  have h1 : 1 ≤ d ^ 2 := Nat.pow_pos hd
  have h4 : (d:Int) ^ (4:Nat) = (d:Int) ^ (2:Nat) * (d:Int) ^ (2:Nat) := by ring
  unfold num_variables_qpt
  rw [h4]
  obtain ⟨k, hk⟩ : ∃ k, d ^ 2 = k + 1 := ⟨d ^ 2 - 1, by omega⟩
  have hk' : (d:Int) ^ (2:Nat) = k + 1 := by exact_mod_cast hk
  rw [hk', hk]
  cases f
  · simp; norm_cast
  · simp
    have : ((k:Int) + 1) * (k + 1) - (k + 1) = ((k * (k + 1) : Nat) : Int) := by push_cast; ring
    rw [this]; norm_cast

theorem nv_qmpt (d m L : Nat) (f : Bool) (hd : 0 < d) (hm : 1 ≤ m) :
    (L : Int) = num_variables_qmpt d m f ↔
      L = (if f then (m - 1) * hsSize d + (d ^ 2 - 1) * d ^ 2 else m * hsSize d) := by
  have h1 : 1 ≤ d ^ 2 := Nat.pow_pos hd
  have h4 : (d:Int) ^ (4:Nat) = (d:Int) ^ (2:Nat) * (d:Int) ^ (2:Nat) := by ring
  unfold num_variables_qmpt hsSize
  rw [h4]
  obtain ⟨k, hk⟩ : ∃ k, d ^ 2 = k + 1 := ⟨d ^ 2 - 1, by omega⟩
  obtain ⟨j, rfl⟩ : ∃ j, m = j + 1 := ⟨m - 1, by omega⟩
  have hk' : (d:Int) ^ (2:Nat) = k + 1 := by exact_mod_cast hk
  rw [hk', hk]
  cases f
  · simp; norm_cast
  · simp
    have : ((j:Int) + 1) * ((k + 1) * (k + 1)) - (k + 1) = ((j * ((k + 1) * (k + 1)) + k * (k + 1) : Nat) : Int) := by
      push_cast; ring
    rw [this]; norm_cast

theorem reshape2_ok (k n : Nat) (l : List K) (h : l.length = k * n) : reshape2 k n l = some (rows n k l) := by
  simp [reshape2, h]

/-! ## SetQOperations layout -/
theorem nsum_cons (a : Nat) (l : List Nat) : nsum (a :: l) = a + nsum l := rfl
theorem nsum_nil : nsum [] = 0 := rfl

theorem nsum_take_le (l : List Nat) (k : Nat) (hk : k < l.length) :
    nsum (l.take k) + l[k] ≤ nsum l := by
  induction l generalizing k with
  | nil => simp at hk
  | cons a l ih =>
    cases k with
    | zero => simp [nsum_cons, nsum_nil]
    | succ k =>
      simp only [List.take_succ_cons, nsum_cons, List.getElem_cons_succ]
      have := ih k (by simpa using hk)
      omega

theorem locate_spec (sizes : List Nat) (i0 k j : Nat) (hk : k < sizes.length) (hj : j < sizes[k]) :
    locate sizes i0 (nsum (sizes.take k) + j) = some (i0 + k, j) := by
  induction sizes generalizing i0 k with
  | nil => simp at hk
  | cons a l ih =>
    cases k with
    | zero => simp at hj; simp [locate, nsum_nil, hj]
    | succ k =>
      have hk' : k < l.length := by simpa using hk
      have hj' : j < l[k] := by simpa using hj
      have e : nsum (List.take (k + 1) (a :: l)) + j = a + (nsum (List.take k l) + j) := by
        simp only [List.take_succ_cons, nsum_cons]; omega
      rw [e]
      unfold locate
      rw [if_neg (by omega), Nat.add_sub_cancel_left, ih (i0 + 1) k hk' hj']
      congr 2; omega

theorem locate_some (sizes : List Nat) (i0 mid : Nat) (h : mid < nsum sizes) :
    ∃ k j, ∃ hk : k < sizes.length, locate sizes i0 mid = some (i0 + k, j) ∧ j < sizes[k] ∧
      nsum (sizes.take k) + j = mid := by
  induction sizes generalizing i0 mid with
  | nil => simp [nsum_nil] at h
  | cons a l ih =>
    by_cases hlt : mid < a
    · exact ⟨0, mid, by simp, by simp [locate, hlt], by simpa using hlt, by simp [nsum_nil]⟩
    · rw [nsum_cons] at h
      obtain ⟨k, j, hk, h1, h2, h3⟩ := ih (i0 + 1) (mid - a) (by omega)
      refine ⟨k + 1, j, by simpa using hk, ?_, by simpa using h2, ?_⟩
      · simp only [locate, if_neg hlt, h1]; congr 2; omega
      · simp only [List.take_succ_cons, nsum_cons]; omega

theorem splitBy_flatten (B : List (List K)) : splitBy (B.map List.length) B.flatten = B := by
  induction B with
  | nil => rfl
  | cons a B ih => simp [splitBy, ih]

theorem flatten_points_at (B : List (List K)) (k j : Nat) (hk : k < B.length) (hj : j < B[k].length) :
    B.flatten[nsum ((B.map List.length).take k) + j]? = some (B[k][j]) := by
  induction B generalizing k with
  | nil => simp at hk
  | cons a B ih =>
    cases k with
    | zero => simp at hj; simp [nsum_nil, List.getElem?_append_left hj]
    | succ k =>
      simp only [List.map_cons, List.take_succ_cons, nsum_cons, List.flatten_cons]
      have hk' : k < B.length := by simpa using hk
      have hj' : j < B[k].length := by simpa using hj
      rw [List.getElem?_append_right (by omega)]
      have : a.length + nsum (List.take k (List.map List.length B)) + j - a.length =
          nsum (List.take k (List.map List.length B)) + j := by omega
      rw [this, ih k hk' hj']
      simp

/-! ## mprocess -/
theorem firstRowSum_length [Add K] [Zero K] (d cnt : Nat) (v : List K)
    (h : ∀ o, o < cnt → hsSize d * o + d ^ 2 ≤ v.length) : (firstRowSum d cnt v).length = d ^ 2 := by
  unfold firstRowSum
  induction cnt with
  | zero => simp
  | succ c ih =>
    rw [List.range_succ, List.foldl_append]
    simp only [List.foldl_cons, List.foldl_nil]
    rw [vadd_length, ih (fun o ho => h o (by omega))]
    have := h c (by omega)
    simp; omega

theorem mpLast_length [Add K] [Sub K] [Zero K] [One K] (d cnt : Nat) (v : List K) (hd : 0 < d)
    (h : ∀ o, o < cnt → hsSize d * o + d ^ 2 ≤ v.length) : (mpLast d cnt v).length = d ^ 2 := by
  unfold mpLast
  rw [vsub_length, e0_length _ _ (Nat.pow_pos hd), firstRowSum_length d cnt v h]; simp

/-- last row split of a reshape -/
theorem rows_succ_last (n k : Nat) (l : List K) (h : l.length = (k + 1) * n) :
    rows n (k + 1) l = rows n k (l.take (k * n)) ++ [l.drop (k * n)] := by
  have h1 : (l.take (k * n)).length = k * n := by
    rw [List.length_take, h]; apply Nat.min_eq_left; rw [Nat.succ_mul]; omega
  have h2 : (l.drop (k * n)).length = n := by rw [List.length_drop, h, Nat.succ_mul]; omega
  conv_lhs => rw [← List.take_append_drop (k * n) l]
  rw [rows_append n k 1 _ _ h1, rows_one _ _ h2]

theorem varOfHss_rows (d m : Nat) (st : List K) (f : Bool) (hd : 0 < d) (hm : 1 ≤ m)
    (h : st.length = m * hsSize d) :
    varOfHss d (rows (hsSize d) m st) f = mpVarOfStacked d st f := by
  have hH : 0 < hsSize d := by unfold hsSize; exact Nat.mul_pos (Nat.pow_pos hd) (Nat.pow_pos hd)
  have hd0 : d ≠ 0 := by omega
  cases f
  · simp [varOfHss, mpVarOfStacked, rows_flatten _ _ _ h]
  · obtain ⟨k, rfl⟩ : ∃ k, m = k + 1 := ⟨m - 1, by omega⟩
    have hdiv : st.length / hsSize d = k + 1 := by rw [h]; exact Nat.mul_div_cancel _ hH
    have h1 : (st.take (k * hsSize d)).length = k * hsSize d := by
      rw [List.length_take, h]; apply Nat.min_eq_left; rw [Nat.succ_mul]; omega
    rw [rows_succ_last _ _ _ h]
    simp only [varOfHss, ↓reduceIte, List.getLast?_append, List.getLast?_singleton, Option.or_some,
      List.dropLast_concat, rows_flatten _ _ _ h1, mpVarOfStacked, hd0, hdiv, Nat.add_sub_cancel]
    simp [Nat.mul_comm, List.drop_drop, Nat.add_comm]


/-! ## flat positions, insertion lemma -/
/-- flat (row-major) position of an entry (row, col) of a `· × n` array -/
def flat2 (n : Int) (a : Int × Int) : Int := a.1 * n + a.2

theorem getElem?_insert (v blk : List K) (p i : Nat) (hp : p ≤ v.length) :
    (v.take p ++ blk ++ v.drop p)[if i < p then i else i + blk.length]? = v[i]? := by
  have htl : (v.take p).length = p := by simp [hp]
  split
  · rename_i h
    rw [List.append_assoc, List.getElem?_append_left (by omega), List.getElem?_take_of_lt h]
  · rename_i h
    rw [List.getElem?_append_right (by simp [htl]; omega)]
    simp only [List.length_append, htl, List.getElem?_drop]
    congr 1; omega

theorem reshape2_some (k n : Nat) (l : List K) (r : List (List K)) (h : reshape2 k n l = some r) :
    l.length = k * n ∧ r = rows n k l := by
  unfold reshape2 at h
  split at h
  · rename_i hl; exact ⟨hl, (Option.some.inj h).symm⟩
  · cases h

theorem povm_stacked_prefix [Add K] [Sub K] [Zero K] (d : Nat) (sq : K) (var st : List K) (f : Bool)
    (hst : povmStackedOfVar d sq var f = some st) : ∃ last, st = var ++ last := by
  cases f
  · simp [povmStackedOfVar] at hst; exact ⟨[], by simp [hst]⟩
  · simp only [povmStackedOfVar, ↓reduceIte, Option.map_eq_some_iff] at hst
    obtain ⟨vecs, hv, rfl⟩ := hst
    unfold vecsOfVar at hv
    split at hv
    · cases hv
    · simp only [↓reduceIte, Option.bind_eq_bind] at hv
      cases hp : reshape2 (var.length / d ^ 2 + 1 - 1) (d ^ 2) var with
      | none => rw [hp] at hv; cases hv
      | some pre =>
        rw [hp] at hv
        simp only [Option.bind_some] at hv
        obtain ⟨hl, rfl⟩ := reshape2_some _ _ _ _ hp
        obtain ⟨hl2, rfl⟩ := reshape2_some _ _ _ _ hv
        rw [rows_flatten _ _ _ hl] at hl2 ⊢
        exact ⟨_, rows_flatten _ _ _ hl2⟩

/-- flat position of an entry (k, row, col) of `k` stacked `n × n` arrays -/
def flat3 (n : Int) (a : Int × Int × Int) : Int := a.1 * (n * n) + a.2.1 * n + a.2.2


/-! ## perturbations and one-hot vectors (gradient theorems) -/
/-- `t • l` -/
def lsmul [Mul K] (t : K) (l : List K) : List K := l.map (t * ·)
/-- `v + t·e_i` -/
def perturb [Add K] [Mul K] [Zero K] [One K] (v : List K) (i : Nat) (t : K) : List K :=
  vadd v (lsmul t (oneHot v.length i))

theorem oneHot_succ [Zero K] [One K] (n i : Nat) : (oneHot (n + 1) (i + 1) : List K) = 0 :: oneHot n i := by
  unfold oneHot
  rw [List.range_succ_eq_map]
  simp [Function.comp_def]

theorem oneHot_shift [Zero K] [One K] (k n i : Nat) :
    (oneHot (k + n) (k + i) : List K) = List.replicate k 0 ++ oneHot n i := by
  induction k with
  | zero => simp
  | succ k ih =>
    have e1 : k + 1 + n = (k + n) + 1 := by omega
    have e2 : k + 1 + i = (k + i) + 1 := by omega
    rw [e1, e2, oneHot_succ, ih, List.replicate_succ]; rfl

theorem vadd_append [Add K] (a b c e : List K) (h : a.length = c.length) :
    vadd (a ++ b) (c ++ e) = vadd a c ++ vadd b e := by
  unfold vadd; exact List.zipWith_append h

theorem vadd_zero_smul [CommRing K] (a : List K) (t : K) :
    vadd a (lsmul t (List.replicate a.length 0)) = a := by
  unfold vadd lsmul
  induction a with
  | nil => simp
  | cons x a ih => simp at ih; simp [List.replicate_succ, ih]

/-- the model's gate gradient is the one-hot vector at that position (for every variable index in range) -/
theorem gradGate_eq [Zero K] [One K] (d i : Nat) (f : Bool) (hd : 0 < d)
    (hi : (i : Int) < num_variables_qpt d f) :
    (gradGate d i f : Option (List K)) = some (oneHot (hsSize d) (if f then d ^ 2 + i else i)) := by
  have hdI : (0 : Int) < (d : Int) := by exact_mod_cast hd
  obtain ⟨hfree, _⟩ := gate_v2o (d : Int) (i : Int) f hdI (by omega) hi
  have hn : (0 : Int) < (d : Int) ^ (2:Nat) := Int.pow_pos hdI
  obtain ⟨h1', h2, h3⟩ := fdm_spec (i : Int) ((d : Int) ^ (2:Nat)) hn
  have hpos : flat2 ((d : Int) ^ (2:Nat)) (convert_var_index_to_gate_index d i f) =
      (i : Int) + (if f = true then ((d ^ 2 : Nat) : Int) else 0) := by
    unfold flat2 convert_var_index_to_gate_index
    dsimp only
    push_cast
    generalize ((d : Int) ^ (2:Nat)) = n at *
    generalize (i : Int).fdiv n = q at *
    generalize (i : Int).fmod n = r at *
    have e1 : q * n = n * q := Int.mul_comm _ _
    have e2 : (q + 1) * n = n * q + n := by ring
    cases f
    · simp only [Bool.false_eq_true, ↓reduceIte]; omega
    · simp only [↓reduceIte]; omega
  unfold GateFree at hfree
  unfold gradGate natOf?
  dsimp only
  generalize convert_var_index_to_gate_index (↑d) (↑i) f = ix at *
  obtain ⟨r, c⟩ := ix
  simp only at hfree
  have hcast : (((d ^ 2 : Nat)) : Int) = (d : Int) ^ (2:Nat) := by push_cast; rfl
  have hr0 : 0 ≤ r := by cases f <;> simp at hfree <;> omega
  simp only [hcast]
  rw [if_pos ⟨hr0, hfree.2.1⟩, if_pos ⟨hfree.2.2.1, hfree.2.2.2⟩]
  simp only [Option.bind_eq_bind, Option.bind_some, Option.some.injEq]
  congr 1
  unfold flat2 at hpos
  simp only at hpos
  have : ((r.toNat * d ^ 2 + c.toNat : Nat) : Int) = r * (d : Int) ^ (2:Nat) + c := by
    push_cast
    rw [Int.toNat_of_nonneg hr0, Int.toNat_of_nonneg hfree.2.2.1]
  cases f
  · simp only [Bool.false_eq_true, ↓reduceIte, Int.add_zero] at hpos ⊢
    have h : ((r.toNat * d ^ 2 + c.toNat : Nat) : Int) = (i : Int) := by rw [this, hpos]
    exact_mod_cast h
  · simp only [↓reduceIte] at hpos ⊢
    have h : ((r.toNat * d ^ 2 + c.toNat : Nat) : Int) = ((d ^ 2 + i : Nat) : Int) := by
      rw [this, hpos]; push_cast; ring
    exact_mod_cast h


/-! ## linearity of the implied blocks (derivative theorems) -/
theorem natOf?_of_range (x : Int) (b : Nat) (h0 : 0 ≤ x) (h1 : x < (b : Int)) : natOf? x b = some x.toNat := by
  unfold natOf?; rw [if_pos ⟨h0, h1⟩]

theorem toNat_lin (k j : Int) (n : Nat) (hk : 0 ≤ k) (hj : 0 ≤ j) :
    k.toNat * n + j.toNat = (k * (n : Int) + j).toNat := by
  have h : ((k.toNat * n + j.toNat : Nat) : Int) = k * (n : Int) + j := by
    push_cast; rw [Int.toNat_of_nonneg hk, Int.toNat_of_nonneg hj]
  have hnn : 0 ≤ k * (n : Int) + j := by
    have := Int.mul_nonneg hk (Int.natCast_nonneg n); omega
  omega

theorem vadd_right_comm [CommRing K] (a b c : List K) : vadd (vadd a b) c = vadd (vadd a c) b := by
  unfold vadd
  induction a generalizing b c with
  | nil => simp
  | cons x a ih =>
    cases b with
    | nil => cases c <;> simp
    | cons y b =>
      cases c with
      | nil => simp
      | cons z c => simp [ih]; ring

theorem vadd_assoc [CommRing K] (a b c : List K) : vadd a (vadd b c) = vadd (vadd a b) c := by
  unfold vadd
  induction a generalizing b c with
  | nil => simp
  | cons x a ih =>
    cases b with
    | nil => simp
    | cons y b =>
      cases c with
      | nil => simp
      | cons z c => simp [ih]; ring

theorem foldl_vadd_comm [CommRing K] (rs : List (List K)) (acc δ : List K) :
    rs.foldl vadd (vadd acc δ) = vadd (rs.foldl vadd acc) δ := by
  induction rs generalizing acc with
  | nil => rfl
  | cons r rs ih => simp only [List.foldl_cons]; rw [vadd_right_comm, ih]

theorem oneHot_take_lt [Zero K] [One K] (L n i : Nat) (hn : n ≤ L) (hi : i < n) :
    ((oneHot L i : List K).take n) = oneHot n i := by
  unfold oneHot; rw [← List.map_take, List.take_range, Nat.min_eq_left hn]

theorem oneHot_take_ge [Zero K] [One K] (L n i : Nat) (hn : n ≤ L) (hi : n ≤ i) :
    ((oneHot L i : List K).take n) = List.replicate n 0 := by
  unfold oneHot; rw [← List.map_take, List.take_range, Nat.min_eq_left hn]
  apply List.ext_getElem (by simp)
  intro k h1 h2
  simp at h1
  simp; omega

theorem oneHot_drop_ge [Zero K] [One K] (L n i : Nat) (hn : n ≤ L) (hi : n ≤ i) :
    ((oneHot L i : List K).drop n) = oneHot (L - n) (i - n) := by
  obtain ⟨M, rfl⟩ : ∃ M, L = n + M := ⟨L - n, by omega⟩
  obtain ⟨j, rfl⟩ : ∃ j, i = n + j := ⟨i - n, by omega⟩
  rw [oneHot_shift, List.drop_left' (by simp)]; simp

theorem oneHot_drop_lt [Zero K] [One K] (L n i : Nat) (hi : i < n) :
    ((oneHot L i : List K).drop n) = List.replicate (L - n) 0 := by
  unfold oneHot
  apply List.ext_getElem (by simp)
  intro k h1 h2
  simp at h1
  simp; omega

theorem perturb_zero [CommRing K] (w : List K) (t : K) (L : Nat) (h : L = w.length) :
    vadd w (lsmul t (List.replicate L 0)) = w := by
  subst h; exact vadd_zero_smul w t

theorem take_vadd [Add K] (a b : List K) (n : Nat) : (vadd a b).take n = vadd (a.take n) (b.take n) := by
  unfold vadd; exact List.take_zipWith
theorem drop_vadd [Add K] (a b : List K) (n : Nat) : (vadd a b).drop n = vadd (a.drop n) (b.drop n) := by
  unfold vadd; exact List.drop_zipWith

/-- the column sums of the reshaped perturbed vector: only column `i mod n` moves, by `t` -/
theorem foldl_rows_perturb [CommRing K] (n k : Nat) (hn : 0 < n) (v acc : List K) (i : Nat) (t : K)
    (hv : v.length = k * n) (hi : i < k * n) :
    (rows n k (vadd v (lsmul t (oneHot (k * n) i)))).foldl vadd acc =
      vadd ((rows n k v).foldl vadd acc) (lsmul t (oneHot n (i % n))) := by
  induction k generalizing v acc i with
  | zero => simp at hi
  | succ k ih =>
    have hL : n ≤ (k + 1) * n := by rw [Nat.succ_mul]; omega
    have hLs : (k + 1) * n - n = k * n := by rw [Nat.succ_mul]; omega
    have hdl : (v.drop n).length = k * n := by rw [List.length_drop, hv, hLs]
    simp only [rows, List.foldl_cons, take_vadd, drop_vadd]
    unfold lsmul
    rw [← List.map_take, ← List.map_drop]
    by_cases hin : i < n
    · rw [oneHot_take_lt _ _ _ hL hin, oneHot_drop_lt _ _ _ hin, hLs]
      have := perturb_zero (v.drop n) t (k * n) hdl.symm
      unfold lsmul at this
      rw [this, Nat.mod_eq_of_lt hin]
      have e : vadd acc (vadd (v.take n) (List.map (fun x => t * x) (oneHot n i))) =
          vadd (vadd acc (v.take n)) (List.map (fun x => t * x) (oneHot n i)) := vadd_assoc _ _ _
      rw [e, foldl_vadd_comm]
    · have hin' : n ≤ i := Nat.le_of_not_lt hin
      rw [oneHot_take_ge _ _ _ hL hin', oneHot_drop_ge _ _ _ hL hin', hLs]
      have htl : (v.take n).length = n := by rw [List.length_take, hv]; exact Nat.min_eq_left hL
      have := perturb_zero (v.take n) t n htl.symm
      unfold lsmul at this
      rw [this]
      have ih' := ih (v.drop n) (vadd acc (v.take n)) (i - n) hdl (by rw [Nat.succ_mul] at hi; omega)
      unfold lsmul at ih'
      rw [ih']
      congr 3
      have : i = (i - n) + n := by omega
      conv_rhs => rw [this, Nat.add_mod_right]

theorem vsub_vadd_smul [CommRing K] (a b e : List K) (t : K) :
    vsub a (vadd b (lsmul t e)) = vadd (vsub a b) (lsmul (-t) e) := by
  unfold vsub vadd lsmul
  induction a generalizing b e with
  | nil => simp
  | cons x a ih =>
    cases b with
    | nil => simp
    | cons y b =>
      cases e with
      | nil => simp
      | cons z e => simp [ih]; ring

/-- explicit stacked vector of a POVM variable vector of the right length (flag on): `var ++ implied last element` -/
theorem povmStacked_explicit [Add K] [Sub K] [Zero K] (d k : Nat) (sq : K) (v : List K) (hd : 0 < d)
    (hl : v.length = (k + 1) * d ^ 2) :
    povmStackedOfVar d sq v true = some (v ++ povmLast d sq (rows (d ^ 2) (k + 1) v)) := by
  have h1 : 1 ≤ d ^ 2 := Nat.pow_pos hd
  have hd0 : d ≠ 0 := by omega
  have hdiv : v.length / d ^ 2 = k + 1 := by rw [hl]; exact Nat.mul_div_cancel _ h1
  have hprer : ∀ r ∈ rows (d ^ 2) (k + 1) v, r.length = d ^ 2 := rows_row_length _ _ _ hl
  have hpref : (rows (d ^ 2) (k + 1) v).flatten = v := rows_flatten _ _ _ hl
  have hlastl : (povmLast d sq (rows (d ^ 2) (k + 1) v)).length = d ^ 2 := povmLast_length d sq _ hd hprer
  have hl2 : (v ++ povmLast d sq (rows (d ^ 2) (k + 1) v)).length = (k + 1 + 1) * d ^ 2 := by
    rw [List.length_append, hl, hlastl]; ring
  simp only [povmStackedOfVar, ↓reduceIte, vecsOfVar, hd0, hdiv, Nat.add_sub_cancel, reshape2_ok _ _ _ hl,
    Option.bind_eq_bind, Option.bind_some, hpref, reshape2_ok _ _ _ hl2, Option.map_some, rows_flatten _ _ _ hl2]

/-- the slice `[a, a+n)` of `t·e_i` (length `L`) -/
theorem slice_oneHot [CommRing K] (L a n i : Nat) (t : K) (h : a + n ≤ L) :
    ((lsmul t (oneHot L i : List K)).drop a).take n =
      lsmul t (if a ≤ i ∧ i < a + n then oneHot n (i - a) else List.replicate n 0) := by
  unfold lsmul
  rw [← List.map_drop, ← List.map_take]
  congr 1
  by_cases h1 : a ≤ i
  · rw [oneHot_drop_ge L a i (by omega) h1]
    by_cases h2 : i < a + n
    · rw [if_pos ⟨h1, h2⟩, oneHot_take_lt _ _ _ (by omega) (by omega)]
    · rw [if_neg (by omega), oneHot_take_ge _ _ _ (by omega) (by omega)]
  · rw [if_neg (by omega), oneHot_drop_lt L a i (by omega)]
    rw [List.take_replicate]; congr 1; omega

/-- the sum of the first rows of the first `cnt` HS blocks of the perturbed vector -/
theorem firstRowSum_perturb [CommRing K] (d cnt : Nat) (hd : 0 < d) (v : List K) (i : Nat) (t : K)
    (hv : hsSize d * cnt ≤ v.length) :
    firstRowSum d cnt (vadd v (lsmul t (oneHot v.length i))) =
      vadd (firstRowSum d cnt v)
        (lsmul t (if i < hsSize d * cnt ∧ i % hsSize d < d ^ 2 then oneHot (d ^ 2) (i % hsSize d)
                  else List.replicate (d ^ 2) 0)) := by
  have h1 : 1 ≤ d ^ 2 := Nat.pow_pos hd
  have hH : 0 < hsSize d := by unfold hsSize; exact Nat.mul_pos h1 h1
  have hnH : d ^ 2 ≤ hsSize d := by unfold hsSize; exact Nat.le_mul_of_pos_left _ h1
  unfold firstRowSum
  induction cnt with
  | zero =>
    simp only [List.range_zero, List.foldl_nil, Nat.mul_zero, Nat.not_lt_zero, false_and, ↓reduceIte]
    exact (perturb_zero _ t (d ^ 2) (by simp)).symm
  | succ c ih =>
    have hvc : hsSize d * c ≤ v.length := by rw [Nat.mul_succ] at hv; omega
    have hslice : hsSize d * c + d ^ 2 ≤ v.length := by rw [Nat.mul_succ] at hv; omega
    rw [List.range_succ, List.foldl_append, List.foldl_append]
    simp only [List.foldl_cons, List.foldl_nil]
    rw [ih hvc, drop_vadd, take_vadd, slice_oneHot v.length (hsSize d * c) (d ^ 2) i t hslice]
    -- combine the two perturbations
    set A := List.foldl (fun acc o => vadd acc (List.take (d ^ 2) (List.drop (hsSize d * o) v)))
      (List.replicate (d ^ 2) 0) (List.range c) with hA
    set S := List.take (d ^ 2) (List.drop (hsSize d * c) v) with hS
    have hSl : S.length = d ^ 2 := by rw [hS, List.length_take, List.length_drop]; omega
    have hcomb : ∀ (x y : List K), vadd (vadd A (lsmul t x)) (vadd S (lsmul t y)) =
        vadd (vadd A S) (vadd (lsmul t x) (lsmul t y)) := by
      intro x y
      rw [vadd_assoc, vadd_right_comm A (lsmul t x) S, ← vadd_assoc]
    rw [hcomb]
    congr 1
    -- case analysis on where i lies
    have hmod : ∀ (q : Nat), hsSize d * q ≤ i → i < hsSize d * q + hsSize d → i % hsSize d = i - hsSize d * q := by
      intro q h1 h2
      have : i = (i - hsSize d * q) + hsSize d * q := by omega
      conv_lhs => rw [this, Nat.add_mul_mod_self_left]
      exact Nat.mod_eq_of_lt (by omega)
    by_cases hlt : i < hsSize d * c
    · have hc2 : ¬ (hsSize d * c ≤ i ∧ i < hsSize d * c + d ^ 2) := by omega
      have hc3 : i < hsSize d * (c + 1) := by rw [Nat.mul_succ]; omega
      rw [if_neg hc2]
      simp only [hlt, hc3, true_and]
      have hz := perturb_zero (lsmul t (if i % hsSize d < d ^ 2 then (oneHot (d ^ 2) (i % hsSize d) : List K)
        else List.replicate (d ^ 2) 0)) t (d ^ 2) (by split <;> simp [lsmul, oneHot])
      exact hz
    · have hge : hsSize d * c ≤ i := Nat.le_of_not_lt hlt
      rw [if_neg (by omega : ¬ (i < hsSize d * c ∧ i % hsSize d < d ^ 2))]
      have hzl : vadd (lsmul t (List.replicate (d ^ 2) (0 : K))) =
          fun y => vadd (lsmul t (List.replicate (d ^ 2) (0 : K))) y := rfl
      by_cases hin : i < hsSize d * c + d ^ 2
      · have hm := hmod c hge (by omega)
        rw [if_pos ⟨hge, hin⟩, if_pos ⟨by rw [Nat.mul_succ]; omega, by rw [hm]; omega⟩, hm]
        unfold vadd lsmul
        apply List.ext_getElem (by simp [oneHot])
        intro k hk1 hk2
        simp
      · rw [if_neg (by omega)]
        by_cases hin2 : i < hsSize d * (c + 1)
        · have hm := hmod c hge (by rw [Nat.mul_succ] at hin2; omega)
          rw [if_neg (by rw [hm]; omega)]
          unfold vadd lsmul; simp
        · rw [if_neg (by omega)]
          unfold vadd lsmul; simp


/-! ## variable blocks of a set of operations (spec side of the SetQOperations theorems) -/
theorem flatten_len_nsum (B : List (List K)) : B.flatten.length = nsum (B.map List.length) := by
  induction B with
  | nil => rfl
  | cons a t ih => simp [nsum_cons, ih]

/-- the variable blocks of a set of operations, in the order of `var_total` -/
structure Blocks (K : Type) where
  state : List (List K)
  gate : List (List K)
  povm : List (List K)
  mprocess : List (List K)

def Blocks.sizes (B : Blocks K) : Sizes :=
  ⟨B.state.map List.length, B.gate.map List.length, B.povm.map List.length, B.mprocess.map List.length⟩
def Blocks.varTotal (B : Blocks K) : List K :=
  B.state.flatten ++ B.gate.flatten ++ B.povm.flatten ++ B.mprocess.flatten
def Blocks.ofMode (B : Blocks K) : Nat → Option (List (List K))
  | 0 => some B.state | 1 => some B.gate | 2 => some B.povm | 3 => some B.mprocess | _ => none


/-- the sum of the first rows of the first `cnt` HS blocks reads only the first `H·cnt` entries -/
theorem firstRowSum_take [Add K] [Zero K] (d cnt : Nat) (v : List K) (hd : 0 < d) :
    firstRowSum d cnt (v.take (hsSize d * cnt)) = firstRowSum d cnt v := by
  have h1 : 1 ≤ d ^ 2 := Nat.pow_pos hd
  have hnH : d ^ 2 ≤ hsSize d := by unfold hsSize; exact Nat.le_mul_of_pos_left _ h1
  unfold firstRowSum
  have key : ∀ (l : List Nat) (acc : List K), (∀ o ∈ l, o < cnt) →
      l.foldl (fun acc o => vadd acc (((v.take (hsSize d * cnt)).drop (hsSize d * o)).take (d ^ 2))) acc =
      l.foldl (fun acc o => vadd acc ((v.drop (hsSize d * o)).take (d ^ 2))) acc := by
    intro l
    induction l with
    | nil => intro acc _; rfl
    | cons o l ih =>
      intro acc hl
      have ho : o < cnt := hl o (by simp)
      have hle : hsSize d * o + d ^ 2 ≤ hsSize d * cnt := by
        have : hsSize d * (o + 1) ≤ hsSize d * cnt := Nat.mul_le_mul_left _ (by omega)
        rw [Nat.mul_succ] at this; omega
      simp only [List.foldl_cons]
      have e : ((v.take (hsSize d * cnt)).drop (hsSize d * o)).take (d ^ 2) = (v.drop (hsSize d * o)).take (d ^ 2) := by
        rw [List.drop_take, List.take_take]
        congr 1
        omega
      rw [e]
      exact ih _ (fun o' ho' => hl o' (by simp [ho']))
  exact key _ _ (fun o ho => List.mem_range.1 ho)


end QM.C03
