import QModel.C04
import QProofs.Bridge
import Mathlib.Algebra.Order.Field.Basic
import Mathlib.Algebra.BigOperators.Ring.Finset
import Mathlib.Algebra.Order.BigOperators.Ring.Finset
import Mathlib.Tactic.Ring
import Mathlib.Tactic.Linarith
import Mathlib.Tactic.FieldSimp
/-! helper lemmas for C04, equality part: everything over an arbitrary linearly ordered field
(hence literally for the executed instance `Rat`). -/
open Finset
set_option linter.unusedSectionVars false
namespace QM

namespace Ten
variable {K : Type} {m n p : Nat}
@[simp] theorem get_ofFn (f : Fin m → Fin n → Fin p → K) (x : Fin m) (a : Fin n) (b : Fin p) :
    (ofFn f).get x a b = f x a b := by
  simp [ofFn, get, Mat.ofFn, Mat.get]
theorem ext' {S T : Ten K m n p} (h : ∀ x a b, S.get x a b = T.get x a b) : S = T := by
  apply Vector.ext; intro x hx; apply Mat.ext'; intro a b; exact h ⟨x, hx⟩ a b
end Ten

namespace C04

section generic
variable {K : Type} [Field K] [LinearOrder K] [IsStrictOrderedRing K] {ι : Type} [Fintype ι]

/-- variational inequality ⇒ nearest point (Pythagoras), for finitely many coordinates -/
theorem nearest_of_vi (x p y : ι → K) (h : ∑ i, (x i - p i) * (y i - p i) ≤ 0) :
    ∑ i, (x i - p i) * (x i - p i) ≤ ∑ i, (x i - y i) * (x i - y i) := by
  have e : ∑ i, (x i - y i) * (x i - y i) =
      ∑ i, (x i - p i) * (x i - p i) + ∑ i, (y i - p i) * (y i - p i)
        - 2 * ∑ i, (x i - p i) * (y i - p i) := by
    rw [Finset.mul_sum, ← Finset.sum_add_distrib, ← Finset.sum_sub_distrib]
    apply Finset.sum_congr rfl; intro i _; ring
  have h2 : 0 ≤ ∑ i, (y i - p i) * (y i - p i) :=
    Finset.sum_nonneg fun i _ => mul_self_nonneg _
  rw [e]; linarith

/-- … and the nearest point is unique -/
theorem eq_of_vi_of_le (x p y : ι → K) (h : ∑ i, (x i - p i) * (y i - p i) ≤ 0)
    (hle : ∑ i, (x i - y i) * (x i - y i) ≤ ∑ i, (x i - p i) * (x i - p i)) : y = p := by
  have e : ∑ i, (x i - y i) * (x i - y i) =
      ∑ i, (x i - p i) * (x i - p i) + ∑ i, (y i - p i) * (y i - p i)
        - 2 * ∑ i, (x i - p i) * (y i - p i) := by
    rw [Finset.mul_sum, ← Finset.sum_add_distrib, ← Finset.sum_sub_distrib]
    apply Finset.sum_congr rfl; intro i _; ring
  have h2 : 0 ≤ ∑ i, (y i - p i) * (y i - p i) :=
    Finset.sum_nonneg fun i _ => mul_self_nonneg _
  have h0 : ∑ i, (y i - p i) * (y i - p i) = 0 := by rw [e] at hle; linarith
  funext i
  have := (Finset.sum_eq_zero_iff_of_nonneg (fun i _ => mul_self_nonneg (y i - p i))).1 h0 i
    (Finset.mem_univ i)
  exact sub_eq_zero.1 (mul_self_eq_zero.1 this)

end generic

variable {K : Type} [Field K] [LinearOrder K] [IsStrictOrderedRing K] {m n : Nat}

/-! ### stacked inner products and distances as `Finset` sums -/

def ip1 (u v : Vec K n) : K := ∑ i, u.get i * v.get i
def ip2 (u v : Mat K m n) : K := ∑ x, ∑ i, u.get x i * v.get x i
def ip3 {p : Nat} (u v : Ten K m n p) : K := ∑ x, ∑ a, ∑ b, u.get x a b * v.get x a b

theorem sqd1_eq (u v : Vec K n) : sqd1 u v = ∑ i, (u.get i - v.get i) * (u.get i - v.get i) := by
  simp [sqd1, fsum_eq_sum]
theorem sqd2_eq (u v : Mat K m n) :
    sqd2 u v = ∑ xi : Fin m × Fin n, (u.get xi.1 xi.2 - v.get xi.1 xi.2) * (u.get xi.1 xi.2 - v.get xi.1 xi.2) := by
  simp [sqd2, fsum_eq_sum, Fintype.sum_prod_type]
theorem sqd3_eq {p : Nat} (u v : Ten K m n p) :
    sqd3 u v = ∑ t : Fin m × Fin n × Fin p,
      (u.get t.1 t.2.1 t.2.2 - v.get t.1 t.2.1 t.2.2) * (u.get t.1 t.2.1 t.2.2 - v.get t.1 t.2.1 t.2.2) := by
  simp [sqd3, fsum_eq_sum, Fintype.sum_prod_type]

/-- `nearest_of_vi` for the three stacked shapes -/
theorem nearest1 (x p y : Vec K n) (h : ip1 (x.sub p) (y.sub p) ≤ 0) : sqd1 x p ≤ sqd1 x y := by
  rw [sqd1_eq, sqd1_eq]
  apply nearest_of_vi (fun i => x.get i) (fun i => p.get i) (fun i => y.get i)
  simpa [ip1, Vec.sub] using h

theorem nearest2 (x p y : Mat K m n) (h : ip2 (x.sub p) (y.sub p) ≤ 0) : sqd2 x p ≤ sqd2 x y := by
  rw [sqd2_eq, sqd2_eq]
  apply nearest_of_vi (fun xi : Fin m × Fin n => x.get xi.1 xi.2) (fun xi => p.get xi.1 xi.2)
    (fun xi => y.get xi.1 xi.2)
  simpa [ip2, Mat.sub, Fintype.sum_prod_type] using h

def Ten.sub {p : Nat} (u v : Ten K m n p) : Ten K m n p := Ten.ofFn fun x a b => u.get x a b - v.get x a b

theorem nearest3 {p : Nat} (x q y : Ten K m n p) (h : ip3 (Ten.sub x q) (Ten.sub y q) ≤ 0) :
    sqd3 x q ≤ sqd3 x y := by
  rw [sqd3_eq, sqd3_eq]
  apply nearest_of_vi (fun t : Fin m × Fin n × Fin p => x.get t.1 t.2.1 t.2.2)
    (fun t => q.get t.1 t.2.1 t.2.2) (fun t => y.get t.1 t.2.1 t.2.2)
  simpa [ip3, Ten.sub, Fintype.sum_prod_type] using h

/-! ### feasible sets -/

/-- trace one: the coefficient of `B_0 = 1/√d` is `s = 1/√d` -/
def State.Feas (s : K) (v : Vec K n) : Prop := ∀ i : Fin n, i.val = 0 → v.get i = s
/-- the elements sum to the identity `√d·B_0` -/
def Povm.Feas (t : K) (A : Mat K m n) : Prop := ∀ i : Fin n, ∑ x, A.get x i = if i.val = 0 then t else 0
/-- trace preserving: first HS row is `e0` -/
def Gate.Feas (H : Mat K n n) : Prop := ∀ a b : Fin n, a.val = 0 → H.get a b = e0 b
/-- the sum over outcomes is trace preserving -/
def MProcess.Feas (T : Ten K m n n) : Prop :=
  ∀ a b : Fin n, a.val = 0 → ∑ x, T.get x a b = e0 b

/-! ### entry formulas -/

theorem State.projEq_get (s : K) (v : Vec K n) (i : Fin n) :
    (State.projEq s v).get i = if i.val = 0 then s else v.get i := by simp [State.projEq]

theorem Povm.projEq_get (t : K) (A : Mat K m n) (x : Fin m) (i : Fin n) :
    (Povm.projEq t A).get x i =
      A.get x i - (∑ x', A.get x' i) / (m : K) + (if i.val = 0 then t / (m : K) else 0) := by
  simp [Povm.projEq, fsum_eq_sum]

theorem Gate.projEq_get (H : Mat K n n) (a b : Fin n) :
    (Gate.projEq H).get a b = if a.val = 0 then e0 b else H.get a b := by
  simp [Gate.projEq, e0]

theorem MProcess.projEq_get (T : Ten K m n n) (x : Fin m) (a b : Fin n) :
    (MProcess.projEq T).get x a b =
      if a.val = 0 then T.get x a b - ((∑ x', T.get x' a b) - e0 b) / (m : K) else T.get x a b := by
  simp only [MProcess.projEq, Ten.get_ofFn, Vec.get_ofFn, fsum_eq_sum, e0]
  split
  · rename_i ha
    congr 3
    apply Finset.sum_congr rfl; intro x' _
    rw [Finset.sum_eq_single a]
    · simp [ha]
    · intro a' _ hne
      have : a'.val ≠ 0 := fun h => hne (Fin.ext (by omega))
      simp [this]
    · simp
  · rfl

end C04
end QM
