import QProofs.C07
import Mathlib.Analysis.Matrix.Order
import Mathlib.Analysis.Matrix.PosDef
import Mathlib.Tactic.FinCases
/-! helper lemmas for C07: the qutrit → qubit embedding as conjugation with an isometry -/
open Matrix
namespace QM.C07

section iso
variable {t N : Nat} {R : Type} [CommRing R] [StarRing R]

/-- the isometry `V|p⟩ = |ι p⟩` of an injective map of basis labels -/
def isoV (R : Type) [CommRing R] (ι : Fin t → Fin N) : Matrix (Fin N) (Fin t) R := fun i p => if i = ι p then 1 else 0

/-- the projector onto the orthogonal complement of the embedded subspace -/
def isoQ (R : Type) [CommRing R] [StarRing R] (ι : Fin t → Fin N) : Matrix (Fin N) (Fin N) R :=
  1 - isoV R ι * (isoV R ι)ᴴ

/-- `V M Vᴴ + c·(1 − V Vᴴ)`: `M` on the embedded subspace, `c` on its orthogonal complement -/
def embIso (ι : Fin t → Fin N) (M : Matrix (Fin t) (Fin t) R) (c : R) : Matrix (Fin N) (Fin N) R :=
  isoV R ι * M * (isoV R ι)ᴴ + c • isoQ R ι

variable (ι : Fin t → Fin N) (hι : Function.Injective ι)
include hι

theorem isoV_isometry : (isoV R ι)ᴴ * isoV R ι = 1 := by
  ext p q
  simp only [mul_apply, conjTranspose_apply, isoV, one_apply]
  rw [Finset.sum_eq_single (ι p)]
  · by_cases h : p = q
    · subst h; simp
    · have : ι p ≠ ι q := fun e => h (hι e)
      simp [h, this]
  · intro i _ hi; simp [hi]
  · simp

theorem isoVh_Q : (isoV R ι)ᴴ * isoQ R ι = 0 := by
  rw [isoQ, Matrix.mul_sub, Matrix.mul_one, ← Matrix.mul_assoc, isoV_isometry ι hι, Matrix.one_mul, sub_self]

theorem isoQ_V : isoQ R ι * isoV R ι = 0 := by
  rw [isoQ, Matrix.sub_mul, Matrix.one_mul, Matrix.mul_assoc, isoV_isometry ι hι, Matrix.mul_one, sub_self]

theorem isoQ_idem : isoQ R ι * isoQ R ι = isoQ R ι := by
  have h : isoV R ι * (isoV R ι)ᴴ * isoQ R ι = 0 := by
    rw [Matrix.mul_assoc, isoVh_Q ι hι, Matrix.mul_zero]
  calc isoQ R ι * isoQ R ι = (1 - isoV R ι * (isoV R ι)ᴴ) * isoQ R ι := by rw [isoQ]
    _ = isoQ R ι := by rw [Matrix.sub_mul, Matrix.one_mul, h, sub_zero]

omit hι in
theorem isoQ_herm : (isoQ R ι)ᴴ = isoQ R ι := by
  simp [isoQ, conjTranspose_sub, conjTranspose_mul]

/-- embedding is multiplicative: `emb(A,a)·emb(B,b) = emb(AB, ab)` -/
theorem embIso_mul (A B : Matrix (Fin t) (Fin t) R) (a b : R) :
    embIso ι A a * embIso ι B b = embIso ι (A * B) (a * b) := by
  have h1 := isoV_isometry (R := R) ι hι
  have e1 : isoV R ι * A * (isoV R ι)ᴴ * (isoV R ι * B * (isoV R ι)ᴴ) = isoV R ι * (A * B) * (isoV R ι)ᴴ := by
    calc _ = isoV R ι * A * ((isoV R ι)ᴴ * isoV R ι) * B * (isoV R ι)ᴴ := by simp only [Matrix.mul_assoc]
      _ = _ := by rw [h1]; simp only [Matrix.mul_one, Matrix.mul_assoc]
  have e2 : isoV R ι * A * (isoV R ι)ᴴ * isoQ R ι = 0 := by
    rw [Matrix.mul_assoc, isoVh_Q ι hι, Matrix.mul_zero]
  have e3 : isoQ R ι * (isoV R ι * B * (isoV R ι)ᴴ) = 0 := by
    rw [← Matrix.mul_assoc, ← Matrix.mul_assoc, isoQ_V ι hι]; simp
  simp only [embIso, add_mul, mul_add, e1, smul_mul_assoc, mul_smul_comm, e2, e3, isoQ_idem ι hι, smul_zero,
    add_zero, zero_add, smul_smul]
  rw [mul_comm b a]

omit hι in
theorem embIso_conjTranspose (M : Matrix (Fin t) (Fin t) R) (c : R) :
    (embIso ι M c)ᴴ = embIso ι Mᴴ (star c) := by
  simp [embIso, conjTranspose_add, conjTranspose_mul, conjTranspose_smul, isoQ_herm, Matrix.mul_assoc]

omit hι in
theorem embIso_add (A B : Matrix (Fin t) (Fin t) R) (a b : R) :
    embIso ι A a + embIso ι B b = embIso ι (A + B) (a + b) := by
  simp only [embIso, Matrix.mul_add, Matrix.add_mul, add_smul]; abel

omit hι in
theorem embIso_one : embIso ι (1 : Matrix (Fin t) (Fin t) R) 1 = 1 := by
  simp [embIso, isoQ]

theorem embIso_trace (M : Matrix (Fin t) (Fin t) R) (c : R) :
    (embIso ι M c).trace = M.trace + c * ((N : R) - (t : R)) := by
  have h1 := isoV_isometry (R := R) ι hι
  simp only [embIso, isoQ, trace_add, trace_smul, trace_sub, trace_one, Fintype.card_fin, smul_eq_mul]
  rw [Matrix.trace_mul_comm, ← Matrix.mul_assoc, h1, Matrix.one_mul, Matrix.trace_mul_comm (isoV R ι), h1,
    trace_one, Fintype.card_fin]

omit hι in
theorem embIso_zero : embIso ι (0 : Matrix (Fin t) (Fin t) R) 0 = 0 := by simp [embIso]

omit hι in
/-- embedding a list of matrices, each with the same complement coefficient, and summing -/
theorem embIso_list_sum (l : List (Matrix (Fin t) (Fin t) R)) (c : R) :
    (l.map fun M => embIso ι M c).sum = embIso ι l.sum ((l.length : R) * c) := by
  induction l with
  | nil => simp [embIso_zero]
  | cons M l ih =>
    simp only [List.map_cons, List.sum_cons, ih, embIso_add, List.length_cons, Nat.cast_add, Nat.cast_one]
    congr 1; ring

/-- entries of the embedded matrix, with `inv` a partial inverse of `ι`: the input entry between embedded basis
states, `c` on the rest of the diagonal, 0 elsewhere -/
theorem embIso_apply (inv : Fin N → Option (Fin t)) (hinv : ∀ i p, inv i = some p ↔ ι p = i)
    (M : Matrix (Fin t) (Fin t) R) (c : R) (i j : Fin N) :
    embIso ι M c i j = match inv i, inv j with
      | some p, some q => M p q
      | _, _ => if i = j then c else 0 := by
  have hVM : ∀ i j, (isoV R ι * M * (isoV R ι)ᴴ) i j
      = ∑ p, ∑ q, (if i = ι p then 1 else 0) * M p q * (if j = ι q then 1 else 0) := by
    intro i j
    simp only [mul_apply, conjTranspose_apply, isoV, Finset.sum_mul]
    rw [Finset.sum_comm]
    apply Finset.sum_congr rfl; intro p _
    apply Finset.sum_congr rfl; intro q _
    by_cases h : j = ι q <;> simp [h]
  have hVV : ∀ i j, (isoV R ι * (isoV R ι)ᴴ) i j = ∑ p, (if i = ι p then 1 else 0) * (if j = ι p then 1 else 0) := by
    intro i j
    simp only [mul_apply, conjTranspose_apply, isoV]
    apply Finset.sum_congr rfl; intro p _
    by_cases h : j = ι p <;> simp [h]
  have hE : embIso ι M c i j = (∑ p, ∑ q, (if i = ι p then 1 else 0) * M p q * (if j = ι q then 1 else 0))
      + c * ((if i = j then 1 else 0) - ∑ p, (if i = ι p then 1 else 0) * (if j = ι p then 1 else 0)) := by
    simp only [embIso, isoQ, Matrix.add_apply, Matrix.smul_apply, Matrix.sub_apply, hVM, hVV, smul_eq_mul,
      Matrix.one_apply]
  rw [hE]
  cases hi : inv i with
  | none =>
    have hni : ∀ p, i ≠ ι p := fun p e => by
      have := (hinv i p).2 e.symm; rw [hi] at this; cases this
    simp [hni]
  | some p =>
    have hip : i = ι p := ((hinv i p).1 hi).symm
    cases hj : inv j with
    | none =>
      have hnj : ∀ q, j ≠ ι q := fun q e => by
        have := (hinv j q).2 e.symm; rw [hj] at this; cases this
      have hij : i ≠ j := fun e => hnj p (e ▸ hip)
      simp [hnj, hij]
    | some q =>
      have hjq : j = ι q := ((hinv j q).1 hj).symm
      subst hip hjq
      have e1 : ∀ p', (ι p = ι p') ↔ p = p' := fun p' => ⟨fun e => hι e, fun e => e ▸ rfl⟩
      have e2 : ∀ q', (ι q = ι q') ↔ q = q' := fun q' => ⟨fun e => hι e, fun e => e ▸ rfl⟩
      simp only [e1, e2]
      rw [Finset.sum_eq_single p, Finset.sum_eq_single q]
      · by_cases hpq : p = q
        · subst hpq; simp
        · have : ι p ≠ ι q := fun e => hpq (hι e)
          simp [hpq, this]
      · intro q' _ hq'; simp [Ne.symm hq']
      · simp
      · intro p' _ hp'; simp [Ne.symm hp']
      · simp

end iso

section psd
open scoped ComplexOrder
variable {t N : Nat} (ι : Fin t → Fin N) (hι : Function.Injective ι)
include hι

/-- the embedding of a PSD matrix with a non-negative complement coefficient is PSD -/
theorem embIso_posSemidef (M : Matrix (Fin t) (Fin t) ℂ) (hM : M.PosSemidef) (c : ℂ) (hc : 0 ≤ c) :
    (embIso ι M c).PosSemidef := by
  have h1 : (isoV ℂ ι * M * (isoV ℂ ι)ᴴ).PosSemidef := hM.mul_mul_conjTranspose_same _
  have h2 : (isoQ ℂ ι).PosSemidef := by
    have := posSemidef_conjTranspose_mul_self (isoQ ℂ ι)
    rwa [isoQ_herm, isoQ_idem ι hι] at this
  exact h1.add (h2.smul hc)

end psd

/-! ### the model's embedding is this isometric embedding (one and two qutrits) -/
section tie
variable {R : Type} [CommRing R] [StarRing R]

/-- a matrix as the `Nat`-indexed function `_calc_matrix_from_qutrits_to_qubits` reads -/
def natFn {t : Nat} (M : Matrix (Fin t) (Fin t) R) (p q : Nat) : R :=
  if h : p < t ∧ q < t then M ⟨p, h.1⟩ ⟨q, h.2⟩ else 0

def iota1 : Fin 3 → Fin 4 := fun p => ⟨p.val, by omega⟩
def inv1 : Fin 4 → Option (Fin 3) := fun i => if h : i.val < 3 then some ⟨i.val, h⟩ else none
def iota2 : Fin 9 → Fin 16 := fun p => ⟨4 * (p.val / 3) + p.val % 3, by omega⟩
def inv2 : Fin 16 → Option (Fin 9) := fun i =>
  if h : i.val / 4 < 3 ∧ i.val % 4 < 3 then some ⟨3 * (i.val / 4) + i.val % 4, by omega⟩ else none

theorem iota1_inj : Function.Injective iota1 := by decide
theorem iota2_inj : Function.Injective iota2 := by decide
theorem inv1_spec : ∀ i p, inv1 i = some p ↔ iota1 p = i := by decide
theorem inv2_spec : ∀ i p, inv2 i = some p ↔ iota2 p = i := by decide

end tie

end QM.C07
