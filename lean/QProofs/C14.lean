import Mathlib.Tactic.Linarith
import Mathlib.Algebra.Order.Field.Rat
import Mathlib.Algebra.BigOperators.Group.List.Basic
import Mathlib.Algebra.Order.BigOperators.Group.List
import QModel.C14
/-!
# C14 — helper lemmas
-/
namespace QM.C14

/-! ## the generated pieces (QGen.C14) mean what the theorems assume: a source edit breaks exactly these -/

theorem hit_iff (u c : Rat) : QGen.C14.hit u c = true ↔ u < c := by simp [QGen.C14.hit]
theorem cumStart_eq : QGen.C14.cumStart = 0 := rfl
theorem fallThrough_eq (n : Int) : QGen.C14.fallThrough n = n - 1 := rfl

theorem r2dLoop_nil (u cum : Rat) (idx : Nat) : r2dLoop [] u cum idx = none := rfl
theorem r2dLoop_cons (p : Rat) (ps : List Rat) (u cum : Rat) (idx : Nat) :
    r2dLoop (p :: ps) u cum idx = if u < cum + p then some idx else r2dLoop ps u (cum + p) (idx + 1) := by
  simp only [r2dLoop]
  by_cases h : u < cum + p
  · rw [if_pos h, if_pos ((hit_iff _ _).2 h)]
  · rw [if_neg h, if_neg (fun hh => h ((hit_iff _ _).1 hh))]

theorem fallKeep_iff (p : Rat) : QGen.C14.fallKeep p = true ↔ 0 < p := by simp [QGen.C14.fallKeep]

theorem randomNumberToData_def (probs : List Rat) (u : Rat) :
    randomNumberToData probs u = match r2dLoop probs u 0 0 with
      | some i => (i : Int)
      | none => fallResult probs := by
  unfold randomNumberToData
  rw [cumStart_eq]
  cases r2dLoop probs u 0 0 <;> rfl

theorem lastKeep_none_iff (ps : List Rat) (idx : Nat) : lastKeep ps idx = none ↔ ∀ p ∈ ps, ¬ 0 < p := by
  induction ps generalizing idx with
  | nil => simp [lastKeep]
  | cons p t ih =>
    simp only [lastKeep, List.mem_cons, forall_eq_or_imp]
    cases hrec : lastKeep t (idx + 1) with
    | some j =>
      simp only [reduceCtorEq, false_iff, not_and]
      intro _ hall
      rw [(ih (idx + 1)).2 hall] at hrec; cases hrec
    | none =>
      have hall := (ih (idx + 1)).1 hrec
      by_cases hp : QGen.C14.fallKeep p = true
      · simp only [hp, if_true, reduceCtorEq, false_iff, not_and]
        intro h; exact absurd ((fallKeep_iff p).1 hp) h
      · simp only [hp, Bool.false_eq_true, if_false, true_iff]
        exact ⟨fun h => hp ((fallKeep_iff p).2 h), hall⟩

/-- the backward loop finds a position inside the list whose entry is positive, and nothing positive lies behind it -/
theorem lastKeep_some (ps : List Rat) (idx j : Nat) (h : lastKeep ps idx = some j) :
    ∃ k, j = idx + k ∧ ∃ hk : k < ps.length, 0 < ps[k] ∧ ∀ k' (hk' : k' < ps.length), k < k' → ¬ 0 < ps[k'] := by
  induction ps generalizing idx with
  | nil => simp [lastKeep] at h
  | cons p t ih =>
    simp only [lastKeep] at h
    cases hrec : lastKeep t (idx + 1) with
    | some j' =>
      rw [hrec] at h; injection h with h; subst h
      obtain ⟨k, hk, hlt, hpos, hall⟩ := ih (idx + 1) hrec
      refine ⟨k + 1, by omega, by simpa using hlt, by simpa using hpos, ?_⟩
      intro k' hk' hgt
      cases k' with
      | zero => omega
      | succ k'' => simpa using hall k'' (by simpa using hk') (by omega)
    | none =>
      rw [hrec] at h
      simp only at h
      split at h
      · rename_i hp
        injection h with h; subst h
        refine ⟨0, rfl, by simp, by simpa using (fallKeep_iff p).1 hp, ?_⟩
        intro k' hk' hgt
        cases k' with
        | zero => omega
        | succ k'' =>
          have hk2 : k'' < t.length := by simpa using hk'
          have hmem : t[k''] ∈ t := List.getElem_mem hk2
          simpa using (lastKeep_none_iff t (idx + 1)).1 hrec _ hmem
      · cases h

theorem toStream_none {G : Type} (P : PRNG G) : toStream P .none = .glob := rfl
theorem toStream_int {G : Type} (P : PRNG G) (s : Int) : toStream P (.int s) = .fresh (P.seed s) := rfl
theorem toStream_gen {G : Type} (P : PRNG G) (k : Nat) : toStream P (.gen k) = .held k := rfl

theorem empiLoop_nil (m len index : Nat) (freq : List Nat) (next : Int) (pos : Nat) (rest : List Int)
    (acc : List (Int × List Rat)) : empiLoop m len [] index freq next pos rest acc = .ok acc.reverse := rfl

/-- the loop body with the generated tests spelled out (this is where an edited comparison / offset shows) -/
theorem empiLoop_cons (m len : Nat) (d : Int) (ds : List Int) (index : Nat) (freq : List Nat) (next : Int) (pos : Nat)
    (rest : List Int) (acc : List (Int × List Rat)) :
    empiLoop m len (d :: ds) index freq next pos rest acc =
      if ¬ (0 ≤ d ∧ d < (m : Int)) then .error (.dataOutOfRange index)
      else
        let freq' := bump freq d.toNat
        if ((index : Int) + 1) = next then
          let acc' := (next, freq'.map fun (c : Nat) => ((c : Int) : Rat) / (((index + 1 : Nat) : Int) : Rat)) :: acc
          match rest with
          | [] => .ok acc'.reverse
          | n2 :: rest' =>
            if n2 > (len : Int) then .error (.numSumTooLarge (pos + 1))
            else if next ≥ n2 then .error (.notIncreasing (pos + 1))
            else empiLoop m len ds (index + 1) freq' n2 (pos + 1) rest' acc'
        else empiLoop m len ds (index + 1) freq' next pos rest acc := by
  simp only [empiLoop, QGen.C14.empiInRange, QGen.C14.empiHit, QGen.C14.empiDiv, QGen.C14.empiTooLarge,
    QGen.C14.empiNotIncreasing, Bool.not_eq_true', decide_eq_false_iff_not, decide_eq_true_eq]
  cases rest <;> rfl

theorem calcEmpiDistSequence_def (measurementNum : Int) (data : List Int) (numSums : List Int) :
    calcEmpiDistSequence measurementNum data numSums =
      if measurementNum < 0 then .error .negativeMeasurementNum
      else match numSums with
        | [] => .ok []
        | n0 :: rest =>
          if n0 > (data.length : Int) then .error (.numSumTooLarge 0)
          else empiLoop measurementNum.toNat data.length data 0 (List.replicate measurementNum.toNat 0) n0 0 rest [] := by
  simp only [calcEmpiDistSequence, QGen.C14.empiNegative, QGen.C14.empiTooLarge, decide_eq_true_eq]
  cases numSums <;> rfl

/-! ## inversion loop -/

theorem r2dLoop_lt (ps : List Rat) (u cum : Rat) (idx i : Nat) (h : r2dLoop ps u cum idx = some i) :
    idx ≤ i ∧ i < idx + ps.length := by
  induction ps generalizing cum idx with
  | nil => simp [r2dLoop_nil] at h
  | cons p t ih =>
    simp only [r2dLoop_cons] at h
    split at h
    · injection h with h; subst h; simp
    · have := ih _ _ h
      simp only [List.length_cons]; omega

/-- the loop returns the *first* position whose running sum exceeds `u` (no sign assumption) -/
theorem r2dLoop_some_iff (ps : List Rat) (u cum : Rat) (idx i : Nat) :
    r2dLoop ps u cum idx = some i ↔
      ∃ k, i = idx + k ∧ k < ps.length ∧ u < cum + (ps.take (k + 1)).sum ∧
        ∀ j < k, cum + (ps.take (j + 1)).sum ≤ u := by
  induction ps generalizing cum idx with
  | nil => simp [r2dLoop_nil]
  | cons p t ih =>
    simp only [r2dLoop_cons]
    split
    · rename_i hlt
      constructor
      · intro h; injection h with h; subst h
        exact ⟨0, rfl, by simp, by simpa using hlt, by simp⟩
      · rintro ⟨k, rfl, _, _, hall⟩
        cases k with
        | zero => rfl
        | succ k =>
          have := hall 0 (by omega)
          simp at this; linarith
    · rename_i hge
      rw [ih]
      constructor
      · rintro ⟨k, rfl, hk, hlt, hall⟩
        refine ⟨k + 1, by omega, by simpa using hk, ?_, ?_⟩
        · simp only [List.take_succ_cons, List.sum_cons]; linarith
        · intro j hj
          cases j with
          | zero => simp; linarith
          | succ j =>
            have := hall j (by omega)
            simp only [List.take_succ_cons, List.sum_cons]; linarith
      · rintro ⟨k, rfl, hk, hlt, hall⟩
        cases k with
        | zero => simp at hlt; exact absurd hlt hge
        | succ k =>
          refine ⟨k, by omega, by simpa using hk, ?_, ?_⟩
          · simp only [List.take_succ_cons, List.sum_cons] at hlt; linarith
          · intro j hj
            have := hall (j + 1) (by omega)
            simp only [List.take_succ_cons, List.sum_cons] at this; linarith

theorem sum_take_mono (ps : List Rat) (hnn : ∀ p ∈ ps, 0 ≤ p) (a b : Nat) (hab : a ≤ b) :
    (ps.take a).sum ≤ (ps.take b).sum := by
  induction ps generalizing a b with
  | nil => simp
  | cons p t ih =>
    cases a with
    | zero =>
      simp only [List.take_zero, List.sum_nil]
      apply List.sum_nonneg
      intro x hx; exact hnn x (List.mem_of_mem_take hx)
    | succ a =>
      cases b with
      | zero => omega
      | succ b =>
        simp only [List.take_succ_cons, List.sum_cons]
        have := ih (fun x hx => hnn x (by simp [hx])) a b (by omega)
        linarith

theorem sum_take_le_sum (ps : List Rat) (hnn : ∀ p ∈ ps, 0 ≤ p) (a : Nat) : (ps.take a).sum ≤ ps.sum := by
  by_cases h : a ≤ ps.length
  · have := sum_take_mono ps hnn a ps.length h
    simpa using this
  · rw [List.take_of_length_le (by omega)]

theorem r2dLoop_none_iff (ps : List Rat) (hnn : ∀ p ∈ ps, 0 ≤ p) (u cum : Rat) (idx : Nat) (hcu : cum ≤ u) :
    r2dLoop ps u cum idx = none ↔ cum + ps.sum ≤ u := by
  induction ps generalizing cum idx with
  | nil => simp [r2dLoop_nil, hcu]
  | cons p t ih =>
    simp only [r2dLoop_cons, List.sum_cons]
    have hp := hnn p (by simp)
    have ht : 0 ≤ t.sum := List.sum_nonneg (fun x hx => hnn x (by simp [hx]))
    split
    · rename_i hlt
      simp only [reduceCtorEq, false_iff]; intro h; linarith
    · rename_i hge
      rw [ih (fun x hx => hnn x (by simp [hx])) _ _ (by linarith)]
      constructor <;> intro h <;> linarith

/-! ## empirical distributions -/

/-- numbers of occurrences of the outcomes `start, …, start+m-1` in `l` -/
def countsFrom (start m : Nat) (l : List Int) : List Nat :=
  (List.range' start m).map fun k => l.count ((k : Nat) : Int)

/-- the count vector `np.bincount(l, minlength=m)` -/
def countsOf (m : Nat) (l : List Int) : List Nat := countsFrom 0 m l

/-- the specified entry for sample size `n`: `(n, counts(data[:n]) / n)` -/
def empiEntry (m : Nat) (data : List Int) (n : Int) : Int × List Rat :=
  (n, (countsOf m (data.take n.toNat)).map fun (c : Nat) => ((c : Int) : Rat) / (n : Rat))

theorem countsFrom_succ (start m : Nat) (l : List Int) :
    countsFrom start (m + 1) l = l.count ((start : Nat) : Int) :: countsFrom (start + 1) m l := by
  simp [countsFrom, List.range'_succ]

theorem countsFrom_append_lt (start m : Nat) (pre : List Int) (x : Nat) (hx : x < start) :
    countsFrom start m (pre ++ [((x : Nat) : Int)]) = countsFrom start m pre := by
  unfold countsFrom
  apply List.map_congr_left
  intro k hk
  have hk' := (List.mem_range'_1.1 hk).1
  have hne : ((x : Nat) : Int) ≠ ((k : Nat) : Int) := by
    intro h; have : x = k := by exact_mod_cast h
    omega
  simp [List.count_append, List.count_singleton, hne]

theorem bump_countsFrom (start m : Nat) (pre : List Int) (d' : Nat) (hd : d' < m) :
    bump (countsFrom start m pre) d' = countsFrom start m (pre ++ [((start + d' : Nat) : Int)]) := by
  induction m generalizing start d' with
  | zero => omega
  | succ m ih =>
    rw [countsFrom_succ, countsFrom_succ]
    cases d' with
    | zero =>
      simp only [bump, Nat.add_zero]
      rw [countsFrom_append_lt (start + 1) m pre start (by omega)]
      simp [List.count_append, List.count_singleton]
    | succ d'' =>
      simp only [bump]
      have hne : ((start + (d'' + 1) : Nat) : Int) ≠ ((start : Nat) : Int) := by
        intro h; have : start + (d'' + 1) = start := by exact_mod_cast h
        omega
      have := ih (start + 1) d'' (by omega)
      have he : start + 1 + d'' = start + (d'' + 1) := by omega
      rw [he] at this
      rw [this]
      simp only [List.count_append, List.count_singleton, beq_iff_eq, if_neg hne, Nat.add_zero]

theorem countsFrom_nil (start m : Nat) : countsFrom start m [] = List.replicate m 0 := by
  induction m generalizing start with
  | zero => rfl
  | succ m ih => rw [countsFrom_succ, ih]; simp [List.replicate_succ]

theorem countsOf_nil (m : Nat) : countsOf m [] = List.replicate m 0 := countsFrom_nil 0 m

theorem bump_countsOf (m : Nat) (pre : List Int) (d : Int) (h0 : 0 ≤ d) (hm : d < (m : Int)) :
    bump (countsOf m pre) d.toNat = countsOf m (pre ++ [d]) := by
  have := bump_countsFrom 0 m pre d.toNat (by omega)
  simp only [Nat.zero_add] at this
  rw [show ((d.toNat : Nat) : Int) = d from Int.toNat_of_nonneg h0] at this
  exact this

/-- loop invariant of `calc_empi_dist_sequence`: having consumed `pre` (frequency vector = its counts) with the
next requested size still ahead, a successful run appends exactly the specified entries for the remaining sizes -/
theorem empiLoop_spec (m : Nat) (data : List Int) :
    ∀ (ds pre : List Int) (next : Int) (pos : Nat) (rest : List Int) (acc out : List (Int × List Rat)),
      data = pre ++ ds → (pre.length : Int) < next → next ≤ (data.length : Int) →
      empiLoop m data.length ds pre.length (countsOf m pre) next pos rest acc = .ok out →
      out = acc.reverse ++ (next :: rest).map (empiEntry m data) := by
  intro ds
  induction ds with
  | nil =>
    intro pre next pos rest acc out hd hlt hle _
    subst hd; simp at hle; omega
  | cons d ds ih =>
    intro pre next pos rest acc out hd hlt hle h
    simp only [empiLoop_cons] at h
    split at h
    · cases h
    · rename_i hrange
      have hrange' : 0 ≤ d ∧ d < (m : Int) := Classical.not_not.1 hrange
      have hb := bump_countsOf m pre d hrange'.1 hrange'.2
      have hd' : data = (pre ++ [d]) ++ ds := by simp [hd]
      have hlen : pre.length + 1 = (pre ++ [d]).length := by simp
      rw [hb, hlen] at h
      split at h
      · rename_i hnext
        have hn : next = ((pre ++ [d]).length : Int) := by rw [← hnext]; simp
        have hentry : (next, (countsOf m (pre ++ [d])).map fun (c : Nat) =>
            ((c : Int) : Rat) / ((((pre ++ [d]).length : Nat) : Int) : Rat)) = empiEntry m data next := by
          unfold empiEntry
          have : data.take next.toNat = pre ++ [d] := by
            rw [hn, Int.toNat_natCast, hd']
            exact List.take_left' rfl
          rw [this, hn]
        rw [hentry] at h
        split at h
        · injection h with h; subst h; simp
        · rename_i n2 rest'
          split at h
          · cases h
          · split at h
            · cases h
            · rename_i hle2 hinc
              have := ih (pre ++ [d]) n2 (pos + 1) rest' _ out hd' (by omega) (by omega) h
              rw [this]; simp
      · rename_i hnext
        have hlt' : (((pre ++ [d]).length : Nat) : Int) < next := by
          simp only [List.length_append, List.length_cons, List.length_nil] at hnext ⊢
          omega
        exact ih (pre ++ [d]) next pos rest acc out hd' hlt' hle h

theorem countsFrom_append (start m : Nat) (l1 l2 : List Int) :
    countsFrom start m (l1 ++ l2) = List.zipWith (· + ·) (countsFrom start m l1) (countsFrom start m l2) := by
  induction m generalizing start with
  | zero => simp [countsFrom]
  | succ m ih => simp [countsFrom_succ, ih, List.count_append]

/-! ## streams -/

theorem drawN_add {G : Type} (P : PRNG G) (g : G) (n1 n2 : Nat) :
    drawN P g (n1 + n2) =
      ((drawN P g n1).1 ++ (drawN P (drawN P g n1).2 n2).1, (drawN P (drawN P g n1).2 n2).2) := by
  induction n1 generalizing g with
  | zero => simp [drawN]
  | succ n ih =>
    have : n + 1 + n2 = (n + n2) + 1 := by omega
    rw [this]
    simp only [drawN]
    rw [ih]
    simp

theorem drawN_length {G : Type} (P : PRNG G) (g : G) (n : Nat) : (drawN P g n).1.length = n := by
  induction n generalizing g with
  | zero => rfl
  | succ n ih => simp [drawN, ih]

/-- on a fresh generator a data draw never touches the store and does not depend on it -/
theorem genDataOn_fresh {G : Type} (P : PRNG G) (st : Store G) (g : G) (probs : List Rat) (n : Nat) :
    genDataOn P st (.fresh g) probs n =
      some (dataOfUniforms probs (drawN P g n).1, st, .fresh (drawN P g n).2) := by
  simp [genDataOn, Stream.get, Stream.put]

/-- the dataset drawn from one generator state, as a pure function of that state -/
def datasetPure {G : Type} (P : PRNG G) : G → List (List Rat × Nat) → List (List Int) × G
  | g, [] => ([], g)
  | g, (probs, n) :: rest =>
    let r := datasetPure P (drawN P g n).2 rest
    (dataOfUniforms probs (drawN P g n).1 :: r.1, r.2)

theorem genDatasetOn_fresh {G : Type} (P : PRNG G) (st : Store G) (g : G) (jobs : List (List Rat × Nat)) :
    genDatasetOn P st (.fresh g) jobs =
      some ((datasetPure P g jobs).1, st, .fresh (datasetPure P g jobs).2) := by
  induction jobs generalizing g with
  | nil => rfl
  | cons j rest ih =>
    obtain ⟨probs, n⟩ := j
    simp only [genDatasetOn, genDataOn_fresh, ih, datasetPure]

/-- the empirical-distribution sequence drawn from one generator state, as a pure function of that state -/
def empiSeqPure {G : Type} (P : PRNG G) : G → List Rat → List Int → List (Int × List Rat) × G
  | g, _, [] => ([], g)
  | g, probs, n :: ns =>
    let r := empiSeqPure P (P.multi g n probs).2 probs ns
    ((n, (P.multi g n probs).1.map fun (c : Int) => (c : Rat) / (n : Rat)) :: r.1, r.2)

def empisSeqPure {G : Type} (P : PRNG G) : G → List (List Rat × List Int) → List (List (Int × List Rat)) × G
  | g, [] => ([], g)
  | g, (probs, ns) :: rest =>
    let r := empisSeqPure P (empiSeqPure P g probs ns).2 rest
    ((empiSeqPure P g probs ns).1 :: r.1, r.2)

theorem genEmpiSeqOn_fresh {G : Type} (P : PRNG G) (st : Store G) (g : G) (probs : List Rat) (ns : List Int) :
    genEmpiSeqOn P st (.fresh g) probs ns =
      some ((empiSeqPure P g probs ns).1, st, .fresh (empiSeqPure P g probs ns).2) := by
  induction ns generalizing g with
  | nil => rfl
  | cons n ns ih => simp only [genEmpiSeqOn, Stream.get, Stream.put, ih, empiSeqPure]

theorem genEmpisSeqOn_fresh {G : Type} (P : PRNG G) (st : Store G) (g : G) (jobs : List (List Rat × List Int)) :
    genEmpisSeqOn P st (.fresh g) jobs =
      some ((empisSeqPure P g jobs).1, st, .fresh (empisSeqPure P g jobs).2) := by
  induction jobs generalizing g with
  | nil => rfl
  | cons j rest ih =>
    obtain ⟨probs, ns⟩ := j
    simp only [genEmpisSeqOn, genEmpiSeqOn_fresh, ih, empisSeqPure]


/-! ## counts sum to the length -/


theorem countsFrom_single_sum (start m : Nat) (x : Nat) (h1 : start ≤ x) (h2 : x < start + m) :
    (countsFrom start m [((x : Nat) : Int)]).sum = 1 := by
  induction m generalizing start with
  | zero => omega
  | succ m ih =>
    rw [countsFrom_succ, List.sum_cons]
    by_cases hx : x = start
    · subst hx
      have : countsFrom (x + 1) m [((x : Nat) : Int)] = countsFrom (x + 1) m [] := by
        have := countsFrom_append_lt (x + 1) m [] x (by omega)
        simpa using this
      rw [this, countsFrom_nil]; simp
    · have hne : ((x : Nat) : Int) ≠ ((start : Nat) : Int) := by
        intro h; exact hx (by exact_mod_cast h)
      rw [ih (start + 1) (by omega) (by omega)]
      simp [List.count_singleton, hne]

theorem countsFrom_length (start m : Nat) (l : List Int) : (countsFrom start m l).length = m := by
  simp [countsFrom]

theorem sum_zipWith_add (a b : List Nat) (h : a.length = b.length) :
    (List.zipWith (· + ·) a b).sum = a.sum + b.sum := by
  induction a generalizing b with
  | nil => cases b <;> simp_all
  | cons x xs ih =>
    cases b with
    | nil => simp at h
    | cons y ys =>
      simp only [List.zipWith_cons_cons, List.sum_cons, List.length_cons, Nat.add_right_cancel_iff] at h ⊢
      rw [ih ys h]; omega

theorem countsOf_sum (m : Nat) (l : List Int) (h : ∀ x ∈ l, 0 ≤ x ∧ x < (m : Int)) :
    (countsOf m l).sum = l.length := by
  induction l with
  | nil => simp [countsOf_nil]
  | cons x t ih =>
    have hx := h x (by simp)
    have : x :: t = [x] ++ t := rfl
    rw [this]
    unfold countsOf at ih ⊢
    rw [countsFrom_append, sum_zipWith_add _ _ (by simp [countsFrom_length]),
      ih (fun y hy => h y (by simp [hy]))]
    have hx' : x = ((x.toNat : Nat) : Int) := (Int.toNat_of_nonneg hx.1).symm
    rw [hx', countsFrom_single_sum 0 m x.toNat (by omega) (by omega)]
    simp; omega



/-! ## success ⇔ valid input, error soundness -/


/-- strictly increasing -/
def Increasing : List Int → Prop
  | [] => True
  | [_] => True
  | a :: b :: t => a < b ∧ Increasing (b :: t)

/-- last element of `a :: l` -/
def lastD : Int → List Int → Int
  | a, [] => a
  | _, b :: t => lastD b t

/-- `0 <= d < measurement_num` -/
def InRangeD (m : Nat) (d : Int) : Prop := 0 ≤ d ∧ d < (m : Int)

theorem le_lastD (a : Int) (l : List Int) (h : Increasing (a :: l)) : ∀ n ∈ a :: l, n ≤ lastD a l := by
  induction l generalizing a with
  | nil => intro n hn; simp at hn; subst hn; simp [lastD]
  | cons b t ih =>
    intro n hn
    have hb := ih b h.2
    simp only [lastD]
    rcases List.mem_cons.1 hn with rfl | hn
    · have := hb b (by simp); have := h.1; omega
    · exact hb n hn

/-- ok ⇒ sizes valid and consumed prefix in range -/
theorem empiLoop_ok_valid (m len : Nat) :
    ∀ (ds : List Int) (index : Nat) (freq : List Nat) (next : Int) (pos : Nat) (rest : List Int)
      (acc out : List (Int × List Rat)),
      len = index + ds.length → (index : Int) < next → next ≤ (len : Int) →
      empiLoop m len ds index freq next pos rest acc = .ok out →
      Increasing (next :: rest) ∧ (∀ n ∈ rest, n ≤ (len : Int)) ∧
        ∀ x ∈ ds.take ((lastD next rest).toNat - index), InRangeD m x := by
  intro ds
  induction ds with
  | nil => intro index freq next pos rest acc out hl h1 h2 _; simp at hl; omega
  | cons d ds ih =>
    intro index freq next pos rest acc out hl h1 h2 h
    simp only [List.length_cons] at hl
    simp only [empiLoop_cons] at h
    split at h
    · cases h
    · rename_i hr
      have hr' : InRangeD m d := Classical.not_not.1 hr
      have htake : ∀ (L : Int), (∀ x ∈ ds.take (L.toNat - (index + 1)), InRangeD m x) →
          ∀ x ∈ (d :: ds).take (L.toNat - index), InRangeD m x := by
        intro L hL x hx
        cases hk : L.toNat - index with
        | zero => rw [hk] at hx; simp at hx
        | succ k =>
          rw [hk, List.take_succ_cons] at hx
          rcases List.mem_cons.1 hx with rfl | hx
          · exact hr'
          · exact hL x (by rw [show L.toNat - (index + 1) = k by omega]; exact hx)
      split at h
      · rename_i hnext
        split at h
        · refine ⟨trivial, by simp, ?_⟩
          simp only [lastD]
          intro x hx
          have : next.toNat - index = 1 := by omega
          rw [this] at hx; simp at hx; subst hx; exact hr'
        · rename_i n2 rest'
          split at h
          · cases h
          · split at h
            · cases h
            · rename_i hle hinc
              obtain ⟨g1, g2, g3⟩ := ih (index + 1) _ n2 (pos + 1) rest' _ out (by omega) (by push_cast; omega) (by omega) h
              refine ⟨⟨by omega, g1⟩, ?_, ?_⟩
              · intro n hn
                rcases List.mem_cons.1 hn with rfl | hn
                · omega
                · exact g2 n hn
              · simp only [lastD]; exact htake _ g3
      · rename_i hnext
        obtain ⟨g1, g2, g3⟩ := ih (index + 1) _ next pos rest acc out (by omega) (by push_cast; omega) h2 h
        exact ⟨g1, g2, htake _ g3⟩

/-- valid ⇒ ok -/
theorem empiLoop_valid_ok (m len : Nat) :
    ∀ (ds : List Int) (index : Nat) (freq : List Nat) (next : Int) (pos : Nat) (rest : List Int)
      (acc : List (Int × List Rat)),
      len = index + ds.length → (index : Int) < next → Increasing (next :: rest) →
      (∀ n ∈ next :: rest, n ≤ (len : Int)) →
      (∀ x ∈ ds.take ((lastD next rest).toNat - index), InRangeD m x) →
      ∃ out, empiLoop m len ds index freq next pos rest acc = .ok out := by
  intro ds
  induction ds with
  | nil =>
    intro index freq next pos rest acc hl h1 _ h3 _
    have := h3 next (by simp); simp at hl; omega
  | cons d ds ih =>
    intro index freq next pos rest acc hl h1 hinc hle hrange
    simp only [List.length_cons] at hl
    have hlast := le_lastD next rest hinc next (by simp)
    have hd : InRangeD m d := by
      apply hrange
      cases hk : (lastD next rest).toNat - index with
      | zero => omega
      | succ k => simp
    have hrest : ∀ (L : Int), L = lastD next rest → ∀ x ∈ ds.take (L.toNat - (index + 1)), InRangeD m x := by
      intro L hL x hx
      apply hrange
      subst hL
      cases hk : (lastD next rest).toNat - index with
      | zero => omega
      | succ k =>
        rw [List.take_succ_cons]
        rw [show (lastD next rest).toNat - (index + 1) = k by omega] at hx
        exact List.mem_cons_of_mem _ hx
    simp only [empiLoop_cons]
    have hd' : 0 ≤ d ∧ d < (m : Int) := hd
    rw [if_neg (not_not.2 hd')]
    split
    · rename_i hnext
      cases rest with
      | nil => exact ⟨_, rfl⟩
      | cons n2 rest' =>
        have h2le := hle n2 (by simp)
        simp only []
        rw [if_neg (by omega), if_neg (by have := hinc.1; omega)]
        exact ih (index + 1) _ n2 (pos + 1) rest' _ (by omega) (by have := hinc.1; push_cast; omega) hinc.2
          (fun n hn => hle n (by simp [hn])) (hrest _ (by simp [lastD]))
    · rename_i hnext
      exact ih (index + 1) _ next pos rest acc (by omega) (by push_cast; omega) hinc hle (hrest _ rfl)


/-- error soundness of the loop: every reported error points at an actual defect at the reported position -/
theorem empiLoop_error_sound (m len : Nat) :
    ∀ (ds : List Int) (index : Nat) (freq : List Nat) (next : Int) (pos : Nat) (rest : List Int)
      (acc : List (Int × List Rat)) (e : EmpiErr),
      empiLoop m len ds index freq next pos rest acc = .error e →
      (∃ i d, e = .dataOutOfRange (index + i) ∧ ds[i]? = some d ∧ ¬ InRangeD m d ∧
          ∀ j x, j < i → ds[j]? = some x → InRangeD m x) ∨
      (∃ k n, e = .numSumTooLarge (pos + 1 + k) ∧ rest[k]? = some n ∧ n > (len : Int)) ∨
      (∃ k a b, e = .notIncreasing (pos + 1 + k) ∧ (next :: rest)[k]? = some a ∧ rest[k]? = some b ∧ a ≥ b) := by
  intro ds
  induction ds with
  | nil => intro index freq next pos rest acc e h; simp [empiLoop_nil] at h
  | cons d ds ih =>
    intro index freq next pos rest acc e h
    simp only [empiLoop_cons] at h
    split at h
    · rename_i hr
      injection h with h; subst h
      exact Or.inl ⟨0, d, rfl, by simp, hr, by intro j x hj; omega⟩
    · rename_i hr
      have hr' : InRangeD m d := Classical.not_not.1 hr
      -- lifting a result for the tail `ds` (index + 1) to `d :: ds` (index)
      have lift : ∀ {nx : Int} {ps : Nat} {rs : List Int},
          ((∃ i d', e = .dataOutOfRange (index + 1 + i) ∧ ds[i]? = some d' ∧ ¬ InRangeD m d' ∧
              ∀ j x, j < i → ds[j]? = some x → InRangeD m x) ∨
            (∃ k n, e = .numSumTooLarge (ps + 1 + k) ∧ rs[k]? = some n ∧ n > (len : Int)) ∨
            (∃ k a b, e = .notIncreasing (ps + 1 + k) ∧ (nx :: rs)[k]? = some a ∧ rs[k]? = some b ∧ a ≥ b)) →
          ((∃ i d', e = .dataOutOfRange (index + i) ∧ (d :: ds)[i]? = some d' ∧ ¬ InRangeD m d' ∧
              ∀ j x, j < i → (d :: ds)[j]? = some x → InRangeD m x) ∨
            (∃ k n, e = .numSumTooLarge (ps + 1 + k) ∧ rs[k]? = some n ∧ n > (len : Int)) ∨
            (∃ k a b, e = .notIncreasing (ps + 1 + k) ∧ (nx :: rs)[k]? = some a ∧ rs[k]? = some b ∧ a ≥ b)) := by
        intro nx ps rs hh
        rcases hh with ⟨i, d', he, h1, h2, h3⟩ | hh | hh
        · refine Or.inl ⟨i + 1, d', by rw [he]; congr 1; omega, by simpa using h1, h2, ?_⟩
          intro j x hj hx
          cases j with
          | zero => simp at hx; subst hx; exact hr'
          | succ j => exact h3 j x (by omega) (by simpa using hx)
        · exact Or.inr (Or.inl hh)
        · exact Or.inr (Or.inr hh)
      split at h
      · rename_i hnext
        split at h
        · cases h
        · rename_i n2 rest'
          split at h
          · rename_i hgt
            injection h with h; subst h
            exact Or.inr (Or.inl ⟨0, n2, rfl, by simp, hgt⟩)
          · split at h
            · rename_i hge
              injection h with h; subst h
              exact Or.inr (Or.inr ⟨0, next, n2, rfl, by simp, by simp, hge⟩)
            · have := lift (ih (index + 1) _ n2 (pos + 1) rest' _ e h)
              rcases this with hh | ⟨k, n, he, h1, h2⟩ | ⟨k, a, b, he, h1, h2, h3⟩
              · exact Or.inl hh
              · exact Or.inr (Or.inl ⟨k + 1, n, by rw [he]; congr 1; omega, by simpa using h1, h2⟩)
              · exact Or.inr (Or.inr ⟨k + 1, a, b, by rw [he]; congr 1; omega, by simpa using h1, by simpa using h2, h3⟩)
      · exact lift (ih (index + 1) _ next pos rest acc e h)

theorem mem_take_mono {α : Type} (l : List α) (a b : Nat) (hab : a ≤ b) (x : α) (hx : x ∈ l.take a) : x ∈ l.take b := by
  have : l.take a = (l.take b).take a := by rw [List.take_take, Nat.min_eq_left hab]
  rw [this] at hx
  exact List.mem_of_mem_take hx



/-- a requested size that is already behind the loop position is never reached -/
theorem empiLoop_never (m len : Nat) :
    ∀ (ds : List Int) (index : Nat) (freq : List Nat) (next : Int) (pos : Nat) (rest : List Int)
      (acc : List (Int × List Rat)), next ≤ (index : Int) → (∀ x ∈ ds, InRangeD m x) →
      empiLoop m len ds index freq next pos rest acc = .ok acc.reverse := by
  intro ds
  induction ds with
  | nil => intros; rfl
  | cons d ds ih =>
    intro index freq next pos rest acc h hr
    have hd : 0 ≤ d ∧ d < (m : Int) := hr d (by simp)
    simp only [empiLoop_cons]
    rw [if_neg (not_not.2 hd), if_neg (by omega)]
    exact ih (index + 1) _ next pos rest acc (by push_cast; omega) (fun x hx => hr x (by simp [hx]))




theorem head_le_of_increasing (a : Int) (l : List Int) (h : Increasing (a :: l)) : ∀ n ∈ a :: l, a ≤ n := by
  induction l generalizing a with
  | nil => intro n hn; simp at hn; omega
  | cons b t ih =>
    intro n hn
    rcases List.mem_cons.1 hn with rfl | hn
    · omega
    · have := ih b h.2 n hn; have := h.1; omega



/-! ## arbitrary addition (float running sums), multinomial contract -/


theorem r2dLoop_eq_W (ps : List Rat) (u cum : Rat) (idx : Nat) :
    r2dLoop ps u cum idx = r2dLoopW (· + ·) ps u cum idx := by
  induction ps generalizing cum idx with
  | nil => rfl
  | cons p t ih => simp only [r2dLoop, r2dLoopW, ih]

/-- running sums under an arbitrary addition -/
def scanAdd (add : Rat → Rat → Rat) : Rat → List Rat → List Rat
  | _, [] => []
  | c, p :: ps => add c p :: scanAdd add (add c p) ps

theorem r2dLoopW_eq_cums (add : Rat → Rat → Rat) (ps : List Rat) (u cum : Rat) (idx : Nat) :
    r2dLoopW add ps u cum idx = r2dCums (scanAdd add cum ps) u idx := by
  induction ps generalizing cum idx with
  | nil => rfl
  | cons p t ih => simp only [r2dLoopW, scanAdd, r2dCums, ih]

/-- for ANY addition with `add c 0 = c` (true of IEEE doubles): a hit never lands on an entry that is exactly 0,
provided the loop was entered with `cum ≤ u` -/
theorem r2dLoopW_hit_ne_zero (add : Rat → Rat → Rat) (hadd : ∀ c, add c 0 = c) (ps : List Rat) (u cum : Rat)
    (idx i : Nat) (hcu : ¬ u < cum) (h : r2dLoopW add ps u cum idx = some i) :
    ∃ k, i = idx + k ∧ ∃ hk : k < ps.length, ps[k] ≠ 0 := by
  induction ps generalizing cum idx with
  | nil => simp [r2dLoopW] at h
  | cons p t ih =>
    simp only [r2dLoopW] at h
    split at h
    · rename_i hhit
      injection h with h; subst h
      refine ⟨0, rfl, by simp, ?_⟩
      intro hp
      simp only [List.getElem_cons_zero] at hp
      rw [hp, hadd] at hhit
      exact hcu ((hit_iff _ _).1 hhit)
    · rename_i hno
      obtain ⟨k, hk, hlt, hne⟩ := ih (add cum p) (idx + 1) (fun hh => hno ((hit_iff _ _).2 hh)) h
      exact ⟨k + 1, by omega, by simpa using hlt, by simpa using hne⟩

/-- reviewer's strengthening of `r2d_pos`: no sign hypothesis on the entries, no `u < Σ probs` -/
theorem r2dLoop_hit_pos (probs : List Rat) (u : Rat) (hu : 0 ≤ u) (i : Nat)
    (h : r2dLoop probs u 0 0 = some i) : ∃ hi : i < probs.length, 0 < probs[i] := by
  obtain ⟨k, hk, hlen, hlt, hall⟩ := (r2dLoop_some_iff probs u 0 0 i).1 h
  simp only [Nat.zero_add] at hk; subst hk
  refine ⟨hlen, ?_⟩
  have hs := List.sum_take_succ probs i hlen
  cases i with
  | zero => simp at hs hlt; linarith
  | succ j =>
    have := hall j (by omega)
    simp only [Rat.zero_add] at this hlt
    linarith



/-- contract of `scipy.stats.multinomial.rvs(n, p, random_state=g)` for `n > 0`: one count per outcome, non-negative,
summing to `n`, zero on outcomes of probability 0 -/
structure MultiOK {G : Type} (P : PRNG G) : Prop where
  len : ∀ g n p, 0 < n → (P.multi g n p).1.length = p.length
  nonneg : ∀ g n p, 0 < n → ∀ c ∈ (P.multi g n p).1, 0 ≤ c
  total : ∀ g n p, 0 < n → (P.multi g n p).1.sum = n
  support : ∀ g n (p : List Rat) (i : Nat), 0 < n → p[i]? = some 0 → (P.multi g n p).1[i]? = some 0

/-- a valid empirical distribution for `probs`: one entry per outcome, non-negative, summing to one, zero where the
probability is zero -/
def ValidEmpi (probs : List Rat) (e : List Rat) : Prop :=
  e.length = probs.length ∧ (∀ x ∈ e, 0 ≤ x) ∧ e.sum = 1 ∧ ∀ i : Nat, probs[i]? = some 0 → e[i]? = some 0

theorem sum_map_div_int (l : List Int) (n : Int) :
    (l.map fun (c : Int) => (c : Rat) / (n : Rat)).sum = ((l.sum : Int) : Rat) / (n : Rat) := by
  induction l with
  | nil => simp
  | cons c t ih => simp only [List.map_cons, List.sum_cons, ih]; push_cast; rw [add_div]

theorem validEmpi_of_counts {G : Type} (P : PRNG G) (hP : MultiOK P) (g : G) (n : Int) (hn : 0 < n) (probs : List Rat) :
    ValidEmpi probs ((P.multi g n probs).1.map fun (c : Int) => (c : Rat) / (n : Rat)) := by
  have hnq : (0 : Rat) < (n : Rat) := by exact_mod_cast hn
  refine ⟨by simp [hP.len g n probs hn], ?_, ?_, ?_⟩
  · intro x hx
    obtain ⟨c, hc, rfl⟩ := List.mem_map.1 hx
    exact div_nonneg (by exact_mod_cast hP.nonneg g n probs hn c hc) (le_of_lt hnq)
  · rw [sum_map_div_int, hP.total g n probs hn]; exact div_self (ne_of_gt hnq)
  · intro i hi
    simp [List.getElem?_map, hP.support g n probs i hn hi]



/-! ## validate_prob_dist -/


theorem firstNegative_none_iff (eps : Rat) (ps : List Rat) (idx : Nat) :
    firstNegative eps ps idx = none ↔ ∀ p ∈ ps, 0 ≤ p ∨ rabs p ≤ eps := by
  induction ps generalizing idx with
  | nil => simp [firstNegative]
  | cons p t ih =>
    simp only [firstNegative, List.mem_cons, forall_eq_or_imp]
    by_cases h : p < 0 ∧ ¬ rabs p ≤ eps
    · rw [if_pos h]
      simp only [reduceCtorEq, false_iff, not_and]
      intro h'; rcases h' with h' | h'
      · linarith [h.1]
      · exact absurd h' h.2
    · rw [if_neg h, ih]
      constructor
      · intro hr
        refine ⟨?_, hr⟩
        by_cases hp : p < 0
        · right; by_contra hc; exact h ⟨hp, hc⟩
        · left; linarith
      · exact fun hr => hr.2

theorem firstNegative_some (eps : Rat) (ps : List Rat) (idx i : Nat) (h : firstNegative eps ps idx = some i) :
    ∃ k, i = idx + k ∧ ∃ hk : k < ps.length, ps[k] < 0 ∧ ¬ rabs ps[k] ≤ eps := by
  induction ps generalizing idx with
  | nil => simp [firstNegative] at h
  | cons p t ih =>
    simp only [firstNegative] at h
    split at h
    · rename_i hp
      injection h with h; subst h
      exact ⟨0, rfl, by simp, by simpa using hp⟩
    · obtain ⟨k, hk, hlt, hp⟩ := ih (idx + 1) h
      exact ⟨k + 1, by omega, by simpa using hlt, by simpa using hp⟩



/-! ## output-level cumulative consistency -/


theorem map_cast_zipWith_add (a b : List Nat) :
    (List.zipWith (· + ·) a b).map (fun (c : Nat) => ((c : Int) : Rat)) =
      List.zipWith (· + ·) (a.map fun (c : Nat) => ((c : Int) : Rat)) (b.map fun (c : Nat) => ((c : Int) : Rat)) := by
  induction a generalizing b with
  | nil => simp
  | cons x xs ih =>
    cases b with
    | nil => simp
    | cons y ys => simp [ih]

theorem entry_times_n (m : Nat) (data : List Int) (n : Int) (hn : 0 < n) :
    (empiEntry m data n).2.map (fun x => x * (n : Rat)) =
      (countsOf m (data.take n.toNat)).map fun (c : Nat) => ((c : Int) : Rat) := by
  have hnq : (n : Rat) ≠ 0 := by
    have : (0 : Rat) < (n : Rat) := by exact_mod_cast hn
    exact ne_of_gt this
  simp only [empiEntry, List.map_map]
  apply List.map_congr_left
  intro c _
  simp only [Function.comp]
  exact div_mul_cancel₀ _ hnq


end QM.C14
