import QModel.C01
import Mathlib.Tactic.Ring
import Mathlib.Tactic.Linarith
import Mathlib.Algebra.Order.Field.Rat
import Mathlib.Algebra.Order.AbsoluteValue.Basic
import Mathlib.Analysis.Matrix.PosDef
import Mathlib.Analysis.Matrix.Spectrum
import Mathlib.Algebra.BigOperators.Fin
import Mathlib.LinearAlgebra.Eigenspace.Matrix
/-!
# C01 — helper lemmas: numpy closeness as an absolute-value inequality, monotonicity in `atol`,
eigenvalue form of the PSD verdict, origin objects
-/
open QGen.C01
namespace QM.C01

theorem rabs_eq_abs (q : Rat) : rabs q = |q| := by
  unfold rabs
  split
  · rename_i h; rw [abs_of_neg h]
  · rename_i h; rw [abs_of_nonneg (not_lt.mp h)]

theorem isClose_iff (a b atol rtol : Rat) : isClose a b atol rtol = true ↔ |a - b| ≤ atol + rtol * |b| := by
  simp [isClose, rabs_eq_abs]

theorem isClose_zero_rtol (a b atol : Rat) : isClose a b atol 0 = true ↔ |a - b| ≤ atol := by
  simp [isClose_iff]

theorem isClose_mono (a b atol atol' rtol : Rat) (h : atol ≤ atol') (hc : isClose a b atol rtol = true) :
    isClose a b atol' rtol = true := by
  rw [isClose_iff] at *; linarith

/-- exactness of a verdict `isClose · 1 atol rtol` (reference value 1) is equivalent to `rtol = 0` (for rtol ≥ 0) -/
theorem exact_iff_rtol_zero (rtol : Rat) (hr : 0 ≤ rtol) :
    (∀ a atol : Rat, 0 ≤ atol → (isClose a 1 atol rtol = true ↔ |a - 1| ≤ atol)) ↔ rtol = 0 := by
  constructor
  · intro h
    by_contra hne
    have hpos : 0 < rtol := lt_of_le_of_ne hr (Ne.symm hne)
    have := (h (1 + rtol) 0 le_rfl).1 (by rw [isClose_iff]; simp [abs_of_pos hpos])
    simp [abs_of_pos hpos] at this
    linarith
  · intro h a atol _; subst h; exact isClose_zero_rtol a 1 atol

theorem sq_le_sq_iff_abs_le (x t : Rat) (ht : 0 ≤ t) : x * x ≤ t * t ↔ |x| ≤ t := by
  rw [← abs_mul_abs_self x]
  constructor
  · intro h
    by_contra hc
    rw [not_le] at hc
    have : t * t < |x| * |x| := by nlinarith [abs_nonneg x]
    linarith
  · intro h
    nlinarith [abs_nonneg x]

/-- complex closeness with zero imaginary part is real closeness -/
theorem isCloseCR_real (a b atol rtol : Rat) : isCloseCR (a, 0) b atol rtol = isClose a b atol rtol := by
  unfold isCloseCR isClose
  simp only [mul_zero, add_zero, rabs_eq_abs]
  by_cases ht : 0 ≤ atol + rtol * |b|
  · simp only [ht, decide_true, Bool.true_and]
    congr 1
    exact propext (sq_le_sq_iff_abs_le (a - b) _ ht)
  · have : ¬ |a - b| ≤ atol + rtol * |b| := fun h => ht (le_trans (abs_nonneg _) h)
    simp [ht, this]

theorem isCloseCR_iff (z : C) (b atol rtol : Rat) :
    isCloseCR z b atol rtol = true ↔
      0 ≤ atol + rtol * |b| ∧ (z.1 - b) * (z.1 - b) + z.2 * z.2 ≤ (atol + rtol * |b|) * (atol + rtol * |b|) := by
  simp [isCloseCR, rabs_eq_abs]

theorem isCloseCR_mono (z : C) (b atol atol' rtol : Rat) (h : atol ≤ atol')
    (hc : isCloseCR z b atol rtol = true) : isCloseCR z b atol' rtol = true := by
  rw [isCloseCR_iff] at *
  obtain ⟨h0, h1⟩ := hc
  refine ⟨by linarith, le_trans h1 ?_⟩
  nlinarith

theorem isCloseCC_mono (a b : C) (atol atol' rtol : Rat) (h : atol ≤ atol')
    (hc : isCloseCC a b atol rtol = some true) : isCloseCC a b atol' rtol = some true := by
  unfold isCloseCC at *
  split at hc
  · rename_i hr
    simp only [hr, ↓reduceIte, Option.some.injEq, Bool.and_eq_true, decide_eq_true_eq] at hc ⊢
    obtain ⟨h0, h1⟩ := hc
    refine ⟨by linarith, le_trans h1 ?_⟩
    nlinarith
  · cases hc

theorem psdEig_iff (eigs : List Rat) (atol : Rat) (h : 0 ≤ atol) :
    psdEig eigs atol = true ↔ ∀ l ∈ eigs, -atol ≤ l := by
  unfold psdEig
  rw [List.all_eq_true]
  have hr : mutil_is_psd_eig_rtol = 0 := by decide
  constructor
  · intro hh l hl
    have := hh l hl
    simp only [Bool.or_eq_true, decide_eq_true_eq, hr, isClose_zero_rtol, sub_zero] at this
    rcases this with h1 | h1
    · exact (abs_le.mp h1).1
    · linarith
  · intro hh l hl
    have := hh l hl
    simp only [Bool.or_eq_true, decide_eq_true_eq, hr, isClose_zero_rtol, sub_zero]
    by_cases h0 : 0 ≤ l
    · exact Or.inr h0
    · left; rw [abs_le]; constructor <;> linarith

theorem psdEig_mono (eigs : List Rat) (atol atol' : Rat) (h : atol ≤ atol')
    (hc : psdEig eigs atol = true) : psdEig eigs atol' = true := by
  unfold psdEig at *
  rw [List.all_eq_true] at *
  intro l hl
  have := hc l hl
  simp only [Bool.or_eq_true, decide_eq_true_eq] at this ⊢
  rcases this with h1 | h1
  · exact Or.inl (isClose_mono _ _ _ _ _ h h1)
  · exact Or.inr h1

theorem tpRow_iff (n : Nat) (hs : List Rat) (atol : Rat) (v : Bool) (h : tpRow n hs atol = some v) :
    v = true ↔ ∀ p ∈ (hs.take n).zipIdx, |p.1 - (if p.2 = 0 then 1 else 0)| ≤ atol := by
  have hr : gate_is_tp_row_rtol = 0 := by decide
  unfold tpRow at h
  split at h
  · cases h
  · injection h with h
    subst h
    rw [List.all_eq_true]
    simp only [hr, isClose_zero_rtol]

theorem tpRow_mono (n : Nat) (hs : List Rat) (atol atol' : Rat) (h : atol ≤ atol')
    (hc : tpRow n hs atol = some true) : tpRow n hs atol' = some true := by
  unfold tpRow at *
  split at hc
  · cases hc
  · rename_i hn
    rw [if_neg hn]
    injection hc with hc
    congr 1
    rw [List.all_eq_true] at *
    intro p hp
    exact isClose_mono _ _ _ _ _ h (hc p hp)

theorem povmIdentitySum_mono (S : CMat) (atol atol' : Rat) (h : atol ≤ atol')
    (hc : povmIdentitySum S atol = some true) : povmIdentitySum S atol' = some true := by
  unfold povmIdentitySum at *
  split at hc
  · cases hc
  · rename_i hn
    rw [if_neg hn]
    injection hc with hc
    congr 1
    rw [List.all_eq_true] at *
    intro p hp
    exact isCloseCR_mono _ _ _ _ _ h (hc p hp)

theorem stateTraceOne_mono (rho : CMat) (atol atol' : Rat) (h : atol ≤ atol')
    (hc : stateTraceOne rho atol = some true) : stateTraceOne rho atol' = some true := by
  unfold stateTraceOne at *
  cases ht : rho.trace with
  | none => rw [ht] at hc; cases hc
  | some tr =>
    rw [ht] at hc
    simp only [Option.bind_eq_bind, Option.bind_some, Option.some.injEq] at hc ⊢
    exact isCloseCR_mono _ _ _ _ _ h hc

theorem mk_ok_iff (req phys : Bool) : mk req phys = Ctor.ok ↔ (req = true → phys = true) := by
  cases req <;> cases phys <;> simp [mk, mkWith, state_ctor_raises]

theorem physical_iff (a b : Bool) : physical a b = true ↔ a = true ∧ b = true := by
  simp [physical]

theorem unit0_getElem? (c : Rat) (N j : Nat) (x : Rat) (h : (unit0 c N)[j]? = some x) :
    x = if j = 0 then c else 0 := by
  unfold unit0 at h
  cases j with
  | zero => simp at h; simp [h]
  | succ j =>
    simp only [List.getElem?_cons_succ] at h
    have := List.getElem?_replicate (a := (0:Rat)) (n := N - 1) (i := j)
    rw [this] at h
    split at h
    · simp at h; simp [h]
    · cases h

theorem originGate_tp (n : Nat) (atol : Rat) (hn : 0 < n) (ha : 0 ≤ atol) :
    tpRow n (originGate n) atol = some true := by
  have hnn := Nat.mul_pos hn hn
  have hlen : (originGate n).length = n * n := by simp [originGate, unit0]; omega
  have hrt : (0 : Rat) ≤ gate_is_tp_row_rtol := by decide
  unfold tpRow
  rw [if_neg (by simp [hlen]; omega)]
  congr 1
  rw [List.all_eq_true]
  intro p hp
  rw [List.mem_zipIdx_iff_getElem?] at hp
  rw [List.getElem?_take] at hp
  split at hp
  · have := unit0_getElem? 1 (n * n) p.2 p.1 hp
    rw [isClose_iff, this]
    split <;> simp <;> positivity
  · cases hp

theorem unit0_add (a b : Rat) (N : Nat) :
    List.zipWith (· + ·) (unit0 a N) (unit0 b N) = unit0 (a + b) N := by
  simp [unit0]

theorem foldl_unit0 (c : Rat) (N k : Nat) (a : Rat) :
    (List.replicate k (unit0 c N)).foldl (fun acc h => List.zipWith (· + ·) acc h) (unit0 a N) =
      unit0 (a + k * c) N := by
  induction k generalizing a with
  | zero => simp
  | succ k ih =>
    rw [List.replicate_succ, List.foldl_cons, unit0_add, ih]
    congr 1; push_cast; ring

theorem sumHss_origin (n m : Nat) (hn : 0 < n) (hm : 0 < m) : sumHss n (originMp n m) = originGate n := by
  have hnn := Nat.mul_pos hn hn
  unfold sumHss originMp originGate
  have h0 : List.replicate (n * n) (0 : Rat) = unit0 0 (n * n) := by
    unfold unit0
    obtain ⟨k, hk⟩ : ∃ k, n * n = k + 1 := ⟨n * n - 1, by omega⟩
    rw [hk]; simp [List.replicate_succ]
  rw [h0, foldl_unit0]
  congr 1
  have : (m : Rat) ≠ 0 := by exact_mod_cast (Nat.pos_iff_ne_zero.mp hm)
  rw [zero_add, mul_one_div, div_self this]

theorem originMp_sumTp (n m : Nat) (t : List C) (atol : Rat) (hn : 0 < n) (hm : 0 < m) (ha : 0 ≤ atol) :
    mpSumTp true n t (originMp n m) atol = some true := by
  have hnn := Nat.mul_pos hn hn
  unfold mpSumTp
  have hany : (originMp n m).any (fun h => decide (h.length ≠ n * n)) = false := by
    rw [List.any_eq_false]
    intro h hh
    unfold originMp at hh
    rw [List.mem_replicate] at hh
    rw [hh.2]; simp [unit0]; omega
  rw [hany]
  simp only [Bool.false_eq_true, ↓reduceIte, isTp]
  rw [sumHss_origin n m hn hm]
  exact originGate_tp n atol hn ha

/-! ## scalar matrices (origin objects), ONH0 traces, branch relation helpers -/
/-- `c·1` as a model matrix (origin objects: `I/d`, `I/m`, Choi of the depolarising map `1/d`, …) -/
def scalarMat (d : Nat) (c : Rat) : CMat :=
  ⟨d, (List.range (d * d)).map fun k => if k / d = k % d then (c, 0) else (0, 0)⟩

theorem mapM_some_map {α β : Type} (l : List α) (h : α → Option β) (g : α → β)
    (H : ∀ a ∈ l, h a = some (g a)) : l.mapM h = some (l.map g) := by
  induction l with
  | nil => rfl
  | cons a l ih =>
    rw [List.mapM_cons, H a (by simp), ih (fun b hb => H b (by simp [hb]))]
    rfl

theorem mem_zip_self {α : Type} (l : List α) (a b : α) (h : (a, b) ∈ l.zip l) : a = b := by
  induction l with
  | nil => simp at h
  | cons x l ih =>
    simp only [List.zip_cons_cons, List.mem_cons, Prod.mk.injEq] at h
    rcases h with ⟨h1, h2⟩ | h
    · rw [h1, h2]
    · exact ih h

theorem allSome_of_all (l : List (Option Bool)) (H : ∀ x ∈ l, x = some true) : allSome l = some true := by
  unfold allSome
  rw [mapM_some_map l id (fun _ => true) (by intro a ha; rw [H a ha]; rfl)]
  simp

theorem scalarMat_adjoint (d : Nat) (c : Rat) (hd : 0 < d) :
    (scalarMat d c).adjoint = some (scalarMat d c).e := by
  unfold CMat.adjoint scalarMat
  dsimp only
  apply mapM_some_map
  intro k hk
  rw [List.mem_range] at hk
  have hq : k / d < d := Nat.div_lt_of_lt_mul (by simpa [Nat.mul_comm] using hk)
  have hr : k % d < d := Nat.mod_lt _ hd
  have hidx : k % d * d + k / d < d * d := by
    calc k % d * d + k / d < k % d * d + d := by omega
      _ = (k % d + 1) * d := by ring
      _ ≤ d * d := Nat.mul_le_mul_right _ hr
  rw [List.getElem?_map, List.getElem?_range hidx]
  have e1 : (k % d * d + k / d) / d = k % d := by
    rw [Nat.add_comm, Nat.add_mul_div_right _ _ hd, Nat.div_eq_of_lt hq, Nat.zero_add]
  have e2 : (k % d * d + k / d) % d = k / d := by
    rw [Nat.add_comm, Nat.add_mul_mod_self_right, Nat.mod_eq_of_lt hq]
  simp only [Option.map_some, e1, e2]
  by_cases h : k / d = k % d
  · simp [h]
  · have h' : ¬ k % d = k / d := fun x => h x.symm
    simp [h, h']

theorem isHermitian_scalar (d : Nat) (c atol : Rat) (hd : 0 < d) (ha : 0 ≤ atol) :
    isHermitian (scalarMat d c) atol = some true := by
  have hok : (scalarMat d c).ok = true := by simp [CMat.ok, scalarMat]
  have hr : mutil_is_hermitian_rtol = 0 := by decide
  unfold isHermitian
  simp only [hok, Bool.not_true, Bool.false_eq_true, ↓reduceIte, scalarMat_adjoint d c hd,
    Option.bind_eq_bind, Option.bind_some]
  show allSome _ = some true
  apply allSome_of_all
  intro x hx
  rw [List.mem_map] at hx
  obtain ⟨⟨a, b⟩, hab, rfl⟩ := hx
  have : a = b := mem_zip_self _ a b hab
  subst this
  simp [isCloseCC, hr, ha, mul_self_nonneg]


/-- traces `Tr B_α` of an orthonormal Hermitian identity-first basis: `(τ, 0, …, 0)`, `τ = Tr B₀` (`= √d`) -/
def onh0Traces (τ : Rat) (n : Nat) : List C := (τ, 0) :: List.replicate (n - 1) (0, 0)

theorem foldl_zip_zeros1 (l : List Rat) (k : Nat) (acc : Rat) :
    (l.zip (List.replicate k ((0, 0) : C))).foldl (fun acc (p : Rat × C) => acc + p.1 * p.2.1) acc = acc := by
  induction l generalizing k acc with
  | nil => simp
  | cons x l ih =>
    cases k with
    | zero => simp
    | succ k => simp [List.replicate_succ, ih]

theorem foldl_zip_zeros2 (l : List Rat) (k : Nat) (acc : Rat) :
    (l.zip (List.replicate k ((0, 0) : C))).foldl (fun acc (p : Rat × C) => acc + p.1 * p.2.2) acc = acc := by
  induction l generalizing k acc with
  | nil => simp
  | cons x l ih =>
    cases k with
    | zero => simp
    | succ k => simp [List.replicate_succ, ih]

theorem closeCC_scaled (x δ τ a : Rat) (hτ : 0 < τ) :
    isCloseCC (0 + x * τ, 0) (τ * δ, 0) (τ * a) 0 = some (isClose x δ a 0) := by
  unfold isCloseCC
  simp only [↓reduceIte, sub_self, mul_zero, add_zero, zero_add, Option.some.injEq]
  rw [isClose]
  simp only [zero_mul, add_zero, rabs_eq_abs]
  have e : (x * τ - τ * δ) * (x * τ - τ * δ) = (τ * (x - δ)) * (τ * (x - δ)) := by ring
  rw [e]
  by_cases ha : 0 ≤ a
  · have hta : 0 ≤ τ * a := mul_nonneg hτ.le ha
    have h1 : (τ * (x - δ)) * (τ * (x - δ)) ≤ τ * a * (τ * a) ↔ |x - δ| ≤ a := by
      rw [sq_le_sq_iff_abs_le _ _ hta, abs_mul, abs_of_pos hτ]
      exact mul_le_mul_iff_right₀ hτ
    simp [hta, h1]
  · have hta : ¬ 0 ≤ τ * a := by
      intro h; exact ha (by by_contra hc; have := mul_neg_of_pos_of_neg hτ (not_le.mp hc); linarith)
    have h2 : ¬ |x - δ| ≤ a := fun h => ha (le_trans (abs_nonneg _) h)
    simp [hta, h2]

theorem allSome_map_some {α : Type} (l : List α) (g : α → Bool) :
    allSome (l.map fun a => some (g a)) = some (l.all g) := by
  unfold allSome
  rw [mapM_some_map (l.map fun a => some (g a)) id (fun o => o.getD false) (by
    intro o ho; rw [List.mem_map] at ho; obtain ⟨a, _, rfl⟩ := ho; rfl)]
  simp [List.all_map, Function.comp_def]


/-! ## composite verdicts: iff forms and monotonicity -/
theorem allSome_true_iff (l : List (Option Bool)) : allSome l = some true ↔ ∀ x ∈ l, x = some true := by
  induction l with
  | nil => simp [allSome]
  | cons a l ih =>
    unfold allSome at *
    cases a with
    | none => simp
    | some b =>
      cases h : l.mapM id with
      | none =>
        rw [h] at ih; simp at ih
        simp [List.mapM_cons, h]
        intro hb; obtain ⟨x, hx, hne⟩ := ih; exact ⟨x, hx, hne⟩
      | some bs =>
        rw [h] at ih; simp at ih
        simp [List.mapM_cons, h, ih]

theorem isHermitian_mono (M : CMat) (a a' : Rat) (h : a ≤ a') (hc : isHermitian M a = some true) :
    isHermitian M a' = some true := by
  unfold isHermitian at *
  by_cases hok : M.ok = true
  · simp only [hok, Bool.not_true, Bool.false_eq_true, ↓reduceIte] at hc ⊢
    cases hadj : M.adjoint with
    | none => rw [hadj] at hc; simp at hc
    | some adj =>
      rw [hadj] at hc
      simp only [Option.bind_eq_bind, Option.bind_some] at hc ⊢
      rw [allSome_true_iff] at hc ⊢
      intro x hx
      rw [List.mem_map] at hx
      obtain ⟨p, hp, rfl⟩ := hx
      exact isCloseCC_mono _ _ _ _ _ h (hc _ (List.mem_map.2 ⟨p, hp, rfl⟩))
  · simp [hok] at hc

theorem psdVerdict_true_iff (M : CMat) (eigs : List Rat) (a : Rat) :
    psdVerdict M eigs a = some true ↔ eigs.length = M.d ∧ isHermitian M a = some true ∧ psdEig eigs a = true := by
  unfold psdVerdict
  by_cases hl : eigs.length = M.d
  · simp only [hl, ne_eq, not_true_eq_false, ↓reduceIte, true_and]
    cases hh : isHermitian M a with
    | none => simp
    | some b => cases b <;> simp
  · simp [hl]

theorem psdVerdict_mono (M : CMat) (eigs : List Rat) (a a' : Rat) (h : a ≤ a')
    (hc : psdVerdict M eigs a = some true) : psdVerdict M eigs a' = some true := by
  rw [psdVerdict_true_iff] at *
  exact ⟨hc.1, isHermitian_mono M a a' h hc.2.1, psdEig_mono eigs a a' h hc.2.2⟩

theorem povmPsd_true_iff (Ms : List CMat) (eigss : List (List Rat)) (a : Rat) :
    povmPsd Ms eigss a = some true ↔
      Ms.length = eigss.length ∧ ∀ p ∈ Ms.zip eigss, psdVerdict p.1 p.2 a = some true := by
  unfold povmPsd
  by_cases hl : Ms.length = eigss.length
  · simp only [hl, ne_eq, not_true_eq_false, ↓reduceIte, true_and, allSome_true_iff, List.mem_map]
    constructor
    · intro h p hp; exact h _ ⟨p, hp, rfl⟩
    · rintro h x ⟨p, hp, rfl⟩; exact h p hp
  · simp [hl]

theorem povmPsd_mono (Ms : List CMat) (eigss : List (List Rat)) (a a' : Rat) (h : a ≤ a')
    (hc : povmPsd Ms eigss a = some true) : povmPsd Ms eigss a' = some true := by
  rw [povmPsd_true_iff] at *
  exact ⟨hc.1, fun p hp => psdVerdict_mono _ _ a a' h (hc.2 p hp)⟩

theorem tpTrace_mono (n : Nat) (t : List C) (hs : List Rat) (a a' : Rat) (h : a ≤ a')
    (hc : tpTrace n t hs a = some true) : tpTrace n t hs a' = some true := by
  unfold tpTrace at *
  split at hc
  · cases hc
  · rename_i hg
    rw [if_neg hg]
    rw [allSome_true_iff] at hc ⊢
    intro x hx
    rw [List.mem_map] at hx
    obtain ⟨k, hk, rfl⟩ := hx
    have := hc _ (List.mem_map.2 ⟨k, hk, rfl⟩)
    cases hcol : (List.range n).mapM (fun b => hs[b * n + k]?) with
    | none => rw [hcol] at this; simp at this
    | some col =>
      rw [hcol] at this
      simp only [Option.bind_eq_bind, Option.bind_some] at this ⊢
      cases hb : t[k]? with
      | none => rw [hb] at this; simp at this
      | some before =>
        rw [hb] at this
        simp only [Option.bind_some] at this ⊢
        exact isCloseCC_mono _ _ _ _ _ h this

theorem isTp_mono (onh0 : Bool) (n : Nat) (t : List C) (hs : List Rat) (a a' : Rat) (h : a ≤ a')
    (hc : isTp onh0 n t hs a = some true) : isTp onh0 n t hs a' = some true := by
  unfold isTp at *
  split at hc
  · rename_i hb; rw [if_pos hb]; exact tpRow_mono n hs a a' h hc
  · rename_i hb; rw [if_neg hb]; exact tpTrace_mono n t hs a a' h hc

theorem mpSumTp_mono (onh0 : Bool) (n : Nat) (t : List C) (hss : List (List Rat)) (a a' : Rat) (h : a ≤ a')
    (hc : mpSumTp onh0 n t hss a = some true) : mpSumTp onh0 n t hss a' = some true := by
  unfold mpSumTp at *
  split at hc
  · cases hc
  · rename_i hg; rw [if_neg hg]; exact isTp_mono onh0 n _ _ a a' h hc

/-- a pair of sub-verdicts combined by `do`-`physical` is true iff both are -/
theorem physical_do_iff (x y : Option Bool) :
    (do let a ← x; let b ← y; some (physical a b)) = some true ↔ x = some true ∧ y = some true := by
  cases x with
  | none => simp
  | some a => cases y with
    | none => simp
    | some b => cases a <;> cases b <;> simp [physical]

/-- `Tr[A(B_a)] = Σ_b hs[b][a]·Tr B_b` as the code accumulates it (real and imaginary part), `none` if an index is out of range -/
def traceAfter (n : Nat) (t : List C) (hs : List Rat) (a : Nat) : Option C :=
  ((List.range n).mapM fun b => hs[b * n + a]?).map fun col =>
    ((col.zip t).foldl (fun acc (p : Rat × C) => acc + p.1 * p.2.1) 0,
     (col.zip t).foldl (fun acc (p : Rat × C) => acc + p.1 * p.2.2) 0)


/-! ## eigenvalues ≥ −a ⇔ `A + a•1` positive semidefinite (Mathlib spectral theorem) -/
section spectral
open Matrix Unitary
open scoped ComplexOrder
variable {n : Type*} [Fintype n] [DecidableEq n]
theorem shift_spectral {𝕜 : Type*} [RCLike 𝕜] {A : Matrix n n 𝕜} (hA : A.IsHermitian) (a : ℝ) :
    A + (RCLike.ofReal a : 𝕜) • (1 : Matrix n n 𝕜) =
      conjStarAlgAut 𝕜 _ hA.eigenvectorUnitary (diagonal (RCLike.ofReal ∘ fun i => hA.eigenvalues i + a)) := by
  have h1 : (diagonal (RCLike.ofReal ∘ fun i => hA.eigenvalues i + a) : Matrix n n 𝕜) =
      diagonal (RCLike.ofReal ∘ hA.eigenvalues) + (RCLike.ofReal a : 𝕜) • (1 : Matrix n n 𝕜) := by
    ext i j
    by_cases h : i = j
    · subst h; simp [Matrix.smul_apply, RCLike.ofReal_add, RCLike.real_smul_eq_coe_mul]
    · simp [h, Matrix.smul_apply]
  rw [h1, map_add, map_smul, map_one, ← hA.spectral_theorem]

theorem eigenvalues_ge_neg_iff_posSemidef {𝕜 : Type*} [RCLike 𝕜] {A : Matrix n n 𝕜} (hA : A.IsHermitian) (a : ℝ) :
    (∀ i, -a ≤ hA.eigenvalues i) ↔ (A + (RCLike.ofReal a : 𝕜) • (1 : Matrix n n 𝕜)).PosSemidef := by
  rw [shift_spectral hA a]
  simp only [isUnit_coe.posSemidef_star_right_conjugate_iff, conjStarAlgAut_apply, posSemidef_diagonal_iff,
    Function.comp_apply]
  constructor
  · intro h i; have := h i; exact_mod_cast (by linarith : (0:ℝ) ≤ hA.eigenvalues i + a)
  · intro h i; have := h i; have h2 : (0:ℝ) ≤ hA.eigenvalues i + a := by exact_mod_cast this
    linarith


/-- the contract of `np.linalg.eigvalsh` up to accuracy `ε`: every eigenvalue of `M` is within `ε` of a list entry and
every list entry is within `ε` of an eigenvalue -/
def EigApprox {M : Matrix n n ℂ} (hM : M.IsHermitian) (eigs : List ℚ) (ε : ℝ) : Prop :=
  (∀ i, ∃ l ∈ eigs, |((l : ℚ) : ℝ) - hM.eigenvalues i| ≤ ε) ∧
  (∀ l ∈ eigs, ∃ i, |((l : ℚ) : ℝ) - hM.eigenvalues i| ≤ ε)

/-- soundness: a true eigenvalue test at `atol` implies `M + (atol+ε)•1` is positive semidefinite -/
theorem psdEig_sound (M : Matrix n n ℂ) (hM : M.IsHermitian) (eigs : List ℚ) (atol : ℚ) (ε : ℝ) (ha : 0 ≤ atol)
    (hap : EigApprox hM eigs ε) (hv : psdEig eigs atol = true) :
    (M + ((((atol : ℚ) : ℝ) + ε : ℝ) : ℂ) • (1 : Matrix n n ℂ)).PosSemidef := by
  have h := (psdEig_iff eigs atol ha).1 hv
  have key := (eigenvalues_ge_neg_iff_posSemidef (𝕜 := ℂ) hM (((atol : ℚ) : ℝ) + ε)).1 (by
    intro i
    obtain ⟨l, hl, hli⟩ := hap.1 i
    have h1 : -((atol : ℚ) : ℝ) ≤ ((l : ℚ) : ℝ) := by exact_mod_cast h l hl
    have := abs_le.1 hli
    linarith)
  simpa using key

/-- completeness: if `M + (atol−ε)•1` is positive semidefinite the eigenvalue test at `atol` is true -/
theorem psdEig_complete (M : Matrix n n ℂ) (hM : M.IsHermitian) (eigs : List ℚ) (atol : ℚ) (ε : ℝ) (ha : 0 ≤ atol)
    (hap : EigApprox hM eigs ε)
    (hpsd : (M + ((((atol : ℚ) : ℝ) - ε : ℝ) : ℂ) • (1 : Matrix n n ℂ)).PosSemidef) :
    psdEig eigs atol = true := by
  rw [psdEig_iff eigs atol ha]
  have key := (eigenvalues_ge_neg_iff_posSemidef (𝕜 := ℂ) hM (((atol : ℚ) : ℝ) - ε)).2 (by simpa using hpsd)
  intro l hl
  obtain ⟨i, hli⟩ := hap.2 l hl
  have := abs_le.1 hli
  have h2 := key i
  have : -((atol : ℚ) : ℝ) ≤ ((l : ℚ) : ℝ) := by linarith
  exact_mod_cast this

/-- eigenvalues of a real diagonal matrix (as a set): exactly the diagonal entries -/
theorem eigenvalues_range_diagonal (r : n → ℝ) (h : (diagonal fun i => ((r i : ℝ) : ℂ)).IsHermitian) :
    Set.range h.eigenvalues = Set.range r := by
  have h1 := h.spectrum_eq_image_range (𝕜 := ℂ)
  rw [spectrum_diagonal] at h1
  ext x
  constructor
  · rintro ⟨i, rfl⟩
    have : ((h.eigenvalues i : ℝ) : ℂ) ∈ Set.range fun i => ((r i : ℝ) : ℂ) := by
      rw [h1]; exact ⟨_, ⟨i, rfl⟩, rfl⟩
    obtain ⟨j, hj⟩ := this
    exact ⟨j, by have hj' : ((r j : ℝ) : ℂ) = ((h.eigenvalues i : ℝ) : ℂ) := hj; exact_mod_cast hj'⟩
  · rintro ⟨j, rfl⟩
    have : ((r j : ℝ) : ℂ) ∈ RCLike.ofReal '' Set.range h.eigenvalues := by rw [← h1]; exact ⟨j, rfl⟩
    obtain ⟨y, ⟨i, rfl⟩, hy⟩ := this
    exact ⟨i, by have hy' : ((h.eigenvalues i : ℝ) : ℂ) = ((r j : ℝ) : ℂ) := hy; exact_mod_cast hy'⟩

end spectral

/-! ## the Mathlib matrix a model matrix denotes -/
section bridge
open Matrix
/-- the complex number a model entry denotes -/
noncomputable def toC (z : C) : ℂ := ((z.1 : ℝ) : ℂ) + ((z.2 : ℝ) : ℂ) * Complex.I

/-- the Mathlib matrix a model matrix denotes (row-major) -/
noncomputable def CMat.toMatrix (M : CMat) : Matrix (Fin M.d) (Fin M.d) ℂ :=
  Matrix.of fun i j => toC (M.e.getD (i.val * M.d + j.val) (0, 0))

theorem toC_eq_star_iff (a b : C) : toC a = star (toC b) ↔ a = (b.1, -b.2) := by
  unfold toC
  rw [Complex.ext_iff]
  simp only [Complex.add_re, Complex.ofReal_re, Complex.mul_re, Complex.I_re, mul_zero, Complex.ofReal_im,
    Complex.I_im, mul_one, sub_self, add_zero, Complex.add_im, Complex.mul_im, zero_add, Complex.star_def,
    Complex.conj_re, Complex.conj_im]
  constructor
  · rintro ⟨h1, h2⟩
    have h1' : a.1 = b.1 := by exact_mod_cast h1
    have h2' : a.2 = -b.2 := by exact_mod_cast h2
    exact Prod.ext h1' h2'
  · intro h; rw [h]; simp

theorem isHermitian_of_toMatrix (M : CMat) (atol : Rat) (hok : M.ok = true) (ha : 0 ≤ atol)
    (hH : M.toMatrix.IsHermitian) : isHermitian M atol = some true := by
  have hr : mutil_is_hermitian_rtol = 0 := by decide
  have hlen : M.e.length = M.d * M.d := by simpa [CMat.ok] using hok
  -- the adjoint list
  have hadj : M.adjoint = some ((List.range (M.d * M.d)).map fun k =>
      ((M.e.getD ((k % M.d) * M.d + k / M.d) (0, 0)).1, -(M.e.getD ((k % M.d) * M.d + k / M.d) (0, 0)).2)) := by
    unfold CMat.adjoint
    apply mapM_some_map
    intro k hk
    rw [List.mem_range] at hk
    have hd : 0 < M.d := Nat.pos_of_ne_zero (by rintro h; rw [h] at hk; simp at hk)
    have hq : k / M.d < M.d := Nat.div_lt_of_lt_mul (by simpa [Nat.mul_comm] using hk)
    have hrm : k % M.d < M.d := Nat.mod_lt _ hd
    have hidx : k % M.d * M.d + k / M.d < M.e.length := by
      rw [hlen]
      calc k % M.d * M.d + k / M.d < k % M.d * M.d + M.d := by omega
        _ = (k % M.d + 1) * M.d := by ring
        _ ≤ M.d * M.d := Nat.mul_le_mul_right _ hrm
    simp [List.getD_eq_getElem?_getD, List.getElem?_eq_getElem hidx]
  unfold isHermitian
  simp only [hok, Bool.not_true, Bool.false_eq_true, ↓reduceIte, hadj, Option.bind_eq_bind, Option.bind_some]
  apply allSome_of_all
  intro x hx
  rw [List.mem_map] at hx
  obtain ⟨⟨a, b⟩, hab, rfl⟩ := hx
  obtain ⟨k, hk, hkk⟩ := List.mem_iff_getElem.1 hab
  simp only [List.getElem_zip, List.getElem_map, List.getElem_range, Prod.mk.injEq] at hkk
  have hk' : k < M.d * M.d := by simp at hk; omega
  have hd : 0 < M.d := Nat.pos_of_ne_zero (by rintro h; rw [h] at hk'; simp at hk')
  have hq : k / M.d < M.d := Nat.div_lt_of_lt_mul (by simpa [Nat.mul_comm] using hk')
  have hrm : k % M.d < M.d := Nat.mod_lt _ hd
  have hent := congrFun (congrFun hH ⟨k / M.d, hq⟩) ⟨k % M.d, hrm⟩
  simp only [Matrix.conjTranspose_apply, CMat.toMatrix, Matrix.of_apply] at hent
  have hk2 : k / M.d * M.d + k % M.d = k := by rw [Nat.mul_comm]; exact Nat.div_add_mod k M.d
  rw [hk2] at hent
  have hak : M.e.getD k (0, 0) = a := by
    rw [List.getD_eq_getElem?_getD, List.getElem?_eq_getElem (by omega)]; exact hkk.1
  rw [hak] at hent
  have := (toC_eq_star_iff a _).1 hent.symm
  have hb : a = b := by rw [this, ← hkk.2]
  subst hb
  simp [isCloseCC, hr, ha, mul_self_nonneg]

theorem zeroMat_toMatrix : (⟨2, [(0,0),(0,0),(0,0),(0,0)]⟩ : CMat).toMatrix = 0 := by
  ext i j
  fin_cases i <;> fin_cases j <;> simp [CMat.toMatrix, toC]


/-! a concrete non-diagonal-free instance for the sandwich theorems: the qubit state diag(2/3, 1/3) -/
abbrev exRho : CMat := ⟨2, [(2/3, 0), (0, 0), (0, 0), (1/3, 0)]⟩
noncomputable def exDiag : Fin 2 → ℝ := ![2/3, 1/3]

theorem exRho_toMatrix : exRho.toMatrix = diagonal fun i => ((exDiag i : ℝ) : ℂ) := by
  ext i j
  fin_cases i <;> fin_cases j <;> simp [exDiag, CMat.toMatrix, toC, diagonal] <;> norm_num

theorem exRho_hermitian : exRho.toMatrix.IsHermitian := by
  rw [exRho_toMatrix]
  exact isHermitian_diagonal_of_self_adjoint _ (by ext i; simp [Complex.conj_ofReal])

theorem exRho_eigApprox : EigApprox exRho_hermitian [333/1000, 667/1000] (1/1000) := by
  have hr : Set.range exRho_hermitian.eigenvalues = Set.range exDiag := by
    have h := exRho_hermitian
    have e := exRho_toMatrix
    have h' : (diagonal fun i => ((exDiag i : ℝ) : ℂ)).IsHermitian := e ▸ h
    have := eigenvalues_range_diagonal exDiag h'
    -- transport along the matrix equality
    have key : ∀ (A B : Matrix (Fin 2) (Fin 2) ℂ) (hA : A.IsHermitian) (hB : B.IsHermitian), A = B →
        Set.range hA.eigenvalues = Set.range hB.eigenvalues := by
      intro A B hA hB hab; subst hab; rfl
    exact (key _ _ exRho_hermitian h' e).trans this
  constructor
  · intro i
    have : exRho_hermitian.eigenvalues i ∈ Set.range exDiag := hr ▸ ⟨i, rfl⟩
    obtain ⟨j, hj⟩ := this
    fin_cases j
    · refine ⟨667/1000, by simp, ?_⟩
      rw [← hj]; simp [exDiag]; rw [abs_le]; constructor <;> norm_num
    · refine ⟨333/1000, by simp, ?_⟩
      rw [← hj]; simp [exDiag]; rw [abs_le]; constructor <;> norm_num
  · intro l hl
    simp only [List.mem_cons, List.mem_nil_iff, or_false] at hl
    rcases hl with rfl | rfl
    · have : exDiag 1 ∈ Set.range exRho_hermitian.eigenvalues := hr ▸ ⟨1, rfl⟩
      obtain ⟨i, hi⟩ := this
      refine ⟨i, ?_⟩
      rw [hi]; simp [exDiag]; rw [abs_le]; constructor <;> norm_num
    · have : exDiag 0 ∈ Set.range exRho_hermitian.eigenvalues := hr ▸ ⟨0, rfl⟩
      obtain ⟨i, hi⟩ := this
      refine ⟨i, ?_⟩
      rw [hi]; simp [exDiag]; rw [abs_le]; constructor <;> norm_num


end bridge

/-! ## trace of scalar matrices -/
theorem foldl_add_const (l : List C) (f : C → Rat) (a : Rat) :
    l.foldl (fun acc z => acc + f z) a = a + (l.map f).sum := by
  induction l generalizing a with
  | nil => simp
  | cons x l ih => simp [ih]; ring

/-- trace of the scalar model matrix `c·1` of size `d` -/
theorem scalarMat_trace (d : Nat) (c : Rat) : (scalarMat d c).trace = some ((d : Rat) * c, 0) := by
  unfold CMat.trace scalarMat
  dsimp only
  by_cases hd : d = 0
  · subst hd; simp
  have hpos : 0 < d := Nat.pos_of_ne_zero hd
  rw [mapM_some_map (List.range d) _ (fun _ => ((c, 0) : C))]
  · simp only [Option.map_some, Option.some.injEq]
    rw [foldl_add_const, foldl_add_const]
    simp
  · intro i hi
    rw [List.mem_range] at hi
    have hidx : i * d + i < d * d := by
      calc i * d + i < i * d + d := by omega
        _ = (i + 1) * d := by ring
        _ ≤ d * d := Nat.mul_le_mul_right _ hi
    rw [List.getElem?_map, List.getElem?_range hidx]
    have e1 : (i * d + i) / d = i := by
      rw [Nat.add_comm, Nat.add_mul_div_right _ _ hpos, Nat.div_eq_of_lt hi, Nat.zero_add]
    have e2 : (i * d + i) % d = i := by
      rw [Nat.add_comm, Nat.add_mul_mod_self_right, Nat.mod_eq_of_lt hi]
    simp [e1, e2]



/-! ## exact Hermiticity and trace: helpers -/
section bridge2
open Matrix
theorem adjoint_eq (M : CMat) (hok : M.ok = true) :
    M.adjoint = some ((List.range (M.d * M.d)).map fun k =>
      ((M.e.getD ((k % M.d) * M.d + k / M.d) (0, 0)).1, -(M.e.getD ((k % M.d) * M.d + k / M.d) (0, 0)).2)) := by
  have hlen : M.e.length = M.d * M.d := by simpa [CMat.ok] using hok
  unfold CMat.adjoint
  apply mapM_some_map
  intro k hk
  rw [List.mem_range] at hk
  have hd : 0 < M.d := Nat.pos_of_ne_zero (by rintro h; rw [h] at hk; simp at hk)
  have hq : k / M.d < M.d := Nat.div_lt_of_lt_mul (by simpa [Nat.mul_comm] using hk)
  have hrm : k % M.d < M.d := Nat.mod_lt _ hd
  have hidx : k % M.d * M.d + k / M.d < M.e.length := by
    rw [hlen]
    calc k % M.d * M.d + k / M.d < k % M.d * M.d + M.d := by omega
      _ = (k % M.d + 1) * M.d := by ring
      _ ≤ M.d * M.d := Nat.mul_le_mul_right _ hrm
  simp [List.getD_eq_getElem?_getD, List.getElem?_eq_getElem hidx]

theorem closeCC_zero_iff (a b : C) : isCloseCC a b 0 0 = some true ↔ a = b := by
  unfold isCloseCC
  simp only [↓reduceIte, le_refl, decide_true, Bool.true_and, mul_zero, Option.some.injEq, decide_eq_true_eq]
  constructor
  · intro h
    have h1 : (a.1 - b.1) * (a.1 - b.1) = 0 := by nlinarith [mul_self_nonneg (a.1 - b.1), mul_self_nonneg (a.2 - b.2)]
    have h2 : (a.2 - b.2) * (a.2 - b.2) = 0 := by nlinarith [mul_self_nonneg (a.1 - b.1), mul_self_nonneg (a.2 - b.2)]
    have e1 : a.1 = b.1 := by have := mul_self_eq_zero.1 h1; linarith
    have e2 : a.2 = b.2 := by have := mul_self_eq_zero.1 h2; linarith
    exact Prod.ext e1 e2
  · intro h; subst h; simp

theorem list_range_sum_fin (n : Nat) (f : Nat → ℂ) : ((List.range n).map f).sum = ∑ i : Fin n, f i.val := by
  induction n with
  | zero => simp
  | succ n ih => rw [List.range_succ, List.map_append, List.sum_append, ih, Fin.sum_univ_castSucc]; simp

theorem toC_add (a b : C) : toC (a.1 + b.1, a.2 + b.2) = toC a + toC b := by
  unfold toC; push_cast; ring

theorem toC_sum (l : List C) : toC ((l.map (·.1)).sum, (l.map (·.2)).sum) = (l.map toC).sum := by
  induction l with
  | nil => simp [toC]
  | cons x l ih =>
    simp only [List.map_cons, List.sum_cons]
    rw [← ih, ← toC_add]

/-- the model trace of an exactly Hermitian, well-sized model matrix exists and is real -/
theorem trace_real_of_hermitian (M : CMat) (hok : M.ok = true) (hH : M.toMatrix.IsHermitian) :
    ∃ x : Rat, M.trace = some (x, 0) := by
  have hlen : M.e.length = M.d * M.d := by simpa [CMat.ok] using hok
  have hm : (List.range M.d).mapM (fun i => M.e[i * M.d + i]?) =
      some ((List.range M.d).map fun i => M.e.getD (i * M.d + i) (0, 0)) := by
    apply mapM_some_map
    intro i hi
    rw [List.mem_range] at hi
    have hidx : i * M.d + i < M.e.length := by
      rw [hlen]
      calc i * M.d + i < i * M.d + M.d := by omega
        _ = (i + 1) * M.d := by ring
        _ ≤ M.d * M.d := Nat.mul_le_mul_right _ hi
    simp [List.getD_eq_getElem?_getD, List.getElem?_eq_getElem hidx]
  -- diagonal entries are real
  have hdiag : ∀ i, i < M.d → (M.e.getD (i * M.d + i) (0, 0)).2 = 0 := by
    intro i hi
    have h := congrFun (congrFun hH ⟨i, hi⟩) ⟨i, hi⟩
    simp only [Matrix.conjTranspose_apply, CMat.toMatrix, Matrix.of_apply] at h
    have := (toC_eq_star_iff _ _).1 h.symm
    have h2 := congrArg Prod.snd this
    simp only at h2
    linarith
  refine ⟨((List.range M.d).map fun i => (M.e.getD (i * M.d + i) (0, 0)).1).sum, ?_⟩
  unfold CMat.trace
  rw [hm]
  simp only [Option.map_some, Option.some.injEq, foldl_add_const, zero_add, List.map_map]
  refine Prod.ext rfl ?_
  simp only
  apply List.sum_eq_zero
  intro x hx
  rw [List.mem_map] at hx
  obtain ⟨i, hi, rfl⟩ := hx
  exact hdiag i (List.mem_range.1 hi)


end bridge2

end QM.C01
