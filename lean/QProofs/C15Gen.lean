import QGen.C15
import QModel.C15
/-!
# C15 — interpretation of the generated tables (QGen/C15.lean, regenerated from /repo on every run)
-/
namespace QM.C15.Gen
open QGen.C15

/-- the checks `violationCheck` performs for an estimator class, in the vocabulary of the source -/
def modelWiring : List (String × List String) := [
  ("ProjectedLinearEstimator",
    if enforcesEq .projLinear true && enforcesIneq .projLinear then ["is_physical_qobjects_all"] else []),
  ("LinearEstimator",
    (if enforcesEq .linear true && !enforcesEq .linear false then ["is_eq_constraint_satisfied_all"] else [])
      ++ (if enforcesIneq .linear then ["is_ineq_constraint_satisfied_all"] else [])),
  ("LossMinimizationEstimator",
    (if enforcesEq (.lossMin (some (true, false))) false then ["is_eq_constraint_satisfied_all"] else [])
      ++ (if enforcesIneq (.lossMin (some (false, true))) then ["is_ineq_constraint_satisfied_all"] else []))]

/-- the guards under which the model performs each test: which flag has to be set for `enforcesEq` / `enforcesIneq` -/
def modelGuards : List (String × String × String) := [
  ("ProjectedLinearEstimator", "", "is_physical_qobjects_all"),
  ("LinearEstimator",
    (if enforcesEq .linear true && !enforcesEq .linear false then "para" else ""), "is_eq_constraint_satisfied_all"),
  ("LossMinimizationEstimator",
    (if enforcesEq (.lossMin (some (true, false))) false && !enforcesEq (.lossMin (some (false, true))) false
     then "on_algo_eq_constraint" else ""), "is_eq_constraint_satisfied_all"),
  ("LossMinimizationEstimator",
    (if enforcesIneq (.lossMin (some (false, true))) && !enforcesIneq (.lossMin (some (true, false)))
     then "on_algo_ineq_constraint" else ""), "is_ineq_constraint_satisfied_all")]

end QM.C15.Gen
