import QModel.C10
import Mathlib.Analysis.Convex.Basic
import Mathlib.Algebra.Order.Field.Basic
import Mathlib.Tactic.Linarith
import Mathlib.Tactic.Ring
import QProofs.Bridge
import Mathlib.Algebra.Order.BigOperators.Ring.Finset
/-! helper lemmas for C10: Dykstra loop shape, backtracking step sizes, feasibility of convex combinations -/
namespace QM.C10

/-! ## Dykstra loop -/
section dykstra
variable {K V : Type} [Add V] [Sub V] [Add K] [LT K] [DecidableLT K]

/-- a state produced by a sweep from some earlier state, together with the Birgin–Raydan value if the loop stopped on it -/
theorem dykLoop_shape (P1 P2 : V → V) (normSq : V → K) (eps : K) :
    ∀ (fuel k : Nat) (s : DykState V), 0 < fuel →
      ∃ s0, (dykLoop P1 P2 normSq eps fuel k s).1 = dykSweep P1 P2 s0 ∧
        ((dykLoop P1 P2 normSq eps fuel k s).2 = true →
          brValue normSq s0 (dykSweep P1 P2 s0) < eps) := by
  intro fuel
  induction fuel with
  | zero => intro k s h; omega
  | succ fuel ih =>
    intro k s _
    unfold dykLoop
    by_cases hstop : 1 ≤ k ∧ brValue normSq s (dykSweep P1 P2 s) < eps
    · simp only [hstop, and_self, if_true]
      exact ⟨s, rfl, fun _ => hstop.2⟩
    · simp only [hstop, if_false]
      cases fuel with
      | zero => exact ⟨s, rfl, fun h => by simp at h⟩
      | succ f => exact ih (k + 1) (dykSweep P1 P2 s) (Nat.succ_pos f)

end dykstra

/-- in an additive commutative group the increment of `q` in a sweep is `x_next − y_next` -/
theorem dykSweep_q_diff {V : Type} [AddCommGroup V] (P1 P2 : V → V) (s : DykState V) :
    s.q - (dykSweep P1 P2 s).q = (dykSweep P1 P2 s).x - (dykSweep P1 P2 s).y := by
  simp only [dykSweep]; abel

/-! ## backtracking step sizes -/
section backtrack
variable {K V : Type} [Field K] [LinearOrder K] [IsStrictOrderedRing K] [Add V] [Sub V] [SMul K V]

theorem backtrack_range (f : V → K) (grad : V → V) (dot : V → V → K) (x y : V) (gamma : K) :
    ∀ (fuel : Nat) (a0 a : K), 0 < a0 → a0 ≤ 1 → backtrack f grad dot x y gamma fuel a0 = some a →
      0 < a ∧ a ≤ a0 ∧ isDoingForAlpha f grad dot x y a gamma = false := by
  intro fuel
  induction fuel with
  | zero => intro a0 a _ _ h; simp [backtrack] at h
  | succ fuel ih =>
    intro a0 a h0 h1 h
    unfold backtrack at h
    by_cases hd : isDoingForAlpha f grad dot x y a0 gamma = true
    · rw [if_pos hd] at h
      have hhalf : (1 / (1 + 1) : K) * a0 = a0 / 2 := by ring
      have hpos : (0 : K) < (1 / (1 + 1)) * a0 := by rw [hhalf]; linarith
      have hle : (1 / (1 + 1) : K) * a0 ≤ a0 := by rw [hhalf]; linarith
      obtain ⟨ha, hb, hc⟩ := ih _ a hpos (le_trans hle h1) h
      exact ⟨ha, le_trans hb hle, hc⟩
    · rw [if_neg hd] at h
      injection h with h; subst h
      exact ⟨h0, le_refl _, by simpa using hd⟩

end backtrack

/-! ## convex combinations -/
section convex
variable {K V : Type} [Field K] [LinearOrder K] [IsStrictOrderedRing K] [AddCommGroup V] [Module K V]

theorem step_mem_of_convex {C : Set V} (hC : Convex K C) {x z : V} (hx : x ∈ C) (hz : z ∈ C) {a : K}
    (h0 : 0 < a) (h1 : a ≤ 1) : x + a • (z - x) ∈ C := by
  have : x + a • (z - x) = (1 - a) • x + a • z := by
    rw [smul_sub, sub_smul, one_smul]; abel
  rw [this]
  exact hC hx hz (by linarith) (le_of_lt h0) (by ring)

end convex

end QM.C10

/-! ## squared-error loss of the driver: exact data make the true parameter a global minimiser -/
namespace QM.C10.Drv
open QM

theorem seValue_nonneg {m n : Nat} (A : Mat Rat m n) (c : Vec Rat m) (x : Vec Rat n) : 0 ≤ seValue A c x := by
  unfold seValue
  simp only [Vec.dot_eq, dotProduct]
  exact Finset.sum_nonneg fun i _ => mul_self_nonneg _

theorem seValue_zero_of_residual_zero {m n : Nat} (A : Mat Rat m n) (c : Vec Rat m) (x : Vec Rat n)
    (h : ∀ i, ((A.mulVec x).add c).get i = 0) : seValue A c x = 0 := by
  unfold seValue
  simp only [Vec.dot_eq, dotProduct]
  apply Finset.sum_eq_zero
  intro i _
  have : Vec.toV ((A.mulVec x).add c) i = 0 := h i
  rw [this]; ring

end QM.C10.Drv
