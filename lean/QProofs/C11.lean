import QModel.C11
import QProofs.C10
import Mathlib.Analysis.InnerProductSpace.Basic
import Mathlib.Analysis.InnerProductSpace.Dual
import Mathlib.Analysis.Calculus.Gradient.Basic
import Mathlib.Analysis.Calculus.LocalExtr.Basic
import Mathlib.Analysis.SpecialFunctions.Log.Basic
/-! helper lemmas for C11: metric projection via its variational inequality, descent direction, first-order optimality -/
namespace QM.C11
open QM.C10
open scoped RealInnerProductSpace

variable {E : Type} [NormedAddCommGroup E] [InnerProductSpace ℝ E]

/-- `P` is the metric projection onto `C`, given by its variational inequality -/
def IsProjOn (P : E → E) (C : Set E) : Prop :=
  ∀ z, P z ∈ C ∧ ∀ w ∈ C, ⟪z - P z, w - P z⟫ ≤ 0

/-- the variational inequality determines the projection -/
theorem IsProjOn.eq_of_vi {P : E → E} {C : Set E} (hP : IsProjOn P C) {z x : E} (hx : x ∈ C)
    (h : ∀ w ∈ C, ⟪z - x, w - x⟫ ≤ 0) : P z = x := by
  have h1 := (hP z).2 x hx
  have h2 := h (P z) (hP z).1
  have h3 : ⟪x - P z, x - P z⟫ ≤ 0 := by
    have e : ⟪x - P z, x - P z⟫ = ⟪z - P z, x - P z⟫ + ⟪z - x, P z - x⟫ := by
      have a : x - P z = (z - P z) - (z - x) := by abel
      have b : P z - x = -(x - P z) := by abel
      rw [b, inner_neg_right]
      nth_rewrite 1 [a]
      rw [inner_sub_left]; ring
    rw [e]; linarith
  have h4 : x - P z = 0 := by
    have := real_inner_self_nonneg (x := x - P z)
    exact inner_self_eq_zero.1 (le_antisymm h3 this)
  exact (sub_eq_zero.1 h4).symm

/-- a point of `C` is fixed by the projection -/
theorem IsProjOn.fix {P : E → E} {C : Set E} (hP : IsProjOn P C) {x : E} (hx : x ∈ C) : P x = x :=
  hP.eq_of_vi hx (fun w _ => by simp)

/-- the model's direction, unfolded at `K = ℝ`, `V = E` -/
theorem pgdbDir_def (P g : E → E) (mu : ℝ) (x : E) : pgdbDir P g mu x = P (x - (1 / mu) • g x) - x := rfl

/-- descent-direction inequality `⟪∇f(x), y⟫ ≤ −μ‖y‖²` -/
theorem descent_dir {P : E → E} {C : Set E} (hP : IsProjOn P C) (g : E → E) {mu : ℝ} (hmu : 0 < mu) {x : E}
    (hx : x ∈ C) : ⟪g x, pgdbDir P g mu x⟫ ≤ -mu * ‖pgdbDir P g mu x‖ ^ 2 := by
  rw [pgdbDir_def]
  set z := x - (1 / mu) • g x with hz
  set y := P z - x with hy
  have hvi := (hP z).2 x hx
  have e1 : z - P z = -((1 / mu) • g x) - y := by rw [hz, hy]; abel
  have e2 : x - P z = -y := by rw [hy]; abel
  rw [e1, e2, inner_neg_right, inner_sub_left, inner_neg_left, real_inner_smul_left, real_inner_self_eq_norm_sq] at hvi
  have h3 : (1 / mu) * ⟪g x, y⟫ + ‖y‖ ^ 2 ≤ 0 := by linarith
  have h4 : mu * ((1 / mu) * ⟪g x, y⟫ + ‖y‖ ^ 2) ≤ 0 := mul_nonpos_of_nonneg_of_nonpos hmu.le h3
  have h5 : mu * ((1 / mu) * ⟪g x, y⟫ + ‖y‖ ^ 2) = ⟪g x, y⟫ + mu * ‖y‖ ^ 2 := by
    field_simp
  linarith

/-- fixed point of the projected-gradient map ⇔ first-order optimality on `C` -/
theorem fixed_iff_first_order {P : E → E} {C : Set E} (hP : IsProjOn P C) (g : E → E) {mu : ℝ} (hmu : 0 < mu) {x : E}
    (hx : x ∈ C) : pgdbDir P g mu x = 0 ↔ ∀ w ∈ C, 0 ≤ ⟪g x, w - x⟫ := by
  rw [pgdbDir_def, sub_eq_zero]
  have key : ∀ w, ⟪x - (1 / mu) • g x - x, w - x⟫ = -((1 / mu) * ⟪g x, w - x⟫) := by
    intro w
    have : x - (1 / mu) • g x - x = -((1 / mu) • g x) := by abel
    rw [this, inner_neg_left, real_inner_smul_left]
  have hpos : 0 < 1 / mu := by positivity
  constructor
  · intro h w hw
    have hvi := (hP (x - (1 / mu) • g x)).2 w hw
    rw [h, key] at hvi
    have : 0 ≤ (1 / mu) * ⟪g x, w - x⟫ := by linarith
    exact nonneg_of_mul_nonneg_right this hpos |> fun h => h
  · intro h
    apply hP.eq_of_vi hx
    intro w hw
    rw [key]
    have := mul_nonneg hpos.le (h w hw)
    linarith

/-- first-order condition ⇒ minimiser on `C`, from the gradient inequality of `f` AT `x` against the points of `C` only (no
global convexity: the clipped relative-entropy losses satisfy it on the physical set, not on the whole space) -/
theorem min_of_first_order {f : E → ℝ} {g : E → E} {C : Set E} {x : E} (hconv : ∀ w ∈ C, f x + ⟪g x, w - x⟫ ≤ f w)
    (h : ∀ w ∈ C, 0 ≤ ⟪g x, w - x⟫) : ∀ w ∈ C, f x ≤ f w := by
  intro w hw
  have := hconv w hw
  have := h w hw
  linarith

/-- minimiser on a convex set ⇒ first-order condition (Fermat on the tangent cone) -/
theorem first_order_of_min [CompleteSpace E] {f : E → ℝ} {g : E → E} {C : Set E} (hC : Convex ℝ C) {x : E} (hx : x ∈ C)
    (hg : HasGradientAt f (g x) x) (hmin : ∀ w ∈ C, f x ≤ f w) : ∀ w ∈ C, 0 ≤ ⟪g x, w - x⟫ := by
  intro w hw
  have hloc : IsLocalMinOn f C x := (show IsMinOn f C x from fun w hw => hmin w hw).localize
  have hfd : HasFDerivWithinAt f (InnerProductSpace.toDual ℝ E (g x)) C x := hg.hasFDerivAt.hasFDerivWithinAt
  have hcone : w - x ∈ posTangentConeAt C x :=
    sub_mem_posTangentConeAt_of_segment_subset (hC.segment_subset hx hw)
  have := hloc.hasFDerivWithinAt_nonneg hfd hcone
  simpa [InnerProductSpace.toDual_apply_apply] using this

end QM.C11

/-! ## the CVXPY objective with equal shot counts -/
namespace QM.C11
section cvx
variable {K : Type} [Field K] [LinearOrder K] [IsStrictOrderedRing K]

theorem lsum_cons' (a : K) (l : List K) : lsum (a :: l) = a + lsum l := rfl

theorem lsum_replicate (S : Nat) (n : K) : lsum (List.replicate S n) = S * n := by
  induction S with
  | zero => simp [lsum]
  | succ k ih => rw [List.replicate_succ, lsum_cons', ih]; push_cast; ring

theorem weighted_const_gen (phi : List K × List K → K) (c : K) (l : List (List K × List K)) :
    lsum (((List.replicate l.length c).zip l).map fun (cpq : K × List K × List K) => cpq.1 * phi cpq.2)
      = c * lsum (l.map phi) := by
  induction l with
  | nil => simp [lsum]
  | cons a l ih =>
    rw [List.length_cons, List.replicate_succ, List.zip_cons_cons, List.map_cons, List.map_cons, lsum_cons', lsum_cons', ih]
    ring

theorem weighted_const (c : K) (l : List (List K × List K)) :
    lsum (((List.replicate l.length c).zip l).map fun (cpq : K × List K × List K) => cpq.1 * sqErr cpq.2.1 cpq.2.2)
      = c * lsum (l.map fun pq => sqErr pq.1 pq.2) :=
  weighted_const_gen (fun pq => sqErr pq.1 pq.2) c l

theorem lsum_append' (l1 l2 : List K) : lsum (l1 ++ l2) = lsum l1 + lsum l2 := by
  induction l1 with
  | nil => simp [lsum]
  | cons a l ih => rw [List.cons_append, lsum_cons', lsum_cons', ih]; ring

theorem lsum_nonneg' : ∀ l : List K, (∀ v ∈ l, 0 ≤ v) → 0 ≤ lsum l
  | [], _ => le_refl _
  | a :: l, h => by
    rw [lsum_cons']
    have := lsum_nonneg' l (fun v hv => h v (List.mem_cons_of_mem _ hv))
    have := h a (List.mem_cons_self ..)
    linarith

/-- with non-negative error values and a window `≥ 1`, the window sum dominates the last error value -/
theorem last_le_windowSum (errs : List K) (e : K) (n : Nat) (hn : 1 ≤ n) (hpos : ∀ v ∈ errs, 0 ≤ v) :
    e ≤ QM.C10.windowSum (errs ++ [e]) n := by
  unfold QM.C10.windowSum
  have hk : (errs ++ [e]).length - min (errs ++ [e]).length n ≤ errs.length := by
    simp only [List.length_append, List.length_singleton]; omega
  rw [List.drop_append_of_le_length hk, lsum_append']
  have h0 : 0 ≤ lsum (List.drop ((errs ++ [e]).length - min (errs ++ [e]).length n) errs) :=
    lsum_nonneg' _ (fun v hv => hpos v (List.mem_of_mem_drop hv))
  have h1 : lsum [e] = e := by simp [lsum]
  rw [h1]
  linarith

end cvx
end QM.C11

/-! ## ε-optimality from a small projected-gradient residual -/
namespace QM.C11
open QM.C10
open scoped RealInnerProductSpace
variable {E : Type} [NormedAddCommGroup E] [InnerProductSpace ℝ E]

/-- variational inequality of `P` at `x − ∇f(x)/μ` tested against `z ∈ C`: the linearised decrease towards `z` is bounded by
the residual `y = P(x − ∇f(x)/μ) − x`. -/
theorem linearised_gap_le {P : E → E} {C : Set E} (hP : IsProjOn P C) (g : E → E) {mu : ℝ} (hmu : 0 < mu) (x : E) {z : E}
    (hz : z ∈ C) :
    -⟪g x, z - x⟫ ≤ ‖pgdbDir P g mu x‖ * (‖g x‖ + mu * ‖z - x‖) := by
  rw [pgdbDir_def]
  set zz := x - (1 / mu) • g x with hzz
  set y := P zz - x with hy
  have hvi := (hP zz).2 z hz
  set d := z - x with hd
  have e1 : zz - P zz = -((1 / mu) • g x) - y := by rw [hzz, hy]; abel
  have e2 : z - P zz = d - y := by rw [hy, hd]; abel
  have hexp : ⟪-((1 / mu) • g x) - y, d - y⟫
      = -((1 / mu) * ⟪g x, d⟫) + (1 / mu) * ⟪g x, y⟫ - ⟪y, d⟫ + ‖y‖ ^ 2 := by
    simp only [inner_sub_left, inner_sub_right, inner_neg_left, real_inner_smul_left, real_inner_self_eq_norm_sq]
    ring
  rw [e1, e2, hexp] at hvi
  have hb : -⟪g x, y⟫ ≤ ‖g x‖ * ‖y‖ := by
    have := abs_real_inner_le_norm (g x) y
    have := neg_abs_le (⟪g x, y⟫)
    linarith
  have hc : ⟪y, d⟫ ≤ ‖y‖ * ‖d‖ := real_inner_le_norm y d
  have hn : 0 ≤ ‖y‖ ^ 2 := by positivity
  have h1 : mu * (-((1 / mu) * ⟪g x, d⟫) + (1 / mu) * ⟪g x, y⟫ - ⟪y, d⟫ + ‖y‖ ^ 2) ≤ 0 :=
    mul_nonpos_of_nonneg_of_nonpos hmu.le hvi
  have h2 : mu * (-((1 / mu) * ⟪g x, d⟫) + (1 / mu) * ⟪g x, y⟫ - ⟪y, d⟫ + ‖y‖ ^ 2)
      = -⟪g x, d⟫ + ⟪g x, y⟫ - mu * ⟪y, d⟫ + mu * ‖y‖ ^ 2 := by
    field_simp
  rw [h2] at h1
  have hc' : mu * ⟪y, d⟫ ≤ mu * (‖y‖ * ‖d‖) := mul_le_mul_of_nonneg_left hc hmu.le
  have hn' : 0 ≤ mu * ‖y‖ ^ 2 := mul_nonneg hmu.le hn
  nlinarith

end QM.C11

/-! ## backtracking: the step before the accepted one was rejected; small steps are accepted for an L-smooth loss -/
namespace QM.C11
open QM.C10
open scoped RealInnerProductSpace
variable {E : Type} [NormedAddCommGroup E] [InnerProductSpace ℝ E]

/-- the accepted step size is the start value, or twice it (still `≤` the start value) was tested and rejected -/
theorem backtrack_prev_rejected (f : E → ℝ) (g : E → E) (dot : E → E → ℝ) (x y : E) (gamma : ℝ) :
    ∀ (fuel : Nat) (a0 a : ℝ), 0 < a0 → backtrack f g dot x y gamma fuel a0 = some a →
      a = a0 ∨ (isDoingForAlpha f g dot x y (2 * a) gamma = true ∧ 2 * a ≤ a0) := by
  intro fuel
  induction fuel with
  | zero => intro a0 a _ h; simp [backtrack] at h
  | succ fuel ih =>
    intro a0 a h0 h
    unfold backtrack at h
    by_cases hd : isDoingForAlpha f g dot x y a0 gamma = true
    · rw [if_pos hd] at h
      have hhalf : (1 / (1 + 1) : ℝ) * a0 = a0 / 2 := by ring
      rw [hhalf] at h
      rcases ih _ a (by positivity) h with h1 | ⟨h1, h2⟩
      · right
        have : 2 * a = a0 := by rw [h1]; ring
        exact ⟨by rw [this]; exact hd, by rw [this]⟩
      · exact Or.inr ⟨h1, by linarith⟩
    · rw [if_neg hd] at h
      injection h with h
      exact Or.inl h.symm

/-- the line search ends as soon as the tested step size is below a threshold under which every step `≤ 1` is accepted -/
theorem backtrack_terminates_of_threshold (f : E → ℝ) (g : E → E) (dot : E → E → ℝ) (x y : E) (gamma tau : ℝ)
    (hacc : ∀ a, 0 < a → a ≤ tau → a ≤ 1 → isDoingForAlpha f g dot x y a gamma = false) :
    ∀ (fuel : Nat) (a0 : ℝ), 0 < a0 → a0 ≤ 1 → a0 / 2 ^ fuel ≤ tau →
      ∃ a, backtrack f g dot x y gamma (fuel + 1) a0 = some a := by
  intro fuel
  induction fuel with
  | zero =>
    intro a0 h0 h1 h
    have h' : a0 ≤ tau := by simpa using h
    refine ⟨a0, ?_⟩
    unfold backtrack
    rw [hacc a0 h0 h' h1]; simp
  | succ fuel ih =>
    intro a0 h0 h1 h
    unfold backtrack
    by_cases hd : isDoingForAlpha f g dot x y a0 gamma = true
    · rw [if_pos hd]
      have hhalf : (1 / (1 + 1) : ℝ) * a0 = a0 / 2 := by ring
      rw [hhalf]
      apply ih (a0 / 2) (by positivity) (by linarith)
      have : a0 / 2 / 2 ^ fuel = a0 / 2 ^ (fuel + 1) := by rw [pow_succ]; field_simp
      rw [this]; exact h
    · rw [if_neg hd]; exact ⟨a0, rfl⟩

/-- if the loss has, AT `x`, the quadratic upper bound of an `L`-smooth function at the trial point `x + a y`, then the step size
`a ≤ 2(1−γ)μ/L` passes the coded test along a direction with `⟪∇f, y⟫ ≤ −μ‖y‖²` -/
theorem armijo_accepts_small {f : E → ℝ} {g : E → E} {Lc : ℝ} (hL : 0 < Lc) {mu gamma : ℝ} (hgam1 : gamma < 1)
    (x y : E) (hdesc : ⟪g x, y⟫ ≤ -mu * ‖y‖ ^ 2) (a : ℝ) (ha : 0 < a) (hle : a ≤ 2 * (1 - gamma) * mu / Lc)
    (hsm : f (x + a • y) ≤ f x + ⟪g x, (x + a • y) - x⟫ + Lc / 2 * ‖(x + a • y) - x‖ ^ 2) :
    isDoingForAlpha f g (fun p q : E => ⟪p, q⟫) x y a gamma = false := by
  unfold isDoingForAlpha
  have h1 := hsm
  have e : x + a • y - x = a • y := by abel
  rw [e, real_inner_smul_right, norm_smul, Real.norm_eq_abs, abs_of_pos ha] at h1
  have hc : ⟪y, g x⟫ = ⟪g x, y⟫ := real_inner_comm _ _
  have hle' : a * Lc ≤ 2 * (1 - gamma) * mu := by
    rw [le_div_iff₀ hL] at hle; exact hle
  have hy : 0 ≤ ‖y‖ ^ 2 := by positivity
  have key : a * ⟪g x, y⟫ + Lc / 2 * (a * ‖y‖) ^ 2 ≤ gamma * a * ⟪g x, y⟫ := by
    have h2 : (1 - gamma) * a * ⟪g x, y⟫ ≤ (1 - gamma) * a * (-mu * ‖y‖ ^ 2) :=
      mul_le_mul_of_nonneg_left hdesc (by nlinarith)
    have h3 : Lc / 2 * (a * ‖y‖) ^ 2 = a * (a * Lc) / 2 * ‖y‖ ^ 2 := by ring
    have h4 : a * (a * Lc) / 2 * ‖y‖ ^ 2 ≤ a * (2 * (1 - gamma) * mu) / 2 * ‖y‖ ^ 2 := by
      apply mul_le_mul_of_nonneg_right _ hy
      have := mul_le_mul_of_nonneg_left hle' ha.le
      linarith
    nlinarith
  simp only [decide_eq_false_iff_not, not_lt]
  rw [hc]
  linarith

end QM.C11

namespace QM.C11
variable {E : Type} [NormedAddCommGroup E] [InnerProductSpace ℝ E]

/-- sum of the squared distances between consecutive entries of a history -/
noncomputable def sumSqSteps : List E → ℝ
  | a :: b :: t => ‖a - b‖ ^ 2 + sumSqSteps (b :: t)
  | _ => 0

/-- every step of the history is at least `eps` long -/
def AllStepsGe (eps : ℝ) : List E → Prop
  | a :: b :: t => eps ≤ ‖a - b‖ ∧ AllStepsGe eps (b :: t)
  | _ => True

theorem sumSqSteps_nonneg : ∀ l : List E, 0 ≤ sumSqSteps l
  | [] => le_refl _
  | [_] => le_refl _
  | a :: b :: t => by
    have := sumSqSteps_nonneg (b :: t)
    simp only [sumSqSteps]; positivity

theorem count_le_sumSq {eps : ℝ} (heps : 0 ≤ eps) : ∀ l : List E, AllStepsGe eps l →
    ((l.length - 1 : Nat) : ℝ) * eps ^ 2 ≤ sumSqSteps l
  | [], _ => by simp [sumSqSteps]
  | [_], _ => by simp [sumSqSteps]
  | a :: b :: t, h => by
    obtain ⟨h1, h2⟩ := h
    have ih := count_le_sumSq heps (b :: t) h2
    have hsq : eps ^ 2 ≤ ‖a - b‖ ^ 2 := pow_le_pow_left₀ heps h1 2
    simp only [sumSqSteps, List.length_cons] at *
    have e : ((t.length + 1 + 1 - 1 : Nat) : ℝ) = ((t.length + 1 - 1 : Nat) : ℝ) + 1 := by
      simp
    rw [e]
    nlinarith

end QM.C11

namespace QM.C11
open QM.C10
variable {E : Type} [NormedAddCommGroup E] [InnerProductSpace ℝ E]

/-- sum over the history (newest first) of the squared projected-gradient residuals at the points the steps were taken from -/
noncomputable def sumSqResiduals (P g : E → E) (mu : ℝ) : List E → ℝ
  | _ :: a :: t => ‖pgdbDir P g mu a‖ ^ 2 + sumSqResiduals P g mu (a :: t)
  | _ => 0

/-- every step of the history was taken from a point whose residual is at least `eps` -/
def AllResidualsGe (P g : E → E) (mu eps : ℝ) : List E → Prop
  | _ :: a :: t => eps ≤ ‖pgdbDir P g mu a‖ ∧ AllResidualsGe P g mu eps (a :: t)
  | _ => True

theorem count_le_sumSqResiduals (P g : E → E) (mu : ℝ) {eps : ℝ} (heps : 0 ≤ eps) : ∀ l : List E, AllResidualsGe P g mu eps l →
    ((l.length - 1 : Nat) : ℝ) * eps ^ 2 ≤ sumSqResiduals P g mu l
  | [], _ => by simp [sumSqResiduals]
  | [_], _ => by simp [sumSqResiduals]
  | b :: a :: t, h => by
    obtain ⟨h1, h2⟩ := h
    have ih := count_le_sumSqResiduals P g mu heps (a :: t) h2
    have hsq : eps ^ 2 ≤ ‖pgdbDir P g mu a‖ ^ 2 := pow_le_pow_left₀ heps h1 2
    simp only [sumSqResiduals, List.length_cons] at *
    have e : ((t.length + 1 + 1 - 1 : Nat) : ℝ) = ((t.length + 1 - 1 : Nat) : ℝ) + 1 := by simp
    rw [e]
    nlinarith

end QM.C11

/-! ## windows > 1: a potential that decreases by the window sum -/
namespace QM.C11
open QM.C10

/-- weighted tail potential over the error values, most recent first: `m·e₁ + (m−1)·e₂ + …` -/
def pot : Nat → List ℝ → ℝ
  | 0, _ => 0
  | _, [] => 0
  | m + 1, e :: t => ((m : ℝ) + 1) * e + pot m t

theorem pot_nonneg : ∀ (m : Nat) (r : List ℝ), (∀ v ∈ r, 0 ≤ v) → 0 ≤ pot m r
  | 0, _, _ => by simp [pot]
  | _ + 1, [], _ => by simp [pot]
  | m + 1, e :: t, h => by
    have h1 := pot_nonneg m t (fun v hv => h v (List.mem_cons_of_mem _ hv))
    have h2 := h e (List.mem_cons_self ..)
    simp only [pot]
    positivity

/-- `pot (m+1) r − pot m r` is the sum of the first `m+1` entries -/
theorem pot_succ_sub : ∀ (m : Nat) (r : List ℝ), pot (m + 1) r = pot m r + lsum (r.take (m + 1))
  | m, [] => by cases m <;> simp [pot, lsum]
  | 0, e :: t => by simp [pot, lsum]
  | m + 1, e :: t => by
    have ih := pot_succ_sub m t
    simp only [pot, List.take_succ_cons] at *
    rw [ih, lsum_cons']
    push_cast
    ring

theorem lsum_reverse' (l : List ℝ) : lsum l.reverse = lsum l := by
  induction l with
  | nil => rfl
  | cons a l ih => rw [List.reverse_cons, lsum_append', ih, lsum_cons']; simp [lsum]; ring

/-- the window sum as the sum of the first `n` entries of the reversed list -/
theorem windowSum_eq_take_reverse (l : List ℝ) (n : Nat) : windowSum l n = lsum (l.reverse.take n) := by
  unfold windowSum
  rw [List.take_reverse, lsum_reverse']
  congr 2
  omega

end QM.C11

namespace QM.C11
theorem pot_step (m : Nat) (e : ℝ) (r : List ℝ) :
    pot m (e :: r) + lsum ((e :: r).take (m + 1)) = pot m r + ((m : ℝ) + 1) * e := by
  cases m with
  | zero => simp [pot, lsum]
  | succ k =>
    have h := pot_succ_sub k r
    simp only [pot, List.take_succ_cons, lsum_cons'] at *
    rw [h]; push_cast; ring
end QM.C11

/-! ## Cauchy–Schwarz for the window: `(Σ a)² ≤ length · Σ a²` -/
namespace QM.C11

theorem sq_lsum_le : ∀ l : List ℝ, (lsum l) ^ 2 ≤ (l.length : ℝ) * lsum (l.map (· ^ 2))
  | [] => by simp [lsum]
  | a :: l => by
    have ih := sq_lsum_le l
    have hQ : 0 ≤ lsum (l.map (· ^ 2)) := lsum_nonneg' _ (by
      intro v hv
      obtain ⟨w, _, rfl⟩ := List.mem_map.1 hv
      positivity)
    simp only [List.map_cons, lsum_cons', List.length_cons]
    push_cast
    rcases Nat.eq_zero_or_pos l.length with h0 | hpos
    · have : l = [] := List.length_eq_zero_iff.1 h0
      subst this
      simp [lsum]
    · have hk : (0 : ℝ) < (l.length : ℝ) := by exact_mod_cast hpos
      have h1 : 0 ≤ ((l.length : ℝ) * a - lsum l) ^ 2 := sq_nonneg _
      -- 2 k a S ≤ k² a² + S² ≤ k² a² + k Q  ⇒  2 a S ≤ k a² + Q
      have h2 : 2 * a * lsum l ≤ (l.length : ℝ) * a ^ 2 + lsum (l.map (· ^ 2)) := by
        have : (l.length : ℝ) * (2 * a * lsum l) ≤ (l.length : ℝ) * ((l.length : ℝ) * a ^ 2 + lsum (l.map (· ^ 2))) := by
          nlinarith
        exact le_of_mul_le_mul_left this hk
      nlinarith

theorem sq_lsum_take_le (r : List ℝ) (n : Nat) :
    (lsum (r.take n)) ^ 2 ≤ (n : ℝ) * lsum ((r.map (· ^ 2)).take n) := by
  have h := sq_lsum_le (r.take n)
  rw [List.map_take] at h
  have hQ : 0 ≤ lsum ((r.map (· ^ 2)).take n) := lsum_nonneg' _ (by
    intro v hv
    obtain ⟨w, _, rfl⟩ := List.mem_map.1 (List.mem_of_mem_take hv)
    positivity)
  have hl : ((r.take n).length : ℝ) ≤ (n : ℝ) := by exact_mod_cast List.length_take_le n r
  nlinarith

end QM.C11

/-! ## Gibbs' inequality for the relative-entropy objective -/
namespace QM.C11

/-- one outcome: `q (log q − log p) ≥ q − p` when `p > 0` wherever `q > 0` -/
theorem relEnt_term_ge (a b : ℝ) (ha : 0 ≤ a) (hb : 0 ≤ b) (hab : 0 < b → 0 < a) :
    b - a ≤ (if (0 : ℝ) < b then b * Real.log b - b * Real.log a else 0) := by
  split_ifs with h
  · have ha' := hab h
    have hl := Real.log_le_sub_one_of_pos (div_pos ha' h)
    rw [Real.log_div ha'.ne' h.ne'] at hl
    have : b * (Real.log a - Real.log b) ≤ b * (a / b - 1) := mul_le_mul_of_nonneg_left hl h.le
    have e : b * (a / b - 1) = a - b := by field_simp
    linarith
  · have : b = 0 := le_antisymm (not_lt.1 h) hb
    linarith

theorem relEnt_ge : ∀ (p q : List ℝ), p.length = q.length →
    (∀ ab ∈ p.zip q, 0 ≤ ab.1 ∧ 0 ≤ ab.2 ∧ ((0 : ℝ) < ab.2 → 0 < ab.1)) → lsum q - lsum p ≤ relEnt Real.log 0 p q
  | [], [], _, _ => by simp [relEnt, lsum]
  | [], _ :: _, h, _ => by simp at h
  | _ :: _, [], h, _ => by simp at h
  | a :: p, b :: q, h, hall => by
    have ih := relEnt_ge p q (by simpa using h) (fun ab hab => hall ab (by simp [hab]))
    obtain ⟨ha, hb, hab⟩ := hall (a, b) (by simp)
    have ht := relEnt_term_ge a b ha hb hab
    unfold relEnt at *
    simp only [List.zip_cons_cons, List.map_cons, lsum_cons']
    linarith

theorem relEnt_self : ∀ q : List ℝ, relEnt Real.log 0 q q = 0
  | [] => by simp [relEnt, lsum]
  | b :: q => by
    have ih := relEnt_self q
    unfold relEnt at *
    simp only [List.zip_cons_cons, List.map_cons, lsum_cons', ih]
    split_ifs <;> ring

end QM.C11
