import QModel.C11
import QProofs.C10
import Mathlib.Analysis.InnerProductSpace.Basic
import Mathlib.Analysis.InnerProductSpace.Dual
import Mathlib.Analysis.Calculus.Gradient.Basic
import Mathlib.Analysis.Calculus.LocalExtr.Basic
/-! helper lemmas for C11: metric projection via its variational inequality, descent direction, first-order optimality -/
namespace QM.C11
open QM.C10
open scoped RealInnerProductSpace

variable {E : Type} [NormedAddCommGroup E] [InnerProductSpace ℝ E]

/-- `P` is the metric projection onto `C`, given by its variational inequality -/
def IsProjOn (P : E → E) (C : Set E) : Prop :=
  ∀ z, P z ∈ C ∧ ∀ w ∈ C, ⟪z - P z, w - P z⟫ ≤ 0

/-- the variational inequality determines the projection -/
theorem IsProjOn.eq_of_vi {P : E → E} {C : Set E} (hP : IsProjOn P C) {z x : E} (hx : x ∈ C)
    (h : ∀ w ∈ C, ⟪z - x, w - x⟫ ≤ 0) : P z = x := by
  have h1 := (hP z).2 x hx
  have h2 := h (P z) (hP z).1
  have h3 : ⟪x - P z, x - P z⟫ ≤ 0 := by
    have e : ⟪x - P z, x - P z⟫ = ⟪z - P z, x - P z⟫ + ⟪z - x, P z - x⟫ := by
      have a : x - P z = (z - P z) - (z - x) := by abel
      have b : P z - x = -(x - P z) := by abel
      rw [b, inner_neg_right]
      nth_rewrite 1 [a]
      rw [inner_sub_left]; ring
    rw [e]; linarith
  have h4 : x - P z = 0 := by
    have := real_inner_self_nonneg (x := x - P z)
    exact inner_self_eq_zero.1 (le_antisymm h3 this)
  exact (sub_eq_zero.1 h4).symm

/-- a point of `C` is fixed by the projection -/
theorem IsProjOn.fix {P : E → E} {C : Set E} (hP : IsProjOn P C) {x : E} (hx : x ∈ C) : P x = x :=
  hP.eq_of_vi hx (fun w _ => by simp)

/-- the model's direction, unfolded at `K = ℝ`, `V = E` -/
theorem pgdbDir_def (P g : E → E) (mu : ℝ) (x : E) : pgdbDir P g mu x = P (x - (1 / mu) • g x) - x := rfl

/-- descent-direction inequality `⟪∇f(x), y⟫ ≤ −μ‖y‖²` -/
theorem descent_dir {P : E → E} {C : Set E} (hP : IsProjOn P C) (g : E → E) {mu : ℝ} (hmu : 0 < mu) {x : E}
    (hx : x ∈ C) : ⟪g x, pgdbDir P g mu x⟫ ≤ -mu * ‖pgdbDir P g mu x‖ ^ 2 := by
  rw [pgdbDir_def]
  set z := x - (1 / mu) • g x with hz
  set y := P z - x with hy
  have hvi := (hP z).2 x hx
  have e1 : z - P z = -((1 / mu) • g x) - y := by rw [hz, hy]; abel
  have e2 : x - P z = -y := by rw [hy]; abel
  rw [e1, e2, inner_neg_right, inner_sub_left, inner_neg_left, real_inner_smul_left, real_inner_self_eq_norm_sq] at hvi
  have h3 : (1 / mu) * ⟪g x, y⟫ + ‖y‖ ^ 2 ≤ 0 := by linarith
  have h4 : mu * ((1 / mu) * ⟪g x, y⟫ + ‖y‖ ^ 2) ≤ 0 := mul_nonpos_of_nonneg_of_nonpos hmu.le h3
  have h5 : mu * ((1 / mu) * ⟪g x, y⟫ + ‖y‖ ^ 2) = ⟪g x, y⟫ + mu * ‖y‖ ^ 2 := by
    field_simp
  linarith

/-- fixed point of the projected-gradient map ⇔ first-order optimality on `C` -/
theorem fixed_iff_first_order {P : E → E} {C : Set E} (hP : IsProjOn P C) (g : E → E) {mu : ℝ} (hmu : 0 < mu) {x : E}
    (hx : x ∈ C) : pgdbDir P g mu x = 0 ↔ ∀ w ∈ C, 0 ≤ ⟪g x, w - x⟫ := by
  rw [pgdbDir_def, sub_eq_zero]
  have key : ∀ w, ⟪x - (1 / mu) • g x - x, w - x⟫ = -((1 / mu) * ⟪g x, w - x⟫) := by
    intro w
    have : x - (1 / mu) • g x - x = -((1 / mu) • g x) := by abel
    rw [this, inner_neg_left, real_inner_smul_left]
  have hpos : 0 < 1 / mu := by positivity
  constructor
  · intro h w hw
    have hvi := (hP (x - (1 / mu) • g x)).2 w hw
    rw [h, key] at hvi
    have : 0 ≤ (1 / mu) * ⟪g x, w - x⟫ := by linarith
    exact nonneg_of_mul_nonneg_right this hpos |> fun h => h
  · intro h
    apply hP.eq_of_vi hx
    intro w hw
    rw [key]
    have := mul_nonneg hpos.le (h w hw)
    linarith

/-- first-order condition ⇒ global minimiser on `C`, from the gradient inequality of a convex function -/
theorem min_of_first_order {f : E → ℝ} {g : E → E} (hconv : ∀ u w, f u + ⟪g u, w - u⟫ ≤ f w) {C : Set E} {x : E}
    (h : ∀ w ∈ C, 0 ≤ ⟪g x, w - x⟫) : ∀ w ∈ C, f x ≤ f w := by
  intro w hw
  have := hconv x w
  have := h w hw
  linarith

/-- minimiser on a convex set ⇒ first-order condition (Fermat on the tangent cone) -/
theorem first_order_of_min [CompleteSpace E] {f : E → ℝ} {g : E → E} {C : Set E} (hC : Convex ℝ C) {x : E} (hx : x ∈ C)
    (hg : HasGradientAt f (g x) x) (hmin : ∀ w ∈ C, f x ≤ f w) : ∀ w ∈ C, 0 ≤ ⟪g x, w - x⟫ := by
  intro w hw
  have hloc : IsLocalMinOn f C x := (show IsMinOn f C x from fun w hw => hmin w hw).localize
  have hfd : HasFDerivWithinAt f (InnerProductSpace.toDual ℝ E (g x)) C x := hg.hasFDerivAt.hasFDerivWithinAt
  have hcone : w - x ∈ posTangentConeAt C x :=
    sub_mem_posTangentConeAt_of_segment_subset (hC.segment_subset hx hw)
  have := hloc.hasFDerivWithinAt_nonneg hfd hcone
  simpa [InnerProductSpace.toDual_apply_apply] using this

end QM.C11

/-! ## the CVXPY objective with equal shot counts -/
namespace QM.C11
section cvx
variable {K : Type} [Field K] [LinearOrder K] [IsStrictOrderedRing K]

theorem lsum_cons' (a : K) (l : List K) : lsum (a :: l) = a + lsum l := rfl

theorem lsum_replicate (S : Nat) (n : K) : lsum (List.replicate S n) = S * n := by
  induction S with
  | zero => simp [lsum]
  | succ k ih => rw [List.replicate_succ, lsum_cons', ih]; push_cast; ring

theorem weighted_const (c : K) (l : List (List K × List K)) :
    lsum (((List.replicate l.length c).zip l).map fun (cpq : K × List K × List K) => cpq.1 * sqErr cpq.2.1 cpq.2.2)
      = c * lsum (l.map fun pq => sqErr pq.1 pq.2) := by
  induction l with
  | nil => simp [lsum]
  | cons a l ih =>
    rw [List.length_cons, List.replicate_succ, List.zip_cons_cons, List.map_cons, List.map_cons, lsum_cons', lsum_cons', ih]
    ring

end cvx
end QM.C11

/-! ## ε-optimality from a small projected-gradient residual -/
namespace QM.C11
open QM.C10
open scoped RealInnerProductSpace
variable {E : Type} [NormedAddCommGroup E] [InnerProductSpace ℝ E]

/-- variational inequality of `P` at `x − ∇f(x)/μ` tested against `z ∈ C`: the linearised decrease towards `z` is bounded by
the residual `y = P(x − ∇f(x)/μ) − x`. -/
theorem linearised_gap_le {P : E → E} {C : Set E} (hP : IsProjOn P C) (g : E → E) {mu : ℝ} (hmu : 0 < mu) (x : E) {z : E}
    (hz : z ∈ C) :
    -⟪g x, z - x⟫ ≤ ‖pgdbDir P g mu x‖ * (‖g x‖ + mu * ‖z - x‖) := by
  rw [pgdbDir_def]
  set zz := x - (1 / mu) • g x with hzz
  set y := P zz - x with hy
  have hvi := (hP zz).2 z hz
  set d := z - x with hd
  have e1 : zz - P zz = -((1 / mu) • g x) - y := by rw [hzz, hy]; abel
  have e2 : z - P zz = d - y := by rw [hy, hd]; abel
  have hexp : ⟪-((1 / mu) • g x) - y, d - y⟫
      = -((1 / mu) * ⟪g x, d⟫) + (1 / mu) * ⟪g x, y⟫ - ⟪y, d⟫ + ‖y‖ ^ 2 := by
    simp only [inner_sub_left, inner_sub_right, inner_neg_left, real_inner_smul_left, real_inner_self_eq_norm_sq]
    ring
  rw [e1, e2, hexp] at hvi
  have hb : -⟪g x, y⟫ ≤ ‖g x‖ * ‖y‖ := by
    have := abs_real_inner_le_norm (g x) y
    have := neg_abs_le (⟪g x, y⟫)
    linarith
  have hc : ⟪y, d⟫ ≤ ‖y‖ * ‖d‖ := real_inner_le_norm y d
  have hn : 0 ≤ ‖y‖ ^ 2 := by positivity
  have h1 : mu * (-((1 / mu) * ⟪g x, d⟫) + (1 / mu) * ⟪g x, y⟫ - ⟪y, d⟫ + ‖y‖ ^ 2) ≤ 0 :=
    mul_nonpos_of_nonneg_of_nonpos hmu.le hvi
  have h2 : mu * (-((1 / mu) * ⟪g x, d⟫) + (1 / mu) * ⟪g x, y⟫ - ⟪y, d⟫ + ‖y‖ ^ 2)
      = -⟪g x, d⟫ + ⟪g x, y⟫ - mu * ⟪y, d⟫ + mu * ‖y‖ ^ 2 := by
    field_simp
  rw [h2] at h1
  have hc' : mu * ⟪y, d⟫ ≤ mu * (‖y‖ * ‖d‖) := mul_le_mul_of_nonneg_left hc hmu.le
  have hn' : 0 ≤ mu * ‖y‖ ^ 2 := mul_nonneg hmu.le hn
  nlinarith

end QM.C11
