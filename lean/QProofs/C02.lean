import QModel.C02
import QGen.C02
import QProofs.Bridge
import Mathlib.Algebra.Star.Basic
import Mathlib.Logic.Equiv.Fin.Basic
import Mathlib.LinearAlgebra.Matrix.NonsingularInverse
import Mathlib.LinearAlgebra.Matrix.ConjTranspose
import Mathlib.Tactic.Ring
import Mathlib.Tactic.Linarith
import Mathlib.Tactic.FieldSimp
import Mathlib.Algebra.Ring.MinimalAxioms
import Mathlib.Algebra.Field.Rat
import Mathlib.Algebra.Order.Ring.Rat
/-!
# helper lemmas for C02

The model's polymorphic definitions are instantiated at a commutative star-ring `K`
(conjugation = `star`); `toM` / `toV` of QProofs.Bridge turn the flattened matrix–vector
forms into Mathlib matrix identities.
-/
open Matrix
set_option linter.unusedSectionVars false
set_option linter.unusedSimpArgs false
namespace QM.C02

/-- at a Mathlib star-ring the model's conjugation is `star` -/
instance (priority := low) hasConjOfStar {K : Type} [Star K] : HasConj K := ⟨star⟩

theorem conj_eq_star {K : Type} [Star K] (x : K) : (conj x : K) = star x := rfl

/-! ## index arithmetic -/

theorem pidx_eq {a b : Nat} (i : Fin a) (j : Fin b) : pidx i j = finProdFinEquiv (i, j) := by
  apply Fin.ext; simp [pidx, finProdFinEquiv, Nat.mul_comm, Nat.add_comm]

@[simp] theorem pdiv_pidx {a b : Nat} (i : Fin a) (j : Fin b) : pdiv (pidx i j) = i := by
  have hb : 0 < b := Nat.pos_of_ne_zero (by intro h; subst h; exact absurd j.isLt (by simp))
  apply Fin.ext
  simp only [pdiv, pidx]
  rw [Nat.mul_comm, Nat.mul_add_div hb, Nat.div_eq_of_lt j.isLt, Nat.add_zero]

@[simp] theorem pmod_pidx {a b : Nat} (i : Fin a) (j : Fin b) : pmod (pidx i j) = j := by
  apply Fin.ext
  simp only [pmod, pidx]
  rw [Nat.mul_comm, Nat.mul_add_mod, Nat.mod_eq_of_lt j.isLt]

@[simp] theorem pidx_pdiv_pmod {a b : Nat} (x : Fin (a * b)) : pidx (pdiv x) (pmod x) = x := by
  apply Fin.ext
  simp only [pmod, pidx, pdiv]
  rw [Nat.mul_comm]; exact Nat.div_add_mod _ _

theorem pidx_inj {a b : Nat} {i i' : Fin a} {j j' : Fin b} :
    pidx i j = pidx i' j' ↔ i = i' ∧ j = j' := by
  constructor
  · intro h
    have h1 := congrArg pdiv h
    have h2 := congrArg pmod h
    simp at h1 h2
    exact ⟨h1, h2⟩
  · rintro ⟨rfl, rfl⟩; rfl

section sums
variable {M : Type} [AddCommMonoid M]

/-- a sum over the flattened index is the double sum -/
theorem sum_flat {a b : Nat} (f : Fin (a * b) → M) :
    ∑ x, f x = ∑ i : Fin a, ∑ j : Fin b, f (pidx i j) := by
  rw [← Equiv.sum_comp finProdFinEquiv f, Fintype.sum_prod_type]
  simp [pidx_eq]

theorem fsum_flat {a b : Nat} (f : Fin (a * b) → M) :
    fsum (a * b) f = ∑ i : Fin a, ∑ j : Fin b, f (pidx i j) := by
  rw [fsum_eq_sum, sum_flat]

theorem sum_map_flatMap {α β : Type} (l : List α) (g : α → List β) (f : β → M) :
    ((l.flatMap g).map f).sum = (l.map fun a => ((g a).map f).sum).sum := by
  induction l with
  | nil => simp
  | cons a l ih => simp [List.flatMap_cons, ih]

/-- a sum over `itertools.product(range(n), range(n))` is the double sum -/
theorem sum_pairs {n : Nat} (f : Fin n × Fin n → M) :
    ((pairs n).map f).sum = ∑ a : Fin n, ∑ b : Fin n, f (a, b) := by
  unfold pairs
  rw [sum_map_flatMap, Fin.sum_univ_def]
  congr 1
  apply List.map_congr_left
  intro a _
  rw [Fin.sum_univ_def, List.map_map]
  rfl

theorem foldl_add_eq_sum {α : Type} (l : List α) (f : α → M) (z : M) :
    l.foldl (fun acc t => acc + f t) z = z + (l.map f).sum := by
  induction l generalizing z with
  | nil => simp
  | cons a l ih => simp [ih, add_assoc]
end sums

/-! ## matrix plumbing -/
section plumbing
variable {K : Type}

@[simp] theorem flat_get {a b : Nat} (A : Mat K a b) (x : Fin (a * b)) :
    (flat A).get x = A.get (pdiv x) (pmod x) := by simp [flat]

@[simp] theorem unflat_get {a b : Nat} (v : Vec K (a * b)) (i : Fin a) (j : Fin b) :
    (unflat v).get i j = v.get (pidx i j) := by simp [unflat]

@[simp] theorem unflat_flat {a b : Nat} (A : Mat K a b) : unflat (flat A) = A := by
  apply Mat.ext'; intro i j; simp

@[simp] theorem flat_unflat {a b : Nat} (v : Vec K (a * b)) : flat (unflat v) = v := by
  apply Vec.ext'; intro x; simp

theorem flat_injective {a b : Nat} : Function.Injective (flat : Mat K a b → Vec K (a * b)) := by
  intro A C h
  have := congrArg unflat h
  simpa using this

theorem foldl_matadd_get [AddCommMonoid K] {m n : Nat} (l : List (Mat K m n)) (z : Mat K m n)
    (i : Fin m) (j : Fin n) :
    (l.foldl Mat.add z).get i j = z.get i j + (l.map fun A => A.get i j).sum := by
  induction l generalizing z with
  | nil => simp
  | cons A l ih => simp [ih, Mat.add, add_assoc]

theorem reduceAdd_get [AddCommMonoid K] {m n : Nat} (l : List (Mat K m n)) (hl : l ≠ []) :
    ∃ R, reduceAdd l = some R ∧ ∀ i j, R.get i j = (l.map fun A => A.get i j).sum := by
  cases l with
  | nil => exact absurd rfl hl
  | cons t ts =>
    refine ⟨_, rfl, ?_⟩
    intro i j
    simp [foldl_matadd_get]

theorem pairs_ne_nil {n : Nat} (hn : 0 < n) : pairs n ≠ [] := by
  intro h
  have h2 : (pairs n).length = 0 := by rw [h]; rfl
  have h1 : (pairs n).length = n * n := by
    simp [pairs, List.length_flatMap]
  rw [h1] at h2
  have := Nat.mul_pos hn hn
  omega

end plumbing


/-! ## the flattened basis matrices -/
section frames
variable {K : Type} [CommRing K] [StarRing K] {d n : Nat}

/-- orthonormality of the basis, in the `np.vdot` form: `tr(B_a^† B_b) = δ_ab` -/
def Orthonormal (B : Basis K d n) : Prop :=
  ∀ a b, vdot (B.get a) (B.get b) = if a = b then 1 else 0

/-- completeness (resolution of the identity): `Σ_a B_a[x] conj(B_a[y]) = δ_xy` on flattened indices -/
def Complete (B : Basis K d n) : Prop :=
  ∀ x y : Fin (d * d),
    ∑ a, (B.get a).get (pdiv x) (pmod x) * star ((B.get a).get (pdiv y) (pmod y)) = if x = y then 1 else 0

/-- Hermitian basis elements -/
def HermitianBasis (B : Basis K d n) : Prop :=
  ∀ a i j, star ((B.get a).get j i) = (B.get a).get i j

theorem vdot_eq {a b : Nat} (A C : Mat K a b) :
    vdot A C = ∑ x, star (A.get (pdiv x) (pmod x)) * C.get (pdiv x) (pmod x) := by
  simp [vdot, fsum_eq_sum, conj_eq_star]

theorem vdot_eq_double {a b : Nat} (A C : Mat K a b) :
    vdot A C = ∑ i, ∑ j, star (A.get i j) * C.get i j := by
  rw [vdot_eq, sum_flat]; simp

theorem orthonormal_iff (B : Basis K d n) :
    Orthonormal B ↔ (basisConj B).toM * (basisT B).toM = 1 := by
  constructor
  · intro h; ext a b
    have := h a b
    rw [vdot_eq] at this
    simp [Matrix.mul_apply, basisConj, basisT, conj_eq_star, Matrix.one_apply, this]
  · intro h a b
    have := congrFun (congrFun h a) b
    rw [vdot_eq]
    simpa [Matrix.mul_apply, basisConj, basisT, conj_eq_star, Matrix.one_apply] using this

theorem complete_iff (B : Basis K d n) :
    Complete B ↔ (basisT B).toM * (basisConj B).toM = 1 := by
  constructor
  · intro h; ext x y
    have := h x y
    simp [Matrix.mul_apply, basisConj, basisT, conj_eq_star, Matrix.one_apply, this]
  · intro h x y
    have := congrFun (congrFun h x) y
    simpa [Matrix.mul_apply, basisConj, basisT, conj_eq_star, Matrix.one_apply] using this

/-- an orthonormal family of `d²` matrices of size `d × d` is complete (dimension count) -/
theorem complete_of_orthonormal (B : Basis K d (d * d)) (h : Orthonormal B) : Complete B := by
  rw [complete_iff]
  exact mul_eq_one_comm.1 ((orthonormal_iff B).1 h)

theorem orthonormal_of_complete (B : Basis K d (d * d)) (h : Complete B) : Orthonormal B := by
  rw [orthonormal_iff]
  exact mul_eq_one_comm.1 ((complete_iff B).1 h)

theorem toM_basisT_conjTranspose (B : Basis K d n) : ((basisT B).toM)ᴴ = (basisConj B).toM := by
  ext a x; simp [basisT, basisConj, conj_eq_star, Matrix.conjTranspose_apply]

theorem toM_basisConj_conjTranspose (B : Basis K d n) : ((basisConj B).toM)ᴴ = (basisT B).toM := by
  ext x a; simp [basisT, basisConj, conj_eq_star, Matrix.conjTranspose_apply]

theorem toM_ctransp {m n : Nat} (A : Mat K m n) : (ctransp A).toM = (A.toM)ᴴ := by
  ext i j; simp [ctransp, conj_eq_star, Matrix.conjTranspose_apply]

/-! ### state -/

theorem toV_densitySparse_flat (B : Basis K d n) (v : Vec K n) :
    Vec.toV (flat (densitySparse B v)) = (basisT B).toM *ᵥ Vec.toV v := by
  simp [densitySparse]

theorem toV_vecOfDensityRaw (B : Basis K d n) (rho : Mat K d d) :
    Vec.toV (vecOfDensityRaw B rho) = (basisConj B).toM *ᵥ Vec.toV (flat rho) := by
  simp [vecOfDensityRaw]

theorem densityLoop_get (B : Basis K d n) (v : Vec K n) (i j : Fin d) :
    (densityLoop B v).get i j = ∑ a, v.get a * (B.get a).get i j := by
  unfold densityLoop
  have : ∀ (l : List (Fin n)) (z : Mat K d d),
      (l.foldl (fun acc a => acc.add ((B.get a).smul (v.get a))) z).get i j
        = z.get i j + (l.map fun a => v.get a * (B.get a).get i j).sum := by
    intro l
    induction l with
    | nil => intro z; simp
    | cons a l ih =>
      intro z
      simp only [List.foldl_cons, List.map_cons, List.sum_cons]
      rw [ih]; simp [Mat.add, Mat.smul, add_assoc]
  rw [this, Fin.sum_univ_def]
  simp [Mat.zero]

theorem densitySparse_get (B : Basis K d n) (v : Vec K n) (i j : Fin d) :
    (densitySparse B v).get i j = ∑ a, v.get a * (B.get a).get i j := by
  simp [densitySparse, Mat.mulVec, basisT, fsum_eq_sum, mul_comm]

end frames

/-! ## gate: Choi <-> HS -/
section gate
variable {K : Type} [CommRing K] [StarRing K] {d : Nat}

theorem sum4_factor {a b : Nat} (F : Fin a → Fin a → K) (G : Fin b → Fin b → K) :
    ∑ i1, ∑ i2, ∑ j1, ∑ j2, F i1 j1 * G i2 j2 = (∑ i1, ∑ j1, F i1 j1) * (∑ i2, ∑ j2, G i2 j2) := by
  calc ∑ i1, ∑ i2, ∑ j1, ∑ j2, F i1 j1 * G i2 j2
      = ∑ i1, ∑ j1, ∑ i2, ∑ j2, F i1 j1 * G i2 j2 :=
        Finset.sum_congr rfl fun _ _ => Finset.sum_comm
    _ = ∑ i1, ∑ j1, F i1 j1 * (∑ i2, ∑ j2, G i2 j2) := by simp [Finset.mul_sum]
    _ = _ := by simp [Finset.sum_mul]

@[simp] theorem bbc_get (B : Basis K d (d * d)) (al be i j : Fin (d * d)) :
    (bbc B al be).get i j = bbcEntry B al be i j := by
  simp [bbc, kron, conjM, bbcEntry]

/-- the stacked flattened `B_α ⊗ conj B_β` are orthonormal when the `B_α` are -/
theorem bbc_orthonormal (B : Basis K d (d * d)) (h : Orthonormal B) :
    (bbcConj B).toM * (bbcT B).toM = 1 := by
  ext y y'
  simp only [Matrix.mul_apply, Mat.toM_apply, bbcConj, bbcT, Mat.get_ofFn, conj_eq_star, bbcEntry]
  rw [sum_flat]
  simp only [pdiv_pidx, pmod_pidx]
  rw [sum_flat]
  simp only [sum_flat (a := d) (b := d), pdiv_pidx, pmod_pidx]
  have h1 := h (pdiv y) (pdiv y')
  have h2 := h (pmod y') (pmod y)
  rw [vdot_eq_double] at h1 h2
  have key : ∀ i1 i2 j1 j2 : Fin d,
      star ((B.get (pdiv y)).get i1 j1 * star ((B.get (pmod y)).get i2 j2)) *
        ((B.get (pdiv y')).get i1 j1 * star ((B.get (pmod y')).get i2 j2))
      = (star ((B.get (pdiv y)).get i1 j1) * (B.get (pdiv y')).get i1 j1) *
        (star ((B.get (pmod y')).get i2 j2) * (B.get (pmod y)).get i2 j2) := by
    intro i1 i2 j1 j2
    rw [star_mul', star_star]; ring
  simp only [key]
  rw [sum4_factor (fun i1 j1 => star ((B.get (pdiv y)).get i1 j1) * (B.get (pdiv y')).get i1 j1)
    (fun i2 j2 => star ((B.get (pmod y')).get i2 j2) * (B.get (pmod y)).get i2 j2), h1, h2]
  rw [Matrix.one_apply]
  by_cases hy : y = y'
  · subst hy; simp
  · rw [if_neg hy]
    by_cases ha : pdiv y = pdiv y'
    · have hb : pmod y' ≠ pmod y := by
        intro hb
        apply hy
        rw [← pidx_pdiv_pmod y, ← pidx_pdiv_pmod y', ha, hb]
      simp [hb]
    · simp [ha]

theorem bbc_complete (B : Basis K d (d * d)) (h : Orthonormal B) :
    (bbcT B).toM * (bbcConj B).toM = 1 :=
  mul_eq_one_comm.1 (bbc_orthonormal B h)

theorem toV_choiSparse_flat (B : Basis K d (d * d)) (hs : Mat K (d * d) (d * d)) :
    Vec.toV (flat (choiSparse B hs)) = (bbcT B).toM *ᵥ Vec.toV (flat hs) := by
  simp [choiSparse]

theorem toV_hsOfChoiSparseRaw_flat (B : Basis K d (d * d)) (c : Mat K (d * d) (d * d)) :
    Vec.toV (flat (hsOfChoiSparseRaw B c)) = (bbcConj B).toM *ᵥ Vec.toV (flat c) := by
  simp [hsOfChoiSparseRaw]

/-- entry formula `C(A) = Σ_{αβ} HS_{αβ} B_α ⊗ conj(B_β)` of the sparse implementation -/
theorem choiSparse_get (B : Basis K d (d * d)) (hs : Mat K (d * d) (d * d)) (i j : Fin (d * d)) :
    (choiSparse B hs).get i j = ∑ al, ∑ be, hs.get al be * bbcEntry B al be i j := by
  simp only [choiSparse, unflat_get, Mat.mulVec, Vec.get_ofFn, fsum_eq_sum, bbcT, Mat.get_ofFn, flat_get,
    pdiv_pidx, pmod_pidx]
  rw [sum_flat]
  simp [mul_comm]

theorem hsOfChoiSparseRaw_get (B : Basis K d (d * d)) (c : Mat K (d * d) (d * d)) (al be : Fin (d * d)) :
    (hsOfChoiSparseRaw B c).get al be = ∑ i, ∑ j, star (bbcEntry B al be i j) * c.get i j := by
  simp only [hsOfChoiSparseRaw, unflat_get, Mat.mulVec, Vec.get_ofFn, fsum_eq_sum, bbcConj, Mat.get_ofFn,
    flat_get, pdiv_pidx, pmod_pidx, conj_eq_star]
  rw [sum_flat]
  simp

theorem hsOfChoiLoopRaw_get (B : Basis K d (d * d)) (c : Mat K (d * d) (d * d)) (al be : Fin (d * d)) :
    (hsOfChoiLoopRaw B c).get al be = ∑ i, ∑ j, star (bbcEntry B al be i j) * c.get i j := by
  simp only [hsOfChoiLoopRaw, Mat.get_ofFn, Mat.trace, Mat.mul, fsum_eq_sum, ctransp, bbc_get, conj_eq_star]
  exact Finset.sum_comm

theorem sum_filterMap_dict [DecidableEq K] {ι : Type} (l : List ι) (c : ι → K) (w : ι → K) :
    ((l.filterMap fun p => if c p = 0 then none else some (p, c p)).map fun t => w t.1 * t.2).sum
      = (l.map fun p => w p * c p).sum := by
  induction l with
  | nil => simp
  | cons p l ih =>
    by_cases hc : c p = 0
    · simp [List.filterMap_cons, hc, ih]
    · simp [List.filterMap_cons, hc, ih]

theorem choiDict_get [DecidableEq K] (B : Basis K d (d * d)) (hs : Mat K (d * d) (d * d))
    (i j : Fin (d * d)) :
    (choiDict B hs).get i j = ∑ al, ∑ be, hs.get al be * bbcEntry B al be i j := by
  simp only [choiDict, Mat.get_ofFn, dictHsToChoi]
  rw [foldl_add_eq_sum, zero_add]
  have := sum_filterMap_dict (pairs (d * d)) (fun p => bbcEntry B p.1 p.2 i j) (fun p => hs.get p.1 p.2)
  rw [← sum_pairs (fun p => hs.get p.1 p.2 * bbcEntry B p.1 p.2 i j), ← this]
  congr 1
  rw [List.map_filterMap, List.map_filterMap]
  congr 1
  funext p
  by_cases hc : bbcEntry B p.1 p.2 i j = 0 <;> simp [hc]

theorem hsOfChoiDictRaw_get [DecidableEq K] (B : Basis K d (d * d)) (c : Mat K (d * d) (d * d))
    (al be : Fin (d * d)) :
    (hsOfChoiDictRaw B c).get al be = ∑ i, ∑ j, bbcEntry B al be i j * c.get j i := by
  simp only [hsOfChoiDictRaw, Mat.get_ofFn, dictChoiToHs]
  rw [foldl_add_eq_sum, zero_add]
  have := sum_filterMap_dict (pairs (d * d)) (fun p => bbcEntry B al be p.1 p.2) (fun p => c.get p.2 p.1)
  rw [← sum_pairs (fun p => bbcEntry B al be p.1 p.2 * c.get p.2 p.1)]
  have e : (fun p : Fin (d * d) × Fin (d * d) => bbcEntry B al be p.1 p.2 * c.get p.2 p.1)
      = fun p => c.get p.2 p.1 * bbcEntry B al be p.1 p.2 := by funext p; ring
  rw [e, ← this]
  congr 1
  rw [List.map_filterMap, List.map_filterMap]
  congr 1
  funext p
  by_cases hc : bbcEntry B al be p.1 p.2 = 0 <;> simp [hc, mul_comm]

theorem choiLoop_eq (B : Basis K d (d * d)) (hs : Mat K (d * d) (d * d)) (hd : 0 < d) :
    choiLoop B hs = some (choiSparse B hs) := by
  unfold choiLoop
  have hne : (pairs (d * d)).map (fun p => (bbc B p.1 p.2).smul (hs.get p.1 p.2)) ≠ [] := by
    intro h
    exact pairs_ne_nil (Nat.mul_pos hd hd) (List.map_eq_nil_iff.1 h)
  obtain ⟨R, hR, hget⟩ := reduceAdd_get _ hne
  rw [hR]
  congr 1
  apply Mat.ext'
  intro i j
  rw [hget, choiSparse_get, List.map_map, ← sum_pairs (fun p => hs.get p.1 p.2 * bbcEntry B p.1 p.2 i j)]
  congr 1
  apply List.map_congr_left
  intro p _
  simp [Mat.smul]

end gate

/-! ## basis change -/
section change
variable {K : Type} [CommRing K] [StarRing K] {d n : Nat}

theorem toM_transU (F T : Basis K d n) :
    (transU F T).toM = (basisConj T).toM * (basisT F).toM := by
  ext a b
  simp [transU, vdot_eq, Matrix.mul_apply, basisConj, basisT, conj_eq_star]

theorem toM_transU_conjTranspose (F T : Basis K d n) :
    ((transU F T).toM)ᴴ = (transU T F).toM := by
  rw [toM_transU, toM_transU, Matrix.conjTranspose_mul, toM_basisT_conjTranspose,
    toM_basisConj_conjTranspose]

theorem toM_convertHs (F T : Basis K d n) (hs : Mat K n n) :
    (convertHs F T hs).toM = (transU F T).toM * hs.toM * (transU T F).toM := by
  simp [convertHs, toM_ctransp, toM_transU_conjTranspose]

theorem toV_convertVec (F T : Basis K d n) (v : Vec K n) :
    Vec.toV (convertVec F T v) = (transU F T).toM *ᵥ Vec.toV v := by
  have : convertVec F T v = (transU F T).mulVec v := rfl
  rw [this, Mat.toV_mulVec]

/-- `U_{F←T} U_{T←F} = 1` when `F` is orthonormal and `T` complete -/
theorem transU_mul_transU (F T : Basis K d n) (hF : Orthonormal F) (hT : Complete T) :
    (transU T F).toM * (transU F T).toM = 1 := by
  rw [toM_transU, toM_transU]
  calc (basisConj F).toM * (basisT T).toM * ((basisConj T).toM * (basisT F).toM)
      = (basisConj F).toM * ((basisT T).toM * (basisConj T).toM) * (basisT F).toM := by
        simp only [Matrix.mul_assoc]
    _ = 1 := by rw [(complete_iff T).1 hT, Matrix.mul_one, (orthonormal_iff F).1 hF]

theorem eMat_get {d : Nat} (r c i j : Fin d) :
    (eMat r c : Mat K d d).get i j = if i = r ∧ j = c then 1 else 0 := by simp [eMat]

theorem flat_idx_eq_iff {a b : Nat} (x y : Fin (a * b)) :
    (pdiv x = pdiv y ∧ pmod x = pmod y) ↔ x = y := by
  constructor
  · rintro ⟨h1, h2⟩
    rw [← pidx_pdiv_pmod x, ← pidx_pdiv_pmod y, h1, h2]
  · rintro rfl; exact ⟨rfl, rfl⟩

theorem toM_basisT_comp (d : Nat) : (basisT (compBasis d true : Basis K d (d * d))).toM = 1 := by
  ext x a
  simp only [basisT, compBasis, Mat.toM_apply, Mat.get_ofFn, Vec.get_ofFn, if_true, eMat_get,
    Matrix.one_apply, flat_idx_eq_iff]

theorem toM_basisConj_comp (d : Nat) : (basisConj (compBasis d true : Basis K d (d * d))).toM = 1 := by
  rw [← toM_basisT_conjTranspose, toM_basisT_comp, Matrix.conjTranspose_one]

theorem comp_orthonormal (d : Nat) : Orthonormal (compBasis d true : Basis K d (d * d)) := by
  rw [orthonormal_iff, toM_basisT_comp, toM_basisConj_comp, Matrix.mul_one]

/-- HS matrix in the row-major computational basis: `M^T · hs · conj(M)` -/
theorem toM_convertHs_toComp (B : Basis K d (d * d)) (hs : Mat K (d * d) (d * d)) :
    (convertHs B (compBasis d true) hs).toM = (basisT B).toM * hs.toM * (basisConj B).toM := by
  rw [toM_convertHs, toM_transU, toM_transU, toM_basisT_comp, toM_basisConj_comp]
  simp

theorem toM_convertHs_fromComp (B : Basis K d (d * d)) (X : Mat K (d * d) (d * d)) :
    (convertHs (compBasis d true) B X).toM = (basisConj B).toM * X.toM * (basisT B).toM := by
  rw [toM_convertHs, toM_transU, toM_transU, toM_basisT_comp, toM_basisConj_comp]
  simp

end change

/-! ## Choi matrix = reshuffled computational-basis HS matrix; Kraus forms -/
section kraus
variable {K : Type} [CommRing K] [StarRing K] {d : Nat}

theorem choiSparse_eq_reshuffle (B : Basis K d (d * d)) (hs : Mat K (d * d) (d * d)) (i j : Fin (d * d)) :
    (choiSparse B hs).get i j =
      ((basisT B).toM * hs.toM * (basisConj B).toM) (pidx (pdiv i) (pdiv j)) (pidx (pmod i) (pmod j)) := by
  rw [choiSparse_get]
  simp only [Matrix.mul_apply, Mat.toM_apply, basisT, basisConj, Mat.get_ofFn, pdiv_pidx, pmod_pidx,
    conj_eq_star, bbcEntry, Finset.sum_mul]
  rw [Finset.sum_comm]
  apply Finset.sum_congr rfl; intro be _
  apply Finset.sum_congr rfl; intro al _
  ring

theorem foldl_addF_get {α : Type} {m n : Nat} (l : List α) (F : α → Mat K m n) (z : Mat K m n)
    (i : Fin m) (j : Fin n) :
    (l.foldl (fun acc k => acc.add (F k)) z).get i j = z.get i j + (l.map fun k => (F k).get i j).sum := by
  induction l generalizing z with
  | nil => simp
  | cons a l ih =>
    simp only [List.foldl_cons, List.map_cons, List.sum_cons]
    rw [ih]; simp [Mat.add, add_assoc]

theorem krausTensorSum_get (ks : List (Mat K d d)) (x y : Fin (d * d)) :
    (krausTensorSum ks).get x y
      = (ks.map fun k => k.get (pdiv x) (pdiv y) * star (k.get (pmod x) (pmod y))).sum := by
  unfold krausTensorSum
  rw [foldl_addF_get]
  simp [Mat.zero, kron, conjM, conj_eq_star]

/-- `(K ⊗ conj K) · vec(ρ) = vec(K ρ K^†)` (row-major flattening) -/
theorem kron_conj_action (k rho : Mat K d d) (x : Fin (d * d)) :
    ((kron k (conjM k)).mulVec (flat rho)).get x
      = ((k.mul rho).mul (ctransp k)).get (pdiv x) (pmod x) := by
  simp only [Mat.mulVec, Vec.get_ofFn, fsum_eq_sum, kron, conjM, Mat.get_ofFn, flat_get, conj_eq_star,
    Mat.mul, ctransp]
  rw [sum_flat]
  simp only [pdiv_pidx, pmod_pidx, Finset.sum_mul]
  rw [Finset.sum_comm]
  apply Finset.sum_congr rfl; intro l _
  apply Finset.sum_congr rfl; intro kk _
  ring


/-- the channel `ρ ↦ Σ_K K ρ K^†` (specification; same fold as `krausTensorSum`) -/
def krausApply (ks : List (Mat K d d)) (rho : Mat K d d) : Mat K d d :=
  ks.foldl (fun acc k => acc.add ((k.mul rho).mul (ctransp k))) Mat.zero

theorem add_mulVec {m n : Nat} (A C : Mat K m n) (v : Vec K n) :
    (A.add C).mulVec v = (A.mulVec v).add (C.mulVec v) := by
  apply Vec.toV_injective; simp [Matrix.add_mulVec]

theorem krausTensorSum_action (ks : List (Mat K d d)) (rho : Mat K d d) :
    (krausTensorSum ks).mulVec (flat rho) = flat (krausApply ks rho) := by
  unfold krausTensorSum krausApply
  have step : ∀ (l : List (Mat K d d)) (Z : Mat K (d * d) (d * d)) (Z' : Mat K d d),
      Z.mulVec (flat rho) = flat Z' →
      (l.foldl (fun acc k => acc.add (kron k (conjM k))) Z).mulVec (flat rho)
        = flat (l.foldl (fun acc k => acc.add ((k.mul rho).mul (ctransp k))) Z') := by
    intro l
    induction l with
    | nil => intro Z Z' h; simpa using h
    | cons k l ih =>
      intro Z Z' h
      simp only [List.foldl_cons]
      apply ih
      rw [add_mulVec, h]
      apply Vec.ext'; intro x
      simp only [Vec.add, Vec.get_ofFn, flat_get, Mat.add, Mat.get_ofFn]
      rw [kron_conj_action]
  apply step
  apply Vec.ext'; intro x
  simp [Mat.mulVec, Mat.zero, fsum_eq_sum]

end kraus

/-! ## process matrix and column-major computational basis -/
section procmat
variable {K : Type} [CommRing K] [StarRing K] {d n : Nat}

theorem eq_pidx_iff {a b : Nat} (y : Fin (a * b)) (i : Fin a) (j : Fin b) :
    y = pidx i j ↔ pdiv y = i ∧ pmod y = j := by
  constructor
  · rintro rfl; simp
  · rintro ⟨rfl, rfl⟩; simp

/-- `E_α^† ⊗ E_β^T` for computational-basis elements is a single matrix unit -/
theorem kron_comp_get (al be x y : Fin (d * d)) :
    (kron (ctransp ((compBasis d true : Basis K d (d * d)).get al))
        (((compBasis d true : Basis K d (d * d)).get be).transpose)).get x y
      = if y = pidx (pdiv al) (pdiv be) ∧ x = pidx (pmod al) (pmod be) then 1 else 0 := by
  simp only [kron, ctransp, Mat.transpose, compBasis, Vec.get_ofFn, Mat.get_ofFn, if_true, eMat_get,
    conj_eq_star, eq_pidx_iff]
  by_cases h1 : pdiv y = pdiv al <;> by_cases h2 : pdiv x = pmod al <;>
    by_cases h3 : pmod y = pdiv be <;> by_cases h4 : pmod x = pmod be <;> simp [h1, h2, h3, h4]

theorem processMatrix_get (B : Basis K d (d * d)) (hs : Mat K (d * d) (d * d)) (al be : Fin (d * d)) :
    (processMatrix B hs).get al be
      = (convertHs B (compBasis d true) hs).get (pidx (pdiv al) (pdiv be)) (pidx (pmod al) (pmod be)) := by
  simp only [processMatrix, Mat.get_ofFn, Mat.trace, Mat.mul, fsum_eq_sum, kron_comp_get]
  rw [Finset.sum_eq_single (pidx (pmod al) (pmod be))]
  · rw [Finset.sum_eq_single (pidx (pdiv al) (pdiv be))]
    · simp
    · intro y _ hy; simp [hy]
    · intro h; exact absurd (Finset.mem_univ _) h
  · intro x _ hx
    apply Finset.sum_eq_zero
    intro y _; simp [hx]
  · intro h; exact absurd (Finset.mem_univ _) h

/-- the index permutation `(i, j) ↦ (j, i)` on flattened indices -/
def swapIdx {d : Nat} (x : Fin (d * d)) : Fin (d * d) := pidx (pmod x) (pdiv x)

@[simp] theorem swapIdx_swapIdx {d : Nat} (x : Fin (d * d)) : swapIdx (swapIdx x) = x := by
  simp [swapIdx]

theorem swapIdx_involutive {d : Nat} : Function.Involutive (swapIdx : Fin (d * d) → Fin (d * d)) :=
  swapIdx_swapIdx

theorem compBasis_col_get (d : Nat) (x : Fin (d * d)) :
    (compBasis d false : Basis K d (d * d)).get x = (compBasis d true : Basis K d (d * d)).get (swapIdx x) := by
  simp [compBasis, swapIdx]

theorem convertHs_reindex (F T T' : Basis K d n) (σ : Fin n → Fin n)
    (h : ∀ x, T'.get x = T.get (σ x)) (hs : Mat K n n) (x y : Fin n) :
    (convertHs F T' hs).get x y = (convertHs F T hs).get (σ x) (σ y) := by
  simp [convertHs, Mat.mul, ctransp, transU, h]


/-- `matrix.flatten('F')` (column-major flattening) -/
def flatCol {d : Nat} (A : Mat K d d) : Vec K (d * d) := Vec.ofFn fun x => A.get (pmod x) (pdiv x)

theorem flatCol_get {d : Nat} (A : Mat K d d) (x : Fin (d * d)) :
    (flatCol A).get x = (flat A).get (swapIdx x) := by simp [flatCol, swapIdx]

theorem sum_swapIdx {d : Nat} (g : Fin (d * d) → K) : ∑ y, g (swapIdx y) = ∑ y, g y :=
  Equiv.sum_comp (swapIdx_involutive.toPerm) g

end procmat

/-! ## linearity of the flattened forms -/
section linear
variable {K : Type} [CommRing K] [StarRing K] {d n : Nat}

theorem flat_add {a b : Nat} (A C : Mat K a b) : flat (A.add C) = (flat A).add (flat C) := by
  apply Vec.ext'; intro x; simp [Mat.add, Vec.add]

theorem flat_smul {a b : Nat} (c : K) (A : Mat K a b) : flat (A.smul c) = (flat A).smul c := by
  apply Vec.ext'; intro x; simp [Mat.smul, Vec.smul]

theorem unflat_add {a b : Nat} (u v : Vec K (a * b)) : unflat (u.add v) = (unflat u : Mat K a b).add (unflat v) := by
  apply Mat.ext'; intro i j; simp [Mat.add, Vec.add]

theorem unflat_smul {a b : Nat} (c : K) (v : Vec K (a * b)) : unflat (v.smul c) = (unflat v : Mat K a b).smul c := by
  apply Mat.ext'; intro i j; simp [Mat.smul, Vec.smul]

theorem mulVec_add {m n : Nat} (A : Mat K m n) (u v : Vec K n) :
    A.mulVec (u.add v) = (A.mulVec u).add (A.mulVec v) := by
  apply Vec.toV_injective; simp [Matrix.mulVec_add]

theorem mulVec_smul {m n : Nat} (A : Mat K m n) (c : K) (v : Vec K n) :
    A.mulVec (v.smul c) = (A.mulVec v).smul c := by
  apply Vec.toV_injective; simp [Matrix.mulVec_smul]

end linear

/-! ## Gaussian rationals form a commutative star-ring: the theorems hold literally for the executed instance -/
namespace CRat
theorem ext' {a b : CRat} (h1 : a.re = b.re) (h2 : a.im = b.im) : a = b := by
  cases a; cases b; simp_all
@[simp] theorem add_re (a b : CRat) : (a + b).re = a.re + b.re := rfl
@[simp] theorem add_im (a b : CRat) : (a + b).im = a.im + b.im := rfl
@[simp] theorem mul_re (a b : CRat) : (a * b).re = a.re * b.re - a.im * b.im := rfl
@[simp] theorem mul_im (a b : CRat) : (a * b).im = a.re * b.im + a.im * b.re := rfl
@[simp] theorem neg_re (a : CRat) : (-a).re = -a.re := rfl
@[simp] theorem neg_im (a : CRat) : (-a).im = -a.im := rfl
@[simp] theorem zero_re : (0 : CRat).re = 0 := rfl
@[simp] theorem zero_im : (0 : CRat).im = 0 := rfl
@[simp] theorem one_re : (1 : CRat).re = 1 := rfl
@[simp] theorem one_im : (1 : CRat).im = 0 := rfl
@[simp] theorem conj_re (a : CRat) : (conj a).re = a.re := rfl
@[simp] theorem conj_im (a : CRat) : (conj a).im = -a.im := rfl

instance : CommRing CRat := CommRing.ofMinimalAxioms
  (by intro a b c; apply ext' <;> simp [add_assoc])
  (by intro a; apply ext' <;> simp)
  (by intro a; apply ext' <;> simp)
  (by intro a b c; apply ext' <;> simp <;> ring)
  (by intro a b; apply ext' <;> simp <;> ring)
  (by intro a; apply ext' <;> simp)
  (by intro a b c; apply ext' <;> simp <;> ring)

instance : StarRing CRat where
  star := conj
  star_involutive := by intro a; apply ext' <;> simp
  star_mul := by intro a b; apply ext' <;> simp <;> ring
  star_add := by intro a b; apply ext' <;> simp <;> ring
end CRat


/-! ## Kraus extraction: filter / sort / scaling of `krausRaw` under the `eigh` contract -/
section krauslink
variable {d : Nat}

theorem ofRat_mul_ofRat (a b : Rat) : CRat.ofRat a * CRat.ofRat b = CRat.ofRat (a * b) := by
  apply CRat.ext' <;> simp [CRat.ofRat]

theorem star_ofRat (a : Rat) : star (CRat.ofRat a) = CRat.ofRat a := by
  apply CRat.ext' <;> simp [CRat.ofRat, Star.star]

theorem insertDesc_perm (e : EigPair d) (l : List (EigPair d)) : (insertDesc e l).Perm (e :: l) := by
  induction l with
  | nil => simp [insertDesc]
  | cons x xs ih =>
    unfold insertDesc
    split
    · exact List.Perm.refl _
    · exact (List.Perm.cons x ih).trans (List.Perm.swap e x xs)

theorem sortDesc_perm (l : List (EigPair d)) : (sortDesc l).Perm l := by
  unfold sortDesc
  have : ∀ (l acc : List (EigPair d)), (l.foldl (fun acc e => insertDesc e acc) acc).Perm (l ++ acc) := by
    intro l
    induction l with
    | nil => intro acc; simp
    | cons a l ih =>
      intro acc
      simp only [List.foldl_cons, List.cons_append]
      exact (ih _).trans ((List.Perm.append_left l (insertDesc_perm a acc)).trans List.perm_middle)
  simpa using this l []

theorem sum_filter_of_zero {α : Type} (l : List α) (p : α → Bool) (f : α → CRat)
    (h : ∀ e ∈ l, p e = false → f e = 0) :
    ((l.filter p).map f).sum = (l.map f).sum := by
  induction l with
  | nil => simp
  | cons a l ih =>
    have ih' := ih (fun e he => h e (List.mem_cons_of_mem a he))
    by_cases hp : p a = true
    · simp [List.filter_cons, hp, ih']
    · have hp' : p a = false := by simpa using hp
      have := h a (List.mem_cons_self) hp'
      simp [List.filter_cons, hp', ih', this]

/-- the list returned by `krausRaw` (CP branch) has `Σ_K |K⟫⟪K| = Σ_e λ_e v_e v_e^†`, provided numpy's
`sqrt` is exact on the kept eigenvalues and every eigenvalue inside the zero filter is exactly 0 -/
theorem krausRaw_sum (B : Basis CRat d (d * d)) (hs : Mat CRat (d * d) (d * d))
    (eigs : List (EigPair d)) (atol atolS : Rat)
    (hcp : isCp (choiSparse B hs) eigs atol = true)
    (hsqrt : ∀ e ∈ eigs, closeZero e.val atolS = false → e.sqrtVal * e.sqrtVal = e.val)
    (hzero : ∀ e ∈ eigs, closeZero e.val atolS = true → e.val = 0) (i j : Fin (d * d)) :
    ((krausRaw B hs eigs atol atolS).map fun k => (flat k).get i * star ((flat k).get j)).sum
      = (eigs.map fun e => CRat.ofRat e.val * (e.vec.get i * star (e.vec.get j))).sum := by
  unfold krausRaw
  simp only [hcp, Bool.not_true, Bool.false_eq_true, if_false, List.map_map]
  rw [((sortDesc_perm _).map _).sum_eq]
  have hfun : ∀ e ∈ eigs, closeZero e.val atolS = false →
      ((fun k : Mat CRat d d => (flat k).get i * star ((flat k).get j)) ∘
        fun e : EigPair d => (unflat e.vec : Mat CRat d d).smul (CRat.ofRat e.sqrtVal)) e
      = CRat.ofRat e.val * (e.vec.get i * star (e.vec.get j)) := by
    intro e he hz
    simp only [Function.comp, flat_get, Mat.smul, Mat.get_ofFn, unflat_get, pidx_pdiv_pmod]
    rw [star_mul', star_ofRat, ← hsqrt e he hz, ← ofRat_mul_ofRat]
    ring
  rw [← sum_filter_of_zero eigs (fun e => !closeZero e.val atolS)
    (fun e => CRat.ofRat e.val * (e.vec.get i * star (e.vec.get j)))]
  · apply congrArg
    apply List.map_congr_left
    intro e he
    have hm := List.mem_filter.1 he
    exact hfun e hm.1 (by simpa using hm.2)
  · intro e he hp
    have : closeZero e.val atolS = true := by simpa using hp
    rw [hzero e he this]
    apply CRat.ext' <;> simp [CRat.ofRat]

end krauslink


/-! ## truncate_hs on lists; Hermitian inputs have real coefficients -/
section trunc

theorem truncEntry_error (eps : Rat) (z : CRat) (e : Err) (h : truncEntry eps z = .error e) :
    e = .imagNonZero ∧ ¬ rabs z.im < eps ∧ z.im ≠ 0 := by
  unfold truncEntry at h
  by_cases h1 : rabs z.im < eps <;> by_cases h2 : z.im = 0 <;> simp [h1, h2] at h
  exact ⟨h.symm, h1, h2⟩

theorem truncEntry_ok (eps : Rat) (z : CRat) (r : Rat) (h : truncEntry eps z = .ok r) :
    (rabs z.im < eps ∨ z.im = 0) ∧ ((r = z.re ∧ ¬ rabs z.re < eps) ∨ (r = 0 ∧ rabs z.re < eps)) := by
  unfold truncEntry at h
  by_cases h1 : rabs z.im < eps <;> by_cases h2 : z.im = 0 <;> by_cases h3 : rabs z.re < eps <;>
    simp [h1, h2, h3] at h <;> simp [h1, h2, h3, h.symm]

theorem truncEntry_isOk_iff (eps : Rat) (z : CRat) :
    (∃ r, truncEntry eps z = .ok r) ↔ (rabs z.im < eps ∨ z.im = 0) := by
  unfold truncEntry
  by_cases h1 : rabs z.im < eps <;> by_cases h2 : z.im = 0 <;> simp [h1, h2]

theorem truncList_nil (eps : Rat) : truncList eps [] = .ok [] := rfl

theorem truncList_cons (eps : Rat) (z : CRat) (l : List CRat) :
    truncList eps (z :: l) =
      (match truncEntry eps z with
       | .error e => .error e
       | .ok r => match truncList eps l with
         | .error e => .error e
         | .ok rs => .ok (r :: rs)) := by
  unfold truncList
  rw [List.mapM_cons]
  cases truncEntry eps z with
  | error e => rfl
  | ok r =>
    cases h : List.mapM (truncEntry eps) l with
    | error e => simp [bind, Except.bind, h]
    | ok rs => simp [bind, Except.bind, h, pure, Except.pure]

/-- `truncate_hs` accepts a list iff it accepts every entry; the result is entrywise -/
theorem truncList_ok (eps : Rat) (l : List CRat) (r : List Rat) (h : truncList eps l = .ok r) :
    r.length = l.length ∧ ∀ (i : Nat) (hi : i < l.length) (hr : i < r.length), truncEntry eps l[i] = .ok r[i] := by
  induction l generalizing r with
  | nil =>
    rw [truncList_nil] at h
    injection h with h; subst h; simp
  | cons z l ih =>
    rw [truncList_cons] at h
    cases hz : truncEntry eps z with
    | error e => simp [hz] at h
    | ok x =>
      cases hl : truncList eps l with
      | error e => simp [hz, hl] at h
      | ok rs =>
        simp [hz, hl] at h
        subst h
        obtain ⟨h1, h2⟩ := ih rs hl
        refine ⟨by simp [h1], ?_⟩
        intro i hi hr
        cases i with
        | zero => simpa using hz
        | succ k => simpa using h2 k (by simpa using hi) (by simpa using hr)

theorem truncList_error (eps : Rat) (l : List CRat) (e : Err) (h : truncList eps l = .error e) :
    e = .imagNonZero ∧ ∃ z ∈ l, ¬ rabs z.im < eps ∧ z.im ≠ 0 := by
  induction l with
  | nil => rw [truncList_nil] at h; cases h
  | cons z l ih =>
    rw [truncList_cons] at h
    cases hz : truncEntry eps z with
    | error e' =>
      simp [hz] at h; subst h
      obtain ⟨h1, h2, h3⟩ := truncEntry_error eps z e' hz
      exact ⟨h1, z, by simp, h2, h3⟩
    | ok x =>
      cases hl : truncList eps l with
      | error e' =>
        simp [hz, hl] at h; subst h
        obtain ⟨h1, w, hw, h2⟩ := ih hl
        exact ⟨h1, w, by simp [hw], h2⟩
      | ok rs => simp [hz, hl] at h

theorem truncList_isOk_iff (eps : Rat) (l : List CRat) :
    (∃ r, truncList eps l = .ok r) ↔ ∀ z ∈ l, rabs z.im < eps ∨ z.im = 0 := by
  constructor
  · rintro ⟨r, hr⟩ z hz
    obtain ⟨i, hi, rfl⟩ := List.mem_iff_getElem.1 hz
    obtain ⟨h1, h2⟩ := truncList_ok eps l r hr
    exact (truncEntry_ok eps _ _ (h2 i hi (by omega))).1
  · intro h
    cases hl : truncList eps l with
    | ok r => exact ⟨r, rfl⟩
    | error e =>
      obtain ⟨_, z, hz, h1, h2⟩ := truncList_error eps l e hl
      rcases h z hz with h3 | h3
      · exact absurd h3 h1
      · exact absurd h3 h2

theorem CRat.im_eq_zero_of_star_eq (z : CRat) (h : star z = z) : z.im = 0 := by
  have := congrArg CRat.im h
  simp [Star.star] at this
  linarith

theorem CRat.star_eq_of_im_eq_zero (z : CRat) (h : z.im = 0) : star z = z := by
  apply CRat.ext' <;> simp [Star.star, h]

end trunc

section hermcoef
variable {K : Type} [CommRing K] [StarRing K] {d n : Nat}

/-- `ρ` Hermitian (entrywise) -/
def IsHermitianMat (rho : Mat K d d) : Prop := ∀ i j, star (rho.get j i) = rho.get i j

/-- Hermitian basis, Hermitian matrix ⇒ every coefficient `vdot(B_a, ρ)` is self-conjugate (real) -/
theorem coeff_real_of_hermitian (B : Basis K d n) (hB : HermitianBasis B) (rho : Mat K d d)
    (hr : IsHermitianMat rho) (a : Fin n) :
    star ((vecOfDensityRaw B rho).get a) = (vecOfDensityRaw B rho).get a := by
  have e : (vecOfDensityRaw B rho).get a = vdot (B.get a) rho := by
    simp [vecOfDensityRaw, Mat.mulVec, basisConj, vdot, conj_eq_star]
  rw [e, vdot_eq_double, star_sum]
  simp only [star_sum, star_mul', star_star]
  rw [Finset.sum_comm]
  apply Finset.sum_congr rfl; intro i _
  apply Finset.sum_congr rfl; intro j _
  rw [← hB a i j, ← hr i j, star_star]

/-- complete Hermitian basis, all coefficients self-conjugate ⇒ the matrix is Hermitian -/
theorem hermitian_of_coeff_real (B : Basis K d n) (hB : HermitianBasis B) (hC : Complete B) (rho : Mat K d d)
    (hc : ∀ a, star ((vecOfDensityRaw B rho).get a) = (vecOfDensityRaw B rho).get a) :
    IsHermitianMat rho := by
  have hrec : densitySparse B (vecOfDensityRaw B rho) = rho := by
    apply flat_injective
    apply Vec.toV_injective
    rw [toV_densitySparse_flat, toV_vecOfDensityRaw, Matrix.mulVec_mulVec, (complete_iff B).1 hC,
      Matrix.one_mulVec]
  intro i j
  rw [← hrec, densitySparse_get, densitySparse_get, star_sum]
  apply Finset.sum_congr rfl; intro a _
  rw [star_mul', hc a, hB a i j]

end hermcoef


section contract

theorem rabs_nonneg (x : Rat) : 0 ≤ rabs x := by
  unfold rabs; split <;> linarith

theorem mem_toList_iff_get {α : Type} {n : Nat} (v : Vec α n) (z : α) :
    z ∈ v.toList ↔ ∃ a : Fin n, v.get a = z := by
  rw [List.mem_iff_getElem]
  constructor
  · rintro ⟨i, hi, rfl⟩
    have hi' : i < n := by simpa using hi
    exact ⟨⟨i, hi'⟩, by simp [Vec.get]⟩
  · rintro ⟨a, rfl⟩
    exact ⟨a.val, by simp, by simp [Vec.get]⟩

/-- the contract of numpy's kernels used by `to_kraus_matrices_from_hs`, as one hypothesis:
`eigh` returned a spectral decomposition of the Choi matrix (`C = Σ_e λ_e v_e v_e^†`; orthonormality of the
`v_e` is not required), `sqrt` is exact on the eigenvalues that pass the zero filter, and the eigenvalues
inside the filter are exactly zero. -/
structure EighContract {d : Nat} (B : Basis CRat d (d * d)) (hs : Mat CRat (d * d) (d * d))
    (eigs : List (EigPair d)) (atolS : Rat) : Prop where
  spec : ∀ i j, (choiSparse B hs).get i j
      = (eigs.map fun e => CRat.ofRat e.val * (e.vec.get i * conj (e.vec.get j))).sum
  sqrt_exact : ∀ e ∈ eigs, closeZero e.val atolS = false → e.sqrtVal * e.sqrtVal = e.val
  filtered_zero : ∀ e ∈ eigs, closeZero e.val atolS = true → e.val = 0

end contract

section phase
variable {K : Type} [CommRing K] [StarRing K] {d : Nat}

/-- multiplying every Kraus operator by a unit-modulus scalar (the phase convention of step 3) -/
def phased (ps : List K) (ks : List (Mat K d d)) : List (Mat K d d) :=
  List.zipWith (fun p k => k.smul p) ps ks

theorem phased_sum (ps : List K) (ks : List (Mat K d d)) (hp : ∀ p ∈ ps, p * star p = 1)
    (hlen : ps.length = ks.length) (x y : Fin (d * d)) :
    ((phased ps ks).map fun k => k.get (pdiv x) (pdiv y) * star (k.get (pmod x) (pmod y))).sum
      = (ks.map fun k => k.get (pdiv x) (pdiv y) * star (k.get (pmod x) (pmod y))).sum := by
  induction ps generalizing ks with
  | nil => cases ks with
    | nil => simp [phased]
    | cons k ks => simp at hlen
  | cons p ps ih =>
    cases ks with
    | nil => simp at hlen
    | cons k ks =>
      have h1 := hp p (by simp)
      have := ih ks (fun q hq => hp q (by simp [hq])) (by simpa using hlen)
      simp only [phased, List.zipWith_cons_cons, List.map_cons, List.sum_cons] at *
      rw [this]
      congr 1
      simp only [Mat.smul, Mat.get_ofFn, star_mul']
      calc p * k.get (pdiv x) (pdiv y) * (star p * star (k.get (pmod x) (pmod y)))
          = (p * star p) * (k.get (pdiv x) (pdiv y) * star (k.get (pmod x) (pmod y))) := by ring
        _ = _ := by rw [h1, one_mul]

end phase


section genlemmas
variable {K : Type} [CommRing K] [StarRing K]

theorem transpose_conjM {m n : Nat} (A : Mat K m n) : Mat.transpose (conjM A) = ctransp A := by
  apply Mat.ext'; intro i j; simp [Mat.transpose, conjM, ctransp]

theorem conjM_transpose {m n : Nat} (A : Mat K m n) : conjM (Mat.transpose A) = ctransp A := by
  apply Mat.ext'; intro i j; simp [Mat.transpose, conjM, ctransp]

end genlemmas


section phasefix
variable {d : Nat}

theorem cInv_unit (e : CRat) (h : e.re * e.re + e.im * e.im = 1) : cInv e * star (cInv e) = 1 := by
  apply CRat.ext'
  · simp only [cInv, h, CRat.mul_re, Star.star, CRat.conj_re, CRat.conj_im, CRat.one_re]
    simp only [div_one]; linarith
  · simp only [cInv, h, CRat.mul_im, Star.star, CRat.conj_re, CRat.conj_im, CRat.one_im]
    simp only [div_one]; ring

/-- the phase factor has modulus one when numpy's `abs` is exact on the entry it is applied to -/
theorem phaseFactor_unit (k : Mat CRat d d) (absFlat : Vec Rat (d * d))
    (habs : ∀ x, ((flat k).get x) ≠ 0 →
      absFlat.get x * absFlat.get x = ((flat k).get x).re * ((flat k).get x).re + ((flat k).get x).im * ((flat k).get x).im) :
    phaseFactor k absFlat * star (phaseFactor k absFlat) = 1 := by
  unfold phaseFactor
  split
  · apply CRat.ext' <;> simp [Star.star]
  · rename_i x hx
    have hne : (flat k).get x ≠ 0 := by
      have := List.find?_some hx
      simpa using this
    simp only []
    split
    · apply cInv_unit
      have ha := habs x hne
      set v := (flat k).get x with hv
      set a := absFlat.get x with haa
      have hpos : v.re * v.re + v.im * v.im ≠ 0 := by
        intro h0
        apply hne
        have h1 : v.re * v.re ≥ 0 := mul_self_nonneg _
        have h2 : v.im * v.im ≥ 0 := mul_self_nonneg _
        have hr : v.re = 0 := by nlinarith
        have hi : v.im = 0 := by nlinarith
        apply CRat.ext' <;> simp [hr, hi]
      have ha0 : a ≠ 0 := by
        intro h0; rw [h0] at ha; apply hpos; linarith
      simp only [CRat.mul_re, CRat.mul_im, CRat.ofRat]
      field_simp
      nlinarith [ha]
    · apply CRat.ext' <;> simp [Star.star]

theorem phased_map_sum {α : Type} (l : List α) (f : α → Mat CRat d d) (p : α → CRat)
    (hp : ∀ e ∈ l, p e * star (p e) = 1) (x y : Fin (d * d)) :
    (l.map fun e => ((f e).smul (p e)).get (pdiv x) (pmod x) * star (((f e).smul (p e)).get (pdiv y) (pmod y))).sum
      = (l.map fun e => (f e).get (pdiv x) (pmod x) * star ((f e).get (pdiv y) (pmod y))).sum := by
  induction l with
  | nil => simp
  | cons a l ih =>
    simp only [List.map_cons, List.sum_cons]
    rw [ih (fun e he => hp e (by simp [he]))]
    congr 1
    have h1 := hp a (by simp)
    simp only [Mat.smul, Mat.get_ofFn, star_mul']
    calc p a * (f a).get (pdiv x) (pmod x) * (star (p a) * star ((f a).get (pdiv y) (pmod y)))
        = (p a * star (p a)) * ((f a).get (pdiv x) (pmod x) * star ((f a).get (pdiv y) (pmod y))) := by ring
      _ = _ := by rw [h1, one_mul]

/-- numpy's `abs` is exact on the scaled eigenvectors (contract of the phase step) -/
def AbsContract (eigs : List (EigPair d)) : Prop :=
  ∀ e ∈ eigs, ∀ x : Fin (d * d),
    let z := CRat.ofRat e.sqrtVal * e.vec.get x
    e.absScaled.get x * e.absScaled.get x = z.re * z.re + z.im * z.im

/-- the operators of `krausFull` (phase convention included) have the same `Σ |K⟫⟪K|` as those of `krausRaw` -/
theorem krausFull_sum (B : Basis CRat d (d * d)) (hs : Mat CRat (d * d) (d * d))
    (eigs : List (EigPair d)) (atol atolS : Rat) (habs : AbsContract eigs) (i j : Fin (d * d)) :
    ((krausFull B hs eigs atol atolS).map fun k => (flat k).get i * star ((flat k).get j)).sum
      = ((krausRaw B hs eigs atol atolS).map fun k => (flat k).get i * star ((flat k).get j)).sum := by
  unfold krausFull krausRaw
  split
  · rfl
  · simp only [List.map_map, Function.comp_def, flat_get, phaseFix]
    apply phased_map_sum
    intro e he
    have he' : e ∈ eigs := by
      have := (sortDesc_perm _).mem_iff.1 he
      exact (List.mem_filter.1 this).1
    apply phaseFactor_unit
    intro x _
    have := habs e he' x
    simpa [Mat.smul, unflat_get] using this

end phasefix


/-! ## real data through the executed (truncating) conversions -/
section executed

/-- real matrix / vector as complex data (`x ↦ x + 0i`) -/
def ofRatMat {m n : Nat} (A : Mat Rat m n) : Mat CRat m n := Mat.ofFn fun i j => CRat.ofRat (A.get i j)
def ofRatVec {n : Nat} (v : Vec Rat n) : Vec CRat n := Vec.ofFn fun i => CRat.ofRat (v.get i)

theorem toList_eq_map_get {α : Type} {n : Nat} (v : Vec α n) : v.toList = (List.finRange n).map v.get := by
  apply List.ext_getElem
  · simp
  · intro i h1 h2; simp [Vec.get]

theorem toList_ofFn_comp {α β : Type} {n : Nat} (v : Vec α n) (f : α → β) :
    (Vec.ofFn fun i => f (v.get i)).toList = v.toList.map f := by
  rw [toList_eq_map_get, toList_eq_map_get v, List.map_map]
  apply List.map_congr_left; intro a _; simp

theorem toList_ofRatVec {n : Nat} (v : Vec Rat n) : (ofRatVec v).toList = v.toList.map CRat.ofRat :=
  toList_ofFn_comp v CRat.ofRat

theorem matList_ofRatMat {m n : Nat} (A : Mat Rat m n) : matList (ofRatMat A) = (matList A).map CRat.ofRat := by
  unfold matList
  rw [← toList_ofFn_comp (flat A) CRat.ofRat]
  congr 1
  apply Vec.ext'; intro x; simp [ofRatMat]

theorem truncEntry_ofRat (eps x : Rat) (h : x = 0 ∨ ¬ rabs x < eps) : truncEntry eps (CRat.ofRat x) = .ok x := by
  unfold truncEntry
  rcases h with rfl | h
  · by_cases h0 : rabs (0 : Rat) < eps <;> simp [CRat.ofRat, h0]
  · simp [CRat.ofRat, h]

/-- `truncate_hs` is the identity on real data whose entries are 0 or at least `eps` in modulus -/
theorem truncList_ofRat (eps : Rat) (xs : List Rat) (h : ∀ x ∈ xs, x = 0 ∨ ¬ rabs x < eps) :
    truncList eps (xs.map CRat.ofRat) = .ok xs := by
  induction xs with
  | nil => rfl
  | cons x xs ih =>
    rw [List.map_cons, truncList_cons, truncEntry_ofRat eps x (h x (by simp)), ih (fun y hy => h y (by simp [hy]))]

theorem realList_map_ofRat (xs : List Rat) : realList (xs.map CRat.ofRat) = xs := by
  induction xs with
  | nil => rfl
  | cons x xs ih => simp [realList, CRat.ofRat] at *; exact ih

/-- `convert_hs_to_var(…, True)` on the flattened list: deleting row 0 drops the first `n` entries -/
theorem matList_drop_eq {α : Type} {n : Nat} (M : Mat α n n) : (matList M).drop n = (hsToVarEq M).toList := by
  apply List.ext_getElem
  · simp [matList, Nat.sub_mul]
  · intro k h1 h2
    have hk : k < (n - 1) * n := by simpa using h2
    have hn : 0 < n := by
      rcases Nat.eq_zero_or_pos n with h | h
      · subst h; simp at hk
      · exact h
    simp only [List.getElem_drop, matList, Vector.getElem_toList, hsToVarEq, Vec.ofFn, Vector.getElem_ofFn, flat]
    congr 1
    · apply Fin.ext
      simp only [pdiv]
      rw [Nat.add_comm, Nat.add_div_right _ hn]
    · apply Fin.ext
      simp only [pmod]
      rw [Nat.add_comm, Nat.add_mod_right]

theorem varToHsEq_ofRat {n : Nat} (w : Vec Rat ((n - 1) * n)) : varToHsEq (ofRatVec w) = ofRatMat (varToHsEq w) := by
  apply Mat.ext'; intro i j
  simp only [varToHsEq, ofRatMat, ofRatVec, Mat.get_ofFn, Vec.get_ofFn]
  by_cases h : i.val = 0
  · by_cases h2 : j.val = 0 <;> simp [h, h2, CRat.ofRat] <;> rfl
  · simp [h]

theorem unflat_ofRatVec {a b : Nat} (v : Vec Rat (a * b)) : (unflat (ofRatVec v) : Mat CRat a b) = ofRatMat (unflat v) := by
  apply Mat.ext'; intro i j; simp [ofRatMat, ofRatVec]

end executed

/-! ## Frobenius norm and the unitarity of the Choi <-> HS maps -/
section frob
variable {K : Type} [CommRing K] [StarRing K] {d : Nat}

/-- squared Frobenius norm `Σ conj(m_ij) m_ij` -/
def frobSq {m n : Nat} (A : Mat K m n) : K := ∑ x, star ((flat A).get x) * (flat A).get x

theorem toM_bbcConj_conjTranspose (B : Basis K d (d * d)) : ((bbcConj B).toM)ᴴ = (bbcT B).toM := by
  ext x y; simp [bbcConj, bbcT, conj_eq_star, Matrix.conjTranspose_apply]

/-- for an orthonormal basis Choi → HS preserves the Frobenius norm -/
theorem frobSq_hsOfChoi (B : Basis K d (d * d)) (h : Orthonormal B) (c : Mat K (d * d) (d * d)) :
    frobSq (hsOfChoiSparseRaw B c) = frobSq c := by
  unfold frobSq
  have e1 : (∑ x, star ((flat (hsOfChoiSparseRaw B c)).get x) * (flat (hsOfChoiSparseRaw B c)).get x)
      = star (Vec.toV (flat (hsOfChoiSparseRaw B c))) ⬝ᵥ Vec.toV (flat (hsOfChoiSparseRaw B c)) := by
    simp [dotProduct, Vec.toV]
  have e2 : (∑ x, star ((flat c).get x) * (flat c).get x) = star (Vec.toV (flat c)) ⬝ᵥ Vec.toV (flat c) := by
    simp [dotProduct, Vec.toV]
  rw [e1, e2, toV_hsOfChoiSparseRaw_flat, Matrix.star_mulVec, Matrix.dotProduct_mulVec, Matrix.vecMul_vecMul,
    toM_bbcConj_conjTranspose, bbc_complete B h, Matrix.vecMul_one]


/-- `Σ_K |K⟫⟪K|` of a list of operators (row-major flattening) -/
def choiOfKraus (ks : List (Mat K d d)) : Mat K (d * d) (d * d) :=
  Mat.ofFn fun i j => (ks.map fun k => (flat k).get i * star ((flat k).get j)).sum

theorem hsOfChoiSparseRaw_sub (B : Basis K d (d * d)) (x y : Mat K (d * d) (d * d)) :
    hsOfChoiSparseRaw B (x.sub y) = (hsOfChoiSparseRaw B x).sub (hsOfChoiSparseRaw B y) := by
  apply Mat.ext'; intro al be
  simp only [Mat.sub, Mat.get_ofFn, hsOfChoiSparseRaw_get, mul_sub, Finset.sum_sub_distrib]

end frob


/-! ## extension round 3: composition of basis changes, column-major orthonormality, Hermiticity -/
section ext3
variable {K : Type} [CommRing K] [StarRing K] {d n : Nat}

/-- `U_{S←T} U_{T←F} = U_{S←F}` when the intermediate basis `T` is complete -/
theorem transU_comp (F T S : Basis K d n) (hT : Complete T) :
    (transU T S).toM * (transU F T).toM = (transU F S).toM := by
  rw [toM_transU, toM_transU, toM_transU]
  calc (basisConj S).toM * (basisT T).toM * ((basisConj T).toM * (basisT F).toM)
      = (basisConj S).toM * ((basisT T).toM * (basisConj T).toM) * (basisT F).toM := by
        simp only [Matrix.mul_assoc]
    _ = _ := by rw [(complete_iff T).1 hT, Matrix.mul_one]

theorem swapIdx_injective {d : Nat} : Function.Injective (swapIdx : Fin (d * d) → Fin (d * d)) :=
  swapIdx_involutive.injective

theorem comp_col_orthonormal (d : Nat) : Orthonormal (compBasis d false : Basis K d (d * d)) := by
  intro a b
  rw [compBasis_col_get, compBasis_col_get, comp_orthonormal d (swapIdx a) (swapIdx b)]
  by_cases h : a = b
  · subst h; simp
  · have : swapIdx a ≠ swapIdx b := fun e => h (swapIdx_injective e)
    simp [h, this]

/-- `B_α ⊗ conj B_β` is Hermitian when the basis is -/
theorem bbcEntry_hermitian (B : Basis K d (d * d)) (hB : HermitianBasis B) (al be i j : Fin (d * d)) :
    star (bbcEntry B al be j i) = bbcEntry B al be i j := by
  simp only [bbcEntry, conj_eq_star, star_mul', star_star]
  rw [hB al (pdiv i) (pdiv j), ← hB be (pmod j) (pmod i)]

end ext3

end QM.C02
