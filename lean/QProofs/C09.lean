import QModel.C09
import QProofs.C08
import QProofs.Bridge
import Mathlib.LinearAlgebra.Matrix.NonsingularInverse
import Mathlib.LinearAlgebra.Matrix.DotProduct
import Mathlib.LinearAlgebra.Matrix.Rank
import Mathlib.Algebra.Order.BigOperators.Group.Finset
import Mathlib.Algebra.Order.Field.Basic
import Mathlib.Tactic.Ring
import Mathlib.Tactic.Linarith
/-!
# helper lemmas for C09: least squares through the normal equations, at the level of Mathlib matrices
-/
open Matrix
namespace QM.C09

section field
variable {K : Type} [Field K] {m n : Nat}

/-- `G (AᵀA) = 1 ⇒ (AᵀA) G = 1` (square matrices over a field) -/
theorem contract_comm {G : Matrix (Fin n) (Fin n) K} {A : Matrix (Fin m) (Fin n) K}
    (h : G * (Aᵀ * A) = 1) : (Aᵀ * A) * G = 1 := mul_eq_one_comm.1 h

theorem m_exact {G : Matrix (Fin n) (Fin n) K} {A : Matrix (Fin m) (Fin n) K}
    (h : G * (Aᵀ * A) = 1) (b : Fin m → K) (v0 : Fin n → K) :
    (G * Aᵀ) *ᵥ ((A *ᵥ v0 + b) - b) = v0 := by
  rw [add_sub_cancel_right, Matrix.mulVec_mulVec, Matrix.mul_assoc, h, Matrix.one_mulVec]

theorem m_assoc (G : Matrix (Fin n) (Fin n) K) (A : Matrix (Fin m) (Fin n) K) (x : Fin m → K) :
    (G * Aᵀ) *ᵥ x = G *ᵥ (Aᵀ *ᵥ x) := by
  rw [Matrix.mulVec_mulVec]

/-- normal equations of the coded estimate -/
theorem m_normal {G : Matrix (Fin n) (Fin n) K} {A : Matrix (Fin m) (Fin n) K}
    (h : G * (Aᵀ * A) = 1) (b f : Fin m → K) :
    Aᵀ *ᵥ (A *ᵥ ((G * Aᵀ) *ᵥ (f - b)) + b - f) = 0 := by
  have h' := contract_comm h
  have e : A *ᵥ ((G * Aᵀ) *ᵥ (f - b)) + b - f = A *ᵥ ((G * Aᵀ) *ᵥ (f - b)) - (f - b) := by
    abel
  rw [e, Matrix.mulVec_sub, Matrix.mulVec_mulVec, Matrix.mulVec_mulVec, ← Matrix.mul_assoc,
    h', Matrix.one_mul, sub_self]

/-- an exact solution of the normal equations under the contract is the coded estimate -/
theorem m_unique_normal {G : Matrix (Fin n) (Fin n) K} {A : Matrix (Fin m) (Fin n) K}
    (h : G * (Aᵀ * A) = 1) (b f : Fin m → K) (v : Fin n → K)
    (hv : Aᵀ *ᵥ (A *ᵥ v + b - f) = 0) : v = (G * Aᵀ) *ᵥ (f - b) := by
  have e : A *ᵥ v + b - f = A *ᵥ v - (f - b) := by abel
  rw [e, Matrix.mulVec_sub, sub_eq_zero, Matrix.mulVec_mulVec] at hv
  calc v = (G * (Aᵀ * A)) *ᵥ v := by rw [h, Matrix.one_mulVec]
    _ = G *ᵥ ((Aᵀ * A) *ᵥ v) := by rw [Matrix.mulVec_mulVec]
    _ = G *ᵥ (Aᵀ *ᵥ (f - b)) := by rw [hv]
    _ = (G * Aᵀ) *ᵥ (f - b) := by rw [Matrix.mulVec_mulVec]

/-- the contract forces `A` to be injective (full column rank) -/
theorem m_injective {G : Matrix (Fin n) (Fin n) K} {A : Matrix (Fin m) (Fin n) K}
    (h : G * (Aᵀ * A) = 1) (d : Fin n → K) (hd : A *ᵥ d = 0) : d = 0 := by
  calc d = (G * (Aᵀ * A)) *ᵥ d := by rw [h, Matrix.one_mulVec]
    _ = (G * Aᵀ) *ᵥ (A *ᵥ d) := by rw [Matrix.mulVec_mulVec, Matrix.mul_assoc]
    _ = 0 := by rw [hd, Matrix.mulVec_zero]

/-- distance of any `v` to the coded estimate in terms of its normal-equation residual -/
theorem m_dist {G : Matrix (Fin n) (Fin n) K} {A : Matrix (Fin m) (Fin n) K}
    (h : G * (Aᵀ * A) = 1) (b f : Fin m → K) (v : Fin n → K) :
    v - (G * Aᵀ) *ᵥ (f - b) = G *ᵥ (Aᵀ *ᵥ (A *ᵥ v + b - f)) := by
  have e : A *ᵥ v + b - f = A *ᵥ v - (f - b) := by abel
  rw [e, Matrix.mulVec_sub (A := Aᵀ), Matrix.mulVec_sub (A := G), Matrix.mulVec_mulVec,
    Matrix.mulVec_mulVec, Matrix.mulVec_mulVec, Matrix.mul_assoc, h, Matrix.one_mulVec]

/-- expansion of the squared residual around `v` -/
theorem m_expand (A : Matrix (Fin m) (Fin n) K) (b f : Fin m → K) (v w : Fin n → K) :
    (A *ᵥ w + b - f) ⬝ᵥ (A *ᵥ w + b - f) =
      (A *ᵥ v + b - f) ⬝ᵥ (A *ᵥ v + b - f)
        + 2 * ((Aᵀ *ᵥ (A *ᵥ v + b - f)) ⬝ᵥ (w - v))
        + (A *ᵥ (w - v)) ⬝ᵥ (A *ᵥ (w - v)) := by
  have e : A *ᵥ w + b - f = (A *ᵥ v + b - f) + A *ᵥ (w - v) := by
    rw [Matrix.mulVec_sub]; abel
  have t : (Aᵀ *ᵥ (A *ᵥ v + b - f)) ⬝ᵥ (w - v) = (A *ᵥ v + b - f) ⬝ᵥ (A *ᵥ (w - v)) := by
    rw [Matrix.mulVec_transpose, ← Matrix.dotProduct_mulVec]
  rw [e, t]
  generalize A *ᵥ v + b - f = r
  generalize A *ᵥ (w - v) = s
  rw [add_dotProduct, dotProduct_add, dotProduct_add, dotProduct_comm s r]
  ring

end field

section ordered
variable {K : Type} [Field K] [LinearOrder K] [IsStrictOrderedRing K] {m n : Nat}

theorem dot_self_nonneg (x : Fin m → K) : 0 ≤ x ⬝ᵥ x :=
  Finset.sum_nonneg fun i _ => mul_self_nonneg (x i)

/-- `|g_i| ≤ tol` for all i ⇒ `g ⬝ d ≥ − tol · Σ|d_i|` -/
theorem dot_lower (g d : Fin n → K) (tol : K) (hg : ∀ i, -tol ≤ g i ∧ g i ≤ tol) :
    -(tol * ∑ i, |d i|) ≤ g ⬝ᵥ d := by
  rw [Finset.mul_sum, ← Finset.sum_neg_distrib]
  apply Finset.sum_le_sum
  intro i _
  have h1 := (hg i).1
  have h2 := (hg i).2
  rcases le_total 0 (d i) with hd | hd
  · rw [abs_of_nonneg hd]
    nlinarith
  · rw [abs_of_nonpos hd]
    nlinarith

/-- approximate normal equations ⇒ approximate optimality (exact when `tol = 0`) -/
theorem m_lsq_tol (A : Matrix (Fin m) (Fin n) K) (b f : Fin m → K) (v : Fin n → K) (tol : K)
    (hg : ∀ i, -tol ≤ (Aᵀ *ᵥ (A *ᵥ v + b - f)) i ∧ (Aᵀ *ᵥ (A *ᵥ v + b - f)) i ≤ tol)
    (w : Fin n → K) :
    (A *ᵥ v + b - f) ⬝ᵥ (A *ᵥ v + b - f) ≤
      (A *ᵥ w + b - f) ⬝ᵥ (A *ᵥ w + b - f) + 2 * tol * ∑ i, |(w - v) i| := by
  rw [m_expand A b f v w]
  have h1 := dot_lower _ (w - v) tol hg
  have h2 := dot_self_nonneg (A *ᵥ (w - v))
  linarith

theorem m_lsq (A : Matrix (Fin m) (Fin n) K) (b f : Fin m → K) (v : Fin n → K)
    (hv : Aᵀ *ᵥ (A *ᵥ v + b - f) = 0) (w : Fin n → K) :
    (A *ᵥ v + b - f) ⬝ᵥ (A *ᵥ v + b - f) ≤ (A *ᵥ w + b - f) ⬝ᵥ (A *ᵥ w + b - f) := by
  rw [m_expand A b f v w, hv, zero_dotProduct]
  have h2 := dot_self_nonneg (A *ᵥ (w - v))
  linarith

/-- the minimiser is unique when `A` is injective -/
theorem m_lsq_unique {G : Matrix (Fin n) (Fin n) K} {A : Matrix (Fin m) (Fin n) K}
    (h : G * (Aᵀ * A) = 1) (b f : Fin m → K) (v : Fin n → K)
    (hv : Aᵀ *ᵥ (A *ᵥ v + b - f) = 0) (w : Fin n → K)
    (hw : (A *ᵥ w + b - f) ⬝ᵥ (A *ᵥ w + b - f) ≤ (A *ᵥ v + b - f) ⬝ᵥ (A *ᵥ v + b - f)) :
    w = v := by
  rw [m_expand A b f v w, hv, zero_dotProduct] at hw
  have h2 := dot_self_nonneg (A *ᵥ (w - v))
  have h3 : (A *ᵥ (w - v)) ⬝ᵥ (A *ᵥ (w - v)) = 0 := by linarith
  have h4 := dotProduct_self_eq_zero.1 h3
  exact sub_eq_zero.1 (m_injective h _ h4)

end ordered

/-! ## list-level facts about the data plumbing -/

section plumbing
variable {K : Type}

theorem map_snd_counts (ds : List (Nat × List K)) (g : Nat → Nat) :
    (ds.map fun d => (g d.1, d.2)).map (·.2) = ds.map (·.2) := by
  simp [List.map_map, Function.comp_def]

end plumbing

end QM.C09

namespace QM.C09
open Matrix

/-- contract of `np.linalg.inv(A.T @ A)`: the value `G` handed to the model is a left inverse of `AᵀA` -/
def Contract {K : Type} [Field K] {m n : Nat} (G : Mat K n n) (A : Mat K m n) : Prop :=
  G.mul (A.transpose.mul A) = Mat.one

theorem Contract.toM {K : Type} [Field K] {m n : Nat} {G : Mat K n n} {A : Mat K m n}
    (h : Contract G A) : G.toM * (A.toMᵀ * A.toM) = 1 := by
  have := congrArg Mat.toM h
  simpa using this

/-- squared Euclidean norm of the prediction residual, as executed -/
def sqRes {K : Type} [Add K] [Mul K] [Sub K] [Zero K] {m n : Nat}
    (A : Mat K m n) (b f : Vec K m) (v : Vec K n) : K :=
  (residual A b f v).dot (residual A b f v)

theorem toV_residual {K : Type} [Field K] {m n : Nat} (A : Mat K m n) (b f : Vec K m) (v : Vec K n) :
    Vec.toV (residual A b f v) = A.toM *ᵥ Vec.toV v + Vec.toV b - Vec.toV f := by
  simp [residual]

theorem toV_normalResidual {K : Type} [Field K] {m n : Nat} (A : Mat K m n) (b f : Vec K m)
    (v : Vec K n) :
    Vec.toV (normalResidual A b f v) = A.toMᵀ *ᵥ (A.toM *ᵥ Vec.toV v + Vec.toV b - Vec.toV f) := by
  simp [normalResidual, toV_residual]

theorem toV_estOne {K : Type} [Field K] {m n : Nat} (G : Mat K n n) (A : Mat K m n) (b f : Vec K m) :
    Vec.toV (estOne (aDdag G A) b f) = (G.toM * A.toMᵀ) *ᵥ (Vec.toV f - Vec.toV b) := by
  simp [estOne, aDdag]

theorem sqRes_eq {K : Type} [Field K] {m n : Nat} (A : Mat K m n) (b f : Vec K m) (v : Vec K n) :
    sqRes A b f v = (A.toM *ᵥ Vec.toV v + Vec.toV b - Vec.toV f) ⬝ᵥ
      (A.toM *ᵥ Vec.toV v + Vec.toV b - Vec.toV f) := by
  simp [sqRes, Vec.dot_eq, toV_residual]

/-- the part of `estData` that reads the data: only the arrays, never the counts -/
def estArr {K : Type} [Add K] [Mul K] [Sub K] [Zero K] {m n : Nat} (Ad : Mat K n m) (b : Vec K m)
    (arrs : List (List K)) : Except Err (Vec K n) := do
  let flat ← concatArrays arrs
  let f ← toDataVec m flat
  pure (estOne Ad b f)

theorem estData_eq_estArr {K : Type} [Add K] [Mul K] [Sub K] [Zero K] {m n : Nat} (Ad : Mat K n m)
    (b : Vec K m) (ds : List (Nat × List K)) : estData Ad b ds = estArr Ad b (ds.map (·.2)) := rfl

theorem mapM_comp {α β γ ε : Type} (f : β → Except ε γ) (g : α → β) (l : List α) :
    l.mapM (fun a => f (g a)) = (l.map g).mapM f := by
  induction l with
  | nil => rfl
  | cons a l ih => simp [List.mapM_cons, ih]

theorem lsqCert_iff {K : Type} [Add K] [Mul K] [Sub K] [Neg K] [Zero K] [LE K] [DecidableLE K]
    {m n : Nat} (A : Mat K m n) (b f : Vec K m) (v : Vec K n) (tol : K) :
    lsqCert A b f v tol = true ↔
      ∀ i, -tol ≤ (normalResidual A b f v).get i ∧ (normalResidual A b f v).get i ≤ tol := by
  simp [lsqCert, List.all_eq_true]

end QM.C09

/-! ## bridge to the C08 forward model (lists) -/
namespace QM.C09
open QM.C08
variable {K : Type} {mm nn : Nat}

/-- rows of an executable matrix as lists -/
def rowsOf (A : Mat K mm nn) : List (List K) := A.toList.map Vector.toList

theorem zipWith_mul_eq [Mul K] (l : List K) (v : Vec K nn) (h : l.length = nn) :
    List.zipWith (· * ·) l v.toList = (List.finRange nn).map fun k => l[k.val]'(by rw [h]; exact k.isLt) * v.get k := by
  apply List.ext_getElem
  · simp [h]
  · intro i h1 h2
    simp [Vec.get]

theorem mulVec_toList [Add K] [Mul K] [Zero K] (A : Mat K mm nn) (v : Vec K nn) :
    (A.mulVec v).toList = (rowsOf A).map fun row => ldot row v.toList := by
  apply List.ext_getElem
  · simp [rowsOf]
  · intro i h1 h2
    have hi : i < mm := by simpa using h1
    simp only [rowsOf, List.getElem_map, Vector.getElem_toList, Mat.mulVec, Vec.ofFn, Vector.getElem_ofFn,
      fsum, ldot]
    rw [zipWith_mul_eq (A[i]).toList v (by simp)]
    congr 2

theorem add_toList [Add K] (u w : Vec K mm) :
    (u.add w).toList = List.zipWith (· + ·) u.toList w.toList := by
  apply List.ext_getElem
  · simp
  · intro i h1 h2
    simp [Vec.add, Vec.ofFn, Vec.get]

theorem predictRaw_eq [Add K] [Mul K] [Zero K] (cs : List (Coeff K)) (v : List K) :
    predictRaw cs v = List.zipWith (· + ·) ((matA cs).map fun row => ldot row v) (vecB cs) := by
  simp only [predictRaw, matA, vecB, List.map_map, List.zipWith_map_left, List.zipWith_map_right]
  apply List.ext_getElem
  · simp
  · intro i h1 h2
    simp


/-- the forward model as executed by C09 (`A v + b` on vectors) is the C08 prediction `matA @ var + vecB` -/
theorem forward_toList [Add K] [Mul K] [Zero K] (cs : List (Coeff K)) (A : Mat K mm nn) (b : Vec K mm)
    (hA : rowsOf A = matA cs) (hb : b.toList = vecB cs) (v : Vec K nn) :
    ((A.mulVec v).add b).toList = predictRaw cs v.toList := by
  rw [add_toList, mulVec_toList, hA, hb, predictRaw_eq]

end QM.C09

/-! ## rank of the forward model and solvability of the inverse contract -/
open Matrix
namespace QM.C09
variable {K : Type} {m n : Nat}

theorem m_contract_rank [Field K] {G : Matrix (Fin n) (Fin n) K} {A : Matrix (Fin m) (Fin n) K}
    (h : G * (Aᵀ * A) = 1) : A.rank = n ∧ n ≤ m := by
  have h1 : (1 : Matrix (Fin n) (Fin n) K).rank = n := by simp [Matrix.rank_one]
  have h2 : (G * (Aᵀ * A)).rank ≤ (Aᵀ * A).rank := Matrix.rank_mul_le_right _ _
  have h3 : (Aᵀ * A).rank ≤ A.rank := Matrix.rank_mul_le_right _ _
  have h4 : A.rank ≤ n := Matrix.rank_le_width A
  have h5 : A.rank ≤ m := Matrix.rank_le_height A
  rw [h, h1] at h2
  omega

theorem m_injective_of_rank [Field K] (A : Matrix (Fin m) (Fin n) K) (h : A.rank = n)
    (d : Fin n → K) (hd : A *ᵥ d = 0) : d = 0 := by
  have hrn := LinearMap.finrank_range_add_finrank_ker A.mulVecLin
  have hr : Module.finrank K (LinearMap.range A.mulVecLin) = n := h
  simp only [Module.finrank_fintype_fun_eq_card, Fintype.card_fin] at hrn
  have hk : Module.finrank K (LinearMap.ker A.mulVecLin) = 0 := by omega
  have hb : LinearMap.ker A.mulVecLin = ⊥ := Submodule.finrank_eq_zero.1 hk
  have : d ∈ LinearMap.ker A.mulVecLin := by simpa using hd
  rw [hb] at this
  simpa using this

theorem m_contract_exists [Field K] [LinearOrder K] [IsStrictOrderedRing K] (A : Matrix (Fin m) (Fin n) K)
    (hinj : ∀ d, A *ᵥ d = 0 → d = 0) : ∃ G : Matrix (Fin n) (Fin n) K, G * (Aᵀ * A) = 1 := by
  have hM : Function.Injective (Aᵀ * A).mulVec := by
    intro x y hxy
    have h0 : (Aᵀ * A) *ᵥ (x - y) = 0 := by rw [Matrix.mulVec_sub, hxy, sub_self]
    have h1 : (A *ᵥ (x - y)) ⬝ᵥ (A *ᵥ (x - y)) = 0 := by
      have := congrArg (fun z => (x - y) ⬝ᵥ z) h0
      simp only [dotProduct_zero] at this
      rw [← Matrix.mulVec_mulVec, Matrix.dotProduct_mulVec, Matrix.vecMul_transpose] at this
      exact this
    have h2 := hinj _ (dotProduct_self_eq_zero.1 h1)
    exact sub_eq_zero.1 h2
  have hu : IsUnit (Aᵀ * A) := Matrix.mulVec_injective_iff_isUnit.1 hM
  obtain ⟨u, hu⟩ := hu
  exact ⟨(↑u⁻¹ : Matrix (Fin n) (Fin n) K), by rw [← hu]; exact Units.inv_mul u⟩

end QM.C09

namespace QM.C09
open Matrix
/-- a Mathlib left inverse of `AᵀA` as an executable matrix satisfying the contract -/
theorem contract_of_matrix {K : Type} [Field K] {m n : Nat} (A : Mat K m n) (Gm : Matrix (Fin n) (Fin n) K)
    (h : Gm * (A.toMᵀ * A.toM) = 1) : Contract (Mat.ofFn fun i j => Gm i j) A := by
  unfold Contract
  apply Mat.toM_injective
  simp only [Mat.toM_mul, Mat.toM_transpose, Mat.toM_ofFn, Mat.toM_one]
  exact h
end QM.C09

open Matrix
namespace QM.C09
theorem m_rank_of_injective {K : Type} [Field K] {m n : Nat} (A : Matrix (Fin m) (Fin n) K)
    (h : ∀ d, A *ᵥ d = 0 → d = 0) : A.rank = n := by
  have hrn := LinearMap.finrank_range_add_finrank_ker A.mulVecLin
  simp only [Module.finrank_fintype_fun_eq_card, Fintype.card_fin] at hrn
  have hb : LinearMap.ker A.mulVecLin = ⊥ := by
    rw [LinearMap.ker_eq_bot']
    intro d hd
    exact h d (by simpa using hd)
  have hk : Module.finrank K (LinearMap.ker A.mulVecLin) = 0 := by rw [hb]; simp
  have : A.rank = Module.finrank K (LinearMap.range A.mulVecLin) := rfl
  omega
end QM.C09

namespace QM.C08
open QM.C09 Matrix
variable {K : Type} {m n : Nat}

theorem dists_eq_iff_mulVec [Field K] (per : List (List (List K × K))) (A : Mat K m n)
    (hA : rowsOf A = matA (mkCoeffs per)) (v v' : Vec K n) :
    ((per.map fun rows => rows.map (rowVal v.toList)) = per.map fun rows => rows.map (rowVal v'.toList)) ↔
      A.mulVec v = A.mulVec v' := by
  rw [dists_eq_iff, ← hA, ← mulVec_toList, ← mulVec_toList]
  exact Vector.toList_inj

theorem rank_iff_IC' [Field K] (per : List (List (List K × K))) (A : Mat K m n)
    (hA : rowsOf A = matA (mkCoeffs per)) :
    A.toM.rank = n ↔ ∀ v v' : Vec K n,
      ((per.map fun rows => rows.map (rowVal v.toList)) = per.map fun rows => rows.map (rowVal v'.toList)) → v = v' := by
  constructor
  · intro hr v v' hd
    rw [dists_eq_iff_mulVec per A hA] at hd
    have h1 := congrArg Vec.toV hd
    simp only [Mat.toV_mulVec] at h1
    have h0 : A.toM *ᵥ (Vec.toV v - Vec.toV v') = 0 := by rw [Matrix.mulVec_sub, h1, sub_self]
    have := m_injective_of_rank A.toM hr _ h0
    exact Vec.toV_injective (sub_eq_zero.1 this)
  · intro h
    apply m_rank_of_injective
    intro d hd
    have hv : A.mulVec (Vec.ofFn d) = A.mulVec (Vec.zero : Vec K n) := by
      apply Vec.toV_injective
      simp only [Mat.toV_mulVec, Vec.toV_ofFn, Vec.toV_zero, Matrix.mulVec_zero]
      exact hd
    have := h _ _ ((dists_eq_iff_mulVec per A hA _ _).2 hv)
    have e := congrArg Vec.toV this
    simpa using e

end QM.C08

/-! ## inexact inverse -/
open Matrix
namespace QM.C09
variable {K : Type} {m n : Nat}

/-- exact data through an inexact inverse: the error is `(G·AᵀA − 1)·v₀` -/
theorem m_exact_err [Field K] (G : Matrix (Fin n) (Fin n) K) (A : Matrix (Fin m) (Fin n) K)
    (b : Fin m → K) (v0 : Fin n → K) :
    (G * Aᵀ) *ᵥ ((A *ᵥ v0 + b) - b) - v0 = (G * (Aᵀ * A) - 1) *ᵥ v0 := by
  rw [add_sub_cancel_right, Matrix.mulVec_mulVec, Matrix.mul_assoc, Matrix.sub_mulVec, Matrix.one_mulVec]

/-- arbitrary data through an inexact inverse: the normal-equation residual is `((AᵀA)·G − 1)·Aᵀ(f − b)` -/
theorem m_normal_err [Field K] (G : Matrix (Fin n) (Fin n) K) (A : Matrix (Fin m) (Fin n) K)
    (b f : Fin m → K) :
    Aᵀ *ᵥ (A *ᵥ ((G * Aᵀ) *ᵥ (f - b)) + b - f) = ((Aᵀ * A) * G - 1) *ᵥ (Aᵀ *ᵥ (f - b)) := by
  have e : A *ᵥ ((G * Aᵀ) *ᵥ (f - b)) + b - f = A *ᵥ ((G * Aᵀ) *ᵥ (f - b)) - (f - b) := by abel
  rw [e, Matrix.mulVec_sub, Matrix.mulVec_mulVec, Matrix.sub_mulVec, Matrix.one_mulVec, Matrix.mulVec_mulVec,
    Matrix.mul_assoc, Matrix.mul_assoc, Matrix.mulVec_mulVec]
  simp only [Matrix.mul_assoc]

theorem m_entry_bound [Field K] [LinearOrder K] [IsStrictOrderedRing K] (E : Matrix (Fin n) (Fin n) K)
    (x : Fin n → K) (δ : K) (hE : ∀ i j, |E i j| ≤ δ) (i : Fin n) : |(E *ᵥ x) i| ≤ δ * ∑ j, |x j| := by
  simp only [Matrix.mulVec, dotProduct]
  rw [Finset.mul_sum]
  refine (Finset.abs_sum_le_sum_abs _ _).trans (Finset.sum_le_sum fun j _ => ?_)
  rw [abs_mul]
  exact mul_le_mul_of_nonneg_right (hE i j) (abs_nonneg _)
end QM.C09
