import QModel.Core
import QGen.C16
/-!
# C16 — outcome-probability bookkeeping (model of quara/utils/index_util.py,
quara/objects/multinomial_distribution.py, quara/math/probability.py, StateEnsemble.state)

The model mirrors the code as it is: the index maps are the same loops over the reversed
length list; the constructor zeroes sub-threshold entries, renormalises and validates;
`marginalize` sums over the removed axes and returns the remaining axes in ascending order;
`conditionalize` slices and renormalises.
-/
namespace QM.C16

/-! ## index maps (index_util.py) -/

/-- body of `for local_length in reversed(nums_length)`: argument is the *reversed* list,
result is in append order (i.e. the reversed multi-index). -/
def multiRevLoop : List Nat → Nat → List Nat
  | [], _ => []
  | l :: ls, s => (s % l) :: multiRevLoop ls (s / l)

/-- `index_multi_dimensional_from_index_serial`. Python raises ZeroDivisionError when a
length is 0; the model returns `none` there. -/
def multiFromSerial (lens : List Nat) (s : Nat) : Option (List Nat) :=
  if lens.all (0 < ·) then some (multiRevLoop lens.reverse s).reverse else none

/-- loop body of `index_serial_from_index_multi_dimensional` over the reversed zip. -/
def serialRevLoop : List (Nat × Nat) → Nat → Nat → Nat
  | [], serial, _ => serial
  | (len, i) :: r, serial, temp => serialRevLoop r (serial + i * temp) (temp * len)

/-- `index_serial_from_index_multi_dimensional`; `none` = ValueError (length mismatch). -/
def serialFromMulti (lens idx : List Nat) : Option Nat :=
  if lens.length ≠ idx.length then none
  else some (serialRevLoop (lens.zip idx).reverse 0 1)

def prod (l : List Nat) : Nat := l.foldr (· * ·) 1

/-! ## MultinomialDistribution -/

inductive Err
  | negative      -- validate_prob_dist: negative entry
  | sumNotOne     -- validate_prob_dist: sum != 1
  | sizeMismatch  -- len(ps) != prod(shape)
  | outOfRange    -- marginalize: index out of range
  | duplicate     -- marginalize: KeyError from set.remove
  | lenMismatch   -- conditionalize: len(indices) != len(values)
  | indexError    -- conditionalize: IndexError
  | emptyShape    -- reduce(mul, ()) TypeError
  | divZero
deriving Repr, DecidableEq

def Err.toString : Err → String
  | .negative => "negative" | .sumNotOne => "sumNotOne" | .sizeMismatch => "sizeMismatch"
  | .outOfRange => "outOfRange" | .duplicate => "duplicate" | .lenMismatch => "lenMismatch"
  | .indexError => "indexError" | .emptyShape => "emptyShape" | .divZero => "divZero"

structure Dist where
  ps : List Rat
  shape : List Nat
  isZero : Bool
deriving Repr, DecidableEq

def rabs (q : Rat) : Rat := if q < 0 then -q else q

/-- the tolerance used inside `validate_prob_dist` (eps=None ⇒ 1e-8) -/
def epsValidate : Rat := mkRat 1 100000000

def rsum (l : List Rat) : Rat := l.foldr (· + ·) 0

/-- `validate_prob_dist(ps, validate_sum=b)` with the default eps. -/
def validate (ps : List Rat) (validateSum : Bool) : Except Err Unit :=
  if ps.any (fun p => p < 0 && !(rabs p ≤ epsValidate)) then .error .negative
  else if validateSum && !(rabs (rsum ps - 1) ≤ epsValidate) then .error .sumNotOne
  else .ok ()

/-- `self._eps_zero = eps_zero if eps_zero else <default>`: `None` and a falsy `0.0` both select the default, which is the constant
regenerated from the source (`QGen.C16.epsZeroDefault`). -/
def resolveEpsZero (epsZero : Option Rat) : Rat :=
  match epsZero with
  | none => QGen.C16.epsZeroDefault
  | some e => if e = 0 then QGen.C16.epsZeroDefault else e

/-- `MultinomialDistribution.__init__` (shape given). `epsZero` is the *effective* threshold
(the harness resolves `eps_zero if eps_zero else 1e-8`). -/
def ctor (ps : List Rat) (shape : List Nat) (epsZero : Rat) : Except Err Dist := do
  validate ps false
  if shape.isEmpty then throw .emptyShape
  if ps.length ≠ prod shape then throw .sizeMismatch
  let zeroed := ps.map fun p => if p < epsZero then 0 else p
  let isZero := ps.all fun p => p < epsZero
  let hasZero := ps.any fun p => p < epsZero
  let ps' := if !isZero && hasZero then zeroed.map (· / rsum zeroed) else zeroed
  if !isZero then validate ps' true
  return { ps := ps', shape := shape, isZero := isZero }

/-- all multi-indices of a shape in row-major (serial) order -/
def allMulti : List Nat → List (List Nat)
  | [] => [[]]
  | l :: ls => (List.range l).flatMap fun i => (allMulti ls).map (i :: ·)

/-- keep the entries of `l` whose position is in `keep` (ascending position order) -/
def project {α : Type} (l : List α) (keep : List Nat) : List α :=
  (l.zipIdx.filter fun xp => keep.contains xp.2).map (·.1)

/-- raw `np.sum(ps.reshape(shape), axis = removed axes).flatten()` and its shape -/
def marginalRaw (ps : List Rat) (shape : List Nat) (keep : List Nat) : List Nat × List Rat :=
  let newShape := project shape keep
  let idxs := allMulti shape
  (newShape,
   (allMulti newShape).map fun o =>
     rsum ((idxs.zip ps).filterMap fun (mi, p) => if project mi keep = o then some p else none))

/-- the validation loop of `marginalize`, in the order the code runs it: each index is range-checked
(`ValueError`) and then removed from the set of axes (`KeyError` when it was removed before). -/
def margValidate (n : Nat) : List Nat → List Nat → Except Err Unit
  | [], _ => .ok ()
  | i :: rest, seen =>
    if n ≤ i then .error .outOfRange
    else if seen.contains i then .error .duplicate
    else margValidate n rest (i :: seen)

/-- `marginalize(outcome_indices_remain)`; default eps_zero 1e-8 in the re-construction. -/
def marginalize (d : Dist) (remain : List Nat) : Except Err Dist := do
  margValidate d.shape.length remain []
  let (sh, ps) := marginalRaw d.ps d.shape remain
  ctor ps sh epsValidate

/-- positions fixed by the conditioning event; later entries for the same index win
(as the Python loop overwrites `ix_args[var_index]`). -/
def condValue (idxs vals : List Nat) (pos : Nat) : Option Nat :=
  ((idxs.zip vals).reverse.find? fun (i, _) => i = pos).map (·.2)

def condOk (idxs vals : List Nat) (x pos : Nat) : Bool :=
  match condValue idxs vals pos with
  | some v => x = v
  | none => true

def matchesCond (mi : List Nat) (idxs vals : List Nat) : Bool :=
  mi.zipIdx.all fun xp => condOk idxs vals xp.1 xp.2

/-- raw slice of `conditionalize` before normalisation, and the new shape -/
def conditionalRaw (ps : List Rat) (shape : List Nat) (idxs vals : List Nat) :
    List Nat × List Rat :=
  let keep := (List.range shape.length).filter fun i => !idxs.contains i
  (project shape keep,
   ((allMulti shape).zip ps).filterMap fun (mi, p) =>
     if matchesCond mi idxs vals then some p else none)

def conditionalize (d : Dist) (idxs vals : List Nat) : Except Err Dist := do
  if idxs.length ≠ vals.length then throw .lenMismatch
  if idxs.any (fun i => d.shape.length ≤ i) then throw .indexError
  if (idxs.zip vals).any (fun iv => match d.shape[iv.1]? with | some l => l ≤ iv.2 | none => true) then throw .indexError
  let (sh, raw) := conditionalRaw d.ps d.shape idxs vals
  let s := rsum raw
  if s = 0 then throw .divZero
  ctor (raw.map (· / s)) sh epsValidate

/-! ## ProbDist.__getitem__ (prob_dist.py): `ps.reshape(shape)[i0][i1]…` for a full-length tuple is the row-major entry -/

/-- iterated slicing of the reshaped buffer, `ps.reshape(shape)[i0][i1]…`: index `i` of the leading axis selects the block
`ps[i·∏rest : (i+1)·∏rest]`; after the last axis a single entry is left. `none` = IndexError. -/
def sliceGet : List Rat → List Nat → List Nat → Option Rat
  | ps, [], [] => ps[0]?
  | ps, l :: ls, i :: is => if i < l then sliceGet ((ps.drop (i * prod ls)).take (prod ls)) ls is else none
  | _, _, _ => none

/-- `ProbDist.__getitem__(tuple)` for a tuple with one index per axis; `none` = IndexError / ValueError.
(`reshape` needs `len(ps) = prod shape`; numpy's negative indices are not modelled.) -/
def probDistGet (ps : List Rat) (shape idx : List Nat) : Option Rat :=
  if ps.length ≠ prod shape then none
  else if idx.length ≠ shape.length then none
  else sliceGet ps shape idx

/-! ## driver -/

def showDist (r : Except Err Dist) : String :=
  match r with
  | .error e => s!"err {e.toString}"
  | .ok d => s!"ok {showList toString d.shape} {showList showRat d.ps} {d.isZero}"

/-! ## state ensembles produced by measurements (quara/objects/operators.py, state_ensemble.py)

* `_compose_qoperations_MProcess_StateEnsemble`: `states.extend(states_local); ps.extend(ps_local)` in one loop over the old
  ensemble, shape = old shape + instrument shape;
* `_tensor_product_StateEnsemble_StateEnsemble`: the nested loops over both ensembles, shape = shape1 + shape2;
* `StateEnsemble.state(outcome)`: serial index of the tuple, then list access. -/

/-- `StateEnsemble.state(outcome)` for a tuple outcome: serial index w.r.t. the distribution's shape, then `self._states[serial]`
(`none` = the ValueError of the index map or Python's IndexError). -/
def ensGet {α : Type} (xs : List α) (shape mi : List Nat) : Option α :=
  match serialFromMulti shape mi with
  | some s => xs[s]?
  | none => none

/-- the loop of `_compose_qoperations_MProcess_StateEnsemble` (its main branch: the `is_zero_dist` branch fills zero objects of the
same length and the `mode_sampling` branch picks one member per block — neither is modelled): one block per old member, appended in order -/
def extendLoop {α β : Type} (old : List α) (f : α → List β) : List β := old.flatMap f

/-- the nested loops of `_tensor_product_StateEnsemble_StateEnsemble` -/
def nestedLoop {α β γ : Type} (xs : List α) (ys : List β) (f : α → β → γ) : List γ :=
  xs.flatMap fun x => ys.map (f x)

def handle (args : List String) : Option String :=
  match args with
  | ["multi", lens, s] => do
      let lens ← parseList? parseNat? lens
      let s ← parseNat? s
      match multiFromSerial lens s with
      | some mi => some s!"ok {showList toString mi}"
      | none => some "err zerodiv"
  | ["serial", lens, idx] => do
      let lens ← parseList? parseNat? lens
      let idx ← parseList? parseNat? idx
      match serialFromMulti lens idx with
      | some s => some s!"ok {s}"
      | none => some "err lenMismatch"
  | ["gmulti", lens, s] => do
      -- the definition regenerated from index_util.py on this run (QGen/C16.lean); zero lengths are rejected as Python does
      let lens ← parseList? parseNat? lens
      let s ← parseNat? s
      if lens.all (0 < ·) then
        some s!"ok {showList toString (QGen.C16.multiFromSerial (lens.map Int.ofNat) (Int.ofNat s))}"
      else some "err zerodiv"
  | ["gserial", lens, idx] => do
      let lens ← parseList? parseNat? lens
      let idx ← parseList? parseNat? idx
      match QGen.C16.serialFromMulti (lens.map Int.ofNat) (idx.map Int.ofNat) with
      | some s => some s!"ok {s}"
      | none => some "err lenMismatch"
  | ["ensget", labels, shape, mi] => do
      let labels ← parseList? parseNat? labels
      let shape ← parseList? parseNat? shape
      let mi ← parseList? parseNat? mi
      match ensGet labels shape mi with
      | some l => some s!"ok {l}"
      | none => some "err index"
  | ["extend", n, m] => do
      -- labels 1000*i + j of the members produced from old member i, local outcome j
      let n ← parseNat? n
      let m ← parseNat? m
      some s!"ok {showList toString (extendLoop (List.range n) fun i => (List.range m).map fun j => 1000 * i + j)}"
  | ["nested", n1, n2] => do
      let n1 ← parseNat? n1
      let n2 ← parseNat? n2
      some s!"ok {showList toString (nestedLoop (List.range n1) (List.range n2) fun i j => 1000 * i + j)}"
  | ["pdget", ps, shape, idx] => do
      let ps ← parseList? parseRat? ps
      let shape ← parseList? parseNat? shape
      let idx ← parseList? parseNat? idx
      match probDistGet ps shape idx with
      | some v => some s!"ok {showRat v}"
      | none => some "err index"
  | ["ctor", ps, shape, eps] => do
      let ps ← parseList? parseRat? ps
      let shape ← parseList? parseNat? shape
      let eps ← parseRat? eps
      some (showDist (ctor ps shape eps))
  | ["ctoro", ps, shape, eps] => do
      -- the constructor called with the raw `eps_zero` argument ("none" = omitted / None)
      let ps ← parseList? parseRat? ps
      let shape ← parseList? parseNat? shape
      let eps ← if eps = "none" then some none else (parseRat? eps).map some
      some (showDist (ctor ps shape (resolveEpsZero eps)))
  | ["marg", ps, shape, eps, remain] => do
      let ps ← parseList? parseRat? ps
      let shape ← parseList? parseNat? shape
      let eps ← parseRat? eps
      let remain ← parseList? parseNat? remain
      some (showDist (do let d ← ctor ps shape eps; marginalize d remain))
  | ["cond", ps, shape, eps, idxs, vals] => do
      let ps ← parseList? parseRat? ps
      let shape ← parseList? parseNat? shape
      let eps ← parseRat? eps
      let idxs ← parseList? parseNat? idxs
      let vals ← parseList? parseNat? vals
      some (showDist (do let d ← ctor ps shape eps; conditionalize d idxs vals))
  | _ => none

end QM.C16
