import QModel.Core
import QGen.C13
/-!
# C13 — no hidden state, no operand mutation: the stateful parts of quara as explicit state machines

The pure functions of the library are the specification; what this file models is the *state* the
implementation keeps between calls, exactly as the code keeps it:

* (a) `CompositeSystem` caches (composite_system.py:94-102, 228-467): nine lazily built tables, five
  builders (two builders fill several tables at once), eight `delete_*` methods;
* (b) loss objects (probability_based_loss_function.py:343-374 wiring order,
  weighted_probability_based_squared_error.py:138-177 `_set_weights_by_mode`,
  standard_qtomography_based_weighted_probability_based_squared_error.py:74-135 extended weights):
  one machine, two observers (the generic loss reads `weights`, the fast loss reads `ext`);
* (c) algorithm object (projected_gradient_descent.py:238-282): `_qt`, `_func_proj`;
* (d) `Settings` atol (settings.py) set / restore;
* (e) `MProcess.calc_proj_eq_constraint_with_var` (mprocess.py:440-466, 1009-1089) with the aliasing
  between its argument and the reshaped views it writes to.

The model mirrors the code *as it is* (after the `fix:` commits for D5, D9 and the `identity` weighting mode; the order dependence of the algorithm
object, D10, is still there, and a weighting mode without a branch in `_set_weights_by_mode` leaves the weights alone).
-/
namespace QM.C13

/-! ## (a) CompositeSystem caches -/

/-- the nine cache attributes, in the order of `__init__` (composite_system.py:94-102) -/
inductive Key
  | bbc      -- _basis_basisconjugate
  | hs2choi  -- _dict_from_hs_to_choi
  | choi2hs  -- _dict_from_choi_to_hs
  | bT       -- _basis_T_sparse
  | bconj    -- _basisconjugate_sparse
  | bconjb   -- _basisconjugate_basis_sparse
  | bbcT     -- _basis_basisconjugate_T_sparse
  | bbcT1    -- _basis_basisconjugate_T_sparse_from_1
  | bhbT1    -- _basishermitian_basis_T_from_1
deriving DecidableEq, Repr

def Key.all : List Key :=
  [.bbc, .hs2choi, .choi2hs, .bT, .bconj, .bconjb, .bbcT, .bbcT1, .bhbT1]

/-- the five builders: the inline loops of `basis_basisconjugate`, `dict_from_hs_to_choi`,
`dict_from_choi_to_hs`, and `_calc_basis_sparse`, `_calc_basis_basisconjugate_sparse` -/
inductive Grp
  | bbc | hs2choi | choi2hs | basisSparse | bbcSparse
deriving DecidableEq, Repr

/-- which builder the getter of a table runs when the table is `None` -/
def Key.grp : Key → Grp
  | .bbc => .bbc | .hs2choi => .hs2choi | .choi2hs => .choi2hs
  | .bT => .basisSparse | .bconj => .basisSparse
  | .bconjb => .bbcSparse | .bbcT => .bbcSparse | .bbcT1 => .bbcSparse | .bhbT1 => .bbcSparse

/-- `_basis_basisconjugate` has no `delete_*` method; the other eight have one -/
def Key.deletable : Key → Bool
  | .bbc => false
  | _ => true

/-- cache state: which tables are built, and with which content -/
abbrev Cache (T : Type) := Key → Option T

def Cache.empty {T : Type} : Cache T := fun _ => none

/-- a builder assigns *every* table of its group (and nothing else) -/
def build {T : Type} (tbl : Key → T) (g : Grp) (s : Cache T) : Cache T :=
  fun k => if k.grp = g then some (tbl k) else s k

inductive COp
  | get (k : Key)
  | delete (k : Key)
deriving DecidableEq, Repr

inductive COut (T : Type)
  | table (v : Option T)   -- what the getter returns (`None` would be returned as such)
  | deleted
  | noMethod               -- AttributeError: there is no such delete method
deriving DecidableEq, Repr

/-- one call on a CompositeSystem. `tbl k` is the table the builder computes from the (immutable) basis. -/
def cstep {T : Type} (tbl : Key → T) (s : Cache T) : COp → Cache T × COut T
  | .get k =>
      let s' := if (s k).isNone then build tbl k.grp s else s
      (s', .table (s' k))
  | .delete k =>
      if k.deletable then (fun j => if j = k then none else s j, .deleted) else (s, .noMethod)

/-- a history of calls; outputs in call order -/
def crun {T : Type} (tbl : Key → T) : Cache T → List COp → Cache T × List (COut T)
  | s, [] => (s, [])
  | s, op :: ops =>
      let r := cstep tbl s op
      let rest := crun tbl r.1 ops
      (rest.1, r.2 :: rest.2)

/-- the invariant: whatever is built is the pure table -/
def CacheOk {T : Type} (tbl : Key → T) (s : Cache T) : Prop := ∀ k v, s k = some v → v = tbl k

/-! ## (b) loss objects -/

/-- `mode_weight`, by what `_set_weights_by_mode` does with it. `invCov` stands for the three spellings of the
inverse-covariance modes (the weights computed from the data are a parameter). Every mode string the option constructors
accept falls into one of the three (`gen_modes_handled` in QProps, about the regenerated branch tables). -/
inductive Mode
  | identity | custom | invCov
deriving DecidableEq, Repr

/-- the action names of the generated branch table (`QGen.C13.wseBranches`) -/
def Mode.action : Mode → String
  | .identity => "reset" | .custom => "option" | .invCov => "computed"

/-- mode string → model mode, through the generated `_set_weights_by_mode` chain of the squared-error loss -/
def modeOfString (m : String) : Option Mode :=
  match (QGen.C13.wseBranches.find? (·.1.contains m)).map (·.2) with
  | some "reset" => some .identity
  | some "option" => some .custom
  | some "computed" => some .invCov
  | _ => none

/-- the arguments of one `set_from_standard_qtomography_option_data` call.
`A` : what `qt.calc_matA(), qt.calc_vecB()` return; `Q` : the empirical distributions; `W` : a list of weight matrices. -/
structure Cfg (A Q W : Type) where
  mode : Mode
  optWeights : Option W   -- option.weights
  matA : A
  q : Q
  dataW : W               -- inverse-covariance weights of *this* data (numpy `inv` result; used by `invCov` only)
  gradReq : Bool          -- algo.is_gradient_required

/-- attributes of the loss object. `ext` records the weight list from which `_extend_weight_matrix` was built
(`np.block` of it is a pure function, applied by the observer). -/
structure Loss (A Q W : Type) where
  option : Option (Mode × Option W)
  q : Option Q
  matA : Option A
  weights : Option W
  ext : Option W

def Loss.fresh {A Q W : Type} : Loss A Q W := ⟨none, none, none, none, none⟩

/-- a loss object constructed with `weight_matrices=w` -/
def Loss.freshW {A Q W : Type} (w : Option W) : Loss A Q W := ⟨none, none, none, w, none⟩

inductive LOp (A Q W : Type)
  | setOption (m : Mode) (w : Option W)       -- set_from_option
  | setQ (q : Q)                              -- set_prob_dists_q
  | setFuncProb (a : A)                       -- set_func_prob_dists_from_standard_qt
  | setFuncGrad (a : A)                       -- set_func_gradient_prob_dists_from_standard_qt
  | setWeightsByMode (m : Mode) (dataW : W)   -- _set_weights_by_mode(option.mode_weight, data)

/-- `_calc_extend_weight_matrix` of the fast loss: rebuilt from the *current* `weight_matrices`, reset to `None` when
there are none. (The generic loss has no such attribute; its observer never reads `ext`.) -/
def calcExt {A Q W : Type} (s : Loss A Q W) : Loss A Q W := { s with ext := s.weights }

/-- `set_weight_matrices`: the fast loss overrides it to rebuild the extended weight matrix right away -/
def setWeights {A Q W : Type} (s : Loss A Q W) (w : Option W) : Loss A Q W := calcExt { s with weights := w }

def lstep {A Q W : Type} (s : Loss A Q W) : LOp A Q W → Loss A Q W
  | .setOption m w => { s with option := some (m, w) }
  | .setQ q => { s with q := some q }
  | .setFuncProb a => calcExt { s with matA := some a }
  | .setFuncGrad a => calcExt { s with matA := some a }
  | .setWeightsByMode m dw =>
      match m with
      | .identity => setWeights s none                   -- set_weight_matrices(None)
      | .custom => setWeights s (s.option.bind (·.2))    -- set_weight_matrices(self.option.weights)
      | .invCov => setWeights s (some dw)

/-- the setter calls of `set_from_standard_qtomography_option_data`, in the order the code issues them -/
def cfgOps {A Q W : Type} (c : Cfg A Q W) : List (LOp A Q W) :=
  [.setOption c.mode c.optWeights, .setQ c.q, .setFuncProb c.matA]
    ++ (if c.gradReq then [.setFuncGrad c.matA] else [])
    ++ [.setWeightsByMode c.mode c.dataW]

def configure {A Q W : Type} (s : Loss A Q W) (c : Cfg A Q W) : Loss A Q W :=
  (cfgOps c).foldl lstep s

/-- a loss object taken through the datasets of a history -/
def lrun {A Q W : Type} (s : Loss A Q W) (h : List (Cfg A Q W)) : Loss A Q W :=
  h.foldl configure s

/-- what `value/gradient` of the generic loss read -/
def obsGen {A Q W : Type} (s : Loss A Q W) : Option A × Option Q × Option W := (s.matA, s.q, s.weights)
/-- what `value/gradient` of the fast loss read -/
def obsFast {A Q W : Type} (s : Loss A Q W) : Option A × Option Q × Option W := (s.matA, s.q, s.ext)

/-! ### concrete evaluation (the driver runs this at `Rat`) -/
section wse
variable {K : Type} [Add K] [Mul K] [Sub K] [Zero K]

def ldot (u v : List K) : K := lsum ((u.zip v).map fun p => p.1 * p.2)

/-- `matA @ var + vecB - q` -/
def residual (matA : List (List K)) (vecB var q : List K) : List K :=
  ((matA.map fun r => ldot r var).zip (vecB.zip q)).map fun p => p.1 + p.2.1 - p.2.2

/-- `np.block` of the block-diagonal arrangement; every block is expected `s × s` -/
def blockDiag (s : Nat) (ws : List (List (List K))) : List (List K) :=
  let k := ws.length
  (ws.zipIdx.map fun (p : List (List K) × Nat) =>
    p.1.map fun row => List.replicate (p.2 * s) 0 ++ row ++ List.replicate ((k - 1 - p.2) * s) 0).flatten

/-- `a · (C b)` -/
def quad (a b : List K) (c : List (List K)) : K := ldot a (c.map fun r => ldot r b)

/-- `value` of the fast squared-error loss: extended weights if present, plain inner product otherwise -/
def wseValueFast (s : Nat) (matA : List (List K)) (vecB var q : List K) (ext : Option (List (List (List K)))) :
    Option K :=
  let v := residual matA vecB var q
  match ext with
  | some ws =>
      -- `np.block` needs equal block shapes, the product needs matching sizes (ValueError otherwise)
      if ws.all (fun w => w.length == s && w.all (·.length == s)) && ws.length * s == v.length
      then some (quad v v (blockDiag s ws)) else none
  | none => some (ldot v v)

/-- one block of `x` of size `s` starting at block index `i` -/
def chunk (s i : Nat) (x : List K) : List K := (x.drop (i * s)).take s

/-- `value` of the generic squared-error loss: per-schedule sum, `if self.weight_matrices:` (empty list is falsy) -/
def wseValueGen (s n : Nat) (matA : List (List K)) (vecB var q : List K) (w : Option (List (List (List K)))) :
    Option K :=
  let v := residual matA vecB var q
  ((List.range n).mapM fun i =>
    let vi := chunk s i v
    match w with
    | some (w0 :: ws) => ((w0 :: ws)[i]?).map fun wi => quad vi vi wi     -- IndexError when the list is too short
    | _ => some (ldot vi vi)).map lsum

/-- `loss.value(var)` of the fast loss on the object's current attributes (`none`: attributes unset / shape error) -/
def valueFast (s : Nat) (st : Loss (List (List K) × List K) (List K) (List (List (List K)))) (var : List K) : Option K := do
  let ab ← st.matA
  let q ← st.q
  wseValueFast s ab.1 ab.2 var q st.ext

/-- `loss.value(var)` of the generic loss on the object's current attributes -/
def valueGen (s : Nat) (st : Loss (List (List K) × List K) (List K) (List (List (List K)))) (var : List K) : Option K := do
  let ab ← st.matA
  let q ← st.q
  if s = 0 then none else wseValueGen s (q.length / s) ab.1 ab.2 var q st.weights
end wse

/-! ## (c) algorithm object -/

/-- the projection installed by `set_constraint_from_standard_qt_and_option`: which of the four branches, built
from which tomography (`QT` is the identity of the qtomography object) -/
inductive Proj (QT : Type)
  | physical (qt : QT) (ineqEq : Bool) (maxIt : Option Nat)   -- func_calc_proj_physical_with_var(mode_proj_order, max_iteration)
  | eq (qt : QT)
  | ineq (qt : QT)
  | self                                                       -- func_proj.proj_to_self()
deriving DecidableEq, Repr

structure AlgoOpt where
  onEq : Bool
  onIneq : Bool
  ineqEq : Bool            -- mode_proj_order == "ineq_eq"
  maxIt : Option Nat
deriving DecidableEq, Repr

def projOf {QT : Type} (qt : QT) (o : AlgoOpt) : Proj QT :=
  if o.onEq && o.onIneq then .physical qt o.ineqEq o.maxIt
  else if o.onEq then .eq qt
  else if o.onIneq then .ineq qt
  else .self

structure Algo (QT : Type) where
  qt : Option QT
  funcProj : Option (Proj QT)

def Algo.fresh {QT : Type} : Algo QT := ⟨none, none⟩

/-- `set_constraint_from_standard_qt_and_option`: `_qt` is always replaced; `_func_proj` only when it is `None` -/
def setConstraint {QT : Type} (s : Algo QT) (c : QT × AlgoOpt) : Algo QT :=
  match s.funcProj with
  | some _ => { s with qt := some c.1 }
  | none => { qt := some c.1, funcProj := some (projOf c.1 c.2) }

def arun {QT : Type} (s : Algo QT) (h : List (QT × AlgoOpt)) : Algo QT := h.foldl setConstraint s

/-! ## (d) global tolerance -/

inductive AOp
  | set (v : Rat)       -- Settings.set_atol(float)
  | setBad              -- Settings.set_atol(non-float): TypeError, nothing changes
  | read                -- Settings.get_atol()
deriving DecidableEq, Repr

inductive AOut
  | ok | typeError | value (v : Rat)
deriving DecidableEq, Repr

def astep (a : Rat) : AOp → Rat × AOut
  | .set v => (v, .ok)
  | .setBad => (a, .typeError)
  | .read => (a, .value a)

def arunAtol : Rat → List AOp → Rat × List AOut
  | a, [] => (a, [])
  | a, op :: ops =>
      let r := astep a op
      let rest := arunAtol r.1 ops
      (rest.1, r.2 :: rest.2)

/-- `set x; body; set old` where `old` is what `get_atol()` returned before -/
def bracket (old x : Rat) (body : List AOp) : List AOp := .set x :: body ++ [.set old]

/-- `eps_proj_physical if eps_proj_physical else Settings.get_atol() / 10.0` (0 and None are both falsy) -/
def ctorEps (atol : Rat) (eps : Option Rat) : Rat :=
  match eps with
  | some e => if e = 0 then atol / 10 else e
  | none => atol / 10

/-! ## the machines side by side: one pool, interleaved calls -/

/-- a call on the shared pool: on the composite system, the loss object, the algorithm object or the global tolerance -/
inductive POp (A Q W QT : Type)
  | cache (op : COp)
  | loss (c : Cfg A Q W)
  | algo (c : QT × AlgoOpt)
  | atol (op : AOp)

/-- the pool: one object of each kind -/
structure Pool (T A Q W QT : Type) where
  cache : Cache T
  loss : Loss A Q W
  algo : Algo QT
  atol : Rat

/-- one call changes the object it is made on (the implementation's objects share no attributes — `gen_writers_declared`
lists every method that binds attributes, each on its own object) -/
def pstep {T A Q W QT : Type} (tbl : Key → T) (s : Pool T A Q W QT) : POp A Q W QT → Pool T A Q W QT
  | .cache op => { s with cache := (cstep tbl s.cache op).1 }
  | .loss c => { s with loss := configure s.loss c }
  | .algo c => { s with algo := setConstraint s.algo c }
  | .atol op => { s with atol := (astep s.atol op).1 }

def prun {T A Q W QT : Type} (tbl : Key → T) (s : Pool T A Q W QT) (h : List (POp A Q W QT)) : Pool T A Q W QT :=
  h.foldl (pstep tbl) s

def POp.cache? {A Q W QT : Type} : POp A Q W QT → Option COp | .cache op => some op | _ => none
def POp.loss? {A Q W QT : Type} : POp A Q W QT → Option (Cfg A Q W) | .loss c => some c | _ => none
def POp.algo? {A Q W QT : Type} : POp A Q W QT → Option (QT × AlgoOpt) | .algo c => some c | _ => none
def POp.atol? {A Q W QT : Type} : POp A Q W QT → Option AOp | .atol op => some op | _ => none

/-! ## (e) `MProcess.calc_proj_eq_constraint_with_var` with its aliasing -/
section projeq
variable {K : Type} [Add K] [Mul K] [Sub K] [Zero K] [One K]

def vadd (u v : List K) : List K := (u.zip v).map fun p => p.1 + p.2
def vsub (u v : List K) : List K := (u.zip v).map fun p => p.1 - p.2
def e0 (n : Nat) : List K := (List.range n).map fun i => if i = 0 then 1 else 0

/-- `vector.reshape((m, n, n))` as a list of `m` matrices given as row lists -/
def reshapeHss (m n : Nat) (x : List K) : List (List (List K)) :=
  (List.range m).map fun o => (List.range n).map fun r => (x.drop (o * n * n + r * n)).take n

/-- `convert_var_to_hss`: with the flag the first row of the last matrix is reconstructed and a *new* array is made
(`copy.copy`, `np.insert`); without the flag the matrices are views of a **copy** of `var` (`copy.copy(var)`).
Whether the returned matrices alias the argument is NOT decided here: `alias = (bit for the flag branch, bit for the
other branch)` is read off the source by the translator (`QGen.C13.hssAliasFlagTrue / hssAliasFlagFalse`). -/
def varToHss (alias : Bool × Bool) (n m : Nat) (flag : Bool) (var : List K) : List (List (List K)) × Bool :=
  if flag then
    let hsSize := n * n
    let sumFirst := (List.range (m - 1)).foldl (fun acc o => vadd acc ((var.drop (hsSize * o)).take n))
      (List.replicate n 0)
    let firstRowLast := vsub (e0 n) sumFirst
    let vector := var.take (hsSize * (m - 1)) ++ firstRowLast ++ var.drop (hsSize * (m - 1))
    (reshapeHss m n vector, alias.1)
  else (reshapeHss m n var, alias.2)

/-- `convert_hss_to_var` -/
def hssToVar (flag : Bool) (hss : List (List (List K))) : List K :=
  if flag then
    (hss.zipIdx.map fun (p : List (List K) × Nat) =>
      if p.2 = hss.length - 1 then (p.1.drop 1).flatten else p.1.flatten).flatten
  else (hss.map fun h => h.flatten).flatten

/-- the loop `vec += hs[0]`, `vec[0] -= 1`, `hs[0] -= vec / len(hss)`; `invm` is `1/len(hss)` -/
def projRows (n : Nat) (invm : K) (hss : List (List (List K))) : List (List (List K)) :=
  let vec0 := hss.foldl (fun acc hs => vadd acc (hs.headD [])) (List.replicate n 0)
  let vec := vsub vec0 (e0 n)
  hss.map fun hs =>
    match hs with
    | [] => []
    | r0 :: rs => vsub r0 (vec.map fun x => x * invm) :: rs

/-- result and the content of the *argument array* after the call. `m` = number of outcomes
(`var.shape[0] // hs_size (+ 1)` in the code, resolved by the caller), `n = dim²`. -/
def projEqWithVar (alias : Bool × Bool) (n m : Nat) (invm : K) (flag : Bool) (var : List K) : List K × List K :=
  let (hss, aliased) := varToHss alias n m flag var
  let newHss := projRows n invm hss
  let newVar := hssToVar flag newHss
  -- the in-place `hs[0] -= …` writes through the views; they alias the argument only if `aliased`
  (newVar, if aliased then (newHss.map fun h => h.flatten).flatten else var)
end projeq

/-! ## driver -/

def Key.ofNat? : Nat → Option Key
  | 0 => some .bbc | 1 => some .hs2choi | 2 => some .choi2hs | 3 => some .bT | 4 => some .bconj
  | 5 => some .bconjb | 6 => some .bbcT | 7 => some .bbcT1 | 8 => some .bhbT1 | _ => none

def Key.toNat : Key → Nat
  | .bbc => 0 | .hs2choi => 1 | .choi2hs => 2 | .bT => 3 | .bconj => 4
  | .bconjb => 5 | .bbcT => 6 | .bbcT1 => 7 | .bhbT1 => 8

/-- `g3` / `d5` -/
def parseCOp? (s : String) : Option COp :=
  match s.toList with
  | 'g' :: r => (String.ofList r).toNat? |>.bind Key.ofNat? |>.map COp.get
  | 'd' :: r => (String.ofList r).toNat? |>.bind Key.ofNat? |>.map COp.delete
  | _ => none

def showMask {T : Type} (s : Cache T) : String :=
  String.ofList (Key.all.map fun k => if (s k).isSome then '1' else '0')

/-- replies, per op: `<output>:<built mask>`; output of a get is the table id the getter returned -/
def cacheTrace (ops : List COp) : String :=
  let rec go (s : Cache Nat) : List COp → List String
    | [] => []
    | op :: r =>
        let x := cstep Key.toNat s op
        let o := match x.2 with
          | .table (some v) => s!"t{v}"
          | .table none => "tNone"
          | .deleted => "del"
          | .noMethod => "noMethod"
        s!"{o}:{showMask x.1}" :: go x.1 r
  ";".intercalate (go Cache.empty ops)

abbrev RW := List (List (List Rat))

def parseMat? (rows cols : Nat) (s : String) : Option (List (List Rat)) := do
  let xs ← parseList? parseRat? s
  if xs.length ≠ rows * cols then none
  else some ((List.range rows).map fun r => (xs.drop (r * cols)).take cols)

/-- `-` = None, otherwise `k` blocks of `s × s` -/
def parseW? (s : Nat) (t : String) : Option (Option RW) :=
  if t = "-" then some none else do
    let xs ← parseList? parseRat? t
    if s = 0 || xs.length % (s * s) ≠ 0 then none
    else
      let k := xs.length / (s * s)
      some (some ((List.range k).map fun b =>
        (List.range s).map fun r => (xs.drop (b * s * s + r * s)).take s))

/-- the mode string as the harness passes it to the option constructor, resolved through the generated branch table -/
def parseMode? (m : String) : Option Mode := modeOfString m

/-- one dataset: `mode|optW|dataW|grad|A|b|q` -/
def parseCfg? (s nvar : Nat) (t : String) : Option (Cfg (List (List Rat) × List Rat) (List Rat) RW) :=
  match t.splitOn "|" with
  | [m, ow, dw, g, a, b, q] => do
      let mode ← parseMode? m
      let ow ← parseW? s ow
      let dw ← parseW? s dw
      let b ← parseList? parseRat? b
      let q ← parseList? parseRat? q
      let a ← parseMat? b.length nvar a
      if q.length ≠ b.length then none
      else some { mode := mode, optWeights := ow, matA := (a, b), q := q, dataW := dw.getD [], gradReq := g = "1" }
  | _ => none

/-- `loss <fast|gen> <s> <nvar> <var> <ctorW> <cfg>…` → value at `var` after each dataset -/
def lossTrace (fast : Bool) (s : Nat) (var : List Rat) (w0 : Option RW)
    (cfgs : List (Cfg (List (List Rat) × List Rat) (List Rat) RW)) : String :=
  let rec go (st : Loss (List (List Rat) × List Rat) (List Rat) RW) :
      List (Cfg (List (List Rat) × List Rat) (List Rat) RW) → List String
    | [] => []
    | c :: r =>
        let st' := configure st c
        let v : Option Rat := if fast then valueFast s st' var else valueGen s st' var
        (match v with | some x => showRat x | none => "err") :: go st' r
  ";".intercalate (go (Loss.freshW w0) cfgs)

def showProj : Proj Nat → String
  | .physical qt ie mi => s!"physical.{qt}.{if ie then 1 else 0}.{match mi with | some k => toString k | none => "N"}"
  | .eq qt => s!"eq.{qt}"
  | .ineq qt => s!"ineq.{qt}"
  | .self => "self"

/-- one call: `qt,eq,ineq,ineqEq,maxIt` (maxIt `N` = None) -/
def parseCall? (t : String) : Option (Nat × AlgoOpt) :=
  match t.splitOn "," with
  | [qt, e, i, o, mi] => do
      let qt ← qt.toNat?
      let mi ← if mi = "N" then some none else mi.toNat?.map some
      some (qt, ⟨e = "1", i = "1", o = "1", mi⟩)
  | _ => none

def algoTrace (calls : List (Nat × AlgoOpt)) : String :=
  let rec go (s : Algo Nat) : List (Nat × AlgoOpt) → List String
    | [] => []
    | c :: r =>
        let s' := setConstraint s c
        s!"{match s'.qt with | some q => toString q | none => "N"}:{match s'.funcProj with | some p => showProj p | none => "N"}"
          :: go s' r
  ";".intercalate (go Algo.fresh calls)

def parseAOp? (t : String) : Option AOp :=
  if t = "r" then some .read
  else if t = "b" then some .setBad
  else match t.splitOn ":" with
    | ["s", v] => (parseRat? v).map AOp.set
    | _ => none

def showAOut : AOut → String
  | .ok => "ok" | .typeError => "typeError" | .value v => showRat v

def handle (args : List String) : Option String :=
  match args with
  | ["cache", ops] => do
      let ops ← parseList? parseCOp? ops
      some (cacheTrace ops)
  | "loss" :: kind :: s :: nvar :: var :: w0 :: cfgs => do
      let fast ← (if kind = "fast" then some true else if kind = "gen" then some false else none)
      let s ← s.toNat?
      let nvar ← nvar.toNat?
      let var ← parseList? parseRat? var
      let w0 ← parseW? s w0
      let cfgs ← cfgs.mapM (parseCfg? s nvar)
      if var.length ≠ nvar then none else some (lossTrace fast s var w0 cfgs)
  | ["algo", calls] => do
      let calls ← (calls.splitOn ";").mapM parseCall?
      some (algoTrace calls)
  | ["atol", a0, ops] => do
      let a0 ← parseRat? a0
      let ops ← parseList? parseAOp? ops
      let r := arunAtol a0 ops
      some (showRat r.1 ++ " " ++ showList showAOut r.2)
  | ["ctoreps", atol, eps] => do
      let atol ← parseRat? atol
      let eps ← if eps = "N" then some none else (parseRat? eps).map some
      some (showRat (ctorEps atol eps))
  | ["mprojeq", n, m, flag, var] => do
      let n ← n.toNat?
      let m ← m.toNat?
      let var ← parseList? parseRat? var
      if m = 0 then none else
      let flag := flag = "1"
      let r := projEqWithVar (QGen.C13.hssAliasFlagTrue, QGen.C13.hssAliasFlagFalse) n m ((1 : Rat) / (m : Rat)) flag var
      some (showList showRat r.1 ++ " " ++ showList showRat r.2)
  | _ => none

end QM.C13
