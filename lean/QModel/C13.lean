import QModel.Core
/-! C13 — model (not built yet) -/
namespace QM.C13
def handle (_args : List String) : Option String := none
end QM.C13
