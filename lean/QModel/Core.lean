/-!
# QModel.Core — import-free executable core of the quara model

Scalars are any type with `Add/Mul/Neg/Sub/Zero/One` (all core classes), so the same
definitions run at `Rat` (the driver) and are reasoned about at any Mathlib ring/field.
Matrices are `Vector (Vector K n) m`; every operation is `ofFn (formula)`.
-/

namespace QM

/-- right fold sum with explicit zero (bridged to `List.sum` in QProofs). -/
def lsum {K : Type} [Add K] [Zero K] (l : List K) : K := l.foldr (· + ·) 0

/-- sum over `Fin n`. -/
def fsum {K : Type} [Add K] [Zero K] (n : Nat) (f : Fin n → K) : K :=
  lsum ((List.finRange n).map f)

abbrev Vec (K : Type) (n : Nat) := Vector K n
abbrev Mat (K : Type) (m n : Nat) := Vector (Vector K n) m

namespace Vec
variable {K : Type} {n : Nat}
@[inline] def ofFn (f : Fin n → K) : Vec K n := Vector.ofFn f
@[inline] def get (v : Vec K n) (i : Fin n) : K := v[i]
def add [Add K] (u v : Vec K n) : Vec K n := ofFn fun i => u.get i + v.get i
def sub [Sub K] (u v : Vec K n) : Vec K n := ofFn fun i => u.get i - v.get i
def smul [Mul K] (c : K) (v : Vec K n) : Vec K n := ofFn fun i => c * v.get i
def dot [Add K] [Mul K] [Zero K] (u v : Vec K n) : K := fsum n fun i => u.get i * v.get i
def zero [Zero K] : Vec K n := ofFn fun _ => 0
end Vec

namespace Mat
variable {K : Type} {m n p q : Nat}
@[inline] def ofFn (f : Fin m → Fin n → K) : Mat K m n :=
  Vector.ofFn fun i => Vector.ofFn fun j => f i j
@[inline] def get (A : Mat K m n) (i : Fin m) (j : Fin n) : K := (A[i])[j]
def add [Add K] (A B : Mat K m n) : Mat K m n := ofFn fun i j => A.get i j + B.get i j
def sub [Sub K] (A B : Mat K m n) : Mat K m n := ofFn fun i j => A.get i j - B.get i j
def neg [Neg K] (A : Mat K m n) : Mat K m n := ofFn fun i j => - A.get i j
def smul [Mul K] (c : K) (A : Mat K m n) : Mat K m n := ofFn fun i j => c * A.get i j
def zero [Zero K] : Mat K m n := ofFn fun _ _ => 0
def one [Zero K] [One K] : Mat K n n := ofFn fun i j => if i = j then 1 else 0
def transpose (A : Mat K m n) : Mat K n m := ofFn fun i j => A.get j i
def mul [Add K] [Mul K] [Zero K] (A : Mat K m n) (B : Mat K n p) : Mat K m p :=
  ofFn fun i j => fsum n fun k => A.get i k * B.get k j
def mulVec [Add K] [Mul K] [Zero K] (A : Mat K m n) (v : Vec K n) : Vec K m :=
  Vec.ofFn fun i => fsum n fun k => A.get i k * v.get k
def trace [Add K] [Zero K] (A : Mat K n n) : K := fsum n fun i => A.get i i
end Mat

/-! ## text protocol helpers (driver side) -/

def parseInt? (s : String) : Option Int := s.toInt?

/-- `num/den` or `num`; denominators must be positive. -/
def parseRat? (s : String) : Option Rat :=
  match s.splitOn "/" with
  | [a] => (a.toInt?).map fun z => (z : Rat)
  | [a, b] => do
      let z ← a.toInt?
      let d ← b.toNat?
      if d = 0 then none else some (mkRat z d)
  | _ => none

def showRat (q : Rat) : String :=
  if q.den = 1 then toString q.num else s!"{q.num}/{q.den}"

def parseList? {α : Type} (f : String → Option α) (s : String) : Option (List α) :=
  if s = "-" then some [] else (s.splitOn ",").mapM f

def showList {α : Type} (f : α → String) (l : List α) : String :=
  if l.isEmpty then "-" else ",".intercalate (l.map f)

def parseNat? (s : String) : Option Nat := s.toNat?

end QM
