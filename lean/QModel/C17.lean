import QModel.Core
import QModel.C18
import QGen.C17
/-!
# C17 — catalogued objects: executable certificate checkers

The catalogues of quara build float arrays from names; they are not re-implemented here. What is
executed is a set of *certificate checkers* over complex rationals (every float is one) that decide, for a
concrete implementation output, statements with kernel-checked soundness theorems (QProps/C17.lean):

* `psdCert M V λ ε`  : `M` exactly Hermitian and `‖M − V·diag(max λ 0)·Vᴴ‖_F² ≤ ε²`  ⇒  `M + ε·1` is PSD
  (no unitarity of the float eigenvectors `V` is needed);
* `unitaryCert U ε`  : `‖UᴴU − 1‖_F² ≤ ε²`;
* exact equality-constraint defects: `trace1Cert` (`|tr M − 1|² ≤ ε²`), `povmSumCert` (`‖ΣM_x − 1‖_F² ≤ ε²`),
  `tpCert` (first row of an HS matrix vs `e₀`), `hsUnitaryCert` (`‖hs − hsOfUnitary B U‖_F² ≤ ε²`).

The residual builders are scalar-polymorphic (reasoned about at `ℂ`), the comparisons are at `CRat`/`Rat`.
`CRat`, `adj`, `trMul`, `Basis` are shared with `QModel.C18`.
-/
namespace QM.C17
open QM QM.C18

section core
variable {K : Type} [Add K] [Mul K] [Neg K] [Sub K] [Zero K] [One K] [Div K] [NatCast K] [HasConj K] [HasI K] {m n d : Nat}

/-- squared Frobenius norm `Σ conj(a)·a` (a scalar with vanishing imaginary part) -/
def frob2 (A : Mat K m n) : K := fsum m fun i => fsum n fun j => conj (A.get i j) * A.get i j

def diag (v : Vec K n) : Mat K n n := Mat.ofFn fun i j => if i = j then v.get i else 0

/-- `M − V·diag(λ₊)·Vᴴ` -/
def psdResid (M V : Mat K n n) (lp : Vec K n) : Mat K n n :=
  M.sub ((V.mul (diag lp)).mul (adj V))

/-- `UᴴU − 1` -/
def unitaryResid (U : Mat K n n) : Mat K n n := ((adj U).mul U).sub Mat.one

/-- `Σ_x M_x − 1` -/
def sumResid (Ms : List (Mat K n n)) : Mat K n n := (Ms.foldl Mat.add Mat.zero).sub Mat.one

/-- HS matrix of `ρ ↦ UρUᴴ` in the basis `B`: `hs[a,b] = tr(B_aᴴ · U B_b Uᴴ)` -/
def hsOfUnitary (B : Basis K d) (U : Mat K d d) : Mat K (d * d) (d * d) :=
  Mat.ofFn fun a b => trMul (adj (B.get a)) ((U.mul (B.get b)).mul (adj U))

/-! ### alternative descriptions of states and measurement processes (executed through the ops `stateforms`, `hsofkraus`) -/

/-- `calc_mat_from_vector_adjoint(ψ)` = `|ψ⟩⟨ψ|` (`generate_state_density_mat_from_name`) -/
def pureDensity (psi : Vec K d) : Mat K d d := Mat.ofFn fun i j => psi.get i * conj (psi.get j)

/-- coefficient vector of a matrix in the basis: `vec_a = tr(B_aᴴ ρ)` (`generate_state_density_matrix_vector_from_name`) -/
def coefVec (B : Basis K d) (rho : Mat K d d) : Vec K (d * d) :=
  Vec.ofFn fun a => trMul (adj (B.get a)) rho

/-- the matrix of a coefficient vector: `Σ_a v_a B_a` (`State.to_density_matrix`) -/
def densityOfCoef (B : Basis K d) (v : Vec K (d * d)) : Mat K d d :=
  msum (d * d) fun a => (B.get a).smul (v.get a)

/-- POVM elements from pure-state vectors (`generate_povm_matrices_from_name` for rank-1 names): `M_x = |v_x⟩⟨v_x|` -/
def povmOfVectors (vs : List (Vec K d)) : List (Mat K d d) := vs.map pureDensity

/-- HS matrix of the effective Lindbladian of a Hamiltonian (`calc_effective_lindbladian_mat_hermitian_basis_from_hamiltonian`):
`convert_hs(−i(H ⊗ 1 − 1 ⊗ H̄), comp_basis, basis)` -/
def lindOfHamiltonian (B : Basis K d) (h : Mat K d d) : Mat K (d * d) (d * d) := toHerm B (cbFromH h)

/-- `tmp_hs += np.kron(kraus_matrix, kraus_matrix.conjugate())` over the Kraus operators of one outcome -/
def krausSum (ks : List (Mat K d d)) : Mat K (d * d) (d * d) :=
  ks.foldl (fun acc k => acc.add (kron k (conjM k))) Mat.zero

/-- one element of `generate_mprocess_hss_from_name` before `truncate_hs`: `convert_hs(Σ_k K ⊗ K̄, comp_basis, basis)` -/
def hsOfKraus (B : Basis K d) (ks : List (Mat K d d)) : Mat K (d * d) (d * d) :=
  toHerm B (krausSum ks)
end core

/-! ## deciders -/

def clipPos {n : Nat} (lam : Vec Rat n) : Vec CRat n :=
  Vec.ofFn fun i => CRat.ofRat (if lam.get i < 0 then 0 else lam.get i)

def psdCert {n : Nat} (M V : Mat CRat n n) (lam : Vec Rat n) (eps : Rat) : Bool :=
  decide (0 ≤ eps) && decide (M = adj M) &&
    decide ((frob2 (psdResid M V (clipPos lam))).re ≤ eps * eps)

def unitaryCert {n : Nat} (U : Mat CRat n n) (eps : Rat) : Bool :=
  decide ((frob2 (unitaryResid U)).re ≤ eps * eps)

def trace1Cert {n : Nat} (M : Mat CRat n n) (eps : Rat) : Bool :=
  decide (CRat.abs2 (M.trace - 1) ≤ eps * eps)

def povmSumCert {n : Nat} (Ms : List (Mat CRat n n)) (eps : Rat) : Bool :=
  decide ((frob2 (sumResid Ms)).re ≤ eps * eps)

/-- squared distance of the first row of a real HS matrix from `e₀` -/
def tpResid2 {n : Nat} (hs : Mat Rat n n) : Rat :=
  fsum n fun i => fsum n fun j =>
    if i.val = 0 then
      let x := hs.get i j - (if j.val = 0 then 1 else 0)
      x * x
    else 0

def tpCert {n : Nat} (hs : Mat Rat n n) (eps : Rat) : Bool := decide (tpResid2 hs ≤ eps * eps)

def hsUnitaryCert {d : Nat} (B : Basis CRat d) (U : Mat CRat d d) (hs : Mat Rat (d * d) (d * d))
    (eps : Rat) : Bool :=
  decide ((frob2 ((embed hs).sub (hsOfUnitary B U))).re ≤ eps * eps)

/-! ## driver -/

def parseRVec (s : String) (n : Nat) : Option (Vec Rat n) := do
  let l ← parseList? parseRat? s
  listToVec? l n

def handle (args : List String) : Option String :=
  match args with
  | ["psdcert", ns, M, V, lam, eps] => do
      let n ← parseNat? ns
      let M ← parseCMat M n n
      let V ← parseCMat V n n
      let lam ← parseRVec lam n
      let eps ← parseRat? eps
      some s!"ok {psdCert M V lam eps} {showRat (frob2 (psdResid M V (clipPos lam))).re} {decide (M = adj M)}"
  | ["unitarycert", ns, U, eps] => do
      let n ← parseNat? ns
      let U ← parseCMat U n n
      some s!"ok {unitaryCert U (← parseRat? eps)} {showRat (frob2 (unitaryResid U)).re}"
  | ["trace1", ns, M, eps] => do
      let n ← parseNat? ns
      let M ← parseCMat M n n
      some s!"ok {trace1Cert M (← parseRat? eps)} {showRat (CRat.abs2 (M.trace - 1))}"
  | ["povmsum", ns, Ms, eps] => do
      let n ← parseNat? ns
      let Ms ← parseCMats Ms n
      some s!"ok {povmSumCert Ms (← parseRat? eps)} {showRat (frob2 (sumResid Ms)).re}"
  | ["tpcert", ns, hs, eps] => do
      let n ← parseNat? ns
      let hs ← parseRMat hs n n
      some s!"ok {tpCert hs (← parseRat? eps)} {showRat (tpResid2 hs)}"
  | ["hsunitary", ds, bs, U, hs, eps] => do
      let d ← parseNat? ds
      let B ← parseBasis bs d
      let U ← parseCMat U d d
      let hs ← parseRMat hs (d * d) (d * d)
      some s!"ok {hsUnitaryCert B U hs (← parseRat? eps)} {showRat (frob2 ((embed hs).sub (hsOfUnitary B U))).re}"
  | ["stateforms", ds, bs, psi] => do
      -- pure-state vector -> density matrix -> coefficient vector (and back)
      let d ← parseNat? ds
      let B ← parseBasis bs d
      let psi ← parseCVec psi d
      let rho := pureDensity psi
      let v := coefVec B rho
      some s!"ok {showCMat rho} {showList showRat (v.toList.flatMap fun z => [z.re, z.im])} {showCMat (densityOfCoef B v)}"
  | ["povmforms", ds, bs, k, vs] => do
      -- pure-state vectors -> POVM matrices -> coefficient vectors
      let d ← parseNat? ds
      let k ← parseNat? k
      let B ← parseBasis bs d
      let l ← parseList? parseRat? vs
      let c ← pairUp l
      if c.length ≠ k * d then none
      let vs ← (chunks d k c).mapM fun r => listToVec? r d
      let ms := povmOfVectors vs
      some ("ok " ++ " ".intercalate (ms.map fun m => showCMat m ++ " " ++ showList showRat ((coefVec B m).toList.flatMap fun z => [z.re, z.im])))
  | ["lindofh", ds, bs, h] => do
      let d ← parseNat? ds
      let B ← parseBasis bs d
      let h ← parseCMat h d d
      some s!"ok {showCMat (lindOfHamiltonian B h)}"
  | ["hsofkraus", ds, bs, ks] => do
      let d ← parseNat? ds
      let B ← parseBasis bs d
      let ks ← parseCMats ks d
      some s!"ok {showCMat (hsOfKraus B ks)}"
  | ["names", t] =>
      -- a generated catalogue name table (QGen/C17.lean, regenerated from the source on every run)
      (QGen.C17.table t).map fun l => s!"ok {showList id l}"
  | ["isvalid", codes] => do
      -- the generated `is_valid_state_name` on a name given as a list of character codes
      let cs ← parseList? parseNat? codes
      let name := String.ofList (cs.map Char.ofNat)
      some s!"ok {QGen.C17.is_valid_state_name name} {QGen.C17.generate_state_pure_state_vector_from_name_rejects name} {QGen.C17.generate_state_density_mat_from_name_rejects name}"
  | _ => none

end QM.C17
