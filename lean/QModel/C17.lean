import QModel.Core
/-! C17 — model (not built yet) -/
namespace QM.C17
def handle (_args : List String) : Option String := none
end QM.C17
