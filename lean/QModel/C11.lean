import QModel.Core
/-! C11 — model (not built yet) -/
namespace QM.C11
def handle (_args : List String) : Option String := none
end QM.C11
