import QModel.Core
import QModel.C10
/-!
# C11 — loss minimisation attains the constrained optimum (model)

The backtracking iteration itself (`pgdbDir`, `isDoingForAlpha`, `backtrack`, `pgdbStep`, `pgdbLoop`, `errorValue`,
`windowSum`, `isDoing`) is modelled in `QModel/C10.lean`, exactly as coded in
`projected_gradient_descent_backtracking.py:229-356`; this file adds

* the wrapper `calc_proj_physical_with_var` puts around the physical projection (qoperation.py:1009-1012, 1092-1096):
  convert the variable to the stacked vector, project *there*, convert back — `projViaStacked`;
* the objective built by the CVXPY-backed estimator (`interface/cvxpy/qtomography/standard/loss_function.py:247-270, 398-480`):
  the affine probability model `p_i(x) = A_i x + b_i`, the per-schedule weights `c_i = N_i / N_total`
  (`calc_num_ratios`), the uniform squared error `Σ_i c_i Σ_j (p_ij − q_ij)²` and the relative entropy
  `Σ_i c_i Σ_{j : q_ij > eps} (q_ij log q_ij − q_ij log p_ij)` with `log` a parameter;
* a one-dimensional ("ray") instantiation of the line search used to tie the acceptance rule to the real loss values
  of every loss family.
-/
namespace QM.C11
open QM.C10

/-! ## the projection wrapper of `calc_proj_physical_with_var` -/

/-- `convert_var_to_stacked_vector` → projection on stacked vectors → `convert_stacked_vector_to_var` -/
def projViaStacked {W S : Type} (toStacked : W → S) (projS : S → S) (toVar : S → W) (v : W) : W :=
  toVar (projS (toStacked v))

/-! ## objective of the CVXPY-backed estimator -/

section cvx
variable {K : Type} [Add K] [Sub K] [Mul K] [Div K] [Zero K] [LT K] [DecidableLT K]

/-- `calc_num_ratios(nums)`: `N_i / N_total` -/
def numRatios (nums : List K) : List K := nums.map (· / lsum nums)

/-- one schedule of `CvxpyUniformSquaredError.value_cvxpy`: `Σ_j (p_j − q_j)²` (`quad_over_lin(p − q, 1)`) -/
def sqErr (p q : List K) : K := lsum ((p.zip q).map fun (a, b) => (a - b) * (a - b))

/-- `CvxpyUniformSquaredError.value_cvxpy`: `Σ_i c_i Σ_j (p_ij − q_ij)²`; `ps` the model distributions at the point -/
def cvxSquaredError (ratios : List K) (ps qs : List (List K)) : K :=
  lsum ((ratios.zip (ps.zip qs)).map fun (c, pq) => c * sqErr pq.1 pq.2)

/-- one schedule of `CvxpyRelativeEntropy.value_cvxpy`: `Σ_{j : q_j > eps} q_j (log q_j − log p_j)` -/
def relEnt (log : K → K) (eps : K) (p q : List K) : K :=
  lsum ((p.zip q).map fun (a, b) => if eps < b then b * log b - b * log a else 0)

def cvxRelativeEntropy (log : K → K) (eps : K) (ratios : List K) (ps qs : List (List K)) : K :=
  lsum ((ratios.zip (ps.zip qs)).map fun (c, pq) => c * relEnt log eps pq.1 pq.2)

/-- identity-weight squared error of the projected-gradient estimators, in the same shape: `Σ_i Σ_j (p_ij − q_ij)²` -/
def plainSquaredError (ps qs : List (List K)) : K :=
  lsum ((ps.zip qs).map fun pq => sqErr pq.1 pq.2)

/-- identity-weight relative entropy of the projected-gradient estimators, in the same shape: `Σ_i Σ_{j : q_ij > eps} …` -/
def plainRelativeEntropy (log : K → K) (eps : K) (ps qs : List (List K)) : K :=
  lsum ((ps.zip qs).map fun pq => relEnt log eps pq.1 pq.2)

end cvx

/-! ## driver -/
namespace Drv
open QM.C10.Drv

def parseLists? (s : String) : Option (List (List Rat)) :=
  if s = "-" then some [] else (s.splitOn ";").mapM (parseList? parseRat?)

/-- table lookup of the loss along the ray `x + t y` at the step sizes the line search visits (`t = 2^{-j}`) -/
def rayValue (fx : Rat) (vals : List Rat) (t : Rat) : Rat :=
  if t = 0 then fx else
    match (List.range vals.length).find? (fun j => t = (1 : Rat) / ((2 : Rat) ^ j)) with
    | some j => vals.getD j fx        -- index found by `find?` is in range
    | none => fx

end Drv

open Drv QM.C10.Drv in
def handle (args : List String) : Option String :=
  match args with
  | ["armijo", fx, slope, gamma, vals] => do
      -- the line search on the ray: V = Rat (position t), x = 0, y = 1, f = table of real loss values, <y, grad> = slope
      let fx ← parseRat? fx
      let slope ← parseRat? slope
      let gamma ← parseRat? gamma
      let vals ← parseList? parseRat? vals
      let f : Rat → Rat := rayValue fx vals
      match backtrack (K := Rat) (V := Rat) f (fun _ => slope) (fun _ s => s) 0 1 gamma vals.length 1 with
      | some a => some s!"alpha {showRat a}"
      | none => some "none"
  | ["cvxse", nums, ps, qs] => do
      let nums ← parseList? parseRat? nums
      let ps ← parseLists? ps
      let qs ← parseLists? qs
      if ps.length ≠ qs.length ∨ nums.length ≠ ps.length then none else
      some s!"{showRat (cvxSquaredError (numRatios nums) ps qs)} {showRat (plainSquaredError ps qs)}"
  | ["cvxre", nums, eps, ps, qs, logps, logqs] => do
      -- logs are the implementation's kernel results, passed per entry (same shape as ps / qs)
      let nums ← parseList? parseRat? nums
      let eps ← parseRat? eps
      let ps ← parseLists? ps
      let qs ← parseLists? qs
      let logps ← parseLists? logps
      let logqs ← parseLists? logqs
      if ps.length ≠ qs.length ∨ nums.length ≠ ps.length then none else
      let table : List (Rat × Rat) := (ps.flatten.zip logps.flatten) ++ (qs.flatten.zip logqs.flatten)
      let log : Rat → Rat := fun v => match table.find? (fun e => e.1 = v) with
        | some e => e.2
        | none => 0
      some (showRat (cvxRelativeEntropy log eps (numRatios nums) ps qs))
  | ["viastacked", v1, v2] => do
      -- the 2-variable instance used by the negation witness: stacked = (v1, v2, 1 - v1 - v2), set {s1 >= 0}
      let v1 ← parseRat? v1
      let v2 ← parseRat? v2
      let r := projViaStacked (W := Rat × Rat) (S := Rat × Rat × Rat) (fun v => (v.1, v.2, 1 - v.1 - v.2))
        (fun s => if s.1 < 0 then (0, s.2.1 + s.1 / 2, s.2.2 + s.1 / 2) else s) (fun s => (s.1, s.2.1)) (v1, v2)
      some s!"{showRat r.1} {showRat r.2}"
  | _ => none

end QM.C11
