import QModel.Core
/-!
# C02 — all representations of one object denote the same operator
(model of the conversion functions of quara/objects/{state,povm,gate,mprocess,composite_system,
matrix_basis}.py and quara/utils/matrix_util.py `truncate_hs`, `vdot`, `kron`, `flatten`)

Everything that is (bi)linear algebra is polymorphic in a scalar type `K` with `+ * 0 1` and a
conjugation (`HasConj`): it is executed at `CRat` (Gaussian rationals: every complex128 is one)
and reasoned about at any commutative star-ring / field with conjugation (QProofs/C02, QProps/C02).
The matrix basis `B` (a vector of `n` matrices of size `d × d`) is an *input* of every function.

The model mirrors the code as it is:
* the plain implementations are the same loops (left folds in the same order, `reduce(add, …)`
  without an initial value), the `_with_dict` implementations build the same tables of non-zero
  coefficients, the `_with_sparsity` implementations are the same flattened matrix–vector products;
* `truncate_hs` has its imaginary-part error branch and zeroes entries below the threshold;
* `to_var_from_choi` is `to_hs_from_choi_with_sparsity` followed by `convert_hs_to_var`
  (repaired in /repo 15e40aa; before that it called the forward conversion, DESIGN §5-D3);
  `Povm.matrix_with_sparsity` is the sparse form of `Povm.matrix` (repaired in da605d0, DESIGN §5-D2).
-/
namespace QM.C02

/-- conjugation of the scalar type (complex conjugate at `CRat`, `star` at a Mathlib star-ring) -/
class HasConj (K : Type) where
  conj : K → K
export HasConj (conj)

/-! ## Gaussian rationals -/

structure CRat where
  re : Rat
  im : Rat
deriving DecidableEq, Repr

namespace CRat
instance : Add CRat := ⟨fun a b => ⟨a.re + b.re, a.im + b.im⟩⟩
instance : Sub CRat := ⟨fun a b => ⟨a.re - b.re, a.im - b.im⟩⟩
instance : Neg CRat := ⟨fun a => ⟨-a.re, -a.im⟩⟩
instance : Mul CRat := ⟨fun a b => ⟨a.re * b.re - a.im * b.im, a.re * b.im + a.im * b.re⟩⟩
instance : Zero CRat := ⟨⟨0, 0⟩⟩
instance : One CRat := ⟨⟨1, 0⟩⟩
instance : HasConj CRat := ⟨fun a => ⟨a.re, -a.im⟩⟩
def ofRat (q : Rat) : CRat := ⟨q, 0⟩
end CRat

instance : HasConj Rat := ⟨fun a => a⟩

/-! ## index arithmetic of `flatten` / `reshape` / `kron` (row major) -/

/-- `(i, j) ↦ i * b + j` -/
def pidx {a b : Nat} (i : Fin a) (j : Fin b) : Fin (a * b) :=
  ⟨i.val * b + j.val, by
    have hi := i.isLt
    have hj := j.isLt
    calc i.val * b + j.val < i.val * b + b := Nat.add_lt_add_left hj _
      _ = (i.val + 1) * b := by rw [Nat.add_mul, Nat.one_mul]
      _ ≤ a * b := Nat.mul_le_mul_right b hi⟩

/-- `x ↦ x / b` -/
def pdiv {a b : Nat} (x : Fin (a * b)) : Fin a :=
  ⟨x.val / b, by
    have h : x.val < b * a := Nat.mul_comm a b ▸ x.isLt
    exact Nat.div_lt_of_lt_mul h⟩

/-- `x ↦ x % b` -/
def pmod {a b : Nat} (x : Fin (a * b)) : Fin b :=
  ⟨x.val % b, by
    have h : x.val < a * b := x.isLt
    rcases Nat.eq_zero_or_pos b with hb | hb
    · subst hb; simp at h
    · exact Nat.mod_lt _ hb⟩

/-- `itertools.product(range(n), range(n))` -/
def pairs (n : Nat) : List (Fin n × Fin n) :=
  (List.finRange n).flatMap fun a => (List.finRange n).map fun b => (a, b)

section generic
variable {K : Type}

/-- a matrix basis: `n` matrices of size `d × d` -/
abbrev Basis (K : Type) (d n : Nat) := Vec (Mat K d d) n

def conjM [HasConj K] {m n : Nat} (A : Mat K m n) : Mat K m n :=
  Mat.ofFn fun i j => conj (A.get i j)

/-- `A.conj().T` -/
def ctransp [HasConj K] {m n : Nat} (A : Mat K m n) : Mat K n m :=
  Mat.ofFn fun i j => conj (A.get j i)

/-- `np.kron` -/
def kron [Mul K] {a b c e : Nat} (A : Mat K a b) (C : Mat K c e) : Mat K (a * c) (b * e) :=
  Mat.ofFn fun x y => A.get (pdiv x) (pdiv y) * C.get (pmod x) (pmod y)

/-- `matrix.flatten()` -/
def flat {a b : Nat} (A : Mat K a b) : Vec K (a * b) :=
  Vec.ofFn fun x => A.get (pdiv x) (pmod x)

/-- `vector.reshape((a, b))` -/
def unflat {a b : Nat} (v : Vec K (a * b)) : Mat K a b :=
  Mat.ofFn fun i j => v.get (pidx i j)

/-- `np.vdot(A, C)` = Σ over the flattened index of `conj(A) * C` -/
def vdot [Add K] [Mul K] [Zero K] [HasConj K] {a b : Nat} (A C : Mat K a b) : K :=
  fsum (a * b) fun x => conj (A.get (pdiv x) (pmod x)) * C.get (pdiv x) (pmod x)

/-! ## state.py -/

/-- `State.to_density_matrix`: `density += coefficient * basis` over `zip(vec, basis)` -/
def densityLoop [Add K] [Mul K] [Zero K] {d n : Nat} (B : Basis K d n) (v : Vec K n) : Mat K d d :=
  (List.finRange n).foldl (fun acc a => acc.add ((B.get a).smul (v.get a))) Mat.zero

/-- `CompositeSystem.basis_T_sparse`: column `a` is the flattened `B_a` -/
def basisT {d n : Nat} (B : Basis K d n) : Mat K (d * d) n :=
  Mat.ofFn fun x a => (B.get a).get (pdiv x) (pmod x)

/-- `CompositeSystem.basisconjugate_sparse`: row `a` is the flattened `conj(B_a)` -/
def basisConj [HasConj K] {d n : Nat} (B : Basis K d n) : Mat K n (d * d) :=
  Mat.ofFn fun a x => conj ((B.get a).get (pdiv x) (pmod x))

/-- `to_density_matrix_from_vec` (= `to_density_matrix_with_sparsity`, `to_matrices_from_vecs`) -/
def densitySparse [Add K] [Mul K] [Zero K] {d n : Nat} (B : Basis K d n) (v : Vec K n) : Mat K d d :=
  unflat ((basisT B).mulVec v)

/-- `to_vec_from_density_matrix_with_sparsity` / `to_vec_from_matrix_with_sparsity`
before `truncate_hs` -/
def vecOfDensityRaw [Add K] [Mul K] [Zero K] [HasConj K] {d n : Nat} (B : Basis K d n)
    (rho : Mat K d d) : Vec K n :=
  (basisConj B).mulVec (flat rho)

/-! ## matrix_basis.py -/

/-- `convert_vec`: `rep[β, α] = vdot(to_β, from_α)`, result `rep @ from_vec` -/
def convertVec [Add K] [Mul K] [Zero K] [HasConj K] {d n : Nat} (fromB toB : Basis K d n)
    (v : Vec K n) : Vec K n :=
  (Mat.ofFn fun b a => vdot (toB.get b) (fromB.get a) : Mat K n n).mulVec v

def eMat [Zero K] [One K] {d : Nat} (r c : Fin d) : Mat K d d :=
  Mat.ofFn fun i j => if i = r ∧ j = c then 1 else 0

/-- `get_comp_basis(dim, mode)`; `rowMajor = false` is `"column_major"` -/
def compBasis [Zero K] [One K] (d : Nat) (rowMajor : Bool) : Basis K d (d * d) :=
  Vec.ofFn fun x => if rowMajor then eMat (pdiv x) (pmod x) else eMat (pmod x) (pdiv x)

/-! ## gate.py (the basis has `d * d` elements) -/

/-- `CompositeSystem.basis_basisconjugate((α, β))` = `B_α ⊗ conj(B_β)` -/
def bbc [Mul K] [HasConj K] {d : Nat} (B : Basis K d (d * d)) (al be : Fin (d * d)) :
    Mat K (d * d) (d * d) :=
  kron (B.get al) (conjM (B.get be))

/-- one entry of `B_α ⊗ conj(B_β)` (= `(bbc B α β).get i j`, without building the matrix) -/
def bbcEntry [Mul K] [HasConj K] {d : Nat} (B : Basis K d (d * d)) (al be i j : Fin (d * d)) : K :=
  (B.get al).get (pdiv i) (pdiv j) * conj ((B.get be).get (pmod i) (pmod j))

/-- `functools.reduce(operator.add, l)` without initial value; `none` = TypeError on an empty list -/
def reduceAdd [Add K] {m n : Nat} : List (Mat K m n) → Option (Mat K m n)
  | [] => none
  | t :: ts => some (ts.foldl Mat.add t)

/-- `to_choi_from_hs`: `reduce(add, [hs[α][β] * bb …])` -/
def choiLoop [Add K] [Mul K] [HasConj K] {d : Nat} (B : Basis K d (d * d))
    (hs : Mat K (d * d) (d * d)) : Option (Mat K (d * d) (d * d)) :=
  reduceAdd ((pairs (d * d)).map fun p => (bbc B p.1 p.2).smul (hs.get p.1 p.2))

/-- `CompositeSystem.dict_from_hs_to_choi[(i, j)]`: the `(α, β, coefficient)` with non-zero coefficient,
in `itertools.product` order -/
def dictHsToChoi [Mul K] [Zero K] [HasConj K] [DecidableEq K] {d : Nat} (B : Basis K d (d * d))
    (i j : Fin (d * d)) : List (Fin (d * d) × Fin (d * d) × K) :=
  (pairs (d * d)).filterMap fun p =>
    let c := bbcEntry B p.1 p.2 i j
    if c = 0 then none else some (p.1, p.2, c)

/-- `to_choi_from_hs_with_dict` -/
def choiDict [Add K] [Mul K] [Zero K] [HasConj K] [DecidableEq K] {d : Nat} (B : Basis K d (d * d))
    (hs : Mat K (d * d) (d * d)) : Mat K (d * d) (d * d) :=
  Mat.ofFn fun i j =>
    (dictHsToChoi B i j).foldl (fun acc t => acc + hs.get t.1 t.2.1 * t.2.2) 0

/-- `CompositeSystem.basis_basisconjugate_T_sparse`: column `(α, β)` is the flattened `B_α ⊗ conj B_β` -/
def bbcT [Mul K] [HasConj K] {d : Nat} (B : Basis K d (d * d)) :
    Mat K ((d * d) * (d * d)) ((d * d) * (d * d)) :=
  Mat.ofFn fun x y => bbcEntry B (pdiv y) (pmod y) (pdiv x) (pmod x)

/-- `to_choi_from_hs_with_sparsity` -/
def choiSparse [Add K] [Mul K] [Zero K] [HasConj K] {d : Nat} (B : Basis K d (d * d))
    (hs : Mat K (d * d) (d * d)) : Mat K (d * d) (d * d) :=
  unflat ((bbcT B).mulVec (flat hs))

/-- `to_hs_from_choi` before `.real`: `tr((B_α ⊗ conj B_β)^† choi)` -/
def hsOfChoiLoopRaw [Add K] [Mul K] [Zero K] [HasConj K] {d : Nat} (B : Basis K d (d * d))
    (choi : Mat K (d * d) (d * d)) : Mat K (d * d) (d * d) :=
  Mat.ofFn fun al be => ((ctransp (bbc B al be)).mul choi).trace

/-- `CompositeSystem.dict_from_choi_to_hs[(α, β)]` -/
def dictChoiToHs [Mul K] [Zero K] [HasConj K] [DecidableEq K] {d : Nat} (B : Basis K d (d * d))
    (al be : Fin (d * d)) : List (Fin (d * d) × Fin (d * d) × K) :=
  (pairs (d * d)).filterMap fun p =>
    let c := bbcEntry B al be p.1 p.2
    if c = 0 then none else some (p.1, p.2, c)

/-- `to_hs_from_choi_with_dict` before `truncate_hs`: `hs[α, β] += coefficient * choi[j, i]` -/
def hsOfChoiDictRaw [Add K] [Mul K] [Zero K] [HasConj K] [DecidableEq K] {d : Nat}
    (B : Basis K d (d * d)) (choi : Mat K (d * d) (d * d)) : Mat K (d * d) (d * d) :=
  Mat.ofFn fun al be =>
    (dictChoiToHs B al be).foldl (fun acc t => acc + t.2.2 * choi.get t.2.1 t.1) 0

/-- `CompositeSystem.basisconjugate_basis_sparse` = `conj` of the stacked flattened `B_α ⊗ conj B_β` -/
def bbcConj [Mul K] [HasConj K] {d : Nat} (B : Basis K d (d * d)) :
    Mat K ((d * d) * (d * d)) ((d * d) * (d * d)) :=
  Mat.ofFn fun y x => conj (bbcEntry B (pdiv y) (pmod y) (pdiv x) (pmod x))

/-- `to_hs_from_choi_with_sparsity` before `truncate_hs` -/
def hsOfChoiSparseRaw [Add K] [Mul K] [Zero K] [HasConj K] {d : Nat} (B : Basis K d (d * d))
    (choi : Mat K (d * d) (d * d)) : Mat K (d * d) (d * d) :=
  unflat ((bbcConj B).mulVec (flat choi))

/-- the matrix `U[α, β] = vdot(to_α, from_β)` of `convert_hs` -/
def transU [Add K] [Mul K] [Zero K] [HasConj K] {d n : Nat} (fromB toB : Basis K d n) : Mat K n n :=
  Mat.ofFn fun a b => vdot (toB.get a) (fromB.get b)

/-- `convert_hs` main logic: `U @ from_hs @ U.conj().T` (the shape checks are in `handle`) -/
def convertHs [Add K] [Mul K] [Zero K] [HasConj K] {d n : Nat} (fromB toB : Basis K d n)
    (hs : Mat K n n) : Mat K n n :=
  ((transU fromB toB).mul hs).mul (ctransp (transU fromB toB))

/-- `sum([np.kron(mat, mat.conjugate()) for mat in kraus])` (python `sum` starts from `0`) -/
def krausTensorSum [Add K] [Mul K] [Zero K] [HasConj K] {d : Nat} (ks : List (Mat K d d)) :
    Mat K (d * d) (d * d) :=
  ks.foldl (fun acc k => acc.add (kron k (conjM k))) Mat.zero

/-- `to_hs_from_kraus_matrices` before `truncate_hs` -/
def hsOfKrausRaw [Add K] [Mul K] [Zero K] [One K] [HasConj K] {d : Nat} (B : Basis K d (d * d))
    (ks : List (Mat K d d)) : Mat K (d * d) (d * d) :=
  convertHs (compBasis d true) B (krausTensorSum ks)

/-- `to_process_matrix_from_hs`: `χ[α, β] = tr((E_α^† ⊗ E_β^T) hs_comp)` -/
def processMatrix [Add K] [Mul K] [Zero K] [One K] [HasConj K] {d : Nat} (B : Basis K d (d * d))
    (hs : Mat K (d * d) (d * d)) : Mat K (d * d) (d * d) :=
  let comp : Basis K d (d * d) := compBasis d true
  let hsComp := convertHs B comp hs
  Mat.ofFn fun al be =>
    ((kron (ctransp (comp.get al)) ((comp.get be).transpose)).mul hsComp).trace

/-- `convert_var_to_hs(…, on_para_eq_constraint=True)`: insert the row `(1, 0, …, 0)` on top -/
def varToHsEq [Zero K] [One K] {n : Nat} (var : Vec K ((n - 1) * n)) : Mat K n n :=
  Mat.ofFn fun i j =>
    if h : i.val = 0 then (if j.val = 0 then 1 else 0)
    else var.get (pidx ⟨i.val - 1, by have := i.isLt; omega⟩ j)

/-- `convert_hs_to_var(…, on_para_eq_constraint=True)`: delete row 0, flatten -/
def hsToVarEq {n : Nat} (hs : Mat K n n) : Vec K ((n - 1) * n) :=
  Vec.ofFn fun x => hs.get ⟨(pdiv x).val + 1, by have := (pdiv x).isLt; omega⟩ (pmod x)

/-- `to_choi_from_var(…, on_para_eq_constraint=True)` -/
def toChoiFromVarEq [Add K] [Mul K] [Zero K] [One K] [HasConj K] {d : Nat} (B : Basis K d (d * d))
    (var : Vec K ((d * d - 1) * (d * d))) : Mat K (d * d) (d * d) :=
  choiSparse B (varToHsEq var)

/-- `to_choi_from_var(…, on_para_eq_constraint=False)` -/
def toChoiFromVarFree [Add K] [Mul K] [Zero K] [HasConj K] {d : Nat} (B : Basis K d (d * d))
    (var : Vec K ((d * d) * (d * d))) : Mat K (d * d) (d * d) :=
  choiSparse B (unflat var)

/-- `to_var_from_choi(…, on_para_eq_constraint=True)` before `truncate_hs`:
`to_hs_from_choi_with_sparsity` (the inverse conversion), then delete row 0 and flatten. -/
def toVarFromChoiEqRaw [Add K] [Mul K] [Zero K] [HasConj K] {d : Nat} (B : Basis K d (d * d))
    (choi : Mat K (d * d) (d * d)) : Vec K ((d * d - 1) * (d * d)) :=
  hsToVarEq (hsOfChoiSparseRaw B choi)

/-- `to_var_from_choi(…, on_para_eq_constraint=False)` before `truncate_hs` -/
def toVarFromChoiFreeRaw [Add K] [Mul K] [Zero K] [HasConj K] {d : Nat} (B : Basis K d (d * d))
    (choi : Mat K (d * d) (d * d)) : Vec K ((d * d) * (d * d)) :=
  flat (hsOfChoiSparseRaw B choi)

end generic

/-! ## truncate_hs (matrix_util.py) — on Gaussian rationals -/

inductive Err
  | imagNonZero   -- truncate_hs: "some imaginary parts of entries of matrix != 0"
  | indexError    -- list index out of range
  | emptyKraus    -- sum([]) = 0 has no .shape
  | emptyReduce   -- reduce() of empty sequence
  | notSquare | dimNotSquare | dimMismatch | lenMismatch   -- convert_hs / convert_vec ValueErrors
  | reshape       -- var.reshape(size) ValueError
deriving Repr, DecidableEq

def Err.toString : Err → String
  | .imagNonZero => "imagNonZero" | .indexError => "indexError"
  | .emptyKraus => "emptyKraus" | .emptyReduce => "emptyReduce" | .notSquare => "notSquare"
  | .dimNotSquare => "dimNotSquare" | .dimMismatch => "dimMismatch" | .lenMismatch => "lenMismatch"
  | .reshape => "reshape"

def rabs (q : Rat) : Rat := if q < 0 then -q else q

/-- one entry of `truncate_hs(hs, eps)` with `is_zero_imaginary_part_required=True`:
`truncate_imaginary_part` keeps the entry complex unless `|imag| < eps`; any remaining non-zero
imaginary part raises; then `.real`, then `truncate_computational_fluctuation` (|x| < eps ↦ 0). -/
def truncEntry (eps : Rat) (z : CRat) : Except Err Rat :=
  if !(rabs z.im < eps) && z.im != 0 then .error .imagNonZero
  else .ok (if rabs z.re < eps then 0 else z.re)

def truncList (eps : Rat) (l : List CRat) : Except Err (List Rat) := l.mapM (truncEntry eps)

/-- `to_hs_from_choi`: `.real` of the trace, no check -/
def realList (l : List CRat) : List Rat := l.map (·.re)

/-- row-major list of the entries (`matrix.flatten().tolist()`) -/
def matList {α : Type} {m n : Nat} (A : Mat α m n) : List α := (flat A).toList

/-- `to_vec_from_density_matrix_with_sparsity` / `to_vec_from_matrix_with_sparsity` as executed:
the complex coefficients `np.vdot(B_a, ρ)` go through `truncate_hs` (guard + `.real` + fluctuation cut) -/
def vecOfDensity {d n : Nat} (eps : Rat) (B : Basis CRat d n) (rho : Mat CRat d d) : Except Err (List Rat) :=
  truncList eps (vecOfDensityRaw B rho).toList

/-- `to_hs_from_choi_with_sparsity` as executed (through `truncate_hs`) -/
def hsOfChoiSparse {d : Nat} (eps : Rat) (B : Basis CRat d (d * d)) (choi : Mat CRat (d * d) (d * d)) :
    Except Err (List Rat) :=
  truncList eps (matList (hsOfChoiSparseRaw B choi))

/-- `to_hs_from_choi_with_dict` as executed (through `truncate_hs`) -/
def hsOfChoiDict {d : Nat} (eps : Rat) (B : Basis CRat d (d * d)) (choi : Mat CRat (d * d) (d * d)) :
    Except Err (List Rat) :=
  truncList eps (matList (hsOfChoiDictRaw B choi))

/-- `to_hs_from_choi` as executed: `.real` of the trace, WITHOUT the imaginary-part guard of the other two variants -/
def hsOfChoiLoop {d : Nat} (B : Basis CRat d (d * d)) (choi : Mat CRat (d * d) (d * d)) : List Rat :=
  realList (matList (hsOfChoiLoopRaw B choi))

/-- `to_hs_from_kraus_matrices` as executed (through `truncate_hs`); the empty list is rejected before (`sum([])` has no shape) -/
def hsOfKraus {d : Nat} (eps : Rat) (B : Basis CRat d (d * d)) (ks : List (Mat CRat d d)) : Except Err (List Rat) :=
  if ks.isEmpty then .error .emptyKraus else truncList eps (matList (hsOfKrausRaw B ks))

/-- `to_var_from_density_matrix(c_sys, ρ, on_para_eq_constraint)`: `to_vec_from_density_matrix_with_sparsity` (default
threshold), then `np.delete(vec, 0)` when `onEq` -/
def toVarFromDensity {d n : Nat} (eps : Rat) (B : Basis CRat d n) (rho : Mat CRat d d) (onEq : Bool) :
    Except Err (List Rat) := do
  let v ← vecOfDensity eps B rho
  pure (if onEq then v.drop 1 else v)

/-- `to_var_from_matrices(c_sys, matrices, on_para_eq_constraint)`: `to_vecs_from_matrices_with_sparsity` (one `truncate_hs`
per matrix, the first failure raises), `del var[-1]` when `onEq`, `np.hstack` -/
def toVarFromMatrices {d n : Nat} (eps : Rat) (B : Basis CRat d n) (ms : List (Mat CRat d d)) (onEq : Bool) :
    Except Err (List Rat) := do
  let vecs ← ms.mapM (vecOfDensity eps B)
  pure ((if onEq then vecs.dropLast else vecs).flatMap id)

/-- `to_var_from_choi` as executed: `truncate_hs` runs on the whole HS matrix (row 0 included) inside
`to_hs_from_choi_with_sparsity`; then `convert_hs_to_var` deletes row 0 (`onEq`) and flattens.
(`toVarFromChoiEqRaw` / `toVarFromChoiFreeRaw` are the same functions without the truncation.) -/
def toVarFromChoi {d : Nat} (eps : Rat) (B : Basis CRat d (d * d)) (choi : Mat CRat (d * d) (d * d))
    (onEq : Bool) : Except Err (List Rat) := do
  let l ← truncList eps (matList (hsOfChoiSparseRaw B choi))
  pure (if onEq then l.drop (d * d) else l)

/-! ## povm.py -/

/-- `Povm.matrix(index)` for an int index (loop form) -/
def povmMatrix {d n : Nat} (B : Basis CRat d n) (vecs : List (Vec CRat n)) (index : Nat) :
    Except Err (Mat CRat d d) :=
  match vecs[index]? with
  | none => .error .indexError
  | some v => .ok (densityLoop B v)

/-- `Povm.matrix_with_sparsity(index)`: `vec = self.vec(index)`, then the sparse matrix–vector form -/
def povmMatrixSparse {d n : Nat} (B : Basis CRat d n) (vecs : List (Vec CRat n)) (index : Nat) :
    Except Err (Mat CRat d d) :=
  match vecs[index]? with
  | none => .error .indexError
  | some v => .ok (densitySparse B v)

/-- `Povm._md_index2serial_index` inside `Povm.vec(tuple)`: entry `md_index` of
`np.arange(num_outcomes).reshape(nums_local_outcomes)`, i.e. the row-major serial index
(first factor slowest).  `lenMismatch` = the ValueError of `vec` for a tuple of the wrong length,
`indexError` = numpy's IndexError for an out-of-range component. -/
def mdSerialAux : List Nat → List Nat → Nat → Except Err Nat
  | [], [], acc => .ok acc
  | l :: ls, i :: is, acc => if i < l then mdSerialAux ls is (acc * l + i) else .error .indexError
  | _, _, _ => .error .lenMismatch

def mdSerial (lens idx : List Nat) : Except Err Nat :=
  if lens.length ≠ idx.length then .error .lenMismatch else mdSerialAux lens idx 0

/-- `Povm.matrix(tuple)` -/
def povmMatrixMd {d n : Nat} (B : Basis CRat d n) (vecs : List (Vec CRat n)) (lens idx : List Nat) :
    Except Err (Mat CRat d d) := do
  let s ← mdSerial lens idx
  povmMatrix B vecs s

/-- `Povm.matrix_with_sparsity(tuple)` -/
def povmMatrixSparseMd {d n : Nat} (B : Basis CRat d n) (vecs : List (Vec CRat n)) (lens idx : List Nat) :
    Except Err (Mat CRat d d) := do
  let s ← mdSerial lens idx
  povmMatrixSparse B vecs s

/-! ## mprocess.py: per-outcome and list-valued conversions -/

/-- `MProcess.hs(index)` for an int index: `self.hss[index]`, IndexError past the end -/
def mpOutcome {α : Type} (hss : List α) (index : Nat) : Except Err α :=
  match hss[index]? with
  | none => .error .indexError
  | some h => .ok h

/-- `MProcess.to_choi_matrix(outcome)` (plain loop), `…_with_dict`, `…_with_sparsity`, `to_process_matrix(outcome)`:
the gate-level function applied to `self.hs(outcome)` -/
def mpChoiLoop {d : Nat} (B : Basis CRat d (d * d)) (hss : List (Mat CRat (d * d) (d * d))) (i : Nat) :
    Except Err (Mat CRat (d * d) (d * d)) :=
  match mpOutcome hss i with
  | .error e => .error e
  | .ok hs => match choiLoop B hs with
    | none => .error .emptyReduce
    | some c => .ok c

def mpChoiDict {d : Nat} (B : Basis CRat d (d * d)) (hss : List (Mat CRat (d * d) (d * d))) (i : Nat) :
    Except Err (Mat CRat (d * d) (d * d)) :=
  match mpOutcome hss i with
  | .error e => .error e
  | .ok hs => .ok (choiDict B hs)

def mpChoiSparse {d : Nat} (B : Basis CRat d (d * d)) (hss : List (Mat CRat (d * d) (d * d))) (i : Nat) :
    Except Err (Mat CRat (d * d) (d * d)) :=
  match mpOutcome hss i with
  | .error e => .error e
  | .ok hs => .ok (choiSparse B hs)

def mpProcessMatrix {d : Nat} (B : Basis CRat d (d * d)) (hss : List (Mat CRat (d * d) (d * d))) (i : Nat) :
    Except Err (Mat CRat (d * d) (d * d)) :=
  match mpOutcome hss i with
  | .error e => .error e
  | .ok hs => .ok (processMatrix B hs)

/-- `MProcess.convert_basis(other_basis)` / `Gate.convert_basis` on each element: `[convert_hs(hs, basis, other) for hs in hss]` -/
def mpConvertBasis {K : Type} [Add K] [Mul K] [Zero K] [HasConj K] {d n : Nat} (fromB toB : Basis K d n)
    (hss : List (Mat K n n)) : List (Mat K n n) :=
  hss.map (convertHs fromB toB)

/-- `MProcess.convert_to_comp_basis(mode)` -/
def mpConvertToComp {K : Type} [Add K] [Mul K] [Zero K] [One K] [HasConj K] {d : Nat} (B : Basis K d (d * d))
    (rowMajor : Bool) (hss : List (Mat K (d * d) (d * d))) : List (Mat K (d * d) (d * d)) :=
  mpConvertBasis B (compBasis d rowMajor) hss

/-! ## Kraus (gate.py `to_kraus_matrices_from_hs`) — numpy's `eigh` and `sqrt` are parameters -/

/-- one eigenpair as returned by `np.linalg.eigh(choi)` together with `np.sqrt(eigenvalue)` -/
structure EigPair (d : Nat) where
  val : Rat
  sqrtVal : Rat
  vec : Vec CRat (d * d)
  /-- `np.abs(np.sqrt(val) * vec)`: the moduli of the entries of the scaled operator (used by the phase convention) -/
  absScaled : Vec Rat (d * d)

/-- `np.isclose(x, 0, atol=atol)` (rtol·|0| = 0) -/
def closeZero (x atol : Rat) : Bool := rabs x ≤ atol

/-- `mutil.is_hermitian(M, atol)`: `allclose(M, M^†, atol, rtol=0)` entrywise on complex numbers uses
`|z| ≤ atol`; the model tests `0 ≤ atol ∧ |z|² ≤ atol²` (for a negative `atol` numpy's test is false for every entry). -/
def isHermitian {n : Nat} (M : Mat CRat n n) (atol : Rat) : Bool :=
  (List.finRange n).all fun i => (List.finRange n).all fun j =>
    let z := M.get i j - conj (M.get j i)
    decide (0 ≤ atol) && decide (z.re * z.re + z.im * z.im ≤ atol * atol)

/-- `is_cp`: Choi matrix Hermitian and every eigenvalue not close to zero is ≥ 0 -/
def isCp {d : Nat} (choi : Mat CRat (d * d) (d * d)) (eigs : List (EigPair d)) (atol : Rat) : Bool :=
  isHermitian choi atol && eigs.all fun e => closeZero e.val atol || decide (0 ≤ e.val)

/-- insertion into a list sorted by decreasing eigenvalue, after the equal ones (python's stable
`sorted(…, reverse=True)`) -/
def insertDesc {d : Nat} (e : EigPair d) : List (EigPair d) → List (EigPair d)
  | [] => [e]
  | x :: xs => if x.val < e.val then e :: x :: xs else x :: insertDesc e xs

def sortDesc {d : Nat} (l : List (EigPair d)) : List (EigPair d) :=
  l.foldl (fun acc e => insertDesc e acc) []

/-- `to_kraus_matrices_from_hs` up to the phase convention (step 3 multiplies each operator by a
unit-modulus number): `[]` when not CP, else `sqrt(λ) · unvec(v)` for the eigenpairs not close to
zero (threshold `atolSettings`), largest eigenvalue first. -/
def krausRaw {d : Nat} (B : Basis CRat d (d * d)) (hs : Mat CRat (d * d) (d * d))
    (eigs : List (EigPair d)) (atol atolSettings : Rat) : List (Mat CRat d d) :=
  if !isCp (choiSparse B hs) eigs atol then []
  else
    let kept := eigs.filter fun e => !closeZero e.val atolSettings
    (sortDesc kept).map fun e => (unflat e.vec : Mat CRat d d).smul (CRat.ofRat e.sqrtVal)

/-- numpy's `value < 0` for a complex scalar: lexicographic order (real part first) -/
def cLtZero (z : CRat) : Bool := decide (z.re < 0) || (decide (z.re = 0) && decide (z.im < 0))

/-- `1 / e` for a complex number -/
def cInv (e : CRat) : CRat := ⟨e.re / (e.re * e.re + e.im * e.im), -e.im / (e.re * e.re + e.im * e.im)⟩

/-- the phase factor of step 3 of `to_kraus_matrices_from_hs` for one operator: the first non-zero entry `value`
of `k.flatten()`; if `value < 0` (numpy's complex order) the factor is `1 / (value / abs(value))`, else 1
(also 1 when every entry is zero). `absFlat` = numpy's `abs` of the entries. -/
def phaseFactor {d : Nat} (k : Mat CRat d d) (absFlat : Vec Rat (d * d)) : CRat :=
  match (List.finRange (d * d)).find? (fun x => (flat k).get x != 0) with
  | none => 1
  | some x =>
    let value := (flat k).get x
    if cLtZero value then cInv (value * CRat.ofRat (1 / absFlat.get x)) else 1

/-- step 3: `_k = (1 / e_i_theta) * k` -/
def phaseFix {d : Nat} (k : Mat CRat d d) (absFlat : Vec Rat (d * d)) : Mat CRat d d :=
  k.smul (phaseFactor k absFlat)

/-- `to_kraus_matrices_from_hs` completely: verdict, zero filter, stable descending sort, scaling, phase convention -/
def krausFull {d : Nat} (B : Basis CRat d (d * d)) (hs : Mat CRat (d * d) (d * d))
    (eigs : List (EigPair d)) (atol atolSettings : Rat) : List (Mat CRat d d) :=
  if !isCp (choiSparse B hs) eigs atol then []
  else
    let kept := eigs.filter fun e => !closeZero e.val atolSettings
    (sortDesc kept).map fun e => phaseFix ((unflat e.vec : Mat CRat d d).smul (CRat.ofRat e.sqrtVal)) e.absScaled

/-! ## driver -/

def parseCList? (s : String) : Option (List CRat) := do
  let l ← parseList? parseRat? s
  let rec go : List Rat → Option (List CRat)
    | [] => some []
    | [_] => none
    | a :: b :: r => (go r).map (⟨a, b⟩ :: ·)
  go l

def showCList (l : List CRat) : String :=
  showList showRat (l.flatMap fun z => [z.re, z.im])

def toVec? {α : Type} (n : Nat) (l : List α) : Option (Vec α n) :=
  if h : l.length = n then some ⟨l.toArray, by simp [h]⟩ else none

/-- split a list into `k` chunks of length `m` -/
def chunks {α : Type} (m : Nat) : Nat → List α → List (List α)
  | 0, _ => []
  | k + 1, l => l.take m :: chunks m k (l.drop m)

def toMat? {α : Type} (m n : Nat) (l : List α) : Option (Mat α m n) := do
  if l.length ≠ m * n then none
  let rows ← (chunks n m l).mapM (toVec? n)
  toVec? m rows

def toBasis? (d n : Nat) (l : List CRat) : Option (Basis CRat d n) := do
  if l.length ≠ n * (d * d) then none
  let ms ← (chunks (d * d) n l).mapM (toMat? d d)
  toVec? n ms


def showM {m n : Nat} (A : Mat CRat m n) : String := "ok " ++ showCList (matList A)
def showV {n : Nat} (v : Vec CRat n) : String := "ok " ++ showCList v.toList
def showR (r : Except Err (List Rat)) : String :=
  match r with
  | .error e => "err " ++ e.toString
  | .ok l => "ok " ++ showList showRat l
def showEM {m n : Nat} (r : Except Err (Mat CRat m n)) : String :=
  match r with
  | .error e => "err " ++ e.toString
  | .ok A => showM A

def parseEigs? (d : Nat) (vals sqrts vecs abss : String) : Option (List (EigPair d)) := do
  let vals ← parseList? parseRat? vals
  let sqrts ← parseList? parseRat? sqrts
  let vecs ← parseCList? vecs
  let abss ← parseList? parseRat? abss
  if vals.length ≠ sqrts.length ∨ vecs.length ≠ vals.length * (d * d) ∨ abss.length ≠ vals.length * (d * d) then none
  let vs ← (chunks (d * d) vals.length vecs).mapM (toVec? (d * d))
  let as ← (chunks (d * d) vals.length abss).mapM (toVec? (d * d))
  some ((vals.zip (sqrts.zip (vs.zip as))).map fun t => ⟨t.1, t.2.1, t.2.2.1, t.2.2.2⟩)

/-- the parameter checks of `convert_hs` in the order of the code -/
def convertHsChecks (rows cols fromDim fromLen toDim toLen : Nat) : Except Err Unit :=
  if rows ≠ cols then .error .notSquare
  else if (Nat.sqrt rows) ^ 2 ≠ rows then .error .dimNotSquare
  else if fromDim ≠ toDim then .error .dimMismatch
  else if fromLen ≠ toLen then .error .lenMismatch
  else .ok ()

/-- the parameter checks of `convert_vec` in the order of the code -/
def convertVecChecks (fromDim fromLen toDim toLen : Nat) : Except Err Unit :=
  if fromLen ≠ toLen then .error .lenMismatch
  else if fromDim ≠ toDim then .error .dimMismatch
  else .ok ()

def handle (args : List String) : Option String :=
  match args with
  -- state / povm element: vec -> matrix
  | ["densityLoop", d, n, basis, v] => do
      let d ← parseNat? d; let n ← parseNat? n
      let B ← toBasis? d n (← parseCList? basis)
      let v ← toVec? n (← parseCList? v)
      some (showM (densityLoop B v))
  | ["densitySparse", d, n, basis, v] => do
      let d ← parseNat? d; let n ← parseNat? n
      let B ← toBasis? d n (← parseCList? basis)
      let v ← toVec? n (← parseCList? v)
      some (showM (densitySparse B v))
  -- matrix -> vec (raw complex value, and through truncate_hs)
  | ["vecOfDensityRaw", d, n, basis, rho] => do
      let d ← parseNat? d; let n ← parseNat? n
      let B ← toBasis? d n (← parseCList? basis)
      let rho ← toMat? d d (← parseCList? rho)
      some (showV (vecOfDensityRaw B rho))
  | ["vecOfDensity", d, n, basis, rho, eps] => do
      let d ← parseNat? d; let n ← parseNat? n
      let B ← toBasis? d n (← parseCList? basis)
      let rho ← toMat? d d (← parseCList? rho)
      let eps ← parseRat? eps
      some (showR (vecOfDensity eps B rho))
  | ["toVarFromDensity", d, n, basis, rho, eps, onEq] => do
      let d ← parseNat? d; let n ← parseNat? n
      let B ← toBasis? d n (← parseCList? basis)
      let rho ← toMat? d d (← parseCList? rho)
      let eps ← parseRat? eps
      let onEq ← (if onEq = "1" then some true else if onEq = "0" then some false else none)
      some (showR (toVarFromDensity eps B rho onEq))
  | ["toVarFromMatrices", d, n, basis, m, mats, eps, onEq] => do
      let d ← parseNat? d; let n ← parseNat? n; let m ← parseNat? m
      let B ← toBasis? d n (← parseCList? basis)
      let l ← parseCList? mats
      if l.length ≠ m * (d * d) then none
      let ms ← (chunks (d * d) m l).mapM (toMat? d d)
      let eps ← parseRat? eps
      let onEq ← (if onEq = "1" then some true else if onEq = "0" then some false else none)
      some (showR (toVarFromMatrices eps B ms onEq))
  | ["povmMatrix", d, n, basis, m, vecs, idx] => do
      let d ← parseNat? d; let n ← parseNat? n; let m ← parseNat? m; let idx ← parseNat? idx
      let B ← toBasis? d n (← parseCList? basis)
      let l ← parseCList? vecs
      if l.length ≠ m * n then none
      let vs ← (chunks n m l).mapM (toVec? n)
      some (showEM (povmMatrix B vs idx))
  | ["povmMatrixSparse", d, n, basis, m, vecs, idx] => do
      let d ← parseNat? d; let n ← parseNat? n; let m ← parseNat? m; let idx ← parseNat? idx
      let B ← toBasis? d n (← parseCList? basis)
      let l ← parseCList? vecs
      if l.length ≠ m * n then none
      let vs ← (chunks n m l).mapM (toVec? n)
      some (showEM (povmMatrixSparse B vs idx))
  | ["povmMatrixMd", d, n, basis, m, vecs, lens, idx, sparse] => do
      let d ← parseNat? d; let n ← parseNat? n; let m ← parseNat? m
      let lens ← parseList? parseNat? lens; let idx ← parseList? parseNat? idx
      let B ← toBasis? d n (← parseCList? basis)
      let l ← parseCList? vecs
      if l.length ≠ m * n then none
      let vs ← (chunks n m l).mapM (toVec? n)
      if sparse = "1" then some (showEM (povmMatrixSparseMd B vs lens idx))
      else if sparse = "0" then some (showEM (povmMatrixMd B vs lens idx))
      else none
  | ["mdSerial", lens, idx] => do
      let lens ← parseList? parseNat? lens; let idx ← parseList? parseNat? idx
      match mdSerial lens idx with
      | .error e => some ("err " ++ e.toString)
      | .ok s => some s!"ok {s}"
  | ["convertVec", d, n, fromB, toDim, toLen, toB, v] => do
      let d ← parseNat? d; let n ← parseNat? n
      let toDim ← parseNat? toDim; let toLen ← parseNat? toLen
      match convertVecChecks d n toDim toLen with
      | .error e => some ("err " ++ e.toString)
      | .ok () =>
        let F ← toBasis? d n (← parseCList? fromB)
        let T ← toBasis? d n (← parseCList? toB)
        let v ← toVec? n (← parseCList? v)
        some (showV (convertVec F T v))
  | ["vdot", a, b, x, y] => do
      let a ← parseNat? a; let b ← parseNat? b
      let x ← toMat? a b (← parseCList? x)
      let y ← toMat? a b (← parseCList? y)
      some ("ok " ++ showCList [vdot x y])
  | ["compBasis", d, mode] => do
      let d ← parseNat? d
      let rm ← (if mode = "row_major" then some true else if mode = "column_major" then some false else none)
      some ("ok " ++ showCList ((compBasis d rm : Basis CRat d (d * d)).toList.flatMap matList))
  -- gate
  | ["choiLoop", d, basis, hs] => do
      let d ← parseNat? d
      let B ← toBasis? d (d * d) (← parseCList? basis)
      let hs ← toMat? (d * d) (d * d) (← parseCList? hs)
      match choiLoop B hs with
      | none => some "err emptyReduce"
      | some c => some (showM c)
  | ["choiDict", d, basis, hs] => do
      let d ← parseNat? d
      let B ← toBasis? d (d * d) (← parseCList? basis)
      let hs ← toMat? (d * d) (d * d) (← parseCList? hs)
      some (showM (choiDict B hs))
  | ["choiSparse", d, basis, hs] => do
      let d ← parseNat? d
      let B ← toBasis? d (d * d) (← parseCList? basis)
      let hs ← toMat? (d * d) (d * d) (← parseCList? hs)
      some (showM (choiSparse B hs))
  | ["hsOfChoiLoop", d, basis, choi] => do
      let d ← parseNat? d
      let B ← toBasis? d (d * d) (← parseCList? basis)
      let c ← toMat? (d * d) (d * d) (← parseCList? choi)
      some ("ok " ++ showList showRat (hsOfChoiLoop B c))
  | ["hsOfChoiDict", d, basis, choi, eps] => do
      let d ← parseNat? d
      let B ← toBasis? d (d * d) (← parseCList? basis)
      let c ← toMat? (d * d) (d * d) (← parseCList? choi)
      let eps ← parseRat? eps
      some (showR (hsOfChoiDict eps B c))
  | ["hsOfChoiSparse", d, basis, choi, eps] => do
      let d ← parseNat? d
      let B ← toBasis? d (d * d) (← parseCList? basis)
      let c ← toMat? (d * d) (d * d) (← parseCList? choi)
      let eps ← parseRat? eps
      some (showR (hsOfChoiSparse eps B c))
  | ["convertHs", rows, cols, hs, d, n, fromB, toDim, toLen, toB] => do
      let rows ← parseNat? rows; let cols ← parseNat? cols
      let d ← parseNat? d; let n ← parseNat? n
      let toDim ← parseNat? toDim; let toLen ← parseNat? toLen
      match convertHsChecks rows cols d n toDim toLen with
      | .error e => some ("err " ++ e.toString)
      | .ok () =>
        let F ← toBasis? d n (← parseCList? fromB)
        let T ← toBasis? d n (← parseCList? toB)
        let hs ← toMat? n n (← parseCList? hs)
        some (showM (convertHs F T hs))
  | ["convertToComp", d, basis, hs, mode] => do
      let d ← parseNat? d
      let B ← toBasis? d (d * d) (← parseCList? basis)
      let hs ← toMat? (d * d) (d * d) (← parseCList? hs)
      let rm ← (if mode = "row_major" then some true else if mode = "column_major" then some false else none)
      some (showM (convertHs B (compBasis d rm) hs))
  | ["hsOfKraus", d, basis, k, kraus, eps] => do
      let d ← parseNat? d; let k ← parseNat? k
      let B ← toBasis? d (d * d) (← parseCList? basis)
      let l ← parseCList? kraus
      if l.length ≠ k * (d * d) then none
      let ks ← (chunks (d * d) k l).mapM (toMat? d d)
      let eps ← parseRat? eps
      some (showR (hsOfKraus eps B ks))
  | ["processMatrix", d, basis, hs] => do
      let d ← parseNat? d
      let B ← toBasis? d (d * d) (← parseCList? basis)
      let hs ← toMat? (d * d) (d * d) (← parseCList? hs)
      some (showM (processMatrix B hs))
  | ["toChoiFromVar", d, basis, var, onEq] => do
      let d ← parseNat? d
      let B ← toBasis? d (d * d) (← parseCList? basis)
      let l ← parseCList? var
      if onEq = "1" then
        match toVec? ((d * d - 1) * (d * d)) l with
        | none => some "err reshape"
        | some v => some (showM (toChoiFromVarEq B v))
      else if onEq = "0" then
        match toVec? ((d * d) * (d * d)) l with
        | none => some "err reshape"
        | some v => some (showM (toChoiFromVarFree B v))
      else none
  | ["toVarFromChoi", d, basis, choi, onEq, eps] => do
      let d ← parseNat? d
      let B ← toBasis? d (d * d) (← parseCList? basis)
      let c ← toMat? (d * d) (d * d) (← parseCList? choi)
      let eps ← parseRat? eps
      if onEq = "1" then some (showR (toVarFromChoi eps B c true))
      else if onEq = "0" then some (showR (toVarFromChoi eps B c false))
      else none
  | ["mpChoi", variant, d, basis, m, hss, idx] => do
      let d ← parseNat? d; let m ← parseNat? m; let idx ← parseNat? idx
      let B ← toBasis? d (d * d) (← parseCList? basis)
      let l ← parseCList? hss
      if l.length ≠ m * ((d * d) * (d * d)) then none
      let hs ← (chunks ((d * d) * (d * d)) m l).mapM (toMat? (d * d) (d * d))
      if variant = "loop" then some (showEM (mpChoiLoop B hs idx))
      else if variant = "dict" then some (showEM (mpChoiDict B hs idx))
      else if variant = "sparse" then some (showEM (mpChoiSparse B hs idx))
      else if variant = "process" then some (showEM (mpProcessMatrix B hs idx))
      else none
  | ["mpConvertToComp", d, basis, m, hss, mode] => do
      let d ← parseNat? d; let m ← parseNat? m
      let B ← toBasis? d (d * d) (← parseCList? basis)
      let l ← parseCList? hss
      if l.length ≠ m * ((d * d) * (d * d)) then none
      let hs ← (chunks ((d * d) * (d * d)) m l).mapM (toMat? (d * d) (d * d))
      let rm ← (if mode = "row_major" then some true else if mode = "column_major" then some false else none)
      some ("ok " ++ showCList ((mpConvertToComp B rm hs).flatMap matList))
  | ["mpConvertBasis", d, n, fromB, toB, m, hss] => do
      let d ← parseNat? d; let n ← parseNat? n; let m ← parseNat? m
      let F ← toBasis? d n (← parseCList? fromB)
      let T ← toBasis? d n (← parseCList? toB)
      let l ← parseCList? hss
      if l.length ≠ m * (n * n) then none
      let hs ← (chunks (n * n) m l).mapM (toMat? n n)
      some ("ok " ++ showCList ((mpConvertBasis F T hs).flatMap matList))
  | ["kraus", d, basis, hs, vals, sqrts, vecs, abss, atol, atolSettings] => do
      let d ← parseNat? d
      let B ← toBasis? d (d * d) (← parseCList? basis)
      let hs ← toMat? (d * d) (d * d) (← parseCList? hs)
      let eigs ← parseEigs? d vals sqrts vecs abss
      let atol ← parseRat? atol; let atolS ← parseRat? atolSettings
      let ks := krausFull B hs eigs atol atolS
      -- the operators themselves (phase convention included), then the gauge invariant of the list before the phase step
      some (s!"ok {ks.length} " ++ showCList (ks.flatMap matList ++ matList (krausTensorSum (krausRaw B hs eigs atol atolS))))
  | _ => none

end QM.C02
