import QModel.Core
/-! C02 — model (not built yet) -/
namespace QM.C02
def handle (_args : List String) : Option String := none
end QM.C02
