import QModel.Core
import QGen.C03
/-!
# C03 — optimisation variables ↔ objects (model of the conversion functions of
quara/objects/{state,povm,gate,mprocess}.py and of the prefix-sum layout of quara/objects/qoperations.py)

List level, exactly numpy's `insert / delete / reshape / hstack / append`:
a state is its `vec` (flat list), a POVM the list of its `vecs`, a gate the list of the rows of `hs`,
a measurement process the list of its `hs.flatten()` (each of length `d⁴`, row-major).
`none` = the Python function raises (reshape size mismatch, `np.delete` / `del` on an empty
array / list, `np.hstack([])`, ZeroDivisionError for `dim = 0`).
The integer index maps and `num_variables` are *not* written here: they are `QGen.C03.*`, regenerated
from the Python source on every run (harness/pytolean.py).
Scalars: any type with `Add Sub Zero One` (executed at `Rat`).  `s` is the implied first coefficient
of a state (`1/np.sqrt(d)` as computed by numpy) and `sqrtd` the implied POVM total (`np.sqrt(d)`): parameters.
-/
namespace QM.C03
variable {K : Type}

/-! ## numpy primitives -/

/-- rows of `a.reshape(k, n)` (no size check) -/
def rows (n : Nat) : Nat → List K → List (List K)
  | 0, _ => []
  | k + 1, l => l.take n :: rows n k (l.drop n)

/-- `a.reshape(k, n)`: ValueError unless `len a = k * n` -/
def reshape2 (k n : Nat) (l : List K) : Option (List (List K)) :=
  if l.length = k * n then some (rows n k l) else none

def vadd [Add K] (a b : List K) : List K := List.zipWith (· + ·) a b
def vsub [Sub K] (a b : List K) : List K := List.zipWith (· - ·) a b

/-- `[c, 0, …, 0]` of length `n` (`n ≥ 1`): `np.eye(1, n)` scaled, `hstack([c, zeros(n-1)])`, `one[0] = 1` -/
def e0 [Zero K] (c : K) (n : Nat) : List K := c :: List.replicate (n - 1) 0

/-- `rs.sum(axis=0)` of a `(k, n)` array -/
def colSum [Add K] [Zero K] (n : Nat) (rs : List (List K)) : List K :=
  rs.foldl vadd (List.replicate n 0)

def hsSize (dim : Nat) : Nat := dim ^ 2 * dim ^ 2

/-! ## State (state.py:708 `convert_var_to_vec`, :775 `convert_vec_to_var`, :509/:531 stacked forms) -/

/-- `np.insert(var, 0, 1/np.sqrt(dim)) if flag else var` -/
def vecOfVar (s : K) (var : List K) (flag : Bool) : List K := if flag then s :: var else var

/-- `np.delete(vec, 0) if flag else vec` (IndexError on an empty vec) -/
def varOfVec (vec : List K) (flag : Bool) : Option (List K) :=
  if flag then (match vec with | [] => none | _ :: t => some t) else some vec

def stateStackedOfVar (s : K) (var : List K) (flag : Bool) : List K := vecOfVar s var flag
def stateVarOfStacked (st : List K) (flag : Bool) : Option (List K) := varOfVec st flag

/-! ## POVM (povm.py:1108 `convert_var_to_vecs`, :1198 `convert_vecs_to_var`, :846/:873 stacked forms) -/

/-- implied last element `[√d, 0, …] − pre_vecs.sum(axis=0)` -/
def povmLast [Add K] [Sub K] [Zero K] (dim : Nat) (sqrtd : K) (pre : List (List K)) : List K :=
  vsub (e0 sqrtd (dim ^ 2)) (colSum (dim ^ 2) pre)

def vecsOfVar [Add K] [Sub K] [Zero K] (dim : Nat) (sqrtd : K) (var : List K) (flag : Bool) :
    Option (List (List K)) :=
  if dim = 0 then none
  else if flag then do
    let mn := var.length / dim ^ 2 + 1
    let pre ← reshape2 (mn - 1) (dim ^ 2) var
    let last := povmLast dim sqrtd pre
    reshape2 mn (dim ^ 2) (pre.flatten ++ last)
  else reshape2 (var.length / dim ^ 2) (dim ^ 2) var

/-- `var = copy(vecs); if flag: del var[-1]; np.hstack(var)` -/
def varOfVecs (vecs : List (List K)) (flag : Bool) : Option (List K) :=
  if flag then
    (if vecs.isEmpty then none          -- del var[-1] : IndexError
     else if vecs.dropLast.isEmpty then none   -- np.hstack([]) : ValueError
     else some vecs.dropLast.flatten)
  else if vecs.isEmpty then none else some vecs.flatten

def povmStackedOfVar [Add K] [Sub K] [Zero K] (dim : Nat) (sqrtd : K) (var : List K) (flag : Bool) :
    Option (List K) :=
  if flag then (vecsOfVar dim sqrtd var true).map List.flatten else some var

def povmVarOfStacked [Add K] [Sub K] [Zero K] (dim : Nat) (sqrtd : K) (st : List K) (flag : Bool) :
    Option (List K) :=
  if flag then do
    let vecs ← vecsOfVar dim sqrtd st false
    varOfVecs vecs true
  else some st

/-! ## Gate (gate.py:1057 `convert_var_to_hs`, :1135 `convert_hs_to_var`, :498/:529 stacked forms) -/

def hsOfVar [Zero K] [One K] (dim : Nat) (var : List K) (flag : Bool) : Option (List (List K)) :=
  if dim = 0 then none
  else if flag then do
    let r ← reshape2 (dim ^ 2 - 1) (dim ^ 2) var
    some (e0 1 (dim ^ 2) :: r)            -- np.insert(reshaped, 0, np.eye(1, dim**2), axis=0)
  else reshape2 (dim ^ 2) (dim ^ 2) var

/-- `np.delete(hs, 0, axis=0).flatten() if flag else hs.flatten()` -/
def varOfHs (hs : List (List K)) (flag : Bool) : Option (List K) :=
  if flag then (match hs with | [] => none | _ :: t => some t.flatten) else some hs.flatten

def gateStackedOfVar [Zero K] [One K] (dim : Nat) (var : List K) (flag : Bool) : Option (List K) :=
  if dim = 0 then none
  else if flag then some (e0 1 (dim ^ 2) ++ var) else some var

/-- `np.delete(stacked, np.s_[: dim**2]) if flag else stacked` -/
def gateVarOfStacked (dim : Nat) (st : List K) (flag : Bool) : List K :=
  if flag then st.drop (dim ^ 2) else st

/-! ## MProcess (mprocess.py:1041 `convert_var_to_hss`, :1009 `convert_hss_to_var`, :835/:880 stacked forms) -/

/-- the loop `for outcome in range(cnt): sum_first_row += vector[hs_size*outcome : hs_size*outcome + dim**2]` -/
def firstRowSum [Add K] [Zero K] (dim cnt : Nat) (v : List K) : List K :=
  (List.range cnt).foldl (fun acc o => vadd acc ((v.drop (hsSize dim * o)).take (dim ^ 2)))
    (List.replicate (dim ^ 2) 0)

/-- implied first row of the last HS: `one − sum_first_row` -/
def mpLast [Add K] [Sub K] [Zero K] [One K] (dim cnt : Nat) (v : List K) : List K :=
  vsub (e0 1 (dim ^ 2)) (firstRowSum dim cnt v)

def mpStackedOfVar [Add K] [Sub K] [Zero K] [One K] (dim : Nat) (var : List K) (flag : Bool) :
    Option (List K) :=
  if dim = 0 then none
  else if flag then
    let m := var.length / hsSize dim + 1
    let p := hsSize dim * (m - 1)
    some (var.take p ++ mpLast dim (m - 1) var ++ var.drop p)   -- np.insert(vector, p, first_row_of_last_hs)
  else some var

def hssOfVar [Add K] [Sub K] [Zero K] [One K] (dim : Nat) (var : List K) (flag : Bool) :
    Option (List (List K)) :=
  if dim = 0 then none
  else if flag then do
    let m := var.length / hsSize dim + 1
    let st ← mpStackedOfVar dim var true
    reshape2 m (hsSize dim) st
  else reshape2 (var.length / hsSize dim) (hsSize dim) var

/-- flag: every HS flattened, the last one without its first row, `np.hstack`; else `np.reshape(hss, -1)`.
Each element of `hss` is the row-major flattening of a `d² × d²` array. -/
def varOfHss (dim : Nat) (hss : List (List K)) (flag : Bool) : Option (List K) :=
  if flag then
    match hss.getLast? with
    | none => none                         -- np.hstack([]) : ValueError
    | some l => some (hss.dropLast.flatten ++ l.drop (dim ^ 2))
  else some hss.flatten

/-- stacked → var. For a stacked vector shorter than one HS (`num_outcomes = 0`) the Python slice bounds are negative,
`np.s_[-H : -H + d²]`; numpy clips them, so the first `len + d² − H` entries are deleted (nothing if that is ≤ 0) and no error is
raised. `dim = 0` (ZeroDivisionError) is `none`. -/
def mpVarOfStacked (dim : Nat) (st : List K) (flag : Bool) : Option (List K) :=
  if flag then
    if dim = 0 then none
    else
      let m := st.length / hsSize dim
      if m = 0 then some (st.drop (st.length + dim ^ 2 - hsSize dim))
      else
        let p := hsSize dim * (m - 1)
        some (st.take p ++ st.drop (p + dim ^ 2))           -- np.delete(st, np.s_[p : p + dim**2])
  else some st

/-! ## `generate_from_var` (qoperation.py:604, mprocess.py:526): `self.flag if requested is None else requested` -/

/-- the parametrisation flag used by `generate_from_var(var, on_para_eq_constraint=requested)` on a template object -/
def resolveFlag (template : Bool) (requested : Option Bool) : Bool :=
  QGen.C03.generate_from_var_flag template requested

/-- the same for `MProcess.generate_from_var` (its own override) -/
def resolveFlagMp (template : Bool) (requested : Option Bool) : Bool :=
  QGen.C03.generate_from_var_flag_mprocess template requested

/-! ## gradients: `gradient[index] = 1` on zeros (IndexError when out of range; the variable index is ≥ 0) -/

def natOf? (i : Int) (bound : Nat) : Option Nat :=
  if 0 ≤ i ∧ i < (bound : Int) then some i.toNat else none

def oneHot [Zero K] [One K] (n pos : Nat) : List K :=
  (List.range n).map fun j => if j = pos then 1 else 0

/-- flat gradient (stacked-vector layout) of `calc_gradient_from_state` -/
def gradState [Zero K] [One K] (dim : Nat) (i : Nat) (flag : Bool) : Option (List K) := do
  let p ← natOf? (QGen.C03.convert_var_index_to_state_index i flag) (dim ^ 2)
  some (oneHot (dim ^ 2) p)

def gradPovm [Zero K] [One K] (dim m : Nat) (i : Nat) (flag : Bool) : Option (List K) := do
  let ix := QGen.C03.convert_var_index_to_povm_index dim m (dim ^ 2 : Nat) i flag
  let k ← natOf? ix.1 m
  let j ← natOf? ix.2 (dim ^ 2)
  some (oneHot (m * dim ^ 2) (k * dim ^ 2 + j))

def gradGate [Zero K] [One K] (dim : Nat) (i : Nat) (flag : Bool) : Option (List K) := do
  let ix := QGen.C03.convert_var_index_to_gate_index dim i flag
  let r ← natOf? ix.1 (dim ^ 2)
  let c ← natOf? ix.2 (dim ^ 2)
  some (oneHot (hsSize dim) (r * dim ^ 2 + c))

def gradMp [Zero K] [One K] (dim m : Nat) (i : Nat) (flag : Bool) : Option (List K) := do
  let ix := QGen.C03.convert_var_index_to_mprocess_index dim m (dim ^ 2 : Nat) i flag
  let k ← natOf? ix.1 m
  let r ← natOf? ix.2.1 (dim ^ 2)
  let c ← natOf? ix.2.2 (dim ^ 2)
  some (oneHot (m * hsSize dim) (k * hsSize dim + r * dim ^ 2 + c))

/-! ## SetQOperations (qoperations.py:293-400): prefix-sum layout, order state, gate, povm, mprocess -/

structure Sizes where
  state : List Nat
  gate : List Nat
  povm : List Nat
  mprocess : List Nat

def nsum (l : List Nat) : Nat := l.foldr (· + ·) 0

/-- modes: 0 state, 1 gate, 2 povm, 3 mprocess -/
def Sizes.ofMode (S : Sizes) : Nat → Option (List Nat)
  | 0 => some S.state | 1 => some S.gate | 2 => some S.povm | 3 => some S.mprocess | _ => none

/-- `_get_operation_mode_to_total_index_map` -/
def Sizes.first (S : Sizes) : Nat → Nat
  | 0 => 0
  | 1 => nsum S.state
  | 2 => nsum S.state + nsum S.gate
  | _ => nsum S.state + nsum S.gate + nsum S.povm

def Sizes.total (S : Sizes) : Nat := nsum S.state + nsum S.gate + nsum S.povm + nsum S.mprocess

/-- `_get_operation_item_var_first_index`: `for i in range(index): += size(i)` — IndexError when `index > count` -/
def itemFirst (sizes : List Nat) (k : Nat) : Option Nat :=
  if k ≤ sizes.length then some (nsum (sizes.take k)) else none

/-- `index_var_total_from_local_info` (unsupported mode: ValueError) -/
def totalFromLocal (S : Sizes) (mode k j : Nat) : Option Nat := do
  let sizes ← S.ofMode mode
  let f ← itemFirst sizes k
  some (S.first mode + f + j)

/-- `_get_mode_from_index_var_total` (IndexError when out of range) -/
def modeOfTotal (S : Sizes) (t : Nat) : Option Nat :=
  if t < S.first 1 then some 0
  else if S.first 1 ≤ t ∧ t < S.first 2 then some 1
  else if S.first 2 ≤ t ∧ t < S.first 3 then some 2
  else if S.first 3 ≤ t ∧ t < S.total then some 3
  else none

/-- the loop of `local_info_from_index_var_total`: the item `i` with `first ≤ mid < first + size i` -/
def locate : List Nat → Nat → Nat → Option (Nat × Nat)
  | [], _, _ => none
  | s :: r, i, mid => if mid < s then some (i, mid) else locate r (i + 1) (mid - s)

/-- `local_info_from_index_var_total` → (mode, index_operations, index_var_local) -/
def localFromTotal (S : Sizes) (t : Nat) : Option (Nat × Nat × Nat) := do
  let mode ← modeOfTotal S t
  let sizes ← S.ofMode mode
  let (k, j) ← locate sizes 0 (t - S.first mode)
  some (mode, k, j)

/-- the slices `var_total[start : start + len(to_var())]` of `set_qoperations_from_var_total`
(ValueError when the total length is wrong) -/
def splitBy : List Nat → List K → List (List K)
  | [], _ => []
  | s :: r, v => v.take s :: splitBy r (v.drop s)

def setFromVarTotal (S : Sizes) (v : List K) : Option (List (List K)) :=
  if v.length = S.total then some (splitBy (S.state ++ S.gate ++ S.povm ++ S.mprocess) v) else none

/-! ## driver -/

def showOL (r : Option (List Rat)) : String :=
  match r with
  | none => "err"
  | some l => s!"ok {showList showRat l}"

def showOLL (r : Option (List (List Rat))) : String :=
  match r with
  | none => "err"
  | some ll => s!"ok {ll.length} {showList showRat ll.flatten}"

def parseBool? (s : String) : Option Bool :=
  if s = "1" then some true else if s = "0" then some false else none

open QGen.C03 in
def handle (args : List String) : Option String :=
  match args with
  -- generated index maps
  | ["idx_s_v2o", f, i] => do
      let f ← parseBool? f; let i ← parseInt? i
      some s!"{convert_var_index_to_state_index i f}"
  | ["idx_s_o2v", f, i] => do
      let f ← parseBool? f; let i ← parseInt? i
      some s!"{convert_state_index_to_var_index i f}"
  | ["idx_p_v2o", f, dim, m, size, i] => do
      let f ← parseBool? f; let dim ← parseInt? dim; let m ← parseInt? m; let size ← parseInt? size
      let i ← parseInt? i
      let r := convert_var_index_to_povm_index dim m size i f
      some s!"{r.1},{r.2}"
  | ["idx_p_o2v", f, dim, m, size, a, b] => do
      let f ← parseBool? f; let dim ← parseInt? dim; let m ← parseInt? m; let size ← parseInt? size
      let a ← parseInt? a; let b ← parseInt? b
      some s!"{convert_povm_index_to_var_index dim m size (a, b) f}"
  | ["idx_g_v2o", f, dim, i] => do
      let f ← parseBool? f; let dim ← parseInt? dim; let i ← parseInt? i
      let r := convert_var_index_to_gate_index dim i f
      some s!"{r.1},{r.2}"
  | ["idx_g_o2v", f, dim, a, b] => do
      let f ← parseBool? f; let dim ← parseInt? dim; let a ← parseInt? a; let b ← parseInt? b
      some s!"{convert_gate_index_to_var_index dim (a, b) f}"
  | ["idx_m_v2o", f, dim, m, size, i] => do
      let f ← parseBool? f; let dim ← parseInt? dim; let m ← parseInt? m; let size ← parseInt? size
      let i ← parseInt? i
      let r := convert_var_index_to_mprocess_index dim m size i f
      some s!"{r.1},{r.2.1},{r.2.2}"
  | ["idx_m_o2v", f, dim, m, size, a, b, c] => do
      let f ← parseBool? f; let dim ← parseInt? dim; let m ← parseInt? m; let size ← parseInt? size
      let a ← parseInt? a; let b ← parseInt? b; let c ← parseInt? c
      some s!"{convert_mprocess_index_to_var_index dim (a, b, c) m size f}"
  | ["numvars", ty, f, dim, m] => do
      let f ← parseBool? f; let dim ← parseInt? dim; let m ← parseInt? m
      match ty with
      | "state" => some s!"{num_variables_qst dim f}"
      | "povm" => some s!"{num_variables_povmt dim m f}"
      | "gate" => some s!"{num_variables_qpt dim f}"
      | "mprocess" => some s!"{num_variables_qmpt dim m f}"
      | _ => none
  | ["gen_flag", ty, t, r] => do
      let t ← parseBool? t
      let r ← if r = "n" then some none else (parseBool? r).map some
      some (if (if ty = "mprocess" then resolveFlagMp t r else resolveFlag t r) then "1" else "0")
  -- state
  | ["s_v2o", f, s, var] => do
      let f ← parseBool? f; let s ← parseRat? s; let var ← parseList? parseRat? var
      some (showOL (some (vecOfVar s var f)))
  | ["s_o2v", f, vec] => do
      let f ← parseBool? f; let vec ← parseList? parseRat? vec
      some (showOL (varOfVec vec f))
  -- povm
  | ["p_v2o", f, dim, sq, var] => do
      let f ← parseBool? f; let dim ← parseNat? dim; let sq ← parseRat? sq; let var ← parseList? parseRat? var
      some (showOLL (vecsOfVar dim sq var f))
  | ["p_o2v", f, k, n, flat] => do
      let f ← parseBool? f; let k ← parseNat? k; let n ← parseNat? n; let flat ← parseList? parseRat? flat
      some (showOL (varOfVecs (rows n k flat) f))
  | ["p_v2s", f, dim, sq, var] => do
      let f ← parseBool? f; let dim ← parseNat? dim; let sq ← parseRat? sq; let var ← parseList? parseRat? var
      some (showOL (povmStackedOfVar dim sq var f))
  | ["p_s2v", f, dim, sq, st] => do
      let f ← parseBool? f; let dim ← parseNat? dim; let sq ← parseRat? sq; let st ← parseList? parseRat? st
      some (showOL (povmVarOfStacked dim sq st f))
  -- gate
  | ["g_v2o", f, dim, var] => do
      let f ← parseBool? f; let dim ← parseNat? dim; let var ← parseList? parseRat? var
      some (showOLL (hsOfVar dim var f))
  | ["g_o2v", f, k, n, flat] => do
      let f ← parseBool? f; let k ← parseNat? k; let n ← parseNat? n; let flat ← parseList? parseRat? flat
      some (showOL (varOfHs (rows n k flat) f))
  | ["g_v2s", f, dim, var] => do
      let f ← parseBool? f; let dim ← parseNat? dim; let var ← parseList? parseRat? var
      some (showOL (gateStackedOfVar dim var f))
  | ["g_s2v", f, dim, st] => do
      let f ← parseBool? f; let dim ← parseNat? dim; let st ← parseList? parseRat? st
      some (showOL (some (gateVarOfStacked dim st f)))
  -- mprocess
  | ["m_v2o", f, dim, var] => do
      let f ← parseBool? f; let dim ← parseNat? dim; let var ← parseList? parseRat? var
      some (showOLL (hssOfVar dim var f))
  | ["m_o2v", f, dim, k, n, flat] => do
      let f ← parseBool? f; let dim ← parseNat? dim; let k ← parseNat? k; let n ← parseNat? n
      let flat ← parseList? parseRat? flat
      some (showOL (varOfHss dim (rows n k flat) f))
  | ["m_v2s", f, dim, var] => do
      let f ← parseBool? f; let dim ← parseNat? dim; let var ← parseList? parseRat? var
      some (showOL (mpStackedOfVar dim var f))
  | ["m_s2v", f, dim, st] => do
      let f ← parseBool? f; let dim ← parseNat? dim; let st ← parseList? parseRat? st
      some (showOL (mpVarOfStacked dim st f))
  -- gradients
  | ["grad", ty, f, dim, m, i] => do
      let f ← parseBool? f; let dim ← parseNat? dim; let m ← parseNat? m; let i ← parseNat? i
      match ty with
      | "state" => some (showOL (gradState dim i f))
      | "povm" => some (showOL (gradPovm dim m i f))
      | "gate" => some (showOL (gradGate dim i f))
      | "mprocess" => some (showOL (gradMp dim m i f))
      | _ => none
  -- SetQOperations
  | ["tot_l2t", ss, sg, sp, sm, mode, k, j] => do
      let ss ← parseList? parseNat? ss; let sg ← parseList? parseNat? sg
      let sp ← parseList? parseNat? sp; let sm ← parseList? parseNat? sm
      let mode ← parseNat? mode; let k ← parseNat? k; let j ← parseNat? j
      match totalFromLocal ⟨ss, sg, sp, sm⟩ mode k j with
      | some t => some s!"ok {t}"
      | none => some "err"
  | ["tot_t2l", ss, sg, sp, sm, t] => do
      let ss ← parseList? parseNat? ss; let sg ← parseList? parseNat? sg
      let sp ← parseList? parseNat? sp; let sm ← parseList? parseNat? sm
      let t ← parseNat? t
      match localFromTotal ⟨ss, sg, sp, sm⟩ t with
      | some (mode, k, j) => some s!"ok {mode},{k},{j}"
      | none => some "err"
  | ["tot_split", ss, sg, sp, sm, v] => do
      let ss ← parseList? parseNat? ss; let sg ← parseList? parseNat? sg
      let sp ← parseList? parseNat? sp; let sm ← parseList? parseNat? sm
      let v ← parseList? parseRat? v
      match setFromVarTotal ⟨ss, sg, sp, sm⟩ v with
      | some bl => some s!"ok {"|".intercalate (bl.map (showList showRat))}"
      | none => some "err"
  | _ => none

end QM.C03
