import QModel.Core
/-! C03 — model (not built yet) -/
namespace QM.C03
def handle (_args : List String) : Option String := none
end QM.C03
