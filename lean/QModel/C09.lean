import QModel.Core
/-! C09 — model (not built yet) -/
namespace QM.C09
def handle (_args : List String) : Option String := none
end QM.C09
