import QModel.Core
import QModel.C08
/-!
# C09 — linear estimation (model of quara/protocol/qtomography/standard/linear_estimator.py,
`StandardQTomographyEstimationResult.estimated_var(_sequence)`, `is_fullrank_matA`)

`LinearEstimator.calc_estimate_sequence` as it is coded:

```
if not qtomography.is_fullrank_matA(): raise Exception      -- size == rank, size = min(matA.shape)
A = calc_matA(); b = calc_vecB()
A_ddag = np.linalg.inv(A.T @ A) @ A.T
for empi_dists in empi_dists_sequence:
    f = np.concatenate([e[1] for e in empi_dists])           -- counts e[0] are not read
    v = A_ddag @ (f - b)
```

The two numpy kernels are parameters of the model: `rank` is the value of `np.linalg.matrix_rank(A)`,
`G` is the value of `np.linalg.inv(A.T @ A)`; their contracts are hypotheses of the theorems
(`G · (AᵀA) = 1`).  Everything else is executed exactly.  `np.concatenate` joins the distributions whatever
their lengths, so schedules with different outcome counts are fine (before /repo commit 3acec41 the code used
`np.vstack(...).flatten()`, which raised for them — finding D8b, fixed).
-/
namespace QM.C09

inductive Err
  | notFullRank   -- `raise Exception` at the guard
  | emptyData     -- np.concatenate([]) : ValueError (need at least one array)
  | shape         -- `f - b` : operands could not be broadcast together
  | index         -- `_estimated_var_sequence[0]` on an empty sequence : IndexError
  | singular      -- `np.linalg.inv(A.T @ A)` raised LinAlgError (exactly singular matrix)
deriving Repr, DecidableEq

def Err.toString : Err → String
  | .notFullRank => "notFullRank" | .emptyData => "emptyData"
  | .shape => "shape" | .index => "index" | .singular => "singular"

variable {K : Type} {m n : Nat}

/-- `is_fullrank_matA`: `size == rank` with `size = min(matA.shape)`; `rank` is numpy's `matrix_rank`. -/
def isFullRank (m n rank : Nat) : Bool := min m n == rank

/-- `A_ddag = np.linalg.inv(A.T @ A) @ A.T`, `G` being the value numpy returned for the inverse. -/
def aDdag [Add K] [Mul K] [Zero K] (G : Mat K n n) (A : Mat K m n) : Mat K n m :=
  G.mul A.transpose

/-- `np.concatenate(arrays)` for 1-D arrays. -/
def concatArrays (arrs : List (List K)) : Except Err (List K) :=
  match arrs with
  | [] => .error .emptyData
  | p :: rest => .ok (p :: rest).flatten

/-- the operand `f` of `f - b` (`b` has length `m`): same length, or a length-1 array (numpy broadcasts it). -/
def toDataVec (m : Nat) (f : List K) : Except Err (Vec K m) :=
  if h : f.length = m then .ok ⟨f.toArray, by simp [h]⟩
  else match f with
    | [x] => .ok (Vec.ofFn fun _ => x)
    | _ => .error .shape

/-- `v = A_ddag @ (f - b)` -/
def estOne [Add K] [Mul K] [Sub K] [Zero K] (Ad : Mat K n m) (b f : Vec K m) : Vec K n :=
  Ad.mulVec (f.sub b)

/-- loop body: one dataset `[(count, dist), …]` -/
def estData [Add K] [Mul K] [Sub K] [Zero K] (Ad : Mat K n m) (b : Vec K m)
    (ds : List (Nat × List K)) : Except Err (Vec K n) := do
  let flat ← concatArrays (ds.map (·.2))
  let f ← toDataVec m flat
  pure (estOne Ad b f)

/-- `calc_estimate_sequence(...).estimated_var_sequence` -/
def estSeq [Add K] [Mul K] [Sub K] [Zero K] (rank : Nat) (G : Mat K n n) (A : Mat K m n) (b : Vec K m)
    (dss : List (List (Nat × List K))) : Except Err (List (Vec K n)) :=
  if !isFullRank m n rank then .error .notFullRank
  else dss.mapM (estData (aDdag G A) b)

/-- `calc_estimate_sequence` with numpy's inverse as an outcome: `none` = `np.linalg.inv` raised `LinAlgError`.
The inverse is computed once, after the guard and BEFORE the loop, so a singular `AᵀA` raises whatever the data
(even for an empty sequence). -/
def estSeqInv [Add K] [Mul K] [Sub K] [Zero K] (rank : Nat) (G? : Option (Mat K n n)) (A : Mat K m n)
    (b : Vec K m) (dss : List (List (Nat × List K))) : Except Err (List (Vec K n)) :=
  if !isFullRank m n rank then .error .notFullRank
  else match G? with
    | none => .error .singular
    | some G => dss.mapM (estData (aDdag G A) b)

/-- `G·(AᵀA) − 1` and `(AᵀA)·G − 1`: how far numpy's inverse is from the exact contract -/
def invResidualLeft [Add K] [Mul K] [Sub K] [Zero K] [One K] (G : Mat K n n) (A : Mat K m n) : Mat K n n :=
  (G.mul (A.transpose.mul A)).sub Mat.one
def invResidualRight [Add K] [Mul K] [Sub K] [Zero K] [One K] (G : Mat K n n) (A : Mat K m n) : Mat K n n :=
  ((A.transpose.mul A).mul G).sub Mat.one

/-- `invCert G A δ`: every entry of both residuals lies in `[-δ, δ]` (evaluated exactly) -/
def invCert [Add K] [Mul K] [Sub K] [Neg K] [Zero K] [One K] [LE K] [DecidableLE K]
    (G : Mat K n n) (A : Mat K m n) (δ : K) : Bool :=
  let L := invResidualLeft G A
  let R := invResidualRight G A
  (List.finRange n).all fun i => (List.finRange n).all fun j =>
    decide (-δ ≤ L.get i j) && decide (L.get i j ≤ δ) && decide (-δ ≤ R.get i j) && decide (R.get i j ≤ δ)

/-- `calc_estimate(...).estimated_var` = `calc_estimate_sequence(qt, [empi_dists]).estimated_var_sequence[0]` -/
def estimate [Add K] [Mul K] [Sub K] [Zero K] (rank : Nat) (G : Mat K n n) (A : Mat K m n) (b : Vec K m)
    (ds : List (Nat × List K)) : Except Err (Vec K n) := do
  let vs ← estSeq rank G A b [ds]
  match vs with
  | v :: _ => pure v
  | [] => .error .index

/-! ## `estimated_qoperation(_sequence)`: the template's `generate_from_var` applied to the estimates -/

/-- kind of the estimated object (`qtomography._template_qoperation`) -/
inductive Kind
  | state | povm | gate | mprocess
deriving Repr, DecidableEq

/-- the object built from a variable vector, as rows (`to_stacked_vector` = concatenation of the rows):
`convert_var_to_vec / _vecs / _hs / _hss` as modelled in C08; `r` = `np.sqrt(dim)`, `d2` = `dim²`, `mOut` = number of
outcomes of the estimated POVM / measurement process -/
def objOf [Add K] [Sub K] [Div K] [Zero K] [One K] (kind : Kind) (flag : Bool) (r : K) (d2 mOut : Nat)
    (v : List K) : List (List K) :=
  match kind with
  | .state => [QM.C08.stateOf flag r v]
  | .povm => QM.C08.povmOf flag r d2 mOut v
  | .gate => QM.C08.gateOf flag d2 v
  | .mprocess => (QM.C08.mprocessOf flag d2 mOut v).flatten

/-- `estimated_qoperation_sequence`: one object per estimate, in order -/
def estimatedQoperationSeq [Add K] [Sub K] [Div K] [Zero K] [One K] (kind : Kind) (flag : Bool) (r : K)
    (d2 mOut : Nat) (vs : List (Vec K n)) : List (List (List K)) :=
  vs.map fun v => objOf kind flag r d2 mOut v.toList

/-- `estimated_qoperation`: generated from `_estimated_var_sequence[0]` -/
def estimatedQoperation [Add K] [Sub K] [Div K] [Zero K] [One K] (kind : Kind) (flag : Bool) (r : K)
    (d2 mOut : Nat) (vs : List (Vec K n)) : Except Err (List (List K)) :=
  match vs with
  | v :: _ => .ok (objOf kind flag r d2 mOut v.toList)
  | [] => .error .index

/-- same value with the product associated to the right (`G · (Aᵀ · (f − b))`): what the driver runs for
large shapes; equal to `estOne (aDdag G A) b f` by `QM.C09.estOne_fast` (QProps). -/
def estOneFast [Add K] [Mul K] [Sub K] [Zero K] (G : Mat K n n) (A : Mat K m n) (b f : Vec K m) : Vec K n :=
  G.mulVec (A.transpose.mulVec (f.sub b))

/-! ## verified checker for an alleged least-squares solution -/

/-- prediction residual `A v + b − f` -/
def residual [Add K] [Mul K] [Sub K] [Zero K] (A : Mat K m n) (b f : Vec K m) (v : Vec K n) : Vec K m :=
  ((A.mulVec v).add b).sub f

/-- residual of the normal equations `Aᵀ (A v + b − f)` -/
def normalResidual [Add K] [Mul K] [Sub K] [Zero K] (A : Mat K m n) (b f : Vec K m) (v : Vec K n) :
    Vec K n :=
  A.transpose.mulVec (residual A b f v)

/-- `lsqCert A b f v tol`: every component of `Aᵀ(Av+b−f)` lies in `[-tol, tol]` (evaluated exactly). -/
def lsqCert [Add K] [Mul K] [Sub K] [Neg K] [Zero K] [LE K] [DecidableLE K]
    (A : Mat K m n) (b f : Vec K m) (v : Vec K n) (tol : K) : Bool :=
  let g := normalResidual A b f v
  (List.finRange n).all fun i => decide (-tol ≤ g.get i) && decide (g.get i ≤ tol)

/-! ## exact solution of the normal equations over ℚ (Gauss–Jordan, validated by substitution) -/

/-- `row − c • p` -/
def rowSubMul (row p : List Rat) (c : Rat) : List Rat := List.zipWith (fun a x => a - c * x) row p

/-- eliminate column `c` from `row` with the normalised pivot row `p` -/
def elimRow (c : Nat) (p row : List Rat) : Option (List Rat) := do
  let x ← row[c]?
  pure (if x = 0 then row else rowSubMul row p x)

/-- Gauss–Jordan on augmented rows; `done` holds the rows already pivoted (row i has its pivot in
column i), `rest` the others. `fuel` = number of columns still to treat. -/
def gaussLoop : Nat → Nat → List (List Rat) → List (List Rat) → Option (List (List Rat))
  | 0, _, done, _ => some done
  | fuel + 1, c, done, rest => do
    let idx ← rest.findIdx? (fun r => match (r[c]? : Option Rat) with | some x => decide (x ≠ 0) | none => false)
    let r ← rest[idx]?
    let piv ← r[c]?
    let p := r.map (· / piv)
    let rest' ← (rest.eraseIdx idx).mapM (elimRow c p)
    let done' ← done.mapM (elimRow c p)
    gaussLoop fuel (c + 1) (done' ++ [p]) rest'

/-- solve `M x = y` exactly; `none` when a pivot is missing (singular) **or** when the candidate fails the
final substitution check — so a returned `x` always satisfies `M x = y` (`solveChecked_sound`). -/
def solveChecked (M : Mat Rat n n) (y : Vec Rat n) : Option (Vec Rat n) := do
  let rows := (List.finRange n).map fun i => (M[i]).toList ++ [y.get i]
  let red ← gaussLoop n 0 [] rows
  let xs ← red.mapM (fun r => r[n]?)
  if h : xs.length = n then
    let x : Vec Rat n := ⟨xs.toArray, by simp [h]⟩
    if M.mulVec x = y then some x else none
  else none

/-- exact least-squares solution of `A v + b ≈ f` through the normal equations `(AᵀA) v = Aᵀ(f − b)` -/
def lsqExact (A : Mat Rat m n) (b f : Vec Rat m) : Option (Vec Rat n) :=
  solveChecked (A.transpose.mul A) (A.transpose.mulVec (f.sub b))

/-! ## driver -/

def parseVec? (n : Nat) (s : String) : Option (Vec Rat n) := do
  let l ← parseList? parseRat? s
  if h : l.length = n then some ⟨l.toArray, by simp [h]⟩ else none

/-- row-major `m*n` rationals -/
def parseMat? (m n : Nat) (s : String) : Option (Mat Rat m n) := do
  let l ← parseList? parseRat? s
  if l.length = m * n then
    let a := l.toArray
    let rows := (List.finRange m).mapM fun i => parseRow a i.val
    match rows with
    | some rs => if h : rs.length = m then some ⟨rs.toArray, by simp [h]⟩ else none
    | none => none
  else none
where
  parseRow (a : Array Rat) (i : Nat) : Option (Vec Rat n) :=
    let r := (a.extract (i * n) (i * n + n))
    if h : r.size = n then some ⟨r, h⟩ else none

def showVec (v : Vec Rat n) : String := showList showRat v.toList

/-- dataset text: distributions separated by `;`, each `count:p0,p1,…` -/
def parseDataset? (s : String) : Option (List (Nat × List Rat)) :=
  if s = "-" then some [] else
  (s.splitOn ";").mapM fun t =>
    match t.splitOn ":" with
    | [c, ps] => do
        let c ← parseNat? c
        let ps ← parseList? parseRat? ps
        some (c, ps)
    | _ => none

/-- sequence text: datasets separated by `|` -/
def parseSeq? (s : String) : Option (List (List (Nat × List Rat))) :=
  if s = "_" then some [] else (s.splitOn "|").mapM parseDataset?

def showSeq (r : Except Err (List (Vec Rat n))) : String :=
  match r with
  | .error e => s!"err {e.toString}"
  | .ok vs => "ok " ++ (if vs.isEmpty then "_" else "|".intercalate (vs.map showVec))

/-- several vectors of length `n` separated by `;` -/
def parseVecs? (n : Nat) (s : String) : Option (List (Vec Rat n)) :=
  if s = "_" then some [] else (s.splitOn ";").mapM (parseVec? n)

def showVecs (vs : List (Vec Rat n)) : String :=
  if vs.isEmpty then "_" else "|".intercalate (vs.map showVec)

def handle (args : List String) : Option String :=
  match args with
  | ["fullrank", m, n, rank] => do
      let m ← parseNat? m; let n ← parseNat? n; let rank ← parseNat? rank
      some (toString (isFullRank m n rank))
  -- the coded sequence estimate: estseq m n rank G A b seq
  | ["estseq", m, n, rank, G, A, b, seq] => do
      let m ← parseNat? m; let n ← parseNat? n; let rank ← parseNat? rank
      let G ← parseMat? n n G; let A ← parseMat? m n A; let b ← parseVec? m b
      let seq ← parseSeq? seq
      some (showSeq (estSeq rank G A b seq))
  | ["est", m, n, rank, G, A, b, ds] => do
      let m ← parseNat? m; let n ← parseNat? n; let rank ← parseNat? rank
      let G ← parseMat? n n G; let A ← parseMat? m n A; let b ← parseVec? m b
      let ds ← parseDataset? ds
      match estimate rank G A b ds with
      | .ok v => some s!"ok {showVec v}"
      | .error e => some s!"err {e.toString}"
  -- estobj kind flag r d2 mOut m n rank G A b seq → the objects of estimated_qoperation_sequence (stacked vectors)
  | ["estobj", kind, flag, r, d2, mOut, m, n, rank, G, A, b, seq] => do
      let kind ← (match kind with
        | "qst" => some Kind.state | "povmt" => some Kind.povm | "qpt" => some Kind.gate | "qmpt" => some Kind.mprocess
        | _ => none)
      let flag ← (if flag = "1" then some true else if flag = "0" then some false else none)
      let r ← parseRat? r; let d2 ← parseNat? d2; let mOut ← parseNat? mOut
      let m ← parseNat? m; let n ← parseNat? n; let rank ← parseNat? rank
      let G ← parseMat? n n G; let A ← parseMat? m n A; let b ← parseVec? m b
      let seq ← parseSeq? seq
      match estSeq rank G A b seq with
      | .error e => some s!"err {e.toString}"
      | .ok vs =>
        let objs := estimatedQoperationSeq kind flag r d2 mOut vs
        some ("ok " ++ (if objs.isEmpty then "_" else "|".intercalate (objs.map fun o => showList showRat o.flatten)))
  -- numpy's inverse raised LinAlgError: estseqnone m n rank A b seq
  | ["estseqnone", m, n, rank, A, b, seq] => do
      let m ← parseNat? m; let n ← parseNat? n; let rank ← parseNat? rank
      let A ← parseMat? m n A; let b ← parseVec? m b
      let seq ← parseSeq? seq
      some (showSeq (estSeqInv rank (none : Option (Mat Rat n n)) A b seq))
  -- verified checker on numpy's inverse: invcert m n G A delta
  | ["invcert", m, n, G, A, delta] => do
      let m ← parseNat? m; let n ← parseNat? n
      let G ← parseMat? n n G; let A ← parseMat? m n A; let delta ← parseRat? delta
      some (toString (invCert G A delta))
  -- right-associated product on flat data vectors (large shapes)
  | ["estfast", m, n, G, A, b, fs] => do
      let m ← parseNat? m; let n ← parseNat? n
      let G ← parseMat? n n G; let A ← parseMat? m n A; let b ← parseVec? m b
      let fs ← parseVecs? m fs
      some s!"ok {showVecs (fs.map (estOneFast G A b))}"
  -- verified checker on the implementation's outputs: cert m n A b tol fs vs
  | ["cert", m, n, A, b, tol, fs, vs] => do
      let m ← parseNat? m; let n ← parseNat? n
      let A ← parseMat? m n A; let b ← parseVec? m b
      let tol ← parseRat? tol
      let fs ← parseVecs? m fs; let vs ← parseVecs? n vs
      if fs.length ≠ vs.length then none
      else some (showList toString ((fs.zip vs).map fun (f, v) => lsqCert A b f v tol))
  | ["lsqexact", m, n, A, b, fs] => do
      let m ← parseNat? m; let n ← parseNat? n
      let A ← parseMat? m n A; let b ← parseVec? m b
      let fs ← parseVecs? m fs
      match fs.mapM (lsqExact A b) with
      | some vs => some s!"ok {showVecs vs}"
      | none => some "singular"
  | _ => none

end QM.C09
