import QModel.Core
/-! C15 — model (not built yet) -/
namespace QM.C15
def handle (_args : List String) : Option String := none
end QM.C15
