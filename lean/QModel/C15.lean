import QModel.Core
/-!
# C15 — Monte-Carlo simulations: seed plumbing, task scheduling, depolarising noise, physicality check

Model of
* `generate_empi_dists_and_calc_estimate` (standard_qtomography_simulation.py:809-869): the seed argument is converted
  **once**, before the repetition loop, by `to_stream` (utils/number_util.py:53-77: an `int` becomes a new
  `Generator(MT19937(seed))`, a `Generator` object is returned as it is, `None` is the global `np.random`), and that one
  stream is handed to every repetition;
* the flow (standard_qtomography_simulation_flow.py:116-316): `SeedSequence(seed).spawn(n)` children, one generator per
  repetition / per sample, `joblib.Parallel` at four levels — tasks executed in any order, grouped into batches that
  share the (mutable) loss / algorithm objects they were handed;
* `re_estimate` (standard_qtomography_simulation.py:736-768);
* `DepolarizedQOperationGenerationSetting` (depolarized_qoperation_generation_setting.py:35-61) with
  `get_depolarizing_channel` (gate.py:1879-1890);
* `StandardQTomographySimulationCheck.execute_physicality_violation_check`
  (standard_qtomography_simulation_check.py:186-262) and `is_physical_qobjects_all`, `is_eq_constraint_satisfied_all`,
  `is_ineq_constraint_satisfied_all` (data_analysis/physicality_violation_check.py).

The pseudo-random generator is abstract: `ofSeed` builds a generator state from a seed, `draw` produces one repetition's
empirical distributions and the advanced state.
-/
namespace QM.C15

/-! ## the repetition loop of the single-setting entry point -/

structure Prng (S G D : Type) where
  ofSeed : S → G        -- Generator(MT19937(seed))
  draw : G → D × G      -- qtomography.generate_empi_dists_sequence(true_object, num_data, stream)

/-- the `seed_or_generator` argument -/
inductive SeedArg (S G : Type)
  | int (s : S)         -- an integer seed
  | gen (g : G)         -- a Generator object (mutable: its state is threaded)
  | none                -- np.random (global state)

/-- one `_generate_empi_dists_and_calc_estimate(…, seed_or_generator)`: the data, the argument object afterwards, the
global numpy state afterwards -/
def rep {S G D : Type} (P : Prng S G D) (a : SeedArg S G) (glob : G) : D × SeedArg S G × G :=
  match a with
  | .int s => ((P.draw (P.ofSeed s)).1, .int s, glob)
  | .gen g => ((P.draw g).1, .gen (P.draw g).2, glob)
  | .none => ((P.draw glob).1, .none, (P.draw glob).2)

/-- `to_stream(seed_or_generator)` -/
def toStream {S G D : Type} (P : Prng S G D) : SeedArg S G → SeedArg S G
  | .int s => .gen (P.ofSeed s)
  | a => a

/-- `for _ in range(iteration)`: every repetition receives the same stream object -/
def loopS {S G D : Type} (P : Prng S G D) : Nat → SeedArg S G → G → List D × SeedArg S G × G
  | 0, a, glob => ([], a, glob)
  | n + 1, a, glob =>
      let r := rep P a glob
      let rest := loopS P n r.2.1 r.2.2
      (r.1 :: rest.1, rest.2.1, rest.2.2)

/-- `generate_empi_dists_and_calc_estimate(…, iteration=n, seed_or_generator=a)`: the data of the repetitions, the
caller's argument object afterwards (an integer is untouched: the stream made from it is local), the global state -/
def loop {S G D : Type} (P : Prng S G D) (n : Nat) (a : SeedArg S G) (glob : G) : List D × SeedArg S G × G :=
  let r := loopS P n (toStream P a) glob
  (r.1, (match a with | .int s => .int s | _ => r.2.1), r.2.2)

/-- the generator state the run actually starts from -/
def startOf {S G D : Type} (P : Prng S G D) (a : SeedArg S G) (glob : G) : G :=
  match a with
  | .int s => P.ofSeed s
  | .gen g => g
  | .none => glob

/-- the repetition loop as a function of the one fact about its shape that matters (read off the source by the
translator, `QGen.C15.loopPassesStream`): does every repetition receive the stream converted once before the loop, or the
raw argument, which each repetition then converts anew? -/
def loopWith {S G D : Type} (passesStream : Bool) (P : Prng S G D) (n : Nat) (a : SeedArg S G) (glob : G) :
    List D × SeedArg S G × G :=
  if passesStream then loop P n a glob else loopS P n a glob

/-- `execute_simulation(qtomography, setting, seed_or_generator)`: a missing seed is replaced by the setting's `seed_data`
(an integer), then the repetition loop runs -/
def execSim {S G D : Type} (P : Prng S G D) (seedData : S) (nRep : Nat) (a : Option (SeedArg S G)) (glob : G) :
    List D × G :=
  let r := loop P nRep (a.getD (.int seedData)) glob
  (r.1, r.2.2)

/-- state of a generator after `k` repetitions drew from it -/
def advance {S G D : Type} (P : Prng S G D) : Nat → G → G
  | 0, g => g
  | k + 1, g => advance P k (P.draw g).2

/-! ## the flow: spawned seed sequences, one generator per repetition -/

/-- `SeedSequence.spawn`: child `i` of a sequence -/
structure SeedTree (S : Type) where
  child : S → Nat → S

def spawn {S : Type} (T : SeedTree S) (s : S) (n : Nat) : List S := (List.range n).map (T.child s)

/-- `stream_datas = [Generator(MT19937(s)) for s in SeedSequence(seed_data).spawn(n_rep)]` and the data of every repetition -/
def flowData {S G D : Type} (P : Prng S G D) (T : SeedTree S) (seedData : S) (nRep : Nat) : List D :=
  (spawn T seedData nRep).map fun s => (P.draw (P.ofSeed s)).1

/-- samples: generators spawned from `seed_qoperation` create the noisy objects; every sample then draws its data from
`SeedSequence(seed_data)` — the same root for every sample -/
def flowSamples {S G D O : Type} (P : Prng S G D) (T : SeedTree S) (genObj : G → O) (dataOf : O → G → D × G)
    (seedQ seedData : S) (nSample nRep : Nat) : List (O × List D) :=
  (spawn T seedQ nSample).map fun sq =>
    let o := genObj (P.ofSeed sq)
    (o, (spawn T seedData nRep).map fun s => (dataOf o (P.ofSeed s)).1)

/-! ## parallel execution -/

/-- tasks run in the order `sched`; every result is stored under its task index -/
def execute {R : Type} (task : Nat → R) (sched : List Nat) : List (Nat × R) := sched.map fun i => (i, task i)

/-- joblib hands the results back in task order -/
def collect {R : Type} (n : Nat) (m : List (Nat × R)) : List (Option R) := (List.range n).map fun i => m.lookup i

/-- a batch of tasks that share the objects they were handed (no pickling between them: `n_jobs=1`, or one joblib
batch): the object state is threaded through the batch -/
def runBatch {R St : Type} (task : Nat → St → R × St) : St → List Nat → List (Nat × R)
  | _, [] => []
  | s, i :: r => (i, (task i s).1) :: runBatch task (task i s).2 r

/-- every batch starts from its own copy of the original object -/
def runBatches {R St : Type} (task : Nat → St → R × St) (s0 : St) (batches : List (List Nat)) : List (Nat × R) :=
  (batches.map (runBatch task s0)).flatten

/-! ## re-estimation from stored empirical distributions -/

/-- the estimates a run stores: the repetitions are estimated one after the other with the one loss / algorithm object of
the setting (state `St` threaded through the estimates), `est d s` = (estimate of data `d`, object state afterwards) -/
def storedEstimates {D E St : Type} (est : D → St → E × St) : St → List D → List E
  | _, [] => []
  | s, d :: ds => (est d s).1 :: storedEstimates est (est d s).2 ds

/-- `re_estimate(test_setting, result, i)`: the estimator applied to the stored data of repetition `i`, with the loss /
algorithm objects of the stored setting in the state `s` they are in when the call is made -/
def reEstimate {D E St : Type} (est : D → St → E × St) (s : St) (stored : List D) (i : Nat) : Option E :=
  (stored[i]?).map fun d => (est d s).1

/-- a toy seed tree for the executable checks -/
def toyTree : SeedTree Nat := ⟨fun s i => s * 31 + i + 1⟩

/-! ## depolarising noise -/
section depol
variable {K : Type} [Add K] [Mul K] [Sub K] [Zero K] [One K]

/-- diagonal of `get_depolarizing_channel(p)`: `[1, 1-p, …, 1-p]` -/
def depolDiag (n : Nat) (p : K) : List K := (List.range n).map fun i => if i = 0 then 1 else 1 - p

/-- `dp.hs @ vec` for the diagonal `hs` (state; the same for a POVM element `conj(e) @ dp.hs`) -/
def depolVec (p : K) (v : List K) : List K := (depolDiag v.length p).zipWith (· * ·) v

/-- `dp.hs @ hs` (gate, every element of a measurement process): row `i` scaled by the `i`-th diagonal entry -/
def depolHs (p : K) (hs : List (List K)) : List (List K) :=
  (depolDiag hs.length p).zipWith (fun d row => row.map (d * ·)) hs

/-- the stated mixture `(1-p)·v + p·v_mixed` with `v_mixed = (v₀, 0, …, 0)` -/
def mixVec (p : K) (v : List K) : List K :=
  v.zipIdx.map fun (x : K × Nat) => (1 - p) * x.1 + p * (if x.2 = 0 then x.1 else 0)
end depol

/-! ## physicality-violation check -/

/-- estimator classes the check distinguishes; for the loss-minimisation estimator the algorithm option's
`(on_algo_eq_constraint, on_algo_ineq_constraint)`, `none` when `algo_option` is `None` -/
inductive EstKind
  | projLinear
  | linear
  | lossMin (algoOpt : Option (Bool × Bool))
  | other
deriving DecidableEq, Repr

/-- verdicts of one stored estimate: `is_eq_constraint_satisfied(eq_eps(para))`, `is_ineq_constraint_satisfied(ineq_eps)` -/
structure Verdict where
  eqOK : Bool
  ineqOK : Bool
deriving DecidableEq, Repr

/-- documented thresholds: equality `atol` (1e-13) with the equality constraint parametrised away, `1e-5` otherwise;
inequality `1e-5` -/
def eqEps (para : Bool) : Rat := if para then mkRat 1 10000000000000 else mkRat 1 100000
def ineqEps : Rat := mkRat 1 100000

/-- `[result.estimated_qoperation_sequence[k].<test>() for result in estimation_results]` then `False not in …`;
`none` = IndexError (a result with too few estimates). `results[rep][num_data_index]`. -/
def rowsPass (f : Verdict → Bool) (k : Nat) : List (List Verdict) → Option Bool
  | [] => some true
  | r :: rs =>
      match r[k]?, rowsPass f k rs with
      | some v, some b => some (f v && b)
      | _, _ => none

/-- `for num_data_index in …` collecting the per-index verdicts, then `False not in all_check_results` -/
def allPassFrom (f : Verdict → Bool) (results : List (List Verdict)) : List Nat → Option Bool
  | [] => some true
  | k :: ks =>
      match rowsPass f k results, allPassFrom f results ks with
      | some a, some b => some (a && b)
      | _, _ => none

def allPass (f : Verdict → Bool) (nNum : Nat) (results : List (List Verdict)) : Option Bool :=
  allPassFrom f results (List.range nNum)

/-- `execute_physicality_violation_check`; `para` is `estimation_results[0].estimated_qoperation.on_para_eq_constraint` -/
def violationCheckCore (kind : EstKind) (para : Bool) (nNum : Nat) (results : List (List Verdict)) : Option Bool :=
  match kind with
  | .projLinear => allPass (fun v => v.eqOK && v.ineqOK) nNum results
  | .linear => if para then allPass (·.eqOK) nNum results else some true
  | .lossMin none => some true
  | .lossMin (some (onEq, onIneq)) => do
      let a ← if onEq then allPass (·.eqOK) nNum results else some true
      let b ← if onIneq then allPass (·.ineqOK) nNum results else some true
      some (a && b)
  | .other => some true

/-- does the check index `estimation_results[0]` for this estimator (to read `on_para_eq_constraint`)? — with no stored
result that is an IndexError -/
def indexesFirst (kind : EstKind) (nNum : Nat) : Bool :=
  match kind with
  | .projLinear => decide (0 < nNum)        -- inside the loop over sample sizes (`calc_unphysical_qobjects_n`)
  | .linear => true                          -- `para = estimation_results[0]…` before the branch
  | .lossMin (some (true, _)) => true        -- `is_eq_constraint_satisfied_all` reads it before its loop
  | _ => false

/-- `execute_physicality_violation_check`; `para` is `estimation_results[0].estimated_qoperation.on_para_eq_constraint` -/
def violationCheck (kind : EstKind) (para : Bool) (nNum : Nat) (results : List (List Verdict)) : Option Bool :=
  if results.isEmpty && indexesFirst kind nNum then none else violationCheckCore kind para nNum results

/-- which constraints the estimator was configured to enforce -/
def enforcesEq : EstKind → Bool → Bool
  | .projLinear, _ => true
  | .linear, para => para
  | .lossMin (some (onEq, _)), _ => onEq
  | _, _ => false

def enforcesIneq : EstKind → Bool
  | .projLinear => true
  | .lossMin (some (_, onIneq)) => onIneq
  | _ => false

/-! ## driver -/

/-- a toy generator for the executable checks: linear congruential state, one draw = the state itself -/
def lcg : Prng Nat Nat Nat := ⟨fun s => s % 1000003, fun g => (g, (g * 48271 + 11) % 1000003)⟩

def parseVerdict? (s : String) : Option Verdict :=
  match s.toList with
  | [a, b] => if (a = '0' ∨ a = '1') ∧ (b = '0' ∨ b = '1') then some ⟨a = '1', b = '1'⟩ else none
  | _ => none

def parseKind? (s : String) : Option EstKind :=
  match s with
  | "plin" => some .projLinear
  | "lin" => some .linear
  | "other" => some .other
  | "lossN" => some (.lossMin none)
  | "loss00" => some (.lossMin (some (false, false)))
  | "loss01" => some (.lossMin (some (false, true)))
  | "loss10" => some (.lossMin (some (true, false)))
  | "loss11" => some (.lossMin (some (true, true)))
  | _ => none

def showOB : Option Bool → String
  | some true => "true" | some false => "false" | none => "indexError"

def showSeedArgKind {S G : Type} : SeedArg S G → String
  | .int _ => "int" | .gen _ => "gen" | .none => "none"

def handle (args : List String) : Option String :=
  match args with
  | "check" :: kind :: para :: nNum :: rows => do
      let kind ← parseKind? kind
      let nNum ← nNum.toNat?
      let rows ← rows.mapM fun r => if r = "-" then some [] else (r.splitOn ",").mapM parseVerdict?
      some (showOB (violationCheck kind (para = "1") nNum rows))
  | ["depolvec", p, v] => do
      let p ← parseRat? p
      let v ← parseList? parseRat? v
      some (showList showRat (depolVec p v) ++ " " ++ showList showRat (mixVec p v))
  | ["depolhs", p, n, hs] => do
      let p ← parseRat? p
      let n ← n.toNat?
      let xs ← parseList? parseRat? hs
      if xs.length ≠ n * n then none else
      let m := (List.range n).map fun r => (xs.drop (r * n)).take n
      some (showList showRat (depolHs p m).flatten)
  | ["eps", para] => some (showRat (eqEps (para = "1")) ++ " " ++ showRat ineqEps)
  | ["loop", kind, seed, n] => do
      let seed ← seed.toNat?
      let n ← n.toNat?
      let a : SeedArg Nat Nat ← match kind with
        | "int" => some (.int seed) | "gen" => some (.gen (lcg.ofSeed seed)) | "none" => some .none | _ => none
      let r := loop lcg n a (lcg.ofSeed 7)
      some (showList toString r.1 ++ " " ++ toString r.2.2)
  | ["flow", seed, n] => do
      let seed ← seed.toNat?
      let n ← n.toNat?
      some (showList toString (flowData lcg toyTree seed n))
  | ["batches", n, bs] => do
      -- tasks `i ↦ (i + state, state + 1)` (a state-dependent task) run in the given batches
      let n ← n.toNat?
      let bs ← (bs.splitOn ";").mapM fun b => parseList? parseNat? b
      let m := runBatches (fun i (s : Nat) => (i + 100 * s, s + 1)) 0 bs
      some (showList (fun o => match o with | some x => toString x | none => "N") (collect n m))
  | _ => none

end QM.C15
