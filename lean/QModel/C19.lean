import QModel.Core
/-! C19 — model (not built yet) -/
namespace QM.C19
def handle (_args : List String) : Option String := none
end QM.C19
