import QModel.Core
/-!
# C19 — analytical error formulas (model of quara/utils/matrix_util.py:299-625, the analytical
part of quara/protocol/qtomography/standard/standard_qtomography.py:257-476,
standard_povmt.py:107-161 and the statistics helpers of quara/data_analysis/data_analysis.py)

The model mirrors the code as it is:
* `covMat`                = `calc_covariance_mat` / `calc_covariance_matrix_of_prob_dist`  (`(diag q − q qᵀ)/n`);
* `dsCheck`/`directSum`   = `calc_direct_sum`: every block must be square (`ValueError` otherwise), zero matrix
  of size Σ rows, blocks copied at the running index;
* `conjugate`             = `calc_conjugate` (`(x @ v) @ x.T`);
* `leftInv`               = `calc_left_inv` with `rank` and `pinv(AᵀA)` as parameters (numpy kernels);
* `replaceProbDist`, `validate`, `fisher`, `fisherTotal` = the functions of the same name, including
  `matrix_size = len(grad_prob_dists[0][0])` of `calc_fisher_matrix_total` (number of variables);
* `se`, `mseProbDists`    = `calc_se`, `calc_mse_prob_dists` (mean and *variance* with ddof = 1; the square
  root is taken by the harness);
* `mseLinearVar`, `mseLinearPovmQop`, `mseEmpi`, `fisherQt`, `crb`, `crbPovm` = the StandardQTomography
  methods with the tomography's `matA`, `vecB`, `A⁺`, `F⁻¹` handed in;
* the multinomial law is the finite distribution `expectN p n` (draw one sample, then `n` more),
  `expectJoint` its product over schedules.
-/
namespace QM.C19
open QM

/-! ## covariance, direct sum, conjugation -/
section alg
variable {K : Type}

/-- `calc_covariance_mat(q, n)`: `(np.diag(q) - qᵀq) / n`. -/
def covMat [Sub K] [Mul K] [Div K] [Zero K] {m : Nat} (q : Vec K m) (n : K) : Mat K m m :=
  Mat.ofFn fun i j => ((if i = j then q.get i else 0) - q.get i * q.get j) / n

/-- a square block together with its size -/
abbrev Block (K : Type) := (k : Nat) × Mat K k k

def dsSize : List (Block K) → Nat
  | [] => 0
  | b :: r => b.1 + dsSize r

/-- entry `(i,j)` of the direct sum: zeros, then every block copied at the running index
(`matrix[index:index+size, index:index+size] = diag; index += size`). -/
def dsEntry [Zero K] : List (Block K) → Nat → Nat → K
  | [], _, _ => 0
  | ⟨k, B⟩ :: r, i, j =>
    if h : i < k ∧ j < k then B.get ⟨i, h.1⟩ ⟨j, h.2⟩
    else if k ≤ i ∧ k ≤ j then dsEntry r (i - k) (j - k)
    else 0

/-- `calc_direct_sum` on square blocks. -/
def directSum [Zero K] (bs : List (Block K)) : Mat K (dsSize bs) (dsSize bs) :=
  Mat.ofFn fun i j => dsEntry bs i.val j.val

/-- a general 2-d array `rows × cols` as handed to `calc_direct_sum` -/
abbrev RBlock (K : Type) := (k : Nat) × (l : Nat) × Mat K k l

inductive Err
  | negative | sumNotOne | sizeMismatch | epsNonPos | broadcast | rank | weightNeg | empty
  | ragged | shape | nonSquare
deriving Repr, DecidableEq

def Err.toString : Err → String
  | .negative => "negative" | .sumNotOne => "sumNotOne" | .sizeMismatch => "sizeMismatch"
  | .epsNonPos => "epsNonPos" | .broadcast => "broadcast" | .rank => "rank"
  | .weightNeg => "weightNeg" | .empty => "empty" | .ragged => "ragged" | .shape => "shape"
  | .nonSquare => "nonSquare"

/-- the validation loop of `calc_direct_sum` on one 2-d block: `shape[0] != shape[1]` ⇒ `ValueError`. -/
def dsCheckOne : RBlock K → Except Err (Block K)
  | ⟨k, l, B⟩ =>
    if h : l = k then .ok ⟨k, h ▸ B⟩ else .error .nonSquare

def dsCheck (bs : List (RBlock K)) : Except Err (List (Block K)) := bs.mapM dsCheckOne

/-- `calc_conjugate(x, v) = x @ v @ x.T` -/
def conjugate [Add K] [Mul K] [Zero K] {k n : Nat} (X : Mat K k n) (V : Mat K n n) : Mat K k k :=
  (X.mul V).mul X.transpose

/-- `calc_left_inv(matrix)`: `rank = matrix_rank(matrix)` and `G = pinv(matrix.T @ matrix)` are the numpy
kernels' results; `ValueError` when `min(shape) ≠ rank`. -/
def leftInv [Add K] [Mul K] [Zero K] {m n : Nat} (A : Mat K m n) (rank : Nat) (G : Mat K n n) :
    Except Err (Mat K n m) :=
  if min m n ≠ rank then .error .rank else .ok (G.mul A.transpose)

/-- `calc_covariance_mat_total` / `StandardQTomography.calc_covariance_mat_total`: one covariance block per
(sample size, distribution). -/
def covBlocks [Sub K] [Mul K] [Div K] [Zero K] :
    List ((m : Nat) × Vec K m × K) → List (Block K)
  | [] => []
  | ⟨m, q, n⟩ :: r => ⟨m, covMat q n⟩ :: covBlocks r

end alg

/-! ## probabilities: validation, replacement, Fisher matrix (lists, as the code iterates) -/
section fisher
variable {K : Type} [Add K] [Sub K] [Mul K] [Div K] [Neg K] [Zero K] [One K] [NatCast K]
  [LT K] [DecidableLT K] [LE K] [DecidableLE K]

def kabs (x : K) : K := if x < 0 then -x else x

/-- `validate_prob_dist(prob_dist, eps)` (sum check on) -/
def validate (ps : List K) (eps : K) : Except Err Unit :=
  if ps.any (fun p => decide (p < 0) && !decide (kabs p ≤ eps)) then .error .negative
  else if !decide (kabs (lsum ps - 1) ≤ eps) then .error .sumNotOne
  else .ok ()

/-- `replace_prob_dist(prob_dist, eps)` -/
def replaceProbDist (ps : List K) (eps : K) : List K :=
  let size : Nat := ps.length
  let cnt : Nat := (ps.filter fun p => decide (p < eps)).length
  ps.map fun p => if p < eps then eps else p - (eps * (cnt : K)) / ((size - cnt : Nat) : K)

/-- `Σ_x outer(g_x, g_x) / prob_x` as a list of rows of length `sv` -/
def fisherRaw (sv : Nat) (probs : List K) (grads : List (List K)) : List (List K) :=
  (List.range sv).map fun a => (List.range sv).map fun b =>
    lsum ((probs.zip grads).map fun (pr, g) => (g.getD a 0) * (g.getD b 0) / pr)

/-- `matrix_util.calc_fisher_matrix(prob_dist, grad_prob_dist, eps)`; `eps` already resolved
(`None ↦ 1e-8`). Order of checks as in the code. Ragged gradient lists are outside the model (`ragged`). -/
def fisher (ps : List K) (grads : List (List K)) (eps : K) : Except Err (Nat × List (List K)) := do
  validate ps eps
  if ps.length ≠ grads.length then throw .sizeMismatch
  if eps ≤ 0 then throw .epsNonPos
  let rep := replaceProbDist ps eps
  match grads with
  | [] => throw .empty
  | g0 :: _ =>
    let sv := g0.length
    if grads.any (fun g => g.length ≠ sv) then throw .ragged
    return (sv, fisherRaw sv rep grads)

def zeroRows (k : Nat) : List (List K) := (List.range k).map fun _ => (List.range k).map fun _ => (0 : K)

def addRows (A B : List (List K)) : List (List K) := (A.zip B).map fun (r, s) => (r.zip s).map fun (x, y) => x + y

/-- numpy's `matrix += w * F` for a `size×size` accumulator and an `sv×sv` term: same shape adds,
a `1×1` term is broadcast over the whole accumulator, anything else is the broadcast `ValueError`. -/
def accumulate (size : Nat) (acc : List (List K)) (w : K) (sv : Nat) (F : List (List K)) :
    Except Err (List (List K)) :=
  if sv = size then .ok (addRows acc (F.map fun r => r.map fun x => w * x))
  else if sv = 1 then
    let x := w * ((F.getD 0 []).getD 0 0)
    .ok (acc.map fun r => r.map fun y => y + x)
  else .error .broadcast

/-- the accumulation loop of `calc_fisher_matrix_total`: `matrix += weights[index] * calc_fisher_matrix(…)` -/
def fisherAcc (size : Nat) (eps : K) :
    List (List K × List (List K)) → List K → List (List K) → Except Err (List (List K))
  | [], _, acc => .ok acc
  | _ :: _, [], _ => .error .sizeMismatch           -- `weights[index]` IndexError (excluded by the length test)
  | (ps, grads) :: r, w :: ws, acc => do
      let (sv, F) ← fisher ps grads eps
      let acc' ← accumulate size acc w sv F
      fisherAcc size eps r ws acc'

/-- `matrix_util.calc_fisher_matrix_total`: the numbers of distributions, gradient lists and weights must
agree, weights are validated completely before anything is computed, and the accumulator has the size of
the first gradient vector (the number of variables). -/
def fisherTotal (pss : List (List K)) (gradss : List (List (List K))) (ws : List K) (eps : K) :
    Except Err (Nat × List (List K)) :=
  if pss.length ≠ gradss.length then .error .sizeMismatch
  else if pss.length ≠ ws.length then .error .sizeMismatch
  else if ws.any (fun w => decide (w < 0)) then .error .weightNeg
  else
    match gradss with
    | [] => .error .empty
    | [] :: _ => .error .empty
    | (g00 :: _) :: _ =>
      let size := g00.length
      match fisherAcc size eps (pss.zip gradss) ws (zeroRows size) with
      | .ok acc => .ok (size, acc)
      | .error e => .error e

end fisher

/-! ## sample statistics helpers -/
section stats
variable {K : Type} [Add K] [Sub K] [Mul K] [Div K] [Zero K] [NatCast K]

/-- `np.vdot(x - y, x - y)` for real 1-d arrays: numpy's `x - y` needs equal lengths or one operand of length 1
(broadcast); anything else is the broadcast `ValueError`. -/
def sqDist (x y : List K) : Except Err K :=
  let bx := if x.length = 1 ∧ y.length ≠ 1 then List.replicate y.length (x.headD 0) else x   -- head exists: length 1
  let by_ := if y.length = 1 ∧ x.length ≠ 1 then List.replicate x.length (y.headD 0) else y
  if bx.length = by_.length then .ok (lsum ((bx.zip by_).map fun (a, b) => (a - b) * (a - b)))
  else .error .broadcast

/-- `calc_se(xs, ys)`: Python's `zip(xs, ys)` truncates to the shorter list -/
def se (xs ys : List (List K)) : Except Err K := do
  let ds ← (xs.zip ys).mapM fun (x, y) => sqDist x y
  pure (lsum ds)

/-- `np.mean(l)`; `none` = numpy's `nan` (empty input, RuntimeWarning) -/
def mean? (l : List K) : Option K := if l.isEmpty then none else some (lsum l / (l.length : K))

/-- square of `np.std(l, ddof=ddof)`; `none` = numpy's `nan` (no degree of freedom left) -/
def varDdof? (ddof : Nat) (l : List K) : Option K :=
  if l.length ≤ ddof then none
  else
    let mu := lsum l / (l.length : K)
    some (lsum (l.map fun x => (x - mu) * (x - mu)) / ((l.length - ddof : Nat) : K))

/-- `calc_mse_prob_dists(xs_list, ys_list)`: (mean, std²) of the per-repetition squared errors, `ddof = 1` -/
def mseProbDists (xsl ysl : List (List (List K))) : Except Err (Option K × Option K) := do
  let ses ← (xsl.zip ysl).mapM fun (xs, ys) => se xs ys
  pure (mean? ses, varDdof? 1 ses)

end stats

/-! ## the StandardQTomography formulas -/
section qt
variable {K : Type} [Add K] [Sub K] [Mul K] [Div K] [Zero K] [One K]

/-- `_calc_mse_linear_analytical_mode_var`: `trace(A⁺ · (⊕_s Cov_s) · A⁺ᵀ)` -/
def mseLinearVar (bs : List (Block K)) {k : Nat} (Ainv : Mat K k (dsSize bs)) : K :=
  (conjugate Ainv (directSum bs)).trace

/-- `StandardPovmt._generate_matS`: `np.hstack([I_{d2}] * (num_outcomes − 1))` -/
def matSWith (off d2 mo : Nat) : Mat K d2 ((mo - off) * d2) :=
  Mat.ofFn fun a j => if j.val % d2 = a.val then 1 else 0

/-- the matrix with the code's block count `num_outcomes − 1` -/
def matS (d2 mo : Nat) : Mat K d2 ((mo - 1) * d2) := matSWith 1 d2 mo

/-- `StandardPovmt._calc_mse_linear_analytical_mode_qoperation` for `on_para_eq_constraint = True`:
first term + `trace(S · Cov_lin · Sᵀ)`; `ValueError` (shape) when `S` and the covariance do not fit. -/
def mseLinearPovmQop (bs : List (Block K)) {k : Nat} (Ainv : Mat K k (dsSize bs)) (d2 mo : Nat) :
    Except Err K :=
  if h : k = (mo - 1) * d2 then
    let covLin : Mat K ((mo - 1) * d2) ((mo - 1) * d2) := h ▸ conjugate Ainv (directSum bs)
    .ok (mseLinearVar bs Ainv + (conjugate (matS d2 mo) covLin).trace)
  else .error .shape

/-- `StandardQTomography._calc_mse_linear_analytical_mode_qoperation` of the base class — used as it is by
`StandardQst`, `StandardQpt` and `StandardQmpt`: the `var` value, whatever the parametrisation. -/
def mseLinearQopBase (bs : List (Block K)) {k : Nat} (Ainv : Mat K k (dsSize bs)) : K := mseLinearVar bs Ainv

/-- the map from the variables of an `MProcess` with `on_para_eq_constraint=True` (all of `hs_0 … hs_{mo−2}`, rows
`1…` of the last one) to the row the object does not store: `(S v)_a = Σ_{k<mo−1} v[k·d2² + a]`, the sum of the
first rows of the stored HS matrices (the implied first row of the last one is `e_0 −` this). -/
def matSQmpt (d2 mo : Nat) : Mat K d2 (mo * (d2 * d2) - d2) :=
  Mat.ofFn fun a j => if j.val < (mo - 1) * (d2 * d2) ∧ j.val % (d2 * d2) = a.val then 1 else 0

/-- what the object-mode MSE of a measurement-process tomography has to be (not in the code: finding D13):
squared error of the stored entries + squared error of the implied row. -/
def mseLinearQmptObject (bs : List (Block K)) (d2 mo : Nat) (Ainv : Mat K (mo * (d2 * d2) - d2) (dsSize bs)) : K :=
  mseLinearVar bs Ainv + mseLinearVar bs ((matSQmpt d2 mo).mul Ainv)

/-- `calc_mse_empi_dists_analytical`: `Σ_s trace(Cov_s)` accumulated from `0.0` -/
def mseEmpi : List (Block K) → K
  | [] => 0
  | ⟨_, B⟩ :: r => B.trace + mseEmpi r

end qt

section qtfisher
variable {K : Type} [Add K] [Sub K] [Mul K] [Div K] [Neg K] [Zero K] [One K] [NatCast K]
  [LT K] [DecidableLT K] [LE K] [DecidableLE K]

/-- `StandardQTomography.calc_fisher_matrix(j, var)`: `size_prob_dist = int(len(matA) / num_schedules)`,
rows `size·j … size·(j+1)` of `matA`/`vecB` (slices clip silently like Python's), default eps `1e-8`. -/
def fisherQt (matA : List (List K)) (vecB : List K) (numSched j : Nat) (var : List K) (eps : K) :
    Except Err (Nat × List (List K)) :=
  let size := matA.length / numSched
  let rows := (matA.drop (size * j)).take size
  let bsl := (vecB.drop (size * j)).take size
  let ps := (rows.zip bsl).map fun (r, b) => lsum ((r.zip var).map fun (a, v) => a * v) + b
  fisher ps rows eps

/-- one summand of `calc_fisher_matrix_total(var, weights)`: `weights[j] * calc_fisher_matrix(j, var)`
(`IndexError` ⇒ sizeMismatch when there are fewer weights than schedules) -/
def fisherQtTerm (matA : List (List K)) (vecB : List K) (numSched : Nat) (var : List K)
    (ws : List K) (eps : K) (j : Nat) : Except Err (Nat × List (List K)) :=
  match ws[j]? with
  | none => .error .sizeMismatch
  | some w => do
    let (sv, F) ← fisherQt matA vecB numSched j var eps
    pure (sv, F.map fun r => r.map fun x => w * x)

/-- python `sum([...])` of the summands (first summand + the others; the matrix size is that of the first) -/
def sumTerms : List (Nat × List (List K)) → Except Err (Nat × List (List K))
  | [] => .error .empty
  | (sv, F) :: r => .ok (sv, r.foldl (fun acc t => addRows acc t.2) F)

/-- `calc_fisher_matrix_total(var, weights)`: every summand is computed (list comprehension over `range(num_schedules)`), then summed -/
def fisherQtTotal (matA : List (List K)) (vecB : List K) (numSched : Nat) (var : List K)
    (ws : List K) (eps : K) : Except Err (Nat × List (List K)) := do
  let terms ← (List.range numSched).mapM (fisherQtTerm matA vecB numSched var ws eps)
  sumTerms terms

end qtfisher

section crb
variable {K : Type} [Add K] [Mul K] [Div K] [Zero K] [One K]

/-- `_calc_cramer_rao_bound`: `trace(inv(F)) / N`, `Finv = np.linalg.inv(fisher)` handed in -/
def crb {nv : Nat} (Finv : Mat K nv nv) (N : K) : K := Finv.trace / N

/-- the object-parametrisation bound for a measurement-process tomography (not in the code: finding D13b) -/
def crbQmptObject (d2 mo : Nat) (Finv : Mat K (mo * (d2 * d2) - d2) (mo * (d2 * d2) - d2)) (N : K) : K :=
  crb Finv N + (conjugate (matSQmpt d2 mo) Finv).trace / N

/-- `StandardPovmt.calc_cramer_rao_bound` for `on_para_eq_constraint = True` -/
def crbPovm (d2 mo : Nat) (Finv : Mat K ((mo - 1) * d2) ((mo - 1) * d2)) (N : K) : K :=
  crb Finv N + (conjugate (matS d2 mo) Finv).trace / N

end crb

/-! ## the multinomial law as a finite distribution -/
section law
variable {K : Type}

/-- one more observation of outcome `i` -/
def bump {m : Nat} (c : Vec Nat m) (i : Fin m) : Vec Nat m :=
  Vec.ofFn fun j => if j = i then c.get j + 1 else c.get j

/-- expectation of `g(counts)` when `counts ~ Multinomial(n, p)`:
`E_0 g = g 0`, `E_{n+1} g = Σ_i p_i · E_n (g ∘ (· + e_i))`. -/
def expectN [Add K] [Mul K] [Zero K] {m : Nat} (p : Vec K m) : Nat → (Vec Nat m → K) → K
  | 0, g => g (Vec.ofFn fun _ => 0)
  | n + 1, g => fsum m fun i => p.get i * expectN p n (fun c => g (bump c i))

/-- empirical distribution `counts / n` -/
def empi [Div K] [NatCast K] {m : Nat} (c : Vec Nat m) (n : Nat) : Vec K m :=
  Vec.ofFn fun i => (c.get i : K) / (n : K)

/-- exact covariance of the empirical distribution: `E[(f − p)(f − p)ᵀ]` -/
def covExact [Add K] [Sub K] [Mul K] [Div K] [Zero K] [NatCast K] {m : Nat} (p : Vec K m) (n : Nat) :
    Mat K m m :=
  Mat.ofFn fun i j => expectN p n fun c =>
    ((empi (K := K) c n).get i - p.get i) * ((empi (K := K) c n).get j - p.get j)

/-- squared Euclidean norm -/
def normSq [Add K] [Mul K] [Zero K] {k : Nat} (v : Vec K k) : K := v.dot v

/-- exact mean squared error of the empirical distribution: `E ‖f − p‖²` -/
def mseEmpiExact [Add K] [Sub K] [Mul K] [Div K] [Zero K] [NatCast K] {m : Nat} (p : Vec K m) (n : Nat) : K :=
  expectN p n fun c => normSq ((empi (K := K) c n).sub p)

/-- product law over schedules with a common outcome count `m`:
expectation of `g (counts of schedule 0, counts of schedule 1, …)` -/
def expectJoint [Add K] [Mul K] [Zero K] {m : Nat} :
    List (Vec K m × Nat) → (List (Vec Nat m) → K) → K
  | [], g => g []
  | (p, n) :: r, g => expectN p n fun c => expectJoint r fun cs => g (c :: cs)

/-- error of a linear estimate `Σ_s L_s (f_s − p_s)` (the column blocks `L_s` of `A⁺`) -/
def linErr [Add K] [Sub K] [Mul K] [Div K] [Zero K] [NatCast K] {m k : Nat} :
    List (Mat K k m × Vec K m × Nat) → List (Vec Nat m) → Vec K k
  | (L, p, n) :: r, c :: cs => (L.mulVec ((empi (K := K) c n).sub p)).add (linErr r cs)
  | _, _ => Vec.zero

/-- exact mean squared error of the linear estimate over the product law -/
def mseLinearExact [Add K] [Sub K] [Mul K] [Div K] [Zero K] [NatCast K] {m k : Nat}
    (l : List (Mat K k m × Vec K m × Nat)) : K :=
  expectJoint (l.map fun x => (x.2.1, x.2.2)) fun cs => normSq (linErr l cs)

end law

/-- the default `eps` of `calc_fisher_matrix` / `replace_prob_dist` / `calc_fisher_matrix_total` (`1e-8`), used by the driver
when the implementation is called without `eps` (request token `default`) -/
def defaultEps : Rat := mkRat 1 100000000

def parseEps? (s : String) : Option Rat := if s = "default" then some defaultEps else parseRat? s

/-! ## driver -/

def mkMat (r c : Nat) (l : List Rat) : Option (Mat Rat r c) :=
  if l.length = r * c then
    let a := l.toArray
    some (Mat.ofFn fun i j => a.getD (i.val * c + j.val) 0)  -- in range by the length test above
  else none

def mkVec (n : Nat) (l : List Rat) : Option (Vec Rat n) :=
  if l.length = n then
    let a := l.toArray
    some (Vec.ofFn fun i => a.getD i.val 0)
  else none

def matToList {r c : Nat} (A : Mat Rat r c) : List Rat :=
  (List.finRange r).flatMap fun i => (List.finRange c).map fun j => A.get i j

def showMat {r c : Nat} (A : Mat Rat r c) : String :=
  s!"ok {r} {c} {showList showRat (matToList A)}"

def showRows (x : Except Err (Nat × List (List Rat))) : String :=
  match x with
  | .error e => s!"err {e.toString}"
  | .ok (n, rows) => s!"ok {n} {n} {showList showRat rows.flatten}"

/-- split a flat list into rows of length `c` -/
def chunk (c : Nat) (l : List Rat) : Nat → List (List Rat)
  | 0 => []
  | r + 1 => l.take c :: chunk c (l.drop c) r

/-- `k r1 c1 flat1 r2 c2 flat2 …` -/
def parseRBlocks : Nat → List String → Option (List (RBlock Rat) × List String)
  | 0, rest => some ([], rest)
  | k + 1, r :: c :: fl :: rest => do
      let r ← parseNat? r
      let c ← parseNat? c
      let fl ← parseList? parseRat? fl
      let M ← mkMat r c fl
      let (bs, rest') ← parseRBlocks k rest
      some (⟨r, c, M⟩ :: bs, rest')
  | _, _ => none

/-- `k n1 q1 n2 q2 …` (sample size, distribution) -/
def parseCovArgs : Nat → List String → Option (List ((m : Nat) × Vec Rat m × Rat) × List String)
  | 0, rest => some ([], rest)
  | k + 1, n :: qs :: rest => do
      let n ← parseRat? n
      let qs ← parseList? parseRat? qs
      let v ← mkVec qs.length qs
      let (l, rest') ← parseCovArgs k rest
      some (⟨qs.length, v, n⟩ :: l, rest')
  | _, _ => none

def parseLists : Nat → List String → Option (List (List Rat) × List String)
  | 0, rest => some ([], rest)
  | k + 1, x :: rest => do
      let x ← parseList? parseRat? x
      let (l, rest') ← parseLists k rest
      some (x :: l, rest')
  | _, _ => none

/-- `k  (cnt_1 list…)  …  (cnt_k list…)` -/
def parseListLists : Nat → List String → Option (List (List (List Rat)) × List String)
  | 0, rest => some ([], rest)
  | k + 1, cnt :: rest => do
      let cnt ← parseNat? cnt
      let (x, rest') ← parseLists cnt rest
      let (l, rest'') ← parseListLists k rest'
      some (x :: l, rest'')
  | _, _ => none

/-- joint law arguments with a common outcome count `m` and estimate size `k`:
`S  n_1 p_1 L_1  …` (`L_s` flat `k×m`) -/
def parseJoint (m k : Nat) : Nat → List String → Option (List (Mat Rat k m × Vec Rat m × Nat))
  | 0, [] => some []
  | s + 1, n :: p :: L :: rest => do
      let n ← parseNat? n
      let p ← parseList? parseRat? p
      let p ← mkVec m p
      let L ← parseList? parseRat? L
      let L ← mkMat k m L
      let r ← parseJoint m k s rest
      some ((L, p, n) :: r)
  | _, _ => none

def handle (args : List String) : Option String :=
  match args with
  | ["cov", qs, n] => do
      let qs ← parseList? parseRat? qs
      let n ← parseRat? n
      let v ← mkVec qs.length qs
      some (showMat (covMat v n))
  | "covtot" :: k :: rest => do
      let k ← parseNat? k
      let (l, rest') ← parseCovArgs k rest
      if !rest'.isEmpty then none
      some (showMat (directSum (covBlocks l)))
  | "dsum" :: k :: rest => do
      let k ← parseNat? k
      let (bs, rest') ← parseRBlocks k rest
      if !rest'.isEmpty then none
      match dsCheck bs with
      | .error e => some s!"err {e.toString}"
      | .ok sq => some (showMat (directSum sq))
  | ["conj", k, n, x, v] => do
      let k ← parseNat? k
      let n ← parseNat? n
      let X ← mkMat k n (← parseList? parseRat? x)
      let V ← mkMat n n (← parseList? parseRat? v)
      some (showMat (conjugate X V))
  | ["leftinv", m, n, a, rank, g] => do
      let m ← parseNat? m
      let n ← parseNat? n
      let A ← mkMat m n (← parseList? parseRat? a)
      let rank ← parseNat? rank
      let G ← mkMat n n (← parseList? parseRat? g)
      match leftInv A rank G with
      | .error e => some s!"err {e.toString}"
      | .ok L => some (showMat L)
  | ["replace", ps, eps] => do
      let ps ← parseList? parseRat? ps
      let eps ← parseEps? eps
      some s!"ok {showList showRat (replaceProbDist ps eps)}"
  | "fisher" :: ps :: eps :: k :: rest => do
      let ps ← parseList? parseRat? ps
      let eps ← parseEps? eps
      let k ← parseNat? k
      let (grads, rest') ← parseLists k rest
      if !rest'.isEmpty then none
      some (showRows (fisher ps grads eps))
  | "fishertot" :: eps :: ws :: k :: rest => do
      let eps ← parseEps? eps
      let ws ← parseList? parseRat? ws
      let k ← parseNat? k
      let (pss, rest') ← parseLists k rest
      let kg ← parseNat? (← rest'.head?)
      let (gradss, rest'') ← parseListLists kg rest'.tail
      if !rest''.isEmpty then none
      some (showRows (fisherTotal pss gradss ws eps))
  | "se" :: k :: rest => do
      let k ← parseNat? k
      let (xs, rest') ← parseLists k rest
      let k2 ← parseNat? (← rest'.head?)
      let (ys, rest'') ← parseLists k2 rest'.tail
      if !rest''.isEmpty then none
      match se xs ys with
      | .ok v => some s!"ok {showRat v}"
      | .error e => some s!"err {e.toString}"
  | "mseprob" :: k :: rest => do
      let k ← parseNat? k
      let (xsl, rest') ← parseListLists k rest
      let k2 ← parseNat? (← rest'.head?)
      let (ysl, rest'') ← parseListLists k2 rest'.tail
      if !rest''.isEmpty then none
      let sh := fun (o : Option Rat) => match o with | some v => showRat v | none => "nan"
      match mseProbDists xsl ysl with
      | .ok (mu, v) => some s!"ok {sh mu} {sh v}"
      | .error e => some s!"err {e.toString}"
  | "mselin" :: mode :: d2 :: mo :: kk :: ainv :: k :: rest => do
      -- mode: var | povmq ; Ainv flat kk × (Σ outcome counts)
      let d2 ← parseNat? d2
      let mo ← parseNat? mo
      let kk ← parseNat? kk
      let k ← parseNat? k
      let (l, rest') ← parseCovArgs k rest
      if !rest'.isEmpty then none
      let bs := covBlocks l
      let Ainv ← mkMat kk (dsSize bs) (← parseList? parseRat? ainv)
      if mode = "var" then some s!"ok {showRat (mseLinearVar bs Ainv)}"
      else if mode = "povmq" then
        match mseLinearPovmQop bs Ainv d2 mo with
        | .error e => some s!"err {e.toString}"
        | .ok v => some s!"ok {showRat v}"
      else none
  | "mseempi" :: k :: rest => do
      let k ← parseNat? k
      let (l, rest') ← parseCovArgs k rest
      if !rest'.isEmpty then none
      some s!"ok {showRat (mseEmpi (covBlocks l))}"
  | ["fisherqt", rows, cols, a, b, ns, j, var, eps] => do
      let rows ← parseNat? rows
      let cols ← parseNat? cols
      let a ← parseList? parseRat? a
      if a.length ≠ rows * cols then none
      let b ← parseList? parseRat? b
      let ns ← parseNat? ns
      let j ← parseNat? j
      let var ← parseList? parseRat? var
      let eps ← parseEps? eps
      some (showRows (fisherQt (chunk cols a rows) b ns j var eps))
  | ["fisherqttot", rows, cols, a, b, ns, ws, var, eps] => do
      let rows ← parseNat? rows
      let cols ← parseNat? cols
      let a ← parseList? parseRat? a
      if a.length ≠ rows * cols then none
      let b ← parseList? parseRat? b
      let ns ← parseNat? ns
      let ws ← parseList? parseRat? ws
      let var ← parseList? parseRat? var
      let eps ← parseEps? eps
      some (showRows (fisherQtTotal (chunk cols a rows) b ns var ws eps))
  | ["crb", nv, finv, n] => do
      let nv ← parseNat? nv
      let F ← mkMat nv nv (← parseList? parseRat? finv)
      let n ← parseRat? n
      some s!"ok {showRat (crb F n)}"
  | ["crbpovm", d2, mo, finv, n] => do
      let d2 ← parseNat? d2
      let mo ← parseNat? mo
      let F ← mkMat ((mo - 1) * d2) ((mo - 1) * d2) (← parseList? parseRat? finv)
      let n ← parseRat? n
      some s!"ok {showRat (crbPovm d2 mo F n)}"
  | ["matsqmpt", d2, mo] => do
      let d2 ← parseNat? d2
      let mo ← parseNat? mo
      some (showMat (matSQmpt (K := Rat) d2 mo))
  | ["mats", d2, mo] => do
      let d2 ← parseNat? d2
      let mo ← parseNat? mo
      some (showMat (matS (K := Rat) d2 mo))
  | ["enumcov", ps, n] => do
      let ps ← parseList? parseRat? ps
      let n ← parseNat? n
      let v ← mkVec ps.length ps
      some (showMat (covExact v n))
  | ["enummseempi", ps, n] => do
      let ps ← parseList? parseRat? ps
      let n ← parseNat? n
      let v ← mkVec ps.length ps
      some s!"ok {showRat (mseEmpiExact v n)}"
  | "enummselin" :: m :: k :: s :: rest => do
      let m ← parseNat? m
      let k ← parseNat? k
      let s ← parseNat? s
      let l ← parseJoint m k s rest
      some s!"ok {showRat (mseLinearExact l)}"
  | _ => none

end QM.C19
