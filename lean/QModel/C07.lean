import QModel.Core
/-! C07 — model (not built yet) -/
namespace QM.C07
def handle (_args : List String) : Option String := none
end QM.C07
